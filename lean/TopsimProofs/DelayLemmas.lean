/-
  TopsimProofs.DelayLemmas — lemmas about `generateDelay` cited by
  TopsimProps.C15.
-/
import TopsimModel.Delay

namespace Topsim

/-- `Except` has no `DecidableEq` instance in core; the closed examples of C15
are checked by `decide`. -/
instance instDecidableEqExcept {ε α} [DecidableEq ε] [DecidableEq α] : DecidableEq (Except ε α)
  | .ok a, .ok b =>
    if h : a = b then isTrue (by rw [h]) else isFalse (by intro h'; cases h'; exact h rfl)
  | .error a, .error b =>
    if h : a = b then isTrue (by rw [h]) else isFalse (by intro h'; cases h'; exact h rfl)
  | .ok _, .error _ => isFalse (by intro h; cases h)
  | .error _, .ok _ => isFalse (by intro h; cases h)

/-- a value picked by `pickAboveMean` is one of the samples above the mean -/
theorem pickAboveMean_gt (r : Nat) (s : List Rat) (v : Rat)
    (h : pickAboveMean r s = .ok v) : (r : Rat) < v := by
  unfold pickAboveMean at h
  simp only at h
  split at h
  · rename_i w hw
    injection h with h
    subst h
    have hm : w ∈ s.filter (fun x => x > (r : Rat)) := List.mem_of_getElem? hw
    have := (List.mem_filter.mp hm).2
    simpa using this
  · cases h

/-- truncation of a rational above a natural stays at or above it -/
theorem le_truncRat_of_lt (r : Nat) (v : Rat) (h : (r : Rat) < v) : (r : Int) ≤ truncRat v := by
  have h0 : (0 : Rat) ≤ (r : Rat) := by
    have : ((0 : Nat) : Rat) ≤ (r : Rat) := by
      exact_mod_cast Nat.zero_le r
    simpa using this
  have hv : v ≥ 0 := Rat.le_trans h0 (Rat.le_of_lt h)
  unfold truncRat
  rw [if_pos hv]
  apply Rat.le_floor_iff.mpr
  exact Rat.le_of_lt h

theorem delay_ge (r : Nat) (dz : Bool) (dist : Dist) (p u : Rat) (s : List Rat) (v : Int)
    (h : generateDelay r dz dist p u s = .ok v) : (r : Int) ≤ v := by
  unfold generateDelay at h
  split at h
  · injection h with h; omega
  · split at h
    · cases dist
      · simp only at h
        split at h
        · rename_i w hw
          injection h with h
          subst h
          exact le_truncRat_of_lt r w (pickAboveMean_gt r s w hw)
        · cases h
      · cases h
      · cases h
    · injection h with h; omega

theorem delay_prob_zero (r : Nat) (dz : Bool) (dist : Dist) (u : Rat) (s : List Rat) (hu : 0 ≤ u) :
    generateDelay r dz dist 0 u s = .ok r := by
  have hnot : ¬ u < 0 := Rat.not_lt.mpr hu
  unfold generateDelay
  split
  · rfl
  · first | rfl | rw [if_neg hnot]

theorem delay_never_fails_neg :
    ¬ (∀ (r : Nat) (dz : Bool) (dist : Dist) (p u : Rat) (s : List Rat),
        0 ≤ u → u < 1 → s.length = 100 → ∃ v, generateDelay r dz dist p u s = .ok v) := by
  intro h
  have h0 : (0 : Rat) ≤ 0 := by decide
  have h1 : (0 : Rat) < 1 := by decide
  have hl : (List.replicate 100 (0 : Rat)).length = 100 := by simp
  obtain ⟨v, hv⟩ := h 0 false .poisson 1 0 (List.replicate 100 0) h0 h1 hl
  have : generateDelay 0 false .poisson 1 0 (List.replicate 100 0) = .error .type := by
    simp [generateDelay, h1]
  rw [this] at hv
  cases hv

theorem delay_normal_ok (r : Nat) (dz : Bool) (p u : Rat) (s : List Rat)
    (h : ∃ x ∈ s, x > (r : Rat)) : ∃ v, generateDelay r dz .normal p u s = .ok v := by
  obtain ⟨x, hx, hgt⟩ := h
  have hm : x ∈ s.filter (fun y => y > (r : Rat)) := by
    apply List.mem_filter.mpr
    exact ⟨hx, by simpa using hgt⟩
  have hlen : 0 < (s.filter (fun y => y > (r : Rat))).length := List.length_pos_of_mem hm
  have hidx : (s.filter (fun y => y > (r : Rat))).length / 2 <
      (s.filter (fun y => y > (r : Rat))).length := by omega
  have hpick : pickAboveMean r s = .ok ((s.filter (fun y => y > (r : Rat)))[(s.filter (fun y => y > (r : Rat))).length / 2]) := by
    unfold pickAboveMean
    simp only
    rw [List.getElem?_eq_getElem hidx]
  unfold generateDelay
  split
  · exact ⟨_, rfl⟩
  · split
    · simp only [hpick]
      exact ⟨_, rfl⟩
    · exact ⟨_, rfl⟩

end Topsim
