/-
  TopsimProofs.DelayLemmas — lemmas about `generateDelay` cited by
  TopsimProps.C15.
-/
import TopsimModel.Delay

namespace Topsim

/-- `Except` has no `DecidableEq` instance in core; the closed examples of C15
are checked by `decide`. -/
instance instDecidableEqExcept {ε α} [DecidableEq ε] [DecidableEq α] : DecidableEq (Except ε α)
  | .ok a, .ok b =>
    if h : a = b then isTrue (by rw [h]) else isFalse (by intro h'; cases h'; exact h rfl)
  | .error a, .error b =>
    if h : a = b then isTrue (by rw [h]) else isFalse (by intro h'; cases h'; exact h rfl)
  | .ok _, .error _ => isFalse (by intro h; cases h)
  | .error _, .ok _ => isFalse (by intro h; cases h)

/-- a value picked by `pickAboveMean` is the runtime itself or a sample above it -/
theorem pickAboveMean_ge (r : Nat) (s : List Rat) (v : Rat)
    (h : pickAboveMean r s = .ok v) : (r : Rat) ≤ v := by
  unfold pickAboveMean at h
  simp only at h
  split at h
  · injection h with h
    subst h
    exact Rat.le_refl
  · split at h
    · rename_i w hw
      injection h with h
      subst h
      have hm : w ∈ s.filter (fun x => x > (r : Rat)) := List.mem_of_getElem? hw
      have := (List.mem_filter.mp hm).2
      have hlt : (r : Rat) < w := by simpa using this
      exact Rat.le_of_lt hlt
    · cases h

/-- truncation of a rational at or above a natural stays at or above it -/
theorem le_truncRat_of_le (r : Nat) (v : Rat) (h : (r : Rat) ≤ v) : (r : Int) ≤ truncRat v := by
  have h0 : (0 : Rat) ≤ (r : Rat) := by
    have : ((0 : Nat) : Rat) ≤ (r : Rat) := by
      exact_mod_cast Nat.zero_le r
    simpa using this
  have hv : v ≥ 0 := Rat.le_trans h0 h
  unfold truncRat
  rw [if_pos hv]
  apply Rat.le_floor_iff.mpr
  exact h

theorem delay_ge (r : Nat) (dz : Bool) (dist : Dist) (p u : Rat) (s : List Rat) (v : Int)
    (h : generateDelay r dz dist p u s = .ok v) : (r : Int) ≤ v := by
  unfold generateDelay at h
  split at h
  · injection h with h; omega
  · split at h
    · cases dist
      · simp only at h
        split at h
        · rename_i w hw
          injection h with h
          subst h
          exact le_truncRat_of_le r w (pickAboveMean_ge r s w hw)
        · cases h
      · cases h
      · cases h
    · injection h with h; omega

theorem delay_prob_zero (r : Nat) (dz : Bool) (dist : Dist) (u : Rat) (s : List Rat) (hu : 0 ≤ u) :
    generateDelay r dz dist 0 u s = .ok r := by
  have hnot : ¬ u < 0 := Rat.not_lt.mpr hu
  unfold generateDelay
  split
  · rfl
  · first | rfl | rw [if_neg hnot]

theorem delay_never_fails_neg :
    ¬ (∀ (r : Nat) (dz : Bool) (dist : Dist) (p u : Rat) (s : List Rat),
        0 ≤ u → u < 1 → s.length = 100 → ∃ v, generateDelay r dz dist p u s = .ok v) := by
  intro h
  have h0 : (0 : Rat) ≤ 0 := by decide
  have h1 : (0 : Rat) < 1 := by decide
  have hl : (List.replicate 100 (0 : Rat)).length = 100 := by simp
  obtain ⟨v, hv⟩ := h 0 false .poisson 1 0 (List.replicate 100 0) h0 h1 hl
  have : generateDelay 0 false .poisson 1 0 (List.replicate 100 0) = .error .type := by
    simp [generateDelay, h1]
  rw [this] at hv
  cases hv

/-- `pickAboveMean` never fails -/
theorem pickAboveMean_ok (r : Nat) (s : List Rat) : ∃ v, pickAboveMean r s = .ok v := by
  unfold pickAboveMean
  simp only
  split
  · exact ⟨_, rfl⟩
  · rename_i hne
    have hidx : (s.filter (fun y => y > (r : Rat))).length / 2 <
        (s.filter (fun y => y > (r : Rat))).length := by omega
    rw [List.getElem?_eq_getElem hidx]
    exact ⟨_, rfl⟩

theorem delay_normal_ok (r : Nat) (dz : Bool) (p u : Rat) (s : List Rat) :
    ∃ v, generateDelay r dz .normal p u s = .ok v := by
  obtain ⟨w, hw⟩ := pickAboveMean_ok r s
  unfold generateDelay
  split
  · exact ⟨_, rfl⟩
  · split
    · simp only [hw]
      exact ⟨_, rfl⟩
    · exact ⟨_, rfl⟩

/-- with no sample above the mean (e.g. runtime 0: sigma = 0) nothing is added -/
theorem delay_no_sample_above (r : Nat) (dz : Bool) (p u : Rat) (s : List Rat)
    (h : ∀ x ∈ s, x ≤ (r : Rat)) : generateDelay r dz .normal p u s = .ok r := by
  have hf : s.filter (fun y => y > (r : Rat)) = [] := by
    apply List.filter_eq_nil_iff.mpr
    intro x hx
    have := h x hx
    simp only [gt_iff_lt, decide_eq_true_eq]
    exact Rat.not_lt.mpr this
  have hp : pickAboveMean r s = .ok (r : Rat) := by
    unfold pickAboveMean
    simp [hf]
  have ht : truncRat (r : Rat) = (r : Int) := by
    have h0 : (0 : Rat) ≤ (r : Rat) := by
      have : ((0 : Nat) : Rat) ≤ (r : Rat) := by exact_mod_cast Nat.zero_le r
      simpa using this
    unfold truncRat
    rw [if_pos h0]
    have hc : (r : Rat) = (((r : Int)) : Rat) := by exact_mod_cast rfl
    rw [hc, Rat.floor_intCast]
  unfold generateDelay
  split
  · rfl
  · split
    · simp only [hp, ht]
    · rfl

end Topsim
