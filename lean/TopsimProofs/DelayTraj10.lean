/-
  DelayTraj10 — concrete runs of the simulator for C15Traj (evaluated once each, by the kernel).

  `c04W1` (Witness1: one machine, chain `0 → 1`, queue algorithm, BatchPlanning), no delay model
  and the delay script `[3]`;
  `c15Ws` / `c15Wd` (two machines of speed 1; one observation of duration 1, ingest rate 1, planned
  start 0 / 3; workflow chain `0 → 1` with 2 and 1 units of work; DynamicSchedulingFromPlan with a
  static plan putting both tasks on machine 1): plans with generous / tight planned finishes.
-/
import TopsimProofs.DelayTraj9
import TopsimProofs.Witness1

namespace Topsim
namespace Sys

/-- the delay fields of the records, in table order -/
def delayView (s : Sys) : List ((Tid × TStatus × Bool) × (Int × Nat × Bool × Option Time)) :=
  s.tasks.map (fun r => ((r.id, r.status, r.delayFlag), (r.delayOffset, r.eft, r.allocObj, r.aft)))

/-- the bodies of the process table: task, machine, phase, total -/
def bodyView (s : Sys) : List (Tid × Mid × Nat × Nat) :=
  s.procs.filterMap (fun p => match p.k with | .doWork t m _ ph tot => some (t, m, ph, tot) | _ => none)

/-- finished, not crashed, not halted; the records; the report -/
def c15Chk (s : Sys) (recs : List ((Tid × TStatus × Bool) × (Int × Nat × Bool × Option Time)))
    (bodies : List (Tid × Mid × Nat × Nat)) (sd : Bool) (off : Int) : Bool :=
  s.isFinished && decide (s.crashed = none) && !s.halted && decide (delayView s = recs) &&
  decide (bodyView s = bodies) && decide (s.schedDelayed = sd) && decide (s.delayOffset = off)

theorem c15Chk_spec {s : Sys} {recs bodies sd off} (h : c15Chk s recs bodies sd off = true) :
    s.isFinished = true ∧ s.crashed = none ∧ s.halted = false ∧ delayView s = recs ∧ bodyView s = bodies ∧
    s.schedDelayed = sd ∧ s.delayOffset = off := by
  simpa [c15Chk, and_assoc] using h

/-! ### BatchPlanning, queue algorithm -/

/-- no delay model at all: every record is flagged, the report is DELAYED with offset 3 = 2 + 1 (the
runtimes, recorded as offsets by `update_allocation` against the planned duration 0) -/
theorem c15_c04S1_chk : c15Chk c04S1
    [((.ingest 0 0, .finished, true), (0, 0, false, some 1)), ((.wf 0 1 0, .finished, true), (2, 0, true, some 4)),
     ((.wf 0 1 1, .finished, true), (1, 0, true, some 6))]
    [(.ingest 0 0, 0, 3, 1), (.wf 0 1 0, 0, 3, 2), (.wf 0 1 1, 0, 3, 1)] true 3 = true := by
  decide +kernel

/-- the delay script `[3]` -/
def c15KScript : SimState := SimState.runUntil { delayScript := [3] } (14 : Nat) 400 (SimState.start c04W1)

theorem c15KScript_run : SimRun { delayScript := [3] } c04W1 c15KScript := SimRun.runUntil _ _ SimRun.start

theorem c15KScript_chk : c15Chk c15KScript.st
    [((.ingest 0 0, .finished, true), (0, 0, false, some 1)), ((.wf 0 1 0, .finished, true), (5, 0, true, some 7)),
     ((.wf 0 1 1, .finished, true), (4, 0, true, some 12))]
    [(.ingest 0 0, 0, 3, 1), (.wf 0 1 0, 0, 3, 5), (.wf 0 1 1, 0, 3, 4)] true 9 = true := by
  decide +kernel

/-! ### a static plan, DynamicSchedulingFromPlan -/

def c15ObsLate : Obs :=
  { id := 0, est := 3, duration := 1, demand := 1, rate := 1, ingestDemand := 1,
    wf := ⟨[(0, 2, 0), (1, 1, 0)], [(0, 1, 0)], [0, 1]⟩ }

/-- planned start 3 -/
def c15Wd : Sys :=
  { machines := [⟨0, 1, 1⟩, ⟨1, 1, 1⟩], totalArrays := 1, maxIngest := 1, alg := .dynamic, staticPlan := true,
    cl := Cluster.init [0, 1], buf := Buffer.init 100 10 100 10, obs := [c15ObsLate] }

/-- planned start 0 -/
def c15Ws : Sys := { c15Wd with obs := [{ c15ObsLate with est := 0 }] }

theorem c15Wd_wf : WFConfig c15Wd := by
  refine ⟨by decide, rfl, by decide, ?_, ⟨rfl, rfl, rfl, rfl, rfl, rfl, rfl, rfl, rfl, rfl, rfl, rfl, rfl,
    rfl, rfl, rfl, rfl⟩⟩
  intro o ho
  simp only [c15Wd, List.mem_cons, List.not_mem_nil, or_false] at ho
  subst ho
  exact ⟨rfl, rfl, by decide, by decide⟩

theorem c15Ws_wf : WFConfig c15Ws := by
  refine ⟨by decide, rfl, by decide, ?_, ⟨rfl, rfl, rfl, rfl, rfl, rfl, rfl, rfl, rfl, rfl, rfl, rfl, rfl,
    rfl, rfl, rfl, rfl⟩⟩
  intro o ho
  simp only [c15Ws, List.mem_cons, List.not_mem_nil, or_false] at ho
  subst ho
  exact ⟨rfl, rfl, by decide, by decide⟩

theorem c15Wd_rate : ∀ o ∈ c15Wd.obs, 0 < o.rate := by
  intro o ho
  simp only [c15Wd, List.mem_cons, List.not_mem_nil, or_false] at ho
  subst ho
  decide

theorem c15Ws_rate : ∀ o ∈ c15Ws.obs, 0 < o.rate := by
  intro o ho
  simp only [c15Ws, List.mem_cons, List.not_mem_nil, or_false] at ho
  subst ho
  decide

/-- planned finishes 100 and 200 -/
def c15EnvBig : SimEnv := { staticPlans := [(0, [(0, 1, 0, 100), (1, 1, 100, 200)])] }
/-- planned finishes 2 and 3 -/
def c15EnvTight : SimEnv := { staticPlans := [(0, [(0, 1, 0, 2), (1, 1, 2, 3)])] }
/-- planned finishes 100 and 200, every workflow task delayed by 3 -/
def c15EnvBigD : SimEnv := { staticPlans := [(0, [(0, 1, 0, 100), (1, 1, 100, 200)])], delayScript := [3] }

def c15KLate : SimState := SimState.runUntil c15EnvBig (14 : Nat) 400 (SimState.start c15Wd)
def c15KBig : SimState := SimState.runUntil c15EnvBig (14 : Nat) 400 (SimState.start c15Ws)
def c15KTight : SimState := SimState.runUntil c15EnvTight (14 : Nat) 400 (SimState.start c15Ws)
def c15KBigD : SimState := SimState.runUntil c15EnvBigD (20 : Nat) 600 (SimState.start c15Ws)

theorem c15KLate_run : SimRun c15EnvBig c15Wd c15KLate := SimRun.runUntil _ _ SimRun.start
theorem c15KBig_run : SimRun c15EnvBig c15Ws c15KBig := SimRun.runUntil _ _ SimRun.start
theorem c15KTight_run : SimRun c15EnvTight c15Ws c15KTight := SimRun.runUntil _ _ SimRun.start
theorem c15KBigD_run : SimRun c15EnvBigD c15Ws c15KBigD := SimRun.runUntil _ _ SimRun.start

/-- the workflow starts at 3, after the plan's `est` = 1: no workflow task is flagged, and the report is
DELAYED (the algorithm returned the plan status DELAYED) -/
theorem c15KLate_chk : c15Chk c15KLate.st
    [((.ingest 0 0, .finished, true), (0, 0, false, some 4)), ((.wf 0 3 0, .finished, false), (0, 100, false, some 5)),
     ((.wf 0 3 1, .finished, false), (0, 200, false, some 7))]
    [(.ingest 0 0, 0, 3, 1), (.wf 0 3 0, 1, 3, 2), (.wf 0 3 1, 1, 3, 1)] true 0 = true := by
  decide +kernel

/-- on time, generous plan, no delay: no workflow task is flagged, nothing is reported -/
theorem c15KBig_chk : c15Chk c15KBig.st
    [((.ingest 0 0, .finished, true), (0, 0, false, some 1)), ((.wf 0 1 0, .finished, false), (0, 100, false, some 3)),
     ((.wf 0 1 1, .finished, false), (0, 200, false, some 5))]
    [(.ingest 0 0, 0, 3, 1), (.wf 0 1 0, 1, 3, 2), (.wf 0 1 1, 1, 3, 1)] false 0 = true := by
  decide +kernel

/-- tight plan, no delay: both workflow tasks finish after their planned finish; flagged, offset 0 -/
theorem c15KTight_chk : c15Chk c15KTight.st
    [((.ingest 0 0, .finished, true), (0, 0, false, some 1)), ((.wf 0 1 0, .finished, true), (0, 2, false, some 3)),
     ((.wf 0 1 1, .finished, true), (0, 3, false, some 5))]
    [(.ingest 0 0, 0, 3, 1), (.wf 0 1 0, 1, 3, 2), (.wf 0 1 1, 1, 3, 1)] true 0 = true := by
  decide +kernel

/-- generous plan, delay 3 on every workflow task: flagged by the body, offsets 3 and 3, report 6 -/
theorem c15KBigD_chk : c15Chk c15KBigD.st
    [((.ingest 0 0, .finished, true), (0, 0, false, some 1)), ((.wf 0 1 0, .finished, true), (3, 100, false, some 6)),
     ((.wf 0 1 1, .finished, true), (3, 200, false, some 11))]
    [(.ingest 0 0, 0, 3, 1), (.wf 0 1 0, 1, 3, 5), (.wf 0 1 1, 1, 3, 4)] true 6 = true := by
  decide +kernel

/-- the record of a task of a table of three records, read off `delayView` -/
theorem delayView_task? {s : Sys} {x1 x2 x3 : (Tid × TStatus × Bool) × (Int × Nat × Bool × Option Time)}
    (h : delayView s = [x1, x2, x3]) (hne12 : x1.1.1 ≠ x2.1.1) (hne13 : x1.1.1 ≠ x3.1.1) (hne23 : x2.1.1 ≠ x3.1.1) :
    (∃ r, s.task? x1.1.1 = some r ∧ ((r.id, r.status, r.delayFlag), (r.delayOffset, r.eft, r.allocObj, r.aft)) = x1) ∧
    (∃ r, s.task? x2.1.1 = some r ∧ ((r.id, r.status, r.delayFlag), (r.delayOffset, r.eft, r.allocObj, r.aft)) = x2) ∧
    (∃ r, s.task? x3.1.1 = some r ∧ ((r.id, r.status, r.delayFlag), (r.delayOffset, r.eft, r.allocObj, r.aft)) = x3) := by
  unfold delayView at h
  cases ht : s.tasks with
  | nil => rw [ht] at h; simp at h
  | cons r1 l1 =>
    cases l1 with
    | nil => rw [ht] at h; simp at h
    | cons r2 l2 =>
      cases l2 with
      | nil => rw [ht] at h; simp at h
      | cons r3 l3 =>
        cases l3 with
        | cons r4 l4 => rw [ht] at h; simp at h
        | nil =>
          rw [ht] at h
          simp only [List.map_cons, List.map_nil, List.cons.injEq, and_true] at h
          obtain ⟨e1, e2, e3⟩ := h
          have i1 : r1.id = x1.1.1 := by rw [← e1]
          have i2 : r2.id = x2.1.1 := by rw [← e2]
          have i3 : r3.id = x3.1.1 := by rw [← e3]
          refine ⟨⟨r1, ?_, e1⟩, ⟨r2, ?_, e2⟩, ⟨r3, ?_, e3⟩⟩
          · unfold task?; rw [ht]; simp [i1]
          · unfold task?; rw [ht]
            simp only [List.find?_cons, i1, i2]
            simp [hne12]
          · unfold task?; rw [ht]
            simp only [List.find?_cons, i1, i2, i3]
            simp [hne13, hne23]

end Sys
end Topsim
