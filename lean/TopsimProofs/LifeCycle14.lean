/-
  LifeCycle14 — an emission is a state transition: for each kind, what holds before and after
  the step that emits the event.
-/
import TopsimProofs.LifeCycle13

namespace Topsim
namespace Sys

/-! ### records across one step -/

/-- the records after a step against the records before: same duration; the start time changes
only when the telescope admits the observation or its supervisor runs its first block; the status
changes only when the telescope finishes it or its supervisor runs -/
theorem step_recs (s : Sys) (pid : Nat) (orc : Oracle) (p : Proc) (hp : s.proc? pid = some p)
    (ha : p.alive = true) :
    ∀ o ob', (s.resume pid orc).1.obs? o = some ob' → ∃ ob, s.obs? o = some ob ∧
      ob'.duration = ob.duration ∧
      (ob'.ast = ob.ast ∨ (p.k = .telescope ∧ ob'.ast = some (natNow p.wake)) ∨
        (∃ tl, p.k = .allocIngest o tl ∧ p.pc = 0 ∧ ob'.ast = some (natNow p.wake))) ∧
      (ob'.status = ob.status ∨ (p.k = .telescope ∧ ob'.status = .finished) ∨
        (∃ tl, p.k = .allocIngest o tl ∧ ob.status = .waiting ∧ ob'.status = .running)) := by
  have hobsEq : (s.resume pid orc).1.obs = (s.block p orc).1.obs := (resume_alive s pid orc p hp ha).2.2.2.2.2.1
  intro o ob' hob'
  rw [obs?_congr hobsEq] at hob'
  by_cases hk : p.k = .telescope
  · rcases blockEvents_telescope (s := s) orc hk with ⟨_, hb, _⟩ | ⟨s0, e0, _, g2, _, _, _, _, _, hrun, _⟩
    · rw [hb] at hob'
      exact ⟨ob', hob', rfl, Or.inl rfl, Or.inl rfl⟩
    · obtain ⟨ob, hob, d, a1, s1⟩ := telRun_tobs hrun o ob' hob'
      rw [obs?_congr g2] at hob
      refine ⟨ob, hob, d, ?_, ?_⟩
      · rcases a1 with e | ⟨e, _⟩
        · exact Or.inl e
        · exact Or.inr (Or.inl ⟨hk, e⟩)
      · rcases s1 with e | ⟨e, _⟩
        · exact Or.inl e
        · exact Or.inr (Or.inl ⟨hk, e⟩)
  · by_cases hk2 : ∃ oid tl, p.k = .allocIngest oid tl
    · obtain ⟨oid, tl, hk2⟩ := hk2
      rw [block_allocIngest orc hk2] at hob'
      obtain ⟨ob, hob, d, a1, s1⟩ := allocIngestBlock_recs s p.wake p.pc oid tl o ob' hob'
      refine ⟨ob, hob, d, ?_, ?_⟩
      · rcases a1 with e | ⟨e0, e1, e2⟩
        · exact Or.inl e
        · subst e0; exact Or.inr (Or.inr ⟨tl, hk2, e1, e2⟩)
      · rcases s1 with e | ⟨e0, e1, e2⟩
        · exact Or.inl e
        · subst e0; exact Or.inr (Or.inr ⟨tl, hk2, e1, e2⟩)
    · have h1 : p.k.tag ≠ "telescope" := by
        intro e; apply hk; cases hpk : p.k <;> rw [hpk] at e <;> simp [PK.tag] at e <;> rfl
      have h2 : p.k.tag ≠ "allocIngest" := by
        intro e; apply hk2; cases hpk : p.k <;> rw [hpk] at e <;> simp [PK.tag] at e
        exact ⟨_, _, rfl⟩
      rw [obs?_congr (block_obs s p orc h1 h2)] at hob'
      exact ⟨ob', hob', rfl, Or.inl rfl, Or.inl rfl⟩

/-- durations stay what the configuration says: at least one timestep -/
theorem reach_durPos {s0 s : Sys} (hw : WFConfig s0) (h : Reach s0 s) :
    ∀ o ob, s.obs? o = some ob → 1 ≤ ob.duration := by
  induction h with
  | start =>
    intro o ob hob
    rw [obs?_congr (start_obs s0)] at hob
    exact (hw.obsWaiting ob (obs_mem_of_obs? hob).1).2.2.2
  | step s pid orc _ hen ih =>
    obtain ⟨p, hp, ha, _⟩ := hen
    intro o ob' hob'
    obtain ⟨ob, hob, d, _, _⟩ := step_recs s pid orc p hp ha o ob' hob'
    rw [d]; exact ih o ob hob

/-! ### the telescope's events -/

/-- an observation started in a run ends the run with that start time -/
theorem telRun_startedAst {n : Nat} {l : List Oid} {acc acc' : Sys × Option Err} {L : List Event}
    (h : TelRun n l acc acc' L) (o : Oid) (hm : (⟨n, o, .telStarted⟩ : Event) ∈ L) :
    ∃ ob', acc'.1.obs? o = some ob' ∧ ob'.ast = some n := by
  induction h with
  | nil acc => simp at hm
  | cons oid l acc acc1 acc2 t L ht hrun ih =>
    -- what the rest of the run does to a record stamped `n`
    have rest : (∃ ob1, acc1.1.obs? o = some ob1 ∧ ob1.ast = some n) →
        ∃ ob', acc2.1.obs? o = some ob' ∧ ob'.ast = some n := by
      rintro ⟨ob1, hob1, hast1⟩
      have hex : ∃ ob2, acc2.1.obs? o = some ob2 := by
        have : ∀ {m : Nat} {l : List Oid} {a b : Sys × Option Err} {L : List Event}, TelRun m l a b L →
            ∀ o, (∃ ob, a.1.obs? o = some ob) → ∃ ob, b.1.obs? o = some ob := by
          intro m l a b L hr
          induction hr with
          | nil => exact fun _ h => h
          | cons oid l a a1 a2 t L ht _ ih =>
            intro o ⟨ob, hob⟩
            apply ih
            cases ht with
            | quiet _ _ hobs => exact ⟨ob, by rw [obs?_congr hobs]; exact hob⟩
            | start ob0 _ _ _ _ _ _ _ hobs =>
              rw [lcObs?_updObs hobs (fun _ => rfl) o]
              split
              · exact ⟨_, by rw [hob]; rfl⟩
              · exact ⟨ob, hob⟩
            | finish ob0 a0 _ _ _ _ _ _ _ _ _ hobs =>
              rw [lcObs?_updObs hobs (fun _ => rfl) o]
              split
              · exact ⟨_, by rw [hob]; rfl⟩
              · exact ⟨ob, hob⟩
        exact this hrun o ⟨ob1, hob1⟩
      obtain ⟨ob2, hob2⟩ := hex
      obtain ⟨ob1', hob1', _, a1, _⟩ := telRun_tobs hrun o ob2 hob2
      rw [hob1] at hob1'; injection hob1' with e; subst e
      refine ⟨ob2, hob2, ?_⟩
      rcases a1 with e | ⟨e, _⟩
      · rw [e]; exact hast1
      · exact e
    rcases List.mem_append.mp hm with hm | hm
    · apply rest
      cases ht with
      | quiet => simp at hm
      | finish => simp at hm
      | start ob _ _ _ hob _ _ _ hobs =>
        simp at hm; subst hm
        rw [lcObs?_updObs hobs (fun _ => rfl) _, if_pos rfl, hob]
        exact ⟨_, rfl, rfl⟩
    · exact ih hm

/-- `telStarted` is emitted by the telescope's block, stamped with its time, for an observation
that was not admitted (hence WAITING) and now is, with that start time recorded -/
theorem step_telStarted {s0 s : Sys} {evs : List Event} (hw : WFConfig s0) (hr : ReachEv s0 s evs)
    {pid : Nat} (hen : s.enabled pid) (orc : Oracle) (e : Event) (he : e ∈ s.stepEvents pid orc)
    (hk : e.kind = .telStarted) :
    ∃ p, s.proc? pid = some p ∧ p.k = .telescope ∧ e.time = natNow p.wake ∧
      e.obs ∉ s.admitted ∧ e.obs ∈ (s.resume pid orc).1.admitted ∧
      (∀ ob, s.obs? e.obs = some ob → ob.status = .waiting) ∧
      ∃ ob', (s.resume pid orc).1.obs? e.obs = some ob' ∧ ob'.ast = some e.time := by
  have hcount := step_started s pid orc hen e.obs
  have hnd := List.nodup_iff_count.mp (reach_admitted_nodup s0 _ hw (Reach.step s pid orc hr.toReach hen)) e.obs
  have hpos : 1 ≤ evCount e.obs .telStarted (s.stepEvents pid orc) :=
    (evCount_pos_iff _ _ _).mpr ⟨e, he, rfl, hk⟩
  obtain ⟨p, hp, ha, _⟩ := hen
  have ht := stepEvents_time s pid orc p hp ha e he
  have hnot : e.obs ∉ s.admitted := by
    intro hin
    have := List.count_pos_iff.mpr hin
    omega
  have hin : e.obs ∈ (s.resume pid orc).1.admitted := List.count_pos_iff.mp (by omega)
  rw [stepEvents_alive orc hp ha] at he
  have hpk : p.k = .telescope := by
    rcases blockEvents_kinds s p orc e he with ⟨g, _⟩ | ⟨_, g⟩ | ⟨_, g⟩ | ⟨_, g⟩ | ⟨_, g⟩
    · exact g
    all_goals simp [isTransfer, hk] at g
  refine ⟨p, hp, hpk, ht, hnot, hin, ?_, ?_⟩
  · intro ob hob
    cases hst : ob.status with
    | waiting => rfl
    | running =>
      obtain ⟨e', he', h1, h2, _⟩ := (reachEv_tw hw hr).beg e.obs ⟨ob, hob, by rw [hst]; simp⟩
      have : 1 ≤ evCount e.obs .telStarted evs := (evCount_pos_iff _ _ _).mpr ⟨e', he', h1, h2⟩
      rw [reachEv_started hw hr e.obs] at this
      exact absurd (List.count_pos_iff.mp this) hnot
    | finished =>
      obtain ⟨e', he', h1, h2, _⟩ := (reachEv_tw hw hr).beg e.obs ⟨ob, hob, by rw [hst]; simp⟩
      have : 1 ≤ evCount e.obs .telStarted evs := (evCount_pos_iff _ _ _).mpr ⟨e', he', h1, h2⟩
      rw [reachEv_started hw hr e.obs] at this
      exact absurd (List.count_pos_iff.mp this) hnot
  · have hobsEq : (s.resume pid orc).1.obs = (s.block p orc).1.obs := (resume_alive s pid orc p hp ha).2.2.2.2.2.1
    rcases blockEvents_telescope (s := s) orc hpk with ⟨hb, _⟩ | ⟨s0', e0, _, _, _, _, _, _, _, hrun, _⟩
    · rw [hb] at he; simp at he
    · have hmem : (⟨natNow p.wake, e.obs, .telStarted⟩ : Event) ∈ blockEvents s p orc := by
        have : e = ⟨natNow p.wake, e.obs, .telStarted⟩ := by
          cases e; simp only at ht hk; subst ht; subst hk; rfl
        rw [← this]; exact he
      obtain ⟨ob', hob', hast⟩ := telRun_startedAst hrun e.obs hmem
      exact ⟨ob', by rw [obs?_congr hobsEq]; exact hob', by rw [ht]; exact hast⟩

/-- `telFinished` is emitted by the telescope's block, stamped with its time, for an observation
that was not FINISHED and now is, at least its duration after its recorded start -/
theorem step_telFinished {s : Sys}
    {pid : Nat} (hen : s.enabled pid) (orc : Oracle) (e : Event) (he : e ∈ s.stepEvents pid orc)
    (hk : e.kind = .telFinished) :
    ∃ p, s.proc? pid = some p ∧ p.k = .telescope ∧ e.time = natNow p.wake ∧
      ¬ obsFin s e.obs ∧ obsFin (s.resume pid orc).1 e.obs ∧
      ∃ ob, s.obs? e.obs = some ob ∧
        ((∃ a, ob.ast = some a ∧ a + ob.duration ≤ e.time) ∨
         (e.time + ob.duration ≤ e.time ∧ (⟨e.time, e.obs, .telStarted⟩ : Event) ∈ s.stepEvents pid orc)) := by
  have hpos : 1 ≤ evCount e.obs .telFinished (s.stepEvents pid orc) :=
    (evCount_pos_iff _ _ _).mpr ⟨e, he, rfl, hk⟩
  obtain ⟨b, _, d⟩ := step_finished s pid orc hen e.obs
  obtain ⟨p, hp, ha, _⟩ := hen
  have ht := stepEvents_time s pid orc p hp ha e he
  have he' := he
  rw [stepEvents_alive orc hp ha] at he
  have hpk : p.k = .telescope := by
    rcases blockEvents_kinds s p orc e he with ⟨g, _⟩ | ⟨_, g⟩ | ⟨_, g⟩ | ⟨_, g⟩ | ⟨_, g⟩
    · exact g
    all_goals simp [isTransfer, hk] at g
  refine ⟨p, hp, hpk, ht, fun hf => ?_, d hpos, ?_⟩
  · have := b hf; omega
  · rcases blockEvents_telescope (s := s) orc hpk with ⟨hb, _⟩ | ⟨s0', e0, _, g2, _, _, _, _, _, hrun, _⟩
    · rw [hb] at he; simp at he
    · obtain ⟨_, ob, hob, hor⟩ := telRun_finishedEv hrun e he hk
      rw [obs?_congr g2] at hob
      refine ⟨ob, hob, ?_⟩
      rw [ht]
      rcases hor with h1 | ⟨m, hle⟩
      · exact Or.inl h1
      · exact Or.inr ⟨hle, by rw [stepEvents_alive orc hp ha]; exact m⟩

/-! ### the buffer's and the scheduler's events -/

/-- `bufAdded` is emitted by the first block of the observation's ingest stream, stamped with its
time, the observation having left WAITING -/
theorem step_bufAdded (s : Sys) {pid : Nat} (hen : s.enabled pid) (orc : Oracle) (e : Event)
    (he : e ∈ s.stepEvents pid orc) (hk : e.kind = .bufAdded) :
    ∃ p, s.proc? pid = some p ∧ (∃ tl, p.k = .ingestStream e.obs tl) ∧ p.pc = 0 ∧
      e.time = natNow p.wake ∧ ∃ ob, s.obs? e.obs = some ob ∧ ob.status ≠ .waiting := by
  obtain ⟨p, hp, ha, _⟩ := hen
  have ht := stepEvents_time s pid orc p hp ha e he
  rw [stepEvents_alive orc hp ha] at he
  have hpos : 1 ≤ evCount e.obs .bufAdded (blockEvents s p orc) :=
    (evCount_pos_iff _ _ _).mpr ⟨e, he, rfl, hk⟩
  obtain ⟨g1, g2, g3, _⟩ := (block_bufAdded s p orc e.obs).2 hpos
  exact ⟨p, hp, g1, g2, ht, g3⟩

/-- `queueAdded` is emitted by the scheduler loop, for the observation it moves from `stored` to
`scheduled`, which was not queued and now is, and which now has a plan -/
theorem step_queueAdded (s : Sys) {pid : Nat} (hen : s.enabled pid) (orc : Oracle) (e : Event)
    (he : e ∈ s.stepEvents pid orc) (hk : e.kind = .queueAdded) :
    ∃ p, s.proc? pid = some p ∧ p.k = .schedLoop ∧ e.time = natNow p.wake ∧
      e.obs ∈ s.buf.hot.stored ∧ e.obs ∉ s.queue ∧
      (s.resume pid orc).1.queue = s.queue ++ [e.obs] ∧
      e.obs ∈ (s.resume pid orc).1.buf.hot.scheduled ∧
      (∃ pl ∈ (s.resume pid orc).1.plans, pl.obs = e.obs) := by
  obtain ⟨p, hp, ha, _⟩ := hen
  have ht := stepEvents_time s pid orc p hp ha e he
  rw [stepEvents_alive orc hp ha] at he
  have hpos : 1 ≤ evCount e.obs .queueAdded (blockEvents s p orc) :=
    (evCount_pos_iff _ _ _).mpr ⟨e, he, rfl, hk⟩
  obtain ⟨hpk, hst, hq, _, hL⟩ := (block_queueAdded s p orc e.obs).2 hpos
  rcases blockEvents_schedLoop (s := s) orc hpk with ⟨h0, _⟩ | ⟨oid, ob, hev, _, _, _, hqueue, hpr⟩
  · rw [h0] at he; simp at he
  · have hoid : oid = e.obs := by
      rw [hev] at hL; simp only [List.cons.injEq, and_true] at hL; injection hL
    subst hoid
    rcases new_allocTasks s p orc hpr with hnone | ⟨oid', _, _, hsc, hpl, hn⟩
    · exact absurd rfl (hnone _ (List.mem_singleton.mpr rfl) e.obs [] [] [] false)
    · simp only [List.cons.injEq, and_true] at hn
      have : e.obs = oid' := by injection hn with _ hk' _; injection hk'
      subst this
      refine ⟨p, hp, hpk, ht, hst, hq, ?_, ?_, ?_⟩
      · rw [resume_queue s pid orc p hp ha]; exact hqueue
      · rw [resume_buf s pid orc p hp ha]; exact hsc
      · rw [resume_plans s pid orc p hp ha]; exact hpl

/-- `allocStarted` is emitted by the first block of the observation's `allocate_tasks` process -/
theorem step_allocStarted (s : Sys) {pid : Nat} (hen : s.enabled pid) (orc : Oracle) (e : Event)
    (he : e ∈ s.stepEvents pid orc) (hk : e.kind = .allocStarted) :
    ∃ p, s.proc? pid = some p ∧ (∃ sc pa po, p.k = .allocTasks e.obs sc pa po false) ∧ p.pc = 0 ∧
      e.time = natNow p.wake := by
  obtain ⟨p, hp, ha, _⟩ := hen
  have ht := stepEvents_time s pid orc p hp ha e he
  rw [stepEvents_alive orc hp ha] at he
  have hpos : 1 ≤ evCount e.obs .allocStarted (blockEvents s p orc) :=
    (evCount_pos_iff _ _ _).mpr ⟨e, he, rfl, hk⟩
  obtain ⟨g1, g2⟩ := (block_allocEvents s p orc e.obs).2.1 hpos
  exact ⟨p, hp, g1, g2, ht⟩

/-- `allocStopped` is emitted by the observation's `allocate_tasks` process, in a block that also
emits `bufRemoved` with the same stamp and moves the observation from `scheduled` to `finished` -/
theorem step_allocStopped {s0 s : Sys} (hw : WFConfig s0) (hbuf : bufList s0.buf = []) (hr : ReachOk s0 s)
    {pid : Nat} (hen : s.enabled pid) (orc : Oracle) (hpre : s.alg = .oracle → orc.preOk) (e : Event)
    (he : e ∈ s.stepEvents pid orc) (hk : e.kind = .allocStopped) :
    ∃ p, s.proc? pid = some p ∧ (∃ sc pa po, p.k = .allocTasks e.obs sc pa po false) ∧
      e.time = natNow p.wake ∧ (⟨e.time, e.obs, .bufRemoved⟩ : Event) ∈ s.stepEvents pid orc ∧
      e.obs ∈ s.buf.hot.scheduled ∧ e.obs ∈ (s.resume pid orc).1.buf.hot.finished ∧
      e.obs ∉ (s.resume pid orc).1.buf.hot.scheduled := by
  have hb' := reachOk_bufi s0 _ hw hbuf (ReachOk.step s pid orc hr hen hpre)
  have hat := reachOk_ati s0 s hw hbuf hr
  obtain ⟨p, hp, ha, _⟩ := hen
  have ht := stepEvents_time s pid orc p hp ha e he
  have he0 := he
  rw [stepEvents_alive orc hp ha] at he
  have hpos : 1 ≤ evCount e.obs .allocStopped (blockEvents s p orc) :=
    (evCount_pos_iff _ _ _).mpr ⟨e, he, rfl, hk⟩
  obtain ⟨⟨sc, pa, po, hpk⟩, hfin⟩ := (block_allocEvents s p orc e.obs).2.2.2.2.2 hpos
  have hin := hat.sched p (proc?_some hp).1 ha e.obs sc pa po hpk
  have hfin' : e.obs ∈ (s.resume pid orc).1.buf.hot.finished := by
    rw [resume_buf s pid orc p hp ha]; exact hfin hin
  refine ⟨p, hp, ⟨sc, pa, po, hpk⟩, ht, ?_, hin, hfin', fun h => (hb'.excl e.obs).2 h hfin'⟩
  obtain ⟨R, hR, hRk, hRs⟩ := allocTasks_events (s := s) orc hpk
  rw [stepEvents_alive orc hp ha, hR, ht]
  have heR : e ∈ R := by
    rw [hR] at he
    rcases List.mem_append.mp he with he | he
    · split at he
      · simp at he; rw [he] at hk; simp at hk
      · simp at he
    · exact he
  rcases hRs with e0 | ⟨_, m2⟩
  · rw [e0] at heR; simp at heR
  · exact List.mem_append_right _ m2

/-- `bufRemoved` and `queueRemoved` are emitted in a block that emits `allocStopped` for the same
observation with the same stamp; `queueRemoved` takes the observation out of the queue -/
theorem step_removed (s : Sys) {pid : Nat} (hen : s.enabled pid) (orc : Oracle) (e : Event)
    (he : e ∈ s.stepEvents pid orc) (hk : e.kind = .bufRemoved ∨ e.kind = .queueRemoved) :
    (⟨e.time, e.obs, .allocStopped⟩ : Event) ∈ s.stepEvents pid orc ∧
    (e.kind = .queueRemoved → e.obs ∈ s.queue ∧ (s.resume pid orc).1.queue = s.queue.erase e.obs) := by
  obtain ⟨p, hp, ha, _⟩ := hen
  have ht := stepEvents_time s pid orc p hp ha e he
  rw [stepEvents_alive orc hp ha] at he ⊢
  have hpk : ∃ sc pa po fin, p.k = .allocTasks e.obs sc pa po fin := by
    rcases blockEvents_kinds s p orc e he with ⟨_, g⟩ | ⟨_, g⟩ | ⟨_, g⟩ | ⟨g, _⟩ | ⟨_, g⟩
    · rcases hk with hk | hk <;> simp [hk] at g
    · rcases hk with hk | hk <;> simp [hk] at g
    · rcases hk with hk | hk <;> simp [hk] at g
    · exact g
    · rcases hk with hk | hk <;> simp [isTransfer, hk] at g
  obtain ⟨sc, pa, po, fin, hpk⟩ := hpk
  rcases blockEvents_allocTasks (s := s) orc hpk with ⟨_, h0, _⟩ | ⟨hf, c, u, hat, hL⟩
  · rw [h0] at he; simp at he
  · subst hf
    rw [hL, List.append_assoc] at he ⊢
    have heR : e ∈ c ++ u := by
      rcases List.mem_append.mp he with he | he
      · split at he
        · simp at he; rw [he] at hk; simp at hk
        · simp at he
      · exact he
    have hq1 : (atStart s p.wake p.pc e.obs).queue = s.queue := atStart_queue _ _ _ _
    have hqE := resume_queue s pid orc p hp ha
    generalize s.block p orc = r at hat hqE
    cases hat with
    | quiet => simp at heR
    | finish X sc pa po _ _ _ hqin hqX =>
      refine ⟨List.mem_append_right _ (by rw [ht]; simp), fun _ => ⟨by rw [← hq1]; exact hqin, ?_⟩⟩
      rw [hqE]; show X.queue = _; rw [hqX, hq1]
    | finishBad X sc pa po err _ _ _ _ _ =>
      refine ⟨List.mem_append_right _ (by rw [ht]; simp), fun hq => ?_⟩
      simp at heR
      rcases heR with h | h <;> (rw [h] at hq; simp at hq)
    | finishWait X sc pa po _ _ _ _ =>
      refine ⟨List.mem_append_right _ (by rw [ht]; simp), fun hq => ?_⟩
      simp at heR
      rcases heR with h | h <;> (rw [h] at hq; simp at hq)

end Sys
end Topsim
