/-
  LifeCycle15 — the log against the trace (nothing is logged that was not emitted, nothing
  twice), and concrete runs: a whole life cycle, a run that loses an emitted event before the
  monitor has seen it, and a run from a buffer that holds an observation twice.
-/
import TopsimProofs.LifeCycle14

namespace Topsim
namespace Sys

/-! ### pending and logged events are emitted events -/

/-- pending or logged -/
def lcAll (s : Sys) : List Event := s.log ++ s.telEvents ++ s.schEvents ++ s.bufEvents

/-- what is pending or logged was emitted, counted with multiplicity -/
theorem lcAll_step (s : Sys) (pid : Nat) (orc : Oracle) (hen : s.enabled pid) (o : Oid) (k : EvKind) :
    evCount o k (lcAll (s.resume pid orc).1) ≤ evCount o k (lcAll s) + evCount o k (s.stepEvents pid orc) := by
  obtain ⟨p, hp, ha, _⟩ := hen
  by_cases hk : p.k = .monitor
  · obtain ⟨h0, h1, h2, h3, h4⟩ := stepEvents_monitor s pid orc p hp ha hk
    unfold lcAll
    rw [h0, h1, h2, h3, h4]
    simp
  · obtain ⟨t, c, u, h0, h1, h2, h3, h4, _⟩ := stepEvents_spec s pid orc p hp ha hk
    unfold lcAll
    rw [h0, h1, h2, h3, h4]
    simp only [evCount_append]
    have a1 : evCount o k (if p.k = .telescope then [] else s.telEvents) ≤ evCount o k s.telEvents := by
      split <;> simp
    have a2 : evCount o k (if p.k = .schedLoop then [] else s.schEvents) ≤ evCount o k s.schEvents := by
      split <;> simp
    omega

theorem reachEv_logSub {s0 s : Sys} {evs : List Event} (hw : WFConfig s0) (h : ReachEv s0 s evs) (o : Oid)
    (k : EvKind) : evCount o k (lcAll s) ≤ evCount o k evs := by
  induction h with
  | start =>
    obtain ⟨_, _, _, _, _, _, _, _, _, _, _, _, h1, h2, h3, h4, _⟩ := hw.fresh
    have : lcAll s0.start = [] := by simp [lcAll, start, spawn, h1, h2, h3, h4]
    rw [this]; simp
  | step s evs pid orc _ hen ih =>
    have := lcAll_step s pid orc hen o k
    rw [evCount_append]; omega

/-! ### running a schedule with the empty oracle, keeping the trace -/

def lcRun : List Nat → Sys × List Event → Sys × List Event
  | [], x => x
  | pid :: r, (s, evs) => lcRun r ((s.resume pid {}).1, evs ++ s.stepEvents pid {})

def lcEnabledB (s : Sys) (pid : Nat) : Bool :=
  match s.proc? pid with
  | some p => p.alive && s.procs.all (fun q => !q.alive || decide (p.wake ≤ q.wake))
  | none => false

theorem lcEnabledB_sound {s : Sys} {pid : Nat} (h : lcEnabledB s pid = true) : s.enabled pid := by
  unfold lcEnabledB at h
  cases hp : s.proc? pid with
  | none => rw [hp] at h; exact absurd h (by simp)
  | some p =>
    rw [hp] at h
    simp only [Bool.and_eq_true, List.all_eq_true, Bool.or_eq_true, Bool.not_eq_true',
      decide_eq_true_eq] at h
    refine ⟨p, hp, h.1, ?_⟩
    intro q hq hqa
    rcases h.2 q hq with h' | h'
    · rw [hqa] at h'; exact absurd h' (by simp)
    · exact h'

def lcEnabledAll : List Nat → Sys → Bool
  | [], _ => true
  | pid :: r, s => lcEnabledB s pid && lcEnabledAll r (s.resume pid {}).1

theorem lcRun_reachEv {s0 : Sys} (pids : List Nat) (s : Sys) (evs : List Event) (h : ReachEv s0 s evs)
    (hen : lcEnabledAll pids s = true) : ReachEv s0 (lcRun pids (s, evs)).1 (lcRun pids (s, evs)).2 := by
  induction pids generalizing s evs with
  | nil => exact h
  | cons pid r ih =>
    simp only [lcEnabledAll, Bool.and_eq_true] at hen
    exact ih _ _ (ReachEv.step s evs pid {} h (lcEnabledB_sound hen.1)) hen.2

/-! ### one observation, one ingest machine, one timestep, an empty workflow -/

def lcObsA : Obs :=
  { id := 0, est := 0, duration := 1, demand := 1, rate := 0, ingestDemand := 1, wf := ⟨[], [], []⟩ }

def lcW0 : Sys :=
  { machines := [⟨0, 1, 1⟩, ⟨1, 1, 1⟩], totalArrays := 3, maxIngest := 2, alg := .queue,
    cl := Cluster.init [0, 1], buf := Buffer.init 100 10 100 10, obs := [lcObsA] }

theorem lcW0_wf : WFConfig lcW0 := by
  refine ⟨by decide, rfl, by decide, ?_, ⟨rfl, rfl, rfl, rfl, rfl, rfl, rfl, rfl, rfl, rfl, rfl, rfl, rfl,
    rfl, rfl, rfl, rfl⟩⟩
  intro o ho
  simp only [lcW0, List.mem_cons, List.not_mem_nil, or_false] at ho
  subst ho
  exact ⟨rfl, rfl, by decide, by decide⟩

theorem lcW0_buf : lcW0.buf.hot.stored = [] ∧ lcW0.buf.hot.scheduled = [] ∧ lcW0.buf.hot.finished = [] ∧
    lcW0.buf.cold.stored = [] := ⟨rfl, rfl, rfl, rfl⟩

/-- Instant 0: monitor 0, telescope 1 (admits the observation, supervisor 5), cluster loop 2,
scheduler loop 3, buffer loop 4, supervisor 5 (provisioning 6, stream 7), provisioning 6 (allocation
process 8), stream 7 (`bufAdded`, stores the observation), allocation process 8 (task body 9), body 9
twice.  Instant 1: monitor 0, telescope 1 (`telFinished`), cluster loop 2, scheduler loop 3
(`queueAdded`, `allocate_tasks` 10), buffer loop 4, supervisor 5, provisioning 6, allocation
process 8, `allocate_tasks` 10 (`allocStarted`, `allocStopped`, `queueRemoved`, `bufRemoved`). -/
def lcSchedFull : List Nat := [0, 1, 2, 3, 4, 5, 6, 7, 8, 9, 9, 0, 1, 2, 3, 4, 5, 6, 8, 10]

theorem lcSchedFull_enabled : lcEnabledAll lcSchedFull lcW0.start = true := by decide +kernel

theorem lcSchedFull_trace : (lcRun lcSchedFull (lcW0.start, [])).2 =
    [⟨0, 0, .telStarted⟩, ⟨0, 0, .bufAdded⟩, ⟨1, 0, .telFinished⟩, ⟨1, 0, .queueAdded⟩,
     ⟨1, 0, .allocStarted⟩, ⟨1, 0, .allocStopped⟩, ⟨1, 0, .queueRemoved⟩, ⟨1, 0, .bufRemoved⟩] := by
  decide +kernel

theorem lcSchedFull_reach : ReachEv lcW0 (lcRun lcSchedFull (lcW0.start, [])).1
    (lcRun lcSchedFull (lcW0.start, [])).2 :=
  lcRun_reachEv lcSchedFull _ _ ReachEv.start lcSchedFull_enabled

/-- Instant 0 as above; at instant 1 the telescope's block runs BEFORE the monitor's: it empties its
pending list, which still holds `telStarted` (emitted after the monitor's block of instant 0). -/
def lcSchedLoss : List Nat := [0, 1, 2, 3, 4, 5, 6, 7, 8, 9, 9, 1, 0]

theorem lcSchedLoss_enabled : lcEnabledAll lcSchedLoss lcW0.start = true := by decide +kernel

theorem lcSchedLoss_final :
    (lcRun lcSchedLoss (lcW0.start, [])).2 = [⟨0, 0, .telStarted⟩, ⟨0, 0, .bufAdded⟩, ⟨1, 0, .telFinished⟩] ∧
    lcAll (lcRun lcSchedLoss (lcW0.start, [])).1 = [⟨1, 0, .telFinished⟩, ⟨0, 0, .bufAdded⟩] ∧
    (lcRun lcSchedLoss (lcW0.start, [])).1.crashed = none := by
  decide +kernel

theorem lcSchedLoss_reach : ReachEv lcW0 (lcRun lcSchedLoss (lcW0.start, [])).1
    (lcRun lcSchedLoss (lcW0.start, [])).2 :=
  lcRun_reachEv lcSchedLoss _ _ ReachEv.start lcSchedLoss_enabled

/-! ### the same configuration with the observation twice in `hot.stored` -/

def lcW1 : Sys := { lcW0 with buf := { lcW0.buf with hot := { lcW0.buf.hot with stored := [0, 0] } } }

theorem lcW1_wf : WFConfig lcW1 := by
  refine ⟨by decide, rfl, by decide, ?_, ⟨rfl, rfl, rfl, rfl, rfl, rfl, rfl, rfl, rfl, rfl, rfl, rfl, rfl,
    rfl, rfl, rfl, rfl⟩⟩
  intro o ho
  simp only [lcW1, lcW0, List.mem_cons, List.not_mem_nil, or_false] at ho
  subst ho
  exact ⟨rfl, rfl, by decide, by decide⟩

/-- every instant in pid order.  Instant 0: the scheduler loop 3 pops the observation, queues it
(`queueAdded`), `allocate_tasks` 6 finds the empty plan finished and unqueues it.  Instant 1: the
scheduler loop pops the second copy: `queueAdded` again. -/
def lcSchedTwice : List Nat := [0, 1, 2, 3, 4, 5, 6, 7, 8, 9, 10, 10, 0, 1, 2, 3]

theorem lcSchedTwice_enabled : lcEnabledAll lcSchedTwice lcW1.start = true := by decide +kernel

theorem lcSchedTwice_trace : (lcRun lcSchedTwice (lcW1.start, [])).2 =
    [⟨0, 0, .telStarted⟩, ⟨0, 0, .queueAdded⟩, ⟨0, 0, .allocStarted⟩, ⟨0, 0, .allocStopped⟩,
     ⟨0, 0, .queueRemoved⟩, ⟨0, 0, .bufRemoved⟩, ⟨0, 0, .bufAdded⟩, ⟨1, 0, .telFinished⟩,
     ⟨1, 0, .queueAdded⟩] := by
  decide +kernel

theorem lcSchedTwice_reach : ReachEv lcW1 (lcRun lcSchedTwice (lcW1.start, [])).1
    (lcRun lcSchedTwice (lcW1.start, [])).2 :=
  lcRun_reachEv lcSchedTwice _ _ ReachEv.start lcSchedTwice_enabled

end Sys
end Topsim
