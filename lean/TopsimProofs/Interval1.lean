/-
  Interval1 — the recorded intervals of the tasks of one machine: the invariant `IvInv` (any block
  order) and its preservation by the blocks that neither stamp a record nor begin / end an
  allocation.

  `IvInv`: the telescope is due at whole instants; the recorded finish of a task the cluster no
  longer runs is behind the clock; a task the cluster still runs holds the machine of its body
  (`runOn`); a recorded start comes with a live body or a recorded finish; and of two tasks with
  bodies on one machine and recorded starts, one finished before the other started.
-/
import TopsimProofs.SpanTraj5
import TopsimProofs.OnTime5
import TopsimProofs.PlanFollow2

namespace Topsim
namespace Sys

open Cluster

/-! ### the blocks of `allocate_tasks` leave the polling entries alone -/

theorem allocTasksBlock_runOn (s : Sys) (now : Time) (orc : Oracle) (hpre : s.alg = .oracle → orc.preOk)
    (pc : Nat) (oid : Oid) (sc pa : List (Tid × Mid)) (po : List Tid) (fn : Bool) :
    (s.allocTasksBlock now orc pc oid sc pa po fn).1.cl.runOn = s.cl.runOn := by
  cases fn with
  | true => rw [allocTasksBlock_fin]
  | false =>
    rw [allocTasksBlock_eq]
    have h1 : ((atStart s now pc oid).updateCurrentPlan oid).cl = s.cl := by
      rw [(updateCurrentPlan_core _ oid).cl, atStart_cl]
    have halg : ((atStart s now pc oid).updateCurrentPlan oid).alg = s.alg := by
      rw [updateCurrentPlan_alg, atStart_alg]
    have hout := allocTasksIter_out (atStart s now pc oid) now orc oid sc pa po
    generalize (atStart s now pc oid).allocTasksIter now orc oid sc pa po = r at hout ⊢
    have hq : ∀ plan out, ((atStart s now pc oid).updateCurrentPlan oid).runAlgorithm orc plan sc po = .ok out →
        out.cl.runOn = s.cl.runOn := by
      intro plan out hrun
      have := (runAlgorithm_quiet _ orc plan sc po out (by rw [halg]; exact hpre) hrun).runOn
      rw [this, h1]
    cases hout with
    | noPlan _ => rw [h1]
    | algErr _ _ _ _ => rw [h1]
    | finish plan out _ hrun _ _ _ _ =>
      show ((atS3 _ out oid).cl.releaseBatch oid).runOn = _
      rw [releaseBatch_runOn, atS3_cl]; exact hq plan out hrun
    | finishBad plan out _ hrun _ _ _ _ =>
      show ((atS3 _ out oid).cl.releaseBatch oid).runOn = _
      rw [releaseBatch_runOn, atS3_cl]; exact hq plan out hrun
    | finishWait plan out _ hrun _ _ _ =>
      show (atS3 _ out oid).cl.runOn = _
      rw [atS3_cl]; exact hq plan out hrun
    | idle plan out _ hrun _ _ => rw [atS3_cl]; exact hq plan out hrun
    | alloc plan out y _ hrun _ _ =>
      rw [processCurrentSchedule_cl, atS3_cl]; exact hq plan out hrun

/-- a body in its second phase runs its last block -/
theorem doWorkBlock_ph2 (s : Sys) (now : Time) (orc : Oracle) (t : Tid) (m : Mid) (preds : List Tid) (tot : Nat) :
    s.doWorkBlock now orc t m preds 2 tot =
      ({ (s.updTask t (dwEndF now tot)) with active := s.active.erase (m, t) }, .doWork t m preds 3 tot, .done) := by
  unfold doWorkBlock dwEndF
  simp

/-! ### the invariant -/

structure IvInv (s : Sys) : Prop where
  tel : ∀ q ∈ s.procs, q.k = .telescope → ∃ n : Nat, q.wake = ((n : Nat) : Time)
  /-- the recorded finish of a task the cluster does not run (any more) is behind the clock -/
  rel : ∀ t r f, s.task? t = some r → r.aft = some f → t ∉ s.cl.running → Now s f
  /-- a task with a body that the cluster still runs holds the machine of the body -/
  hold : ∀ d ∈ s.procs, ∀ t m c ph tot, d.k = .doWork t m c ph tot → t ∈ s.cl.running →
    ∃ e ∈ s.cl.runOn, e.task = t ∧ e.mach = m
  /-- a recorded start: the body is between its stamps, or the finish is recorded -/
  stamp : ∀ t r a, s.task? t = some r → r.ast = some a →
    (∃ d ∈ s.procs, d.alive = true ∧ ∃ m c tot, d.k = .doWork t m c 2 tot) ∨ r.aft.isSome = true
  /-- two tasks with bodies on one machine -/
  pair : ∀ d1 ∈ s.procs, ∀ d2 ∈ s.procs, ∀ t1 t2 m c1 c2 ph1 ph2 tot1 tot2,
    d1.k = .doWork t1 m c1 ph1 tot1 → d2.k = .doWork t2 m c2 ph2 tot2 → t1 ≠ t2 →
    ∀ r1 r2 a1 a2, s.task? t1 = some r1 → s.task? t2 = some r2 → r1.ast = some a1 → r2.ast = some a2 →
      (∃ f1, r1.aft = some f1 ∧ f1 ≤ a2) ∨ (∃ f2, r2.aft = some f2 ∧ f2 ≤ a1)

/-- the clock of the step -/
theorem now_resume {s : Sys} (hs : SInv s) (h : IvInv s) {pid : Nat} {p : Proc} (hp : s.proc? pid = some p)
    (ha : p.alive = true) (hmin : ∀ q ∈ s.procs, q.alive = true → p.wake ≤ q.wake) (orc : Oracle) {t : Time}
    (hn : Now s t) : Now (s.resume pid orc).1 t :=
  now_step hs hp ha hmin (fun hk => h.tel p (proc?_some hp).1 hk) orc hn

/-- the telescope stays at whole instants -/
theorem iv_tel_step {s : Sys} (hs : SInv s) (h : IvInv s) {pid : Nat} {p : Proc} (hp : s.proc? pid = some p)
    (ha : p.alive = true) (hmin : ∀ q ∈ s.procs, q.alive = true → p.wake ≤ q.wake) (orc : Oracle) :
    ∀ q ∈ (s.resume pid orc).1.procs, q.k = .telescope → ∃ n : Nat, q.wake = ((n : Nat) : Time) := by
  obtain ⟨hpm, _⟩ := proc?_some hp
  obtain ⟨new, hm, _, hnewp⟩ := ot_step_table hs hp ha hmin orc
  intro q hq hqk
  rcases (hm q).mp hq with rfl | ⟨h1, _⟩ | h1
  · simp only [fin_k] at hqk
    have hpk : p.k = .telescope := tag_telescope (by rw [← block_tag s hs.pw p orc, hqk]; rfl)
    obtain ⟨n, hn⟩ := h.tel p hpm hpk
    have hu := block_unit s p orc (by rw [hpk]; rfl)
    generalize (s.block p orc).2.2 = y at hu ⊢
    cases y with
    | timeout d =>
      simp only [Yield.unit] at hu
      subst hu
      refine ⟨n + 1, ?_⟩
      show p.wake + 1 = _
      rw [hn]; simp
    | done => exact ⟨n, hn⟩
    | raised e => exact ⟨n, hn⟩
  · exact h.tel q h1 hqk
  · exact absurd hqk (ot_new_not_tel (hnewp q h1).2.2.2)

/-- **A step that stamps nothing and neither begins nor ends an allocation.** -/
theorem ivInv_quiet {s s' : Sys} (h : IvInv s) (hs : SInv s) {p p' : Proc} {new : List Proc}
    (hp : p ∈ s.procs) (hm : MemSpec s s' p p' new) (hT : SpanStep s s')
    (hrunOn : s'.cl.runOn = s.cl.runOn) (hrunning : s'.cl.running = s.cl.running)
    (hnow : ∀ f, Now s f → Now s' f)
    (htel : ∀ q ∈ s'.procs, q.k = .telescope → ∃ n : Nat, q.wake = ((n : Nat) : Time))
    (hnew : ∀ q ∈ new, ∀ t m c ph tot, q.k ≠ .doWork t m c ph tot)
    (hp2 : ∀ t m c tot, p.k ≠ .doWork t m c 2 tot)
    (hback : ∀ t m c ph tot, p'.k = .doWork t m c ph tot → ∃ c0 ph0 tot0, p.k = .doWork t m c0 ph0 tot0) :
    IvInv s' := by
  -- a body of the new table stands for a body of the old one, same task, same machine
  have hbody : ∀ d' ∈ s'.procs, ∀ t m c ph tot, d'.k = .doWork t m c ph tot →
      ∃ d ∈ s.procs, ∃ c0 ph0 tot0, d.k = .doWork t m c0 ph0 tot0 := by
    intro d' hd' t m c ph tot hk
    rcases (hm d').mp hd' with rfl | ⟨h1, _⟩ | h1
    · obtain ⟨c0, ph0, tot0, e⟩ := hback t m c ph tot hk
      exact ⟨p, hp, c0, ph0, tot0, e⟩
    · exact ⟨d', h1, c, ph, tot, hk⟩
    · exact absurd hk (hnew d' h1 t m c ph tot)
  -- the records of a task with a body keep their stamps
  have hrec : ∀ d ∈ s.procs, ∀ t m c ph tot, d.k = .doWork t m c ph tot → ∀ r', s'.task? t = some r' →
      ∃ r, s.task? t = some r ∧ r'.ast = r.ast ∧ r'.aft = r.aft := by
    intro d hd t m c ph tot hk r' hr'
    rcases hT.bwd hr' with ⟨r, hr, hk'⟩ | ⟨h0, _⟩
    · exact ⟨r, hr, hk'.ast, hk'.aft⟩
    · obtain ⟨r, hr⟩ := dw_hasRec hs hd hk
      rw [h0] at hr; cases hr
  constructor
  · exact htel
  · intro t r' f hr' hf hnr
    rw [hrunning] at hnr
    rcases hT.bwd hr' with ⟨r, hr, hk⟩ | ⟨_, hfr⟩
    · exact hnow f (h.rel t r f hr (by rw [← hk.aft]; exact hf) hnr)
    · rw [hfr.aft] at hf; cases hf
  · intro d' hd' t m c ph tot hk hrun
    obtain ⟨d, hd, c0, ph0, tot0, hk0⟩ := hbody d' hd' t m c ph tot hk
    rw [hrunning] at hrun
    rw [hrunOn]
    exact h.hold d hd t m c0 ph0 tot0 hk0 hrun
  · intro t r' a hr' hast
    rcases hT.bwd hr' with ⟨r, hr, hk⟩ | ⟨_, hfr⟩
    · rcases h.stamp t r a hr (by rw [← hk.ast]; exact hast) with ⟨d, hd, hda, m, c, tot, hdk⟩ | h2
      · left
        have hne : d.pid ≠ p.pid := by
          intro e
          have : d = p := hs.pw.eq_of_pid hd hp e
          subst this
          exact hp2 t m c tot hdk
        exact ⟨d, (hm d).mpr (Or.inr (Or.inl ⟨hd, hne⟩)), hda, m, c, tot, hdk⟩
      · right; rw [hk.aft]; exact h2
    · rw [hfr.ast] at hast; cases hast
  · intro d1' hd1' d2' hd2' t1 t2 m c1 c2 ph1 ph2 tot1 tot2 hk1 hk2 hne r1' r2' a1 a2 hr1' hr2' ha1 ha2
    obtain ⟨d1, hd1, c10, ph10, tot10, hk10⟩ := hbody d1' hd1' t1 m c1 ph1 tot1 hk1
    obtain ⟨d2, hd2, c20, ph20, tot20, hk20⟩ := hbody d2' hd2' t2 m c2 ph2 tot2 hk2
    obtain ⟨r1, hr1, e1, f1⟩ := hrec d1 hd1 t1 m c10 ph10 tot10 hk10 r1' hr1'
    obtain ⟨r2, hr2, e2, f2⟩ := hrec d2 hd2 t2 m c20 ph20 tot20 hk20 r2' hr2'
    rw [f1, f2]
    exact h.pair d1 hd1 d2 hd2 t1 t2 m c10 c20 ph10 ph20 tot10 tot20 hk10 hk20 hne r1 r2 a1 a2 hr1 hr2
      (by rw [← e1]; exact ha1) (by rw [← e2]; exact ha2)

end Sys
end Topsim
