/-
  FinishAT1 — `allocate_tasks`, one iteration, as an explicit case list.
-/
import TopsimProofs.FinishBuf4

namespace Topsim
namespace Sys

/-- the state after the algorithm's output has been recorded -/
def atS3 (s1 : Sys) (out : AlgOut) (oid : Oid) : Sys :=
  if out.status = WStatus.delayed then
    { (({ s1 with cl := out.cl }).updPlan oid (fun p => { p with status := out.status })) with schedDelayed := true }
  else ({ s1 with cl := out.cl }).updPlan oid (fun p => { p with status := out.status })

/-- … and after the two "finished" events -/
def atS4 (s3 : Sys) (n : Nat) (oid : Oid) : Sys :=
  (s3.addSch ⟨n, oid, .allocStopped⟩).addBuf ⟨n, oid, .bufRemoved⟩

theorem atS3_cl (s1 out oid) : (atS3 s1 out oid).cl = out.cl := by unfold atS3; split <;> rfl
theorem atS3_buf (s1 out oid) : (atS3 s1 out oid).buf = s1.buf := by unfold atS3; split <;> rfl
theorem atS3_tasks (s1 out oid) : (atS3 s1 out oid).tasks = s1.tasks := by unfold atS3; split <;> rfl
theorem atS3_queue (s1 out oid) : (atS3 s1 out oid).queue = s1.queue := by unfold atS3; split <;> rfl
theorem atS3_procs (s1 out oid) : (atS3 s1 out oid).procs = s1.procs := by unfold atS3; split <;> rfl
theorem atS3_nextPid (s1 out oid) : (atS3 s1 out oid).nextPid = s1.nextPid := by unfold atS3; split <;> rfl
theorem atS3_obs (s1 out oid) : (atS3 s1 out oid).obs = s1.obs := by unfold atS3; split <;> rfl
theorem atS3_alg (s1 out oid) : (atS3 s1 out oid).alg = s1.alg := by unfold atS3; split <;> rfl
theorem atS3_plans (s1 : Sys) (out : AlgOut) (oid : Oid) :
    (atS3 s1 out oid).plans = s1.plans.map (fun p => if p.obs = oid then { p with status := out.status } else p) := by
  unfold atS3; split <;> rfl

/-- the outcomes of one iteration -/
inductive ATOut (s : Sys) (now : Time) (orc : Oracle) (oid : Oid) (schedule pairs : List (Tid × Mid))
    (pool : List Tid) : Sys × PK × Yield → Prop
  | noPlan : (s.updateCurrentPlan oid).plan? oid = none →
      ATOut s now orc oid schedule pairs pool
        (s.updateCurrentPlan oid, .allocTasks oid schedule pairs pool false, .raised .runtime)
  | algErr (plan : Plan) (e : Err) : (s.updateCurrentPlan oid).plan? oid = some plan →
      (s.updateCurrentPlan oid).runAlgorithm orc plan schedule pool = .error e →
      ATOut s now orc oid schedule pairs pool
        (s.updateCurrentPlan oid, .allocTasks oid schedule pairs pool false, .raised e)
  | finish (plan : Plan) (out : AlgOut) : (s.updateCurrentPlan oid).plan? oid = some plan →
      (s.updateCurrentPlan oid).runAlgorithm orc plan schedule pool = .ok out →
      out.schedule.isEmpty = true → out.status = .finished →
      ((atS4 (atS3 (s.updateCurrentPlan oid) out oid) (natNow now) oid).buf.remove oid).2 = true →
      oid ∈ (atS3 (s.updateCurrentPlan oid) out oid).queue →
      ATOut s now orc oid schedule pairs pool
        (({ (atS4 (atS3 (s.updateCurrentPlan oid) out oid) (natNow now) oid) with
              buf := ((atS4 (atS3 (s.updateCurrentPlan oid) out oid) (natNow now) oid).buf.remove oid).1,
              cl := (atS4 (atS3 (s.updateCurrentPlan oid) out oid) (natNow now) oid).cl.releaseBatch oid,
              queue := (atS4 (atS3 (s.updateCurrentPlan oid) out oid) (natNow now) oid).queue.erase oid }).addSch
            ⟨natNow now, oid, .queueRemoved⟩,
          .allocTasks oid out.schedule pairs out.pool true, .timeout 1)
  | finishBad (plan : Plan) (out : AlgOut) : (s.updateCurrentPlan oid).plan? oid = some plan →
      (s.updateCurrentPlan oid).runAlgorithm orc plan schedule pool = .ok out →
      out.schedule.isEmpty = true → out.status = .finished →
      ((atS4 (atS3 (s.updateCurrentPlan oid) out oid) (natNow now) oid).buf.remove oid).2 = true →
      oid ∉ (atS3 (s.updateCurrentPlan oid) out oid).queue →
      ATOut s now orc oid schedule pairs pool
        ({ (atS4 (atS3 (s.updateCurrentPlan oid) out oid) (natNow now) oid) with
              buf := ((atS4 (atS3 (s.updateCurrentPlan oid) out oid) (natNow now) oid).buf.remove oid).1,
              cl := (atS4 (atS3 (s.updateCurrentPlan oid) out oid) (natNow now) oid).cl.releaseBatch oid },
          .allocTasks oid out.schedule pairs out.pool false, .raised .value)
  | finishWait (plan : Plan) (out : AlgOut) : (s.updateCurrentPlan oid).plan? oid = some plan →
      (s.updateCurrentPlan oid).runAlgorithm orc plan schedule pool = .ok out →
      out.schedule.isEmpty = true → out.status = .finished →
      ((atS4 (atS3 (s.updateCurrentPlan oid) out oid) (natNow now) oid).buf.remove oid).2 = false →
      ATOut s now orc oid schedule pairs pool
        ({ (atS4 (atS3 (s.updateCurrentPlan oid) out oid) (natNow now) oid) with
              buf := ((atS4 (atS3 (s.updateCurrentPlan oid) out oid) (natNow now) oid).buf.remove oid).1 },
          .allocTasks oid out.schedule pairs out.pool false, .timeout 1)
  | idle (plan : Plan) (out : AlgOut) : (s.updateCurrentPlan oid).plan? oid = some plan →
      (s.updateCurrentPlan oid).runAlgorithm orc plan schedule pool = .ok out →
      out.schedule.isEmpty = true → out.status ≠ .finished →
      ATOut s now orc oid schedule pairs pool
        (atS3 (s.updateCurrentPlan oid) out oid, .allocTasks oid out.schedule pairs out.pool false, .timeout 1)
  | alloc (plan : Plan) (out : AlgOut) (y : Yield) : (s.updateCurrentPlan oid).plan? oid = some plan →
      (s.updateCurrentPlan oid).runAlgorithm orc plan schedule pool = .ok out →
      out.schedule.isEmpty = false →
      (y = .timeout 1 ∨ ∃ e, y = .raised e) →
      ATOut s now orc oid schedule pairs pool
        ((processCurrentSchedule (atS3 (s.updateCurrentPlan oid) out oid) now oid out.schedule pairs).s,
          .allocTasks oid (processCurrentSchedule (atS3 (s.updateCurrentPlan oid) out oid) now oid out.schedule pairs).schedule
            (processCurrentSchedule (atS3 (s.updateCurrentPlan oid) out oid) now oid out.schedule pairs).pairs out.pool false, y)

theorem allocTasksIter_out (s : Sys) (now : Time) (orc : Oracle) (oid : Oid)
    (schedule pairs : List (Tid × Mid)) (pool : List Tid) :
    ATOut s now orc oid schedule pairs pool (s.allocTasksIter now orc oid schedule pairs pool) := by
  unfold allocTasksIter
  simp only
  cases hpl : (s.updateCurrentPlan oid).plan? oid with
  | none => exact ATOut.noPlan hpl
  | some plan =>
    simp only
    cases hrun : (s.updateCurrentPlan oid).runAlgorithm orc plan schedule pool with
    | error e => exact ATOut.algErr plan e hpl hrun
    | ok out =>
      simp only
      have hs3 : (if out.status = WStatus.delayed then
          { (({ (s.updateCurrentPlan oid) with cl := out.cl }).updPlan oid (fun p => { p with status := out.status })) with schedDelayed := true }
          else ({ (s.updateCurrentPlan oid) with cl := out.cl }).updPlan oid (fun p => { p with status := out.status }))
          = atS3 (s.updateCurrentPlan oid) out oid := rfl
      rw [hs3]
      by_cases hemp : out.schedule.isEmpty = true
      · by_cases hfin : out.status = .finished
        · simp only [hemp, hfin, and_self, if_true]
          have hs4 : ((atS3 (s.updateCurrentPlan oid) out oid).addSch ⟨natNow now, oid, .allocStopped⟩).addBuf
              ⟨natNow now, oid, .bufRemoved⟩ = atS4 (atS3 (s.updateCurrentPlan oid) out oid) (natNow now) oid := rfl
          rw [hs4]
          cases hrem : ((atS4 (atS3 (s.updateCurrentPlan oid) out oid) (natNow now) oid).buf.remove oid) with
          | mk b1 flag =>
            cases flag with
            | true =>
              simp only
              by_cases hq : oid ∈ (atS3 (s.updateCurrentPlan oid) out oid).queue
              · have hq' : oid ∈ (atS4 (atS3 (s.updateCurrentPlan oid) out oid) (natNow now) oid).queue := hq
                simp only [hq', if_true]
                have := ATOut.finish (now := now) (orc := orc) (schedule := schedule) (pairs := pairs) (pool := pool)
                  plan out hpl hrun hemp hfin (by rw [hrem]) hq
                rw [hrem] at this
                exact this
              · have hq' : oid ∉ (atS4 (atS3 (s.updateCurrentPlan oid) out oid) (natNow now) oid).queue := hq
                simp only [hq', if_false]
                have := ATOut.finishBad (now := now) (orc := orc) (schedule := schedule) (pairs := pairs) (pool := pool)
                  plan out hpl hrun hemp hfin (by rw [hrem]) hq
                rw [hrem] at this
                exact this
            | false =>
              simp only
              have := ATOut.finishWait (now := now) (orc := orc) (schedule := schedule) (pairs := pairs) (pool := pool)
                plan out hpl hrun hemp hfin (by rw [hrem])
              rw [hrem] at this
              exact this
        · simp only [hemp, hfin, and_false, if_false, if_true]
          exact ATOut.idle plan out hpl hrun hemp hfin
      · have hemp' : out.schedule.isEmpty = false := by simpa using hemp
        simp only [hemp', Bool.false_eq_true, false_and, if_false]
        split
        · exact ATOut.alloc plan out _ hpl hrun hemp' (Or.inr ⟨_, rfl⟩)
        · exact ATOut.alloc plan out _ hpl hrun hemp' (Or.inl rfl)

/-- the state in which the iteration starts (first block: plan stamp, task offsets, event) -/
def atStart (s : Sys) (now : Time) (pc : Nat) (oid : Oid) : Sys :=
  if pc = 0 then
    ((match (s.updPlan oid (fun p => { p with ast := some (natNow now) })).plan? oid with
        | some p => p.tasks | none => []).foldl
      (fun (s : Sys) t => s.updTask t (fun r => { r with offset := natNow now }))
      (s.updPlan oid (fun p => { p with ast := some (natNow now) }))).addSch ⟨natNow now, oid, .allocStarted⟩
  else s

theorem allocTasksBlock_eq (s : Sys) (now : Time) (orc : Oracle) (pc : Nat) (oid : Oid)
    (schedule pairs : List (Tid × Mid)) (pool : List Tid) :
    s.allocTasksBlock now orc pc oid schedule pairs pool false
      = (atStart s now pc oid).allocTasksIter now orc oid schedule pairs pool := by
  unfold allocTasksBlock atStart
  simp only [Bool.false_eq_true, if_false]
  split <;> rfl

theorem allocTasksBlock_fin (s : Sys) (now : Time) (orc : Oracle) (pc : Nat) (oid : Oid)
    (schedule pairs : List (Tid × Mid)) (pool : List Tid) :
    s.allocTasksBlock now orc pc oid schedule pairs pool true
      = (s, .allocTasks oid schedule pairs pool true, .done) := by
  unfold allocTasksBlock; simp

end Sys
end Topsim
