/-
  Live7 — progress of `allocate_tasks` (part 1): the library invariants at every index of the run,
  one index of the run in block form, and the first new invariants along the run: the records of
  one observation carry one planning clock (`L7Clk`).
-/
import TopsimProofs.Live5
import TopsimProofs.Witness1
import TopsimProofs.DelayTraj5
import TopsimProofs.Preced17
import TopsimProofs.PlanTraj4
import TopsimProofs.LifeCycle8
import TopsimProofs.C05Lemmas

namespace Topsim

open KState Sys

/-- the library invariants of a state of a run that has not raised (queue algorithm, batch planning) -/
structure L7Lib (s0 s : Sys) : Prop where
  ok : ReachOk s0 s
  nc : s.crashed = none
  sinv : SInv s
  wi : WI s
  gi : GI s0 s
  st : ST s
  pr : PR s
  px : PX s
  su : SU s
  ati : LcATI s
  bufi : BufI s
  alg : s.alg = .queue
  stat : s.staticPlan = false

section
variable {env : SimEnv} {s0 : Sys}

theorem l7_lib (C : LiveCfg env s0) (K : LiveKernel env s0) (n : Nat) : L7Lib s0 (simAt env s0 n).st := by
  have hok : ReachOk s0 (simAt env s0 n).st := simRun_reachOk C.hw (K.run n).1 (K.run n).2.1
  have hbuf : bufList s0.buf = [] := hb0_bufList C.hb0
  have hno : s0.alg ≠ .oracle := by rw [C.alg]; simp
  have hnc := C.nr n
  exact {
    ok := hok
    nc := hnc
    sinv := reach_inv s0 _ C.hw hok
    wi := reachOk_wi s0 _ C.hw hbuf hok hnc
    gi := reach_gi s0 _ C.hw hok.toReach
    st := reach_st s0 _ C.hw hbuf hno hok.toReach hnc
    pr := reach_pr s0 _ C.hw hbuf hno hok.toReach hnc
    px := reach_px s0 _ C.hw hbuf hno hok.toReach hnc
    su := reachOk_su s0 _ C.hw hbuf hno hok hnc
    ati := reachOk_ati s0 _ C.hw hbuf hok
    bufi := reachOk_bufi s0 _ C.hw hbuf hok
    alg := (reach_alg hok.toReach).trans C.alg
    stat := (reach_stat hok.toReach).trans C.stat }

/-- one index of the run: the block of the live, enabled process `p` runs, does not raise, and the
next state is the state after the block with the entry of `p` advanced -/
structure L7Step (s s' : Sys) (p : Proc) (orc : Oracle) : Prop where
  hp : s.proc? p.pid = some p
  ha : p.alive = true
  hmin : ∀ q ∈ s.procs, q.alive = true → p.wake ≤ q.wake
  nr : ∀ e, (s.block p orc).2.2 ≠ .raised e
  eq : s' = (s.block p orc).1.updProc p.pid (fin (s.block p orc).2.1 (s.block p orc).2.2 p.wake)
  res : s' = (s.resume p.pid orc).1

theorem l7_crash_ne (s : Sys) (e : Err) : (s.crash e).crashed ≠ none := by
  unfold Sys.crash
  split
  · rename_i h; rw [h]; simp
  · simp

theorem l7_step (C : LiveCfg env s0) (K : LiveKernel env s0) (n : Nat) :
    ∃ e p, (simAt env s0 n).peek = some e ∧ (simAt env s0 n).st.proc? e.pid = some p ∧ e.pid = p.pid ∧
      L7Step (simAt env s0 n).st (simAt env s0 (n + 1)).st p (env.oracle (simAt env s0 n).st) := by
  obtain ⟨e, p, hpk, hpp, ha, _, hen, _, hst⟩ := live_step C K n
  have hpid : p.pid = e.pid := (proc?_some hpp).2
  obtain ⟨p2, hp2, _, hmin⟩ := hen
  rw [hpp] at hp2
  injection hp2 with hp2
  subst hp2
  refine ⟨e, p, hpk, hpp, hpid.symm, ?_⟩
  have hcr := C.nr (n + 1)
  rw [hst] at hcr
  have hst' := hst
  unfold Sys.resume at hcr hst
  simp only [hpp, ha, Bool.not_true, Bool.false_eq_true, if_false] at hcr hst
  refine ⟨by rw [hpid]; exact hpp, ha, hmin, ?_, ?_, by rw [hpid]; exact hst'⟩
  · intro err herr
    generalize (simAt env s0 n).st.block p (env.oracle (simAt env s0 n).st) = r at hcr herr
    obtain ⟨s1, k, y⟩ := r
    simp only at herr
    subst herr
    exact absurd hcr (l7_crash_ne _ _)
  · rw [hst, hpid]
    generalize (simAt env s0 n).st.block p (env.oracle (simAt env s0 n).st) = r at hcr
    obtain ⟨s1, k, y⟩ := r
    cases y with
    | timeout d => rfl
    | done => rfl
    | raised err => exact absurd hcr (l7_crash_ne _ _)

end

/-! ### facts every step provides -/

theorem L7Step.mem {s s' : Sys} {p : Proc} {orc : Oracle} (h : L7Step s s' p orc) : p ∈ s.procs :=
  (proc?_some h.hp).1

theorem L7Step.enabled {s s' : Sys} {p : Proc} {orc : Oracle} (h : L7Step s s' p orc) : s.enabled p.pid :=
  ⟨p, h.hp, h.ha, h.hmin⟩

theorem L7Step.tasks {s s' : Sys} {p : Proc} {orc : Oracle} (h : L7Step s s' p orc) :
    s'.tasks = (s.block p orc).1.tasks := by rw [h.eq]; rfl

theorem L7Step.cl {s s' : Sys} {p : Proc} {orc : Oracle} (h : L7Step s s' p orc) :
    s'.cl = (s.block p orc).1.cl := by rw [h.eq]; rfl

theorem L7Step.plans {s s' : Sys} {p : Proc} {orc : Oracle} (h : L7Step s s' p orc) :
    s'.plans = (s.block p orc).1.plans := by rw [h.eq]; rfl

theorem L7Step.buf {s s' : Sys} {p : Proc} {orc : Oracle} (h : L7Step s s' p orc) :
    s'.buf = (s.block p orc).1.buf := by rw [h.eq]; rfl

theorem L7Step.queue {s s' : Sys} {p : Proc} {orc : Oracle} (h : L7Step s s' p orc) :
    s'.queue = (s.block p orc).1.queue := by rw [h.eq]; rfl

theorem L7Step.tstat {s s' : Sys} {p : Proc} {orc : Oracle} (h : L7Step s s' p orc) (t : Tid) :
    tstat s' t = tstat (s.block p orc).1 t := tstat_of_tasks h.tasks t

theorem L7Step.finT {s s' : Sys} {p : Proc} {orc : Oracle} (h : L7Step s s' p orc) (t : Tid) :
    FinT s' t ↔ FinT (s.block p orc).1 t := by unfold FinT; rw [h.cl]

/-- the process table after the step -/
theorem L7Step.memSpec {s s' : Sys} {p : Proc} {orc : Oracle} (h : L7Step s s' p orc) (hs : SInv s)
    {new : List Proc} (hnew : (s.block p orc).1.procs = s.procs ++ new) :
    MemSpec s s' p (fin (s.block p orc).2.1 (s.block p orc).2.2 p.wake p) new := by
  rw [h.res]
  exact resume_memSpec ⟨hs.pw, hs.eg⟩ h.hp h.ha h.hmin orc hnew

/-- the entry that ran stays alive exactly when the block yields a timeout -/
theorem L7Step.alive' {s s' : Sys} {p : Proc} {orc : Oracle} (h : L7Step s s' p orc) :
    (fin (s.block p orc).2.1 (s.block p orc).2.2 p.wake p).alive = true ↔ ∃ d, (s.block p orc).2.2 = .timeout d := by
  constructor
  · intro ha; exact (fin_alive _ _ _ _ ha).2
  · rintro ⟨d, hd⟩; rw [hd]; exact h.ha

end Topsim
