/-
  Reserve8 — concrete runs of BatchProcessing.

  Configuration `rsW0`: two machines (cpu 1, bandwidth 1), one observation (`pfObs`: one array, one
  ingest machine, one timestep, rate 0, workflow the chain `0 → 1`), BatchProcessing with one
  partition, a minimum of one machine per workflow, no per-observation split; the empty oracle at
  every block.  Configuration `rsW1`: ONE machine, TWO partitions, minimum ZERO.
-/
import TopsimProofs.PlanFollow4

namespace Topsim
namespace Sys

def rsW0 : Sys :=
  { machines := [⟨0, 1, 1⟩, ⟨1, 1, 1⟩], totalArrays := 1, maxIngest := 1, alg := .batch 1 1 none,
    cl := Cluster.init [0, 1], buf := Buffer.init 100 10 100 10, obs := [pfObs] }

theorem rsW0_wf : WFConfig rsW0 := by
  refine ⟨by decide, rfl, by decide, ?_, ⟨rfl, rfl, rfl, rfl, rfl, rfl, rfl, rfl, rfl, rfl, rfl, rfl, rfl,
    rfl, rfl, rfl, rfl⟩⟩
  intro o ho
  simp only [rsW0, List.mem_cons, List.not_mem_nil, or_false] at ho
  subst ho
  exact ⟨rfl, rfl, by decide, by decide⟩

theorem rsW0_buf : rsW0.buf.hot.stored = [] ∧ rsW0.buf.hot.scheduled = [] ∧
    rsW0.buf.hot.finished = [] ∧ rsW0.buf.cold.stored = [] := ⟨rfl, rfl, rfl, rfl⟩

/-- Creation order inside every instant.  Instant 0: ingest on machine 0 (pids 5–9).  Instant 1: the
scheduler loop 3 plans the workflow (`allocate_tasks` 10); 10 reserves both machines for observation 0
(`floor(2 / 1) = 2`, available `[1, 0]`) and proposes `pfA` on the first of them. -/
def rsSchedRes : List Nat :=
  [0, 1, 2, 3, 4, 5, 6, 7, 8, 9, 9,
   0, 1, 2, 3, 4, 5, 6, 8, 10]

theorem rsSchedRes_enabled : pfEnabledAll {} rsSchedRes rsW0.start = true := by decide +kernel

theorem rsSchedRes_reach : Reach rsW0 (pfRun {} rsSchedRes rsW0.start) :=
  pf_reach_run {} rsSchedRes _ Reach.start rsSchedRes_enabled

theorem rsSchedRes_final :
    let s := pfRun {} rsSchedRes rsW0.start
    s.crashed = none ∧ s.cl.idle = [(0, [1, 0])] ∧ s.cl.numProv = 1 ∧ s.cl.available = [] ∧ s.cl.runOn = [] := by
  decide +kernel

/-- … then the allocation process 11 begins `pfA` on machine 1, taken from the reservation (body 12) -/
def rsSchedRun : List Nat := rsSchedRes ++ [11, 12]

theorem rsSchedRun_enabled : pfEnabledAll {} rsSchedRun rsW0.start = true := by decide +kernel

theorem rsSchedRun_reach : Reach rsW0 (pfRun {} rsSchedRun rsW0.start) :=
  pf_reach_run {} rsSchedRun _ Reach.start rsSchedRun_enabled

theorem rsSchedRun_final :
    let s := pfRun {} rsSchedRun rsW0.start
    s.crashed = none ∧ s.cl.idle = [(0, [0])] ∧ s.cl.numProv = 1 ∧ s.cl.available = [] ∧
    s.cl.occupied = [1] ∧ s.active = [(1, pfA)] ∧ s.starts = [.ingest 0 0, pfA] ∧
    s.cl.runOn = [⟨pfA, 1, some 0, false⟩] := by
  decide +kernel

/-- … and the whole run: `pfA` and `pfB` run and finish; `allocate_tasks` 10 finds the plan empty and
releases the reservation; the simulation is finished, both machines are back in the available pool -/
def rsSchedAll : List Nat :=
  rsSchedRun ++
  [0, 1, 2, 3, 4, 10, 11, 12,
   0, 2, 3, 4, 10, 11,
   0, 2, 3, 4, 10, 13, 14, 14, 14,
   0, 2, 3, 4, 10, 13,
   0, 2, 3, 4, 10]

theorem rsSchedAll_enabled : pfEnabledAll {} rsSchedAll rsW0.start = true := by decide +kernel

theorem rsSchedAll_reach : Reach rsW0 (pfRun {} rsSchedAll rsW0.start) :=
  pf_reach_run {} rsSchedAll _ Reach.start rsSchedAll_enabled

theorem rsSchedAll_final :
    let s := pfRun {} rsSchedAll rsW0.start
    s.crashed = none ∧ s.cl.idle = [] ∧ s.cl.numProv = 0 ∧ s.cl.available = [1, 0] ∧ s.cl.runOn = [] ∧
    s.starts = [.ingest 0 0, pfA, pfB] ∧ s.isFinished = true := by
  decide +kernel

/-- the state before the last block of `rsSchedAll`: `allocate_tasks` 10 is about to run; the one task
left in the plan is FINISHED, both machines are idle in the reservation; the block does not raise and
releases the reservation -/
def rsSchedPre : List Nat := rsSchedAll.dropLast

theorem rsSchedPre_enabled : pfEnabledAll {} rsSchedPre rsW0.start = true := by decide +kernel

theorem rsSchedPre_reach : Reach rsW0 (pfRun {} rsSchedPre rsW0.start) :=
  pf_reach_run {} rsSchedPre _ Reach.start rsSchedPre_enabled

/-- the parameters of an `allocate_tasks` process -/
def rsAllocTasks? : PK → Option (Oid × List (Tid × Mid) × Bool)
  | .allocTasks o sc _ _ fn => some (o, sc, fn)
  | _ => none

def rsRaised : Yield → Bool
  | .raised _ => true
  | _ => false

theorem rsSchedPre_final :
    let s := pfRun {} rsSchedPre rsW0.start
    s.crashed = none ∧ s.cl.idle = [(0, [1, 0])] ∧ s.cl.numProv = 1 ∧ s.cl.runOn = [] ∧
    (s.plan? 0).map (·.tasks) = some [pfB] ∧ (s.task? pfB).map (·.status) = some .finished ∧
    (s.proc? 10).bind (fun p => rsAllocTasks? p.k) = some (0, [], false) ∧
    pfEnabledB s 10 = true ∧ rsRaised (s.resume 10 {}).2 = false ∧
    (s.resume 10 {}).1.cl.idle = [] ∧ (s.resume 10 {}).1.cl.available = [1, 0] := by
  decide +kernel

/-! ### minimum zero: no reservation for fewer than one machine -/

/-- one machine, two partitions, minimum zero: `floor(1 / 2) = 0` machines per reservation -/
def rsW1 : Sys :=
  { machines := [⟨0, 1, 1⟩], totalArrays := 1, maxIngest := 1, alg := .batch 2 0 none,
    cl := Cluster.init [0], buf := Buffer.init 100 10 100 10, obs := [pfObs] }

theorem rsW1_wf : WFConfig rsW1 := by
  refine ⟨by decide, rfl, by decide, ?_, ⟨rfl, rfl, rfl, rfl, rfl, rfl, rfl, rfl, rfl, rfl, rfl, rfl, rfl,
    rfl, rfl, rfl, rfl⟩⟩
  intro o ho
  simp only [rsW1, List.mem_cons, List.not_mem_nil, or_false] at ho
  subst ho
  exact ⟨rfl, rfl, by decide, by decide⟩

/-- Creation order inside every instant.  At t = 1 and again at t = 2 `allocate_tasks` 10 asks for
`floor(1 / 2) = 0` machines.  BEFORE the repair F12 (`provision < 1` refused; /repo commit f83ab6f)
`0 < min_resources_per_workflow = 0` was false, `provision_batch_resources(0, …)` was called, added no
idle entry and counted a reservation each time: after this schedule the counter was 2 = partitions with
no reservation in existence, and nothing could ever be provisioned again (this run is how the defect
was found).  Now `_provision_resources` returns False and the counter stays 0. -/
def rsSchedLeak : List Nat :=
  [0, 1, 2, 3, 4, 5, 6, 7, 8, 9, 9,
   0, 1, 2, 3, 4, 5, 6, 8, 10,
   0, 1, 2, 3, 4, 10,
   0, 2, 3, 4, 10]

theorem rsSchedLeak_enabled : pfEnabledAll {} rsSchedLeak rsW1.start = true := by decide +kernel

theorem rsSchedLeak_reach : Reach rsW1 (pfRun {} rsSchedLeak rsW1.start) :=
  pf_reach_run {} rsSchedLeak _ Reach.start rsSchedLeak_enabled

theorem rsSchedLeak_final :
    let s := pfRun {} rsSchedLeak rsW1.start
    s.crashed = none ∧ s.cl.idle = [] ∧ s.cl.numProv = 0 ∧ s.cl.available = [0] ∧ s.starts = [.ingest 0 0] := by
  decide +kernel

/-- two machines, one partition, minimum zero; the observation ingests on both machines -/
def rsObs2 : Obs :=
  { id := 0, est := 0, duration := 1, demand := 1, rate := 0, ingestDemand := 2,
    wf := ⟨[(0, 2, 0), (1, 1, 0)], [(0, 1, 0)], [0, 1]⟩ }

def rsW2 : Sys :=
  { machines := [⟨0, 1, 1⟩, ⟨1, 1, 1⟩], totalArrays := 1, maxIngest := 2, alg := .batch 1 0 none,
    cl := Cluster.init [0, 1], buf := Buffer.init 100 10 100 10, obs := [rsObs2] }

theorem rsW2_wf : WFConfig rsW2 := by
  refine ⟨by decide, rfl, by decide, ?_, ⟨rfl, rfl, rfl, rfl, rfl, rfl, rfl, rfl, rfl, rfl, rfl, rfl, rfl,
    rfl, rfl, rfl, rfl⟩⟩
  intro o ho
  simp only [rsW2, List.mem_cons, List.not_mem_nil, or_false] at ho
  subst ho
  exact ⟨rfl, rfl, by decide, by decide⟩

/-- Instant 0: ingest on both machines (allocation processes 8 and 9, bodies 10 and 11).  Instant 1:
the scheduler loop 3 plans the workflow (`allocate_tasks` 12), and 12 runs BEFORE 8 and 9 have given
the machines back: no machine is available, nothing is reserved, the counter stays 0. -/
def rsSchedNone : List Nat :=
  [0, 1, 2, 3, 4, 5, 6, 7, 8, 9, 10, 10, 11, 11,
   0, 1, 2, 3, 4, 5, 6, 12]

theorem rsSchedNone_enabled : pfEnabledAll {} rsSchedNone rsW2.start = true := by decide +kernel

theorem rsSchedNone_reach : Reach rsW2 (pfRun {} rsSchedNone rsW2.start) :=
  pf_reach_run {} rsSchedNone _ Reach.start rsSchedNone_enabled

theorem rsSchedNone_final :
    let s := pfRun {} rsSchedNone rsW2.start
    s.crashed = none ∧ s.cl.idle = [] ∧ s.cl.numProv = 0 ∧ s.cl.available = [] ∧ s.cl.ingest = [0, 1] ∧
    (s.task? pfA).map (·.status) = some .unscheduled := by
  decide +kernel

/-- … then 8 and 9 give the machines back; at instant 2 `allocate_tasks` 12 reserves both and the
workflow starts (`pfA` on machine 0, body 14) -/
def rsSchedLater : List Nat := rsSchedNone ++ [8, 9, 0, 1, 2, 3, 4, 12, 13, 14]

theorem rsSchedLater_enabled : pfEnabledAll {} rsSchedLater rsW2.start = true := by decide +kernel

theorem rsSchedLater_reach : Reach rsW2 (pfRun {} rsSchedLater rsW2.start) :=
  pf_reach_run {} rsSchedLater _ Reach.start rsSchedLater_enabled

theorem rsSchedLater_final :
    let s := pfRun {} rsSchedLater rsW2.start
    s.crashed = none ∧ s.cl.idle = [(0, [1])] ∧ s.cl.numProv = 1 ∧ s.cl.available = [] ∧
    s.starts = [.ingest 0 0, .ingest 0 1, pfA] ∧ s.cl.runOn = [⟨pfA, 0, some 0, false⟩] := by
  decide +kernel

end Sys
end Topsim
