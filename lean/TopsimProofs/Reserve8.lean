/-
  Reserve8 — concrete runs of BatchProcessing.

  Configuration `rsW0`: two machines (cpu 1, bandwidth 1), one observation (`pfObs`: one array, one
  ingest machine, one timestep, rate 0, workflow the chain `0 → 1`), BatchProcessing with one
  partition, a minimum of one machine per workflow, no per-observation split; the empty oracle at
  every block.  Configuration `rsW1`: ONE machine, TWO partitions, minimum ZERO.
-/
import TopsimProofs.PlanFollow4

namespace Topsim
namespace Sys

def rsW0 : Sys :=
  { machines := [⟨0, 1, 1⟩, ⟨1, 1, 1⟩], totalArrays := 1, maxIngest := 1, alg := .batch 1 1 none,
    cl := Cluster.init [0, 1], buf := Buffer.init 100 10 100 10, obs := [pfObs] }

theorem rsW0_wf : WFConfig rsW0 := by
  refine ⟨by decide, rfl, by decide, ?_, ⟨rfl, rfl, rfl, rfl, rfl, rfl, rfl, rfl, rfl, rfl, rfl, rfl, rfl,
    rfl, rfl, rfl, rfl⟩⟩
  intro o ho
  simp only [rsW0, List.mem_cons, List.not_mem_nil, or_false] at ho
  subst ho
  exact ⟨rfl, rfl, by decide, by decide⟩

theorem rsW0_buf : rsW0.buf.hot.stored = [] ∧ rsW0.buf.hot.scheduled = [] ∧
    rsW0.buf.hot.finished = [] ∧ rsW0.buf.cold.stored = [] := ⟨rfl, rfl, rfl, rfl⟩

/-- Creation order inside every instant.  Instant 0: ingest on machine 0 (pids 5–9).  Instant 1: the
scheduler loop 3 plans the workflow (`allocate_tasks` 10); 10 reserves both machines for observation 0
(`floor(2 / 1) = 2`, available `[1, 0]`) and proposes `pfA` on the first of them. -/
def rsSchedRes : List Nat :=
  [0, 1, 2, 3, 4, 5, 6, 7, 8, 9, 9,
   0, 1, 2, 3, 4, 5, 6, 8, 10]

theorem rsSchedRes_enabled : pfEnabledAll {} rsSchedRes rsW0.start = true := by decide +kernel

theorem rsSchedRes_reach : Reach rsW0 (pfRun {} rsSchedRes rsW0.start) :=
  pf_reach_run {} rsSchedRes _ Reach.start rsSchedRes_enabled

theorem rsSchedRes_final :
    let s := pfRun {} rsSchedRes rsW0.start
    s.crashed = none ∧ s.cl.idle = [(0, [1, 0])] ∧ s.cl.numProv = 1 ∧ s.cl.available = [] ∧ s.cl.runOn = [] := by
  decide +kernel

/-- … then the allocation process 11 begins `pfA` on machine 1, taken from the reservation (body 12) -/
def rsSchedRun : List Nat := rsSchedRes ++ [11, 12]

theorem rsSchedRun_enabled : pfEnabledAll {} rsSchedRun rsW0.start = true := by decide +kernel

theorem rsSchedRun_reach : Reach rsW0 (pfRun {} rsSchedRun rsW0.start) :=
  pf_reach_run {} rsSchedRun _ Reach.start rsSchedRun_enabled

theorem rsSchedRun_final :
    let s := pfRun {} rsSchedRun rsW0.start
    s.crashed = none ∧ s.cl.idle = [(0, [0])] ∧ s.cl.numProv = 1 ∧ s.cl.available = [] ∧
    s.cl.occupied = [1] ∧ s.active = [(1, pfA)] ∧ s.starts = [.ingest 0 0, pfA] ∧
    s.cl.runOn = [⟨pfA, 1, some 0, false⟩] := by
  decide +kernel

/-- … and the whole run: `pfA` and `pfB` run and finish; `allocate_tasks` 10 finds the plan empty and
releases the reservation; the simulation is finished, both machines are back in the available pool -/
def rsSchedAll : List Nat :=
  rsSchedRun ++
  [0, 1, 2, 3, 4, 10, 11, 12,
   0, 2, 3, 4, 10, 11,
   0, 2, 3, 4, 10, 13, 14, 14, 14,
   0, 2, 3, 4, 10, 13,
   0, 2, 3, 4, 10]

theorem rsSchedAll_enabled : pfEnabledAll {} rsSchedAll rsW0.start = true := by decide +kernel

theorem rsSchedAll_reach : Reach rsW0 (pfRun {} rsSchedAll rsW0.start) :=
  pf_reach_run {} rsSchedAll _ Reach.start rsSchedAll_enabled

theorem rsSchedAll_final :
    let s := pfRun {} rsSchedAll rsW0.start
    s.crashed = none ∧ s.cl.idle = [] ∧ s.cl.numProv = 0 ∧ s.cl.available = [1, 0] ∧ s.cl.runOn = [] ∧
    s.starts = [.ingest 0 0, pfA, pfB] ∧ s.isFinished = true := by
  decide +kernel

/-! ### minimum zero: the counter counts reservations that do not exist -/

def rsW1 : Sys :=
  { machines := [⟨0, 1, 1⟩], totalArrays := 1, maxIngest := 1, alg := .batch 2 0 none,
    cl := Cluster.init [0], buf := Buffer.init 100 10 100 10, obs := [pfObs] }

theorem rsW1_wf : WFConfig rsW1 := by
  refine ⟨by decide, rfl, by decide, ?_, ⟨rfl, rfl, rfl, rfl, rfl, rfl, rfl, rfl, rfl, rfl, rfl, rfl, rfl,
    rfl, rfl, rfl, rfl⟩⟩
  intro o ho
  simp only [rsW1, List.mem_cons, List.not_mem_nil, or_false] at ho
  subst ho
  exact ⟨rfl, rfl, by decide, by decide⟩

/-- Creation order inside every instant.  Instant 1: `allocate_tasks` 10 asks for
`floor(1 / 2) = 0` machines; `0 < min_resources_per_workflow = 0` is false, so
`provision_batch_resources(0, …)` is called: it adds no idle entry and counts one reservation.
Instant 2: the same again; the counter has reached the number of partitions.  From then on
`_provision_resources` returns False at every block: the workflow is never scheduled, although the
machine is in the available pool. -/
def rsSchedLeak : List Nat :=
  [0, 1, 2, 3, 4, 5, 6, 7, 8, 9, 9,
   0, 1, 2, 3, 4, 5, 6, 8, 10,
   0, 1, 2, 3, 4, 10,
   0, 2, 3, 4, 10]

theorem rsSchedLeak_enabled : pfEnabledAll {} rsSchedLeak rsW1.start = true := by decide +kernel

theorem rsSchedLeak_reach : Reach rsW1 (pfRun {} rsSchedLeak rsW1.start) :=
  pf_reach_run {} rsSchedLeak _ Reach.start rsSchedLeak_enabled

theorem rsSchedLeak_final :
    let s := pfRun {} rsSchedLeak rsW1.start
    s.crashed = none ∧ s.cl.idle = [] ∧ s.cl.numProv = 2 ∧ s.cl.available = [0] ∧ s.starts = [.ingest 0 0] ∧
    (s.task? pfA).map (·.status) = some .unscheduled ∧ s.isFinished = false := by
  decide +kernel

end Sys
end Topsim
