/-
  FinishInv9 — cluster predicates that every cluster operation of a run
  preserves; application: with the queue / dynamic / greedy algorithms no batch
  reservation ever exists.
-/
import TopsimProofs.FinishInv8

namespace Topsim
namespace Sys

open Cluster

/-- a predicate on clusters preserved by the operations the processes perform themselves -/
structure ClClosed (P : Cluster → Prop) : Prop where
  tick : ∀ c, P c → P c.loopTick
  cleanup : ∀ c, P c → P c.cleanUpIngest
  provIngest : ∀ c d o, P c → P (c.provisionIngest d o).1
  allocBegin : ∀ c t m obs ing, P c → P (c.allocBegin t m obs ing).1
  allocEnd : ∀ c t m obs ing, P c → P (c.allocEnd t m obs ing).1
  release : ∀ c o, P c → P (c.releaseBatch o)

/-- … and by the scheduling algorithm `A` -/
def AlgClosed (P : Cluster → Prop) (A : AlgKind → Prop) : Prop :=
  ∀ (s1 : Sys) (orc : Oracle) plan sched pool out, A s1.alg → P s1.cl →
    s1.runAlgorithm orc plan sched pool = .ok out → P out.cl

theorem foldl_cl {α} (f : Sys → α → Sys) (hf : ∀ s x, (f s x).cl = s.cl) (l : List α) (s : Sys) :
    (l.foldl f s).cl = s.cl := by
  induction l generalizing s with
  | nil => rfl
  | cons x r ih => exact (ih _).trans (hf s x)

theorem processOne_cl (now : Time) (oid : Oid) (st : PcsSt) (t : Tid) :
    (processOne now oid st t).s.cl = st.s.cl := by
  unfold processOne
  cases hok : st.err with
  | some e => rfl
  | none =>
    simp only
    cases hm : dictGet st.schedule t with
    | none => rfl
    | some m =>
      cases hr : st.s.task? t with
      | none => rfl
      | some r =>
        simp only []
        cases hmm : st.s.machine? m with
        | none => rfl
        | some mm =>
          simp only []
          by_cases hz : ((r.allocObj || r.planned != some m) = true ∧ (mm.cpu = 0 ∨ mm.bw = 0))
          · rw [if_pos hz]
          · simp only [hz, if_false]
            generalize hs1 : (if (r.allocObj || r.planned != some m) = true then
              st.s.updTask t (fun r => updateAllocation r mm) else st.s) = s1
            have h1 : s1.cl = st.s.cl := by subst hs1; split <;> rfl
            by_cases hocc : (st.curr.contains m = true ∨ s1.cl.isOccupied m = true)
            · simp only [hocc, if_true]; exact h1
            · simp only [hocc, if_false]
              by_cases hmiss : (r.preds.any fun p => !dictHas (dictSet st.pairs t m) p) = true
              · simp only [hmiss, if_true]; exact h1
              · simp only [hmiss]
                by_cases hst : r.status ≠ TStatus.unscheduled
                · rw [if_pos hst]; exact h1
                · rw [if_neg hst]; exact h1

theorem processCurrentSchedule_cl (s : Sys) (now : Time) (oid : Oid)
    (schedule pairs : List (Tid × Mid)) : (processCurrentSchedule s now oid schedule pairs).s.cl = s.cl := by
  unfold processCurrentSchedule
  simp only
  generalize ((dictKeys schedule).mergeSort _) = l
  have : ∀ (l : List Tid) (st : PcsSt), (l.foldl (processOne now oid) st).s.cl = st.s.cl := by
    intro l
    induction l with
    | nil => intro st; rfl
    | cons x r ih => intro st; exact (ih _).trans (processOne_cl now oid st x)
  exact this l { s := s, schedule := schedule, pairs := pairs, curr := [] }

theorem allocTaskBlock_cl (s : Sys) (now : Time) (t : Tid) (m : Mid) (preds : List Tid)
    (obs : Option Oid) (ing : Bool) (ret : Nat) :
    (s.allocTaskBlock now t m preds obs ing ret).1.cl = s.cl ∨
    (s.allocTaskBlock now t m preds obs ing ret).1.cl = (s.cl.allocBegin t m obs ing).1 ∨
    (s.allocTaskBlock now t m preds obs ing ret).1.cl
      = ((s.cl.allocBegin t m obs ing).1.allocEnd t m obs ing).1 ∨
    (s.allocTaskBlock now t m preds obs ing ret).1.cl = (s.cl.allocEnd t m obs ing).1 := by
  unfold allocTaskBlock
  simp only
  split
  · generalize s.cl.allocBegin t m obs ing = r
    obtain ⟨cl1, e1⟩ := r
    cases e1 with
    | some e => exact Or.inr (Or.inl rfl)
    | none =>
      simp only
      split
      · split
        · simp only [spawn_cl, updTask_cl]
          generalize cl1.allocEnd t m obs ing = r2
          obtain ⟨cl2, e2⟩ := r2
          cases e2 <;> exact Or.inr (Or.inr (Or.inl rfl))
        · exact Or.inr (Or.inl rfl)
      · exact Or.inr (Or.inl rfl)
  · split
    · generalize s.cl.allocEnd t m obs ing = r
      obtain ⟨cl1, e1⟩ := r
      cases e1 <;> exact Or.inr (Or.inr (Or.inr rfl))
    · exact Or.inl rfl

variable {P : Cluster → Prop} {A : AlgKind → Prop}

theorem allocTasksIter_clP (hP : ClClosed P) (hA : AlgClosed P A) (s : Sys) (now : Time) (orc : Oracle)
    (oid : Oid) (schedule pairs : List (Tid × Mid)) (pool : List Tid) (ha : A s.alg) (h : P s.cl) :
    P (s.allocTasksIter now orc oid schedule pairs pool).1.cl := by
  unfold allocTasksIter
  simp only
  have h1 : P (s.updateCurrentPlan oid).cl := by rw [(updateCurrentPlan_core s oid).cl]; exact h
  have ha1 : A (s.updateCurrentPlan oid).alg := by rw [updateCurrentPlan_alg]; exact ha
  generalize s.updateCurrentPlan oid = s1 at h1 ha1
  split
  · exact h1
  · split
    · exact h1
    · rename_i out hout
      have hq : P out.cl := hA s1 orc _ schedule pool out ha1 h1 hout
      have h3 : P (if out.status = WStatus.delayed then { (({ s1 with cl := out.cl }).updPlan oid (fun p => { p with status := out.status })) with schedDelayed := true } else (({ s1 with cl := out.cl }).updPlan oid (fun p => { p with status := out.status }))).cl := by
        split <;> exact hq
      generalize (if out.status = WStatus.delayed then { (({ s1 with cl := out.cl }).updPlan oid (fun p => { p with status := out.status })) with schedDelayed := true } else (({ s1 with cl := out.cl }).updPlan oid (fun p => { p with status := out.status }))) = s3 at h3
      split
      · split
        · split
          · exact hP.release _ _ h3
          · exact hP.release _ _ h3
        · exact h3
      · split
        · exact h3
        · have h4 := processCurrentSchedule_cl s3 now oid out.schedule pairs
          split <;> (rw [h4]; exact h3)

theorem allocTasksBlock_clP (hP : ClClosed P) (hA : AlgClosed P A) (s : Sys) (now : Time) (orc : Oracle)
    (pc : Nat) (oid : Oid) (schedule pairs : List (Tid × Mid)) (pool : List Tid) (fin : Bool)
    (ha : A s.alg) (h : P s.cl) :
    P (s.allocTasksBlock now orc pc oid schedule pairs pool fin).1.cl := by
  unfold allocTasksBlock
  split
  · exact h
  · split
    · simp only
      have hfa : ∀ (l : List Tid) (s1 : Sys), (List.foldl (fun (s : Sys) t =>
          s.updTask t (fun r => { r with offset := natNow now })) s1 l).alg = s1.alg := by
        intro l s1; apply foldl_alg; intro _ _; rfl
      have hfc : ∀ (l : List Tid) (s1 : Sys), (List.foldl (fun (s : Sys) t =>
          s.updTask t (fun r => { r with offset := natNow now })) s1 l).cl = s1.cl := by
        intro l s1; apply foldl_cl; intro _ _; rfl
      apply allocTasksIter_clP hP hA
      · show A (Sys.alg (List.foldl _ _ _))
        rw [hfa]; exact ha
      · show P (Sys.cl (List.foldl _ _ _))
        rw [hfc]; exact h
    · exact allocTasksIter_clP hP hA _ _ _ _ _ _ _ ha h

theorem block_clP (hP : ClClosed P) (hA : AlgClosed P A) (s : Sys) (p : Proc) (orc : Oracle)
    (ha : A s.alg) (h : P s.cl) : P (s.block p orc).1.cl := by
  unfold block
  split
  · exact h
  · show P (s.telescopeBlock p.wake).1.cl; rw [telescopeBlock_clm]; exact h
  · exact hP.tick _ h
  · show P (s.schedLoopBlock p.wake orc).1.cl
    unfold schedLoopBlock
    simp only
    split
    · split
      · exact h
      · split
        · exact h
        · split <;> split <;> exact h
    · exact h
  · show P (s.bufferLoopBlock p.wake).1.cl
    unfold bufferLoopBlock
    split
    · exact h
    · simp only; split <;> split <;> exact h
  · rename_i o tl _
    show P (s.allocIngestBlock p.wake p.pc o tl).1.cl
    have hi : ∀ s : Sys, ∀ tl, P s.cl → P (s.allocIngestIter p.wake o tl).1.cl := by
      intro s tl hs
      unfold allocIngestIter
      simp only
      split
      · exact hs
      · split
        · exact hP.cleanup _ hs
        · split
          · exact hs
          · split
            · exact hs
            · exact hP.cleanup _ hs
    unfold allocIngestBlock
    split
    · exact hi _ _ h
    · exact hi _ _ h
  · rename_i o d _
    show P (s.provIngestBlock p.wake p.pc o d).1.cl
    unfold provIngestBlock
    split
    · simp only
      have hm := hP.provIngest s.cl d o h
      generalize s.cl.provisionIngest d o = r at hm
      obtain ⟨cl1, e1, pairs⟩ := r
      cases e1 with
      | some e => exact hm
      | none =>
        simp only
        have : ∀ s1 : Sys, (List.foldl (fun (s : Sys) (p_1 : Mid × Tid) =>
            (s.spawn (.allocTask p_1.2 p_1.1 [] (some o) true 0) p.wake).1) s1 pairs).cl = s1.cl :=
          fun s1 => by apply foldl_cl; intro _ _; rfl
        rw [this]; exact hm
    · exact h
  · rename_i o tl _
    show P (s.ingestStreamBlock p.wake p.pc o tl).1.cl
    have hi : ∀ s : Sys, ∀ tl, (s.ingestStreamIter p.wake o tl).1.cl = s.cl := by
      intro s tl; unfold ingestStreamIter; mach_split
    unfold ingestStreamBlock
    split
    · split
      · exact h
      · split
        · exact h
        · rw [hi]; exact h
    · rw [hi]; exact h
  · rename_i t m preds obs ing ret _
    show P (s.allocTaskBlock p.wake t m preds obs ing ret).1.cl
    rcases allocTaskBlock_cl s p.wake t m preds obs ing ret with he | he | he | he <;> rw [he]
    · exact h
    · exact hP.allocBegin _ _ _ _ _ h
    · exact hP.allocEnd _ _ _ _ _ (hP.allocBegin _ _ _ _ _ h)
    · exact hP.allocEnd _ _ _ _ _ h
  · rename_i t m preds ph tot _
    show P (s.doWorkBlock p.wake orc t m preds ph tot).1.cl
    rcases doWorkBlock_out s p.wake orc t m preds ph tot with
      ⟨_, _, _, _, heq⟩ | ⟨_, _, _, _, _, heq⟩ | ⟨_, _, _, heq⟩ <;> rw [heq] <;> exact h
  · exact allocTasksBlock_clP hP hA _ _ _ _ _ _ _ _ _ ha h
  · rename_i cur _
    show P (s.hot2coldBlock p.wake cur).1.cl
    have hi : ∀ s : Sys, ∀ o left, (s.hot2coldIter p.wake o left).1.cl = s.cl := by
      intro s o left; unfold hot2coldIter; mach_split
    unfold hot2coldBlock
    split
    · rw [hi]; exact h
    · split
      · exact h
      · exact h
      · rw [hi]; exact h
  · rename_i cur _
    show P (s.cold2hotBlock p.wake cur).1.cl
    have hi : ∀ s : Sys, ∀ o left, (s.cold2hotIter p.wake o left).1.cl = s.cl := by
      intro s o left; unfold cold2hotIter; mach_split
    unfold cold2hotBlock
    split
    · rw [hi]; exact h
    · split
      · exact h
      · exact h
      · rw [hi]; exact h

theorem resume_clP (hP : ClClosed P) (hA : AlgClosed P A) (s : Sys) (pid : Nat) (orc : Oracle)
    (ha : A s.alg) (h : P s.cl) : P (s.resume pid orc).1.cl := by
  unfold resume
  split
  · exact h
  · split
    · exact h
    · rename_i p _ _
      have := block_clP hP hA s p orc ha h
      generalize s.block p orc = r at this
      obtain ⟨s1, k, y⟩ := r
      cases y with
      | timeout d => exact this
      | done => exact this
      | raised e => simp only; rw [crash_cl]; exact this

theorem reach_clP (hP : ClClosed P) (hA : AlgClosed P A) {s0 s : Sys} (h : Reach s0 s)
    (ha : A s0.alg) (h0 : P s0.cl) : P s.cl := by
  induction h with
  | start =>
    have : s0.start.cl = s0.cl := by simp [start, spawn]
    rw [this]; exact h0
  | step s pid orc hr _ ih =>
    exact resume_clP hP hA s pid orc (by rw [reach_alg hr]; exact ha) ih

/-! ### no batch reservation without the batch algorithm -/

/-- the three shipped algorithms that never call `provision_batch_resources` -/
def NoBatch (a : AlgKind) : Prop := a = .queue ∨ a = .dynamic ∨ a = .greedy

theorem moveToIngest_idle (c : Cluster) (obs : Oid) (pairs : List (Mid × Tid)) :
    (moveToIngest c obs pairs).1.idle = c.idle := by
  induction pairs generalizing c with
  | nil => rfl
  | cons p rest ih =>
    obtain ⟨m, t⟩ := p
    unfold moveToIngest
    simp only
    split
    · exact ih _
    · rfl

theorem idleNil_closed : ClClosed (fun c => c.idle = []) := by
  constructor
  · intro c h; unfold loopTick; split <;> exact h
  · intro c h; exact h
  · intro c d o h
    unfold provisionIngest
    split
    · exact h
    · simp only
      rw [moveToIngest_idle]; exact h
  · intro c t m obs ing h
    unfold allocBegin
    by_cases ht : t ∈ c.running
    · simp only [ht, if_true]; exact h
    · simp only [ht, if_false]
      cases ing with
      | true => simp only [if_true]; split <;> exact h
      | false =>
        simp only [Bool.false_eq_true, if_false]
        split
        · exact h
        · have hs : (c.setMachineOccupied m obs).1.idle = [] := by
            unfold setMachineOccupied
            split
            · exact h
            · split
              · exact h
              · rename_i o
                simp only [h, dictGet]
          generalize c.setMachineOccupied m obs = r at hs
          obtain ⟨c1, e1⟩ := r
          cases e1 <;> exact hs
  · intro c t m obs ing h
    unfold allocEnd
    by_cases ht : t ∈ c.running
    · simp only [ht, if_true]
      cases ing with
      | true => simp only [if_true]; split <;> exact h
      | false =>
        simp only [Bool.false_eq_true, if_false]
        generalize hc1 : ({ c with running := c.running.erase t, uRunning := c.uRunning - 1,
                                   finished := dictSet c.finished t true,
                                   uFinished := c.uFinished + 1 } : Cluster) = c1
        have h1 : c1.idle = [] := by subst hc1; exact h
        have hs : (c1.setMachineAvailable m obs).1.idle = [] := by
          unfold setMachineAvailable
          split
          · split
            · exact h1
            · simp only [h1, dictGet]
          · exact h1
        generalize c1.setMachineAvailable m obs = r at hs
        obtain ⟨c2, e2⟩ := r
        cases e2 <;> exact hs
    · simp only [ht, if_false]; exact h
  · intro c o h
    unfold releaseBatch
    simp only [h, dictGet]

theorem idleNil_alg : AlgClosed (fun c => c.idle = []) NoBatch := by
  intro s1 orc plan sched pool out ha h hrun
  unfold runAlgorithm at hrun
  split at hrun
  · rename_i hb; rcases ha with ha | ha | ha <;> rw [hb] at ha <;> exact absurd ha (by simp)
  · unfold Alg.queueRun at hrun
    injection hrun with hrun
    subst hrun
    simp only
    split
    · exact idleNil_closed.release _ _ h
    · exact h
  · unfold Alg.dynamicRun at hrun
    simp only at hrun
    split at hrun
    · exact absurd hrun (by simp)
    · injection hrun with hrun; subst hrun; exact h
  · unfold Alg.greedyRun at hrun
    split at hrun
    · exact absurd hrun (by simp)
    · injection hrun with hrun; subst hrun; exact h
  · rename_i hb; rcases ha with ha | ha | ha <;> rw [hb] at ha <;> exact absurd ha (by simp)

theorem reach_idle_nil {s0 s : Sys} (hw : WFConfig s0) (h : Reach s0 s) (ha : NoBatch s0.alg) :
    s.cl.idle = [] :=
  reach_clP idleNil_closed idleNil_alg h ha (by rw [hw.clInit]; rfl)

end Sys
end Topsim
