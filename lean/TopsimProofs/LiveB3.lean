/-
  LiveB3 — BatchProcessing, along a run that does not raise: in a state without live allocation
  process no task occupies a machine, so a reservation consists of its idle machines — at least one
  (`live_res_idle_B`); the counter of reservations is exact (`live_numProv_B`).
-/
import TopsimProofs.LiveB8b
import TopsimProofs.Reserve9

namespace Topsim

open KState Sys

section
variable {env : SimEnv} {s0 : Sys}

/-- no live allocation process: no polling entry -/
theorem live_runOn_nil_B (C : LiveCfgB env s0) (K : LiveKernel env s0) (n : Nat)
    (hq : ∀ q ∈ (simAt env s0 n).st.procs, q.alive = true → q.k.tag ≠ "allocTask") :
    (simAt env s0 n).st.cl.runOn = [] := by
  apply List.eq_nil_iff_forall_not_mem.mpr
  intro e he
  obtain ⟨q, hq', hqa, _, preds, ret, hqk⟩ := live_rc_B C K n e he
  exact hq q hq' hqa (by rw [hqk]; rfl)

/-- in a state without live allocation process, a reservation has an idle machine -/
theorem live_res_idle_B (C : LiveCfgB env s0) (K : LiveKernel env s0) (n : Nat)
    (hq : ∀ q ∈ (simAt env s0 n).st.procs, q.alive = true → q.k.tag ≠ "allocTask")
    {o : Oid} {l : List Mid} (hl : dictGet (simAt env s0 n).st.cl.idle o = some l) : l ≠ [] := by
  obtain ⟨parts, minPer, split, halg⟩ := C.alg
  obtain ⟨h1, _⟩ := Sys.reach_resSize C.hw (l8_bufList_B C) halg (l8_reach_B C K n) o ⟨l, hl⟩
  have hrun := live_runOn_nil_B C K n hq
  unfold Sys.resSize Sys.resRun at h1
  rw [hrun] at h1
  unfold Cluster.idleOf at h1
  simp only [hl, Option.getD_some, List.filter_nil, List.length_nil, Nat.add_zero] at h1
  intro e
  rw [e] at h1
  simp at h1

/-- the counter `num_provisioned_obs` counts the reservations -/
theorem live_numProv_B (C : LiveCfgB env s0) (K : LiveKernel env s0) (n : Nat) :
    ((simAt env s0 n).st.cl.idle.length : Int) = (simAt env s0 n).st.cl.numProv := by
  obtain ⟨parts, minPer, split, halg⟩ := C.alg
  exact Sys.reach_res_count_eq C.hw halg (l8_reach_B C K n)

end

end Topsim
