/-
  LifeCycle3 — the telescope's block as a run of visits, each of which emits at most one
  event: `telStarted` on admission (guard: WAITING, not yet admitted) or `telFinished`
  (guard: not FINISHED, start time known, duration elapsed).
-/
import TopsimProofs.LifeCycle2

namespace Topsim
namespace Sys

/-- one visit of the loop over the observations (`telescopeVisit`), with what it emits -/
inductive TelStep (n : Nat) (oid : Oid) (acc acc' : Sys × Option Err) : List Event → Prop
  | quiet : Ev3 acc.1 acc'.1 [] [] [] → acc'.1.admitted = acc.1.admitted → acc'.1.obs = acc.1.obs →
      acc'.1.procs = acc.1.procs → acc'.1.nextPid = acc.1.nextPid → acc'.1.telUse = acc.1.telUse →
      acc'.1.telStatus = acc.1.telStatus → acc'.1.totalArrays = acc.1.totalArrays →
      (acc.2 ≠ none → acc'.2 = acc.2) →
      (acc.2 ≠ none ∨ acc'.2 ≠ none ∨ acc.1.obs? oid = none ∨
        ∃ ob, acc.1.obs? oid = some ob ∧
          (ob.isReady n ((acc.1.totalArrays : Int) - acc.1.telUse) = true ∨
            ob.isFinishedAt n acc.1.telStatus = false)) →
      TelStep n oid acc acc' []
  | start (ob : Obs) : acc.2 = none → acc'.2 = none →
      Ev3 acc.1 acc'.1 [⟨n, oid, .telStarted⟩] [] [] → acc.1.obs? oid = some ob →
      ob.status = .waiting → ob.est ≤ n → acc'.1.admitted = acc.1.admitted ++ [oid] →
      acc'.1.obs = (acc.1.updObs oid (fun r => { r with ast := some n })).obs →
      acc'.1.procs = acc.1.procs ++ [{ pid := acc.1.nextPid, k := .allocIngest oid 0, wake := (n : Time) }] →
      acc'.1.nextPid = acc.1.nextPid + 1 → acc'.1.telUse = acc.1.telUse + ob.demand →
      acc'.1.telStatus = true → acc'.1.totalArrays = acc.1.totalArrays →
      TelStep n oid acc acc' [⟨n, oid, .telStarted⟩]
  | finish (ob : Obs) (a : Nat) : acc.2 = none → acc'.2 = none →
      Ev3 acc.1 acc'.1 [⟨n, oid, .telFinished⟩] [] [] → acc.1.obs? oid = some ob →
      ob.status ≠ .finished → ob.ast = some a → a + ob.duration ≤ n → acc.1.telStatus = true →
      acc'.1.admitted = acc.1.admitted →
      acc'.1.obs = (acc.1.updObs oid (fun r => { r with status := .finished })).obs →
      acc'.1.procs = acc.1.procs → acc'.1.nextPid = acc.1.nextPid →
      acc'.1.telUse = acc.1.telUse - ob.demand →
      acc'.1.telStatus = (if acc.1.telUse - ob.demand = 0 then false else acc.1.telStatus) →
      acc'.1.totalArrays = acc.1.totalArrays →
      TelStep n oid acc acc' [⟨n, oid, .telFinished⟩]

theorem isFinishedAt_true {o : Obs} {n : Nat} {ts : Bool} (h : o.isFinishedAt n ts = true) :
    ∃ a, o.ast = some a ∧ a + o.duration ≤ n ∧ ts = true ∧ o.status ≠ .finished := by
  unfold Obs.isFinishedAt at h
  split at h
  · exact absurd h (by simp)
  · rename_i a ha
    simp only [Bool.and_eq_true, decide_eq_true_eq, bne_iff_ne, ne_eq] at h
    exact ⟨a, ha, h.1.1, h.1.2, h.2⟩

theorem isReady_true {o : Obs} {n : Nat} {c : Int} (h : o.isReady n c = true) :
    o.est ≤ n ∧ (o.demand : Int) ≤ c ∧ o.status = .waiting := by
  unfold Obs.isReady at h
  simp only [Bool.and_eq_true, decide_eq_true_eq, beq_iff_eq] at h
  exact ⟨h.1.1, h.1.2, h.2⟩

theorem telescopeVisit_step (n : Nat) (acc : Sys × Option Err) (oid : Oid) :
    ∃ t, TelStep n oid acc (telescopeVisit n acc oid) t := by
  obtain ⟨s, err⟩ := acc
  unfold telescopeVisit
  cases err with
  | some e =>
    exact ⟨[], TelStep.quiet (Ev3.refl _) rfl rfl rfl rfl rfl rfl rfl (fun _ => rfl) (Or.inl (by simp))⟩
  | none =>
    simp only
    cases hob : s.obs? oid with
    | none =>
      exact ⟨[], TelStep.quiet (Ev3.refl _) rfl rfl rfl rfl rfl rfl rfl (fun _ => rfl)
        (Or.inr (Or.inr (Or.inl hob)))⟩
    | some o =>
      simp only
      by_cases hready : o.isReady n ((s.totalArrays : Int) - s.telUse) = true
      · simp only [hready, if_true]
        have hwhy : (none : Option Err) ≠ none ∨ (none : Option Err) ≠ none ∨ s.obs? oid = none ∨
            ∃ ob, s.obs? oid = some ob ∧ (ob.isReady n ((s.totalArrays : Int) - s.telUse) = true ∨
              ob.isFinishedAt n s.telStatus = false) :=
          Or.inr (Or.inr (Or.inr ⟨o, hob, Or.inl hready⟩))
        cases hc : s.checkIngestCapacity o with
        | error e =>
          exact ⟨[], TelStep.quiet (Ev3.refl _) rfl rfl rfl rfl rfl rfl rfl (fun h => absurd rfl h)
            (Or.inr (Or.inl (by simp)))⟩
        | ok r =>
          obtain ⟨s', b⟩ := r
          have hcore := checkIngestCapacity_core s o s' b hc
          have hok := checkIngestCapacity_ok s o s' b hc
          have hev : Ev3 s s' [] [] [] := by
            rcases hok with h | ⟨_, h⟩ <;> subst h
            · exact Ev3.refl _
            · exact Ev3.of_eq rfl rfl rfl
          have htu : s'.telUse = s.telUse ∧ s'.telStatus = s.telStatus ∧ s'.totalArrays = s.totalArrays := by
            rcases hok with h | ⟨_, h⟩ <;> subst h <;> exact ⟨rfl, rfl, rfl⟩
          cases b with
          | false =>
            exact ⟨[], TelStep.quiet hev hcore.admitted hcore.obs hcore.procs hcore.nextPid htu.1 htu.2.1
              htu.2.2 (fun h => absurd rfl h) hwhy⟩
          | true =>
            simp only
            obtain ⟨hr1, _, hr3⟩ := isReady_true hready
            refine ⟨_, TelStep.start o rfl rfl ?_ hob hr3 hr1 ?_ ?_ ?_ ?_ ?_ rfl htu.2.2⟩
            · exact (hev.trans_nil (Ev3.of_eq rfl rfl rfl)).trans_nil (by
                refine Ev3.nil_trans (c := _) ?_ (Ev3.refl _)
                exact ⟨by simp, by simp, by simp⟩)
            · show s'.admitted ++ [oid] = s.admitted ++ [oid]
              rw [hcore.admitted]
            · show (List.map _ s'.obs) = List.map _ s.obs
              rw [hcore.obs]
            · simp [spawn, updObs, addTel, hcore.procs, hcore.nextPid]
            · simp [spawn, updObs, addTel, hcore.nextPid]
            · simp [spawn, updObs, addTel, htu.1]
      · simp only [hready, Bool.false_eq_true, if_false]
        by_cases hfin : o.isFinishedAt n s.telStatus = true
        · simp only [hfin, if_true]
          obtain ⟨a, ha, hle, hts, hst⟩ := isFinishedAt_true hfin
          exact ⟨_, TelStep.finish o a rfl rfl ⟨by simp, by simp, by simp⟩ hob hst ha hle hts rfl rfl rfl rfl rfl
            rfl rfl⟩
        · simp only [hfin, Bool.false_eq_true, if_false]
          exact ⟨[], TelStep.quiet (Ev3.refl _) rfl rfl rfl rfl rfl rfl rfl (fun _ => rfl)
            (Or.inr (Or.inr (Or.inr ⟨o, hob, Or.inr (by simpa using hfin)⟩)))⟩

/-- the loop over a list of observation ids -/
inductive TelRun (n : Nat) : List Oid → Sys × Option Err → Sys × Option Err → List Event → Prop
  | nil (acc : Sys × Option Err) : TelRun n [] acc acc []
  | cons (oid : Oid) (l : List Oid) (acc acc1 acc2 : Sys × Option Err) (t L : List Event) :
      TelStep n oid acc acc1 t → TelRun n l acc1 acc2 L → TelRun n (oid :: l) acc acc2 (t ++ L)

theorem telescopeFold_run (n : Nat) (l : List Oid) (acc : Sys × Option Err) :
    ∃ L, TelRun n l acc (l.foldl (telescopeVisit n) acc) L := by
  induction l generalizing acc with
  | nil => exact ⟨[], TelRun.nil acc⟩
  | cons x r ih =>
    obtain ⟨t, ht⟩ := telescopeVisit_step n acc x
    obtain ⟨L, hL⟩ := ih (telescopeVisit n acc x)
    exact ⟨t ++ L, TelRun.cons x r acc _ _ t L ht hL⟩

theorem TelStep.ev3 {n : Nat} {oid : Oid} {acc acc' : Sys × Option Err} {t : List Event}
    (h : TelStep n oid acc acc' t) : Ev3 acc.1 acc'.1 t [] [] := by
  cases h with
  | quiet h _ _ _ _ _ _ _ _ _ => exact h
  | start _ _ _ h _ _ _ _ _ _ _ _ _ _ => exact h
  | finish _ _ _ _ h _ _ _ _ _ _ _ _ _ _ _ _ => exact h

theorem TelRun.ev3 {n : Nat} {l : List Oid} {acc acc' : Sys × Option Err} {L : List Event}
    (h : TelRun n l acc acc' L) : Ev3 acc.1 acc'.1 L [] [] := by
  induction h with
  | nil acc => exact Ev3.refl _
  | cons oid l acc acc1 acc2 t L ht _ ih => simpa using ht.ev3.trans ih

/-- the telescope's block: nothing when every observation is FINISHED, otherwise one visit per
observation, in configuration order, from the state with the telescope's pending list emptied -/
theorem telescopeBlock_run (s : Sys) (now : Time) :
    ((s.telescopeBlock now).1 = { s with telEvents := [] } ∧ (s.telescopeBlock now).2 = .done ∧
      s.obs.all (fun o => o.status == .finished) = true) ∨
    (∃ s0 e L, s0.telEvents = [] ∧ s0.schEvents = s.schEvents ∧ s0.bufEvents = s.bufEvents ∧
      s0.admitted = s.admitted ∧ s0.obs = s.obs ∧ s0.procs = s.procs ∧ s0.nextPid = s.nextPid ∧
      s0.telUse = s.telUse ∧ s0.telStatus = s.telStatus ∧ s0.totalArrays = s.totalArrays ∧
      TelRun (natNow now) (s.obs.map (·.id)) (s0, none) ((s.telescopeBlock now).1, e) L ∧
      ((s.telescopeBlock now).2 = .timeout 1 ∧ e = none ∨ ∃ x, (s.telescopeBlock now).2 = .raised x ∧ e = some x)) := by
  unfold telescopeBlock
  split
  · rename_i h; exact Or.inl ⟨rfl, rfl, h⟩
  · right
    simp only
    obtain ⟨L, hL⟩ := telescopeFold_run (natNow now) (s.obs.map (·.id))
      ({ s with telEvents := [],
                telDelayed := if s.schedDelayed ∧ !s.telDelayed then true else s.telDelayed }, none)
    generalize (List.foldl (telescopeVisit (natNow now))
      ({ s with telEvents := [],
                telDelayed := if s.schedDelayed ∧ !s.telDelayed then true else s.telDelayed }, none)
      (s.obs.map (·.id))) = r at hL ⊢
    obtain ⟨s1, e1⟩ := r
    cases e1 with
    | some x =>
      refine ⟨_, some x, L, ?_, ?_, ?_, ?_, ?_, ?_, ?_, ?_, ?_, ?_, hL, Or.inr ⟨x, rfl, rfl⟩⟩ <;> rfl
    | none =>
      refine ⟨_, none, L, ?_, ?_, ?_, ?_, ?_, ?_, ?_, ?_, ?_, ?_, hL, Or.inl ⟨rfl, rfl⟩⟩ <;> rfl

/-- the events of the telescope's block -/
theorem telescopeBlock_ev3 (s : Sys) (now : Time) :
    ∃ L, Ev3 { s with telEvents := [] } (s.telescopeBlock now).1 L [] [] := by
  rcases telescopeBlock_run s now with ⟨h, _, _⟩ | ⟨s0, e, L, h1, h2, h3, _, _, _, _, _, _, _, hrun, _⟩
  · rw [h]; exact ⟨[], Ev3.refl _⟩
  · exact ⟨L, hrun.ev3.congr_left h1.symm h2.symm h3.symm⟩

end Sys
end Topsim
