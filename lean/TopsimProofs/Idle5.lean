/-
  Idle5 — every record of the task table carries the stamps of the first record with its id
  (`IdleTbl.dup`), in every `ReachOk` state of the block system and every state of every run of the
  simulator — whether or not the ids of the table are distinct (a topological list that names a node
  twice, a static plan with two rows for one node and an observation that is planned twice all produce
  tables with repeated ids).

  Two facts make the appended records harmless: an ingest id `o_ingest_i` is created once (the
  provisioner of `o` runs its first block once, `RecI.ingProv`, `CI.provUniq`); a workflow id carries
  the clock of the scheduler loop's block that created it, and that loop runs once per instant
  (`IdleTbl.clk`: every workflow id in the table is older than the scheduler loop's next block).
-/
import TopsimProofs.Idle4
import TopsimProofs.TaskTable2
import TopsimProofs.Live15a

namespace Topsim
namespace Sys

structure IdleTbl (s : Sys) : Prop where
  dup : IdleDupOK s.tasks
  /-- the scheduler loop is due at a whole instant, later than the clock of every workflow id -/
  clk : ∀ q ∈ s.procs, q.k = .schedLoop → q.alive = true →
    ∃ n : Nat, q.wake = ((n : Nat) : Time) ∧ ∀ r ∈ s.tasks, ∀ o c n', r.id = Tid.wf o c n' → c < n

theorem idleTbl_start (s0 : Sys) (hw : WFConfig s0) : IdleTbl s0.start := by
  have hp := start_procs s0 hw
  have ht : s0.start.tasks = [] := by rw [← hw.fresh.2.2.1]; simp [start, spawn]
  constructor
  · rw [ht]; intro r hr; cases hr
  · intro q hq hk _
    rw [hp] at hq
    simp only [List.mem_cons, List.not_mem_nil, or_false] at hq
    refine ⟨0, ?_, by rw [ht]; intro r hr; cases hr⟩
    rcases hq with rfl | rfl | rfl | rfl | rfl <;> simp at hk ⊢

theorem idleTbl_step {s : Sys} (hs : SInv s) (hri : RecI s) (hl : LoopPids s) (h : IdleTbl s) {pid : Nat}
    {p : Proc} (hp : s.proc? pid = some p) (ha : p.alive = true)
    (hmin : ∀ q ∈ s.procs, q.alive = true → p.wake ≤ q.wake) (orc : Oracle) :
    IdleTbl (s.resume pid orc).1 := by
  obtain ⟨hpm, hpid⟩ := proc?_some hp
  obtain ⟨new, hm, _, hnewp⟩ := ot_step_table hs hp ha hmin orc
  have htk : (s.resume pid orc).1.tasks = (s.block p orc).1.tasks := (resume_core s pid orc p hp ha).tasks
  obtain ⟨U, hU⟩ := hs.ci
  -- no ingest record of an observation whose provisioner has not run yet
  have hnoIng : ∀ o d, p.k = .provIngest o d → p.pc = 0 → ∀ r0 ∈ s.tasks, ∀ i, r0.id = .ingest o i → False := by
    intro o d hk hpc r0 hr0 i e
    obtain ⟨q, hq, d', hqk, hqpc, _⟩ := hri.ingProv r0 hr0 o i e
    have := hU.provUniq q hq p hpm o d' d hqk hk
    have : q = p := hs.pw.eq_of_pid hq hpm this
    subst this
    omega
  -- no workflow record with the clock of the scheduler loop's block that is about to run
  have hnoWf : p.k = .schedLoop → ∀ r0 ∈ s.tasks, ∀ o n, r0.id = Tid.wf o (natNow p.wake) n → False := by
    intro hk r0 hr0 o n e
    obtain ⟨n0, hw0, hlt⟩ := h.clk p hpm hk ha
    have := hlt r0 hr0 o (natNow p.wake) n e
    rw [hw0, natNow_natCast] at this
    omega
  have hshape := idle_block_tasksShape s hs.pw p orc
  constructor
  · -- the stamps of repeated ids
    rw [htk]
    rcases hshape with ⟨g, e, hg⟩ | ⟨o, d, recs, hk, hpc, ht, hid, hst⟩ | ⟨hk, o, recs, ht, hid, hst⟩
    · rw [e]; exact h.dup.map hg
    · rw [ht]
      refine h.dup.append ?_ ?_
      · intro r hr
        rcases hst r hr with h1 | h1
        · obtain ⟨i, _, ei⟩ := hid r hr
          exact absurd (hnoIng o d hk hpc r h1 i ei) id
        · exact h1
      · intro r hr r0 h0
        obtain ⟨i, _, ei⟩ := hid r hr
        have hid0 : r0.id = r.id := by simpa using List.find?_some h0
        exact absurd (hnoIng o d hk hpc r0 (List.mem_of_find?_eq_some h0) i (hid0.trans ei)) id
    · rw [ht]
      refine h.dup.append hst ?_
      intro r hr r0 h0
      obtain ⟨n, en⟩ := hid r hr
      have hid0 : r0.id = r.id := by simpa using List.find?_some h0
      exact absurd (hnoWf hk r0 (List.mem_of_find?_eq_some h0) o.id n (hid0.trans en)) id
  · -- the scheduler loop's clock
    intro q hq hqk hqa
    rcases (hm q).mp hq with rfl | ⟨hq0, hne⟩ | hqn
    · -- the scheduler loop has just run
      simp only [fin_k] at hqk
      have hpk : p.k = .schedLoop := nco_tag_schedLoop (by rw [← block_tag s hs.pw p orc, hqk]; rfl)
      obtain ⟨n0, hw0, hlt⟩ := h.clk p hpm hpk ha
      obtain ⟨_, d, hd⟩ := fin_alive _ _ _ _ hqa
      have hu := block_unit s p orc (by rw [hpk]; rfl)
      rw [hd] at hu
      simp only [Yield.unit] at hu
      subst hu
      refine ⟨n0 + 1, ?_, ?_⟩
      · rw [hd, fin_timeout]
        show p.wake + 1 = _
        rw [hw0]; simp
      · intro r' hr' o c n' e
        rw [htk] at hr'
        rcases hshape with ⟨g, eg, hg⟩ | ⟨o1, d1, recs, hk1, _⟩ | ⟨_, o1, recs, ht, hid, _⟩
        · rw [eg] at hr'
          obtain ⟨r, hr, rfl⟩ := List.mem_map.mp hr'
          have := hlt r hr o c n' (by rw [← hg.id r]; exact e)
          omega
        · rw [hpk] at hk1; cases hk1
        · rw [ht] at hr'
          rcases List.mem_append.mp hr' with h1 | h1
          · have := hlt r' h1 o c n' e
            omega
          · obtain ⟨n, en⟩ := hid r' h1
            rw [e] at en
            injection en with _ e2 _
            rw [e2, hw0, natNow_natCast]
            omega
    · -- another process has run: the scheduler loop is where it was
      have hpk : p.k ≠ .schedLoop := by
        intro hpk
        exact hne ((hl.sch hq0 hqk).trans (hl.sch hpm hpk).symm)
      obtain ⟨n0, hw0, hlt⟩ := h.clk q hq0 hqk hqa
      refine ⟨n0, hw0, ?_⟩
      intro r' hr' o c n' e
      rw [htk] at hr'
      rcases hshape with ⟨g, eg, hg⟩ | ⟨o1, d1, recs, _, _, ht, hid, _⟩ | ⟨hk1, _⟩
      · rw [eg] at hr'
        obtain ⟨r, hr, rfl⟩ := List.mem_map.mp hr'
        exact hlt r hr o c n' (by rw [← hg.id r]; exact e)
      · rw [ht] at hr'
        rcases List.mem_append.mp hr' with h1 | h1
        · exact hlt r' h1 o c n' e
        · obtain ⟨i, _, ei⟩ := hid r' h1
          rw [e] at ei; cases ei
      · exact absurd hk1 hpk
    · exact absurd hqk (nco_newKind_not_loop (hnewp q hqn).2.2.2).2

theorem IdleTbl.congr {s s' : Sys} (h : IdleTbl s) (h1 : s'.tasks = s.tasks) (h2 : s'.procs = s.procs) :
    IdleTbl s' := by
  constructor
  · rw [h1]; exact h.dup
  · rw [h1, h2]; exact h.clk

/-- in every `ReachOk` state of the block system -/
theorem idle_reach_tbl (s0 s : Sys) (hw : WFConfig s0) (h : ReachOk s0 s) : LoopPids s ∧ IdleTbl s := by
  induction h with
  | start => exact ⟨LoopPids.init s0 hw, idleTbl_start s0 hw⟩
  | step s pid orc hr hen _ ih =>
    obtain ⟨p, hp, ha, hmin⟩ := hen
    have hs := reach_inv s0 s hw hr
    exact ⟨ih.1.resume hs.pw hp ha orc, idleTbl_step hs (reachOk_reci s0 s hw hr) ih.1 ih.2 hp ha hmin orc⟩

/-- **The table and the records every block reads agree on the stamps**: for every record `r` of the
table, the first record with its id has the same recorded start and finish. -/
theorem IdleTbl.first {s : Sys} (h : IdleTbl s) {r : TaskRec} (hr : r ∈ s.tasks) :
    ∃ r0, s.task? r.id = some r0 ∧ r0.ast = r.ast ∧ r0.aft = r.aft :=
  h.dup r hr

end Sys

open KState Sys

/-- in every state of every run of the simulator -/
theorem idle_sim_tbl (env : SimEnv) (s0 : Sys) (hw : WFConfig s0) (k : SimState) (h : SimReach env s0 k) :
    IdleTbl k.st := by
  have : RecI k.st ∧ IdleTbl k.st := by
    refine SimReach.sys_induct hw (fun s => RecI s ∧ IdleTbl s) ⟨reci_start s0 hw, idleTbl_start s0 hw⟩
      (fun s hs => ⟨⟨hs.1.wfPlan, hs.1.ingProv, hs.1.noRaw, hs.1.startsRec⟩, hs.2.congr rfl rfl⟩)
      (fun s hs => ⟨⟨hs.1.wfPlan, hs.1.ingProv, hs.1.noRaw, hs.1.startsRec⟩, hs.2.congr rfl rfl⟩) ?_ k h
    intro k hr ih pid p hp ha hen
    have hsinv := (hr.l3inv hw).sinv
    have hri := reci_step hsinv ih.1 hen (env.oracle k.st) (fun _ => il_oracle_preOk env k.st)
    obtain ⟨p', hp', _, hmin⟩ := hen
    rw [hp] at hp'; cases hp'
    exact ⟨hri, idleTbl_step hsinv ih.1 (hr.loopPids hw) ih.2 hp ha hmin _⟩
  exact this.2

end Topsim
