/-
  Live8b — every polling entry of the cluster (`runOn`) belongs to a live allocation process
  (`l8RC`, for every algorithm that is not the oracle), and what follows when no allocation process
  is alive: the pools `occupied`, `ingest`, `running` are empty and every machine is available.
-/
import TopsimProofs.Live8
import TopsimProofs.Interval1
import TopsimProofs.FinishInv9

namespace Topsim

open KState Sys

namespace Sys

/-- every `runOn` entry belongs to a polling allocation process -/
def l8RC (s : Sys) : Prop :=
  ∀ e ∈ s.cl.runOn, ∃ p ∈ s.procs, p.alive = true ∧ 1 ≤ p.pc ∧
    ∃ preds ret, p.k = .allocTask e.task e.mach preds e.obs e.ing ret

theorem l8_nodup_of_map {α β} (f : α → β) : ∀ {l : List α}, (l.map f).Nodup → l.Nodup
  | [], _ => List.nodup_nil
  | a :: l, h => by
    simp only [List.map_cons, List.nodup_cons] at h
    exact List.nodup_cons.mpr ⟨fun ha => h.1 (List.mem_map_of_mem ha), l8_nodup_of_map f h.2⟩

theorem l8_runOn_nodup {c : Cluster} {U : List Tid} (h : Cluster.Inv c U) : c.runOn.Nodup := by
  have := h.runNodup
  rw [← h.runOnTasks] at this
  exact l8_nodup_of_map _ this

theorem l8_rc_step {s : Sys} (hs : SInv s) (h : l8RC s) {pid : Nat} (hen : s.enabled pid) (orc : Oracle)
    (hpre : s.alg = .oracle → orc.preOk)
    (hnr : ∀ p, s.proc? pid = some p → ∀ err, (s.block p orc).2.2 ≠ .raised err) :
    l8RC (s.resume pid orc).1 := by
  obtain ⟨p, hp, ha, hmin⟩ := hen
  obtain ⟨hpm, hpid⟩ := proc?_some hp
  subst hpid
  have hnr' := hnr p hp
  obtain ⟨U, hU⟩ := hs.ci
  have hpw := hs.pw
  obtain ⟨new, hm, hnew, hnewp⟩ := ot_step_table hs hp ha hmin orc
  have hcl : (s.resume p.pid orc).1.cl = (s.block p orc).1.cl := (il_resume_fields s p.pid orc p hp ha).2.1
  have keep : ∀ q ∈ s.procs, q.pid ≠ p.pid → q ∈ (s.resume p.pid orc).1.procs :=
    fun q hq hne => (hm q).mpr (Or.inr (Or.inl ⟨hq, hne⟩))
  have hself : fin (s.block p orc).2.1 (s.block p orc).2.2 p.wake p ∈ (s.resume p.pid orc).1.procs :=
    (hm _).mpr (Or.inl rfl)
  -- blocks that leave `runOn` alone, of a process that is no allocation process
  have quiet : (s.block p orc).1.cl.runOn = s.cl.runOn → p.k.tag ≠ "allocTask" → l8RC (s.resume p.pid orc).1 := by
    intro hrun htag e he
    rw [hcl, hrun] at he
    obtain ⟨q, hq, hqa, hqc, preds, ret, hqk⟩ := h e he
    refine ⟨q, keep q hq ?_, hqa, hqc, preds, ret, hqk⟩
    intro hne
    have : q = p := hpw.eq_of_pid hq hpm hne
    rw [this] at hqk
    rw [hqk] at htag
    exact htag rfl
  have harm : p.k.tag ≠ "allocTask" → p.k.tag ≠ "allocTasks" → l8RC (s.resume p.pid orc).1 :=
    fun h2 h4 => quiet (block_runOn_harmless s p orc h2 h4) h2
  cases hk : p.k with
  | monitor => exact harm (by simp [hk, PK.tag]) (by simp [hk, PK.tag])
  | telescope => exact harm (by simp [hk, PK.tag]) (by simp [hk, PK.tag])
  | clusterLoop => exact harm (by simp [hk, PK.tag]) (by simp [hk, PK.tag])
  | schedLoop => exact harm (by simp [hk, PK.tag]) (by simp [hk, PK.tag])
  | bufferLoop => exact harm (by simp [hk, PK.tag]) (by simp [hk, PK.tag])
  | allocIngest o tl => exact harm (by simp [hk, PK.tag]) (by simp [hk, PK.tag])
  | provIngest o d => exact harm (by simp [hk, PK.tag]) (by simp [hk, PK.tag])
  | ingestStream o tl => exact harm (by simp [hk, PK.tag]) (by simp [hk, PK.tag])
  | doWork t m preds ph tot => exact harm (by simp [hk, PK.tag]) (by simp [hk, PK.tag])
  | hot2cold cur => exact harm (by simp [hk, PK.tag]) (by simp [hk, PK.tag])
  | cold2hot cur => exact harm (by simp [hk, PK.tag]) (by simp [hk, PK.tag])
  | allocTasks o sc pa po fn =>
    refine quiet ?_ (by simp [hk, PK.tag])
    rw [block_allocTasks orc hk]
    exact allocTasksBlock_runOn s p.wake orc hpre p.pc o sc pa po fn
  | allocTask t m preds obs ing ret =>
    have hb := block_allocTask (s := s) orc hk
    -- an old entry whose process is another one
    have other : ∀ e ∈ s.cl.runOn, (e.task = t → False) →
        ∃ q ∈ (s.resume p.pid orc).1.procs, q.alive = true ∧ 1 ≤ q.pc ∧
          ∃ preds' ret', q.k = .allocTask e.task e.mach preds' e.obs e.ing ret' := by
      intro e he hne
      obtain ⟨q, hq, hqa, hqc, preds', ret', hqk⟩ := h e he
      refine ⟨q, keep q hq ?_, hqa, hqc, preds', ret', hqk⟩
      intro hpid
      have : q = p := hpw.eq_of_pid hq hpm hpid
      rw [this, hk] at hqk
      simp only [PK.allocTask.injEq] at hqk
      exact hne hqk.1.symm
    rcases allocTaskBlock_cases s hpw p.wake t m preds obs ing ret with
      ⟨_, e, _, heq⟩ | ⟨hnrun, hok, heq⟩ | ⟨hr, _, heq⟩ | ⟨_, _, e, _, heq⟩ | ⟨hr, _, hok, heq⟩
    · exact absurd (show (s.block p orc).2.2 = .raised e by rw [hb, heq]) (hnr' e)
    · -- the first block: the entry of `p` is appended
      obtain ⟨f1, _, _, _⟩ := allocBegin_fields s.cl t m obs ing hok
      intro e he
      rw [hcl, hb, heq] at he
      have he' : e ∈ s.cl.runOn ++ [⟨t, m, obs, ing⟩] := by rw [← f1]; exact he
      rcases List.mem_append.mp he' with h1 | h1
      · apply other e h1
        intro het
        apply hnrun
        rw [← hU.inv.runOnTasks, ← het]
        exact List.mem_map_of_mem h1
      · simp only [List.mem_singleton] at h1
        subst h1
        refine ⟨_, hself, ?_, by simp, preds, s.nextPid, ?_⟩
        · rw [hb, heq]; exact ha
        · rw [fin_k, hb, heq]
    · -- polling: nothing changes
      intro e he
      rw [hcl, hb, heq] at he
      by_cases het : e.task = t
      · obtain ⟨q, hq, hqa, hqc, preds', ret', hqk⟩ := h e he
        have hqp : q = p := hpw.eq_of_pid hq hpm (hU.uniq q hq p hpm hqa ha _ _ _ _ _ _ _ _ _ _ _ (het ▸ hqk) hk)
        rw [hqp, hk] at hqk
        simp only [PK.allocTask.injEq] at hqk
        obtain ⟨e1, e2, _, e4, e5, _⟩ := hqk
        refine ⟨_, hself, ?_, by simp, preds, ret, ?_⟩
        · rw [hb, heq]; exact ha
        · rw [fin_k, hb, heq, e1, e2, e4, e5]
      · exact other e he het
    · exact absurd (show (s.block p orc).2.2 = .raised e by rw [hb, heq]) (hnr' e)
    · -- the last block: the entry of `p` is erased
      obtain ⟨f1, _, _, _⟩ := allocEnd_fields s.cl t m obs ing hok
      intro e he
      rw [hcl, hb, heq] at he
      have he' : e ∈ s.cl.runOn.erase ⟨t, m, obs, ing⟩ := by rw [← f1]; exact he
      have hnd := l8_runOn_nodup hU.inv
      obtain ⟨hne, hin⟩ := (List.Nodup.mem_erase_iff hnd).mp he'
      apply other e hin
      intro het
      obtain ⟨q, hq, hqa, hqc, preds', ret', hqk⟩ := h e hin
      have hqp : q = p := hpw.eq_of_pid hq hpm (hU.uniq q hq p hpm hqa ha _ _ _ _ _ _ _ _ _ _ _ (het ▸ hqk) hk)
      rw [hqp, hk] at hqk
      simp only [PK.allocTask.injEq] at hqk
      obtain ⟨e1, e2, _, e4, e5, _⟩ := hqk
      apply hne
      cases e
      simp only at e1 e2 e4 e5
      rw [e1, e2, e4, e5]

theorem l8_rc_start (s0 : Sys) (hw : WFConfig s0) : l8RC s0.start := by
  intro e he
  have hcl : s0.start.cl = s0.cl := by simp [start, spawn]
  rw [hcl, hw.clInit] at he
  simp [Cluster.init] at he

end Sys

section
variable {env : SimEnv} {s0 : Sys}

theorem l8_oracle_preOk (C : LiveCfg env s0) (K : LiveKernel env s0) (n : Nat) (orc : Oracle) :
    (simAt env s0 n).st.alg = .oracle → orc.preOk := by
  intro h; rw [l8_alg C K n] at h; cases h

/-- along the run, every polling entry of the cluster belongs to a live allocation process -/
theorem live_rc (C : LiveCfg env s0) (K : LiveKernel env s0) (n : Nat) : Sys.l8RC (simAt env s0 n).st := by
  induction n with
  | zero => exact Sys.l8_rc_start s0 C.hw
  | succ n ih =>
    obtain ⟨e, p, _, hpp, _, _, hen, hnr, hst⟩ := l8_step C K n
    rw [hst]
    refine Sys.l8_rc_step (l8_sinv C K n) ih hen _ (l8_oracle_preOk C K n _) ?_
    intro p' hp' err
    rw [hpp] at hp'; cases hp'
    exact hnr err

/-- no live allocation process: the cluster is free -/
theorem live_cluster_free (C : LiveCfg env s0) (K : LiveKernel env s0) (n : Nat)
    (hq : ∀ q ∈ (simAt env s0 n).st.procs, q.alive = true → q.k.tag ≠ "allocTask") :
    (simAt env s0 n).st.cl.occupied = [] ∧ (simAt env s0 n).st.cl.ingest = [] ∧
    (simAt env s0 n).st.cl.running = [] ∧
    (simAt env s0 n).st.cl.available.length = s0.machines.length := by
  obtain ⟨U, hU⟩ := (l8_sinv C K n).ci
  have hinv := hU.inv
  have hti := ((K.reach n).l3inv C.hw).ti
  have hrun : (simAt env s0 n).st.cl.runOn = [] := by
    apply List.eq_nil_iff_forall_not_mem.mpr
    intro e he
    obtain ⟨q, hq', hqa, _, preds, ret, hqk⟩ := live_rc C K n e he
    exact hq q hq' hqa (by rw [hqk]; rfl)
  have hpend : (simAt env s0 n).st.cl.pending = [] := by
    apply List.eq_nil_iff_forall_not_mem.mpr
    intro e he
    obtain ⟨o, _, q, hq', hqa, _, preds, ret, hqk⟩ := hti.entPend e he
    exact hq q hq' hqa (by rw [hqk]; rfl)
  have hidle : (simAt env s0 n).st.cl.idle = [] :=
    reach_idle_nil C.hw (l8_reach C K n) (Or.inl C.alg)
  have hocc : (simAt env s0 n).st.cl.occupied = [] := by
    apply List.eq_nil_iff_forall_not_mem.mpr
    intro m hm
    have := hinv.occ m
    unfold Cluster.runMachines at this
    rw [hrun] at this
    have hpos := List.count_pos_iff.mpr hm
    simp at this
    omega
  have hing : (simAt env s0 n).st.cl.ingest = [] := by
    apply List.eq_nil_iff_forall_not_mem.mpr
    intro m hm
    have := hinv.ingm m
    unfold Cluster.runMachines at this
    rw [hrun, hpend] at this
    have hpos := List.count_pos_iff.mpr hm
    simp at this
    omega
  refine ⟨hocc, hing, ?_, ?_⟩
  · rw [← hinv.runOnTasks, hrun]; rfl
  · have := hinv.perm.length_eq
    have hall : (simAt env s0 n).st.cl.idleAll = [] := by unfold Cluster.idleAll; rw [hidle]; rfl
    rw [hocc, hing, hall] at this
    simp only [List.append_nil] at this
    rw [this, sim_machines env s0 C.hw _ (K.reach n), List.length_map]

end

end Topsim
