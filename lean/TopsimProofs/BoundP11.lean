/-
  BoundP11 — the serial bound `Sys.serialBound` is EXCEEDED by a run of a plan-following algorithm
  that meets every hypothesis of the termination theorems: the counterexample configuration.

  Configuration `boundP_cxW alg`: one machine (id 0, 1 flop/step, bandwidth 1), one array, ingest
  limit 1, hot / cold buffer 100 / 100 (rates 10 / 10), one observation (id 0, planned start 0,
  duration 1, demand 1 array, 1 ingest machine, rate 1) whose workflow is the single node 0 with
  `comp = 0`, `task_data = 0`, no edges.  Static plan `boundP_cxEnv`: node 0 on machine 0,
  `est = 0`, `eft = 40`.

  `do_work` runs a task WITHOUT work for its planned duration `eft - est = 40`; the serial bound
  charges it `max 1 (max (0 / 1) (0 / 1)) + 0 + 3 = 4` and is 10 in total.  Under either algorithm the
  run is first at `is_finished()` after 273 kernel steps with the clock at 43
  (`boundP_cx_first`, by evaluation in the kernel), and the clock never decreases.
-/
import TopsimProofs.BoundP10

namespace Topsim

open KState Sys

def boundP_cxObs : Obs :=
  { id := 0, est := 0, duration := 1, demand := 1, rate := 1, ingestDemand := 1,
    wf := ⟨[(0, 0, 0)], [], [0]⟩ }

def boundP_cxW (alg : AlgKind) : Sys :=
  { machines := [⟨0, 1, 1⟩], totalArrays := 1, maxIngest := 1, alg := alg, staticPlan := true,
    cl := Cluster.init [0], buf := Buffer.init 100 10 100 10, obs := [boundP_cxObs] }

def boundP_cxEnv : SimEnv := { staticPlans := [(0, [(0, 0, 0, 40)])] }

theorem boundP_cx_wf (alg : AlgKind) : Sys.WFConfig (boundP_cxW alg) := by
  refine ⟨?_, rfl, ?_, ?_, ⟨rfl, rfl, rfl, rfl, rfl, rfl, rfl, rfl, rfl, rfl, rfl, rfl, rfl,
    rfl, rfl, rfl, rfl⟩⟩
  · show ([0] : List Mid).Nodup
    decide
  · show ([0] : List Oid).Nodup
    decide
  intro o ho
  simp only [boundP_cxW, List.mem_cons, List.not_mem_nil, or_false] at ho
  subst ho
  exact ⟨rfl, rfl, by decide, by decide⟩

theorem boundP_cx_feasible_dynamic : Sys.Feasible (boundP_cxW .dynamic) := by
  simp [Sys.Feasible, boundP_cxW, boundP_cxObs, Buffer.init]

theorem boundP_cx_feasible_greedy : Sys.Feasible (boundP_cxW .greedy) := by
  simp [Sys.Feasible, boundP_cxW, boundP_cxObs, Buffer.init]

theorem boundP_cx_h1 (alg : AlgKind) : Sys.NoTierCfg (boundP_cxW alg) := by
  unfold Sys.NoTierCfg
  show 5 * ((([boundP_cxObs] : List Obs).map (fun o => o.rate * (o.duration : Int))).sum) ≤
    3 * (Buffer.init 100 10 100 10).hot.total
  decide

theorem boundP_cx_topo (alg : AlgKind) : ∀ o ∈ (boundP_cxW alg).obs, IsTopo o.wf := by
  intro o ho
  simp only [boundP_cxW, List.mem_cons, List.not_mem_nil, or_false] at ho
  subst ho
  exact ⟨by decide, by intro n; simp [boundP_cxObs], by decide⟩

theorem boundP_cx_planOk (alg : AlgKind) : PlanOk boundP_cxEnv (boundP_cxW alg) := by
  constructor
  · intro o ho n hn
    simp only [boundP_cxW, List.mem_cons, List.not_mem_nil, or_false] at ho
    subst ho
    revert n hn
    decide
  · intro o ho x hx
    simp only [boundP_cxW, List.mem_cons, List.not_mem_nil, or_false] at ho
    subst ho
    revert x hx
    decide
  · intro o ho x hx
    simp only [boundP_cxW, List.mem_cons, List.not_mem_nil, or_false] at ho
    subst ho
    have : ∀ x ∈ boundP_cxEnv.rowsOf boundP_cxObs.id, ∃ mm ∈ ([⟨0, 1, 1⟩] : List Machine), mm.id = x.2.1 := by
      decide
    exact this x hx

theorem boundP_cx_nc_dynamic : NcPCfg boundP_cxEnv (boundP_cxW .dynamic) :=
  ⟨boundP_cx_wf _, boundP_cx_feasible_dynamic, ⟨rfl, rfl, rfl, rfl⟩, ⟨rfl, rfl, rfl⟩, rfl, boundP_cx_h1 _,
    Or.inl rfl, rfl, boundP_cx_topo _, boundP_cx_planOk _, rfl⟩

theorem boundP_cx_nc_greedy : NcPCfg boundP_cxEnv (boundP_cxW .greedy) :=
  ⟨boundP_cx_wf _, boundP_cx_feasible_greedy, ⟨rfl, rfl, rfl, rfl⟩, ⟨rfl, rfl, rfl⟩, rfl, boundP_cx_h1 _,
    Or.inr rfl, rfl, boundP_cx_topo _, boundP_cx_planOk _, rfl⟩

/-- the numbers: the serial bound of the configuration is 10, the corrected one 49, the sharper
corrected one 45 -/
theorem boundP_cx_numbers :
    (Sys.serialBound (boundP_cxW .dynamic) = 10 ∧ boundP_serial boundP_cxEnv (boundP_cxW .dynamic) = 49 ∧
      boundLatest (boundP_cxW .dynamic) + boundP_VTotal boundP_cxEnv (boundP_cxW .dynamic) = 45) ∧
    (Sys.serialBound (boundP_cxW .greedy) = 10 ∧ boundP_serial boundP_cxEnv (boundP_cxW .greedy) = 49 ∧
      boundLatest (boundP_cxW .greedy) + boundP_VTotal boundP_cxEnv (boundP_cxW .greedy) = 45) := by
  decide

/-! ### the first index at which a run is at `is_finished()`, by evaluation -/

/-- run the kernel step by step from state `k` (index `i`, clock `c`) until `is_finished()`: the
index and the clock (time of the last event popped) of the first such state -/
def boundP_firstFin (env : SimEnv) : Nat → SimState → Nat → Time → Option (Nat × Time)
  | 0, _, _, _ => none
  | f + 1, k, i, c =>
    if k.st.isFinished then some (i, c)
    else boundP_firstFin env f (match k.step (simHandler env) with | some k1 => k1 | none => k) (i + 1)
      (match k.peek with | some e => e.time | none => 0)

theorem boundP_firstFin_spec (env : SimEnv) (s0 : Sys) (f : Nat) : ∀ (i : Nat) (n : Nat) (cn : Time),
    boundP_firstFin env f (simAt env s0 i) i (boundClock env s0 i) = some (n, cn) →
    i ≤ n ∧ (simAt env s0 n).st.isFinished = true ∧ cn = boundClock env s0 n ∧
      ∀ j, i ≤ j → j < n → (simAt env s0 j).st.isFinished = false := by
  induction f with
  | zero => intro i n cn h; simp [boundP_firstFin] at h
  | succ f ih =>
    intro i n cn h
    unfold boundP_firstFin at h
    by_cases hfin : (simAt env s0 i).st.isFinished = true
    · rw [if_pos hfin] at h
      injection h with h
      injection h with h1 h2
      subst h1 h2
      exact ⟨Nat.le_refl _, hfin, rfl, fun j h1 h2 => by omega⟩
    · rw [if_neg hfin] at h
      have h' : boundP_firstFin env f (simAt env s0 (i + 1)) (i + 1) (boundClock env s0 (i + 1)) = some (n, cn) := h
      obtain ⟨g1, g2, g3, g4⟩ := ih (i + 1) n cn h'
      refine ⟨by omega, g2, g3, fun j h1 h2 => ?_⟩
      by_cases e : j = i
      · subst e
        cases hh : (simAt env s0 j).st.isFinished with
        | false => rfl
        | true => exact absurd hh hfin
      · exact g4 j (by omega) h2

set_option maxRecDepth 100000 in
unseal Rat.add in
/-- DynamicSchedulingFromPlan on the counterexample: first at `is_finished()` at index 273, clock 43 -/
theorem boundP_cx_first_dynamic :
    boundP_firstFin boundP_cxEnv 300 (SimState.start (boundP_cxW .dynamic)) 0 0 = some (273, 43) := by
  decide +kernel

set_option maxRecDepth 100000 in
unseal Rat.add in
/-- GreedySchedulingFromPlan on the counterexample: the same -/
theorem boundP_cx_first_greedy :
    boundP_firstFin boundP_cxEnv 300 (SimState.start (boundP_cxW .greedy)) 0 0 = some (273, 43) := by
  decide +kernel

/-! ### the clock never decreases -/

section
variable {env : SimEnv} {s0 : Sys}

theorem boundP_clock_mono (C : LivePCfg env s0) (K : LiveKernel env s0) {n m : Nat} (h : n ≤ m) (hn : 1 ≤ n) :
    boundClock env s0 n ≤ boundClock env s0 m := by
  induction m with
  | zero => omega
  | succ m ih =>
    by_cases e : n = m + 1
    · subst e; exact Rat.le_refl
    · have h1 := ih (by omega)
      cases m with
      | zero => omega
      | succ m =>
        show _ ≤ boundTau env s0 (m + 1)
        have h2 : boundClock env s0 (m + 1) = boundTau env s0 m := rfl
        rw [h2] at h1
        exact Rat.le_trans h1 (boundP_wk_mono C K m)

/-- from the first `is_finished()` index and its clock: every index at which the run is at
`is_finished()` has its clock at least there -/
theorem boundP_clock_ge_first (N : NcPCfg env s0) {f n0 : Nat} {c0 : Time}
    (h : boundP_firstFin env f (SimState.start s0) 0 0 = some (n0, c0)) (h0 : 1 ≤ n0) :
    ∀ n, (simAt env s0 n).st.isFinished = true → c0 ≤ boundClock env s0 n := by
  have C : LivePCfg env s0 := N.toLive (live_noRaise_P N)
  have K := liveKernel_P C N.hh0
  obtain ⟨_, g2, g3, g4⟩ := boundP_firstFin_spec env s0 f 0 n0 c0 h
  intro n hn
  have hle : n0 ≤ n := by
    apply Classical.byContradiction
    intro hlt
    have := g4 n (Nat.zero_le _) (by omega)
    rw [hn] at this
    cases this
  rw [g3]
  exact boundP_clock_mono C K hle h0

end

/-- **The counterexample, dynamic**: at every index at which the run is at `is_finished()` the clock
is at least 43, while the serial bound is 10. -/
theorem boundP_cx_exceeds_dynamic : ∀ n, (simAt boundP_cxEnv (boundP_cxW .dynamic) n).st.isFinished = true →
    (43 : Time) ≤ boundClock boundP_cxEnv (boundP_cxW .dynamic) n :=
  boundP_clock_ge_first boundP_cx_nc_dynamic boundP_cx_first_dynamic (by decide)

/-- **The counterexample, greedy.** -/
theorem boundP_cx_exceeds_greedy : ∀ n, (simAt boundP_cxEnv (boundP_cxW .greedy) n).st.isFinished = true →
    (43 : Time) ≤ boundClock boundP_cxEnv (boundP_cxW .greedy) n :=
  boundP_clock_ge_first boundP_cx_nc_greedy boundP_cx_first_greedy (by decide)

end Topsim
