/-
  IngestLimit21 — the ingest timing invariant across the telescope's block and
  across one `resume` of any process.
-/
import TopsimProofs.IngestLimit20

namespace Topsim
namespace Sys

open Cluster

theorem il_natNow_le {w : Time} (h : 0 ≤ w) : ((natNow w : Nat) : Time) ≤ w := natNow_le w h

theorem ilti_step_telescope {s : Sys} (hs : SInv s) (h : ILTI s) (hil : ILInv s) {pid : Nat} {p : Proc}
    (hp : s.proc? pid = some p) (ha : p.alive = true)
    (hmin : ∀ q ∈ s.procs, q.alive = true → p.wake ≤ q.wake) (orc : Oracle) (hk : p.k = .telescope) :
    ILTI (s.resume pid orc).1 := by
  obtain ⟨hpm, hpid⟩ := proc?_some hp
  subst hpid
  have hpw := hs.pw
  have hilc : ILC s.procs s.ilDemand s.cl.ilEntries s.provIngest s.maxIngest s.admitted := hil
  have hb : s.block p orc = ((s.telescopeBlock p.wake).1, .telescope, (s.telescopeBlock p.wake).2) := by
    unfold block; simp only [hk]
  obtain ⟨f1, f2, f3⟩ := il_resume_fields s p.pid orc p hp ha
  have hrel := il_telescope_rel hs hpm ha hmin hk
  generalize hn : natNow p.wake = n at hrel
  have hnle : ((n : Nat) : Time) ≤ p.wake := by rw [← hn]; exact il_natNow_le (hs.eg.telWake p hpm hk)
  rw [hb] at f1 f2 f3
  simp only at f1 f2 f3
  obtain ⟨new, hnew, hnewf⟩ := hrel.procs
  obtain ⟨m1, m2, m3, m4⟩ := il_resume_procs_new hpw hp ha orc (new := new) (by rw [hb]; exact hnew)
    (fun q hq => (hnewf q hq).2.2.2.1)
  have hbk : (s.block p orc).2.1 = .telescope := by rw [hb]
  have hp'k : (fin (s.block p orc).2.1 (s.block p orc).2.2 p.wake p).k = .telescope := by rw [fin_k, hbk]
  have ho : ∀ o, (s.resume p.pid orc).1.obs? o = (s.telescopeBlock p.wake).1.obs? o := il_obs?_congr' f1
  -- every other process has the telescope's wake time at least
  have hnq : ∀ q ∈ s.procs, q.alive = true → ((n : Nat) : Time) ≤ q.wake := by
    intro q hq hqa
    have := hmin q hq hqa
    grind
  -- old processes of the kinds concerned, other than the telescope, stay
  have hne_of : ∀ q ∈ s.procs, q.k ≠ p.k → q.pid ≠ p.pid := by
    intro q hq hne e
    have : q = p := hpw.eq_of_pid hq hpm e
    exact hne (by rw [this])
  have hold : ∀ q ∈ s.procs, (q.k.ilAtIng = true ∨ q.k.isDoWork = true) → q ∈ (s.resume p.pid orc).1.procs := by
    intro q hq hrel'
    apply m3 q hq (hne_of q hq ?_)
    intro e; rw [e, hk] at hrel'; simp [PK.ilAtIng, PK.isDoWork] at hrel'
  have hnewAT : ∀ q' ∈ (s.resume p.pid orc).1.procs, ∀ t m preds obs ret,
      q'.k = .allocTask t m preds obs true ret → q' ∈ s.procs := by
    intro q' hq' t m preds obs ret hqk
    rcases m1 q' hq' with rfl | ⟨hh, _⟩ | hh
    · rw [hp'k] at hqk; exact absurd hqk (by simp)
    · exact hh
    · obtain ⟨_, _, _, _, oid, ob, hqk', _⟩ := hnewf q' hh
      rw [hqk'] at hqk; exact absurd hqk (by simp)
  have hok : IlObsKeep s (s.resume p.pid orc).1 := by
    constructor
    · intro ob' hob'
      rw [f1] at hob'
      exact hrel.durs ob' hob'
    · intro o ob hob
      obtain ⟨ob', g1, g2, g3, _⟩ := hrel.obs o ob hob
      exact ⟨ob', by rw [ho]; exact g1, g3, g2⟩
  obtain ⟨t1, t2, t3, t4, t5, t6, t7⟩ := h.tail hs hil hok (by rw [f2, hrel.cl]) (by rw [f2, hrel.cl])
    (by rw [f3, hrel.tasks]; exact IlTaskK.refl _) hold hnewAT
  -- supervisors after the block: an old one, or one created in this block
  have hAIcases : ∀ q' ∈ (s.resume p.pid orc).1.procs, ∀ o' tl, q'.k = .allocIngest o' tl →
      (q' ∈ s.procs ∧ q'.pid ≠ p.pid) ∨ q' ∈ new := by
    intro q' hq' o' tl hqk
    rcases m1 q' hq' with rfl | hh | hh
    · rw [hp'k] at hqk; exact absurd hqk (by simp)
    · exact Or.inl hh
    · exact Or.inr hh
  refine ⟨t1, t2, ?_, ?_, ?_, ?_, t3, t4, t7, t5, t6, ?_⟩
  · -- supervisors before their first block
    intro q hq o' tl hqk hqc
    rcases hAIcases q hq o' tl hqk with ⟨hqo, _⟩ | hqn
    · obtain ⟨n0, ob, h1, h2, h3, h4⟩ := h.aiNew q hqo o' tl hqk hqc
      obtain ⟨ob', g1, g2, g3, g4⟩ := hrel.obs o' ob h2
      have hadm := hilc.aiAdm q hqo o' (by rw [hqk]; rfl)
      refine ⟨n0, ob', h1, by rw [ho]; exact g1, by rw [g3 hadm]; exact h3, ?_⟩
      intro hqa
      rcases g4 with g4 | ⟨_, a, ha', hle⟩
      · rw [g4]; exact h4 hqa
      · -- it cannot be FINISHED already: the supervisor is due now at the earliest
        exfalso
        rw [g3 hadm, h3] at ha'
        cases ha'
        have hD := h.durPos ob (il_obs?_mem h2).1
        have := hnq q hqo hqa
        rw [h1] at this
        have := Rat.natCast_le_natCast.mp this
        omega
    · obtain ⟨_, _, hw, _, oid, ob, hqk', hob, hast, hst, _, _⟩ := hnewf q hqn
      rw [hqk'] at hqk
      injection hqk with e1 _
      subst e1
      exact ⟨n, ob, hw, by rw [ho]; exact hob, hast, fun _ => hst⟩
  · intro q hq hqa hqc o' tl hqk
    rcases hAIcases q hq o' tl hqk with ⟨hqo, _⟩ | hqn
    · obtain ⟨ob, a, j, h1, h2, r⟩ := h.aiRun q hqo hqa hqc o' tl hqk
      obtain ⟨ob', g1, g2, g3, _⟩ := hrel.obs o' ob h1
      have hadm := hilc.aiAdm q hqo o' (by rw [hqk]; rfl)
      exact ⟨ob', a, j, by rw [ho]; exact g1, by rw [g3 hadm]; exact h2, by rw [g2]; exact r⟩
    · have := (hnewf q hqn).2.1
      omega
  · -- FINISHED marks
    intro q hq hqa o' tl hqk ob' a' hob' hfin hast'
    rw [ho] at hob'
    rcases hAIcases q hq o' tl hqk with ⟨hqo, _⟩ | hqn
    · have hadm := hilc.aiAdm q hqo o' (by rw [hqk]; rfl)
      have hobx : ∃ ob, s.obs? o' = some ob := by
        by_cases hpc : q.pc = 0
        · obtain ⟨_, ob, _, h2, _⟩ := h.aiNew q hqo o' tl hqk hpc; exact ⟨ob, h2⟩
        · obtain ⟨ob, _, _, h2, _⟩ := h.aiRun q hqo hqa (by omega) o' tl hqk; exact ⟨ob, h2⟩
      obtain ⟨ob, hob⟩ := hobx
      obtain ⟨ob'', g1, g2, g3, g4⟩ := hrel.obs o' ob hob
      rw [hob'] at g1; cases g1
      rcases g4 with g4 | ⟨_, a, ha', hle⟩
      · rw [g2]
        exact h.aiFin q hqo hqa o' tl hqk ob a' hob (by rw [← g4]; exact hfin) (by rw [← g3 hadm]; exact hast')
      · rw [hast'] at ha'; cases ha'
        have h1 : ((a' + ob'.duration : Nat) : Time) ≤ ((n : Nat) : Time) := Rat.natCast_le_natCast.mpr hle
        have h2 := hnq q hqo hqa
        grind
    · obtain ⟨_, _, _, _, oid, ob, hqk', hob, _, hst, _, _⟩ := hnewf q hqn
      rw [hqk'] at hqk
      injection hqk with e1 _
      subst e1
      rw [hob] at hob'; cases hob'
      rw [hst] at hfin; exact absurd hfin (by simp)
  · intro q hq hqa hqc o' d' hqk
    rcases m1 q hq with rfl | ⟨hh, _⟩ | hh
    · rw [hp'k] at hqk; exact absurd hqk (by simp)
    · obtain ⟨ob, a, h1, h2, h3⟩ := h.piW q hh hqa hqc o' d' hqk
      obtain ⟨ob', g1, _, g3, _⟩ := hrel.obs o' ob h1
      obtain ⟨_, w, hw, _, _, hwk, _⟩ := hilc.piLive q hh hqa hqc o' d' hqk
      exact ⟨ob', a, by rw [ho]; exact g1, by rw [g3 (hilc.aiAdm w hw o' hwk)]; exact h2, h3⟩
    · obtain ⟨_, _, _, _, oid, ob, hqk', _⟩ := hnewf q hh
      rw [hqk'] at hqk; exact absurd hqk (by simp)
  · -- nothing is stale when the telescope runs, and its block ends no supervisor
    intro e he o' heo hno
    exfalso
    have he' : e ∈ s.cl.ilEntries := by rw [f2, hrel.cl] at he; exact he
    have hno' : o' ∉ ilLiveAI s.procs := by
      intro hin
      obtain ⟨q, hq, hqa, hqk⟩ := mem_ilLiveAI.mp hin
      apply hno
      refine mem_ilLiveAI.mpr ⟨q, m3 q hq (hne_of q hq ?_), hqa, hqk⟩
      intro e'; rw [e', hk] at hqk; simp [PK.aiObs] at hqk
    obtain ⟨q, hq, hqa, _, _, hlt⟩ := h.stale e he' o' heo hno'
    have h1 := hlt p hpm hk ha
    have h2 := hmin q hq hqa
    exact absurd h1 (Rat.not_lt.mpr h2)

/-! ### one `resume` -/

theorem il_rel_of_neutral {k : PK} (h : k.neutral) : k.ilRel = false ∧ k.isDoWork = false := by
  obtain ⟨h1, h2, h3, h4, h5⟩ := h
  cases k <;> simp_all [PK.isAT, PK.isDW, PK.isPI, PK.isAI, PK.isTel, PK.ilRel, PK.isDoWork]

/-- The ingest timing invariant is kept by every block of an enabled process, provided no delay
is imposed on task bodies from outside (`orc.total = none`: the simulator's oracle) and the
supervisors' blocks come after the telescope's block of the same instant. -/
theorem ilti_step {s : Sys} (hs : SInv s) (h : ILTI s) (hil : ILInv s) {pid : Nat} (hen : s.enabled pid)
    (orc : Oracle) (hpre : s.alg = .oracle → orc.preOk) (htot : orc.total = none)
    (hpol : ∀ p, s.proc? pid = some p → p.k.aiObs ≠ none →
      ∀ t ∈ s.procs, t.k = .telescope → t.alive = true → p.wake + 1 ≤ t.wake) :
    ILTI (s.resume pid orc).1 := by
  obtain ⟨p, hp, ha, hmin⟩ := hen
  cases hk : p.k with
  | monitor =>
    have hb : s.block p orc = ((s.monitorBlock p.wake).1, p.k, (s.monitorBlock p.wake).2) := by
      unfold block; simp only [hk]
    exact ilti_step_neutral hs h hp ha orc (by rw [hb]; exact monitorBlock_iltq _ _)
      (by rw [hk]; exact ⟨rfl, rfl⟩) (by rw [hb, hk]; rfl)
  | telescope => exact ilti_step_telescope hs h hil hp ha hmin orc hk
  | clusterLoop =>
    have hb : s.block p orc = ({ s with cl := s.cl.loopTick }, p.k, .timeout 1) := by
      unfold block; simp only [hk]
    exact ilti_step_neutral hs h hp ha orc (by rw [hb]; exact clusterLoop_iltq _)
      (by rw [hk]; exact ⟨rfl, rfl⟩) (by rw [hb, hk]; rfl)
  | schedLoop =>
    have hb : s.block p orc = ((s.schedLoopBlock p.wake orc).1, p.k, (s.schedLoopBlock p.wake orc).2) := by
      unfold block; simp only [hk]
    exact ilti_step_neutral hs h hp ha orc (by rw [hb]; exact schedLoopBlock_iltq _ _ _)
      (by rw [hk]; exact ⟨rfl, rfl⟩) (by rw [hb, hk]; rfl)
  | bufferLoop =>
    have hb : s.block p orc = ((s.bufferLoopBlock p.wake).1, p.k, (s.bufferLoopBlock p.wake).2) := by
      unfold block; simp only [hk]
    exact ilti_step_neutral hs h hp ha orc (by rw [hb]; exact bufferLoopBlock_iltq _ _)
      (by rw [hk]; exact ⟨rfl, rfl⟩) (by rw [hb, hk]; rfl)
  | allocIngest o tl =>
    exact ilti_step_allocIngest hs h hil hp ha hmin orc hk
      (hpol p hp (by rw [hk]; simp [PK.aiObs]))
  | provIngest o d => exact ilti_step_provIngest hs h hil hp ha orc hk
  | ingestStream o tl =>
    have hb : s.block p orc = s.ingestStreamBlock p.wake p.pc o tl := by
      unfold block; simp only [hk]
    exact ilti_step_neutral hs h hp ha orc (by rw [hb]; exact ingestStreamBlock_iltq _ _ _ _ _)
      (by rw [hk]; exact ⟨rfl, rfl⟩)
      (by rw [hb]; exact (il_rel_of_neutral (ingestStreamBlock_kind _ _ _ _ _)).1)
  | allocTask t m preds obs ing ret =>
    cases ing with
    | false => exact ilti_step_allocTask_other hs h hp ha orc hk
    | true => exact ilti_step_allocTask_ing hs h hp ha hmin orc hk
  | doWork t m preds ph tot => exact ilti_step_doWork hs h hp ha orc htot hk
  | allocTasks o sc pa po fin =>
    have hb : s.block p orc = s.allocTasksBlock p.wake orc p.pc o sc pa po fin := by
      unfold block; simp only [hk]
    exact ilti_step_neutral hs h hp ha orc (by rw [hb]; exact allocTasksBlock_iltq _ _ _ hpre _ _ _ _ _ _)
      (by rw [hk]; exact ⟨rfl, rfl⟩)
      (by rw [hb]; exact (il_rel_of_neutral (allocTasksBlock_kind _ _ _ _ _ _ _ _ _)).1)
  | hot2cold cur =>
    have hb : s.block p orc = s.hot2coldBlock p.wake cur := by
      unfold block; simp only [hk]
    exact ilti_step_neutral hs h hp ha orc (by rw [hb]; exact hot2coldBlock_iltq _ _ _)
      (by rw [hk]; exact ⟨rfl, rfl⟩) (by rw [hb]; exact (il_rel_of_neutral (hot2coldBlock_kind _ _ _)).1)
  | cold2hot cur =>
    have hb : s.block p orc = s.cold2hotBlock p.wake cur := by
      unfold block; simp only [hk]
    exact ilti_step_neutral hs h hp ha orc (by rw [hb]; exact cold2hotBlock_iltq _ _ _)
      (by rw [hk]; exact ⟨rfl, rfl⟩) (by rw [hb]; exact (il_rel_of_neutral (cold2hotBlock_kind _ _ _)).1)

/-! ### the started simulation -/

theorem ilti_start (s0 : Sys) (hw : WFConfig s0) : ILTI s0.start := by
  obtain ⟨hprocs, hnp, htasks, _⟩ := hw.fresh
  have hp : s0.start.procs =
      [{ pid := 0, k := .monitor, wake := 0 }, { pid := 1, k := .telescope, wake := 0 },
       { pid := 2, k := .clusterLoop, wake := 0 }, { pid := 3, k := .schedLoop, wake := 0 },
       { pid := 4, k := .bufferLoop, wake := 0 }] := by
    simp [start, spawn, hprocs, hnp]
  have hcl : s0.start.cl = s0.cl := by simp [start, spawn]
  have ht : s0.start.tasks = [] := by simp [start, spawn, htasks]
  have ho : s0.start.obs = s0.obs := by simp [start, spawn]
  have hpend : s0.start.cl.pending = [] := by rw [hcl, hw.clInit]; rfl
  have hrun : s0.start.cl.runOn = [] := by rw [hcl, hw.clInit]; rfl
  have hent : s0.start.cl.ilEntries = [] := by unfold Cluster.ilEntries; rw [hpend, hrun]; rfl
  have hno : ∀ q ∈ s0.start.procs, q.k.ilRel = true → q.k = .telescope := by
    intro q hq hr
    rw [hp] at hq
    simp only [List.mem_cons, List.not_mem_nil, or_false] at hq
    rcases hq with rfl | rfl | rfl | rfl | rfl <;> simp [PK.ilRel] at hr ⊢
  constructor
  · intro ob hob; rw [ho] at hob; exact (hw.obsWaiting ob hob).2.2.2
  · intro r hr; rw [ht] at hr; cases hr
  · intro p hp' o tl hk; have := hno p hp' (by rw [hk]; rfl); rw [hk] at this; cases this
  · intro p hp' _ _ o tl hk; have := hno p hp' (by rw [hk]; rfl); rw [hk] at this; cases this
  · intro p hp' _ o tl hk; have := hno p hp' (by rw [hk]; rfl); rw [hk] at this; cases this
  · intro p hp' _ _ o d hk; have := hno p hp' (by rw [hk]; rfl); rw [hk] at this; cases this
  · intro p hp' _ _ t m preds o ret hk; have := hno p hp' (by rw [hk]; rfl); rw [hk] at this; cases this
  · intro p hp' _ _ t m preds o ret hk; have := hno p hp' (by rw [hk]; rfl); rw [hk] at this; cases this
  · intro r hr; rw [ht] at hr; cases hr
  · intro e he; rw [hpend] at he; cases he
  · intro e he; rw [hrun] at he; cases he
  · intro e he; rw [hent] at he; cases he

end Sys
end Topsim
