/-
  LifeCycle4 — `blockEvents`, process kind by process kind; the fields only the
  telescope's block writes (`admitted`, `telUse`, `telStatus`).
-/
import TopsimProofs.LifeCycle3

namespace Topsim
namespace Sys

/-! ### the block of each kind -/

theorem block_monitor {s : Sys} {p : Proc} (orc : Oracle) (hk : p.k = .monitor) :
    s.block p orc = ((s.monitorBlock p.wake).1, .monitor, (s.monitorBlock p.wake).2) := by
  unfold block; simp only [hk]
theorem block_telescope {s : Sys} {p : Proc} (orc : Oracle) (hk : p.k = .telescope) :
    s.block p orc = ((s.telescopeBlock p.wake).1, .telescope, (s.telescopeBlock p.wake).2) := by
  unfold block; simp only [hk]
theorem block_clusterLoop {s : Sys} {p : Proc} (orc : Oracle) (hk : p.k = .clusterLoop) :
    s.block p orc = ({ s with cl := s.cl.loopTick }, .clusterLoop, .timeout 1) := by
  unfold block; simp only [hk]
theorem block_schedLoop {s : Sys} {p : Proc} (orc : Oracle) (hk : p.k = .schedLoop) :
    s.block p orc = ((s.schedLoopBlock p.wake orc).1, .schedLoop, (s.schedLoopBlock p.wake orc).2) := by
  unfold block; simp only [hk]
theorem block_bufferLoop {s : Sys} {p : Proc} (orc : Oracle) (hk : p.k = .bufferLoop) :
    s.block p orc = ((s.bufferLoopBlock p.wake).1, .bufferLoop, (s.bufferLoopBlock p.wake).2) := by
  unfold block; simp only [hk]
theorem block_allocIngest {s : Sys} {p : Proc} (orc : Oracle) {o tl} (hk : p.k = .allocIngest o tl) :
    s.block p orc = s.allocIngestBlock p.wake p.pc o tl := by
  unfold block; simp only [hk]
theorem block_provIngest {s : Sys} {p : Proc} (orc : Oracle) {o d} (hk : p.k = .provIngest o d) :
    s.block p orc = s.provIngestBlock p.wake p.pc o d := by
  unfold block; simp only [hk]
theorem block_ingestStream {s : Sys} {p : Proc} (orc : Oracle) {o tl} (hk : p.k = .ingestStream o tl) :
    s.block p orc = s.ingestStreamBlock p.wake p.pc o tl := by
  unfold block; simp only [hk]
theorem block_allocTask {s : Sys} {p : Proc} (orc : Oracle) {t m preds obs ing ret}
    (hk : p.k = .allocTask t m preds obs ing ret) :
    s.block p orc = s.allocTaskBlock p.wake t m preds obs ing ret := by
  unfold block; simp only [hk]
theorem block_doWork {s : Sys} {p : Proc} (orc : Oracle) {t m preds ph tot}
    (hk : p.k = .doWork t m preds ph tot) :
    s.block p orc = s.doWorkBlock p.wake orc t m preds ph tot := by
  unfold block; simp only [hk]
theorem block_allocTasks {s : Sys} {p : Proc} (orc : Oracle) {o sc pa po fin}
    (hk : p.k = .allocTasks o sc pa po fin) :
    s.block p orc = s.allocTasksBlock p.wake orc p.pc o sc pa po fin := by
  unfold block; simp only [hk]
theorem block_hot2cold {s : Sys} {p : Proc} (orc : Oracle) {cur} (hk : p.k = .hot2cold cur) :
    s.block p orc = s.hot2coldBlock p.wake cur := by
  unfold block; simp only [hk]
theorem block_cold2hot {s : Sys} {p : Proc} (orc : Oracle) {cur} (hk : p.k = .cold2hot cur) :
    s.block p orc = s.cold2hotBlock p.wake cur := by
  unfold block; simp only [hk]

theorem preClear_other {s : Sys} {k : PK} (h1 : k ≠ .telescope) (h2 : k ≠ .schedLoop) : s.preClear k = s := by
  unfold preClear; split <;> simp_all

/-! ### `blockEvents` by kind -/

theorem blockEvents_monitor {s : Sys} {p : Proc} (orc : Oracle) (hk : p.k = .monitor) :
    blockEvents s p orc = [] := by
  unfold blockEvents
  rw [block_monitor orc hk]
  simp [monitorBlock, collate]

/-- kinds whose block leaves the three pending lists alone -/
theorem blockEvents_nil {s : Sys} {p : Proc} (orc : Oracle)
    (h : p.k = .clusterLoop ∨ p.k = .bufferLoop ∨ (∃ o tl, p.k = .allocIngest o tl) ∨
      (∃ o d, p.k = .provIngest o d) ∨ (∃ t m preds obs ing ret, p.k = .allocTask t m preds obs ing ret) ∨
      (∃ t m preds ph tot, p.k = .doWork t m preds ph tot)) :
    blockEvents s p orc = [] := by
  have key : Ev3 (s.preClear p.k) (s.block p orc).1 [] [] [] := by
    rcases h with hk | hk | ⟨o, tl, hk⟩ | ⟨o, d, hk⟩ | ⟨t, m, preds, obs, ing, ret, hk⟩ | ⟨t, m, preds, ph, tot, hk⟩
    · rw [preClear_other (by simp [hk]) (by simp [hk]), block_clusterLoop orc hk]; exact Ev3.of_eq rfl rfl rfl
    · rw [preClear_other (by simp [hk]) (by simp [hk]), block_bufferLoop orc hk]; exact bufferLoopBlock_ev3 _ _
    · rw [preClear_other (by simp [hk]) (by simp [hk]), block_allocIngest orc hk]; exact allocIngestBlock_ev3 _ _ _ _ _
    · rw [preClear_other (by simp [hk]) (by simp [hk]), block_provIngest orc hk]; exact provIngestBlock_ev3 _ _ _ _ _
    · rw [preClear_other (by simp [hk]) (by simp [hk]), block_allocTask orc hk]
      exact allocTaskBlock_ev3 _ _ _ _ _ _ _ _
    · rw [preClear_other (by simp [hk]) (by simp [hk]), block_doWork orc hk]
      exact doWorkBlock_ev3 _ _ _ _ _ _ _ _
  simpa using blockEvents_of_ev3 key

/-- the telescope's block emits the events of its run of visits -/
theorem blockEvents_telescope {s : Sys} {p : Proc} (orc : Oracle) (hk : p.k = .telescope) :
    (blockEvents s p orc = [] ∧ (s.block p orc).1 = { s with telEvents := [] } ∧ (s.block p orc).2.2 = .done ∧
      s.obs.all (fun o => o.status == .finished) = true) ∨
    (∃ s0 e, s0.admitted = s.admitted ∧ s0.obs = s.obs ∧ s0.procs = s.procs ∧ s0.nextPid = s.nextPid ∧
      s0.telUse = s.telUse ∧ s0.telStatus = s.telStatus ∧ s0.totalArrays = s.totalArrays ∧
      TelRun (natNow p.wake) (s.obs.map (·.id)) (s0, none) ((s.block p orc).1, e) (blockEvents s p orc) ∧
      ((s.block p orc).2.2 = .timeout 1 ∧ e = none ∨ ∃ x, (s.block p orc).2.2 = .raised x ∧ e = some x)) := by
  have hpc : s.preClear p.k = { s with telEvents := [] } := by rw [hk]; rfl
  rw [block_telescope orc hk]
  rcases telescopeBlock_run s p.wake with ⟨h, hd, hall⟩ | ⟨s0, e, L, h1, h2, h3, g1, g2, g3, g4, g5, g6, g7, hrun, hy⟩
  · left
    refine ⟨?_, h, hd, hall⟩
    have : Ev3 (s.preClear p.k) (s.block p orc).1 [] [] [] := by
      rw [hpc, block_telescope orc hk, h]; exact Ev3.refl _
    simpa [block_telescope orc hk] using blockEvents_of_ev3 this
  · right
    have hev : Ev3 (s.preClear p.k) (s.block p orc).1 L [] [] := by
      rw [hpc, block_telescope orc hk]
      exact hrun.ev3.congr_left h1.symm h2.symm h3.symm
    have hbe : blockEvents s p orc = L := by simpa using blockEvents_of_ev3 hev
    refine ⟨s0, e, g1, g2, g3, g4, g5, g6, g7, ?_, hy⟩
    have : blockEvents s p orc = blockEvents s p orc := rfl
    rw [hbe]; exact hrun

/-- the scheduler loop's block emits `queueAdded` for the observation it pops from the hot
buffer, if that observation is not queued yet, and nothing otherwise -/
theorem blockEvents_schedLoop {s : Sys} {p : Proc} (orc : Oracle) (hk : p.k = .schedLoop) :
    (blockEvents s p orc = [] ∧ (s.block p orc).1.procs = s.procs ∧ (s.block p orc).1.queue = s.queue) ∨
    (∃ oid ob, blockEvents s p orc = [⟨natNow p.wake, oid, .queueAdded⟩] ∧
      s.buf.nextForProcessing.2 = some oid ∧ s.obs? oid = some ob ∧ oid ∉ s.queue ∧
      (s.block p orc).1.queue = s.queue ++ [oid] ∧
      (s.block p orc).1.procs = s.procs ++
        [{ pid := s.nextPid, k := .allocTasks oid [] [] [] false, wake := p.wake }]) := by
  have hpc : s.preClear p.k = { s with schEvents := [] } := by rw [hk]; rfl
  rcases schedLoopBlock_ev3 s p.wake orc with ⟨h, g1, g2⟩ | ⟨oid, ob, h, g1, g2, g3, g4, g5⟩
  · left
    have hev : Ev3 (s.preClear p.k) (s.block p orc).1 [] [] [] := by
      rw [hpc, block_schedLoop orc hk]; exact h
    refine ⟨by simpa using blockEvents_of_ev3 hev, ?_, ?_⟩
    · rw [block_schedLoop orc hk]; exact g1
    · rw [block_schedLoop orc hk]; exact g2
  · right
    have hev : Ev3 (s.preClear p.k) (s.block p orc).1 [] [⟨natNow p.wake, oid, .queueAdded⟩] [] := by
      rw [hpc, block_schedLoop orc hk]; exact h
    refine ⟨oid, ob, by simpa using blockEvents_of_ev3 hev, g1, g2, g3, ?_, ?_⟩
    · rw [block_schedLoop orc hk]; exact g4
    · rw [block_schedLoop orc hk]; exact g5

/-- an ingest stream emits `bufAdded` in its first block, if its observation has left WAITING -/
theorem blockEvents_ingestStream {s : Sys} {p : Proc} (orc : Oracle) {o : Oid} {tl : Int}
    (hk : p.k = .ingestStream o tl) :
    blockEvents s p orc = [] ∨
    (p.pc = 0 ∧ ∃ ob, s.obs? o = some ob ∧ ob.status ≠ .waiting ∧
      blockEvents s p orc = [⟨natNow p.wake, o, .bufAdded⟩]) := by
  have hpc : s.preClear p.k = s := preClear_other (by simp [hk]) (by simp [hk])
  rcases ingestStreamBlock_ev3 s p.wake p.pc o tl with h | ⟨h0, ob, hob, hw, h⟩
  · left
    have hev : Ev3 (s.preClear p.k) (s.block p orc).1 [] [] [] := by
      rw [hpc, block_ingestStream orc hk]; exact h
    simpa using blockEvents_of_ev3 hev
  · right
    have hev : Ev3 (s.preClear p.k) (s.block p orc).1 [] [] [⟨natNow p.wake, o, .bufAdded⟩] := by
      rw [hpc, block_ingestStream orc hk]; exact h
    exact ⟨h0, ob, hob, hw, by simpa using blockEvents_of_ev3 hev⟩

/-- a tier move emits transfer events only -/
theorem blockEvents_tier {s : Sys} {p : Proc} (orc : Oracle)
    (hk : (∃ cur, p.k = .hot2cold cur) ∨ ∃ cur, p.k = .cold2hot cur) :
    ∀ e ∈ blockEvents s p orc, isTransfer e := by
  rcases hk with ⟨cur, hk⟩ | ⟨cur, hk⟩
  · have hpc : s.preClear p.k = s := preClear_other (by simp [hk]) (by simp [hk])
    obtain ⟨u, hu, pu⟩ := hot2coldBlock_ev3 s p.wake cur
    have hev : Ev3 (s.preClear p.k) (s.block p orc).1 [] [] u := by
      rw [hpc, block_hot2cold orc hk]; exact hu
    have : blockEvents s p orc = u := by simpa using blockEvents_of_ev3 hev
    rw [this]; exact pu
  · have hpc : s.preClear p.k = s := preClear_other (by simp [hk]) (by simp [hk])
    obtain ⟨u, hu, pu⟩ := cold2hotBlock_ev3 s p.wake cur
    have hev : Ev3 (s.preClear p.k) (s.block p orc).1 [] [] u := by
      rw [hpc, block_cold2hot orc hk]; exact hu
    have : blockEvents s p orc = u := by simpa using blockEvents_of_ev3 hev
    rw [this]; exact pu

/-- `allocate_tasks`: `allocStarted` in the first block; `allocStopped` (with `bufRemoved`, and
`queueRemoved` when the removal from the hot buffer and from the queue succeed) in the block in
which the algorithm reports the plan finished -/
theorem blockEvents_allocTasks {s : Sys} {p : Proc} (orc : Oracle) {o : Oid} {sc pa : List (Tid × Mid)}
    {po : List Tid} {fin : Bool} (hk : p.k = .allocTasks o sc pa po fin) :
    (fin = true ∧ blockEvents s p orc = [] ∧ s.block p orc = (s, .allocTasks o sc pa po true, .done)) ∨
    (fin = false ∧ ∃ c u, ATEv (atStart s p.wake p.pc o) (natNow p.wake) o (s.block p orc) c u ∧
      blockEvents s p orc = (if p.pc = 0 then [⟨natNow p.wake, o, .allocStarted⟩] else []) ++ c ++ u) := by
  have hpc : s.preClear p.k = s := preClear_other (by simp [hk]) (by simp [hk])
  cases fin with
  | true =>
    left
    have hb : s.block p orc = (s, .allocTasks o sc pa po true, .done) := by
      rw [block_allocTasks orc hk, allocTasksBlock_fin]
    have hev : Ev3 (s.preClear p.k) (s.block p orc).1 [] [] [] := by rw [hpc, hb]; exact Ev3.refl _
    exact ⟨rfl, by simpa using blockEvents_of_ev3 hev, hb⟩
  | false =>
    right
    have hb : s.block p orc = (atStart s p.wake p.pc o).allocTasksIter p.wake orc o sc pa po := by
      rw [block_allocTasks orc hk, allocTasksBlock_eq]
    obtain ⟨c, u, hat⟩ := allocTasksIter_atev (atStart s p.wake p.pc o) p.wake orc o sc pa po
    rw [← hb] at hat
    refine ⟨rfl, c, u, hat, ?_⟩
    have h0 := atStart_ev3 s p.wake p.pc o
    have h1 : Ev3 (atStart s p.wake p.pc o) (s.block p orc).1 [] c u := by
      generalize s.block p orc = r at hat
      cases hat with
      | quiet X k y sc pa po h _ _ _ => exact h
      | finish X sc pa po h _ _ _ _ => exact h
      | finishBad X sc pa po e h _ _ _ _ => exact h
      | finishWait X sc pa po h _ _ _ => exact h
    have hev : Ev3 (s.preClear p.k) (s.block p orc).1 []
        ((if p.pc = 0 then [⟨natNow p.wake, o, .allocStarted⟩] else []) ++ c) u := by
      rw [hpc]; simpa using h0.trans h1
    simpa using blockEvents_of_ev3 hev

/-! ### fields only the telescope writes -/

structure TelSame (a b : Sys) : Prop where
  admitted : b.admitted = a.admitted
  telUse : b.telUse = a.telUse
  telStatus : b.telStatus = a.telStatus
  totalArrays : b.totalArrays = a.totalArrays

theorem TelSame.refl (a : Sys) : TelSame a a := ⟨rfl, rfl, rfl, rfl⟩
theorem TelSame.trans {a b c : Sys} (h1 : TelSame a b) (h2 : TelSame b c) : TelSame a c :=
  ⟨h2.admitted.trans h1.admitted, h2.telUse.trans h1.telUse, h2.telStatus.trans h1.telStatus,
   h2.totalArrays.trans h1.totalArrays⟩
theorem TelSame.foldl {α} (f : Sys → α → Sys) (hf : ∀ s x, TelSame s (f s x)) (l : List α) (s : Sys) :
    TelSame s (l.foldl f s) := by
  induction l generalizing s with
  | nil => exact TelSame.refl s
  | cons x r ih => exact (hf s x).trans (ih _)

macro "tel_same" : tactic =>
  `(tactic| ((repeat' split) <;> first | exact TelSame.refl _ | exact ⟨rfl, rfl, rfl, rfl⟩))

theorem allocIngestBlock_telSame (s : Sys) (now : Time) (pc : Nat) (oid : Oid) (tl : Int) :
    TelSame s (s.allocIngestBlock now pc oid tl).1 := by
  have hi : ∀ (s : Sys) tl, TelSame s (s.allocIngestIter now oid tl).1 := by
    intro s tl; unfold allocIngestIter; simp only; tel_same
  unfold allocIngestBlock
  split
  · simp only
    exact TelSame.trans (b := s.updObs oid (fun r => { r with ast := some (natNow now) })) ⟨rfl, rfl, rfl, rfl⟩ (hi _ _)
  · exact hi _ _

theorem provIngestBlock_telSame (s : Sys) (now : Time) (pc : Nat) (oid : Oid) (d : Nat) :
    TelSame s (s.provIngestBlock now pc oid d).1 := by
  unfold provIngestBlock
  split
  · simp only
    split
    · exact ⟨rfl, rfl, rfl, rfl⟩
    · refine TelSame.trans ?_ (TelSame.foldl _ ?_ _ _)
      · exact ⟨rfl, rfl, rfl, rfl⟩
      · intro s x; exact ⟨rfl, rfl, rfl, rfl⟩
  · exact TelSame.refl _

theorem ingestStreamBlock_telSame (s : Sys) (now : Time) (pc : Nat) (oid : Oid) (tl : Int) :
    TelSame s (s.ingestStreamBlock now pc oid tl).1 := by
  have hi : ∀ (s : Sys) tl, TelSame s (s.ingestStreamIter now oid tl).1 := by
    intro s tl; unfold ingestStreamIter; tel_same
  unfold ingestStreamBlock
  split
  · split
    · exact TelSame.refl _
    · split
      · exact TelSame.refl _
      · exact TelSame.trans (b := s.addBuf ⟨natNow now, oid, .bufAdded⟩) ⟨rfl, rfl, rfl, rfl⟩ (hi _ _)
  · exact hi _ _

theorem allocTaskBlock_telSame (s : Sys) (now : Time) (t : Tid) (m : Mid) (preds : List Tid)
    (obs : Option Oid) (ing : Bool) (ret : Nat) :
    TelSame s (s.allocTaskBlock now t m preds obs ing ret).1 := by
  unfold allocTaskBlock; simp only; tel_same

theorem doWorkBlock_telSame (s : Sys) (now : Time) (orc : Oracle) (t : Tid) (m : Mid) (preds : List Tid)
    (ph tot : Nat) : TelSame s (s.doWorkBlock now orc t m preds ph tot).1 := by
  unfold doWorkBlock; simp only; tel_same

theorem bufferLoopBlock_telSame (s : Sys) (now : Time) : TelSame s (s.bufferLoopBlock now).1 := by
  unfold bufferLoopBlock; tel_same

theorem schedLoopBlock_telSame (s : Sys) (now : Time) (orc : Oracle) :
    TelSame s (s.schedLoopBlock now orc).1 := by
  unfold schedLoopBlock; simp only; tel_same

theorem hot2coldBlock_telSame (s : Sys) (now : Time) (cur : Option (Oid × Int)) :
    TelSame s (s.hot2coldBlock now cur).1 := by
  have hi : ∀ (s : Sys) o left, TelSame s (s.hot2coldIter now o left).1 := by
    intro s o left; unfold hot2coldIter; tel_same
  unfold hot2coldBlock
  split
  · exact hi _ _ _
  · split
    · exact ⟨rfl, rfl, rfl, rfl⟩
    · exact ⟨rfl, rfl, rfl, rfl⟩
    · exact TelSame.trans (b := ({ s with buf := _ }).addBuf _) ⟨rfl, rfl, rfl, rfl⟩ (hi _ _ _)

theorem cold2hotBlock_telSame (s : Sys) (now : Time) (cur : Option (Oid × Int)) :
    TelSame s (s.cold2hotBlock now cur).1 := by
  have hi : ∀ (s : Sys) o left, TelSame s (s.cold2hotIter now o left).1 := by
    intro s o left; unfold cold2hotIter; tel_same
  unfold cold2hotBlock
  split
  · exact hi _ _ _
  · split
    · exact ⟨rfl, rfl, rfl, rfl⟩
    · exact ⟨rfl, rfl, rfl, rfl⟩
    · exact TelSame.trans (b := ({ s with buf := _ }).addBuf _) ⟨rfl, rfl, rfl, rfl⟩ (hi _ _ _)

theorem updateCurrentPlan_telSame (s : Sys) (oid : Oid) : TelSame s (s.updateCurrentPlan oid) := by
  unfold updateCurrentPlan
  split
  · exact TelSame.refl _
  · simp only
    refine TelSame.trans (TelSame.foldl _ ?_ _ _) ⟨rfl, rfl, rfl, rfl⟩
    intro s a
    tel_same

theorem processCurrentSchedule_telSame (s : Sys) (now : Time) (oid : Oid) (schedule pairs : List (Tid × Mid)) :
    TelSame s (processCurrentSchedule s now oid schedule pairs).s := by
  unfold processCurrentSchedule
  have h1 : ∀ (st : PcsSt) (t : Tid), TelSame st.s (processOne now oid st t).s := by
    intro st t; unfold processOne; simp only; tel_same
  have : ∀ (l : List Tid) (st : PcsSt), TelSame st.s (l.foldl (processOne now oid) st).s := by
    intro l
    induction l with
    | nil => intro st; exact TelSame.refl _
    | cons a r ih => intro st; exact (h1 st a).trans (ih _)
  simp only
  exact this _ { s := s, schedule := schedule, pairs := pairs, curr := [] }

theorem atStart_telSame (s : Sys) (now : Time) (pc : Nat) (oid : Oid) : TelSame s (atStart s now pc oid) := by
  unfold atStart
  split
  · have h2 : ∀ (l : List Tid) (a : Sys), TelSame a (l.foldl (fun (s : Sys) t =>
        s.updTask t (fun r => { r with offset := natNow now })) a) :=
      fun l a => TelSame.foldl (fun (s : Sys) t => s.updTask t (fun r => { r with offset := natNow now }))
        (fun _ _ => ⟨rfl, rfl, rfl, rfl⟩) l a
    have h0 : TelSame s (s.updPlan oid (fun p => { p with ast := some (natNow now) })) := ⟨rfl, rfl, rfl, rfl⟩
    exact (h0.trans (h2 _ _)).trans ⟨rfl, rfl, rfl, rfl⟩
  · exact TelSame.refl _

theorem atS3_telSame (s1 : Sys) (out : AlgOut) (oid : Oid) : TelSame s1 (atS3 s1 out oid) := by
  unfold atS3; split <;> exact ⟨rfl, rfl, rfl, rfl⟩

theorem allocTasksIter_telSame (s : Sys) (now : Time) (orc : Oracle) (oid : Oid)
    (schedule pairs : List (Tid × Mid)) (pool : List Tid) :
    TelSame s (s.allocTasksIter now orc oid schedule pairs pool).1 := by
  have h1 := updateCurrentPlan_telSame s oid
  have hout := allocTasksIter_out s now orc oid schedule pairs pool
  generalize s.allocTasksIter now orc oid schedule pairs pool = r at hout ⊢
  cases hout with
  | noPlan _ => exact h1
  | algErr _ _ _ _ => exact h1
  | finish plan out _ _ _ _ _ _ => exact (h1.trans (atS3_telSame _ out oid)).trans ⟨rfl, rfl, rfl, rfl⟩
  | finishBad plan out _ _ _ _ _ _ => exact (h1.trans (atS3_telSame _ out oid)).trans ⟨rfl, rfl, rfl, rfl⟩
  | finishWait plan out _ _ _ _ _ => exact (h1.trans (atS3_telSame _ out oid)).trans ⟨rfl, rfl, rfl, rfl⟩
  | idle plan out _ _ _ _ => exact h1.trans (atS3_telSame _ out oid)
  | alloc plan out y _ _ _ _ =>
    exact (h1.trans (atS3_telSame _ out oid)).trans (processCurrentSchedule_telSame _ _ _ _ _)

theorem allocTasksBlock_telSame (s : Sys) (now : Time) (orc : Oracle) (pc : Nat) (oid : Oid)
    (schedule pairs : List (Tid × Mid)) (pool : List Tid) (fin : Bool) :
    TelSame s (s.allocTasksBlock now orc pc oid schedule pairs pool fin).1 := by
  cases fin with
  | true => rw [allocTasksBlock_fin]; exact TelSame.refl _
  | false => rw [allocTasksBlock_eq]; exact (atStart_telSame s now pc oid).trans (allocTasksIter_telSame _ _ _ _ _ _ _)

/-- every block but the telescope's leaves `admitted`, `telUse`, `telStatus` alone -/
theorem block_telSame (s : Sys) (p : Proc) (orc : Oracle) (hk : p.k ≠ .telescope) :
    TelSame s (s.block p orc).1 := by
  unfold block
  split
  · exact ⟨rfl, rfl, rfl, rfl⟩
  · rename_i h; exact absurd h hk
  · exact ⟨rfl, rfl, rfl, rfl⟩
  · exact schedLoopBlock_telSame _ _ _
  · exact bufferLoopBlock_telSame _ _
  · exact allocIngestBlock_telSame _ _ _ _ _
  · exact provIngestBlock_telSame _ _ _ _ _
  · exact ingestStreamBlock_telSame _ _ _ _ _
  · exact allocTaskBlock_telSame _ _ _ _ _ _ _ _
  · exact doWorkBlock_telSame _ _ _ _ _ _ _ _
  · exact allocTasksBlock_telSame _ _ _ _ _ _ _ _ _
  · exact hot2coldBlock_telSame _ _ _
  · exact cold2hotBlock_telSame _ _ _

theorem resume_telSame (s : Sys) (pid : Nat) (orc : Oracle) (p : Proc) (hp : s.proc? pid = some p)
    (ha : p.alive = true) : TelSame (s.block p orc).1 (s.resume pid orc).1 := by
  unfold resume
  simp only [hp, ha, Bool.not_true, Bool.false_eq_true, if_false]
  generalize s.block p orc = r
  obtain ⟨s1, k, y⟩ := r
  cases y with
  | timeout d => exact ⟨rfl, rfl, rfl, rfl⟩
  | done => exact ⟨rfl, rfl, rfl, rfl⟩
  | raised e =>
    simp only
    rcases crash_eq (s1.updProc pid (fun q => { q with k := k, pc := q.pc + 1, alive := false })) e with h | h <;>
      rw [h] <;> exact ⟨rfl, rfl, rfl, rfl⟩

end Sys
end Topsim
