/-
  IngestLimit4 — the ledger invariant on the state left by a block: reading the
  ledger off a state, splitting the process table at the process that ran, and
  the blocks of the processes the ledger does not talk about.
-/
import TopsimProofs.BlockLemmas
import TopsimProofs.IngestLimit3

namespace Topsim
namespace Sys

open Cluster

/-! ### reading the ledger off a state -/

/-- a state whose ledger projection is (at most) the given one -/
theorem ILInv.of_ilc {s' : Sys} {ps : List Proc} {dem : Oid → Nat} {E : List RunEntry} {P : Int} {M : Nat}
    {adm : List Oid} (h : ILC ps dem E P M adm) (h1 : s'.procs = ps) (h2 : ∀ o, s'.ilDemand o = dem o)
    (h3 : ∀ Q : RunEntry → Bool, s'.cl.ilEntries.countP Q ≤ E.countP Q) (h4 : s'.provIngest = P)
    (h5 : s'.maxIngest = M) (h6 : s'.admitted = adm) :
    ILInv s' ∧ s'.ilLoadS ≤ E.length + ilPromised ps dem := by
  have hd : s'.ilDemand = dem := funext h2
  unfold ILInv ilLoadS ingestPromised
  rw [h1, hd, h4, h5, h6]
  refine ⟨h.shrink h3, ?_⟩
  have := h3 (fun _ => true)
  simp only [List.countP_true] at this
  omega

theorem ilDemand_updObs (s : Sys) (oid : Oid) (f : Obs → Obs) (hid : ∀ r, (f r).id = r.id)
    (hd : ∀ r, (f r).ingestDemand = r.ingestDemand) (o : Oid) :
    (s.updObs oid f).ilDemand o = s.ilDemand o := by
  unfold ilDemand
  rw [obs?_updObs s oid o f hid]
  cases s.obs? o with
  | none => rfl
  | some ob =>
    simp only [Option.map_some]
    split <;> simp [hd]

theorem ilq_updObs (s : Sys) (oid : Oid) (f : Obs → Obs) (hid : ∀ r, (f r).id = r.id)
    (hd : ∀ r, (f r).ingestDemand = r.ingestDemand) : ILQ s (s.updObs oid f) :=
  ⟨rfl, rfl, ilDemand_updObs s oid f hid hd, rfl, fun _ => Nat.le_refl _, [], by simp, by simp⟩

/-! ### the process table, split at the process that ran -/

theorem il_map_id_of_ne (l : List Proc) (pid : Nat) (g : Proc → Proc) (h : ∀ q ∈ l, q.pid ≠ pid) :
    l.map (fun q => if q.pid = pid then g q else q) = l := by
  induction l with
  | nil => rfl
  | cons x r ih =>
    simp only [List.map_cons]
    rw [if_neg (h x (by simp)), ih (fun q hq => h q (List.mem_cons_of_mem _ hq))]

theorem il_split {s : Sys} (hpw : PW s) {p : Proc} (hp : p ∈ s.procs) :
    ∃ l1 l2, s.procs = l1 ++ p :: l2 ∧ (∀ q, q ∈ l1 ∨ q ∈ l2 → q.pid ≠ p.pid) ∧
      ∀ g : Proc → Proc, (s.updProc p.pid g).procs = l1 ++ g p :: l2 := by
  obtain ⟨l1, l2, e⟩ := List.append_of_mem hp
  have hnd := hpw.nodup
  rw [e] at hnd
  simp only [List.map_append, List.map_cons] at hnd
  have hne : ∀ q, q ∈ l1 ∨ q ∈ l2 → q.pid ≠ p.pid := by
    intro q hq heq
    rw [List.nodup_append] at hnd
    obtain ⟨_, h2, h3⟩ := hnd
    rw [List.nodup_cons] at h2
    rcases hq with hq | hq
    · exact h3 q.pid (List.mem_map_of_mem hq) p.pid (by simp) heq
    · exact h2.1 (heq ▸ List.mem_map_of_mem hq)
  refine ⟨l1, l2, e, hne, ?_⟩
  intro g
  simp only [Sys.updProc, e, List.map_append, List.map_cons, if_true]
  rw [il_map_id_of_ne l1 p.pid g (fun q hq => hne q (Or.inl hq)),
    il_map_id_of_ne l2 p.pid g (fun q hq => hne q (Or.inr hq))]

/-! ### `resume` = block, bookkeeping, possibly the crash flag -/

theorem il_crash (s : Sys) (e : Err) : ILQ s (s.crash e) := by
  unfold crash; split
  · exact ILQ.refl _
  · exact ILQ.same rfl rfl rfl rfl rfl rfl rfl

theorem il_resume (s : Sys) (pid : Nat) (orc : Oracle) (p : Proc) (hp : s.proc? pid = some p)
    (ha : p.alive = true) :
    ILQ ((s.block p orc).1.updProc pid (fin (s.block p orc).2.1 (s.block p orc).2.2 p.wake))
      (s.resume pid orc).1 := by
  unfold resume
  simp only [hp, ha, Bool.not_true, Bool.false_eq_true, if_false]
  generalize s.block p orc = r
  obtain ⟨s1, k, y⟩ := r
  cases y with
  | timeout d => exact ILQ.refl _
  | done => exact ILQ.refl _
  | raised e => exact il_crash _ e

/-! ### the entry of a process the ledger does not talk about -/

theorem il_finish_other {s1 : Sys} (h1 : ILInv s1) (hpw : PW s1) {p : Proc} (hp : p ∈ s1.procs)
    (g : Proc → Proc) (hgpid : (g p).pid = p.pid) (hk : p.k.aiObs = none ∧ p.k.piObs = none)
    (hk' : (g p).k.aiObs = none ∧ (g p).k.piObs = none)
    (halive : (g p).alive = true → p.alive = true) :
    ILInv (s1.updProc p.pid g) ∧ (s1.updProc p.pid g).ilLoadS ≤ s1.ilLoadS := by
  obtain ⟨l1, l2, e, _, hg⟩ := il_split hpw hp
  unfold ILInv at h1
  rw [e] at h1
  have hun : ∀ o, ilUnprov o (g p) = true → ilUnprov o p = true := by
    intro o ho
    have := (ilUnprov_iff.mp ho).2.2
    rw [hk'.1, hk'.2] at this
    simp at this
  obtain ⟨hc, hl⟩ := h1.replace (p' := g p) (hk'.1.trans hk.1.symm) hgpid
    halive
    hun
    (fun q _ _ _ o d _ hw => by rw [hk.1] at hw; exact absurd hw.2.2.1 (by simp))
    (fun _ _ o d hkk => by rw [hkk] at hk'; exact absurd hk'.2 (by simp [PK.piObs]))
  have := ILInv.of_ilc (s' := s1.updProc p.pid g) hc (hg g) (fun _ => rfl) (fun _ => Nat.le_refl _) rfl rfl rfl
  refine ⟨this.1, Nat.le_trans this.2 ?_⟩
  unfold ilLoadS ingestPromised
  rw [e]
  exact Nat.add_le_add_left hl _

end Sys
end Topsim
