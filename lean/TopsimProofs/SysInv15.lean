/-
  SysInv15 — the telescope: the admission loop and the time discipline that
  keeps an observation from being admitted twice.
-/
import TopsimProofs.SysInv14

namespace Topsim
namespace Sys

open Cluster

theorem natNow_le (w : Rat) (h : 0 ≤ w) : ((natNow w : Nat) : Rat) ≤ w := by
  unfold natNow
  have h1 := Rat.floor_le w
  by_cases h2 : w.floor < 0
  · have : w.floor.toNat = 0 := by omega
    rw [this]; simpa using h
  · have h3 : ((w.floor.toNat : Nat) : Int) = w.floor := Int.toNat_of_nonneg (by omega)
    have h4 : ((w.floor.toNat : Nat) : Rat) = (((w.floor.toNat : Nat) : Int) : Rat) :=
      (Rat.intCast_natCast _).symm
    rw [h4, h3]; exact h1

/-! ### steps that preserve the groups other than `EG` -/

structure PresC (s s1 : Sys) : Prop where
  pre : s.procs <+: s1.procs
  pw : PW s → PW s1
  ci : ∀ U, PW s → CI s U → CI s1 U
  dg : PW s → DG s → DG s1

theorem Pres.toC {a b : Sys} (h : Pres a b) : PresC a b := ⟨h.pre, h.pw, h.ci, h.dg⟩

theorem PresC.refl (s : Sys) : PresC s s := (Pres.refl s).toC

theorem PresC.trans {a b c : Sys} (h1 : PresC a b) (h2 : PresC b c) : PresC a c :=
  ⟨h1.pre.trans h2.pre, fun h => h2.pw (h1.pw h), fun U hp h => h2.ci U (h1.pw hp) (h1.ci U hp h),
   fun hp h => h2.dg (h1.pw hp) (h1.dg hp h)⟩

theorem PresC.updObs (s : Sys) (o : Oid) (f : Obs → Obs) (hf : GoodO f) : PresC s (s.updObs o f) :=
  ⟨List.prefix_refl _, fun h => ⟨h.nodup, h.lt⟩,
   fun _ _ h => h.frame (ClQuiet.refl _) (TaskMono.refl _) (ObsMonoS.updObs s o f hf) (fun _ _ => Iff.rfl),
   fun _ h => h.frame rfl rfl rfl rfl (fun _ _ => Iff.rfl) (fun _ _ h => h)⟩

theorem PresC.spawnAI (s : Sys) (o : Oid) (tl : Int) (now : Time) :
    PresC s (s.spawn (.allocIngest o tl) now).1 :=
  ⟨by simp, fun h => h.spawn _ _,
   fun _ _ h => h.addProcs (ClQuiet.refl _) (TaskMono.refl _) (fun _ h => h) _ (spawn_procs _ _ _)
     (by simp [PK.isAT, PK.isPI]),
   fun _ h => h.addProcs rfl rfl rfl rfl _ (spawn_procs _ _ _) (by simp [PK.isDW])⟩

/-- everything the invariant reads is unchanged except, possibly, `admitted` -/
theorem PresC.core7 {s s1 : Sys} (hcl : s1.cl = s.cl) (ht : s1.tasks = s.tasks) (ho : s1.obs = s.obs)
    (hp : s1.procs = s.procs) (hn : s1.nextPid = s.nextPid) (hs : s1.starts = s.starts)
    (ha : s1.active = s.active) : PresC s s1 :=
  ⟨by rw [hp]; exact List.prefix_refl _, fun h => ⟨by rw [hp]; exact h.nodup, by rw [hp, hn]; exact h.lt⟩,
   fun _ _ h => h.frame (ClQuiet.of_eq hcl) (TaskMono.of_eq ht) (ObsMonoS.of_eq ho) (fun _ _ => by rw [hp]),
   fun _ h => h.frame (by rw [hcl]) (by rw [hcl]) hs ha (fun _ _ => by rw [hp])
     (fun _ _ hq => by rw [hp]; exact hq)⟩

/-! ### the telescope-group clauses in the middle of the admission loop -/

structure TelMid (s1 : Sys) (n : Nat) (visited : List Oid) : Prop where
  obsNodup : (s1.obs.map (·.id)).Nodup
  admNodup : s1.admitted.Nodup
  telUniq : ∀ p ∈ s1.procs, ∀ q ∈ s1.procs, p.k = .telescope → q.k = .telescope → p.pid = q.pid
  telWake : ∀ p ∈ s1.procs, p.k = .telescope → 0 ≤ p.wake
  adm : ∀ o ∈ s1.admitted, ∃ ob, s1.obs? o = some ob ∧ (ob.status = .waiting →
    o ∈ visited ∧ ∃ w ∈ s1.procs, w.alive = true ∧ w.pc = 0 ∧ (∃ tl, w.k = .allocIngest o tl) ∧
      w.wake = (n : Time))

theorem TelMid.mono {s1 : Sys} {n : Nat} {v v' : List Oid} (h : TelMid s1 n v) (hs : ∀ o ∈ v, o ∈ v') :
    TelMid s1 n v' :=
  { h with
    adm := fun o ho => by
      obtain ⟨ob, hob, hw⟩ := h.adm o ho
      exact ⟨ob, hob, fun hst => ⟨hs o (hw hst).1, (hw hst).2⟩⟩ }

theorem TelMid.core {s1 s2 : Sys} {n : Nat} {v : List Oid} (h : TelMid s1 n v) (ho : s2.obs = s1.obs)
    (hp : s2.procs = s1.procs) (ha : s2.admitted = s1.admitted) : TelMid s2 n v := by
  constructor
  · rw [ho]; exact h.obsNodup
  · rw [ha]; exact h.admNodup
  · rw [hp]; exact h.telUniq
  · rw [hp]; exact h.telWake
  · rw [ha, hp]
    intro o hoa
    obtain ⟨ob, hob, hw⟩ := h.adm o hoa
    exact ⟨ob, by unfold obs? at hob ⊢; rw [ho]; exact hob, hw⟩

theorem TelMid.updObs {s1 : Sys} {n : Nat} {v : List Oid} (h : TelMid s1 n v) (o : Oid) (f : Obs → Obs)
    (hf : GoodO f) : TelMid (s1.updObs o f) n v := by
  constructor
  · rw [updObs_ids s1 o f (fun r => (hf r).1)]; exact h.obsNodup
  · exact h.admNodup
  · exact h.telUniq
  · exact h.telWake
  · intro o' ho'
    obtain ⟨ob, hob, hw⟩ := h.adm o' ho'
    refine ⟨_, by rw [obs?_updObs s1 o o' f (fun r => (hf r).1), hob]; rfl, ?_⟩
    intro hst
    apply hw
    dsimp only at hst
    split at hst
    · exact (hf ob).2 hst
    · exact hst

/-- the admission itself -/
theorem TelMid.admission {s1 : Sys} {n : Nat} {v : List Oid} (h : TelMid s1 n v) (oid : Oid) (o : Obs)
    (hob : s1.obs? oid = some o) (hw : o.status = .waiting) (hv : oid ∉ v) (tu : Int) (ts : Bool) :
    TelMid (((({ s1 with telUse := tu, telStatus := ts, admitted := s1.admitted ++ [oid] }).updObs oid
      (fun r => { r with ast := some n })).spawn (.allocIngest oid 0) (n : Time)).1) n (oid :: v) := by
  have hoid : o.id = oid := by
    unfold obs? at hob; simpa using List.find?_some hob
  have hnot : oid ∉ s1.admitted := by
    intro hin
    obtain ⟨ob, hob', hw'⟩ := h.adm oid hin
    rw [hob] at hob'; injection hob' with e
    subst e
    exact hv (hw' hw).1
  have hobs : ∀ o', ((({ s1 with telUse := tu, telStatus := ts, admitted := s1.admitted ++ [oid] }).updObs oid
      (fun r => { r with ast := some n })).spawn (.allocIngest oid 0) (n : Time)).1.obs? o'
      = (s1.obs? o').map (fun r => if r.id = oid then { r with ast := some n } else r) := fun o' =>
    obs?_updObs { s1 with telUse := tu, telStatus := ts, admitted := s1.admitted ++ [oid] } oid o'
      (fun r => { r with ast := some n }) (fun _ => rfl)
  constructor
  · have := updObs_ids { s1 with telUse := tu, telStatus := ts, admitted := s1.admitted ++ [oid] } oid
      (fun r => { r with ast := some n }) (fun _ => rfl)
    show (List.map (fun r : Obs => r.id) (({ s1 with telUse := tu, telStatus := ts, admitted := s1.admitted ++ [oid] }).updObs oid (fun r => { r with ast := some n })).obs).Nodup
    rw [this]; exact h.obsNodup
  · show (s1.admitted ++ [oid]).Nodup
    rw [List.nodup_append]
    refine ⟨h.admNodup, by simp, ?_⟩
    intro a ha b hb
    simp at hb; subst hb
    intro e; subst e; exact hnot ha
  · intro p hp q hq hpk hqk
    simp only [spawn_procs, updObs_procs, List.mem_append, List.mem_singleton] at hp hq
    rcases hp with hp | rfl
    · rcases hq with hq | rfl
      · exact h.telUniq p hp q hq hpk hqk
      · simp at hqk
    · simp at hpk
  · intro p hp hpk
    simp only [spawn_procs, updObs_procs, List.mem_append, List.mem_singleton] at hp
    rcases hp with hp | rfl
    · exact h.telWake p hp hpk
    · simp at hpk
  · intro o' ho'
    have ho'' : o' ∈ s1.admitted ++ [oid] := ho'
    rw [hobs o']
    rcases List.mem_append.mp ho'' with ho1 | ho1
    · obtain ⟨ob, hob', hw'⟩ := h.adm o' ho1
      refine ⟨_, by rw [hob']; rfl, ?_⟩
      intro hst
      have hst' : ob.status = .waiting := by
        dsimp only at hst
        split at hst <;> exact hst
      obtain ⟨hvis, w, hw1, hw2⟩ := hw' hst'
      exact ⟨List.mem_cons_of_mem _ hvis, w, by simp [hw1], hw2⟩
    · simp at ho1; subst ho1
      refine ⟨_, by rw [hob]; rfl, fun _ => ⟨by simp, ?_⟩⟩
      exact ⟨{ pid := s1.nextPid, k := .allocIngest o' 0, wake := (n : Time) }, by simp, rfl, rfl, ⟨0, rfl⟩, rfl⟩

theorem checkIngestCapacity_core (s : Sys) (o : Obs) (s' : Sys) (b : Bool)
    (h : s.checkIngestCapacity o = .ok (s', b)) : Core8 s s' := by
  unfold checkIngestCapacity at h
  split at h
  · exact absurd h (by simp)
  · split at h
    · split at h
      · injection h with h; injection h with h1 _
        subst h1
        split
        · exact ⟨rfl, rfl, rfl, rfl, rfl, rfl, rfl, rfl⟩
        · exact Core8.refl _
      · injection h with h; injection h with h1 _; subst h1; exact Core8.refl _
    · injection h with h; injection h with h1 _; subst h1; exact Core8.refl _

/-- one iteration of the loop over the observations -/
theorem telescopeVisit_inv (n : Nat) (s1 : Sys) (err : Option Err) (oid : Oid) (v : List Oid)
    (hv : oid ∉ v) (hm : TelMid s1 n v) :
    PresC s1 (telescopeVisit n (s1, err) oid).1 ∧ TelMid (telescopeVisit n (s1, err) oid).1 n (oid :: v) := by
  have hm' : TelMid s1 n (oid :: v) := hm.mono (fun _ h => List.mem_cons_of_mem _ h)
  unfold telescopeVisit
  cases err with
  | some e => exact ⟨PresC.refl _, hm'⟩
  | none =>
    simp only
    cases hob : s1.obs? oid with
    | none => exact ⟨PresC.refl _, hm'⟩
    | some o =>
      simp only
      by_cases hready : o.isReady n ((s1.totalArrays : Int) - s1.telUse) = true
      · simp only [hready, if_true]
        have hw : o.status = .waiting := by
          unfold Obs.isReady at hready
          simp only [Bool.and_eq_true, beq_iff_eq] at hready
          exact hready.2
        cases hc : s1.checkIngestCapacity o with
        | error e => exact ⟨PresC.refl _, hm'⟩
        | ok r =>
          obtain ⟨s', b⟩ := r
          have hcore := checkIngestCapacity_core s1 o s' b hc
          have hpc : PresC s1 s' := (Pres.core hcore).toC
          have hmid : TelMid s' n v := hm.core hcore.obs hcore.procs hcore.admitted
          cases b with
          | false => exact ⟨hpc, hmid.mono (fun _ h => List.mem_cons_of_mem _ h)⟩
          | true =>
            simp only
            have hob' : s'.obs? oid = some o := by
              unfold obs? at hob ⊢; rw [hcore.obs]; exact hob
            have hgood : GoodO (fun r : Obs => { r with ast := some n }) := fun r => ⟨rfl, fun h => h⟩
            refine ⟨?_, ?_⟩
            · refine hpc.trans ?_
              refine PresC.trans (b := { s' with telUse := s'.telUse + o.demand, telStatus := true, admitted := s'.admitted ++ [oid] })
                (PresC.core7 rfl rfl rfl rfl rfl rfl rfl) ?_
              refine (PresC.updObs _ oid _ hgood).trans ?_
              refine (PresC.spawnAI _ oid 0 (n : Time)).trans ?_
              exact PresC.core7 rfl rfl rfl rfl rfl rfl rfl
            · exact (hmid.admission oid o hob' hw hv _ _).core rfl rfl rfl
      · simp only [hready, Bool.false_eq_true, if_false]
        split
        · have hgood : GoodO (fun r : Obs => { r with status := .finished }) :=
            fun r => ⟨rfl, fun h => by simp at h⟩
          refine ⟨?_, ?_⟩
          · exact (PresC.updObs s1 oid _ hgood).trans (PresC.core7 rfl rfl rfl rfl rfl rfl rfl)
          · exact ((hm'.updObs oid _ hgood).core rfl rfl rfl)
        · exact ⟨PresC.refl _, hm'⟩

theorem telescopeFold_inv (n : Nat) (l : List Oid) (hnd : l.Nodup) (acc : Sys × Option Err)
    (v : List Oid) (hdisj : ∀ o ∈ l, o ∉ v) (hm : TelMid acc.1 n v) :
    PresC acc.1 (l.foldl (telescopeVisit n) acc).1 ∧ ∃ v', TelMid (l.foldl (telescopeVisit n) acc).1 n v' := by
  induction l generalizing acc v with
  | nil => exact ⟨PresC.refl _, v, hm⟩
  | cons x r ih =>
    simp only [List.foldl_cons]
    rw [List.nodup_cons] at hnd
    obtain ⟨s1, err⟩ := acc
    obtain ⟨h1, h2⟩ := telescopeVisit_inv n s1 err x v (hdisj x (by simp)) hm
    have := ih hnd.2 (telescopeVisit n (s1, err) x) (x :: v) ?_ h2
    · exact ⟨h1.trans this.1, this.2⟩
    · intro o ho hov
      rcases List.mem_cons.mp hov with rfl | hov
      · exact hnd.1 ho
      · exact hdisj o (List.mem_cons_of_mem _ ho) hov

/-- closing the block: the telescope's next wake-up is after every admission
process it has just created -/
theorem EG.ofMid {s1 : Sys} {n : Nat} {v : List Oid} (hm : TelMid s1 n v) (hpw : PW s1) {p : Proc}
    (hp : p ∈ s1.procs) (hk : p.k = .telescope) (hn : (n : Time) ≤ p.wake) (y : Yield)
    (hy : ∀ d, y = .timeout d → d = 1) : EG (s1.updProc p.pid (fin .telescope y p.wake)) := by
  have hmem := fun q => mem_updProc_iff hpw (p := p) hp (fin .telescope y p.wake) q
  have hwake0 := hm.telWake p hp hk
  have htel : ∀ q ∈ (s1.updProc p.pid (fin .telescope y p.wake)).procs, q.k = .telescope →
      q = fin .telescope y p.wake p := by
    intro q hq hqk
    rcases (hmem q).mp hq with rfl | ⟨hq, hne⟩
    · rfl
    · exact absurd (hm.telUniq q hq p hp hqk hk) hne
  constructor
  · exact hm.obsNodup
  · exact hm.admNodup
  · intro q1 hq1 q2 hq2 hk1 hk2
    rw [htel q1 hq1 hk1, htel q2 hq2 hk2]
  · intro q hq hqk
    rw [htel q hq hqk]
    unfold fin
    split
    · rename_i d
      have := hy d rfl
      subst this
      show 0 ≤ p.wake + 1
      grind
    · exact hwake0
    · exact hwake0
  · intro o ho
    obtain ⟨ob, hob, hw⟩ := hm.adm o ho
    refine ⟨ob, hob, fun hst => ?_⟩
    obtain ⟨_, w, hw1, hwa, hwc, ⟨tl, hwk⟩, hww⟩ := hw hst
    refine ⟨w, (hmem w).mpr (Or.inr ⟨hw1, ?_⟩), hwa, hwc, ⟨tl, hwk⟩, ?_⟩
    · intro e
      have : w = p := hpw.eq_of_pid hw1 hp e
      subst this
      rw [hk] at hwk; exact absurd hwk (by simp)
    · intro q hq hqk hqa
      rw [htel q hq hqk] at hqa ⊢
      obtain ⟨_, d, hd⟩ := fin_alive _ _ _ _ hqa
      subst hd
      have := hy d rfl
      subst this
      rw [hww]
      show (n : Time) < p.wake + 1
      grind

/-- the telescope's block, from the telescope-group clauses alone -/
theorem telescope_key {s : Sys} (heg : EG s) {p : Proc} (hpm : p ∈ s.procs) (ha : p.alive = true)
    (hmin : ∀ q ∈ s.procs, q.alive = true → p.wake ≤ q.wake) (hk : p.k = .telescope) :
    PresC s (s.telescopeBlock p.wake).1 ∧ (∃ v, TelMid (s.telescopeBlock p.wake).1 (natNow p.wake) v) ∧
      (∀ d, (s.telescopeBlock p.wake).2 = .timeout d → d = 1) := by
  -- at the start of the block no admitted observation is still WAITING
  have hmid0 : TelMid s (natNow p.wake) [] := by
    refine ⟨heg.obsNodup, heg.admNodup, heg.telUniq, heg.telWake, ?_⟩
    intro o ho
    obtain ⟨ob, hob, hw⟩ := heg.adm o ho
    refine ⟨ob, hob, fun hst => ?_⟩
    exfalso
    obtain ⟨w, hw1, hwa, _, _, hlt⟩ := hw hst
    have h1 := hlt p hpm hk ha
    have h2 := hmin w hw1 hwa
    grind
  unfold telescopeBlock
  split
  · exact ⟨PresC.core7 rfl rfl rfl rfl rfl rfl rfl, ⟨[], hmid0.core rfl rfl rfl⟩, fun d hd => by simp at hd⟩
  · simp only
    generalize hs0 : ({ s with telEvents := [], telDelayed := if s.schedDelayed = true ∧ (!s.telDelayed) = true then true else s.telDelayed } : Sys) = s0
    have hc0 : PresC s s0 := by subst hs0; exact PresC.core7 rfl rfl rfl rfl rfl rfl rfl
    have hm0 : TelMid s0 (natNow p.wake) [] := by subst hs0; exact hmid0.core rfl rfl rfl
    have hnd : (s.obs.map (·.id)).Nodup := heg.obsNodup
    obtain ⟨f1, v', f2⟩ := telescopeFold_inv (natNow p.wake) (s.obs.map (·.id)) hnd (s0, none) []
      (fun _ _ => by simp) hm0
    generalize (List.foldl (telescopeVisit (natNow p.wake)) (s0, none) (s.obs.map (·.id))) = r at f1 f2 ⊢
    obtain ⟨s1, e1⟩ := r
    cases e1 with
    | some e => exact ⟨hc0.trans f1, ⟨v', f2⟩, fun d hd => by simp at hd⟩
    | none => exact ⟨hc0.trans f1, ⟨v', f2⟩, fun d hd => by simp at hd; exact hd.symm⟩

theorem step_telescope {s : Sys} (h : SInv s) {pid : Nat} {p : Proc} (hp : s.proc? pid = some p)
    (ha : p.alive = true) (hmin : ∀ q ∈ s.procs, q.alive = true → p.wake ≤ q.wake)
    (hk : p.k = .telescope) (orc : Oracle) : SInv (s.resume pid orc).1 := by
  obtain ⟨hpm, hpid⟩ := proc?_some hp
  subst hpid
  have hcore := resume_core s p.pid orc p hp ha
  have hb : s.block p orc = ((s.telescopeBlock p.wake).1, .telescope, (s.telescopeBlock p.wake).2) := by
    unfold block; simp only [hk]
  rw [hb] at hcore
  simp only at hcore
  refine SInv.core ?_ hcore
  have hwake0 := h.eg.telWake p hpm hk
  have hn : ((natNow p.wake : Nat) : Time) ≤ p.wake := natNow_le p.wake hwake0
  obtain ⟨hc, ⟨v, hm⟩, hy⟩ := telescope_key h.eg hpm ha hmin hk
  generalize s.telescopeBlock p.wake = r at hc hm hy
  obtain ⟨s1, y⟩ := r
  simp only at hc hm hy ⊢
  obtain ⟨U, hU⟩ := h.ci
  have hpw1 := hc.pw h.pw
  have hp1 : p ∈ s1.procs := hc.pre.subset hpm
  exact ⟨hpw1.updProc _ _ (by simp),
    ⟨U, (hc.ci U h.pw hU).updProc_neutral hpw1 hp1 _ (by rw [hk]; exact ⟨rfl, rfl⟩) (by simp [PK.isAT, PK.isPI])⟩,
    (hc.dg h.pw h.dg).updProc_neutral hpw1 hp1 _ (by rw [hk]; exact ⟨rfl, rfl⟩) (by simp [PK.isAT, PK.isDW]),
    EG.ofMid hm hpw1 hp1 hk hn y hy⟩

end Sys
end Topsim
