/-
  SysInv11 — step theorem for `do_work`.
-/
import TopsimProofs.SysInv10

namespace Topsim
namespace Sys

open Cluster

theorem nodup_of_map {α β} {f : α → β} {l : List α} (h : (l.map f).Nodup) : l.Nodup := by
  unfold List.Nodup at *
  rw [List.pairwise_map] at h
  exact h.imp (fun hne e => hne (by rw [e]))

theorem step_doWork {s : Sys} (h : SInv s) {pid : Nat} {p : Proc} (hp : s.proc? pid = some p)
    (ha : p.alive = true) {t m preds ph tot} (hk : p.k = .doWork t m preds ph tot)
    (orc : Oracle) : SInv (s.resume pid orc).1 := by
  obtain ⟨hpm, hpid⟩ := proc?_some hp
  subst hpid
  have hcore := resume_core s p.pid orc p hp ha
  have hb : s.block p orc = s.doWorkBlock p.wake orc t m preds ph tot := by
    unfold block; simp only [hk]
  rw [hb] at hcore
  refine SInv.core ?_ hcore
  obtain ⟨U, hU⟩ := h.ci
  have hpw := h.pw
  have hn1 : p.k.isAT = false ∧ p.k.isPI = false := by rw [hk]; exact ⟨rfl, rfl⟩
  have hn2 : p.k.isTel = false ∧ p.k.isAI = false := by rw [hk]; exact ⟨rfl, rfl⟩
  have hdg := h.dg
  rcases doWorkBlock_out s p.wake orc t m preds ph tot with
    ⟨hph, ph', tot', y, heq⟩ | ⟨hph, f, tot', d, hf, heq⟩ | ⟨hph, f, hf, heq⟩
  · -- nothing happens to the state
    rw [heq]
    simp only
    have hmem := fun q => mem_updProc_iff hpw (p := p) hpm (fin (.doWork t m preds ph' tot') y p.wake) q
    refine ⟨hpw.updProc _ _ (by simp), ⟨U, ?_⟩, ?_, ?_⟩
    · exact hU.updProc_neutral hpw hpm _ hn1 (by simp [PK.isAT, PK.isPI])
    · refine hdg.replaceDW hpw hpm hk _ (by simp) ph' tot' (by simp) (fun h' => (fin_alive _ _ _ _ h').1)
        s rfl rfl rfl hdg.startsNodup ?_ hdg.actNodup ?_
      · intro x hx
        obtain ⟨q, hq, m1, preds1, ph1, tot1, hk1, hph1⟩ := hdg.startsDw x hx
        refine ⟨q, (hmem q).mpr (Or.inr ⟨hq, ?_⟩), m1, preds1, ph1, tot1, hk1, hph1⟩
        intro e
        have : q = p := hpw.eq_of_pid hq hpm e
        subst this
        rw [hk] at hk1
        injection hk1 with _ _ _ e4
        omega
      · intro mt hmt
        obtain ⟨q, hq, hqa, preds1, tot1, hk1⟩ := hdg.actDw mt hmt
        refine ⟨q, (hmem q).mpr (Or.inr ⟨hq, ?_⟩), hqa, preds1, tot1, hk1⟩
        intro e
        have : q = p := hpw.eq_of_pid hq hpm e
        subst this
        rw [hk] at hk1
        injection hk1 with _ _ _ e4
        omega
    · exact h.eg.updProc_neutral hpw hpm _ hn2 (by simp [PK.isTel, PK.isAI])
  · -- the body starts
    rw [heq]
    simp only
    generalize hX : ({ (s.updTask t f) with starts := (s.updTask t f).starts ++ [t], active := (s.updTask t f).active ++ [(m, t)] } : Sys) = X
    have hXcl : X.cl = s.cl := by subst hX; rfl
    have hXprocs : X.procs = s.procs := by subst hX; rfl
    have hXnp : X.nextPid = s.nextPid := by subst hX; rfl
    have hXobs : X.obs = s.obs := by subst hX; rfl
    have hXadm : X.admitted = s.admitted := by subst hX; rfl
    have hXtasks : X.tasks = (s.updTask t f).tasks := by subst hX; rfl
    have hXstarts : X.starts = s.starts ++ [t] := by subst hX; rfl
    have hXactive : X.active = s.active ++ [(m, t)] := by subst hX; rfl
    have hpwX : PW X := ⟨by rw [hXprocs]; exact hpw.nodup, by rw [hXprocs, hXnp]; exact hpw.lt⟩
    have hpX : p ∈ X.procs := by rw [hXprocs]; exact hpm
    have hmem := fun q => mem_updProc_iff hpwX (p := p) hpX (fin (.doWork t m preds 2 tot') (.timeout d) p.wake) q
    -- no other `do_work` entry for this task has reached its body
    have hnot : ∀ q ∈ s.procs, ∀ m1 preds1 ph1 tot1, q.k = .doWork t m1 preds1 ph1 tot1 → ph1 < 2 := by
      intro q hq m1 preds1 ph1 tot1 hk1
      have e := hdg.dwUniq q hq p hpm _ _ _ _ _ _ _ _ _ hk1 hk
      have : q = p := hpw.eq_of_pid hq hpm e
      subst this
      rw [hk] at hk1
      injection hk1 with _ _ _ e4
      omega
    have hts : t ∉ s.starts := by
      intro hx
      obtain ⟨q, hq, m1, preds1, ph1, tot1, hk1, hph1⟩ := hdg.startsDw t hx
      have := hnot q hq _ _ _ _ hk1
      omega
    have hta : t ∉ s.active.map (·.2) := by
      intro hx
      obtain ⟨mt, hmt, rfl⟩ := List.mem_map.mp hx
      obtain ⟨q, hq, _, preds1, tot1, hk1⟩ := hdg.actDw mt hmt
      have := hnot q hq _ _ _ _ hk1
      omega
    have hold : ∀ q ∈ s.procs, ∀ t1 m1 preds1 ph1 tot1, q.k = .doWork t1 m1 preds1 ph1 tot1 → 2 ≤ ph1 →
        q ∈ (X.updProc p.pid (fin (.doWork t m preds 2 tot') (.timeout d) p.wake)).procs := by
      intro q hq t1 m1 preds1 ph1 tot1 hk1 hph1
      refine (hmem q).mpr (Or.inr ⟨by rw [hXprocs]; exact hq, ?_⟩)
      intro e
      have : q = p := hpw.eq_of_pid hq hpm e
      subst this
      rw [hk] at hk1
      injection hk1 with _ _ _ e4
      omega
    refine ⟨hpwX.updProc _ _ (by simp), ⟨U, ?_⟩, ?_, ?_⟩
    · have : CI X U := hU.frame (ClQuiet.of_eq hXcl) (by rw [hXtasks]; exact TaskMono.updTask s t f hf)
        (ObsMonoS.of_eq hXobs) (fun _ _ => by rw [hXprocs])
      exact this.updProc_neutral hpwX hpX _ hn1 (by simp [PK.isAT, PK.isPI])
    · refine hdg.replaceDW hpw hpm hk _ (by simp) 2 tot' (by simp) (fun _ => ha) X hXcl hXprocs hXnp
        ?_ ?_ ?_ ?_
      · rw [hXstarts, List.nodup_append]
        refine ⟨hdg.startsNodup, by simp, ?_⟩
        intro a ha' b hb
        simp at hb; subst hb
        intro e; subst e; exact hts ha'
      · intro x hx
        rw [hXstarts] at hx
        rcases List.mem_append.mp hx with hx | hx
        · obtain ⟨q, hq, m1, preds1, ph1, tot1, hk1, hph1⟩ := hdg.startsDw x hx
          exact ⟨q, hold q hq _ _ _ _ _ hk1 hph1, m1, preds1, ph1, tot1, hk1, hph1⟩
        · simp at hx; subst hx
          exact ⟨_, (hmem _).mpr (Or.inl rfl), m, preds, 2, tot', by simp, by omega⟩
      · rw [hXactive, List.map_append, List.nodup_append]
        refine ⟨hdg.actNodup, by simp, ?_⟩
        intro a ha' b hb
        simp at hb; subst hb
        intro e; subst e; exact hta ha'
      · intro mt hmt
        rw [hXactive] at hmt
        rcases List.mem_append.mp hmt with hmt | hmt
        · obtain ⟨q, hq, hqa, preds1, tot1, hk1⟩ := hdg.actDw mt hmt
          exact ⟨q, hold q hq _ _ _ _ _ hk1 (by omega), hqa, preds1, tot1, hk1⟩
        · simp at hmt; subst hmt
          exact ⟨_, (hmem _).mpr (Or.inl rfl), by simp [ha], preds, tot', by simp⟩
    · have : EG X := h.eg.frame hXobs hXadm (fun _ _ => by rw [hXprocs])
      exact this.updProc_neutral hpwX hpX _ hn2 (by simp [PK.isTel, PK.isAI])
  · -- the body ends
    rw [heq]
    simp only
    generalize hX : ({ (s.updTask t f) with active := (s.updTask t f).active.erase (m, t) } : Sys) = X
    have hXcl : X.cl = s.cl := by subst hX; rfl
    have hXprocs : X.procs = s.procs := by subst hX; rfl
    have hXnp : X.nextPid = s.nextPid := by subst hX; rfl
    have hXobs : X.obs = s.obs := by subst hX; rfl
    have hXadm : X.admitted = s.admitted := by subst hX; rfl
    have hXtasks : X.tasks = (s.updTask t f).tasks := by subst hX; rfl
    have hXstarts : X.starts = s.starts := by subst hX; rfl
    have hXactive : X.active = s.active.erase (m, t) := by subst hX; rfl
    have hpwX : PW X := ⟨by rw [hXprocs]; exact hpw.nodup, by rw [hXprocs, hXnp]; exact hpw.lt⟩
    have hpX : p ∈ X.procs := by rw [hXprocs]; exact hpm
    have hmem := fun q => mem_updProc_iff hpwX (p := p) hpX (fin (.doWork t m preds 3 tot) .done p.wake) q
    refine ⟨hpwX.updProc _ _ (by simp), ⟨U, ?_⟩, ?_, ?_⟩
    · have : CI X U := hU.frame (ClQuiet.of_eq hXcl) (by rw [hXtasks]; exact TaskMono.updTask s t f hf)
        (ObsMonoS.of_eq hXobs) (fun _ _ => by rw [hXprocs])
      exact this.updProc_neutral hpwX hpX _ hn1 (by simp [PK.isAT, PK.isPI])
    · refine hdg.replaceDW hpw hpm hk _ (by simp) 3 tot (by simp) (fun h' => by simp at h') X hXcl hXprocs
        hXnp ?_ ?_ ?_ ?_
      · rw [hXstarts]; exact hdg.startsNodup
      · intro x hx
        rw [hXstarts] at hx
        obtain ⟨q, hq, m1, preds1, ph1, tot1, hk1, hph1⟩ := hdg.startsDw x hx
        by_cases e : q.pid = p.pid
        · have : q = p := hpw.eq_of_pid hq hpm e
          subst this
          rw [hk] at hk1
          injection hk1 with e1
          subst e1
          exact ⟨_, (hmem _).mpr (Or.inl rfl), m, preds, 3, tot, by simp, by omega⟩
        · exact ⟨q, (hmem q).mpr (Or.inr ⟨by rw [hXprocs]; exact hq, e⟩), m1, preds1, ph1, tot1, hk1, hph1⟩
      · rw [hXactive]
        exact (List.erase_sublist.map _).nodup hdg.actNodup
      · intro mt hmt
        rw [hXactive] at hmt
        have hnd : s.active.Nodup := nodup_of_map hdg.actNodup
        obtain ⟨hne, hmt'⟩ := (List.Nodup.mem_erase_iff hnd).mp hmt
        obtain ⟨q, hq, hqa, preds1, tot1, hk1⟩ := hdg.actDw mt hmt'
        refine ⟨q, (hmem q).mpr (Or.inr ⟨by rw [hXprocs]; exact hq, ?_⟩), hqa, preds1, tot1, hk1⟩
        intro e
        have : q = p := hpw.eq_of_pid hq hpm e
        subst this
        rw [hk] at hk1
        injection hk1 with e1 e2
        apply hne
        subst e1 e2
        rfl
    · have : EG X := h.eg.frame hXobs hXadm (fun _ _ => by rw [hXprocs])
      exact this.updProc_neutral hpwX hpX _ hn2 (by simp [PK.isTel, PK.isAI])

end Sys
end Topsim
