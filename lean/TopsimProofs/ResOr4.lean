/-
  ResOr4 — concrete runs of a user algorithm that reserves machines itself, checked by evaluation
  (`decide +kernel`): one that keeps to `ResOrOk` (a reservation exists mid-run, none at the end) and
  two that do not (a reservation survives `is_finished()`).

  A run is a list of (process id, oracle input of that block); `resOrRun` executes it with
  `Sys.resume`, `resOrCheck` / `resOrCheckOk` check that every listed block is enabled when its turn
  comes and that the oracle input keeps to `ResOrOk` / `Oracle.preOk`.
-/
import TopsimProofs.ResOr3

namespace Topsim
namespace Sys

/-! ### checking a run by evaluation -/

def resOrRun : List (Nat × Oracle) → Sys → Sys
  | [], s => s
  | (pid, orc) :: r, s => resOrRun r (s.resume pid orc).1

def resOrEnabledB (s : Sys) (pid : Nat) : Bool :=
  match s.proc? pid with
  | some p => p.alive && s.procs.all (fun q => !q.alive || decide (p.wake ≤ q.wake))
  | none => false

theorem resOrEnabledB_sound {s : Sys} {pid : Nat} (h : resOrEnabledB s pid = true) : s.enabled pid := by
  unfold resOrEnabledB at h
  cases hp : s.proc? pid with
  | none => rw [hp] at h; exact absurd h (by simp)
  | some p =>
    rw [hp] at h
    simp only [Bool.and_eq_true, List.all_eq_true, Bool.or_eq_true, Bool.not_eq_true',
      decide_eq_true_eq] at h
    refine ⟨p, hp, h.1, ?_⟩
    intro q hq hqa
    rcases h.2 q hq with h' | h'
    · rw [hqa] at h'; exact absurd h' (by simp)
    · exact h'

/-- `ResOrOk`, the reservation half, for one call -/
def resOrOpB (s : Sys) : ClOp → Bool
  | .provBatch _ o => decide (o ∈ s.queue)
  | .relBatch _ => true
  | _ => false

/-- `ResOrOk` as a test -/
def resOrOkB (s : Sys) (pid : Nat) (orc : Oracle) : Bool :=
  match s.proc? pid with
  | none => true
  | some p =>
    match p.k with
    | .allocTasks oid _ _ _ false =>
      orc.pre.all (resOrOpB s) &&
      orc.proposals.all (fun pr => decide (pr.1 ∈ planTasks s oid) && decide (tstat s pr.1 = .unscheduled))
    | _ => true

theorem resOrOkB_sound {s : Sys} {pid : Nat} {orc : Oracle} (h : resOrOkB s pid orc = true) :
    ResOrOk s pid orc := by
  intro p hp oid sc pa po hk
  unfold resOrOkB at h
  rw [hp] at h
  simp only [hk, Bool.and_eq_true, List.all_eq_true, decide_eq_true_eq] at h
  refine ⟨fun op hop => ?_, fun pr hpr => h.2 pr hpr⟩
  have := h.1 op hop
  cases op with
  | provBatch n o => exact Or.inl ⟨n, o, rfl, by simpa [resOrOpB] using this⟩
  | relBatch o => exact Or.inr ⟨o, rfl⟩
  | _ => simp [resOrOpB] at this

def resOrBatchB : ClOp → Bool
  | .provBatch _ _ => true
  | .relBatch _ => true
  | _ => false

theorem resOrBatchB_sound {orc : Oracle} (h : orc.pre.all resOrBatchB = true) : orc.preOk := by
  intro op hop
  have := List.all_eq_true.mp h op hop
  cases op <;> first | trivial | simp [resOrBatchB] at this

/-- every listed block is enabled when its turn comes and keeps to `ResOrOk` -/
def resOrCheck : List (Nat × Oracle) → Sys → Bool
  | [], _ => true
  | (pid, orc) :: r, s => resOrEnabledB s pid && resOrOkB s pid orc && resOrCheck r (s.resume pid orc).1

/-- every listed block is enabled when its turn comes and keeps to `Oracle.preOk` -/
def resOrCheckOk : List (Nat × Oracle) → Sys → Bool
  | [], _ => true
  | (pid, orc) :: r, s => resOrEnabledB s pid && orc.pre.all resOrBatchB && resOrCheckOk r (s.resume pid orc).1

theorem resOr_reachResv_run {s0 : Sys} (sched : List (Nat × Oracle)) (s : Sys) (h : ReachResv s0 s)
    (hc : resOrCheck sched s = true) : ReachResv s0 (resOrRun sched s) := by
  induction sched generalizing s with
  | nil => exact h
  | cons x r ih =>
    obtain ⟨pid, orc⟩ := x
    simp only [resOrCheck, Bool.and_eq_true] at hc
    exact ih _ (ReachResv.step s pid orc h (resOrEnabledB_sound hc.1.1) (fun _ => resOrOkB_sound hc.1.2)) hc.2

theorem resOr_reachOk_run {s0 : Sys} (sched : List (Nat × Oracle)) (s : Sys) (h : ReachOk s0 s)
    (hc : resOrCheckOk sched s = true) : ReachOk s0 (resOrRun sched s) := by
  induction sched generalizing s with
  | nil => exact h
  | cons x r ih =>
    obtain ⟨pid, orc⟩ := x
    simp only [resOrCheckOk, Bool.and_eq_true] at hc
    exact ih _ (ReachOk.step s pid orc h (resOrEnabledB_sound hc.1.1) (fun _ => resOrBatchB_sound hc.1.2)) hc.2

/-- blocks with the empty oracle input -/
def resOrQuiet (pids : List Nat) : List (Nat × Oracle) := pids.map (fun pid => (pid, {}))

/-! ### (N) the algorithm reserves under the name of its observation; the scheduler cleans up -/

def resOrObsN : Obs :=
  { id := 0, est := 0, duration := 1, demand := 1, rate := 1, ingestDemand := 1,
    wf := ⟨[(0, 1, 0)], [], [0]⟩ }

/-- two machines; one observation (one array, one ingest machine, one timestep, rate 1) whose
workflow is one task of one unit of work; a user algorithm -/
def resOrWN : Sys :=
  { machines := [⟨0, 1, 1⟩, ⟨1, 1, 1⟩], totalArrays := 1, maxIngest := 1, alg := .oracle,
    cl := Cluster.init [0, 1], buf := Buffer.init 100 10 100 10, obs := [resOrObsN] }

theorem resOrWN_wf : WFConfig resOrWN := by
  refine ⟨by decide, rfl, by decide, ?_, ⟨rfl, rfl, rfl, rfl, rfl, rfl, rfl, rfl, rfl, rfl, rfl, rfl, rfl,
    rfl, rfl, rfl, rfl⟩⟩
  intro o ho
  simp only [resOrWN, List.mem_cons, List.not_mem_nil, or_false] at ho
  subst ho
  exact ⟨rfl, rfl, by decide, by decide⟩

theorem resOrWN_buf : resOrWN.buf.hot.stored = [] ∧ resOrWN.buf.hot.scheduled = [] ∧
    resOrWN.buf.hot.finished = [] ∧ resOrWN.buf.cold.stored = [] := ⟨rfl, rfl, rfl, rfl⟩

/-- Instant 0 (pids): monitor 0, telescope 1 (lets the observation in; supervisor 5), cluster loop 2,
scheduler loop 3, buffer loop 4, supervisor 5 (provisioner 6, stream 7), 6 (machine 0 to the ingest
pool; allocation process 8), 7 (the observation is stored), 8 (body 9), 9 twice.
Instant 1: 0, 1, 2, scheduler loop 3 (plans the workflow: task `.wf 0 1 0`; `allocate_tasks` 10), 4, 5,
6, 8 (ingest task FINISHED, machine 0 back: available `[1, 0]`), then the FIRST block of
`allocate_tasks` 10, in which the user algorithm calls `provision_batch_resources(1, obs 0)` (machine
1 becomes reserved: idle `[(0, [1])]`) and proposes `.wf 0 1 0` on machine 1. -/
def resOrSchedN1 : List (Nat × Oracle) :=
  resOrQuiet [0, 1, 2, 3, 4, 5, 6, 7, 8, 9, 9, 0, 1, 2, 3, 4, 5, 6, 8] ++
  [(10, { pre := [.provBatch 1 0], proposals := [(.wf 0 1 0, 1)] })]

/-- … then allocation process 11 (takes machine 1 out of the reservation), body 12 twice.
Instant 2: 0, 1, 2, 3, 4, `allocate_tasks` 10 (the task is not reported finished yet), 11 (task FINISHED,
machine 1 back INTO the reservation).  Instant 3: 0, 2, 3, 4, `allocate_tasks` 10: plan empty, the
observation is removed from the buffer and the queue, `release_batch_resources(obs 0)`. -/
def resOrSchedN2 : List (Nat × Oracle) :=
  resOrQuiet [11, 12, 12, 0, 1, 2, 3, 4, 10, 11, 0, 2, 3, 4, 10]

def resOrSNmid : Sys := resOrRun resOrSchedN1 resOrWN.start
def resOrSN : Sys := resOrRun resOrSchedN2 resOrSNmid

theorem resOrSchedN1_chk : resOrCheck resOrSchedN1 resOrWN.start = true := by decide +kernel

theorem resOrSchedN2_chk : resOrCheck resOrSchedN2 resOrSNmid = true := by decide +kernel

theorem resOrSNmid_reach : ReachResv resOrWN resOrSNmid :=
  resOr_reachResv_run resOrSchedN1 _ ReachResv.start resOrSchedN1_chk

theorem resOrSN_reach : ReachResv resOrWN resOrSN :=
  resOr_reachResv_run resOrSchedN2 _ resOrSNmid_reach resOrSchedN2_chk

theorem resOrSNmid_final :
    resOrSNmid.crashed = none ∧ resOrSNmid.isFinished = false ∧ resOrSNmid.queue = [0] ∧
    resOrSNmid.cl.idle = [(0, [1])] ∧ resOrSNmid.cl.available = [0] := by
  decide +kernel

theorem resOrSN_final :
    resOrSN.isFinished = true ∧ resOrSN.crashed = none ∧ resOrSN.cl.idle = [] ∧
    resOrSN.cl.available = [0, 1] ∧
    resOrSN.tasks.map (fun r => (r.id, r.status)) = [(.ingest 0 0, .finished), (.wf 0 1 0, .finished)] ∧
    resOrSN.starts = [.ingest 0 0, .wf 0 1 0] := by
  decide +kernel

/-! ### (L1) a reservation under the name of an observation that has already been removed -/

def resOrObsE (i : Nat) : Obs :=
  { id := i, est := 0, duration := 1, demand := 1, rate := 1, ingestDemand := 1, wf := ⟨[], [], []⟩ }

/-- two machines, two arrays; two observations (one array, one ingest machine, one timestep, rate 1
each) with EMPTY workflows; a user algorithm -/
def resOrWL1 : Sys :=
  { machines := [⟨0, 1, 1⟩, ⟨1, 1, 1⟩], totalArrays := 2, maxIngest := 2, alg := .oracle,
    cl := Cluster.init [0, 1], buf := Buffer.init 100 10 100 10, obs := [resOrObsE 0, resOrObsE 1] }

theorem resOrWL1_wf : WFConfig resOrWL1 := by
  refine ⟨by decide, rfl, by decide, ?_, ⟨rfl, rfl, rfl, rfl, rfl, rfl, rfl, rfl, rfl, rfl, rfl, rfl, rfl,
    rfl, rfl, rfl, rfl⟩⟩
  intro o ho
  simp only [resOrWL1, List.mem_cons, List.not_mem_nil, or_false] at ho
  rcases ho with rfl | rfl <;> exact ⟨rfl, rfl, by decide, by decide⟩

theorem resOrWL1_buf : resOrWL1.buf.hot.stored = [] ∧ resOrWL1.buf.hot.scheduled = [] ∧
    resOrWL1.buf.hot.finished = [] ∧ resOrWL1.buf.cold.stored = [] := ⟨rfl, rfl, rfl, rfl⟩

/-- Instant 0: both observations let in and ingested (supervisors 5, 6; provisioners 7, 9; streams 8,
10; allocation processes 11, 12; bodies 13, 14).  Instant 1: the ingest machines come back; scheduler
loop 3 plans observation 1 (stored last; `allocate_tasks` 15); 15: empty plan, observation 1 removed,
`release_batch_resources(obs 1)` (nothing reserved).  Instant 2: scheduler loop 3 plans observation 0
(`allocate_tasks` 16); 15 ends; the FIRST block of 16, in which the user algorithm calls
`provision_batch_resources(1, obs 1)` — the name of the observation removed at instant 1 — and
proposes nothing: empty plan, observation 0 removed, `release_batch_resources(obs 0)` (nothing under
that name).  `is_finished()` holds; machine 0 stays reserved under the name of observation 1. -/
def resOrSchedL1 : List (Nat × Oracle) :=
  resOrQuiet [0, 1, 2, 3, 4, 5, 6, 7, 8, 9, 10, 11, 12, 13, 13, 14, 14,
              0, 1, 2, 3, 4, 5, 6, 7, 9, 11, 12, 15,
              0, 1, 2, 3, 4, 15] ++
  [(16, { pre := [.provBatch 1 1] })]

def resOrSL1 : Sys := resOrRun resOrSchedL1 resOrWL1.start

theorem resOrSchedL1_chk : resOrCheckOk resOrSchedL1 resOrWL1.start = true := by decide +kernel

theorem resOrSL1_reach : ReachOk resOrWL1 resOrSL1 :=
  resOr_reachOk_run resOrSchedL1 _ ReachOk.start resOrSchedL1_chk

theorem resOrSL1_final :
    resOrSL1.isFinished = true ∧ resOrSL1.crashed = none ∧ resOrSL1.cl.idle = [(1, [0])] ∧
    resOrSL1.cl.available = [1] ∧ resOrSL1.queue = [] ∧ resOrSL1.buf.hot.finished = [1, 0] := by
  decide +kernel

/-! ### (L2) a task of another workflow on the reserved machine -/

def resOrObsA : Obs :=
  { id := 1, est := 0, duration := 1, demand := 1, rate := 1, ingestDemand := 1,
    wf := ⟨[(0, 3, 0)], [], [0]⟩ }

/-- as `resOrWL1`, but the workflow of observation 1 is one task of three units of work -/
def resOrWL2 : Sys :=
  { machines := [⟨0, 1, 1⟩, ⟨1, 1, 1⟩], totalArrays := 2, maxIngest := 2, alg := .oracle,
    cl := Cluster.init [0, 1], buf := Buffer.init 100 10 100 10, obs := [resOrObsE 0, resOrObsA] }

theorem resOrWL2_wf : WFConfig resOrWL2 := by
  refine ⟨by decide, rfl, by decide, ?_, ⟨rfl, rfl, rfl, rfl, rfl, rfl, rfl, rfl, rfl, rfl, rfl, rfl, rfl,
    rfl, rfl, rfl, rfl⟩⟩
  intro o ho
  simp only [resOrWL2, List.mem_cons, List.not_mem_nil, or_false] at ho
  rcases ho with rfl | rfl <;> exact ⟨rfl, rfl, by decide, by decide⟩

theorem resOrWL2_buf : resOrWL2.buf.hot.stored = [] ∧ resOrWL2.buf.hot.scheduled = [] ∧
    resOrWL2.buf.hot.finished = [] ∧ resOrWL2.buf.cold.stored = [] := ⟨rfl, rfl, rfl, rfl⟩

/-- Instants 0, 1 as in (L1); at instant 1 scheduler loop 3 plans observation 1 (task `.wf 1 1 0`;
`allocate_tasks` 15), and the algorithm proposes nothing for it.  Instant 2: scheduler loop 3 plans
observation 0 (empty workflow; `allocate_tasks` 16); in the FIRST block of 16 the user algorithm calls
`provision_batch_resources(1, obs 0)` — the name of the observation it is scheduling: machine 0
reserved — and proposes the task `.wf 1 1 0` OF OBSERVATION 1 on machine 0. -/
def resOrSchedL2a : List (Nat × Oracle) :=
  resOrQuiet [0, 1, 2, 3, 4, 5, 6, 7, 8, 9, 10, 11, 12, 13, 13, 14, 14,
              0, 1, 2, 3, 4, 5, 6, 7, 9, 11, 12, 15,
              0, 1, 2, 3, 4, 15] ++
  [(16, { pre := [.provBatch 1 0], proposals := [(.wf 1 1 0, 0)] })]

/-- … allocation process 17 (created by 16 with `observation = obs 0`) takes machine 0 out of the
reservation of observation 0 (idle `[(0, [])]`), body 18 starts.  Instant 3: `allocate_tasks` 16: plan
empty, schedule empty: observation 0 removed, `release_batch_resources(obs 0)` finds an EMPTY list
and keeps the key.  Instant 5: 17 reports the task finished and gives machine 0 back into the
reservation `obs 0`.  Instant 6: `allocate_tasks` 15 removes observation 1.  `is_finished()` holds;
machine 0 stays reserved under the name of observation 0. -/
def resOrSchedL2b : List (Nat × Oracle) :=
  resOrQuiet [17, 18, 0, 2, 3, 4, 15, 16, 17, 0, 2, 3, 4, 15, 16, 17, 18, 0, 2, 3, 4, 15, 17, 0, 2, 3, 4, 15]

def resOrSL2mid : Sys := resOrRun resOrSchedL2a resOrWL2.start
def resOrSL2 : Sys := resOrRun resOrSchedL2b resOrSL2mid

theorem resOrSchedL2a_chk : resOrCheckOk resOrSchedL2a resOrWL2.start = true := by decide +kernel

theorem resOrSchedL2b_chk : resOrCheckOk resOrSchedL2b resOrSL2mid = true := by decide +kernel

theorem resOrSL2_reach : ReachOk resOrWL2 resOrSL2 :=
  resOr_reachOk_run resOrSchedL2b _ (resOr_reachOk_run resOrSchedL2a _ ReachOk.start resOrSchedL2a_chk)
    resOrSchedL2b_chk

/-- the reservation call of this run keeps to `ResOrOk` (own observation, in the queue); only the
proposal does not -/
theorem resOrSL2_pre_ok :
    (resOrRun (resOrSchedL2a.dropLast) resOrWL2.start).queue = [1, 0] ∧
    ((resOrRun (resOrSchedL2a.dropLast) resOrWL2.start).proc? 16).map (fun p => (p.k.tag, p.pc, p.alive))
      = some ("allocTasks", 0, true) ∧
    planTasks (resOrRun (resOrSchedL2a.dropLast) resOrWL2.start) 0 = [] ∧
    planTasks (resOrRun (resOrSchedL2a.dropLast) resOrWL2.start) 1 = [.wf 1 1 0] := by
  decide +kernel

theorem resOrSL2_final :
    resOrSL2.isFinished = true ∧ resOrSL2.crashed = none ∧ resOrSL2.cl.idle = [(0, [0])] ∧
    resOrSL2.cl.available = [1] ∧ resOrSL2.queue = [] ∧ resOrSL2.buf.hot.finished = [0, 1] ∧
    resOrSL2.tasks.map (fun r => (r.id, r.status)) =
      [(.ingest 0 0, .finished), (.ingest 1 0, .finished), (.wf 1 1 0, .finished)] := by
  decide +kernel

end Sys
end Topsim
