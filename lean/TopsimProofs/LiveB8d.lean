/-
  LiveB8d — BatchProcessing: the declarations of Live8d that depend on the configuration hypotheses,
  for `LiveCfgB` / `NcCfgB` (`s0.alg = .batch …`).  Generated from Live8d.lean by renaming (suffix `_B`);
  the algorithm-dependent ones are rewritten (see the comments).
-/
import TopsimProofs.Live8d
import TopsimProofs.LiveB5
import TopsimProofs.LiveB8
import TopsimProofs.LiveB8b
import TopsimProofs.LiveB8c

namespace Topsim
open KState Sys
namespace Sys
end Sys
section
variable {env : SimEnv} {s0 : Sys}

theorem live_telStatus_B (C : LiveCfgB env s0) (K : LiveKernel env s0) (n : Nat) :
    (simAt env s0 n).st.telStatus = true → 0 < (simAt env s0 n).st.telUse := by
  induction n with
  | zero =>
    intro h
    have hst : (simAt env s0 0).st = s0.start := rfl
    rw [hst] at h
    have : s0.start.telStatus = s0.telStatus := by simp [start, spawn]
    rw [this, C.hw.fresh.2.2.2.2.2.2.2.2.2.1] at h
    cases h
  | succ n ih =>
    obtain ⟨e, p, _, _, _, _, hen, _, hst⟩ := l8_step_B C K n
    rw [hst]
    exact Sys.l8_ts_step C.hw (l8_reach_B C K n) ih hen _

/-- **J6.**  With no live worker process and every admitted observation FINISHED, the cluster,
the ingest counter and the telescope are free. -/
theorem live_free_B (C : LiveCfgB env s0) (K : LiveKernel env s0) (n : Nat)
    (hq : ∀ q ∈ (simAt env s0 n).st.procs, q.alive = true →
      q.k.tag ≠ "allocIngest" ∧ q.k.tag ≠ "provIngest" ∧ q.k.tag ≠ "ingestStream" ∧
      q.k.tag ≠ "allocTask" ∧ q.k.tag ≠ "doWork")
    (hfin : ∀ ob ∈ (simAt env s0 n).st.obs, ob.ast ≠ none → ob.status = .finished) :
    (simAt env s0 n).st.cl.occupied = [] ∧ (simAt env s0 n).st.cl.ingest = [] ∧
    (simAt env s0 n).st.cl.running = [] ∧
    (simAt env s0 n).st.cl.available.length + (simAt env s0 n).st.cl.idleAll.length = s0.machines.length ∧
    (simAt env s0 n).st.provIngest = 0 ∧ (simAt env s0 n).st.telUse = 0 ∧
    (simAt env s0 n).st.telStatus = false := by
  obtain ⟨h1, h2, h3, h4⟩ := live_cluster_free_B C K n (fun q hq' ha => (hq q hq' ha).2.2.2.1)
  have h5 := live_provIngest_zero_B C K n (fun q hq' ha => (hq q hq' ha).1)
  have hacc := reach_telAcct C.hw (l8_reach_B C K n)
  have heg := (l8_sinv_B C K n).eg
  have hA := sim_otAst env s0 C.hw _ (K.reach n)
  have h6 : (simAt env s0 n).st.telUse = 0 := by
    rw [hacc.use]
    apply Sys.l8_useL_zero
    intro r hr
    unfold useC
    rw [if_neg]
    rintro ⟨hadm, hnf⟩
    have hob := obs?_of_mem heg.obsNodup hr
    by_cases hw : r.status = .waiting
    · obtain ⟨ob, hob', hsup⟩ := heg.adm r.id hadm
      rw [hob] at hob'; cases hob'
      obtain ⟨q, hq', hqa, _, ⟨tl, hqk⟩, _⟩ := hsup hw
      exact (hq q hq' hqa).1 (by rw [hqk]; rfl)
    · apply hnf
      apply hfin r hr
      intro hast
      exact hw (hA.wait r.id r hob hast)
  refine ⟨h1, h2, h3, h4, h5, h6, ?_⟩
  cases hts : (simAt env s0 n).st.telStatus with
  | false => rfl
  | true =>
    have := live_telStatus_B C K n hts
    omega
end
end Topsim
