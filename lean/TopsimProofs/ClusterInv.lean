/-
  The cluster invariant (C02 / C01 / C09 / C19 at cluster level) and its
  preservation by every operation of the alphabet `ClOp`.
-/
import TopsimModel.ClusterOps
import TopsimProofs.ListLemmas

namespace Topsim
namespace Cluster

/-- machines of the polling allocation processes, split by kind -/
def runMachines (c : Cluster) (ing : Bool) : List Mid :=
  (c.runOn.filter (fun e => e.ing == ing)).map (·.mach)

/-- `U` is the set of task ids used so far (freshness bookkeeping). -/
structure Inv (c : Cluster) (U : List Tid) : Prop where
  nodupM : c.machines.Nodup
  part : ∀ m, c.available.count m + c.ingest.count m + c.occupied.count m
            + c.idleAll.count m = c.machines.count m
  keys : (dictKeys c.idle).Nodup
  runNodup : c.running.Nodup
  runOnTasks : c.runOn.map (·.task) = c.running
  occ : ∀ m, (c.runMachines false).count m = c.occupied.count m
  ingm : ∀ m, (c.runMachines true).count m + (c.pending.map (·.mach)).count m = c.ingest.count m
  pendIng : ∀ e ∈ c.pending, e.ing = true
  pendNodup : (c.pending.map (·.task)).Nodup
  pendFresh : ∀ e ∈ c.pending, e.task ∉ c.running ∧ dictGet c.finished e.task = none
  cntRunning : c.uRunning = c.running.length
  cntAvail : c.uAvail = (c.machines.length : Int) - c.running.length
  cntIngest : c.uIngest = (c.runMachines true).length
  cntFinished : c.uFinished = (c.finished.filter (·.2)).length
  runNotFin : ∀ t ∈ c.running, dictGet c.finished t ≠ some true
  usedRun : ∀ t ∈ c.running, t ∈ U
  usedFin : ∀ t ∈ dictKeys c.finished, t ∈ U
  usedPend : ∀ e ∈ c.pending, e.task ∈ U
  /-- the `ingest` flag of a polling process agrees with the id scheme of its task -/
  ingRun : ∀ e ∈ c.runOn, e.ing = e.task.isIngest
  pendTask : ∀ e ∈ c.pending, e.task.isIngest = true

end Cluster
end Topsim
