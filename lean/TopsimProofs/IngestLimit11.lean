/-
  IngestLimit11 — the deterministic simulator (L3: `KState Sys` with
  `simHandler env`) refines the block system (L2: `Reach`/`ReachOk`).

  `IlHeapOk` ties the event heap to the process table: every live process has
  exactly one pending event, at its wake time.  Hence the event the kernel pops
  belongs to a process of minimal wake time, and one kernel step is one
  `Sys.resume` of an enabled process (or, when the popped event is the failure
  of a process that raised, the end of the run).
-/
import TopsimProofs.IngestLimit10

namespace Topsim

open KState

namespace KState

theorem il_pushInits_pids (ps : List Nat) (heap : List HEntry) (eid : Nat) (now : Time) :
    (pushInits heap eid now ps).1.map (·.pid) = heap.map (·.pid) ++ ps := by
  induction ps generalizing heap eid with
  | nil => simp [pushInits]
  | cons p ps ih => simp only [pushInits]; rw [ih]; simp

end KState

namespace Sys

/-! ### `resume`, on the process table -/

theorem il_resume_procs_eq (s : Sys) (pid : Nat) (orc : Oracle) (p : Proc) (hp : s.proc? pid = some p)
    (ha : p.alive = true) :
    (s.resume pid orc).1.procs
      = ((s.block p orc).1.updProc pid (fin (s.block p orc).2.1 (s.block p orc).2.2 p.wake)).procs ∧
    (s.resume pid orc).1.nextPid = (s.block p orc).1.nextPid ∧
    (s.resume pid orc).2 = (s.block p orc).2.2 := by
  unfold resume
  simp only [hp, ha, Bool.not_true, Bool.false_eq_true, if_false]
  generalize s.block p orc = r
  obtain ⟨s1, k, y⟩ := r
  cases y with
  | timeout d => exact ⟨rfl, rfl, rfl⟩
  | done => exact ⟨rfl, rfl, rfl⟩
  | raised e => exact ⟨by simp only [crash_procs]; rfl, by simp only [nextPid_crash]; rfl, rfl⟩

/-- the process table after one block of `p`: the entry of `p` is replaced, the other old
entries stay, the new ones are due at `ilSpawnTime p` -/
theorem il_resume_procs_mem {s : Sys} (hpw : PW s) {pid : Nat} {p : Proc} (hp : s.proc? pid = some p)
    (ha : p.alive = true) (orc : Oracle) :
    (∀ q' ∈ (s.resume pid orc).1.procs,
      q' = fin (s.block p orc).2.1 (s.block p orc).2.2 p.wake p ∨ (q' ∈ s.procs ∧ q'.pid ≠ pid) ∨
      (q'.wake = ilSpawnTime p ∧ q'.alive = true ∧ q'.pc = 0 ∧ s.nextPid ≤ q'.pid)) ∧
    fin (s.block p orc).2.1 (s.block p orc).2.2 p.wake p ∈ (s.resume pid orc).1.procs ∧
    (∀ q ∈ s.procs, q.pid ≠ pid → q ∈ (s.resume pid orc).1.procs) := by
  obtain ⟨hpm, hpid⟩ := proc?_some hp
  obtain ⟨e1, _, _⟩ := il_resume_procs_eq s pid orc p hp ha
  have hnw := block_ilnw s p orc
  have hpre : s.procs <+: (s.block p orc).1.procs := block_pre s p orc
  rw [e1]
  refine ⟨?_, ?_, ?_⟩
  · intro q' hq'
    obtain ⟨q, hq, rfl⟩ := mem_updProc.mp hq'
    rcases hnw.2 q hq with hold | ⟨w1, w2, w3, w4⟩
    · by_cases e : q.pid = pid
      · have : q = p := hpw.eq_of_pid hold hpm (e.trans hpid.symm)
        subst this
        rw [if_pos e]; exact Or.inl rfl
      · rw [if_neg e]; exact Or.inr (Or.inl ⟨hold, e⟩)
    · have hne : q.pid ≠ pid := by
        have := hpw.lt p hpm
        omega
      rw [if_neg hne]
      exact Or.inr (Or.inr ⟨w1, w2, w3, w4⟩)
  · exact mem_updProc.mpr ⟨p, hpre.subset hpm, by rw [if_pos hpid]⟩
  · intro q hq hne
    exact mem_updProc.mpr ⟨q, hpre.subset hq, by rw [if_neg hne]⟩

theorem il_natNow_natCast (n : Nat) : natNow ((n : Nat) : Rat) = n := by
  unfold natNow
  have : ((n : Nat) : Rat) = ((n : Int) : Rat) := (Rat.intCast_natCast n).symm
  rw [this, Rat.floor_intCast]
  simp

theorem il_fin_alive_iff (k : PK) (y : Yield) (w : Time) (q : Proc) :
    (fin k y w q).alive = true ↔ q.alive = true ∧ ∃ d, y = .timeout d := by
  constructor
  · exact fin_alive k y w q
  · rintro ⟨h, d, rfl⟩; exact h

theorem il_fin_wake_timeout (k : PK) (d : Time) (w : Time) (q : Proc) :
    (fin k (.timeout d) w q).wake = w + d := rfl

end Sys

/-! ### the heap and the process table -/

open Sys

structure IlHeapOk (k : SimState) : Prop where
  fresh : ∀ x ∈ k.heap, x.eid < k.eid
  uniq : (k.heap.map (·.pid)).Nodup
  lt : ∀ x ∈ k.heap, x.pid < k.st.nextPid
  /-- every live process has a pending event, at its wake time -/
  live : ∀ p ∈ k.st.procs, p.alive = true → ∃ x ∈ k.heap, x.pid = p.pid ∧ x.time = p.wake
  /-- the pending event of a live process is at its wake time -/
  time : ∀ x ∈ k.heap, ∀ p ∈ k.st.procs, p.pid = x.pid → p.alive = true → x.time = p.wake
  /-- the telescope is resumed at whole instants -/
  telInt : ∀ p ∈ k.st.procs, p.k = .telescope → ∃ n : Nat, p.wake = (n : Time)
  telEx : ∃ t ∈ k.st.procs, t.k = .telescope

theorem IlHeapOk.init (s0 : Sys) (hw : WFConfig s0) : IlHeapOk (SimState.start s0) := by
  obtain ⟨hprocs, hnp, _⟩ := hw.fresh
  obtain ⟨hh, he⟩ := SimState.start_heap s0
  have hst : (SimState.start s0).st = s0.start := rfl
  have hp : s0.start.procs =
      [{ pid := 0, k := .monitor, wake := 0 }, { pid := 1, k := .telescope, wake := 0 },
       { pid := 2, k := .clusterLoop, wake := 0 }, { pid := 3, k := .schedLoop, wake := 0 },
       { pid := 4, k := .bufferLoop, wake := 0 }] := by
    simp [start, spawn, hprocs, hnp]
  have hn : s0.start.nextPid = 5 := by simp [start, spawn, hnp]
  constructor
  · intro x hx
    rw [hh] at hx; rw [he]
    simp only [List.mem_cons, List.not_mem_nil, or_false] at hx
    rcases hx with rfl | rfl | rfl | rfl | rfl <;> simp
  · rw [hh]; decide
  · intro x hx
    rw [hh] at hx; rw [hst, hn]
    simp only [List.mem_cons, List.not_mem_nil, or_false] at hx
    rcases hx with rfl | rfl | rfl | rfl | rfl <;> simp
  · intro p hp' _
    rw [hst, hp] at hp'; rw [hh]
    simp only [List.mem_cons, List.not_mem_nil, or_false] at hp'
    rcases hp' with rfl | rfl | rfl | rfl | rfl <;> simp
  · intro x hx p hp' hpid _
    rw [hst, hp] at hp'; rw [hh] at hx
    simp only [List.mem_cons, List.not_mem_nil, or_false] at hp' hx
    rcases hp' with rfl | rfl | rfl | rfl | rfl <;> rcases hx with rfl | rfl | rfl | rfl | rfl <;> simp at hpid ⊢
  · intro p hp' _
    rw [hst, hp] at hp'
    simp only [List.mem_cons, List.not_mem_nil, or_false] at hp'
    rcases hp' with rfl | rfl | rfl | rfl | rfl <;> exact ⟨0, by simp⟩
  · rw [hst, hp]; exact ⟨_, List.mem_cons_of_mem _ List.mem_cons_self, rfl⟩

theorem IlHeapOk.collate {k : SimState} (h : IlHeapOk k) : IlHeapOk { k with st := k.st.collate } :=
  ⟨h.fresh, h.uniq, h.lt, h.live, h.time, h.telInt, h.telEx⟩

/-- the popped event belongs to a process of minimal wake time -/
theorem IlHeapOk.enabled {k : SimState} (h : IlHeapOk k) (_hpw : PW k.st) {e : HEntry} (hp : k.peek = some e)
    {p : Proc} (hpp : k.st.proc? e.pid = some p) (ha : p.alive = true) :
    k.st.enabled e.pid ∧ e.time = p.wake := by
  obtain ⟨he, hleast⟩ := peek_spec k e hp
  obtain ⟨hpm, hpid⟩ := proc?_some hpp
  have ht : e.time = p.wake := h.time e he p hpm hpid ha
  refine ⟨⟨p, hpp, ha, ?_⟩, ht⟩
  intro q hq hqa
  obtain ⟨x, hx, _, hxt⟩ := h.live q hq hqa
  have := hleast x hx
  rw [lt_false_iff] at this
  rw [← ht, ← hxt]
  grind

theorem Sys.SInv.il_halt {s : Sys} (h : SInv s) : SInv { s with halted := true } :=
  h.core ⟨rfl, rfl, rfl, rfl, rfl, rfl, rfl, rfl⟩

theorem Sys.SInv.il_collate {s : Sys} (h : SInv s) : SInv s.collate :=
  h.core ⟨rfl, rfl, rfl, rfl, rfl, rfl, rfl, rfl⟩

theorem il_oracle_preOk (env : SimEnv) (s : Sys) : (env.oracle s).preOk := by
  intro op hop
  simp [SimEnv.oracle] at hop

/-- One kernel step.  Either the popped event is the failure of a dead process and the state only
gets the `halted` flag; or it is one block of an enabled process, with the simulator's oracle. -/
theorem il_l3_step (env : SimEnv) (k k' : SimState) (hs : SInv k.st) (h : IlHeapOk k)
    (hstep : k.step (simHandler env) = some k') :
    IlHeapOk k' ∧ SInv k'.st ∧
    ∃ e, k.peek = some e ∧
      ((k'.st = { k.st with halted := true } ∧ ∀ q, k.st.proc? e.pid = some q → q.alive = false) ∨
       (k.st.enabled e.pid ∧ (∃ p, k.st.proc? e.pid = some p ∧ p.alive = true ∧ e.time = p.wake) ∧
         k'.st = (k.st.resume e.pid (env.oracle k.st)).1)) := by
  cases hp : k.peek with
  | none => simp [KState.step, hp] at hstep
  | some e =>
    obtain ⟨he, hleast⟩ := peek_spec k e hp
    have hpw := hs.pw
    rw [step_eq (simHandler env) k e hp] at hstep
    -- the pids of the heap without the popped event
    have herase : (k.heap.erase e).map (·.pid) = (k.heap.map (·.pid)).erase e.pid :=
      map_erase_of_nodup (·.pid) k.heap e he h.uniq
    have hnotin : e.pid ∉ (k.heap.erase e).map (·.pid) := by
      rw [herase]; exact fun hh => (List.Nodup.mem_erase_iff h.uniq).mp hh |>.1 rfl
    have hf1 : ∀ x ∈ k.heap.erase e, x.eid < k.eid := fun x hx => h.fresh x (List.mem_of_mem_erase hx)
    rcases simHandler_cases env k.st e.pid e.time with ⟨hc, hdead⟩ | ⟨hc1, hc2, hc3⟩
    · -- the failure event of a process that raised
      rw [hc] at hstep
      simp only [pushInits] at hstep
      cases hstep
      refine ⟨⟨hf1, ?_, ?_, ?_, ?_, h.telInt, h.telEx⟩, hs.il_halt, e, rfl, Or.inl ⟨rfl, hdead⟩⟩
      · exact List.Nodup.sublist (List.Sublist.map _ List.erase_sublist) h.uniq
      · exact fun x hx => h.lt x (List.mem_of_mem_erase hx)
      · intro p hpm hpa
        obtain ⟨x, hx, hxp, hxt⟩ := h.live p hpm hpa
        refine ⟨x, (List.mem_erase_of_ne ?_).mpr hx, hxp, hxt⟩
        intro hxe
        have : k.st.proc? e.pid = some p := by
          rw [← hxe, hxp]; exact hpw.proc?_of_mem hpm
        rw [hdead p this] at hpa; exact absurd hpa (by simp)
      · exact fun x hx => h.time x (List.mem_of_mem_erase hx)
    · -- one block of a live process
      cases hpp : k.st.proc? e.pid with
      | none =>
        -- `resume` does nothing and reports an exception: the handler schedules a failure event
        exfalso
        have : simHandler env k.st e.pid e.time = ({ k.st with halted := true }, [], none) := by
          unfold simHandler; rw [hpp]
        have h2 := hc3
        rw [this] at h2
        unfold resume at h2
        rw [hpp] at h2
        simp at h2
      | some p =>
        cases ha : p.alive with
        | false =>
          exfalso
          have : simHandler env k.st e.pid e.time = ({ k.st with halted := true }, [], none) := by
            unfold simHandler; rw [hpp]; simp [ha]
          have h2 := hc3
          rw [this] at h2
          unfold resume at h2
          rw [hpp] at h2
          simp [ha] at h2
        | true =>
          obtain ⟨hpm, hpid⟩ := proc?_some hpp
          obtain ⟨hen, het⟩ := h.enabled hpw hp hpp ha
          have hs' : SInv (k.st.resume e.pid (env.oracle k.st)).1 :=
            step_inv hs hen _ (fun _ => il_oracle_preOk env k.st)
          obtain ⟨r1, r2, r3⟩ := il_resume_procs_eq k.st e.pid (env.oracle k.st) p hpp ha
          obtain ⟨m1, m2, m3⟩ := il_resume_procs_mem hpw hpp ha (env.oracle k.st)
          have hnp : k.st.nextPid ≤ (k.st.resume e.pid (env.oracle k.st)).1.nextPid :=
            resume_np k.st e.pid _
          -- the spawned pids
          have hsp : ∀ x, x ∈ (simHandler env k.st e.pid e.time).2.1 ↔
              k.st.nextPid ≤ x ∧ x < (k.st.resume e.pid (env.oracle k.st)).1.nextPid := by
            intro x
            rw [hc2]
            simp only [List.mem_map, List.mem_range]
            constructor
            · rintro ⟨i, hi, rfl⟩; omega
            · rintro ⟨h1, h2⟩; exact ⟨x - k.st.nextPid, by omega, by omega⟩
          have hspnd : ((simHandler env k.st e.pid e.time).2.1).Nodup := by
            rw [hc2]
            apply nodup_map_of_inj _ (fun a b hab => by omega) List.nodup_range
          -- the new processes are due now
          have hst : ilSpawnTime p = e.time := by
            unfold ilSpawnTime
            cases hk : p.k with
            | telescope =>
              obtain ⟨n, hn⟩ := h.telInt p hpm hk
              simp only
              rw [het, hn, il_natNow_natCast]
            | _ => simp only [het]
          -- the heap after the initialisations
          generalize hH : pushInits (k.heap.erase e) k.eid e.time (simHandler env k.st e.pid e.time).2.1 = H
            at hstep
          have hHpids : H.1.map (·.pid) = (k.heap.erase e).map (·.pid) ++ (simHandler env k.st e.pid e.time).2.1 := by
            rw [← hH]; exact il_pushInits_pids _ _ _ _
          have hHmem : ∀ x ∈ H.1, x ∈ k.heap.erase e ∨
              (x.time = e.time ∧ x.prio = 0 ∧ x.pid ∈ (simHandler env k.st e.pid e.time).2.1) := by
            rw [← hH]; exact pushInits_mem _ _ _ _
          have hHsub : ∀ x ∈ k.heap.erase e, x ∈ H.1 := by
            rw [← hH]; exact pushInits_sub _ _ _ _
          have hHfresh : (∀ x ∈ H.1, x.eid < H.2) ∧ k.eid ≤ H.2 := by
            rw [← hH]; exact pushInits_fresh _ _ _ _ hf1
          have hHnd : (H.1.map (·.pid)).Nodup := by
            rw [hHpids, List.nodup_append]
            refine ⟨List.Nodup.sublist (List.Sublist.map _ List.erase_sublist) h.uniq, hspnd, ?_⟩
            intro a ha' b hb hab
            obtain ⟨x, hx, rfl⟩ := List.mem_map.mp ha'
            have := h.lt x (List.mem_of_mem_erase hx)
            have := ((hsp b).mp hb).1
            omega
          have hepid : e.pid < k.st.nextPid := h.lt e he
          have hnotH : e.pid ∉ H.1.map (·.pid) := by
            rw [hHpids, List.mem_append]
            rintro (hh | hh)
            · exact hnotin hh
            · have := ((hsp e.pid).mp hh).1; omega
          -- what the block yielded
          have hy : (simHandler env k.st e.pid e.time).2.2 =
              match (k.st.block p (env.oracle k.st)).2.2 with
              | .timeout d => some d
              | .done => none
              | .raised _ => some 0 := by
            rw [hc3, r3]; cases (k.st.block p (env.oracle k.st)).2.2 <;> rfl
          -- the telescope's entry is still in the table
          obtain ⟨t0, ht0, ht0k⟩ := h.telEx
          have ht0' : ∃ t1 ∈ (k.st.resume e.pid (env.oracle k.st)).1.procs,
              t1.pid = t0.pid ∧ t1.k = .telescope := by
            by_cases hte : t0.pid = e.pid
            · have : t0 = p := hpw.eq_of_pid ht0 hpm (hte.trans hpid.symm)
              subst this
              refine ⟨_, m2, by simp, ?_⟩
              simp only [fin_k]
              unfold block
              simp only [ht0k]
            · exact ⟨t0, m3 t0 ht0 hte, rfl, ht0k⟩
          -- the common part of the new invariant
          have common : ∀ (heap' : List HEntry) (eid' : Nat),
              (∀ x ∈ heap', x.eid < eid') → (heap'.map (·.pid)).Nodup →
              (∀ x ∈ heap', x ∈ H.1 ∨ (x.pid = e.pid ∧ ∃ d, (simHandler env k.st e.pid e.time).2.2 = some d ∧ x.time = e.time + d)) →
              (∀ x ∈ H.1, x ∈ heap') →
              (∀ d, (k.st.block p (env.oracle k.st)).2.2 = .timeout d → ∃ x ∈ heap', x.pid = e.pid ∧ x.time = e.time + d) →
              IlHeapOk { st := (simHandler env k.st e.pid e.time).1, heap := heap', eid := eid' } := by
            intro heap' eid' c1 c2 c3 c4 c5
            refine ⟨c1, c2, ?_, ?_, ?_, ?_, ?_⟩
            · intro x hx
              show x.pid < (simHandler env k.st e.pid e.time).1.nextPid
              rw [hc1]
              rcases c3 x hx with hx | ⟨hx, _⟩
              · rcases hHmem x hx with hx | ⟨_, _, hx⟩
                · have := h.lt x (List.mem_of_mem_erase hx); omega
                · exact ((hsp x.pid).mp hx).2
              · omega
            · intro q' hq' hqa
              have hq'' : q' ∈ (k.st.resume e.pid (env.oracle k.st)).1.procs := by rw [← hc1]; exact hq'
              rcases m1 q' hq'' with rfl | ⟨hold, hne⟩ | ⟨w1, _, _, w4⟩
              · obtain ⟨_, d, hd⟩ := (il_fin_alive_iff _ _ _ _).mp hqa
                obtain ⟨x, hx, hx1, hx2⟩ := c5 d hd
                refine ⟨x, hx, by rw [hx1]; simp [hpid], ?_⟩
                rw [hx2, het]
                simp only [hd]
                rfl
              · obtain ⟨x, hx, hxp, hxt⟩ := h.live q' hold hqa
                refine ⟨x, c4 x (hHsub x ((List.mem_erase_of_ne ?_).mpr hx)), hxp, hxt⟩
                intro hxe; rw [hxe] at hxp; exact hne hxp.symm
              · have hlt : q'.pid < (k.st.resume e.pid (env.oracle k.st)).1.nextPid := hs'.pw.lt q' hq''
                have hin : q'.pid ∈ H.1.map (·.pid) := by
                  rw [hHpids]; exact List.mem_append_right _ ((hsp q'.pid).mpr ⟨w4, hlt⟩)
                obtain ⟨x, hx, hxp⟩ := List.mem_map.mp hin
                refine ⟨x, c4 x hx, hxp, ?_⟩
                rcases hHmem x hx with hx' | ⟨hx', _, _⟩
                · have := h.lt x (List.mem_of_mem_erase hx'); omega
                · rw [hx', w1, hst]
            · intro x hx q' hq' hqp hqa
              have hq'' : q' ∈ (k.st.resume e.pid (env.oracle k.st)).1.procs := by rw [← hc1]; exact hq'
              rcases c3 x hx with hxH | ⟨hxp, d, hd, hxt⟩
              · rcases hHmem x hxH with hx' | ⟨hx', _, hx''⟩
                · -- an old event: its process is an old process other than `p`
                  have hxk := List.mem_of_mem_erase hx'
                  have hxne : x.pid ≠ e.pid := fun hh => hnotin (hh ▸ List.mem_map_of_mem hx')
                  rcases m1 q' hq'' with rfl | ⟨hold, _⟩ | ⟨_, _, _, w4⟩
                  · exact absurd (by simp [← hqp, hpid]) hxne
                  · exact h.time x hxk q' hold hqp hqa
                  · have := h.lt x hxk; omega
                · -- an initialisation: its process is new
                  have hge := ((hsp x.pid).mp hx'').1
                  rcases m1 q' hq'' with rfl | ⟨hold, _⟩ | ⟨w1, _, _, _⟩
                  · simp at hqp; omega
                  · have := hpw.lt q' hold; omega
                  · rw [hx', w1, hst]
              · -- the timeout of `p`
                rcases m1 q' hq'' with rfl | ⟨_, hne⟩ | ⟨_, _, _, w4⟩
                · obtain ⟨_, d', hd'⟩ := (il_fin_alive_iff _ _ _ _).mp hqa
                  rw [hy, hd'] at hd
                  cases hd
                  rw [hxt, het]; simp only [hd']; rfl
                · exact absurd (hqp.trans hxp) hne
                · omega
            · intro q' hq' hqk
              have hq'' : q' ∈ (k.st.resume e.pid (env.oracle k.st)).1.procs := by rw [← hc1]; exact hq'
              obtain ⟨t1, ht1, ht1p, ht1k⟩ := ht0'
              have hq1 : q'.pid = t0.pid := (hs'.eg.telUniq q' hq'' t1 ht1 hqk ht1k).trans ht1p
              rcases m1 q' hq'' with rfl | ⟨hold, _⟩ | ⟨_, _, _, w4⟩
              · -- the telescope itself: it comes back one step later
                have hpt : p = t0 := hpw.eq_of_pid hpm ht0 (by simpa using hq1)
                have hpk : p.k = .telescope := by rw [hpt]; exact ht0k
                obtain ⟨n, hn⟩ := h.telInt p hpm hpk
                have hu := block_unit k.st p (env.oracle k.st) (by rw [hpk]; rfl)
                cases hyb : (k.st.block p (env.oracle k.st)).2.2 with
                | timeout d =>
                  rw [hyb] at hu
                  simp only [Yield.unit] at hu
                  subst hu
                  refine ⟨n + 1, ?_⟩
                  show p.wake + 1 = _
                  rw [hn]; simp
                | done => exact ⟨n, hn⟩
                | raised err => exact ⟨n, hn⟩
              · exact h.telInt q' hold hqk
              · have := hpw.lt t0 ht0
                omega
            · obtain ⟨t1, ht1, _, ht1k⟩ := ht0'
              exact ⟨t1, by rw [hc1]; exact ht1, ht1k⟩
          -- assemble
          cases hyb : (k.st.block p (env.oracle k.st)).2.2 with
          | timeout d =>
            have hy' : (simHandler env k.st e.pid e.time).2.2 = some d := by rw [hy, hyb]
            rw [hy'] at hstep
            cases hstep
            refine ⟨?_, by rw [hc1]; exact hs', e, rfl, Or.inr ⟨hen, ⟨p, hpp, ha, het⟩, hc1⟩⟩
            apply common
            · intro x hx
              rcases List.mem_append.mp hx with hx | hx
              · have := hHfresh.1 x hx; omega
              · simp only [List.mem_singleton] at hx; subst hx; simp
            · rw [List.map_append, List.nodup_append]
              refine ⟨hHnd, by simp, ?_⟩
              intro a ha' b hb hab
              simp only [List.map_cons, List.map_nil, List.mem_singleton] at hb
              subst hb; subst hab
              exact hnotH ha'
            · intro x hx
              rcases List.mem_append.mp hx with hx | hx
              · exact Or.inl hx
              · simp only [List.mem_singleton] at hx; subst hx
                exact Or.inr ⟨rfl, d, hy', rfl⟩
            · exact fun x hx => List.mem_append_left _ hx
            · intro d' hd'
              rw [hyb] at hd'
              cases hd'
              exact ⟨_, List.mem_append_right _ (List.mem_singleton.mpr rfl), rfl, rfl⟩
          | done =>
            have hy' : (simHandler env k.st e.pid e.time).2.2 = none := by rw [hy, hyb]
            rw [hy'] at hstep
            cases hstep
            refine ⟨?_, by rw [hc1]; exact hs', e, rfl, Or.inr ⟨hen, ⟨p, hpp, ha, het⟩, hc1⟩⟩
            apply common
            · exact hHfresh.1
            · exact hHnd
            · exact fun x hx => Or.inl hx
            · exact fun x hx => hx
            · intro d' hd'; rw [hyb] at hd'; cases hd'
          | raised err =>
            have hy' : (simHandler env k.st e.pid e.time).2.2 = some 0 := by rw [hy, hyb]
            rw [hy'] at hstep
            cases hstep
            refine ⟨?_, by rw [hc1]; exact hs', e, rfl, Or.inr ⟨hen, ⟨p, hpp, ha, het⟩, hc1⟩⟩
            apply common
            · intro x hx
              rcases List.mem_append.mp hx with hx | hx
              · have := hHfresh.1 x hx; omega
              · simp only [List.mem_singleton] at hx; subst hx; simp
            · rw [List.map_append, List.nodup_append]
              refine ⟨hHnd, by simp, ?_⟩
              intro a ha' b hb hab
              simp only [List.map_cons, List.map_nil, List.mem_singleton] at hb
              subst hb; subst hab
              exact hnotH ha'
            · intro x hx
              rcases List.mem_append.mp hx with hx | hx
              · exact Or.inl hx
              · simp only [List.mem_singleton] at hx; subst hx
                exact Or.inr ⟨rfl, 0, hy', rfl⟩
            · exact fun x hx => List.mem_append_left _ hx
            · intro d' hd'; rw [hyb] at hd'; cases hd'

end Topsim
