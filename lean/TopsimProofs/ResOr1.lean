/-
  ResOr1 — C04, adversarial clause: a user-defined scheduling algorithm (`alg = .oracle`) that
  reserves machines itself.  The side condition on the oracle's inputs (`ResOrOk`), the restricted
  reachability relation `ReachResv`, and what the oracle's own cluster calls do to the
  reservation invariant at cluster level.
-/
import TopsimProofs.FinishRes11

namespace Topsim
namespace Sys

open Cluster

/-! ### the side condition -/

/-- What the user algorithm may do in one `allocate_tasks` block (process `pid`, scheduling the
workflow of observation `oid`):
* its own cluster calls (`orc.pre`) are `provision_batch_resources(size, o)` under the name of an
  observation `o` whose workflow is being scheduled at that moment (`o ∈ s.queue`: the
  scheduler's `observation_queue`; the block's own observation `oid` is one of them), or
  `release_batch_resources(o)` for any `o`;
* every task it proposes (on ANY machine: busy, ingesting, reserved for somebody else, unknown)
  is a task of the workflow it has been asked to schedule that has not been scheduled yet.
Blocks of other processes do not read `orc.pre` / `orc.proposals`: nothing is asked of them. -/
def ResOrOk (s : Sys) (pid : Nat) (orc : Oracle) : Prop :=
  ∀ p, s.proc? pid = some p → ∀ oid sc pa po, p.k = .allocTasks oid sc pa po false →
    (∀ op ∈ orc.pre, (∃ size o, op = .provBatch size o ∧ o ∈ s.queue) ∨ ∃ o, op = .relBatch o) ∧
    (∀ pr ∈ orc.proposals, pr.1 ∈ planTasks s oid ∧ tstat s pr.1 = .unscheduled)

/-- the narrower form: reservations only under the name of the block's own observation -/
def ResOrOwn (s : Sys) (pid : Nat) (orc : Oracle) : Prop :=
  ∀ p, s.proc? pid = some p → ∀ oid sc pa po, p.k = .allocTasks oid sc pa po false →
    (∀ op ∈ orc.pre, ∃ size, op = .provBatch size oid) ∧
    (∀ pr ∈ orc.proposals, pr.1 ∈ planTasks s oid ∧ tstat s pr.1 = .unscheduled)

/-- `Reach` with the side condition `ResOrOk` on the oracle inputs of every block run while the
algorithm is the oracle (in the style of `ReachOk`) -/
inductive ReachResv (s0 : Sys) : Sys → Prop
  | start : ReachResv s0 s0.start
  | step (s : Sys) (pid : Nat) (orc : Oracle) :
      ReachResv s0 s → s.enabled pid → (s.alg = .oracle → ResOrOk s pid orc) →
      ReachResv s0 (s.resume pid orc).1

inductive ReachResvOwn (s0 : Sys) : Sys → Prop
  | start : ReachResvOwn s0 s0.start
  | step (s : Sys) (pid : Nat) (orc : Oracle) :
      ReachResvOwn s0 s → s.enabled pid → (s.alg = .oracle → ResOrOwn s pid orc) →
      ReachResvOwn s0 (s.resume pid orc).1

theorem ReachResv.toReach {s0 s : Sys} (h : ReachResv s0 s) : Reach s0 s := by
  induction h with
  | start => exact Reach.start
  | step s pid orc _ hen _ ih => exact Reach.step s pid orc ih hen

/-! ### a block that is not a running `allocate_tasks` does not read `orc.pre` -/

theorem resOr_block_pre (s : Sys) (p : Proc) (orc : Oracle)
    (h : ∀ oid sc pa po, p.k ≠ .allocTasks oid sc pa po false) :
    s.block p orc = s.block p { orc with pre := [] } := by
  unfold block
  split
  all_goals first
    | rfl
    | (rename_i o sc pa po fn hk
       cases fn with
       | true => rw [allocTasksBlock_fin, allocTasksBlock_fin]
       | false => exact absurd hk (h o sc pa po))

theorem resOr_resume_pre (s : Sys) (pid : Nat) (orc : Oracle)
    (h : ∀ p, s.proc? pid = some p → ∀ oid sc pa po, p.k ≠ .allocTasks oid sc pa po false) :
    s.resume pid orc = s.resume pid { orc with pre := [] } := by
  unfold resume
  cases hp : s.proc? pid with
  | none => rfl
  | some p =>
    simp only
    rw [resOr_block_pre s p orc (h p hp)]

theorem resOrOk_preOk {s : Sys} {pid : Nat} {orc : Oracle} (h : ResOrOk s pid orc) {p : Proc}
    (hp : s.proc? pid = some p) {oid : Oid} {sc pa : List (Tid × Mid)} {po : List Tid}
    (hk : p.k = .allocTasks oid sc pa po false) : orc.preOk := by
  intro op hop
  rcases (h p hp oid sc pa po hk).1 op hop with ⟨n, o, rfl, _⟩ | ⟨o, rfl⟩ <;> trivial

theorem ReachResv.toOk {s0 s : Sys} (h : ReachResv s0 s) : ReachOk s0 s := by
  induction h with
  | start => exact ReachOk.start
  | step s pid orc _ hen hok ih =>
    by_cases hat : ∃ p oid sc pa po, s.proc? pid = some p ∧ p.k = .allocTasks oid sc pa po false
    · obtain ⟨p, oid, sc, pa, po, hp, hk⟩ := hat
      exact ReachOk.step s pid orc ih hen (fun ha => resOrOk_preOk (hok ha) hp hk)
    · have hno : ∀ p, s.proc? pid = some p → ∀ oid sc pa po, p.k ≠ .allocTasks oid sc pa po false :=
        fun p hp oid sc pa po hk => hat ⟨p, oid, sc, pa, po, hp, hk⟩
      rw [resOr_resume_pre s pid orc hno]
      exact ReachOk.step s pid _ ih hen (fun _ op hop => by simp at hop)

/-! ### the oracle's own cluster calls, at cluster level -/

/-- what the reservation invariant `RI` needs of the cluster, relative to the set `Q` of
observations being scheduled and to the cluster `c0` before the calls -/
structure ResOrCl (Q : List Oid) (c0 c : Cluster) : Prop where
  keyNE : KeyNE c
  runOn : c.runOn = c0.runOn
  keys : ∀ x ∈ dictKeys c.idle, x ∈ Q

theorem resOr_op {Q : List Oid} {c0 c : Cluster} {U : List Tid} (h : ResOrCl Q c0 c) (hinv : Inv c U)
    (op : ClOp) (hop : (∃ n o, op = .provBatch n o ∧ o ∈ Q) ∨ ∃ o, op = .relBatch o) :
    ResOrCl Q c0 (c.applyOp op).1 ∧ Inv (c.applyOp op).1 U := by
  rcases hop with ⟨n, o, rfl, ho⟩ | ⟨o, rfl⟩
  · show ResOrCl Q c0 (c.provisionBatch n o).1 ∧ Inv (c.provisionBatch n o).1 U
    have hok := provisionBatch_ok hinv n o
    refine ⟨?_, hok.1⟩
    cases he : (c.provisionBatch n o).2 with
    | none =>
      obtain ⟨a1, a2, a3⟩ := provisionBatch_key c n o h.keyNE he
      refine ⟨a1, a2.trans h.runOn, fun x hx => ?_⟩
      rcases a3 x hx with e | e
      · rw [e]; exact ho
      · exact h.keys x e
    | some e =>
      rw [hok.2.2 e he]; exact h
  · show ResOrCl Q c0 (c.releaseBatch o) ∧ Inv (c.releaseBatch o) U
    obtain ⟨a1, a2, a3, _⟩ := releaseBatch_key c o h.keyNE hinv.keys
    exact ⟨⟨a1, a2.trans h.runOn, fun x hx => h.keys x (a3 x hx)⟩, (releaseBatch_ok hinv o).1⟩

theorem resOr_ops {Q : List Oid} {c0 : Cluster} {U : List Tid} (ops : List ClOp)
    (hops : ∀ op ∈ ops, (∃ n o, op = .provBatch n o ∧ o ∈ Q) ∨ ∃ o, op = .relBatch o) (c : Cluster)
    (h : ResOrCl Q c0 c) (hinv : Inv c U) :
    ResOrCl Q c0 (ops.foldl (fun c op => (c.applyOp op).1) c) ∧
    Inv (ops.foldl (fun c op => (c.applyOp op).1) c) U := by
  induction ops generalizing c with
  | nil => exact ⟨h, hinv⟩
  | cons op rest ih =>
    simp only [List.foldl_cons]
    obtain ⟨h1, h2⟩ := resOr_op h hinv op (hops op (by simp))
    exact ih (fun op' h' => hops op' (List.mem_cons_of_mem _ h')) _ h1 h2

/-! ### the oracle's proposals: the new local schedule -/

theorem resOr_sched (props sc : List (Tid × Mid)) :
    (∀ k ∈ dictKeys (props.foldl (fun d p => dictSet d p.1 p.2) sc),
      k ∈ dictKeys sc ∨ ∃ p ∈ props, p.1 = k) ∧
    ((dictKeys sc).Nodup → (dictKeys (props.foldl (fun d p => dictSet d p.1 p.2) sc)).Nodup) := by
  induction props generalizing sc with
  | nil => exact ⟨fun k hk => Or.inl hk, fun h => h⟩
  | cons x r ih =>
    simp only [List.foldl_cons]
    obtain ⟨g1, g2⟩ := ih (dictSet sc x.1 x.2)
    refine ⟨fun k hk => ?_, fun h => g2 (dictKeys_nodup_dictSet _ _ _ h)⟩
    rcases g1 k hk with e | ⟨p, hp, e⟩
    · rcases mem_dictKeys_dictSet sc x.1 k x.2 e with e' | e'
      · exact Or.inr ⟨x, by simp, e'.symm⟩
      · exact Or.inl e'
    · exact Or.inr ⟨p, List.mem_cons_of_mem _ hp, e⟩

end Sys
end Topsim
