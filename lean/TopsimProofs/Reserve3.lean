/-
  Reserve3 — one block of `allocate_tasks` under BatchProcessing: which reservation calls it makes
  (`ResStep`), what its new local schedule holds and which allocation processes it creates.
-/
import TopsimProofs.Reserve2

namespace Topsim
namespace Sys

open Cluster

/-! ### `BatchProcessing.run` -/

/-- a `provision_batch_resources` call made by `_provision_resources`, that succeeded -/
def ProvOK (parts minPer : Nat) (split : Option (List (Oid × Nat × Nat))) (oid : Oid) (c c1 : Cluster) : Prop :=
  c.isProvisioned oid = false ∧ c.numProv < (parts : Int) ∧
    ∃ n, 1 ≤ n ∧ minPer ≤ n ∧ Alg.maxResourceProvision c parts split oid = .ok n ∧
      c.provisionBatch n oid = (c1, none)

/-- the reservation calls of one block of `allocate_tasks` for observation `oid`: at most one
provisioning (only for an observation without reservation), then zero, one or two releases, and
releases only when the plan has no task left (`empty`) -/
def ResStep (parts minPer : Nat) (split : Option (List (Oid × Nat × Nat))) (oid : Oid) (empty : Prop)
    (c c' : Cluster) : Prop :=
  ∃ c1, (c1 = c ∨ ProvOK parts minPer split oid c c1) ∧
    (c' = c1 ∨ (empty ∧ (c' = c1.releaseBatch oid ∨ c' = (c1.releaseBatch oid).releaseBatch oid)))

theorem batchRun_cl (cl : Cluster) (plan : Plan) (view : Tid → TaskView) (parts minPer : Nat)
    (split : Option (List (Oid × Nat × Nat))) (sc : List (Tid × Mid)) (po : List Tid) (out : AlgOut)
    (h : Alg.batchRun cl plan view parts minPer split sc po = .ok out) :
    ∃ cl1 b, Alg.provisionResources cl parts minPer split plan.obs = .ok (cl1, b) ∧
      out.cl = (if plan.tasks.length = 0 then cl1.releaseBatch plan.obs else cl1) ∧
      out.status = Alg.finishStatus plan plan.status ∧ (plan.tasks = [] → out.schedule = sc) := by
  unfold Alg.batchRun at h
  split at h
  · exact absurd h (by simp)
  · rename_i cl1 b hpr
    injection h with h
    subst h
    refine ⟨cl1, b, hpr, rfl, rfl, ?_⟩
    intro he
    simp only [he, List.filter_nil, List.foldl_nil]
    split <;> rfl

/-- the cluster and the schedule that `BatchProcessing.run` returns -/
theorem batchRun_resStep (cl : Cluster) (plan : Plan) (view : Tid → TaskView) (parts minPer : Nat)
    (split : Option (List (Oid × Nat × Nat))) (sc : List (Tid × Mid)) (po : List Tid) (out : AlgOut)
    (h : Alg.batchRun cl plan view parts minPer split sc po = .ok out) :
    ∃ c1, (c1 = cl ∨ ProvOK parts minPer split plan.obs cl c1) ∧
      ((plan.tasks ≠ [] ∧ out.cl = c1) ∨ (plan.tasks = [] ∧ out.cl = c1.releaseBatch plan.obs)) ∧
      out.status = Alg.finishStatus plan plan.status ∧
      ∀ x ∈ out.schedule, x ∈ sc ∨ (plan.tasks ≠ [] ∧ x.2 ∈ c1.idleOf (some plan.obs)) := by
  obtain ⟨cl1, b, hpr, hcl, hst, hsch⟩ := batchRun_cl cl plan view parts minPer split sc po out h
  refine ⟨cl1, ?_, ?_, hst, ?_⟩
  · rcases provisionResources_cases _ _ _ _ _ _ _ hpr with e | ⟨a1, a2, _, n, a0, a3, a4, a5⟩
    · exact Or.inl e
    · exact Or.inr ⟨a1, a2, n, a0, a3, a4, a5⟩
  · by_cases he : plan.tasks = []
    · right; refine ⟨he, ?_⟩; rw [hcl]; simp [he]
    · left; refine ⟨he, ?_⟩
      rw [hcl]
      have : ¬ plan.tasks.length = 0 := fun e => he (List.length_eq_zero_iff.mp e)
      simp [this]
  · intro x hx
    by_cases hin : x ∈ sc
    · exact Or.inl hin
    · right
      have hne : plan.tasks ≠ [] := by
        intro he; rw [hsch he] at hx; exact hin hx
      obtain ⟨cl1', hpr', hm⟩ := batch_only_reserved cl plan view parts minPer split sc po out h x hx hin
      rw [hpr] at hpr'
      injection hpr' with e
      injection e with e _
      subst e
      exact ⟨hne, hm⟩

/-! ### `_process_current_schedule`: the processes it creates, with their machines -/

structure PCB (a : Sys) (sched0 : List (Tid × Mid)) (oid : Oid) (st : PcsSt) : Prop where
  sub : ∀ x ∈ st.schedule, x ∈ sched0
  cl : st.s.cl = a.cl
  procs : ∀ q ∈ st.s.procs, q ∈ a.procs ∨
    ∃ t m cross, q.k = .allocTask t m cross (some oid) false 0 ∧ (t, m) ∈ sched0 ∧
      q.alive = true ∧ q.pc = 0

theorem PCB.step {a : Sys} {sched0 : List (Tid × Mid)} {oid : Oid} {st : PcsSt} (h : PCB a sched0 oid st)
    (now : Time) (t : Tid) : PCB a sched0 oid (processOne now oid st t) := by
  have hcl := processOne_cl now oid st t
  rcases processOne_cases2 now oid st t with ⟨s1, hua, hs, hsc⟩ | ⟨s1, m, r, hua, hm, _, _, hs, hsc⟩
  · refine ⟨by rw [hsc]; exact h.sub, hcl.trans h.cl, ?_⟩
    intro q hq
    rw [hs, hua.procs.1] at hq
    exact h.procs q hq
  · refine ⟨?_, hcl.trans h.cl, ?_⟩
    · rw [hsc]; exact fun x hx => h.sub x (mem_of_mem_dictErase _ _ _ hx)
    · intro q hq
      have hq' : q ∈ s1.procs ++
          [({ pid := s1.nextPid, wake := now,
              k := .allocTask t m (crossPreds (dictSet st.pairs t m) r.preds m) (some oid) false 0 } : Proc)] := by
        rw [hs] at hq; exact hq
      rcases List.mem_append.mp hq' with h1 | h1
      · rw [hua.procs.1] at h1; exact h.procs q h1
      · simp only [List.mem_singleton] at h1
        subst h1
        exact Or.inr ⟨t, m, _, rfl, h.sub _ (dictGet_some_mem hm), rfl, rfl⟩

theorem processCurrentSchedule_pcb (a : Sys) (now : Time) (oid : Oid) (sched0 pairs : List (Tid × Mid)) :
    PCB a sched0 oid (processCurrentSchedule a now oid sched0 pairs) := by
  unfold processCurrentSchedule
  simp only
  generalize ((dictKeys sched0).mergeSort _) = l
  have : ∀ (l : List Tid) (st : PcsSt), PCB a sched0 oid st → PCB a sched0 oid (l.foldl (processOne now oid) st) := by
    intro l
    induction l with
    | nil => intro st h; exact h
    | cons x r ih => intro st h; exact ih _ (h.step now x)
  exact this l _ ⟨fun x hx => hx, rfl, fun q hq => Or.inl hq⟩

/-! ### one iteration of `allocate_tasks` -/

theorem runAlgorithm_batch {s1 : Sys} {parts minPer : Nat} {split : Option (List (Oid × Nat × Nat))}
    (halg : s1.alg = .batch parts minPer split) (orc : Oracle) (plan : Plan)
    (sc : List (Tid × Mid)) (po : List Tid) :
    s1.runAlgorithm orc plan sc po = Alg.batchRun s1.cl plan s1.taskView parts minPer split sc po := by
  unfold runAlgorithm; rw [halg]

/-- one iteration of `allocate_tasks` for observation `oid` under BatchProcessing.  `hpf`: a plan
whose status is FINISHED has no task left (part of the reservation invariant `RI`). -/
theorem allocTasksIter_batch {a : Sys} {parts minPer : Nat} {split : Option (List (Oid × Nat × Nat))}
    (halg : a.alg = .batch parts minPer split) (now : Time) (orc : Oracle) (oid : Oid)
    (sc pa : List (Tid × Mid)) (po : List Tid)
    (hpf : ∀ pl ∈ (a.updateCurrentPlan oid).plans, pl.status = .finished → pl.tasks = []) :
    ∃ sc' pa' po' fn', (a.allocTasksIter now orc oid sc pa po).2.1 = .allocTasks oid sc' pa' po' fn' ∧
      ResStep parts minPer split oid (planTasks (a.updateCurrentPlan oid) oid = []) a.cl
        (a.allocTasksIter now orc oid sc pa po).1.cl ∧
      (∀ x ∈ sc', x ∈ sc ∨ (planTasks (a.updateCurrentPlan oid) oid ≠ [] ∧
        x.2 ∈ (a.allocTasksIter now orc oid sc pa po).1.cl.idleOf (some oid))) ∧
      ∀ q ∈ (a.allocTasksIter now orc oid sc pa po).1.procs, q ∈ a.procs ∨
        ∃ t m cross, q.k = .allocTask t m cross (some oid) false 0 ∧ q.alive = true ∧ q.pc = 0 ∧
          ((t, m) ∈ sc ∨ (planTasks (a.updateCurrentPlan oid) oid ≠ [] ∧
            m ∈ (a.allocTasksIter now orc oid sc pa po).1.cl.idleOf (some oid))) := by
  have hc1 := updateCurrentPlan_core a oid
  have ha1 : (a.updateCurrentPlan oid).alg = .batch parts minPer split := by
    rw [updateCurrentPlan_alg]; exact halg
  have hp1 : (a.updateCurrentPlan oid).procs = a.procs := hc1.procs
  have hout := allocTasksIter_out a now orc oid sc pa po
  generalize a.allocTasksIter now orc oid sc pa po = r at hout ⊢
  have hnil : ∀ (sch : List (Tid × Mid)) (P : Tid × Mid → Prop), sch.isEmpty = true → ∀ x ∈ sch, P x := by
    intro sch P he x hx
    have : sch = [] := by simpa using he
    rw [this] at hx; simp at hx
  -- what the algorithm returns
  have h3 : ∀ plan out, (a.updateCurrentPlan oid).plan? oid = some plan →
      (a.updateCurrentPlan oid).runAlgorithm orc plan sc po = .ok out →
      planTasks (a.updateCurrentPlan oid) oid = plan.tasks ∧ plan.obs = oid ∧
      (out.status = .finished → plan.tasks = []) ∧
      ∃ c1, (c1 = a.cl ∨ ProvOK parts minPer split oid a.cl c1) ∧
        ((plan.tasks ≠ [] ∧ out.cl = c1) ∨ (plan.tasks = [] ∧ out.cl = c1.releaseBatch oid)) ∧
        ∀ x ∈ out.schedule, x ∈ sc ∨ (plan.tasks ≠ [] ∧ x.2 ∈ c1.idleOf (some oid)) := by
    intro plan out hplan hrun
    rw [runAlgorithm_batch ha1] at hrun
    obtain ⟨hplm, hobs⟩ := plan?_mem hplan
    obtain ⟨c1, g1, g2, g3, g4⟩ := batchRun_resStep _ _ _ _ _ _ _ _ _ hrun
    rw [hobs, hc1.cl] at g1
    rw [hobs] at g2 g4
    refine ⟨by unfold planTasks; rw [hplan], hobs, ?_, c1, g1, g2, g4⟩
    intro hf
    rw [g3] at hf
    unfold Alg.finishStatus at hf
    split at hf
    · rename_i h0; exact List.length_eq_zero_iff.mp h0
    · exact hpf plan hplm hf
  cases hout with
  | noPlan _ =>
    exact ⟨sc, pa, po, false, rfl, ⟨a.cl, Or.inl rfl, Or.inl hc1.cl⟩, fun x hx => Or.inl hx,
      fun q hq => Or.inl (by rw [← hp1]; exact hq)⟩
  | algErr _ _ _ _ =>
    exact ⟨sc, pa, po, false, rfl, ⟨a.cl, Or.inl rfl, Or.inl hc1.cl⟩, fun x hx => Or.inl hx,
      fun q hq => Or.inl (by rw [← hp1]; exact hq)⟩
  | finish plan out hplan hrun hemp hfin _ _ =>
    obtain ⟨hpt, _, hft, c1, g1, g2, _⟩ := h3 plan out hplan hrun
    have he := hft hfin
    refine ⟨out.schedule, pa, out.pool, true, rfl, ⟨c1, g1, Or.inr ⟨by rw [hpt]; exact he, Or.inr ?_⟩⟩,
      hnil _ _ hemp, fun q hq => Or.inl ?_⟩
    · show ((atS3 (a.updateCurrentPlan oid) out oid).cl.releaseBatch oid) = _
      rw [atS3_cl]
      rcases g2 with ⟨hne, _⟩ | ⟨_, e⟩
      · exact absurd he hne
      · rw [e]
    · have : q ∈ (atS3 (a.updateCurrentPlan oid) out oid).procs := hq
      rw [atS3_procs, hp1] at this; exact this
  | finishBad plan out hplan hrun hemp hfin _ _ =>
    obtain ⟨hpt, _, hft, c1, g1, g2, _⟩ := h3 plan out hplan hrun
    have he := hft hfin
    refine ⟨out.schedule, pa, out.pool, false, rfl, ⟨c1, g1, Or.inr ⟨by rw [hpt]; exact he, Or.inr ?_⟩⟩,
      hnil _ _ hemp, fun q hq => Or.inl ?_⟩
    · show ((atS3 (a.updateCurrentPlan oid) out oid).cl.releaseBatch oid) = _
      rw [atS3_cl]
      rcases g2 with ⟨hne, _⟩ | ⟨_, e⟩
      · exact absurd he hne
      · rw [e]
    · have : q ∈ (atS3 (a.updateCurrentPlan oid) out oid).procs := hq
      rw [atS3_procs, hp1] at this; exact this
  | finishWait plan out hplan hrun hemp hfin _ =>
    obtain ⟨hpt, _, hft, c1, g1, g2, _⟩ := h3 plan out hplan hrun
    have he := hft hfin
    refine ⟨out.schedule, pa, out.pool, false, rfl, ⟨c1, g1, Or.inr ⟨by rw [hpt]; exact he, Or.inl ?_⟩⟩,
      hnil _ _ hemp, fun q hq => Or.inl ?_⟩
    · show (atS3 (a.updateCurrentPlan oid) out oid).cl = _
      rw [atS3_cl]
      rcases g2 with ⟨hne, _⟩ | ⟨_, e⟩
      · exact absurd he hne
      · exact e
    · have : q ∈ (atS3 (a.updateCurrentPlan oid) out oid).procs := hq
      rw [atS3_procs, hp1] at this; exact this
  | idle plan out hplan hrun hemp _ =>
    obtain ⟨hpt, _, _, c1, g1, g2, _⟩ := h3 plan out hplan hrun
    refine ⟨out.schedule, pa, out.pool, false, rfl, ⟨c1, g1, ?_⟩, hnil _ _ hemp,
      fun q hq => Or.inl (by rw [atS3_procs, hp1] at hq; exact hq)⟩
    rw [atS3_cl]
    rcases g2 with ⟨_, e⟩ | ⟨he, e⟩
    · exact Or.inl e
    · exact Or.inr ⟨by rw [hpt]; exact he, Or.inl e⟩
  | alloc plan out y hplan hrun hemp _ =>
    obtain ⟨hpt, _, _, c1, g1, g2, g4⟩ := h3 plan out hplan hrun
    have hpcb := processCurrentSchedule_pcb (atS3 (a.updateCurrentPlan oid) out oid) now oid out.schedule pa
    have hXcl : (processCurrentSchedule (atS3 (a.updateCurrentPlan oid) out oid) now oid out.schedule pa).s.cl
        = out.cl := by rw [hpcb.cl, atS3_cl]
    -- an entry of the algorithm's schedule: old, or a machine idle for `oid` in the final cluster
    have hent : ∀ x ∈ out.schedule, x ∈ sc ∨ (planTasks (a.updateCurrentPlan oid) oid ≠ [] ∧
        x.2 ∈ (processCurrentSchedule (atS3 (a.updateCurrentPlan oid) out oid) now oid out.schedule pa).s.cl.idleOf
          (some oid)) := by
      intro x hx
      rcases g4 x hx with h1 | ⟨hne, hm⟩
      · exact Or.inl h1
      · right
        refine ⟨by rw [hpt]; exact hne, ?_⟩
        rw [hXcl]
        rcases g2 with ⟨_, e⟩ | ⟨he, _⟩
        · rw [e]; exact hm
        · exact absurd he hne
    refine ⟨_, _, out.pool, false, rfl, ⟨c1, g1, ?_⟩, fun x hx => hent x (hpcb.sub x hx), fun q hq => ?_⟩
    · rw [hXcl]
      rcases g2 with ⟨_, e⟩ | ⟨he, e⟩
      · exact Or.inl e
      · exact Or.inr ⟨by rw [hpt]; exact he, Or.inl e⟩
    · rcases hpcb.procs q hq with h2 | ⟨t, m, cross, hk, hmem, hal, hpc⟩
      · rw [atS3_procs, hp1] at h2; exact Or.inl h2
      · exact Or.inr ⟨t, m, cross, hk, hal, hpc, hent (t, m) hmem⟩

end Sys
end Topsim
