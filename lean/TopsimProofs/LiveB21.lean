/-
  LiveB21 — BatchProcessing never leaves a proposal behind: the machines `BatchProcessing.run` proposes
  are pairwise different idle machines of the reservation (`FFD`, `lb_batchRun_fresh`), so
  `_process_current_schedule`, when it does not raise, hands EVERY proposal to an allocation process
  and returns an empty schedule (`lb_pcs_nil`).
-/
import TopsimProofs.Live17f
import TopsimProofs.Live15c
import TopsimProofs.LiveB2

namespace Topsim
namespace Sys

open Cluster

theorem lb_dictSet_fresh {κ α} [DecidableEq κ] (d : List (κ × α)) (k : κ) (v : α)
    (h : dictGet d k = none) : dictSet d k v = d ++ [(k, v)] := by
  induction d with
  | nil => rfl
  | cons p r ih =>
    obtain ⟨k', v'⟩ := p
    by_cases e : k' = k
    · simp [dictGet, e] at h
    · simp only [dictGet, e, if_false] at h
      simp [dictSet, e, ih h]

/-- the machines proposed so far and the machines still in hand are pairwise different -/
def FFD (st : Alg.LoopSt) : Prop := (st.alloc.map (·.2) ++ st.temp).Nodup

theorem lb_firstFreeStep_ffd (cl : Cluster) (plan : Plan) (view : Tid → TaskView) (n : Nat)
    (st : Alg.LoopSt) (t : Tid) (h : FFD st) : FFD (Alg.firstFreeStep cl plan view n st t) := by
  unfold Alg.firstFreeStep
  split
  · exact h
  split
  · exact h
  split
  · rename_i hc
    split
    · split
      · exact h
      · rename_i m rest htemp
        split
        · have hno : dictGet st.alloc t = none := by
            have := hc.2
            simp only [Alg.schedHas, dictHas, Bool.not_eq_true', Option.isSome_eq_false_iff,
              Option.isNone_iff_eq_none] at this
            exact this
          unfold FFD at h ⊢
          simp only
          rw [lb_dictSet_fresh _ _ _ hno, List.map_append]
          rw [htemp] at h
          simpa [List.append_assoc] using h
        · exact h
    · exact h
  · exact h

theorem lb_ffd_fold (cl : Cluster) (plan : Plan) (view : Tid → TaskView) (n : Nat) (l : List Tid)
    (st : Alg.LoopSt) (h : FFD st) : FFD (l.foldl (Alg.firstFreeStep cl plan view n) st) :=
  foldl_inv _ FFD (fun s a hs => lb_firstFreeStep_ffd cl plan view n s a hs) l st h

/-- with no leftover schedule, `BatchProcessing.run` proposes pairwise different machines, each idle in
the reservation of the observation after provisioning; and it releases only with an empty plan, when it
proposes nothing -/
theorem lb_batchRun_fresh (cl : Cluster) (plan : Plan) (view : Tid → TaskView) (parts minPer : Nat)
    (split : Option (List (Oid × Nat × Nat))) (po : List Tid) (out : AlgOut)
    (h : Alg.batchRun cl plan view parts minPer split [] po = .ok out)
    (hidleNd : ∀ cl1 b, Alg.provisionResources cl parts minPer split plan.obs = .ok (cl1, b) →
      (cl1.idleOf (some plan.obs)).Nodup) :
    (out.schedule.map (·.2)).Nodup ∧
    ∃ cl1 b, Alg.provisionResources cl parts minPer split plan.obs = .ok (cl1, b) ∧
      (∀ x ∈ out.schedule, x.2 ∈ cl1.idleOf (some plan.obs)) ∧
      (out.schedule ≠ [] → out.cl = cl1) := by
  obtain ⟨cl1, b, hpr, hall⟩ := batch_core cl plan view parts minPer split [] po out h
  refine ⟨?_, cl1, b, hpr, fun x hx => (hall x hx (by simp)).2.2, ?_⟩
  · unfold Alg.batchRun at h
    rw [hpr] at h
    simp only at h
    injection h with h
    subst h
    simp only
    cases b with
    | false => simp
    | true =>
      simp only [if_true]
      have := lb_ffd_fold cl1 plan view (cl1.idleOf (some plan.obs)).length
        (plan.tasks.filter (fun t => (Alg.seedPool plan po).contains t))
        { alloc := [], temp := cl1.idleOf (some plan.obs), removed := [], added := [], status := plan.status }
        (by unfold FFD; simpa using hidleNd cl1 true hpr)
      unfold FFD at this
      exact (List.nodup_append.mp this).1
  · intro hne
    unfold Alg.batchRun at h
    rw [hpr] at h
    simp only at h
    injection h with h
    subst h
    simp only at hne ⊢
    split
    · rename_i h0
      exfalso
      apply hne
      have hnil : plan.tasks = [] := List.length_eq_zero_iff.mp h0
      cases b <;> simp [hnil]
    · rfl

/-! ### `_process_current_schedule` hands every proposal over -/

/-- the loop body on a key whose machine is neither taken in this loop nor occupied: no error means the
task is handed to an allocation process, its key leaves the schedule and its machine enters `curr` -/
theorem lb_processOne_go (now : Time) (oid : Oid) (st : PcsSt) (x : Tid) (m : Mid)
    (hm : dictGet st.schedule x = some m) (hnc : st.curr.contains m = false)
    (hno : st.s.cl.isOccupied m = false) (herr : (processOne now oid st x).err = none) :
    (processOne now oid st x).schedule = dictErase st.schedule x ∧
    (processOne now oid st x).curr = st.curr ++ [m] := by
  have he0 := l7_processOne_err now oid st x herr
  unfold processOne at herr ⊢
  simp only [he0, hm] at herr ⊢
  cases hr : st.s.task? x with
  | none => simp only [hr] at herr; cases herr
  | some r =>
    simp only [hr] at herr ⊢
    cases hmm : st.s.machine? m with
    | none => simp only [hmm] at herr; cases herr
    | some mm =>
      simp only [hmm] at herr ⊢
      by_cases hz : ((r.allocObj || r.planned != some m) = true ∧ (mm.cpu = 0 ∨ mm.bw = 0))
      · rw [if_pos hz] at herr; cases herr
      · rw [if_neg hz] at herr ⊢
        generalize hs1 : (if (r.allocObj || r.planned != some m) = true then
          st.s.updTask x (fun r => updateAllocation r mm) else st.s) = s1 at herr ⊢
        have hcl : s1.cl = st.s.cl := by subst hs1; split <;> rfl
        have hnocc : ¬ (st.curr.contains m = true ∨ s1.cl.isOccupied m = true) := by
          rw [hnc, hcl, hno]
          simp
        rw [if_neg hnocc] at herr ⊢
        by_cases hmiss : (r.preds.any fun p => !dictHas (dictSet st.pairs x m) p) = true
        · rw [if_pos hmiss] at herr; cases herr
        · rw [if_neg hmiss] at herr ⊢
          by_cases hst : r.status ≠ TStatus.unscheduled
          · rw [if_pos hst] at herr; cases herr
          · rw [if_neg hst]
            exact ⟨rfl, rfl⟩

/-- two keys of a dictionary with pairwise different values and the same value are the same key -/
theorem lb_key_of_value {κ α : Type} [DecidableEq κ] {d : List (κ × α)} (hv : (d.map (·.2)).Nodup) {k k' : κ} {v : α}
    (h : dictGet d k = some v) (h' : dictGet d k' = some v) : k = k' := by
  have m1 := dictGet_some_mem h
  have m2 := dictGet_some_mem h'
  have := KState.nodup_map_inj (fun p : κ × α => p.2) d hv (k, v) (k', v) m1 m2 rfl
  exact congrArg Prod.fst this

/-- what the loop has done, with `rem` the keys still to be visited -/
structure PcsNil (a : Sys) (sched0 : List (Tid × Mid)) (rem : List Tid) (st : PcsSt) : Prop where
  cl : st.s.cl = a.cl
  nd : (dictKeys st.schedule).Nodup
  keys : ∀ k ∈ dictKeys st.schedule, k ∈ rem
  same : ∀ t ∈ rem, dictGet st.schedule t = dictGet sched0 t
  curr : ∀ m ∈ st.curr, ∃ t, t ∉ rem ∧ dictGet sched0 t = some m

theorem lb_pcs_fold_nil (a : Sys) (now : Time) (oid : Oid) (sched0 : List (Tid × Mid))
    (hvals : (sched0.map (·.2)).Nodup) (hfree : ∀ x ∈ sched0, a.cl.isOccupied x.2 = false) :
    ∀ (l : List Tid) (st : PcsSt), l.Nodup → (∀ t ∈ l, t ∈ dictKeys sched0) → PcsNil a sched0 l st →
      (l.foldl (processOne now oid) st).err = none → (l.foldl (processOne now oid) st).schedule = [] := by
  intro l
  induction l with
  | nil =>
    intro st _ _ h _
    have : dictKeys st.schedule = [] := by
      apply List.eq_nil_iff_forall_not_mem.mpr
      intro k hk
      have := h.keys k hk
      simp at this
    simpa [dictKeys] using this
  | cons x rest ih =>
    intro st hnd hsub h herr
    rw [List.nodup_cons] at hnd
    simp only [List.foldl_cons] at herr ⊢
    have herr1 := l7_fold_err now oid rest _ herr
    -- the entry of `x`
    obtain ⟨m, hm0⟩ : ∃ m, dictGet sched0 x = some m := by
      cases hg : dictGet sched0 x with
      | none => exact absurd (hsub x (by simp)) ((dictGet_none_iff sched0 x).mp hg)
      | some m => exact ⟨m, rfl⟩
    have hm : dictGet st.schedule x = some m := by rw [h.same x (by simp)]; exact hm0
    have hnc : st.curr.contains m = false := by
      cases hc : st.curr.contains m with
      | false => rfl
      | true =>
        exfalso
        have hmc : m ∈ st.curr := by simpa using hc
        obtain ⟨t, htn, htm⟩ := h.curr m hmc
        have := lb_key_of_value hvals htm hm0
        exact htn (by rw [this]; simp)
    have hno : st.s.cl.isOccupied m = false := by
      rw [h.cl]
      exact hfree (x, m) (dictGet_some_mem hm0)
    obtain ⟨g1, g2⟩ := lb_processOne_go now oid st x m hm hnc hno herr1
    apply ih _ hnd.2 (fun t ht => hsub t (List.mem_cons_of_mem _ ht)) ?_ herr
    have hsubl := dictKeys_dictErase_sublist st.schedule x
    refine ⟨(processOne_cl now oid st x).trans h.cl, by rw [g1]; exact hsubl.nodup h.nd, ?_, ?_, ?_⟩
    · intro k hk
      rw [g1] at hk
      have hk0 := h.keys k (hsubl.subset hk)
      rcases List.mem_cons.mp hk0 with e | e
      · exfalso
        subst e
        have := dictGet_dictErase_self st.schedule k h.nd
        exact (dictGet_none_iff _ _).mp this hk
      · exact e
    · intro t ht
      have hne : t ≠ x := fun e => hnd.1 (e ▸ ht)
      rw [g1, dictGet_dictErase_ne st.schedule x t hne]
      exact h.same t (List.mem_cons_of_mem _ ht)
    · intro m' hm'
      rw [g2] at hm'
      rcases List.mem_append.mp hm' with h1 | h1
      · obtain ⟨t, htn, htm⟩ := h.curr m' h1
        exact ⟨t, fun ht => htn (List.mem_cons_of_mem _ ht), htm⟩
      · simp only [List.mem_singleton] at h1
        subst h1
        exact ⟨x, hnd.1, hm0⟩

/-- **`_process_current_schedule` leaves nothing behind** when the proposals are for pairwise different
machines none of which is occupied, and no iteration raises. -/
theorem lb_pcs_nil (a : Sys) (now : Time) (oid : Oid) (sched0 pairs : List (Tid × Mid))
    (hnd : (dictKeys sched0).Nodup) (hvals : (sched0.map (·.2)).Nodup)
    (hfree : ∀ x ∈ sched0, a.cl.isOccupied x.2 = false)
    (herr : (processCurrentSchedule a now oid sched0 pairs).err = none) :
    (processCurrentSchedule a now oid sched0 pairs).schedule = [] := by
  unfold processCurrentSchedule at herr ⊢
  simp only at herr ⊢
  apply lb_pcs_fold_nil a now oid sched0 hvals hfree _ _ ?_ ?_ ?_ herr
  · exact (List.mergeSort_perm _ _).nodup_iff.mpr hnd
  · intro t ht
    exact List.mem_mergeSort.mp ht
  · refine ⟨rfl, hnd, ?_, fun _ _ => rfl, fun m hm => by simp at hm⟩
    intro k hk
    exact List.mem_mergeSort.mpr hk

end Sys
end Topsim
