/-
  Live7b — progress of `allocate_tasks` (part 2): what `QueueProcessing.run` does to the pool
  (`l7_queueRun`), its progress with a leftover schedule (`l7_queue_progress`), and what
  `_process_current_schedule` does to the keys of the schedule (`L7PQ`): a key that has left the
  schedule was handed to an allocation process; the first key is handed over when no machine is
  occupied.
-/
import TopsimProofs.Live7

namespace Topsim

open Sys

/-! ### association lists -/

theorem l7_keys_dictSet_self {κ α} [DecidableEq κ] (d : List (κ × α)) (k : κ) (v : α) :
    k ∈ dictKeys (dictSet d k v) := by
  by_cases hk : k ∈ dictKeys d
  · rw [dictKeys_dictSet_of_mem d k v hk]; exact hk
  · rw [dictKeys_dictSet_of_not_mem d k v hk]; simp

theorem l7_keys_dictSet_of_mem {κ α} [DecidableEq κ] (d : List (κ × α)) (k x : κ) (v : α)
    (h : x ∈ dictKeys d) : x ∈ dictKeys (dictSet d k v) := by
  by_cases hk : k ∈ dictKeys d
  · rw [dictKeys_dictSet_of_mem d k v hk]; exact h
  · rw [dictKeys_dictSet_of_not_mem d k v hk]; exact List.mem_append_left _ h

theorem l7_keys_dictErase_ne {κ α} [DecidableEq κ] (d : List (κ × α)) (k x : κ)
    (h : x ∈ dictKeys d) (hne : x ≠ k) : x ∈ dictKeys (dictErase d k) := by
  induction d with
  | nil => simp at h
  | cons p r ih =>
    obtain ⟨k', v'⟩ := p
    simp only [dictKeys_cons, List.mem_cons] at h
    by_cases hk : k' = k
    · simp only [dictErase, hk, if_true]
      rcases h with h | h
      · exact absurd (h.trans hk) hne
      · exact h
    · simp only [dictErase, hk, if_false, dictKeys_cons, List.mem_cons]
      rcases h with h | h
      · exact Or.inl h
      · exact Or.inr (ih h)

theorem l7_keys_ne_nil {κ α} {d : List (κ × α)} (h : d ≠ []) : dictKeys d ≠ [] := by
  cases d with
  | nil => exact absurd rfl h
  | cons a r => simp [dictKeys]

/-! ### the first-free loop and the pool -/

namespace Alg

/-- loop invariant: the leftover keys stay, every removed task is a key, the successors of every
removed task have been added, every key is a leftover key or a removed task -/
structure L7FF (plan : Plan) (sc : List (Tid × Mid)) (st : LoopSt) : Prop where
  old : ∀ k ∈ dictKeys sc, k ∈ dictKeys st.alloc
  rem : ∀ t ∈ st.removed, t ∈ dictKeys st.alloc
  add : ∀ t ∈ st.removed, ∀ x ∈ plan.succs t, x ∈ st.added
  new : ∀ k ∈ dictKeys st.alloc, k ∈ dictKeys sc ∨ k ∈ st.removed

theorem l7_ff_step (cl : Cluster) (plan : Plan) (view : Tid → TaskView) (n : Nat)
    (sc : List (Tid × Mid)) (st : LoopSt) (t : Tid) (h : L7FF plan sc st) :
    L7FF plan sc (firstFreeStep cl plan view n st t) := by
  unfold firstFreeStep
  split
  · exact h
  split
  · exact ⟨h.old, h.rem, h.add, h.new⟩
  split
  · split
    · split
      · exact h
      · split
        · constructor
          · intro k hk
            exact l7_keys_dictSet_of_mem _ _ _ _ (h.old k hk)
          · intro x hx
            rcases List.mem_append.mp hx with hx | hx
            · exact l7_keys_dictSet_of_mem _ _ _ _ (h.rem x hx)
            · simp only [List.mem_singleton] at hx
              subst hx
              exact l7_keys_dictSet_self _ _ _
          · intro x hx y hy
            rcases List.mem_append.mp hx with hx | hx
            · exact List.mem_append_left _ (h.add x hx y hy)
            · simp only [List.mem_singleton] at hx
              subst hx
              exact List.mem_append_right _ hy
          · intro k hk
            rcases mem_dictKeys_dictSet _ _ _ _ hk with e | e
            · exact Or.inr (List.mem_append_right _ (by simp [e]))
            · rcases h.new k e with h1 | h1
              · exact Or.inl h1
              · exact Or.inr (List.mem_append_left _ h1)
        · exact h
    · exact h
  · exact h

end Alg

/-- what `QueueProcessing.run` returns, with the two local sets of its loop -/
theorem l7_queueRun (cl : Cluster) (plan : Plan) (view : Tid → TaskView) (sc : List (Tid × Mid))
    (po : List Tid) (out : AlgOut) (h : Alg.queueRun cl plan view sc po = .ok out) :
    ∃ removed added : List Tid,
      (∀ k ∈ dictKeys sc, k ∈ dictKeys out.schedule) ∧
      (∀ t ∈ removed, t ∈ dictKeys out.schedule) ∧
      (∀ t ∈ removed, ∀ x ∈ plan.succs t, x ∈ added) ∧
      (∀ k ∈ dictKeys out.schedule, k ∈ dictKeys sc ∨ k ∈ removed) ∧
      (∀ t, t ∈ out.pool ↔ (t ∈ Alg.seedPool plan po ∧ t ∉ removed) ∨ t ∈ added) ∧
      out.status = Alg.finishStatus plan plan.status := by
  unfold Alg.queueRun at h
  injection h with h
  subst h
  have hinv := foldl_inv (Alg.firstFreeStep cl plan view cl.available.length) (Alg.L7FF plan sc)
    (fun s a hs => Alg.l7_ff_step cl plan view _ sc s a hs)
    (plan.tasks.filter (fun t => (Alg.seedPool plan po).contains t))
    { alloc := sc, temp := cl.available, removed := [], added := [], status := plan.status }
    ⟨fun k hk => hk, fun t ht => by simp at ht, fun t ht => by simp at ht, fun k hk => Or.inl hk⟩
  exact ⟨_, _, hinv.old, hinv.rem, hinv.add, hinv.new, fun t => Alg.mem_updatePool _ _ _ t, rfl⟩

/-- progress of `QueueProcessing.run`, whatever the leftover schedule -/
theorem l7_queue_progress (cl : Cluster) (plan : Plan) (view : Tid → TaskView) (sc : List (Tid × Mid))
    (po : List Tid) (out : AlgOut) (t : Tid) (ht : t ∈ plan.tasks) (hp : t ∈ Alg.seedPool plan po)
    (hu : (view t).status = .unscheduled) (hready : Alg.predsFinished cl plan t = true)
    (hav : cl.available ≠ []) (h : Alg.queueRun cl plan view sc po = .ok out) : out.schedule ≠ [] := by
  unfold Alg.queueRun at h
  injection h with h
  subst h
  have hlen : 1 ≤ cl.available.length := by
    cases hc : cl.available with
    | nil => exact absurd hc hav
    | cons a r => simp
  apply firstFree_fold_progress cl plan view cl.available.length t hlen hu hready
  · simp [List.mem_filter, ht, hp]
  · exact Or.inr ⟨rfl, hav⟩

/-- a leftover schedule alone makes the new schedule non-empty -/
theorem l7_queue_leftover (cl : Cluster) (plan : Plan) (view : Tid → TaskView) (sc : List (Tid × Mid))
    (po : List Tid) (out : AlgOut) (hsc : sc ≠ []) (h : Alg.queueRun cl plan view sc po = .ok out) :
    out.schedule ≠ [] := by
  obtain ⟨_, _, h1, _⟩ := l7_queueRun cl plan view sc po out h
  obtain ⟨x, hx⟩ := List.exists_mem_of_ne_nil _ (l7_keys_ne_nil hsc)
  intro e
  have := h1 x hx
  rw [e] at this
  simp at this

namespace Sys

/-! ### `_process_current_schedule` and the keys of the schedule -/

/-- what the loop has done so far to the keys of the schedule `sched0` it started from -/
structure L7PQ (sched0 : List (Tid × Mid)) (st : PcsSt) : Prop where
  nodup : (dictKeys st.schedule).Nodup
  sub : ∀ x ∈ dictKeys st.schedule, x ∈ dictKeys sched0
  left : ∀ x ∈ dictKeys sched0, x ∈ dictKeys st.schedule ∨ tstat st.s x = .scheduled

/-- the status of the tasks after the loop body has handed `t` to an allocation process -/
theorem l7_spawn_tstat {st : PcsSt} {t : Tid} {s1 : Sys} {r : TaskRec} (hua : UA st.s t s1)
    (hr : st.s.task? t = some r) (k : PK) (now : Time) (t' : Tid) :
    tstat ((s1.spawn k now).1.updTask t (fun r => { r with status := .scheduled })) t'
      = if t' = t then .scheduled else tstat st.s t' := by
  obtain ⟨r1, hr1⟩ := hua.task? hr
  by_cases e : t' = t
  · subst e
    rw [if_pos rfl]
    exact tstat_updTask_set _ _ (fun r : TaskRec => { r with status := .scheduled }) (fun _ => rfl) .scheduled
      (fun _ => rfl) (r := r1) hr1
  · rw [if_neg e, tstat_updTask_ne _ (fun r : TaskRec => { r with status := .scheduled }) (fun _ => rfl) e]
    exact (tstat_of_tasks rfl t').trans (hua.tstat t')

theorem L7PQ.step {sched0 : List (Tid × Mid)} {st : PcsSt} (h : L7PQ sched0 st) (now : Time) (oid : Oid)
    (t : Tid) : L7PQ sched0 (processOne now oid st t) := by
  rcases processOne_cases now oid st t with ⟨s1, hua, hs, hsc⟩ | ⟨s1, m, r, cross, hua, hm, hr, hst, hs, hsc⟩
  · refine ⟨by rw [hsc]; exact h.nodup, by rw [hsc]; exact h.sub, ?_⟩
    intro x hx
    rw [hsc, hs, hua.tstat]
    exact h.left x hx
  · have hsub := dictKeys_dictErase_sublist st.schedule t
    refine ⟨by rw [hsc]; exact hsub.nodup h.nodup, by rw [hsc]; exact fun x hx => h.sub x (hsub.subset hx), ?_⟩
    intro x hx
    rw [hsc, hs, l7_spawn_tstat hua hr]
    by_cases e : x = t
    · right; rw [if_pos e]
    · rw [if_neg e]
      rcases h.left x hx with h1 | h1
      · exact Or.inl (l7_keys_dictErase_ne _ _ _ h1 e)
      · exact Or.inr h1

theorem L7PQ.fold {sched0 : List (Tid × Mid)} (now : Time) (oid : Oid) (l : List Tid) :
    ∀ {st : PcsSt}, L7PQ sched0 st → L7PQ sched0 (l.foldl (processOne now oid) st) := by
  induction l with
  | nil => intro st h; exact h
  | cons x r ih => intro st h; exact ih (h.step now oid x)

theorem l7_pcs_pq (a : Sys) (now : Time) (oid : Oid) (sched0 pairs : List (Tid × Mid))
    (hnd : (dictKeys sched0).Nodup) : L7PQ sched0 (processCurrentSchedule a now oid sched0 pairs) := by
  unfold processCurrentSchedule
  simp only
  apply L7PQ.fold
  exact ⟨hnd, fun _ h => h, fun x hx => Or.inl hx⟩

/-! ### errors stay, the process table grows -/

theorem l7_processOne_err (now : Time) (oid : Oid) (st : PcsSt) (t : Tid)
    (h : (processOne now oid st t).err = none) : st.err = none := by
  cases he : st.err with
  | none => rfl
  | some e =>
    unfold processOne at h
    simp only [he] at h
    cases h

theorem l7_fold_err (now : Time) (oid : Oid) (l : List Tid) :
    ∀ (st : PcsSt), (l.foldl (processOne now oid) st).err = none → st.err = none := by
  induction l with
  | nil => intro st h; exact h
  | cons x r ih => intro st h; exact l7_processOne_err now oid st x (ih _ h)

theorem l7_fold_prefix (now : Time) (oid : Oid) (l : List Tid) :
    ∀ (st : PcsSt), st.s.procs <+: (l.foldl (processOne now oid) st).s.procs := by
  induction l with
  | nil => intro st; exact List.prefix_refl _
  | cons x r ih => intro st; exact (processOne_pres now oid st x).pre.trans (ih _)

/-- the loop body on a key of the schedule whose machine is free: no error means the task is
handed to a new allocation process -/
theorem l7_processOne_spawn (now : Time) (oid : Oid) (st : PcsSt) (t : Tid) (m : Mid)
    (hm : dictGet st.schedule t = some m) (hcurr : st.curr = [])
    (hocc : st.s.cl.occupied = [] ∧ st.s.cl.ingest = [])
    (herr : (processOne now oid st t).err = none) :
    ∃ cross, ({ pid := st.s.nextPid, k := .allocTask t m cross (some oid) false 0, wake := now } : Proc)
      ∈ (processOne now oid st t).s.procs := by
  have he0 := l7_processOne_err now oid st t herr
  unfold processOne at herr ⊢
  simp only [he0, hm] at herr ⊢
  cases hr : st.s.task? t with
  | none => simp only [hr] at herr; cases herr
  | some r =>
    simp only [hr] at herr ⊢
    cases hmm : st.s.machine? m with
    | none => simp only [hmm] at herr; cases herr
    | some mm =>
      simp only [hmm] at herr ⊢
      by_cases hz : ((r.allocObj || r.planned != some m) = true ∧ (mm.cpu = 0 ∨ mm.bw = 0))
      · rw [if_pos hz] at herr; cases herr
      · rw [if_neg hz] at herr ⊢
        generalize hs1 : (if (r.allocObj || r.planned != some m) = true then
          st.s.updTask t (fun r => updateAllocation r mm) else st.s) = s1 at herr ⊢
        have hcl : s1.cl = st.s.cl := by subst hs1; split <;> rfl
        have hnp : s1.nextPid = st.s.nextPid := by subst hs1; split <;> rfl
        have hnocc : ¬ (st.curr.contains m = true ∨ s1.cl.isOccupied m = true) := by
          rw [hcurr, hcl]
          unfold Cluster.isOccupied
          rw [hocc.1, hocc.2]
          simp
        rw [if_neg hnocc] at herr ⊢
        by_cases hmiss : (r.preds.any fun p => !dictHas (dictSet st.pairs t m) p) = true
        · rw [if_pos hmiss] at herr; cases herr
        · rw [if_neg hmiss] at herr ⊢
          by_cases hst : r.status ≠ TStatus.unscheduled
          · rw [if_pos hst] at herr; cases herr
          · rw [if_neg hst]
            refine ⟨crossPreds (dictSet st.pairs t m) r.preds m, ?_⟩
            show _ ∈ (s1.procs ++ [_])
            rw [hnp]
            exact List.mem_append_right _ (List.mem_singleton.mpr rfl)

/-- with no machine occupied and a non-empty schedule, a run of `_process_current_schedule` that
does not raise creates an allocation process -/
theorem l7_pcs_spawns (a : Sys) (now : Time) (oid : Oid) (sched0 pairs : List (Tid × Mid))
    (hne : sched0 ≠ []) (hocc : a.cl.occupied = [] ∧ a.cl.ingest = [])
    (herr : (processCurrentSchedule a now oid sched0 pairs).err = none) :
    ∃ q ∈ (processCurrentSchedule a now oid sched0 pairs).s.procs, q.pid = a.nextPid := by
  unfold processCurrentSchedule at herr ⊢
  simp only at herr ⊢
  generalize hl : (dictKeys sched0).mergeSort (fun x y => decide ((a.taskView x).est ≤ (a.taskView y).est)) = l
    at herr ⊢
  cases l with
  | nil =>
    exfalso
    have : (dictKeys sched0).length = 0 := by
      rw [← List.length_mergeSort (le := fun x y => decide ((a.taskView x).est ≤ (a.taskView y).est)), hl]; rfl
    exact l7_keys_ne_nil hne (List.length_eq_zero_iff.mp this)
  | cons t rest =>
    simp only [List.foldl_cons] at herr ⊢
    have htk : t ∈ dictKeys sched0 := by
      have : t ∈ (dictKeys sched0).mergeSort (fun x y => decide ((a.taskView x).est ≤ (a.taskView y).est)) := by
        rw [hl]; simp
      exact List.mem_mergeSort.mp this
    obtain ⟨m, hm⟩ : ∃ m, dictGet sched0 t = some m := by
      cases hg : dictGet sched0 t with
      | none => exact absurd htk ((dictGet_none_iff sched0 t).mp hg)
      | some m => exact ⟨m, rfl⟩
    have h1 := l7_fold_err now oid rest _ herr
    obtain ⟨cross, hq⟩ := l7_processOne_spawn now oid
      { s := a, schedule := sched0, pairs := pairs, curr := [] } t m hm rfl hocc h1
    exact ⟨_, (l7_fold_prefix now oid rest _).subset hq, rfl⟩

end Sys

end Topsim
