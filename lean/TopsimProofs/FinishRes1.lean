/-
  FinishRes1 — reservations at cluster level: a reserved key whose list is
  empty has a running (non-ingest) task of its observation.
-/
import TopsimProofs.FinishAT4

namespace Topsim
namespace Sys

open Cluster

/-- every reservation holds an idle machine or has a task of its observation running -/
def KeyNE (c : Cluster) : Prop :=
  ∀ o l, dictGet c.idle o = some l → l ≠ [] ∨ ∃ e ∈ c.runOn, e.obs = some o ∧ e.ing = false

theorem dictGet_dictErase_ne {κ α} [DecidableEq κ] (d : List (κ × α)) (k k' : κ) (h : k' ≠ k) :
    dictGet (dictErase d k) k' = dictGet d k' := by
  induction d with
  | nil => rfl
  | cons p r ih =>
    obtain ⟨k0, v0⟩ := p
    by_cases h0 : k0 = k
    · subst h0
      simp only [dictErase, if_true, dictGet]
      rw [if_neg (fun e => h e.symm)]
    · simp only [dictErase, h0, if_false, dictGet]
      split
      · rfl
      · exact ih

theorem dictGet_dictErase_self {κ α} [DecidableEq κ] (d : List (κ × α)) (k : κ)
    (hnd : (dictKeys d).Nodup) : dictGet (dictErase d k) k = none := by
  rw [dictGet_none_iff]
  exact not_mem_dictKeys_dictErase d k hnd

theorem dictKeys_dictSet_sub {κ α} [DecidableEq κ] (d : List (κ × α)) (k : κ) (v : α) (x : κ)
    (h : x ∈ dictKeys (dictSet d k v)) : x = k ∨ x ∈ dictKeys d :=
  mem_dictKeys_dictSet d k x v h

theorem mem_dictKeys_dictErase {κ α} [DecidableEq κ] (d : List (κ × α)) (k x : κ)
    (h : x ∈ dictKeys (dictErase d k)) : x ∈ dictKeys d :=
  (dictKeys_dictErase_sublist d k).subset h

/-! ### batch provisioning -/

theorem addIdleResource_key (c : Cluster) (o : Oid) (m : Mid) (h : KeyNE c)
    (hok : (c.addIdleResource o m).2 = none) :
    KeyNE (c.addIdleResource o m).1 ∧ (c.addIdleResource o m).1.runOn = c.runOn ∧
    ∀ x ∈ dictKeys (c.addIdleResource o m).1.idle, x = o ∨ x ∈ dictKeys c.idle := by
  unfold addIdleResource at hok ⊢
  by_cases ho : dictHas c.idle o = true
  · simp only [ho, if_true] at hok ⊢
    by_cases hm : m ∈ c.available
    · simp only [hm, if_true]
      refine ⟨?_, trivial, fun x hx => dictKeys_dictSet_sub _ _ _ _ hx⟩
      intro o' l hl
      simp only at hl
      rw [dictGet_dictSet] at hl
      by_cases e : o = o'
      · rw [if_pos e] at hl
        injection hl with hl
        left; rw [← hl]; simp
      · rw [if_neg e] at hl
        exact h o' l hl
    · simp [hm] at hok
  · simp only [ho, Bool.false_eq_true, if_false] at hok ⊢
    by_cases hm : m ∈ c.available
    · simp only [hm, if_true]
      refine ⟨?_, trivial, ?_⟩
      · intro o' l hl
        simp only at hl
        rw [dictGet_dictSet] at hl
        by_cases e : o = o'
        · rw [if_pos e] at hl
          injection hl with hl
          left; rw [← hl]; simp
        · rw [if_neg e, dictGet_append_new] at hl
          cases hg : dictGet c.idle o' with
          | none => rw [hg] at hl; simp [e] at hl
          | some l' =>
            rw [hg] at hl
            simp only [Option.some.injEq] at hl
            subst hl
            exact h o' l' hg
      · intro x hx
        rcases dictKeys_dictSet_sub _ _ _ _ hx with e | e
        · exact Or.inl e
        · simp only [dictKeys, List.map_append, List.map_cons, List.map_nil, List.mem_append,
            List.mem_singleton] at e
          rcases e with e | e
          · exact Or.inr e
          · exact Or.inl e
    · simp [hm] at hok

theorem addIdleAll_key (c : Cluster) (o : Oid) (ms : List Mid) (h : KeyNE c)
    (hok : (c.addIdleAll o ms).2 = none) :
    KeyNE (c.addIdleAll o ms).1 ∧ (c.addIdleAll o ms).1.runOn = c.runOn ∧
    ∀ x ∈ dictKeys (c.addIdleAll o ms).1.idle, x = o ∨ x ∈ dictKeys c.idle := by
  induction ms generalizing c with
  | nil => exact ⟨h, rfl, fun x hx => Or.inr hx⟩
  | cons m rest ih =>
    unfold addIdleAll at hok ⊢
    have h1 := addIdleResource_key c o m h
    generalize c.addIdleResource o m = r at h1 hok
    obtain ⟨c1, e1⟩ := r
    cases e1 with
    | some e => simp at hok
    | none =>
      simp only at hok ⊢
      obtain ⟨g1, g2, g3⟩ := h1 rfl
      obtain ⟨i1, i2, i3⟩ := ih c1 g1 hok
      refine ⟨i1, i2.trans g2, fun x hx => ?_⟩
      rcases i3 x hx with e | e
      · exact Or.inl e
      · exact g3 x e

theorem provisionBatch_key (c : Cluster) (n : Nat) (o : Oid) (h : KeyNE c)
    (hok : (c.provisionBatch n o).2 = none) :
    KeyNE (c.provisionBatch n o).1 ∧ (c.provisionBatch n o).1.runOn = c.runOn ∧
    ∀ x ∈ dictKeys (c.provisionBatch n o).1.idle, x = o ∨ x ∈ dictKeys c.idle := by
  unfold provisionBatch at hok ⊢
  simp only at hok ⊢
  generalize (if n > c.available.length ∧ c.available.length > 0 then c.available.length else n) = s' at hok ⊢
  by_cases hs : s' > c.available.length
  · simp [hs] at hok
  · simp only [hs, if_false] at hok ⊢
    have h1 := addIdleAll_key c o (c.available.take s') h
    generalize c.addIdleAll o (c.available.take s') = r at h1 hok
    obtain ⟨c1, e1⟩ := r
    cases e1 with
    | some e => simp at hok
    | none => exact h1 rfl

theorem releaseBatch_key (c : Cluster) (o : Oid) (h : KeyNE c) (hnd : (dictKeys c.idle).Nodup) :
    KeyNE (c.releaseBatch o) ∧ (c.releaseBatch o).runOn = c.runOn ∧
    (∀ x ∈ dictKeys (c.releaseBatch o).idle, x ∈ dictKeys c.idle) ∧
    ((∀ l, dictGet c.idle o = some l → l ≠ []) → o ∉ dictKeys (c.releaseBatch o).idle) := by
  unfold releaseBatch
  cases hg : dictGet c.idle o with
  | none =>
    refine ⟨h, rfl, fun x hx => hx, fun _ => ?_⟩
    rw [← dictGet_none_iff]; exact hg
  | some l =>
    simp only
    by_cases hl : l = []
    · simp only [hl, ne_eq, not_true_eq_false, if_false]
      exact ⟨h, trivial, fun x hx => hx, fun hne => absurd hl (hne l (by rw [hl]))⟩
    · simp only [ne_eq, hl, not_false_eq_true, if_true]
      refine ⟨?_, trivial, fun x hx => mem_dictKeys_dictErase _ _ _ hx, fun _ => not_mem_dictKeys_dictErase _ _ hnd⟩
      intro o' l' hl'
      simp only at hl'
      by_cases e : o' = o
      · subst e; rw [dictGet_dictErase_self _ _ hnd] at hl'; exact absurd hl' (by simp)
      · rw [dictGet_dictErase_ne _ _ _ e] at hl'
        exact h o' l' hl'

end Sys
end Topsim
