/-
  Coro4 — the "real time" cold tier at block level (`Sys.hot2coldBlock` / `Sys.cold2hotBlock`), and
  the scaling of the marker by `Config.parse_buffer_config`.

  A tier-move process whose lock-step rate is negative: the first block (begin + first loop
  iteration) moves the whole observation and waits one timestep with residual 0; the second block
  records "transfer stopped" and ends.
-/
import TopsimModel.Procs
import TopsimProofs.Coro3
import TopsimProofs.Bridge.Config
import TopsimProofs.ConfigLemmas

namespace Topsim
namespace Buffer

/-- a started hot→cold move: the buffer after the begin part, explicitly -/
theorem coro_h2cBegin_started (b b1 : Buffer) (o : Oid) (left : Int)
    (h : b.hot2coldBegin = (b1, .ok (some (o, left)))) :
    b.hot.stored.getLast? = some o ∧ left = b.sizeOf o ∧
    b1 = { b with hot := { b.hot with stored := b.hot.stored.dropLast, transfer := some o }, dltt := b.sizeOf o } := by
  unfold hot2coldBegin at h
  cases hl : b.hot.stored.getLast? with
  | none => rw [hl] at h; simp at h
  | some o' =>
    rw [hl] at h
    simp only at h
    split at h
    · simp at h
    · simp only [Prod.mk.injEq, Except.ok.injEq, Option.some.injEq] at h
      obtain ⟨h1, h2, h3⟩ := h
      subst h2
      exact ⟨rfl, h3.symm, h1.symm⟩

theorem coro_c2hBegin_started (b b1 : Buffer) (o : Oid) (left : Int)
    (h : b.cold2hotBegin = (b1, .ok (some (o, left)))) :
    b.cold.stored.getLast? = some o ∧ left = b.sizeOf o ∧
    b1 = { b with cold := { b.cold with stored := b.cold.stored.dropLast, transfer := some o } } := by
  unfold cold2hotBegin at h
  cases hl : b.cold.stored.getLast? with
  | none => rw [hl] at h; simp at h
  | some o' =>
    rw [hl] at h
    simp only at h
    split at h
    · simp at h
    · simp only [Prod.mk.injEq, Except.ok.injEq, Option.some.injEq] at h
      obtain ⟨h1, h2, h3⟩ := h
      subst h2
      exact ⟨rfl, h3.symm, h1.symm⟩

end Buffer

namespace Sys

open Buffer

/-- first block of `move_hot_to_cold` at a negative lock-step rate: everything moves now -/
theorem coro_h2cBlock_realtime (s : Sys) (now : Time) (b1 : Buffer) (o : Oid) (left : Int)
    (hbeg : s.buf.hot2coldBegin = (b1, .ok (some (o, left)))) (hr : s.buf.moveRate < 0)
    (hs : 0 < s.buf.sizeOf o) :
    s.hot2coldBlock now none =
      ({ (s.addBuf ⟨natNow now, o, .transferStarted⟩) with
          buf := { s.buf with
            hot := { s.buf.hot with stored := s.buf.hot.stored.dropLast, transfer := none,
                                    cur := s.buf.hot.cur + s.buf.sizeOf o },
            cold := { s.buf.cold with stored := s.buf.cold.stored ++ [o], transfer := none,
                                      cur := s.buf.cold.cur - s.buf.sizeOf o },
            dltt := 0 } },
        .hot2cold (some (o, 0)), .timeout 1) := by
  obtain ⟨_, hleft, hb1⟩ := coro_h2cBegin_started s.buf b1 o left hbeg
  unfold hot2coldBlock
  simp only [hbeg]
  unfold hot2coldIter
  rw [if_neg (by omega)]
  have hr1 : b1.moveRate < 0 := by rw [hb1]; exact hr
  have hsz : b1.sizeOf o = s.buf.sizeOf o := by rw [hb1]; rfl
  have hstep : (({ s with buf := b1 } : Sys).addBuf ⟨natNow now, o, .transferStarted⟩).buf.hot2coldStep o left =
      b1.hot2coldStep o (b1.sizeOf o) := by rw [hsz, hleft]; rfl
  rw [hstep, coro_h2c_step_neg_whole b1 o hr1]
  simp only
  rw [hb1]
  rfl

/-- second block: residual 0, the process records the end of the transfer and returns -/
theorem coro_h2cBlock_done (s : Sys) (now : Time) (o : Oid) :
    s.hot2coldBlock now (some (o, 0)) =
      (s.addBuf ⟨natNow now, o, .transferStopped⟩, .hot2cold (some (o, 0)), .done) := by
  unfold hot2coldBlock hot2coldIter
  simp

theorem coro_c2hBlock_realtime (s : Sys) (now : Time) (b1 : Buffer) (o : Oid) (left : Int)
    (hbeg : s.buf.cold2hotBegin = (b1, .ok (some (o, left)))) (hr : s.buf.moveRate < 0)
    (hs : 0 < s.buf.sizeOf o) :
    s.cold2hotBlock now none =
      ({ (s.addBuf ⟨natNow now, o, .transferStarted⟩) with
          buf := { s.buf with
            hot := { s.buf.hot with stored := s.buf.hot.stored ++ [o], transfer := none,
                                    cur := s.buf.hot.cur - s.buf.sizeOf o },
            cold := { s.buf.cold with stored := s.buf.cold.stored.dropLast, transfer := none,
                                      cur := s.buf.cold.cur + s.buf.sizeOf o } } },
        .cold2hot (some (o, 0)), .timeout 1) := by
  obtain ⟨_, hleft, hb1⟩ := coro_c2hBegin_started s.buf b1 o left hbeg
  unfold cold2hotBlock
  simp only [hbeg]
  unfold cold2hotIter
  rw [if_neg (by omega)]
  have hr1 : b1.moveRate < 0 := by rw [hb1]; exact hr
  have hsz : b1.sizeOf o = s.buf.sizeOf o := by rw [hb1]; rfl
  have hstep : (({ s with buf := b1 } : Sys).addBuf ⟨natNow now, o, .transferStarted⟩).buf.cold2hotStep o left =
      b1.cold2hotStep o (b1.sizeOf o) := by rw [hsz, hleft]; rfl
  rw [hstep, coro_c2h_step_neg_whole b1 o hr1]
  simp only
  rw [hb1]
  rfl

theorem coro_c2hBlock_done (s : Sys) (now : Time) (o : Oid) :
    s.cold2hotBlock now (some (o, 0)) =
      (s.addBuf ⟨natNow now, o, .transferStopped⟩, .cold2hot (some (o, 0)), .done) := by
  unfold cold2hotBlock cold2hotIter
  simp

end Sys

/-! ### the marker under `parse_buffer_config` -/

theorem coro_scaled_neg_iff (rate m : Rat) (hm : 0 < m) : rate * m < 0 ↔ rate < 0 := by
  constructor
  · intro h
    apply Classical.byContradiction
    intro hn
    have h0 : 0 ≤ rate := Rat.not_lt.mp hn
    have : 0 ≤ rate * m := Rat.mul_nonneg h0 (Rat.le_of_lt hm)
    exact absurd h (Rat.not_lt.mpr this)
  · intro h
    have := Rat.mul_lt_mul_of_pos_right h hm
    rwa [Rat.zero_mul] at this

theorem coro_int_scaled_neg_iff (rate m : Int) (hm : 0 < m) : rate * m < 0 ↔ rate < 0 := by
  constructor
  · intro h
    apply Classical.byContradiction
    intro hn
    have h0 : 0 ≤ rate := by omega
    have : 0 ≤ rate * m := Int.mul_nonneg h0 (by omega)
    omega
  · intro h
    exact Int.mul_neg_of_neg_of_pos h hm

end Topsim
