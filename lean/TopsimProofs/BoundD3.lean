/-
  BoundD3 — C05, the numeric clause under a delay model: timed liveness of the ingest-side workers
  with the delayed deadline `boundDLV` (Bound5's `boundD_ti_ast` / `boundD_tl_ingest`: ingest tasks carry
  no delay, only the deadline changes).
-/
import TopsimProofs.BoundD2

namespace Topsim

open KState Sys

section
variable {env : SimEnv} {s0 : Sys}

/-- every recorded start is pre-paid: `ast + duration + 1 ≤ latest + V` -/
theorem boundD_ti_ast (C : LiveCfg env s0) (K : LiveKernel env s0) (n : Nat)
    (hprev : ∀ j, j < n → boundTau env s0 j ≤ boundDLV env s0 j) :
    ∀ o ob a, (simAt env s0 n).st.obs? o = some ob → ob.ast = some a →
      (((a + ob.duration + 1 : Nat) : Nat) : Time) ≤ boundDLV env s0 n := by
  induction n with
  | zero =>
    intro o ob a hob hast
    exfalso
    have hst : (simAt env s0 0).st = s0.start := rfl
    rw [hst] at hob
    have hm := (obs_mem_of_obs? hob).1
    rw [start_obs s0] at hm
    rw [(C.hw.obsWaiting ob hm).2.1] at hast
    cases hast
  | succ n ih =>
    intro o ob' a hob' hast'
    have ih' := ih (fun j hj => hprev j (by omega))
    obtain ⟨e, p, hpk, hpp, ha, het, hen, _, hst⟩ := live_step C K n
    have hinv := (K.reach n).l3inv C.hw
    have hA := sim_otAst env s0 C.hw _ (K.reach n)
    obtain ⟨p', hp', _, hmin⟩ := hen
    rw [hpp] at hp'; cases hp'
    obtain ⟨hpm, _⟩ := proc?_some hpp
    have hmono := boundD_lv_mono C K (Nat.le_succ n)
    have hob'' := hob'
    rw [hst] at hob''
    obtain ⟨ob, hob, hor⟩ := ot_step_ast hinv.ti hpp ha (env.oracle (simAt env s0 n).st) o ob' hob''
    have hdur : ob'.duration = ob.duration := by
      obtain ⟨ob0, hob0, hs⟩ := (ot_resume_keep _ _ _ p hpp ha).bwd hob''
      rw [hob] at hob0; cases hob0
      exact (ot_stat_fields hs).2.2.1
    cases hast : ob.ast with
    | some a0 =>
      obtain ⟨ob2, hob2, hast2, _⟩ := ot_ast_persist hinv.sinv hinv.ti hA hpp ha hmin
        (env.oracle (simAt env s0 n).st) hob hast
      rw [hob''] at hob2; cases hob2
      rw [hast'] at hast2; cases hast2
      rw [hdur]
      exact Rat.le_trans (ih' o ob a hob hast) hmono
    | none =>
      rcases hor with e1 | ⟨hk, _, e1⟩
      · rw [hast', hast] at e1; cases e1
      · obtain ⟨m, hwm⟩ := hinv.heap.telInt p hpm hk
        rw [hast', hwm, natNow_natCast] at e1
        cases e1
        have htau : boundTau env s0 n = ((a : Nat) : Time) := by rw [bound_wk_tau hpk, het, hwm]
        have hclock := hprev n (Nat.lt_succ_self n)
        rw [htau] at hclock
        obtain ⟨hom, hoid⟩ := obs_mem_of_obs? hob
        obtain ⟨o0, ho0, hid0, hd0⟩ := bound_ti_obs0 C n hom
        have hno : ¬ Sys.PAst o0.id (simAt env s0 n).st := by
          rintro ⟨ob2, a2, hob2, hast2⟩
          rw [hid0, hoid, hob] at hob2; cases hob2
          rw [hast] at hast2; cases hast2
        have hyes : Sys.PAst o0.id (simAt env s0 (n + 1)).st :=
          ⟨ob', a, by rw [hid0, hoid]; exact hob', hast'⟩
        have hadd : boundDV env s0 (simAt env s0 n).st + (o0.duration + 1) ≤
            boundDV env s0 (simAt env s0 (n + 1)).st :=
          boundD_v_add_ast (bound_run_mono C K (Nat.le_succ n)) ho0 hno hyes
        unfold boundDLV at hclock ⊢
        rw [hdur, ← hd0]
        have h1 : a ≤ boundLatest s0 + boundDV env s0 (simAt env s0 n).st := by exact_mod_cast hclock
        exact_mod_cast (by omega :
          a + o0.duration + 1 ≤ boundLatest s0 + boundDV env s0 (simAt env s0 (n + 1)).st)

/-- **Timed liveness of the ingest-side workers.**  If the clock was within `latest + V` at every
earlier index, every live ingest-side worker is due (and so ends) before `latest + V`. -/
theorem boundD_tl_ingest {env : SimEnv} {s0 : Sys} (C : LiveCfg env s0) (K : LiveKernel env s0) (n : Nat)
    (hprev : ∀ j, j < n → boundTau env s0 j ≤ boundDLV env s0 j) :
    ∀ q ∈ (simAt env s0 n).st.procs, q.alive = true → q.BoundIngestWorker →
      q.wake + 1 ≤ boundDLV env s0 n := by
  intro q hq hqa hw
  have hinv := (K.reach n).l3inv C.hw
  have hB := bound_ti_inv C K n
  have hacc := boundD_ti_ast C K n hprev
  have hsup := sim_supTl env s0 C.hw _ (K.reach n)
  have hti := hinv.ti
  have hsinv := hinv.sinv
  have hpw := hsinv.pw
  have hclose : ∀ {o : Oid} {ob : Obs} {a : Nat}, (simAt env s0 n).st.obs? o = some ob → ob.ast = some a →
      q.wake + 1 ≤ (((a + ob.duration + 1 : Nat) : Nat) : Time) → q.wake + 1 ≤ boundDLV env s0 n :=
    fun hob hast hle => Rat.le_trans hle (hacc _ _ _ hob hast)
  have hdur : ∀ {o : Oid} {ob : Obs}, (simAt env s0 n).st.obs? o = some ob → 1 ≤ ob.duration :=
    fun hob => hti.durPos _ (obs_mem_of_obs? hob).1
  rcases hw with ht | ht | ht | ⟨t, m, preds, obs, ing, ret, hk, hi⟩ | ⟨t, m, preds, ph, tot, hk, hi⟩
  · -- the supervisor
    cases hk : q.k with
    | allocIngest o tl =>
      by_cases hpc : q.pc = 0
      · obtain ⟨a, ob, hwn, hob, hast, _⟩ := hti.aiNew q hq o tl hk hpc
        have := hdur hob
        exact hclose hob hast (bound_ti_le_step (by rw [hwn]; exact Rat.le_refl) (by omega))
      · obtain ⟨ob, a, j, hob, hast, hj, hwn, htl⟩ := hti.aiRun q hq hqa (by omega) o tl hk
        have h0 := hsup q hq hqa (by omega) o tl hk
        exact hclose hob hast (bound_ti_le_step (by rw [hwn]; exact Rat.le_refl) (by omega))
    | _ => rw [hk] at ht; simp [PK.tag] at ht
  · -- the provisioning process
    cases hk : q.k with
    | provIngest o d =>
      by_cases hpc : q.pc = 0
      · obtain ⟨ob, a, hob, hast, hwn⟩ := hti.piW q hq hqa hpc o d hk
        have := hdur hob
        exact hclose hob hast (bound_ti_le_step (by rw [hwn]; exact Rat.le_refl) (by omega))
      · obtain ⟨ob, a, hob, hast, hwn⟩ := hB.pi q hq hqa (by omega) o d hk
        have := hdur hob
        exact hclose hob hast (bound_ti_le_step (by rw [hwn]; exact Rat.le_refl) (by omega))
    | _ => rw [hk] at ht; simp [PK.tag] at ht
  · -- the stream
    cases hk : q.k with
    | ingestStream o tl =>
      by_cases hpc : q.pc = 0
      · obtain ⟨ob, a, hob, hast, hwn⟩ := hB.is0 q hq hqa hpc o tl hk
        have := hdur hob
        exact hclose hob hast (bound_ti_le_step (by rw [hwn]; exact Rat.le_refl) (by omega))
      · obtain ⟨ob, a, j, hob, hast, hwn, h0, hle⟩ := hB.is1 q hq hqa (by omega) o tl hk
        exact hclose hob hast (bound_ti_le_step (by rw [hwn]; exact Rat.le_refl) (by omega))
    | _ => rw [hk] at ht; simp [PK.tag] at ht
  · -- the allocation process of an ingest task
    obtain ⟨hing, o, hobs⟩ := hB.atI q hq t m preds obs ing ret hk hi
    subst hing hobs
    by_cases hpc : q.pc = 0
    · obtain ⟨_, _, ob, a, hob, hast, hwn⟩ := hti.atPend q hq hqa hpc t m preds o ret hk
      have := hdur hob
      exact hclose hob hast (bound_ti_le_step (by rw [hwn]; exact Rat.le_refl) (by omega))
    · obtain ⟨_, r, hr, _, hqw, ph, tot, _, _, ob, a, b, hob, hast, hrw, _, hbd, _⟩ :=
        hti.atRun q hq hqa (by omega) t m preds o ret hk
      have h1 : q.wake ≤ (((b + 1 : Nat) : Nat) : Time) := by
        rw [← lcCast_succ, ← hrw]; exact hqw
      exact hclose hob hast (bound_ti_le_step h1 (by omega))
  · -- the body of an ingest task
    obtain ⟨al, hal, hala, halpc, preds', obs, ing, halk⟩ := hsinv.dg.dwAlloc q hq hqa t m preds ph tot hk
    obtain ⟨hing, o, hobs⟩ := hB.atI al hal t m preds' obs ing q.pid halk hi
    subst hing hobs
    obtain ⟨_, r, hr, hrpid, _, ph', tot', _, _, ob, a, b, hob, hast, hrw, _, hbd, _⟩ :=
      hti.atRun al hal hala halpc t m preds' o q.pid halk
    have hrq : r = q := hpw.eq_of_pid hr hq hrpid
    subst hrq
    exact hclose hob hast (bound_ti_le_step (by rw [hrw]; exact Rat.le_refl) (by omega))

end

end Topsim
