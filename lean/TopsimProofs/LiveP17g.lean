/-
  LiveP17g — the declarations of Live17g.lean that depend on the configuration structures, restated for
  the plan-following configurations (`LivePCfg`, `NcPCfg`, `L7PLib`); the proofs are those of Live17g.lean.
  `nc_block_allocTasks_ok_P` also takes the invariant `NcM` (LiveP4).
-/
import TopsimProofs.LiveP17f

namespace Topsim

open KState Sys

section

variable {env : SimEnv} {s0 : Sys}

/-- **T8**, at an index that has not crashed -/
theorem nc_block_allocTasks_ok_P (N : NcPCfg env s0) (n : Nat) (hc : (simAt env s0 n).st.crashed = none)
    {p : Proc} (hp : p ∈ (simAt env s0 n).st.procs) (ha : p.alive = true) {o : Oid}
    {sc pa : List (Tid × Mid)} {po : List Tid} {fn : Bool} (hk : p.k = .allocTasks o sc pa po fn)
    (orc : Oracle) : ∀ err, ((simAt env s0 n).st.block p orc).2.2 ≠ .raised err :=
  Sys.nc_allocTasks_nr_P (nc_sinv_P N n)
    (Sys.nc_reach_ri_queue_P s0 _ N.hw (nc_bufList_P N) N.alg (nc_reach_P N n hc))
    (Sys.reachOk_ncp_P s0 _ N.hw (nc_bufList_P N) N.alg (nc_reachOk_P N n hc) hc)
    (reach_pr s0 _ N.hw (nc_bufList_P N) (nc_noOracle_P N) (nc_reach_P N n hc) hc)
    (reach_px s0 _ N.hw (nc_bufList_P N) (nc_noOracle_P N) (nc_reach_P N n hc) hc)
    (reach_st s0 _ N.hw (nc_bufList_P N) (nc_noOracle_P N) (nc_reach_P N n hc) hc)
    (nc_fi_P N n hc) (nc_alg_P N n hc) (nc_ncm_P N n hc) (fun _ hm => nc_machine_P N n hc hm) hp ha hk orc

/-- **The block that runs at an index that has not crashed does not raise.** -/
theorem nc_block_ok_P (N : NcPCfg env s0) (Ord : NcOrder env s0) (n : Nat)
    (hc : (simAt env s0 n).st.crashed = none) {e : HEntry} {p : Proc}
    (hpk : (simAt env s0 n).peek = some e) (hpp : (simAt env s0 n).st.proc? e.pid = some p)
    (ha : p.alive = true) (orc : Oracle) :
    ∀ err, ((simAt env s0 n).st.block p orc).2.2 ≠ .raised err := by
  have hp := nc_mem hpp
  cases hk : p.k with
  | monitor =>
    rw [block_monitor orc hk]
    intro err h; cases h
  | telescope => exact nc_block_telescope_ok_P N n hc hk orc
  | clusterLoop =>
    rw [block_clusterLoop orc hk]
    intro err h; cases h
  | schedLoop => exact nc_block_schedLoop_ok_P N n hc hk orc
  | bufferLoop => exact nc_block_bufferLoop_ok_P N n hc hk orc
  | allocIngest o tl => exact nc_block_allocIngest_ok_P N n hc hp hk orc
  | provIngest o d => exact nc_block_provIngest_ok_P N Ord n hc hpk hpp ha hk orc
  | ingestStream o tl => exact nc_block_ingestStream_ok_P N n hc hp ha hk orc
  | allocTask t m preds obs ing ret => exact nc_block_allocTask_ok_P N Ord n hc hpk hpp ha hk orc
  | doWork t m preds ph tot => exact nc_block_doWork_ok_P N n hc hp ha hk orc
  | allocTasks o sc pa po fn => exact nc_block_allocTasks_ok_P N n hc hp ha hk orc
  | hot2cold cur => exact nc_block_hot2cold_ok_P N n hc hp hk orc
  | cold2hot cur => exact nc_block_cold2hot_ok_P N n hc hp hk orc

/-- **No block of the run raises.** -/
theorem nc_noRaise_P (N : NcPCfg env s0) (Ord : NcOrder env s0) : NoRaise env s0 := by
  intro n
  induction n with
  | zero =>
    show s0.start.crashed = none
    have : s0.start.crashed = s0.crashed := by simp [Sys.start, Sys.spawn]
    rw [this]
    exact N.hw.fresh.2.2.2.2.2.2.2.2.2.2.2.2.2.2.2.2
  | succ n ih =>
    obtain ⟨e, p, hpk, hpp, ha, _, _, hst⟩ := nc_step_P N n ih
    rw [hst]
    exact Sys.nc_resume_crashed _ _ _ p hpp ha ih (nc_block_ok_P N Ord n ih hpk hpp ha _)

/-- the hypotheses of the liveness development, without assuming `NoRaise` -/
theorem nc_live_P (N : NcPCfg env s0) (Ord : NcOrder env s0) : LivePCfg env s0 := N.toLive (nc_noRaise_P N Ord)

end

end Topsim

