/-
  LiveP17e — the declarations of Live17e.lean that depend on the configuration structures, restated for
  the plan-following configurations (`LivePCfg`, `NcPCfg`, `L7PLib`); the proofs are those of Live17e.lean.
-/
import TopsimProofs.LiveP17d

namespace Topsim

namespace Sys

open Cluster

theorem ncp_step_P {s : Sys} (hs : SInv s) (h : NcP s) (hati : LcATI s) (hbuf : BufI s) (hwi : WI s) (hpx : PX s)
    (halg : PlanAlg s.alg) {pid : Nat} (hen : s.enabled pid) (orc : Oracle)
    (hs' : SInv (s.resume pid orc).1) : NcP (s.resume pid orc).1 := by
  obtain ⟨p, hp, ha, hmin⟩ := hen
  obtain ⟨hpm, hpid⟩ := proc?_some hp
  obtain ⟨new, hm, hnew, hnewp⟩ := ot_step_table hs hp ha hmin orc
  have hpw := hs.pw
  obtain ⟨K1, K2, K3⟩ := nc_block_kind s hpw p orc
  have hcls := (block_class s hpw p orc).2
  have hp' : fin (s.block p orc).2.1 (s.block p orc).2.2 p.wake p ∈ (s.resume pid orc).1.procs :=
    (hm _).mpr (Or.inl rfl)
  have hold : ∀ q ∈ s.procs, q.pid ≠ p.pid → q ∈ (s.resume pid orc).1.procs :=
    fun q hq hne => (hm q).mpr (Or.inr (Or.inl ⟨hq, hne⟩))
  have hnewB : ∀ q ∈ new, q ∈ (s.block p orc).1.procs := fun q hq => by
    rw [hnew]; exact List.mem_append_right _ hq
  -- an allocation process of the old table has a counterpart in the new one
  have atFwd : ∀ a ∈ s.procs, ∀ t m preds obs ing ret, a.k = .allocTask t m preds obs ing ret →
      ∃ a' ∈ (s.resume pid orc).1.procs, ∃ ret', a'.k = .allocTask t m preds obs ing ret' := by
    intro a ha1 t m preds obs ing ret hak
    by_cases e : a.pid = p.pid
    · have : a = p := hpw.eq_of_pid ha1 hpm e
      subst this
      obtain ⟨ret', hk'⟩ := K1 _ _ _ _ _ _ hak
      exact ⟨_, hp', ret', by rw [fin_k]; exact hk'⟩
    · exact ⟨a, hold a ha1 e, ret, hak⟩
  -- the block of an `allocate_tasks` process
  have atsBlock : ∀ o sc0 pa0 po0 fn0, p.k = .allocTasks o sc0 pa0 po0 fn0 →
      ∃ sc' pa' po' fn', (s.block p orc).2.1 = .allocTasks o sc' pa' po' fn' ∧
        (∀ t, dictHas pa0 t = true → dictHas pa' t = true) ∧
        (∀ x ∈ sc', x ∈ sc0 ∨ x.2 ∈ s.cl.available) ∧
        (∀ q ∈ (s.block p orc).1.procs, q ∈ s.procs ∨
          ∃ t m cross, q.k = .allocTask t m cross (some o) false 0 ∧ dictHas pa' t = true) := by
    intro o sc0 pa0 po0 fn0 hpk
    rw [block_allocTasks orc hpk]
    exact nc_allocTasksBlock_sum_P s p.wake orc p.pc o sc0 pa0 po0 fn0 halg
  constructor
  · -- every task body has an allocation process
    intro d hd t m preds ph tot hdk
    rcases (hm d).mp hd with rfl | ⟨hd0, _⟩ | hdn
    · simp only [fin_k] at hdk
      obtain ⟨ph0, tot0, hpk⟩ := K3 _ _ _ _ _ hdk
      obtain ⟨a, ha1, m', preds', obs, ing, ret, hak⟩ := h.dwAT p hpm _ _ _ _ _ hpk
      obtain ⟨a', ha', ret', hak'⟩ := atFwd a ha1 _ _ _ _ _ _ hak
      exact ⟨a', ha', m', preds', obs, ing, ret', hak'⟩
    · obtain ⟨a, ha1, m', preds', obs, ing, ret, hak⟩ := h.dwAT d hd0 _ _ _ _ _ hdk
      obtain ⟨a', ha', ret', hak'⟩ := atFwd a ha1 _ _ _ _ _ _ hak
      exact ⟨a', ha', m', preds', obs, ing, ret', hak'⟩
    · have hnk := (hnewp d hdn).2.2.2
      rw [hdk] at hnk
      obtain ⟨obs, ing, ret, hpk⟩ := nc_newKind_doWork hnk
      obtain ⟨a', ha', ret', hak'⟩ := atFwd p hpm _ _ _ _ _ _ hpk
      exact ⟨a', ha', m, preds, obs, ing, ret', hak'⟩
  · -- an ingest-side allocation process carries an ingest task
    intro a' ha' t m preds obs ret hak
    rcases (hm a').mp ha' with rfl | ⟨ha0, _⟩ | han
    · simp only [fin_k] at hak
      obtain ⟨ret0, hpk⟩ := K2 _ _ _ _ _ _ hak
      exact h.atIng p hpm _ _ _ _ _ hpk
    · exact h.atIng a' ha0 _ _ _ _ _ hak
    · obtain ⟨hal, hpc, _, _⟩ := hnewp a' han
      obtain ⟨U', hU'⟩ := hs'.ci
      have he := hU'.pend a' ha' hal t m preds obs ret hak hpc
      exact hU'.inv.pendTask _ he
  · -- `pairs`
    intro a' ha' t m preds o ret hak q' hq' hqa sc pa po hqk
    rcases (hm q').mp hq' with rfl | ⟨hq0, hqne⟩ | hqn
    · -- the `allocate_tasks` process ran
      simp only [fin_k] at hqk
      obtain ⟨sc0, pa0, po0, fn0, hpk⟩ := (hcls o).mp ⟨sc, pa, po, false, hqk⟩
      obtain ⟨sc', pa', po', fn', g0, g1, _, g3⟩ := atsBlock o sc0 pa0 po0 fn0 hpk
      have hfn0 : fn0 = false := by
        cases fn0 with
        | false => rfl
        | true =>
          exfalso
          have hb := block_allocTasks (s := s) orc hpk
          rw [allocTasksBlock_fin] at hb
          rw [hb] at hqk
          simp at hqk
      subst hfn0
      rw [hqk] at g0
      injection g0 with _ _ e3 _ _
      subst e3
      have holdA : ∀ a ∈ s.procs, a.k = .allocTask t m preds (some o) false ret → dictHas pa t = true :=
        fun a ha1 hk1 => g1 t (h.atPairs a ha1 t m preds o ret hk1 p hpm ha sc0 pa0 po0 hpk)
      rcases (hm a').mp ha' with rfl | ⟨ha0, _⟩ | han
      · simp only [fin_k] at hak
        rw [hqk] at hak; simp at hak
      · exact holdA a' ha0 hak
      · rcases g3 a' (hnewB a' han) with h1 | ⟨t1, m1, c1, hk1, hd1⟩
        · exact holdA a' h1 hak
        · rw [hak] at hk1
          injection hk1 with e1
          subst e1
          exact hd1
    · -- another old `allocate_tasks` process
      rcases (hm a').mp ha' with rfl | ⟨ha0, _⟩ | han
      · simp only [fin_k] at hak
        obtain ⟨ret0, hpk⟩ := K2 _ _ _ _ _ _ hak
        exact h.atPairs p hpm t m preds o ret0 hpk q' hq0 hqa sc pa po hqk
      · exact h.atPairs a' ha0 t m preds o ret hak q' hq0 hqa sc pa po hqk
      · exfalso
        have hnk := (hnewp a' han).2.2.2
        rw [hak] at hnk
        rcases nc_newKind_allocTask hnk with h1 | ⟨o1, sc1, pa1, po1, fn1, hpk, ho⟩
        · cases h1
        · injection ho with ho
          subst ho
          exact hqne (hati.uniq q' hq0 p hpm o _ _ _ _ _ _ _ _ hqk hpk)
    · -- a new `allocate_tasks` process: its observation was still stored
      exfalso
      rcases new_allocTasks s p orc hnew with hnone | ⟨oid, hsl, hst, _, _, hn⟩
      · exact hnone q' hqn _ _ _ _ _ hqk
      · have hq1 := hqn
        rw [hn] at hq1
        simp only [List.mem_singleton] at hq1
        subst hq1
        simp only [PK.allocTasks.injEq] at hqk
        obtain ⟨ho, _⟩ := hqk
        subst ho
        rcases (hm a').mp ha' with rfl | ⟨ha0, _⟩ | han
        · simp only [fin_k] at hak
          obtain ⟨ret0, hpk⟩ := K2 _ _ _ _ _ _ hak
          rw [hsl] at hpk; cases hpk
        · exact nc_no_at_stored hs hbuf hwi hpx hst ha0 hak
        · rw [hn] at han
          simp only [List.mem_singleton] at han
          subst han
          simp at hak
  · -- the machines of a local schedule
    intro q' hq' o sc pa po fn hqk x hx
    rw [resume_clm]
    obtain ⟨U, hU⟩ := hs.ci
    rcases (hm q').mp hq' with rfl | ⟨hq0, _⟩ | hqn
    · simp only [fin_k] at hqk
      obtain ⟨sc0, pa0, po0, fn0, hpk⟩ := (hcls o).mp ⟨sc, pa, po, fn, hqk⟩
      obtain ⟨sc', pa', po', fn', g0, _, g2, _⟩ := atsBlock o sc0 pa0 po0 fn0 hpk
      rw [hqk] at g0
      injection g0 with _ e2 _ _ _
      subst e2
      rcases g2 x hx with h1 | h1
      · exact h.scM p hpm o sc0 pa0 po0 fn0 hpk x h1
      · exact nc_avail_machine hU.inv h1
    · exact h.scM q' hq0 o sc pa po fn hqk x hx
    · have hnk := (hnewp q' hqn).2.2.2
      rw [hqk] at hnk
      obtain ⟨_, hsc⟩ := nc_newKind_allocTasks hnk
      rw [hsc] at hx
      simp at hx

/-- `NcP` along every run of QueueProcessing that has not raised -/
theorem reachOk_ncp_P (s0 s : Sys) (hw : WFConfig s0) (hbuf : bufList s0.buf = []) (halg : PlanAlg s0.alg)
    (h : ReachOk s0 s) : s.crashed = none → NcP s := by
  have hno : s0.alg ≠ .oracle := halg.noOracle
  induction h with
  | start => exact fun _ => ncp_start s0 hw
  | step s pid orc hr hen hpre ih =>
    intro hc
    have hen' := hen
    obtain ⟨p, hp, ha, _⟩ := hen
    have hc0 := (resume_nocrash s pid orc p hp ha hc).1
    exact ncp_step_P (reach_inv s0 s hw hr) (ih hc0) (reachOk_ati s0 s hw hbuf hr) (reachOk_bufi s0 s hw hbuf hr)
      (reachOk_wi s0 s hw hbuf hr hc0) (reach_px s0 s hw hbuf hno hr.toReach hc0)
      (by rw [reach_alg hr.toReach]; exact halg) hen' orc
      (reach_inv s0 _ hw (ReachOk.step s pid orc hr hen' hpre))

end Sys

end Topsim

