/-
  PlanFollow4 — concrete runs of DynamicSchedulingFromPlan with a static plan.

  Configuration `pfW0`: two machines (cpu 1, bandwidth 1), one observation of one array, one
  ingest machine, one timestep, rate 0, whose workflow is the chain `0 → 1`; the static plan
  (`pfOrc.plan`, handed to the scheduler loop) puts BOTH tasks on machine 1.  Configuration
  `pfW1`: the same with no edge between the two tasks.  Every block gets the oracle `pfOrc`
  (`pfOrc1`): no delay.
-/
import TopsimModel.Reach

namespace Topsim
namespace Sys

/-! ### checking a schedule by evaluation -/

/-- run the blocks of the listed processes, in order, with the oracle `orc` at every block -/
def pfRun (orc : Oracle) : List Nat → Sys → Sys
  | [], s => s
  | pid :: r, s => pfRun orc r (s.resume pid orc).1

def pfEnabledB (s : Sys) (pid : Nat) : Bool :=
  match s.proc? pid with
  | some p => p.alive && s.procs.all (fun q => !q.alive || decide (p.wake ≤ q.wake))
  | none => false

theorem pfEnabledB_sound {s : Sys} {pid : Nat} (h : pfEnabledB s pid = true) : s.enabled pid := by
  unfold pfEnabledB at h
  cases hp : s.proc? pid with
  | none => rw [hp] at h; exact absurd h (by simp)
  | some p =>
    rw [hp] at h
    simp only [Bool.and_eq_true, List.all_eq_true, Bool.or_eq_true, Bool.not_eq_true',
      decide_eq_true_eq] at h
    refine ⟨p, hp, h.1, ?_⟩
    intro q hq hqa
    rcases h.2 q hq with h' | h'
    · rw [hqa] at h'; exact absurd h' (by simp)
    · exact h'

/-- every listed block is enabled when its turn comes -/
def pfEnabledAll (orc : Oracle) : List Nat → Sys → Bool
  | [], _ => true
  | pid :: r, s => pfEnabledB s pid && pfEnabledAll orc r (s.resume pid orc).1

theorem pf_reach_run {s0 : Sys} (orc : Oracle) (pids : List Nat) (s : Sys) (h : Reach s0 s)
    (hen : pfEnabledAll orc pids s = true) : Reach s0 (pfRun orc pids s) := by
  induction pids generalizing s with
  | nil => exact h
  | cons pid r ih =>
    simp only [pfEnabledAll, Bool.and_eq_true] at hen
    exact ih _ (Reach.step s pid orc h (pfEnabledB_sound hen.1)) hen.2

/-! ### the configurations -/

def pfObs : Obs :=
  { id := 0, est := 0, duration := 1, demand := 1, rate := 0, ingestDemand := 1,
    wf := ⟨[(0, 2, 0), (1, 1, 0)], [(0, 1, 0)], [0, 1]⟩ }

/-- the static plan: rows (node, machine, est, eft); both tasks on machine 1 -/
def pfOrc : Oracle := { plan := [(0, 1, 0, 2), (1, 1, 2, 3)] }

def pfW0 : Sys :=
  { machines := [⟨0, 1, 1⟩, ⟨1, 1, 1⟩], totalArrays := 1, maxIngest := 1, alg := .dynamic, staticPlan := true,
    cl := Cluster.init [0, 1], buf := Buffer.init 100 10 100 10, obs := [pfObs] }

theorem pfW0_wf : WFConfig pfW0 := by
  refine ⟨by decide, rfl, by decide, ?_, ⟨rfl, rfl, rfl, rfl, rfl, rfl, rfl, rfl, rfl, rfl, rfl, rfl, rfl,
    rfl, rfl, rfl, rfl⟩⟩
  intro o ho
  simp only [pfW0, List.mem_cons, List.not_mem_nil, or_false] at ho
  subst ho
  exact ⟨rfl, rfl, by decide, by decide⟩

/-- the two workflow tasks: planned at clock 1 -/
def pfA : Tid := .wf 0 1 0
def pfB : Tid := .wf 0 1 1

/-- the parameters of a task-body process -/
def pfDoWork? : PK → Option (Tid × Mid)
  | .doWork t m _ _ _ => some (t, m)
  | _ => none

/-- Creation order inside every instant.  Instant 0: ingest on machine 0 (pids 5–9).  Instant 1: the
scheduler loop 3 plans the workflow from the static plan (records `pfA`, `pfB`, both planned on
machine 1; `allocate_tasks` 10); 10 proposes `pfA` on machine 1 although machine 0 is free too
(allocation process 11, body 12).  Instants 2, 3: `pfA` runs and is reported finished.  Instant 4:
10 proposes `pfB` on machine 1 (allocation process 13, body 14). -/
def pfSched : List Nat :=
  [0, 1, 2, 3, 4, 5, 6, 7, 8, 9, 9,
   0, 1, 2, 3, 4, 5, 6, 8, 10, 11, 12,
   0, 1, 2, 3, 4, 10, 11, 12,
   0, 2, 3, 4, 10, 11,
   0, 2, 3, 4, 10, 13, 14]

theorem pfSched_enabled : pfEnabledAll pfOrc pfSched pfW0.start = true := by decide +kernel

theorem pfSched_reach : Reach pfW0 (pfRun pfOrc pfSched pfW0.start) :=
  pf_reach_run pfOrc pfSched _ Reach.start pfSched_enabled

theorem pfSched_final :
    let s := pfRun pfOrc pfSched pfW0.start
    s.crashed = none ∧ s.starts = [.ingest 0 0, pfA, pfB] ∧ s.active = [(1, pfB)] ∧
    s.cl.available = [0] ∧ s.cl.runOn.map (fun e => (e.task, e.mach, e.ing)) = [(pfB, 1, false)] ∧
    (s.task? pfA).map (fun r => (r.planned, r.allocObj, r.status)) = some (some 1, false, .finished) ∧
    (s.task? pfB).map (fun r => (r.planned, r.allocObj, r.status)) = some (some 1, false, .running) ∧
    (s.proc? 12).bind (fun p => pfDoWork? p.k) = some (pfA, 1) ∧
    (s.proc? 14).bind (fun p => pfDoWork? p.k) = some (pfB, 1) := by
  decide +kernel

/-! ### a task whose planned machine is busy waits -/

/-- one workflow task -/
def pfObsX : Obs :=
  { id := 0, est := 0, duration := 1, demand := 1, rate := 0, ingestDemand := 1,
    wf := ⟨[(0, 2, 0)], [], [0]⟩ }

/-- a second observation, three timesteps long: its ingest keeps machine 1 until t = 3 -/
def pfObsY : Obs :=
  { id := 1, est := 0, duration := 3, demand := 1, rate := 0, ingestDemand := 1, wf := ⟨[], [], []⟩ }

/-- the static plan: the task on machine 1 -/
def pfOrc2 : Oracle := { plan := [(0, 1, 0, 2)] }

def pfW2 : Sys := { pfW0 with obs := [pfObsX, pfObsY], totalArrays := 2, maxIngest := 2 }

theorem pfW2_wf : WFConfig pfW2 := by
  refine ⟨by decide, rfl, by decide, ?_, ⟨rfl, rfl, rfl, rfl, rfl, rfl, rfl, rfl, rfl, rfl, rfl, rfl, rfl,
    rfl, rfl, rfl, rfl⟩⟩
  intro o ho
  simp only [pfW2, pfW0, List.mem_cons, List.not_mem_nil, or_false] at ho
  rcases ho with rfl | rfl <;> exact ⟨rfl, rfl, by decide, by decide⟩

/-- the task of observation 0, planned at clock 1 -/
def pfX : Tid := .wf 0 1 0

/-- Creation order inside every instant.  Instant 0: both observations are let in; observation 0
ingests on machine 0 (body 13), observation 1 on machine 1 (body 14).  Instant 1: observation 0 is
stored and planned (record `pfX`, planned on machine 1; `allocate_tasks` 15); machine 0 is back in
the available pool; 15 proposes nothing: machine 1 is ingesting. -/
def pfSchedWait : List Nat :=
  [0, 1, 2, 3, 4, 5, 6, 7, 8, 9, 10, 11, 12, 13, 13, 14,
   0, 1, 2, 3, 4, 5, 6, 7, 9, 10, 11, 12, 15]

theorem pfSchedWait_enabled : pfEnabledAll pfOrc2 pfSchedWait pfW2.start = true := by decide +kernel

theorem pfSchedWait_reach : Reach pfW2 (pfRun pfOrc2 pfSchedWait pfW2.start) :=
  pf_reach_run pfOrc2 pfSchedWait _ Reach.start pfSchedWait_enabled

theorem pfSchedWait_final :
    let s := pfRun pfOrc2 pfSchedWait pfW2.start
    s.crashed = none ∧ s.starts = [.ingest 0 0, .ingest 1 0] ∧ s.cl.available = [0] ∧ s.cl.ingest = [1] ∧
    (s.task? pfX).map (fun r => (r.planned, r.allocObj, r.status, r.preds)) = some (some 1, false, .unscheduled, []) ∧
    s.procs.length = 16 ∧ s.nextPid = 16 := by
  decide +kernel

/-- … instant 2: the same; instant 3: the ingest of observation 1 has ended and given machine 1 back;
15 proposes `pfX` on machine 1 (allocation process 17, body 19) -/
def pfSchedThen : List Nat :=
  pfSchedWait ++
  [0, 1, 2, 3, 4, 6, 10, 12, 14, 15,
   0, 1, 2, 3, 4, 6, 12, 15, 16, 17, 19]

theorem pfSchedThen_enabled : pfEnabledAll pfOrc2 pfSchedThen pfW2.start = true := by decide +kernel

theorem pfSchedThen_reach : Reach pfW2 (pfRun pfOrc2 pfSchedThen pfW2.start) :=
  pf_reach_run pfOrc2 pfSchedThen _ Reach.start pfSchedThen_enabled

theorem pfSchedThen_final :
    let s := pfRun pfOrc2 pfSchedThen pfW2.start
    s.crashed = none ∧ s.starts = [.ingest 0 0, .ingest 1 0, pfX] ∧ s.active = [(1, pfX)] ∧
    s.cl.available = [0] ∧
    (s.task? pfX).map (fun r => (r.planned, r.allocObj, r.status)) = some (some 1, false, .running) ∧
    (s.proc? 19).bind (fun p => pfDoWork? p.k) = some (pfX, 1) := by
  decide +kernel

end Sys
end Topsim
