/-
  IngestLimit14 — the ingest timing invariant `ILTI`: when the ingest supervisor
  of an observation ends (at `ast + duration`), the bodies of its ingest tasks
  have ended strictly before, so each of its allocation processes gives its
  machine back at its very next block — before the telescope's next block,
  provided the supervisor's last block came after the telescope's block of that
  instant.

  This file: the invariant, the frame lemma, and the blocks of the processes it
  does not talk about.
-/
import TopsimProofs.IngestLimit13

namespace Topsim
namespace Sys

open Cluster

structure ILTI (s : Sys) : Prop where
  durPos : ∀ ob ∈ s.obs, 1 ≤ ob.duration
  /-- records of ingest tasks carry no work and are planned for the observation's duration -/
  taskR : ∀ r ∈ s.tasks, ∀ o i, r.id = .ingest o i →
    r.flops = 0 ∧ r.data = 0 ∧ ∃ ob, s.obs? o = some ob ∧ r.duration = ob.duration
  /-- a supervisor is created at a whole instant, the observation's start time -/
  aiNew : ∀ p ∈ s.procs, ∀ o tl, p.k = .allocIngest o tl → p.pc = 0 →
    ∃ (n : Nat) (ob : Obs), p.wake = (n : Time) ∧ s.obs? o = some ob ∧ ob.ast = some n ∧ (p.alive = true → ob.status = .waiting)
  /-- a supervisor that has run `j` blocks is due at `ast + j` and counts `duration - j` -/
  aiRun : ∀ p ∈ s.procs, p.alive = true → 1 ≤ p.pc → ∀ o tl, p.k = .allocIngest o tl →
    ∃ ob a j, s.obs? o = some ob ∧ ob.ast = some a ∧ 1 ≤ j ∧ p.wake = ((a + j : Nat) : Time) ∧
      tl = (ob.duration : Int) - (j : Int)
  /-- an observation is FINISHED only from `ast + duration` on -/
  aiFin : ∀ p ∈ s.procs, p.alive = true → ∀ o tl, p.k = .allocIngest o tl → ∀ ob a, s.obs? o = some ob →
    ob.status = .finished → ob.ast = some a → ((a + ob.duration : Nat) : Time) ≤ p.wake
  piW : ∀ q ∈ s.procs, q.alive = true → q.pc = 0 → ∀ o d, q.k = .provIngest o d →
    ∃ ob a, s.obs? o = some ob ∧ ob.ast = some a ∧ q.wake = ((a : Nat) : Time)
  atPend : ∀ q ∈ s.procs, q.alive = true → q.pc = 0 → ∀ t m preds o ret,
    q.k = .allocTask t m preds (some o) true ret →
    preds = [] ∧ (∃ i, t = .ingest o i) ∧
      ∃ ob a, s.obs? o = some ob ∧ ob.ast = some a ∧ q.wake = ((a : Nat) : Time)
  /-- a polling ingest allocation process: its task's body is due (or ended) strictly before
  `ast + duration`, and the process is at most one step ahead of it -/
  -- F13: … and is due at a whole instant (it re-arms while `now < aft = wake of the ended body + 1`)
  atRun : ∀ q ∈ s.procs, q.alive = true → 1 ≤ q.pc → ∀ t m preds o ret,
    q.k = .allocTask t m preds (some o) true ret →
    (∃ i, t = .ingest o i) ∧ ∃ r ∈ s.procs, r.pid = ret ∧ q.wake ≤ r.wake + 1 ∧
      ∃ ph tot, r.k = .doWork t m [] ph tot ∧ (r.alive = true → ph = 0 ∨ 2 ≤ ph) ∧
        ∃ ob a b, s.obs? o = some ob ∧ ob.ast = some a ∧ r.wake = ((b : Nat) : Time) ∧
          (r.alive = true → ph = 0 → b = a) ∧ b + 1 ≤ a + ob.duration ∧ ∃ c : Nat, q.wake = (c : Time)
  /-- F13: the recorded finish of an ingest task was stamped by its (ended) body, one step after
  that body's last block -/
  aftI : ∀ rec ∈ s.tasks, rec.id.isIngest = true → ∀ f, rec.aft = some f →
    ∃ d ∈ s.procs, d.alive = false ∧ f = d.wake + 1 ∧ ∃ m preds ph tot, d.k = .doWork rec.id m preds ph tot
  entPend : ∀ e ∈ s.cl.pending, ∃ o, e.obs = some o ∧ ∃ q ∈ s.procs, q.alive = true ∧ q.pc = 0 ∧
    ∃ preds ret, q.k = .allocTask e.task e.mach preds (some o) true ret
  entRun : ∀ e ∈ s.cl.runOn, e.ing = true → ∃ o, e.obs = some o ∧ ∃ q ∈ s.procs, q.alive = true ∧
    1 ≤ q.pc ∧ ∃ preds ret, q.k = .allocTask e.task e.mach preds (some o) true ret
  /-- an allocation process whose observation's supervisor has ended polls strictly before the
  telescope's next block, and will find its task's body ended -/
  -- F13: … and the finish that body recorded (its last block + 1) reached
  stale : ∀ e ∈ s.cl.ilEntries, ∀ o, e.obs = some o → o ∉ ilLiveAI s.procs →
    ∃ q ∈ s.procs, q.alive = true ∧ 1 ≤ q.pc ∧
      (∃ preds ret, q.k = .allocTask e.task e.mach preds (some o) true ret ∧
        ∀ r ∈ s.procs, r.pid = ret → r.alive = false ∧ r.wake + 1 ≤ q.wake) ∧
      ∀ t ∈ s.procs, t.k = .telescope → t.alive = true → q.wake < t.wake

theorem mem_ilEntries {c : Cluster} {e : RunEntry} :
    e ∈ c.ilEntries ↔ e ∈ c.pending ∨ (e ∈ c.runOn ∧ e.ing = true) := by
  unfold Cluster.ilEntries
  rw [List.mem_append, List.mem_filter]

/-- with `ILTI`, an enabled telescope finds no stale allocation process -/
theorem ILTI.no_stale {s : Sys} (h : ILTI s) {p : Proc} (hpm : p ∈ s.procs) (ha : p.alive = true)
    (hk : p.k = .telescope) (hmin : ∀ q ∈ s.procs, q.alive = true → p.wake ≤ q.wake) :
    s.ingestStale = 0 := by
  unfold ingestStale
  rw [ilStale_eq_zero_iff]
  intro e he
  have hobs : ∃ o, e.obs = some o := by
    rcases mem_ilEntries.mp he with hp | ⟨hr, hi⟩
    · obtain ⟨o, ho, _⟩ := h.entPend e hp; exact ⟨o, ho⟩
    · obtain ⟨o, ho, _⟩ := h.entRun e hr hi; exact ⟨o, ho⟩
  obtain ⟨o, ho⟩ := hobs
  unfold ilStaleEntry
  rw [ho]
  simp only [Bool.not_eq_false']
  cases hc : ilCovered s.procs o with
  | true => rfl
  | false =>
    exfalso
    have hno : o ∉ ilLiveAI s.procs := by
      intro hin
      rw [ilCovered_iff.mpr hin] at hc
      exact absurd hc (by simp)
    obtain ⟨q, hq, hqa, _, _, hlt⟩ := h.stale e he o ho hno
    have h1 := hlt p hpm hk ha
    have h2 := hmin q hq hqa
    exact absurd h1 (Rat.not_lt.mpr h2)

/-! ### the frame lemma -/

theorem il_obs?_congr' {a b : Sys} (h : b.obs = a.obs) (o : Oid) : b.obs? o = a.obs? o := by
  unfold obs?; rw [h]

/-- observation records and the ghost lists are as before, ingest task records keep work and
duration, every process the invariant talks about (and every task body) is still there, and
whatever else is in the table is of no concern and does not reuse the pid of a task body -/
theorem ILTI.frame {s s' : Sys} (h : ILTI s) (hobs : s'.obs = s.obs)
    (hpend : s'.cl.pending = s.cl.pending)
    (hrun : ∀ e, e.ing = true → (e ∈ s'.cl.runOn ↔ e ∈ s.cl.runOn))
    (htasks : IlTaskK s.tasks s'.tasks)
    (hold : ∀ q ∈ s.procs, (q.k.ilRel = true ∨ q.k.isDoWork = true) → q ∈ s'.procs)
    (hnew : ∀ q' ∈ s'.procs, q' ∈ s.procs ∨
      (q'.k.ilRel = false ∧ ∀ r ∈ s.procs, r.k.isDoWork = true → r.pid ≠ q'.pid)) : ILTI s' := by
  have ho : ∀ o, s'.obs? o = s.obs? o := il_obs?_congr' hobs
  have hrel : ∀ q' ∈ s'.procs, q'.k.ilRel = true → q' ∈ s.procs := by
    intro q' hq' hr
    rcases hnew q' hq' with hh | ⟨hh, _⟩
    · exact hh
    · rw [hh] at hr; exact absurd hr (by simp)
  have hlive : ∀ o, o ∉ ilLiveAI s'.procs → o ∉ ilLiveAI s.procs := by
    intro o hno hin
    obtain ⟨p, hp, hpa, hpk⟩ := mem_ilLiveAI.mp hin
    apply hno
    refine mem_ilLiveAI.mpr ⟨p, hold p hp (Or.inl ?_), hpa, hpk⟩
    cases hk : p.k <;> simp [hk, PK.aiObs] at hpk <;> rfl
  have hent : ∀ e, e ∈ s'.cl.ilEntries → e ∈ s.cl.ilEntries := by
    intro e he
    rcases mem_ilEntries.mp he with hp | ⟨hr, hi⟩
    · exact mem_ilEntries.mpr (Or.inl (hpend ▸ hp))
    · exact mem_ilEntries.mpr (Or.inr ⟨(hrun e hi).mp hr, hi⟩)
  constructor
  · rw [hobs]; exact h.durPos
  · intro r' hr' o i hid
    obtain ⟨r, hr, e1, e2, e3, e4, _⟩ := htasks r' hr' (by rw [hid]; rfl)
    obtain ⟨f1, f2, ob, hob, f3⟩ := h.taskR r hr o i (e1 ▸ hid)
    exact ⟨e2.trans f1, e3.trans f2, ob, by rw [ho]; exact hob, (e4 f1 f2).trans f3⟩
  · intro p hp o tl hk hpc
    obtain ⟨n, ob, h1, h2, h3⟩ := h.aiNew p (hrel p hp (by rw [hk]; rfl)) o tl hk hpc
    exact ⟨n, ob, h1, by rw [ho]; exact h2, h3⟩
  · intro p hp hpa hpc o tl hk
    obtain ⟨ob, a, j, h1, r⟩ := h.aiRun p (hrel p hp (by rw [hk]; rfl)) hpa hpc o tl hk
    exact ⟨ob, a, j, by rw [ho]; exact h1, r⟩
  · intro p hp hpa o tl hk ob a hob
    rw [ho] at hob
    exact h.aiFin p (hrel p hp (by rw [hk]; rfl)) hpa o tl hk ob a hob
  · intro q hq hqa hqc o d hk
    obtain ⟨ob, a, h1, r⟩ := h.piW q (hrel q hq (by rw [hk]; rfl)) hqa hqc o d hk
    exact ⟨ob, a, by rw [ho]; exact h1, r⟩
  · intro q hq hqa hqc t m preds o ret hk
    obtain ⟨h1, h2, ob, a, h3, r⟩ := h.atPend q (hrel q hq (by rw [hk]; rfl)) hqa hqc t m preds o ret hk
    exact ⟨h1, h2, ob, a, by rw [ho]; exact h3, r⟩
  · intro q hq hqa hqc t m preds o ret hk
    obtain ⟨h1, r, hr, h2, h3, ph, tot, hrk, h4, ob, a, b, h5, rest⟩ :=
      h.atRun q (hrel q hq (by rw [hk]; rfl)) hqa hqc t m preds o ret hk
    exact ⟨h1, r, hold r hr (Or.inr (by rw [hrk]; rfl)), h2, h3, ph, tot, hrk, h4, ob, a, b,
      by rw [ho]; exact h5, rest⟩
  · intro r' hr' hi f hf
    obtain ⟨r, hr, e1, _, _, _, e5⟩ := htasks r' hr' hi
    obtain ⟨d, hd, hda, hfd, m, preds, ph, tot, hdk⟩ := h.aftI r hr (e1 ▸ hi) f (e5 ▸ hf)
    exact ⟨d, hold d hd (Or.inr (by rw [hdk]; rfl)), hda, hfd, m, preds, ph, tot, by rw [e1]; exact hdk⟩
  · intro e he
    rw [hpend] at he
    obtain ⟨o, h1, q, hq, h2, h3, preds, ret, hk⟩ := h.entPend e he
    exact ⟨o, h1, q, hold q hq (Or.inl (by rw [hk]; rfl)), h2, h3, preds, ret, hk⟩
  · intro e he hi
    obtain ⟨o, h1, q, hq, h2, h3, preds, ret, hk⟩ := h.entRun e ((hrun e hi).mp he) hi
    exact ⟨o, h1, q, hold q hq (Or.inl (by rw [hk]; rfl)), h2, h3, preds, ret, hk⟩
  · intro e he o heo hno
    obtain ⟨q, hq, hqa, hqc, ⟨preds, ret, hk, hdead⟩, hlt⟩ := h.stale e (hent e he) o heo (hlive o hno)
    have hqrel : q.k.ilRel = true := by rw [hk]; rfl
    refine ⟨q, hold q hq (Or.inl hqrel), hqa, hqc, ⟨preds, ret, hk, ?_⟩, ?_⟩
    · intro r' hr' hrp
      rcases hnew r' hr' with hh | ⟨_, hh⟩
      · exact hdead r' hh hrp
      · exfalso
        obtain ⟨_, r, hr, hrpid, _, ph, tot, hrk, _⟩ := h.atRun q hq hqa hqc _ _ _ _ _ hk
        exact hh r hr (by rw [hrk]; rfl) (hrpid.trans hrp.symm)
    · intro t ht htk hta
      exact hlt t (hrel t ht (by rw [htk]; rfl)) htk hta

/-! ### `resume` and the fields the invariant reads -/

theorem il_resume_fields (s : Sys) (pid : Nat) (orc : Oracle) (p : Proc) (hp : s.proc? pid = some p)
    (ha : p.alive = true) :
    (s.resume pid orc).1.obs = (s.block p orc).1.obs ∧ (s.resume pid orc).1.cl = (s.block p orc).1.cl ∧
    (s.resume pid orc).1.tasks = (s.block p orc).1.tasks := by
  unfold resume
  simp only [hp, ha, Bool.not_true, Bool.false_eq_true, if_false]
  generalize s.block p orc = r
  obtain ⟨s1, k, y⟩ := r
  cases y with
  | timeout d => exact ⟨rfl, rfl, rfl⟩
  | done => exact ⟨rfl, rfl, rfl⟩
  | raised e => exact ⟨by simp only [crash_obs]; rfl, by simp only [crash_cl]; rfl, by simp only [crash_tasks]; rfl⟩

/-- the table after a block of `p` whose new processes are of no concern -/
theorem il_resume_procs_irrel {s : Sys} (hpw : PW s) {pid : Nat} {p : Proc} (hp : s.proc? pid = some p)
    (ha : p.alive = true) (orc : Oracle)
    (hnewk : ∃ new, (s.block p orc).1.procs = s.procs ++ new ∧ ∀ q ∈ new, q.k.ilRel = false) :
    (∀ q' ∈ (s.resume pid orc).1.procs,
      q' = fin (s.block p orc).2.1 (s.block p orc).2.2 p.wake p ∨ (q' ∈ s.procs ∧ q'.pid ≠ pid) ∨
      (q'.k.ilRel = false ∧ s.nextPid ≤ q'.pid)) ∧
    (∀ q ∈ s.procs, q.pid ≠ pid → q ∈ (s.resume pid orc).1.procs) := by
  obtain ⟨hpm, hpid⟩ := proc?_some hp
  obtain ⟨e1, _, _⟩ := il_resume_procs_eq s pid orc p hp ha
  obtain ⟨new, hnew, hk⟩ := hnewk
  have hnw := block_ilnw s p orc
  rw [e1]
  refine ⟨?_, ?_⟩
  · intro q' hq'
    obtain ⟨q, hq, rfl⟩ := mem_updProc.mp hq'
    have hq2 := hq
    rw [hnew, List.mem_append] at hq2
    rcases hq2 with hold | hn
    · by_cases e : q.pid = pid
      · have : q = p := hpw.eq_of_pid hold hpm (e.trans hpid.symm)
        subst this
        rw [if_pos e]; exact Or.inl rfl
      · rw [if_neg e]; exact Or.inr (Or.inl ⟨hold, e⟩)
    · rcases hnw.2 q hq with hold | ⟨_, _, _, w4⟩
      · by_cases e : q.pid = pid
        · have : q = p := hpw.eq_of_pid hold hpm (e.trans hpid.symm)
          subst this
          rw [if_pos e]; exact Or.inl rfl
        · rw [if_neg e]; exact Or.inr (Or.inl ⟨hold, e⟩)
      · have hne : q.pid ≠ pid := by
          have := hpw.lt p hpm
          omega
        rw [if_neg hne]
        exact Or.inr (Or.inr ⟨hk q hn, w4⟩)
  · intro q hq hne
    have hpre : s.procs <+: (s.block p orc).1.procs := block_pre s p orc
    exact mem_updProc.mpr ⟨q, hpre.subset hq, by rw [if_neg hne]⟩

/-- a block of a process the invariant does not talk about (and that is no task body) -/
theorem ilti_step_neutral {s : Sys} (hs : SInv s) (h : ILTI s) {pid : Nat} {p : Proc}
    (hp : s.proc? pid = some p) (ha : p.alive = true) (orc : Oracle)
    (hq : ILTQ s (s.block p orc).1) (hk : p.k.ilRel = false ∧ p.k.isDoWork = false)
    (hk' : (s.block p orc).2.1.ilRel = false) : ILTI (s.resume pid orc).1 := by
  obtain ⟨hpm, hpid⟩ := proc?_some hp
  have hpw := hs.pw
  obtain ⟨f1, f2, f3⟩ := il_resume_fields s pid orc p hp ha
  obtain ⟨m1, m3⟩ := il_resume_procs_irrel hpw hp ha orc hq.newp
  apply h.frame
  · rw [f1]; exact hq.obs
  · rw [f2]; exact hq.pend
  · intro e _; rw [f2, hq.runOn]
  · rw [f3]; exact hq.tasks
  · intro q hqm hrel
    apply m3 q hqm
    intro e
    have : q = p := hpw.eq_of_pid hqm hpm (e.trans hpid.symm)
    subst this
    rcases hrel with hrel | hrel
    · rw [hk.1] at hrel; exact absurd hrel (by simp)
    · rw [hk.2] at hrel; exact absurd hrel (by simp)
  · intro q' hq'
    rcases m1 q' hq' with rfl | ⟨hold, _⟩ | ⟨hirr, hge⟩
    · right
      refine ⟨by simpa using hk', ?_⟩
      intro r hr hrk e
      have : r = p := hpw.eq_of_pid hr hpm (by simpa [hpid] using e)
      subst this
      rw [hk.2] at hrk; exact absurd hrk (by simp)
    · exact Or.inl hold
    · right
      refine ⟨hirr, ?_⟩
      intro r hr _ e
      have := hpw.lt r hr
      omega

end Sys
end Topsim
