/-
  SimOrder5 — the transitions that must have emitted: along every trajectory of the
  block system (any order of the blocks),

  * a FINISHED observation has a `telFinished` event in the trace;
  * an observation in the hot buffer's `finished` list has an `allocStopped` event;
  * while no block has raised, an ingest stream that has run has a `bufAdded` event;
  * while no block has raised, every `allocStopped` comes with a `queueRemoved`.

  With the predecessor facts of LifeCycle12/13 and `finished_all_removed2`: at
  `is_finished()` of a run that did not raise, every observation has all eight
  life-cycle kinds in the trace.
-/
import TopsimProofs.SimOrder4
import TopsimProofs.FinishStr4

namespace Topsim
namespace Sys

/-! ### the telescope: FINISHED only with `telFinished` -/

theorem so_telStep_finConv {n : Nat} {oid : Oid} {acc acc' : Sys × Option Err} {t : List Event}
    (h : TelStep n oid acc acc' t) (o : Oid) :
    obsFin acc'.1 o → obsFin acc.1 o ∨ 1 ≤ evCount o .telFinished t := by
  cases h with
  | quiet _ _ hobs => exact fun h => Or.inl ((obsFin_congr hobs o).mp h)
  | start ob _ _ _ hob _ _ _ hobs =>
    rintro ⟨r', hr', hst'⟩
    left
    rw [lcObs?_updObs hobs (fun _ => rfl) o] at hr'
    split at hr'
    · cases hr0 : acc.1.obs? o with
      | none => rw [hr0] at hr'; simp at hr'
      | some r =>
        rw [hr0] at hr'
        simp only [Option.map_some, Option.some.injEq] at hr'
        subst hr'
        exact ⟨r, hr0, hst'⟩
    · exact ⟨r', hr', hst'⟩
  | finish ob a _ _ _ hob hst _ _ _ _ hobs =>
    rintro ⟨r', hr', hst'⟩
    by_cases e : o = oid
    · right; subst e; rw [evCount_single]; simp
    · left
      rw [lcObs?_updObs hobs (fun _ => rfl) o, if_neg e] at hr'
      exact ⟨r', hr', hst'⟩

theorem so_telRun_finConv {n : Nat} {l : List Oid} {acc acc' : Sys × Option Err} {L : List Event}
    (h : TelRun n l acc acc' L) (o : Oid) :
    obsFin acc'.1 o → obsFin acc.1 o ∨ 1 ≤ evCount o .telFinished L := by
  induction h with
  | nil acc => exact fun h => Or.inl h
  | cons oid l acc acc1 acc2 t L ht _ ih =>
    intro h
    rw [evCount_append]
    rcases ih h with h1 | h1
    · rcases so_telStep_finConv ht o h1 with h2 | h2
      · exact Or.inl h2
      · right; omega
    · right; omega

/-- an observation FINISHED after a step was FINISHED before, or the step emitted its
`telFinished` -/
theorem so_fin_step (s : Sys) (pid : Nat) (orc : Oracle) (p : Proc) (hp : s.proc? pid = some p)
    (ha : p.alive = true) (o : Oid) (hfin : obsFin (s.resume pid orc).1 o) :
    obsFin s o ∨ 1 ≤ evCount o .telFinished (s.stepEvents pid orc) := by
  obtain ⟨ob', hob', hst'⟩ := hfin
  obtain ⟨ob, hob, _, _, hs⟩ := step_recs s pid orc p hp ha o ob' hob'
  rcases hs with e | ⟨hk, _⟩ | ⟨tl, _, _, e⟩
  · left; exact ⟨ob, hob, by rw [← e]; exact hst'⟩
  · rw [stepEvents_alive orc hp ha]
    have hobs : (s.resume pid orc).1.obs = (s.block p orc).1.obs :=
      (resume_alive s pid orc p hp ha).2.2.2.2.2.1
    have hfb : obsFin (s.block p orc).1 o := (obsFin_congr hobs o).mp ⟨ob', hob', hst'⟩
    rcases blockEvents_telescope (s := s) orc hk with ⟨_, hb, _⟩ | ⟨s0, e0, _, g2, _, _, _, _, _, hrun, _⟩
    · left; rw [hb] at hfb; exact hfb
    · rcases so_telRun_finConv hrun o hfb with h1 | h1
      · left; exact (obsFin_congr g2 o).mp h1
      · right; exact h1
  · rw [e] at hst'; cases hst'

/-! ### the ingest stream: its first block emits `bufAdded` or raises -/

theorem so_stream_first (s : Sys) (p : Proc) (orc : Oracle) {o : Oid} {tl : Int}
    (hk : p.k = .ingestStream o tl) (hpc : p.pc = 0) (hnr : ∀ e, (s.block p orc).2.2 ≠ .raised e) :
    (⟨natNow p.wake, o, .bufAdded⟩ : Event) ∈ blockEvents s p orc := by
  have hpc' : s.preClear p.k = s := preClear_other (by simp [hk]) (by simp [hk])
  have hb := block_ingestStream (s := s) orc hk
  unfold ingestStreamBlock at hb
  rw [if_pos hpc] at hb
  cases hob : s.obs? o with
  | none =>
    simp only [hob] at hb
    exact absurd (by rw [hb]) (hnr .other)
  | some ob =>
    simp only [hob] at hb
    by_cases hwt : ob.status = .waiting
    · rw [if_pos hwt] at hb
      exact absurd (by rw [hb]) (hnr .runtime)
    · rw [if_neg hwt] at hb
      have hev : Ev3 (s.preClear p.k) (s.block p orc).1 [] [] [⟨natNow p.wake, o, .bufAdded⟩] := by
        rw [hpc', hb]
        exact (ev3_addBuf s _).nil_trans (ingestStreamIter_ev3 _ _ _ _)
      rw [blockEvents_of_ev3 hev]; simp

/-! ### the invariant -/

structure LcPres (s : Sys) (evs : List Event) : Prop where
  fin : ∀ o, obsFin s o → hasEv evs o .telFinished (fun _ => True)
  rem : ∀ o ∈ s.buf.hot.finished, hasEv evs o .allocStopped (fun _ => True)
  str : s.crashed = none → ∀ q ∈ s.procs, ∀ o tl, q.k = .ingestStream o tl → 1 ≤ q.pc →
    hasEv evs o .bufAdded (fun _ => True)
  qr : s.crashed = none → ∀ e ∈ evs, e.kind = .allocStopped →
    hasEv evs e.obs .queueRemoved (fun _ => True)

theorem hasEv_of_count {evs : List Event} {o : Oid} {k : EvKind} (h : 1 ≤ evCount o k evs) :
    hasEv evs o k (fun _ => True) := by
  obtain ⟨e, he, h1, h2⟩ := (evCount_pos_iff o k evs).mp (by omega)
  exact ⟨e, he, h1, h2, trivial⟩

theorem pres_step {s : Sys} {evs : List Event} (hi : EInv s) (hat : LcATI s) (h : LcPres s evs)
    {pid : Nat} (hen : s.enabled pid) (orc : Oracle) :
    LcPres (s.resume pid orc).1 (evs ++ s.stepEvents pid orc) := by
  obtain ⟨p, hp, ha, hmin⟩ := hen
  obtain ⟨hpm, hpid⟩ := proc?_some hp
  obtain ⟨new, hnew, hnewp⟩ := block_newp s p orc
  have hm := resume_memSpec hi hp ha hmin orc hnew
  have hse := stepEvents_alive (s := s) orc hp ha
  refine ⟨?_, ?_, ?_, ?_⟩
  · -- FINISHED
    intro o hfin
    rcases so_fin_step s pid orc p hp ha o hfin with h1 | h1
    · exact (h.fin o h1).left _
    · exact (hasEv_of_count h1).right _
  · -- removed from the hot buffer
    intro o ho
    rw [resume_buf s pid orc p hp ha] at ho
    by_cases hold : o ∈ s.buf.hot.finished
    · exact (h.rem o hold).left _
    · rcases (block_hot s p orc).2.2 o ho with h1 | ⟨sc, pa, po, hk⟩
      · exact absurd h1 hold
      · apply hasEv.right
        rw [hse]
        rcases blockEvents_allocTasks (s := s) orc hk with ⟨hf, _⟩ | ⟨_, c, u, hatev, hbe⟩
        · cases hf
        · rw [hbe]
          have hsb := atStart_buf s p.wake p.pc o
          generalize s.block p orc = r at hatev ho
          cases hatev with
          | quiet X k y sc pa po _ hb _ _ =>
            exfalso; apply hold
            have : X.buf = s.buf := hb.trans hsb
            rw [← this]; exact ho
          | finish X sc pa po _ _ _ _ _ =>
            exact hasEv.of_mem (n := natNow p.wake) (by simp) trivial
          | finishBad X sc pa po e _ _ _ _ _ =>
            exact hasEv.of_mem (n := natNow p.wake) (by simp) trivial
          | finishWait X sc pa po _ _ hb _ =>
            exfalso; apply hold
            have : X.buf = s.buf := hb.trans hsb
            rw [← this]; exact ho
  · -- streams
    intro hc q' hq' o tl hqk hqc
    obtain ⟨hc0, hnr⟩ := resume_nocrash s pid orc p hp ha hc
    rcases (hm q').mp hq' with rfl | ⟨hq0, _⟩ | hqn
    · rw [fin_k] at hqk
      obtain ⟨tl0, hpk⟩ := ((block_class s hi.pw p orc).1 o).mp ⟨tl, hqk⟩
      by_cases hpc : p.pc = 0
      · apply hasEv.right
        rw [hse]
        exact hasEv.of_mem (so_stream_first s p orc hpk hpc hnr) trivial
      · exact (h.str hc0 p hpm o tl0 hpk (by omega)).left _
    · exact (h.str hc0 q' hq0 o tl hqk hqc).left _
    · have := (hnewp q' hqn).2.1
      omega
  · -- `queueRemoved` with `allocStopped`
    intro hc e he hk
    obtain ⟨hc0, hnr⟩ := resume_nocrash s pid orc p hp ha hc
    rcases List.mem_append.mp he with he | he
    · exact (h.qr hc0 e he hk).left _
    · apply hasEv.right
      rw [hse] at he ⊢
      rcases blockEvents_kinds s p orc e he with ⟨_, g⟩ | ⟨_, g⟩ | ⟨_, g⟩ | ⟨⟨sc, pa, po, fn, hpk⟩, _⟩ | ⟨_, g⟩
      · rcases g with g | g <;> rw [hk] at g <;> cases g
      · rw [hk] at g; cases g
      · rw [hk] at g; cases g
      · rcases blockEvents_allocTasks (s := s) orc hpk with ⟨_, h0, _⟩ | ⟨hf, c, u, hatev, hbe⟩
        · rw [h0] at he; simp at he
        · subst hf
          rw [hbe] at he ⊢
          have hsched := hat.sched p hpm ha e.obs sc pa po hpk
          have hsb := atStart_buf s p.wake p.pc e.obs
          generalize hr : s.block p orc = r at hatev
          cases hatev with
          | quiet X k y sc pa po _ _ _ _ =>
            exfalso
            simp only [List.append_nil] at he
            split at he
            · simp only [List.mem_singleton] at he
              rw [he] at hk; cases hk
            · simp at he
          | finish X sc pa po _ _ _ _ _ =>
            exact hasEv.of_mem (n := natNow p.wake) (by simp) trivial
          | finishBad X sc pa po e' _ _ _ _ _ =>
            exfalso
            exact hnr e' (by rw [hr])
          | finishWait X sc pa po _ hnin _ _ =>
            exfalso
            apply hnin
            rw [hsb]; exact hsched
      · unfold isTransfer at g
        rcases g with g | g <;> rw [hk] at g <;> cases g

theorem pres_start (s0 : Sys) (hw : WFConfig s0) (hbuf : bufList s0.buf = []) : LcPres s0.start [] := by
  refine ⟨?_, ?_, ?_, by simp⟩
  · rintro o ⟨ob, hob, hst⟩
    rw [obs?_congr (start_obs s0)] at hob
    have := (hw.obsWaiting ob (obs_mem_of_obs? hob).1).1
    rw [this] at hst; cases hst
  · intro o ho
    have hb : s0.start.buf = s0.buf := by simp [start, spawn]
    rw [hb] at ho
    have : o ∈ bufList s0.buf := by
      unfold bufList
      simp only [List.mem_append]
      exact Or.inl (Or.inr ho)
    rw [hbuf] at this; simp at this
  · intro _ q hq o tl hk
    rw [start_procs s0 hw] at hq
    simp only [List.mem_cons, List.not_mem_nil, or_false] at hq
    rcases hq with rfl | rfl | rfl | rfl | rfl <;> simp at hk

theorem reachEvOk_pres {s0 s : Sys} {evs : List Event} (hw : WFConfig s0) (hbuf : bufList s0.buf = [])
    (h : ReachEvOk s0 s evs) : LcPres s evs := by
  induction h with
  | start => exact pres_start s0 hw hbuf
  | step s evs pid orc hr hen _ ih =>
    exact pres_step (reach_einv s0 s hw hr.toOk.toReach) (reachOk_ati s0 s hw hbuf hr.toOk) ih hen orc

/-! ### at `is_finished()` -/

/-- at `is_finished()` of a run in which no block raised, every observation has an event of each
of the eight life-cycle kinds in the trace -/
theorem finished_all_kinds (s0 s : Sys) (evs : List Event) (hw : WFConfig s0)
    (hbuf : bufList s0.buf = [])
    (hsz0 : s0.buf.size = [] ∧ s0.buf.hot.cur ≤ s0.buf.hot.total ∧ s0.buf.cold.cur ≤ s0.buf.cold.total)
    (hrate : ∀ o ∈ s0.obs, 0 < o.rate)
    (h : ReachEvOk s0 s evs) (hf : s.isFinished = true) (hc : s.crashed = none) :
    ∀ ob ∈ s.obs, ∀ k : EvKind, k ≠ .transferStarted → k ≠ .transferStopped →
      ∃ e ∈ evs, e.obs = ob.id ∧ e.kind = k := by
  have hpres := reachEvOk_pres hw hbuf h
  have hsw := reachEvOk_sw hw hbuf h
  obtain ⟨hsi, _⟩ := reachOk_sh2 s0 s hw hbuf hsz0 hrate h.toOk hc
  obtain ⟨_, _, _, ht⟩ := (sim_isFinished_iff s).mp hf
  obtain ⟨hfin, _, _⟩ := (telescope_isIdle_iff s).mp ht
  have hrem := finished_all_removed2 s0 s hw hbuf hsz0 hrate h.toOk hf hc
  have hnd : (s.obs.map (·.id)).Nodup := (reach_einv s0 s hw h.toOk.toReach).eg.obsNodup
  intro ob hob
  have strip : ∀ {k : EvKind}, hasEv evs ob.id k (fun _ => True) → ∃ e ∈ evs, e.obs = ob.id ∧ e.kind = k :=
    fun ⟨e, he, h1, h2, _⟩ => ⟨e, he, h1, h2⟩
  -- allocation stopped, and what comes with it
  obtain ⟨eP, hePm, hePo, hePk, _⟩ := hpres.rem ob.id (hrem ob hob)
  have hBR := hsw.pb eP hePm hePk
  have hQR := hpres.qr hc eP hePm hePk
  obtain ⟨eS, heSm, heSo, heSk, _⟩ := hsw.ap eP hePm hePk
  obtain ⟨eQ, heQm, heQo, heQk, _⟩ := hsw.as eS heSm heSk
  have hTS := hsw.qa eQ heQm heQk
  -- the ingest side
  have hTF := hpres.fin ob.id ⟨ob, obs?_of_mem hnd hob, hfin ob hob⟩
  obtain ⟨q, hq, tl, hqk, hqc⟩ := hsi.fs ob hob (hfin ob hob)
  have hBA := hpres.str hc q hq ob.id tl hqk hqc
  intro k hk1 hk2
  cases k with
  | telStarted =>
    obtain ⟨e, he, h1, h2, _⟩ := hTS
    exact ⟨e, he, by rw [h1, heQo, heSo, hePo], h2⟩
  | telFinished => exact strip hTF
  | bufAdded => exact strip hBA
  | bufRemoved =>
    obtain ⟨e, he, h1, h2, _⟩ := hBR
    exact ⟨e, he, by rw [h1, hePo], h2⟩
  | queueAdded => exact ⟨eQ, heQm, by rw [heQo, heSo, hePo], heQk⟩
  | queueRemoved =>
    obtain ⟨e, he, h1, h2, _⟩ := hQR
    exact ⟨e, he, by rw [h1, hePo], h2⟩
  | allocStarted => exact ⟨eS, heSm, by rw [heSo, hePo], heSk⟩
  | allocStopped => exact ⟨eP, hePm, hePo, hePk⟩
  | transferStarted => exact absurd rfl hk1
  | transferStopped => exact absurd rfl hk2

end Sys
end Topsim
