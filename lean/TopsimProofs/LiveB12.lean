/-
  LiveB12 — BatchProcessing: the declarations of Live12 that depend on the configuration hypotheses,
  for `LiveCfgB` / `NcCfgB` (`s0.alg = .batch …`).  Generated from Live12.lean by renaming (suffix `_B`);
  the algorithm-dependent ones are rewritten (see the comments).
-/
import TopsimProofs.Live12
import TopsimProofs.LiveB5
import TopsimProofs.LiveB6
import TopsimProofs.LiveB6b
import TopsimProofs.LiveB6c
import TopsimProofs.LiveB6d
import TopsimProofs.LiveB9
import TopsimProofs.LiveB10

namespace Topsim
open KState Sys
section
variable {env : SimEnv} {s0 : Sys}

theorem live_ids_B (C : LiveCfgB env s0) (n : Nat) :
    (simAt env s0 n).st.obs.map (·.id) = s0.obs.map (·.id) := by
  have h := live_keep0_B C n
  have e : ∀ l : List Obs, l.map (·.id) = (l.map Obs.stat).map (·.1) := by
    intro l; rw [List.map_map]; rfl
  rw [e, e, h]

theorem live_obs?_ids_B (C : LiveCfgB env s0) (n : Nat) {o : Oid} {ob : Obs}
    (h : (simAt env s0 n).st.obs? o = some ob) : o ∈ s0.obs.map (·.id) := by
  obtain ⟨hm, hid⟩ := obs_mem_of_obs? h
  rw [← live_ids_B C n, ← hid]
  exact List.mem_map_of_mem hm

theorem live_stab_B (C : LiveCfgB env s0) (K : LiveKernel env s0) : ∃ n₀, LiveStab env s0 n₀ := by
  obtain ⟨n1, h1⟩ := stab_list (s0.obs.map (·.id)) (fun o n => Sys.PAdm o (simAt env s0 n).st)
    (fun o _ n h => live_PAdm_mono_B C K (Nat.le_succ n) h)
  obtain ⟨n2, h2⟩ := stab_list (s0.obs.map (·.id)) (fun o n => Sys.PAst o (simAt env s0 n).st)
    (fun o _ n h => live_PAst_mono_B C K (Nat.le_succ n) h)
  obtain ⟨n3, h3⟩ := stab_list (s0.obs.map (·.id)) (fun o n => Sys.PRun o (simAt env s0 n).st)
    (fun o _ n h => live_PRun_mono_B C K (Nat.le_succ n) h)
  obtain ⟨n4, h4⟩ := stab_list (s0.obs.map (·.id)) (fun o n => Sys.PFin o (simAt env s0 n).st)
    (fun o _ n h => live_PFin_mono_B C K (Nat.le_succ n) h)
  obtain ⟨n5, h5⟩ := stab_list (s0.obs.map (·.id)) (fun o n => Sys.PQ o (simAt env s0 n).st)
    (fun o _ n h => live_PQ_mono_B C K (Nat.le_succ n) h)
  obtain ⟨n6, h6⟩ := stab_list (s0.obs.map (·.id)) (fun o n => Sys.PRm o (simAt env s0 n).st)
    (fun o _ n h => live_PRm_mono_B C K (Nat.le_succ n) h)
  obtain ⟨n7, h7⟩ := stab_list (livePairs s0) (fun pr n => Sys.PAT pr.1 pr.2 (simAt env s0 n).st)
    (fun pr _ n h => live_PAT_mono_B C K (Nat.le_succ n) h)
  refine ⟨n1 + n2 + n3 + n4 + n5 + n6 + n7, ?_, ?_, ?_, ?_, ?_, ?_, ?_⟩
  · exact fun o ho => (h1 o ho).later (by omega)
  · exact fun o ho => (h2 o ho).later (by omega)
  · exact fun o ho => (h3 o ho).later (by omega)
  · exact fun o ho => (h4 o ho).later (by omega)
  · exact fun o ho => (h5 o ho).later (by omega)
  · exact fun o ho => (h6 o ho).later (by omega)
  · exact fun pr hpr => (h7 pr hpr).later (by omega)

theorem live_spawn_late_B (C : LiveCfgB env s0) (K : LiveKernel env s0) (Pt : LivePartsB env s0) {n₀ : Nat}
    (hs : LiveStab env s0 n₀) {n : Nat} (hn : n₀ ≤ n)
    (hsp : (simAt env s0 n).st.nextPid < (simAt env s0 (n + 1)).st.nextPid) :
    ∃ e p, (simAt env s0 n).peek = some e ∧ (simAt env s0 n).st.proc? e.pid = some p ∧ p.alive = true ∧
      p.pc = 0 ∧ (p.k.tag = "provIngest" ∨ p.k.tag = "allocTask") := by
  obtain ⟨e, p, hpk, hpp, ha, hc⟩ := live_spawn_cases_B C K Pt n hsp
  refine ⟨e, p, hpk, hpp, ha, ?_⟩
  rcases hc with ⟨o, ⟨ob, hob⟩, h1, h2⟩ | ⟨o, ⟨ob, hob⟩, h1, h2⟩ | ⟨o, ⟨ob, hob⟩, h1, h2⟩ |
      ⟨o, ob, hob, hid, node, hnode, h1, h2⟩ | h
  · exact absurd (((hs.adm o (live_obs?_ids_B C n hob)).eq hn (by omega : n₀ ≤ n + 1)).mpr h2) h1
  · exact absurd (((hs.run o (live_obs?_ids_B C n hob)).eq hn (by omega : n₀ ≤ n + 1)).mpr h2) h1
  · exact absurd (((hs.q o (live_obs?_ids_B C n hob)).eq hn (by omega : n₀ ≤ n + 1)).mpr h2) h1
  · have hpr := mem_livePairs hob hnode
    rw [hid] at hpr
    exact absurd (((hs.atn (o, node) hpr).eq hn (by omega : n₀ ≤ n + 1)).mpr h2) h1
  · exact h

/-- after stabilisation, the processes that have not run their first block yet are all due before
some fixed time -/
theorem live_pc0_bound_B (C : LiveCfgB env s0) (K : LiveKernel env s0) (Pt : LivePartsB env s0) {n₀ : Nat}
    (hs : LiveStab env s0 n₀) :
    ∃ T : Nat, ∀ n, n₀ ≤ n → ∀ q ∈ (simAt env s0 n).st.procs, q.alive = true → q.pc = 0 →
      q.wake ≤ ((T : Nat) : Time) := by
  obtain ⟨T, hT⟩ := list_wake_bound (simAt env s0 n₀).st.procs
  refine ⟨T, fun n hn => ?_⟩
  induction n with
  | zero =>
    have : n₀ = 0 := by omega
    subst this
    exact fun q hq _ _ => hT q hq
  | succ n ih =>
    by_cases e0 : n₀ = n + 1
    · subst e0
      exact fun q hq _ _ => hT q hq
    · have ih' := ih (by omega)
      obtain ⟨e, p, hpk, hpp, ha, het, hen, hstep, hst⟩ := live_step_B C K n
      have hpw := (live_sinv_B C K n).pw
      have hpw' := (live_sinv_B C K (n + 1)).pw
      obtain ⟨m1, _, _⟩ := il_resume_procs_mem hpw hpp ha (env.oracle (simAt env s0 n).st)
      intro q hq hqa hq0
      have hq' : q ∈ ((simAt env s0 n).st.resume e.pid (env.oracle (simAt env s0 n).st)).1.procs := by
        rw [← hst]; exact hq
      rcases m1 q hq' with rfl | ⟨hold, _⟩ | ⟨w1, _, _, w4⟩
      · simp at hq0
      · exact ih' q hold hqa hq0
      · -- a new process: the block created a process, so it is a first block
        have hlt := hpw'.lt q hq
        have hsp : (simAt env s0 n).st.nextPid < (simAt env s0 (n + 1)).st.nextPid := by omega
        obtain ⟨e2, p2, hpk2, hpp2, ha2, hpc2, htag2⟩ := live_spawn_late_B C K Pt hs (by omega) hsp
        rw [hpk] at hpk2
        cases hpk2
        rw [hpp] at hpp2
        cases hpp2
        rw [w1, ilSpawnTime_of_tag htag2]
        exact ih' p (proc?_some hpp).1 ha hpc2

/-- **No more processes.**  From some index on no block creates a process. -/
theorem live_no_spawn_B (C : LiveCfgB env s0) (K : LiveKernel env s0) (Pt : LivePartsB env s0) :
    ∃ n₂, LiveStab env s0 n₂ ∧ ∀ n, n₂ ≤ n → (simAt env s0 n).st.nextPid = (simAt env s0 n₂).st.nextPid := by
  obtain ⟨n₀, hs⟩ := live_stab_B C K
  obtain ⟨T, hT⟩ := live_pc0_bound_B C K Pt hs
  obtain ⟨n₂, hle, hheap⟩ := K.div n₀ (T + 1)
  have hs2 := hs.later hle
  refine ⟨n₂, hs2, ?_⟩
  -- no live process before its first block from `n₂` on
  have hnone : ∀ n, n₂ ≤ n → ∀ q ∈ (simAt env s0 n).st.procs, q.alive = true → q.pc ≠ 0 := by
    intro n hn q hq hqa hq0
    have hb := hT n (by omega) q hq hqa hq0
    obtain ⟨x, hx, _, hxt⟩ := ((K.reach n).l3inv C.hw).heap.live q hq hqa
    have hge := K.minMono n₂ n _ hn hheap x hx
    rw [hxt] at hge
    have hlt : ((T : Nat) : Time) < ((T + 1 : Nat) : Time) := by
      have : T < T + 1 := Nat.lt_succ_self _
      exact_mod_cast this
    exact absurd (Rat.le_trans hge hb) (Rat.not_le.mpr hlt)
  have hstep : ∀ n, n₂ ≤ n → (simAt env s0 (n + 1)).st.nextPid = (simAt env s0 n).st.nextPid := by
    intro n hn
    have hle' : (simAt env s0 n).st.nextPid ≤ (simAt env s0 (n + 1)).st.nextPid := by
      obtain ⟨e, p, _, _, _, _, _, _, hst⟩ := live_step_B C K n
      rw [hst]; exact resume_np _ _ _
    by_cases hsp : (simAt env s0 n).st.nextPid < (simAt env s0 (n + 1)).st.nextPid
    · obtain ⟨e, p, _, hpp, ha, hpc, _⟩ := live_spawn_late_B C K Pt hs2 hn hsp
      exact absurd hpc (hnone n hn p (proc?_some hpp).1 ha)
    · omega
  intro n hn
  induction n with
  | zero =>
    have : n₂ = 0 := by omega
    subst this; rfl
  | succ n ih =>
    by_cases e0 : n₂ = n + 1
    · subst e0; rfl
    · rw [hstep n (by omega), ih (by omega)]

theorem live_workers_dead_list_B (C : LiveCfgB env s0) (K : LiveKernel env s0) (Pt : LivePartsB env s0) (n₂ : Nat)
    (l : List Proc) (hl : ∀ q ∈ l, q ∈ (simAt env s0 n₂).st.procs) :
    ∃ n₃, n₂ ≤ n₃ ∧ ∀ q ∈ l, (q.k.tag = "allocIngest" ∨ q.k.tag = "provIngest" ∨ q.k.tag = "ingestStream" ∨
      q.k.tag = "allocTask" ∨ q.k.tag = "doWork") →
      ∀ n, n₃ ≤ n → ∃ q', (simAt env s0 n).st.proc? q.pid = some q' ∧ q'.alive = false := by
  induction l with
  | nil => exact ⟨n₂, Nat.le_refl _, fun q hq => by simp at hq⟩
  | cons a l ih =>
    obtain ⟨n3, hle3, h3⟩ := ih (fun q hq => hl q (List.mem_cons_of_mem _ hq))
    have ham : a ∈ (simAt env s0 n₂).st.procs := hl a (by simp)
    have hpa : (simAt env s0 n₂).st.proc? a.pid = some a := (live_sinv_B C K n₂).pw.proc?_of_mem ham
    by_cases htag : a.k.tag = "allocIngest" ∨ a.k.tag = "provIngest" ∨ a.k.tag = "ingestStream" ∨
        a.k.tag = "allocTask" ∨ a.k.tag = "doWork"
    · -- `a` ends at some index
      have hend : ∃ n4, n₂ ≤ n4 ∧ ∃ a', (simAt env s0 n4).st.proc? a.pid = some a' ∧ a'.alive = false := by
        by_cases haa : a.alive = true
        · exact Pt.worker_ends hpa haa htag
        · exact ⟨n₂, Nat.le_refl _, a, hpa, by simpa using haa⟩
      obtain ⟨n4, hle4, a', hpa', hda'⟩ := hend
      refine ⟨n3 + n4, by omega, fun q hq hqt n hn => ?_⟩
      rcases List.mem_cons.mp hq with rfl | hq
      · exact live_dead_mono_B C K (by omega : n4 ≤ n) hpa' hda'
      · exact h3 q hq hqt n (by omega)
    · refine ⟨n3, hle3, fun q hq hqt n hn => ?_⟩
      rcases List.mem_cons.mp hq with rfl | hq
      · exact absurd hqt htag
      · exact h3 q hq hqt n hn

/-- **Quiescence.**  From some index on: the monotone predicates are constant, no process is created,
and no worker process is alive. -/
theorem live_quiescent_B (C : LiveCfgB env s0) (K : LiveKernel env s0) (Pt : LivePartsB env s0) :
    ∃ N, LiveStab env s0 N ∧ ∀ n, N ≤ n → (simAt env s0 n).st.NoWorker := by
  obtain ⟨n₂, hs, hnp⟩ := live_no_spawn_B C K Pt
  obtain ⟨n₃, hle, hdead⟩ := live_workers_dead_list_B C K Pt n₂ (simAt env s0 n₂).st.procs (fun q hq => hq)
  refine ⟨n₃, hs.later hle, fun n hn q hq hqa => ?_⟩
  -- `q` has the pid of a process of index `n₂`
  have hpw := (live_sinv_B C K n).pw
  have hlt : q.pid < (simAt env s0 n₂).st.nextPid := by
    rw [← hnp n (by omega)]; exact hpw.lt q hq
  have hin : q.pid ∈ (simAt env s0 n₂).st.procs.map (·.pid) := by
    rw [K.pidIdx n₂]; exact List.mem_range.mpr hlt
  obtain ⟨q0, hq0, hq0p⟩ := List.mem_map.mp hin
  obtain ⟨q1, hq1, hq1p, hq1t, _⟩ := live_procs_keep_B C K (by omega : n₂ ≤ n) q0 hq0
  have hqq : q1 = q := hpw.eq_of_pid hq1 hq (hq1p.trans hq0p)
  subst hqq
  have hnot : ¬ (q0.k.tag = "allocIngest" ∨ q0.k.tag = "provIngest" ∨ q0.k.tag = "ingestStream" ∨
      q0.k.tag = "allocTask" ∨ q0.k.tag = "doWork") := by
    intro htag
    obtain ⟨q', hq', hd'⟩ := hdead q0 hq0 htag n hn
    rw [← hq1p, hpw.proc?_of_mem hq] at hq'
    cases hq'
    rw [hqa] at hd'
    cases hd'
  rw [hq1t]
  refine ⟨fun h => hnot (Or.inl h), fun h => hnot (Or.inr (Or.inl h)),
    fun h => hnot (Or.inr (Or.inr (Or.inl h))), fun h => hnot (Or.inr (Or.inr (Or.inr (Or.inl h)))),
    fun h => hnot (Or.inr (Or.inr (Or.inr (Or.inr h))))⟩
end
end Topsim
