/-
  ResOr12 — `ResOrRI` under `allocate_tasks` with a user algorithm whose proposals are adversarial:
  the allocating outcome (port of FinishRes10) and the assembly.
-/
import TopsimProofs.ResOr11

namespace Topsim
namespace Sys

open Cluster

theorem ResOrRI.atsAlloc {b : Sys} (hb : ResOrRI b) (hpwb : PW b) {p : Proc} (hp : p ∈ b.procs) (ha : p.alive = true)
    {oid : Oid} {sc pa : List (Tid × Mid)} {po : List Tid} (hk : p.k = .allocTasks oid sc pa po false)
    (now : Time) (sched0 pairs : List (Tid × Mid)) (hnd : (dictKeys sched0).Nodup)
    (hsk : ∀ t ∈ dictKeys sched0, tstat b t = .unscheduled → t ∈ planTasks b oid)
    (hpwX : PW (processCurrentSchedule b now oid sched0 pairs).s) (po' : List Tid) (y : Yield) :
    ResOrRI ((processCurrentSchedule b now oid sched0 pairs).s.updProc p.pid
      (fin (.allocTasks oid (processCurrentSchedule b now oid sched0 pairs).schedule
        (processCurrentSchedule b now oid sched0 pairs).pairs po' false) y p.wake)) := by
  obtain ⟨new, hpcs⟩ := processCurrentSchedule_pcs b now oid sched0 pairs hnd
  have hXq := processCurrentSchedule_queue b now oid sched0 pairs
  have hXpl := processCurrentSchedule_plans b now oid sched0 pairs
  have hXcl := processCurrentSchedule_cl b now oid sched0 pairs
  generalize processCurrentSchedule b now oid sched0 pairs = st at hpcs hpwX hXq hXpl hXcl
  have hm := memSpec_updProc hpwb hp new hpcs.procs hpwX
    (fin (.allocTasks oid st.schedule st.pairs po' false) y p.wake)
  have hts : ∀ t, tstat (st.s.updProc p.pid (fin (.allocTasks oid st.schedule st.pairs po' false) y p.wake)) t
      = tstat st.s t := fun _ => rfl
  have hplT : ∀ o, planTasks (st.s.updProc p.pid (fin (.allocTasks oid st.schedule st.pairs po' false) y p.wake)) o
      = planTasks b o := fun o => planTasks_of_plans hXpl o
  -- a task spawned in this round belongs to the plan of `oid`
  have hspawn : ∀ t, (∃ q ∈ new, ∃ m cross, q.k = .allocTask t m cross (some oid) false 0) →
      t ∈ planTasks b oid := by
    rintro t ⟨q, hq, m, cross, hqk⟩
    obtain ⟨_, _, t0, m0, c0, e, g1, g2, _⟩ := hpcs.newk q hq
    rw [hqk] at e
    injection e with e1
    subst e1
    exact hsk t g1 g2
  refine hb.step' hpwb hp hm (by simp) hXq hXpl ?_ ?_ ?_ ?_ ?_ ?_ ?_ ?_
  · intro t hu
    rw [hts] at hu
    rcases hpcs.stat t with e | ⟨_, e, _⟩
    · rw [e] at hu; exact hu
    · rw [e] at hu; exact absurd hu (by simp)
  · intro o c n hf
    rw [hts] at hf
    rcases hpcs.stat (.wf o c n) with e | ⟨_, e, _⟩
    · left; rw [← e]; exact hf
    · rw [e] at hf; exact absurd hf (by simp)
  · intro q hq hqa o sc2 pa2 po2 hqk
    rcases hq with rfl | hq
    · simp only [fin_k, PK.allocTasks.injEq] at hqk
      obtain ⟨rfl, _⟩ := hqk
      exact ⟨rfl, ha, sc, pa, po, hk⟩
    · obtain ⟨_, _, t0, m0, c0, e, _⟩ := hpcs.newk q hq
      rw [e] at hqk; simp at hqk
  · intro hqa o sc2 pa2 po2 hqk
    simp only [fin_k, PK.allocTasks.injEq] at hqk
    obtain ⟨rfl, rfl, _⟩ := hqk
    refine ⟨hpcs.nodup, fun t ht hu => ?_⟩
    rw [hts] at hu
    rw [hplT]
    have hub : tstat b t = .unscheduled := by
      rcases hpcs.stat t with e | ⟨_, e, _⟩
      · rw [← e]; exact hu
      · rw [e] at hu; exact absurd hu (by simp)
    exact hsk t (hpcs.keys t ht) hub
  · intro q hq hqa t m preds o ret hqk
    rcases hq with rfl | hq
    · simp at hqk
    · right
      obtain ⟨_, _, t0, m0, c0, e, g1, g2, g3, _⟩ := hpcs.newk q hq
      rw [hqk] at e
      injection e with e1 e2 e3 e4
      subst e1
      injection e4 with e5
      subst e5
      exact ⟨by rw [hts, g3]; simp, by rw [hplT]; exact hsk t g1 g2⟩
  · exact resOr_rc_quiet hb hpwb hp hm (by show st.s.cl.runOn = _; rw [hXcl]) (by rw [hk]; simp [PK.tag])
  · intro o ho
    have : (st.s.updProc p.pid (fin (.allocTasks oid st.schedule st.pairs po' false) y p.wake)).cl = b.cl := hXcl
    rw [this] at ho; exact hb.keyQ o ho
  · have : (st.s.updProc p.pid (fin (.allocTasks oid st.schedule st.pairs po' false) y p.wake)).cl = b.cl := hXcl
    rw [this]; exact hb.keyNE

attribute [local irreducible] atS3 atStart Sys.updateCurrentPlan processCurrentSchedule in
theorem resOr_riw_allocTasks {s : Sys} (hs : SInv s) (h : ResOrRI s) {p : Proc} (hp : p ∈ s.procs) (ha : p.alive = true)
    (orc : Oracle) {oid : Oid} {sc pa : List (Tid × Mid)} {po : List Tid} {fn : Bool}
    (hk : p.k = .allocTasks oid sc pa po fn) (halg : s.alg = .oracle)
    (hok : fn = false →
      (∀ op ∈ orc.pre, (∃ size o, op = .provBatch size o ∧ o ∈ s.queue) ∨ ∃ o, op = .relBatch o) ∧
      (∀ pr ∈ orc.proposals, tstat s pr.1 = .unscheduled → pr.1 ∈ planTasks s oid)) :
    ResOrRI ((s.block p orc).1.updProc p.pid (fin (s.block p orc).2.1 (s.block p orc).2.2 p.wake)) := by
  have hpw := hs.pw
  obtain ⟨U, hU⟩ := hs.ci
  have hb : s.block p orc = s.allocTasksBlock p.wake orc p.pc oid sc pa po fn := by
    unfold block; simp only [hk]
  rw [hb]
  cases fn with
  | true =>
    rw [allocTasksBlock_fin]
    simp only
    -- a stopped process: nothing depends on it
    have hm := memSpec_updProc hpw hp [] (by simp) hpw (fin (.allocTasks oid sc pa po true) .done p.wake)
    refine h.step' hpw hp hm (by simp) rfl rfl ?_ ?_ ?_ ?_ ?_ ?_ ?_ ?_
    · intro t hu; exact hu
    · intro o c n hf; exact Or.inl hf
    · intro q hq hqa o sc2 pa2 po2 hqk
      rcases hq with rfl | hq
      · simp at hqa
      · simp at hq
    · intro hqa; simp at hqa
    · intro q hq hqa t m preds o ret hqk
      rcases hq with rfl | hq
      · simp at hqa
      · simp at hq
    · exact resOr_rc_quiet h hpw hp hm rfl (by rw [hk]; simp [PK.tag])
    · exact h.keyQ
    · exact h.keyNE
  | false =>
    obtain ⟨hpreO, hprop⟩ := hok rfl
    have hpre : s.alg = .oracle → orc.preOk := by
      intro _ op hop
      rcases hpreO op hop with ⟨n, o, rfl, _⟩ | ⟨o, rfl⟩ <;> trivial
    have hpwX : PW (s.allocTasksBlock p.wake orc p.pc oid sc pa po false).1 :=
      (allocTasksBlock_pres _ _ _ hpre _ _ _ _ _ _).pw hpw
    rw [allocTasksBlock_eq] at hpwX ⊢
    obtain ⟨h1, e_procs, e_np, e_q, e_cl, e_alg, e_ts⟩ := h.pruned p.wake p.pc oid
    have hp1 : p ∈ ((atStart s p.wake p.pc oid).updateCurrentPlan oid).procs := by rw [e_procs]; exact hp
    have hpw1 : PW ((atStart s p.wake p.pc oid).updateCurrentPlan oid) :=
      ⟨by rw [e_procs]; exact hpw.nodup, by rw [e_procs, e_np]; exact hpw.lt⟩
    have hinv1 : Cluster.Inv ((atStart s p.wake p.pc oid).updateCurrentPlan oid).cl U := by rw [e_cl]; exact hU.inv
    have halg1 : ((atStart s p.wake p.pc oid).updateCurrentPlan oid).alg = .oracle := by rw [e_alg]; exact halg
    have hpre1 : ∀ op ∈ orc.pre, (∃ size o, op = .provBatch size o ∧
        o ∈ ((atStart s p.wake p.pc oid).updateCurrentPlan oid).queue) ∨ ∃ o, op = .relBatch o := by
      rw [e_q]; exact hpreO
    have hprop1 : ∀ pr ∈ orc.proposals,
        tstat ((atStart s p.wake p.pc oid).updateCurrentPlan oid) pr.1 = .unscheduled →
        pr.1 ∈ planTasks ((atStart s p.wake p.pc oid).updateCurrentPlan oid) oid := by
      intro pr hpr hu
      rw [e_ts] at hu
      exact resOr_planTasks_pruned s p.wake p.pc oid (hprop pr hpr hu) (by rw [hu]; simp)
    have hout := allocTasksIter_out (atStart s p.wake p.pc oid) p.wake orc oid sc pa po
    generalize (atStart s p.wake p.pc oid).allocTasksIter p.wake orc oid sc pa po = r at hout hpwX ⊢
    have hpw3 : ∀ out, PW (atS3 ((atStart s p.wake p.pc oid).updateCurrentPlan oid) out oid) := fun out =>
      ⟨by rw [atS3_procs]; exact hpw1.nodup, by rw [atS3_procs, atS3_nextPid]; exact hpw1.lt⟩
    cases hout with
    | noPlan _ =>
      refine h1.atsSimple hpw1 hp1 ha hk ?_ hpwX ?_ ?_ ?_ ?_ hinv1.keys _ _ rfl (fun hqa => by simp at hqa)
      · rfl
      · rfl
      · rfl
      · exact fun t => tstat_of_tasks rfl t
      · exact Or.inl rfl
    | algErr plan e _ _ =>
      refine h1.atsSimple hpw1 hp1 ha hk ?_ hpwX ?_ ?_ ?_ ?_ hinv1.keys _ _ rfl (fun hqa => by simp at hqa)
      · rfl
      · rfl
      · rfl
      · exact fun t => tstat_of_tasks rfl t
      · exact Or.inl rfl
    | finish plan out hplan hrun hemp hfin hrem hq =>
      obtain ⟨h3, _, g3, _, _, g6⟩ := resOr_afterOracleW h1 hinv1 hp1 ha hk plan hplan orc halg1 hpre1 hprop1 out hrun
      have hempty : planTasks (atS3 ((atStart s p.wake p.pc oid).updateCurrentPlan oid) out oid) oid = [] := by
        rw [atS3_planTasks]; unfold planTasks; rw [hplan]; exact g3 hfin
      refine h3.atsFinish (hpw3 out) (by rw [atS3_procs]; exact hp1) ha hk ?_ hpwX ?_ ?_ ?_ ?_ g6
        hempty _ _ ⟨_, _, _, rfl⟩
      · rfl
      · rfl
      · rfl
      · exact fun t => tstat_of_tasks rfl t
      · rfl
    | finishBad plan out hplan hrun hemp hfin hrem hq =>
      obtain ⟨h3, _, _, _, _, g6⟩ := resOr_afterOracleW h1 hinv1 hp1 ha hk plan hplan orc halg1 hpre1 hprop1 out hrun
      refine h3.atsSimple (hpw3 out) (by rw [atS3_procs]; exact hp1) ha hk ?_ hpwX ?_ ?_ ?_ ?_ g6 _ _ rfl
        (fun hqa => by simp at hqa)
      · rfl
      · rfl
      · rfl
      · exact fun t => tstat_of_tasks rfl t
      · exact Or.inr rfl
    | finishWait plan out hplan hrun hemp hfin hrem =>
      obtain ⟨h3, _, _, g4, g5, g6⟩ := resOr_afterOracleW h1 hinv1 hp1 ha hk plan hplan orc halg1 hpre1 hprop1 out hrun
      refine h3.atsSimple (hpw3 out) (by rw [atS3_procs]; exact hp1) ha hk ?_ hpwX ?_ ?_ ?_ ?_ g6 _ _ rfl ?_
      · rfl
      · rfl
      · rfl
      · exact fun t => tstat_of_tasks rfl t
      · exact Or.inl rfl
      intro _ o sc2 pa2 po2 e
      simp only [PK.allocTasks.injEq] at e
      obtain ⟨rfl, rfl, _⟩ := e
      exact ⟨rfl, g4, fun t ht hu => by
        rw [atS3_tstat] at hu; rw [atS3_planTasks]; exact g5 t ht hu⟩
    | idle plan out hplan hrun hemp hnf =>
      obtain ⟨h3, _, _, g4, g5, g6⟩ := resOr_afterOracleW h1 hinv1 hp1 ha hk plan hplan orc halg1 hpre1 hprop1 out hrun
      refine h3.atsSimple (hpw3 out) (by rw [atS3_procs]; exact hp1) ha hk ?_ hpwX ?_ ?_ ?_ ?_ g6 _ _ rfl ?_
      · rfl
      · rfl
      · rfl
      · exact fun t => tstat_of_tasks rfl t
      · exact Or.inl rfl
      intro _ o sc2 pa2 po2 e
      simp only [PK.allocTasks.injEq] at e
      obtain ⟨rfl, rfl, _⟩ := e
      exact ⟨rfl, g4, fun t ht hu => by
        rw [atS3_tstat] at hu; rw [atS3_planTasks]; exact g5 t ht hu⟩
    | alloc plan out y hplan hrun hemp hy =>
      obtain ⟨h3, _, _, g4, g5, _⟩ := resOr_afterOracleW h1 hinv1 hp1 ha hk plan hplan orc halg1 hpre1 hprop1 out hrun
      exact h3.atsAlloc (hpw3 out) (by rw [atS3_procs]; exact hp1) ha hk p.wake out.schedule pa g4
        (fun t ht hu => by rw [atS3_tstat] at hu; rw [atS3_planTasks]; exact g5 t ht hu)
        hpwX out.pool y

end Sys
end Topsim
