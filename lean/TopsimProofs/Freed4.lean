/-
  Freed4 — C07, the WHEN of the release, along the simulator's runs (SimPy's order), with time.

  * `FreedClock s τ`: `τ` is a clock of the state — every live process is due at `τ` or later, and
    every live process other than a task body is due at a whole instant, at most one unit after `τ`
    (the pollers run every time unit).  After a block that ran at time `t` the state has clock `t`
    (`freedClock_step`; the L2 form of `bound_wake_nat` of Bound3, for any algorithm and without
    the no-raise hypothesis).
  * `FreedRunFrom env k k'`: `k'` is a later state of the same uninterrupted `env.run`.
  * `freed_within_one_step`: a block has just run at time `t`, and in the state after it `o` is
    resident as scheduled with all its workflow records FINISHED.  Then in every later state of the
    run whose pending events are all later than `t + 1`, and that has not raised, `o` is among the
    removed observations.
-/
import TopsimProofs.Freed3

namespace Topsim

open KState Sys

namespace Sys

/-! ### the clock -/

/-- `τ` is a clock of the state -/
def FreedClock (s : Sys) (τ : Time) : Prop :=
  Now s τ ∧ ∀ q ∈ s.procs, q.alive = true → q.k.tag ≠ "doWork" →
    ∃ m : Nat, q.wake = ((m : Nat) : Time) ∧ ((m : Nat) : Time) ≤ τ + 1

theorem freed_le_add_one (x : Rat) : x ≤ x + 1 := by grind

theorem freed_isDoWork {k : PK} (h : k.tag ≠ "doWork") : k.isDoWork = false := by
  cases k <;> first | rfl | exact absurd rfl h

theorem freedClock_start (s0 : Sys) (hw : WFConfig s0) : FreedClock s0.start 0 := by
  have hp := start_procs s0 hw
  refine ⟨?_, ?_⟩
  · intro q hq _
    rw [hp] at hq
    simp only [List.mem_cons, List.not_mem_nil, or_false] at hq
    rcases hq with rfl | rfl | rfl | rfl | rfl <;> exact Rat.le_refl
  · intro q hq _ _
    rw [hp] at hq
    simp only [List.mem_cons, List.not_mem_nil, or_false] at hq
    refine ⟨0, ?_, ?_⟩
    · rcases hq with rfl | rfl | rfl | rfl | rfl <;> simp
    · have := freed_le_add_one 0
      simpa using this

/-- one block of a process of minimal wake time: the state after it has the time of the block as
a clock -/
theorem freedClock_step {s : Sys} (hs : SInv s) {τ : Time} (h : FreedClock s τ) {pid : Nat} {p : Proc}
    (hp : s.proc? pid = some p) (ha : p.alive = true)
    (hmin : ∀ q ∈ s.procs, q.alive = true → p.wake ≤ q.wake) (orc : Oracle) :
    FreedClock (s.resume pid orc).1 p.wake := by
  obtain ⟨hpm, _⟩ := proc?_some hp
  have hpnat : p.k.tag ≠ "doWork" → ∃ m : Nat, p.wake = ((m : Nat) : Time) := by
    intro hk
    obtain ⟨m, hm, _⟩ := h.2 p hpm ha hk
    exact ⟨m, hm⟩
  have hint : p.k = .telescope → ∃ m : Nat, p.wake = ((m : Nat) : Time) :=
    fun hk => hpnat (by rw [hk]; simp [PK.tag])
  have hnow : Now (s.resume pid orc).1 p.wake := now_step hs hp ha hmin hint orc hmin
  obtain ⟨new, hm, _, hnewp⟩ := ot_step_table hs hp ha hmin orc
  refine ⟨hnow, ?_⟩
  intro q hq hqa hqk
  rcases (hm q).mp hq with rfl | ⟨hq0, _⟩ | hqn
  · -- the process that ran
    obtain ⟨_, d, hd⟩ := fin_alive _ _ _ _ hqa
    have htag : p.k.tag ≠ "doWork" := by
      rw [← block_tag s hs.pw p orc]
      simpa using hqk
    have hu := block_unit s p orc (freed_isDoWork htag)
    rw [hd] at hu
    simp only [Yield.unit] at hu
    subst hu
    obtain ⟨m, hm'⟩ := hpnat htag
    refine ⟨m + 1, ?_, ?_⟩
    · rw [hd, fin_timeout]
      show p.wake + 1 = _
      rw [hm']; simp
    · rw [hm']; simp
  · -- another old process
    obtain ⟨m, hm', hle⟩ := h.2 q hq0 hqa hqk
    exact ⟨m, hm', Rat.le_trans hle (Rat.add_le_add_right.mpr (h.1 p hpm ha))⟩
  · -- a new process
    have hw := (hnewp q hqn).2.2.1
    have hN := (hnewp q hqn).2.2.2
    by_cases hk : p.k.tag = "doWork"
    · exfalso
      cases hpk : p.k <;> rw [hpk] at hk hN <;> simp [PK.tag, NewKind] at hk hN
    · obtain ⟨m, hm'⟩ := hpnat hk
      have hwm : q.wake = ((m : Nat) : Time) := by
        rw [hw]
        split
        · rw [hm', natNow_natCast]
        · exact hm'
      refine ⟨m, hwm, ?_⟩
      rw [hm']
      exact freed_le_add_one _

end Sys

/-! ### along the simulator's runs -/

/-- every state of the simulator has a clock -/
theorem freed_sim_clock (env : SimEnv) (s0 : Sys) (hw : WFConfig s0) (k : SimState)
    (h : SimReach env s0 k) : ∃ τ, FreedClock k.st τ := by
  refine SimReach.sys_induct hw (fun s => ∃ τ, FreedClock s τ) ⟨0, freedClock_start s0 hw⟩
    (fun s ⟨τ, hs⟩ => ⟨τ, hs⟩) (fun s ⟨τ, hs⟩ => ⟨τ, hs⟩) ?_ k h
  intro k hr ⟨τ, ih⟩ pid p hp ha hen
  obtain ⟨p', hp', _, hmin⟩ := hen
  rw [hp] at hp'; cases hp'
  exact ⟨p.wake, freedClock_step (hr.l3inv hw).sinv ih hp ha hmin _⟩

/-- one kernel step that does not end the run is one block of a live, enabled process due at the
time of the popped event; the state after it has that time as a clock -/
theorem freed_sim_step {env : SimEnv} {s0 : Sys} (hw : WFConfig s0) {k k1 : SimState}
    (h : SimReach env s0 k) (hs : k.step (simHandler env) = some k1) (hh1 : k1.st.halted = false) :
    ∃ e p, k.peek = some e ∧ k.st.proc? e.pid = some p ∧ p.alive = true ∧ e.time = p.wake ∧
      k.st.enabled e.pid ∧ k1.st = (k.st.resume e.pid (env.oracle k.st)).1 ∧ FreedClock k1.st e.time := by
  obtain ⟨e, hpk, hc⟩ := ot_step_cases hw h hs
  rcases hc with ⟨hc, _⟩ | ⟨p, hpp, ha, het, hen, hc⟩
  · rw [hc] at hh1; cases hh1
  · refine ⟨e, p, hpk, hpp, ha, het, hen, hc, ?_⟩
    obtain ⟨τ, hτ⟩ := freed_sim_clock env s0 hw k h
    obtain ⟨p', hp', _, hmin⟩ := hen
    rw [hpp] at hp'; cases hp'
    rw [hc, het]
    exact freedClock_step (h.l3inv hw).sinv hτ hpp ha hmin _

/-- `k'` is a later state of the same uninterrupted `env.run` -/
inductive FreedRunFrom (env : SimEnv) (k : SimState) : SimState → Prop
  | refl : FreedRunFrom env k k
  | step (k1 k2 : SimState) : FreedRunFrom env k k1 → k1.st.halted = false →
      k1.step (simHandler env) = some k2 → FreedRunFrom env k k2

theorem FreedRunFrom.simRun {env : SimEnv} {s0 : Sys} {k k' : SimState} (h : SimRun env s0 k)
    (hp : FreedRunFrom env k k') : SimRun env s0 k' := by
  induction hp with
  | refl => exact h
  | step k1 k2 _ hh hs ih => exact SimRun.step k1 k2 ih hh hs

theorem FreedRunFrom.trans {env : SimEnv} {a b c : SimState} (h1 : FreedRunFrom env a b)
    (h2 : FreedRunFrom env b c) : FreedRunFrom env a c := by
  induction h2 with
  | refl => exact h1
  | step k1 k2 _ hh hs ih => exact FreedRunFrom.step k1 k2 ih hh hs

/-- `env.run(until=u)` leads to a later state of the run -/
theorem FreedRunFrom.runUntil (env : SimEnv) (u : Time) (fuel : Nat) (k : SimState) :
    FreedRunFrom env k (SimState.runUntil env u fuel k) := by
  induction fuel generalizing k with
  | zero => exact FreedRunFrom.refl
  | succ n ih =>
    unfold SimState.runUntil
    split
    · exact FreedRunFrom.refl
    · rename_i hh
      repeat' split
      all_goals first
        | exact FreedRunFrom.refl
        | (rename_i k1 hs
           exact (FreedRunFrom.step k k1 FreedRunFrom.refl (by simpa using hh) hs).trans (ih k1))

/-- the run has not raised before, if it has not raised after a step -/
theorem freed_sim_nocrash_back {env : SimEnv} {s0 : Sys} (hw : WFConfig s0) {k k1 : SimState}
    (h : SimReach env s0 k) (hs : k.step (simHandler env) = some k1) (hc : k1.st.crashed = none) :
    k.st.crashed = none := by
  obtain ⟨e, _, hcs⟩ := ot_step_cases hw h hs
  rcases hcs with ⟨hcs, _⟩ | ⟨p, hpp, ha, _, _, hcs⟩
  · rw [hcs] at hc; exact hc
  · rw [hcs] at hc
    exact (resume_nocrash k.st e.pid _ p hpp ha hc).1

namespace Sys

/-- `o` is complete and still resident, and its `allocate_tasks` process is due by `T` -/
def FreedPending (s : Sys) (o : Oid) (T : Time) : Prop :=
  o ∈ s.buf.hot.scheduled ∧ FreedAllFin s o ∧
    ∃ q ∈ s.procs, q.alive = true ∧ q.wake ≤ T ∧ ∃ sc pa po, q.k = .allocTasks o sc pa po false

end Sys

/-- one kernel step keeps "`o` has been freed, or is complete with its poller due by `T`" -/
theorem freed_pending_step {env : SimEnv} {s0 : Sys} (hw : WFConfig s0) (hbuf : bufList s0.buf = [])
    (halg : FreedShipped s0.alg) {k k1 : SimState} (hk : SimRun env s0 k) (hh : k.st.halted = false)
    (hs : k.step (simHandler env) = some k1) (hc1 : k1.st.crashed = none) (o : Oid) (T : Time)
    (hJ : o ∈ k.st.buf.hot.finished ∨ FreedPending k.st o T) :
    o ∈ k1.st.buf.hot.finished ∨ FreedPending k1.st o T := by
  obtain ⟨e, _, hcs⟩ := ot_step_cases hw hk.toReach hs
  rcases hcs with ⟨hcs, _⟩ | ⟨p, hpp, ha, _, hen, hcs⟩
  · rw [hcs]; exact hJ
  · have hreach : ReachOk s0 k.st := simRun_reachOk hw hk hh
    have hsinv := reach_inv s0 k.st hw hreach
    rw [hcs] at hc1 ⊢
    rcases hJ with hfin | ⟨hin, hall, q, hq, hqa, hqw, sc, pa, po, hqk⟩
    · left
      rw [resume_buf k.st e.pid _ p hpp ha]
      exact (block_hot k.st p _).1 o hfin
    · obtain ⟨p', hp', _, h1, h2⟩ := freed_done_step s0 k.st hw hbuf halg hreach hen hc1 o hin hall
      rw [hpp] at hp'; cases hp'
      by_cases hkk : ∃ sc pa po, p.k = .allocTasks o sc pa po false
      · exact Or.inl (h1 hkk)
      · obtain ⟨hin', hall'⟩ := h2 (fun sc pa po e => hkk ⟨sc, pa, po, e⟩)
        right
        obtain ⟨hpm, hpid⟩ := proc?_some hpp
        obtain ⟨p2, hp2, _, hmin⟩ := hen
        rw [hpp] at hp2; cases hp2
        obtain ⟨new, hm, _, _⟩ := ot_step_table hsinv hpp ha hmin (env.oracle k.st)
        have hne : q.pid ≠ p.pid := by
          intro e'
          have : q = p := hsinv.pw.eq_of_pid hq hpm e'
          subst this
          exact hkk ⟨sc, pa, po, hqk⟩
        exact ⟨hin', hall', q, (hm q).mpr (Or.inr (Or.inl ⟨hq, hne⟩)), hqa, hqw, sc, pa, po, hqk⟩

/-- **(3).**  Along an uninterrupted run of the simulator with a shipped algorithm: the kernel has
just run a block at time `e.time` (the step `k → k1` popped the event `e`), the run goes on, and in
the state after the block observation `o` is resident as scheduled with all its workflow records
FINISHED.  Then in every later state `k2` of the run in which every pending event is later than
`e.time + 1` and that has not raised, `o` is among the removed observations. -/
theorem freed_within_one_step (env : SimEnv) (s0 : Sys) (hw : WFConfig s0) (hbuf : bufList s0.buf = [])
    (halg : FreedShipped s0.alg) (k k1 : SimState) (e : HEntry) (hk : SimRun env s0 k)
    (hh : k.st.halted = false) (hpk : k.peek = some e) (hs : k.step (simHandler env) = some k1)
    (hh1 : k1.st.halted = false) (o : Oid) (hin : o ∈ k1.st.buf.hot.scheduled)
    (hall : FreedAllFin k1.st o) (k2 : SimState) (hpath : FreedRunFrom env k1 k2)
    (hpast : ∀ x ∈ k2.heap, e.time + 1 < x.time) (hc2 : k2.st.crashed = none) :
    o ∈ k2.st.buf.hot.finished := by
  have hk1 : SimRun env s0 k1 := SimRun.step k k1 hk hh hs
  obtain ⟨e', p, hpk', _, _, _, _, _, hclk⟩ := freed_sim_step hw hk.toReach hs hh1
  rw [hpk] at hpk'; cases hpk'
  -- along the path
  have key : ∀ k2, FreedRunFrom env k1 k2 → k2.st.crashed = none →
      SimRun env s0 k2 ∧ (o ∈ k2.st.buf.hot.finished ∨ FreedPending k2.st o (e.time + 1)) := by
    intro k2 hp
    induction hp with
    | refl =>
      intro hc1
      refine ⟨hk1, Or.inr ⟨hin, hall, ?_⟩⟩
      have hreach1 : ReachOk s0 k1.st := simRun_reachOk hw hk1 hh1
      obtain ⟨q, hq, hqa, sc, pa, po, hqk⟩ := (freed_reachOk_l7q s0 k1.st hw hbuf hreach1 hc1).schedP o hin
      obtain ⟨m, hm, hle⟩ := hclk.2 q hq hqa (by rw [hqk]; simp [PK.tag])
      exact ⟨q, hq, hqa, by rw [hm]; exact hle, sc, pa, po, hqk⟩
    | step ka kb hpa hha hsa ih =>
      intro hcb
      have hka : SimRun env s0 ka := hpa.simRun hk1
      have hca := freed_sim_nocrash_back hw hka.toReach hsa hcb
      obtain ⟨_, hJ⟩ := ih hca
      exact ⟨SimRun.step ka kb hka hha hsa, freed_pending_step hw hbuf halg hka hha hsa hcb o _ hJ⟩
  obtain ⟨hk2, hJ⟩ := key k2 hpath hc2
  rcases hJ with hfin | ⟨_, _, q, hq, hqa, hqw, _⟩
  · exact hfin
  · exfalso
    obtain ⟨x, hx, _, hxt⟩ := (hk2.toReach.inv hw).2.live q hq hqa
    have := hpast x hx
    rw [hxt] at this
    exact absurd this (Rat.not_lt.mpr hqw)

end Topsim
