/-
  IngestLimit20 — what the telescope's admission loop does to the fields the
  ingest timing invariant reads (`IlTelRel`): new ingest supervisors, due at the
  current timestep, for observations that get their start time now; FINISHED
  marks only from `ast + duration` on.
-/
import TopsimProofs.IngestLimit19

namespace Topsim
namespace Sys

open Cluster

theorem il_obs?_updObs_ne (s : Sys) {o o' : Oid} (f : Obs → Obs) (hf : ∀ r, (f r).id = r.id) (hne : o' ≠ o) :
    (s.updObs o f).obs? o' = s.obs? o' := by
  rw [obs?_updObs s o o' f hf]
  cases hx : s.obs? o' with
  | none => rfl
  | some r =>
    have := (il_obs?_mem hx).2
    simp [this, hne]

theorem il_obs?_updObs_eq (s : Sys) {o : Oid} (f : Obs → Obs) (hf : ∀ r, (f r).id = r.id) {ob : Obs}
    (hob : s.obs? o = some ob) : (s.updObs o f).obs? o = some (f ob) := by
  rw [obs?_updObs s o o f hf, hob]
  have := (il_obs?_mem hob).2
  simp [this]

structure IlTelRel (s : Sys) (n : Nat) (cur : Sys) : Prop where
  cl : cur.cl = s.cl
  tasks : cur.tasks = s.tasks
  adm : ∀ o ∈ s.admitted, o ∈ cur.admitted
  np : s.nextPid ≤ cur.nextPid
  procs : ∃ new, cur.procs = s.procs ++ new ∧ ∀ q ∈ new, q.alive = true ∧ q.pc = 0 ∧
    q.wake = ((n : Nat) : Time) ∧ s.nextPid ≤ q.pid ∧
    ∃ oid ob, q.k = .allocIngest oid 0 ∧ cur.obs? oid = some ob ∧ ob.ast = some n ∧
      ob.status = .waiting ∧ oid ∈ cur.admitted ∧ oid ∉ s.admitted
  durs : ∀ ob' ∈ cur.obs, ∃ ob ∈ s.obs, ob'.duration = ob.duration
  obs : ∀ o ob, s.obs? o = some ob → ∃ ob', cur.obs? o = some ob' ∧ ob'.duration = ob.duration ∧
    (o ∈ s.admitted → ob'.ast = ob.ast) ∧
    (ob'.status = ob.status ∨ (ob'.status = .finished ∧ ∃ a, ob'.ast = some a ∧ a + ob'.duration ≤ n))

theorem IlTelRel.refl (s : Sys) (n : Nat) : IlTelRel s n s where
  cl := rfl
  tasks := rfl
  adm := fun _ h => h
  np := Nat.le_refl _
  procs := ⟨[], by simp, by simp⟩
  durs := fun ob h => ⟨ob, h, rfl⟩
  obs := fun o ob h => ⟨ob, h, rfl, fun _ => rfl, Or.inl rfl⟩

/-- a change of fields the relation does not read -/
theorem IlTelRel.congr {s cur cur' : Sys} {n : Nat} (h : IlTelRel s n cur) (h1 : cur'.cl = cur.cl)
    (h2 : cur'.tasks = cur.tasks) (h3 : cur'.admitted = cur.admitted) (h4 : cur'.nextPid = cur.nextPid)
    (h5 : cur'.procs = cur.procs) (h6 : cur'.obs = cur.obs) : IlTelRel s n cur' := by
  have ho : ∀ o, cur'.obs? o = cur.obs? o := il_obs?_congr' h6
  refine ⟨h1.trans h.cl, h2.trans h.tasks, fun o ho' => by rw [h3]; exact h.adm o ho', by rw [h4]; exact h.np,
    ?_, by rw [h6]; exact h.durs, ?_⟩
  · obtain ⟨new, e, f⟩ := h.procs
    refine ⟨new, by rw [h5, e], ?_⟩
    intro q hq
    obtain ⟨f1, f2, f3, f4, oid, ob, f5, f6, f7, f8, f9, f10⟩ := f q hq
    exact ⟨f1, f2, f3, f4, oid, ob, f5, by rw [ho]; exact f6, f7, f8, by rw [h3]; exact f9, f10⟩
  · intro o ob hob
    obtain ⟨ob', g1, g2⟩ := h.obs o ob hob
    exact ⟨ob', by rw [ho]; exact g1, g2⟩

theorem il_visit_rel {s : Sys} (n : Nat) (cur : Sys) (err : Option Err) (oid : Oid) (v : List Oid)
    (hv : oid ∉ v) (hm : TelMid cur n v) (h : IlTelRel s n cur) :
    IlTelRel s n (telescopeVisit n (cur, err) oid).1 := by
  unfold telescopeVisit
  cases err with
  | some e => exact h
  | none =>
    simp only
    cases hob : cur.obs? oid with
    | none => exact h
    | some o =>
      simp only
      by_cases hready : o.isReady n ((cur.totalArrays : Int) - cur.telUse) = true
      · simp only [hready, if_true]
        have hw : o.status = .waiting := by
          unfold Obs.isReady at hready
          simp only [Bool.and_eq_true, beq_iff_eq] at hready
          exact hready.2
        cases hc : cur.checkIngestCapacity o with
        | error e => exact h
        | ok r =>
          obtain ⟨s', b⟩ := r
          have hcore := checkIngestCapacity_core cur o s' b hc
          have h' : IlTelRel s n s' :=
            h.congr hcore.cl hcore.tasks hcore.admitted hcore.nextPid hcore.procs hcore.obs
          cases b with
          | false => exact h'
          | true =>
            simp only
            have hob' : s'.obs? oid = some o := by rw [il_obs?_congr' hcore.obs]; exact hob
            -- the observation is admitted for the first time
            have hno : oid ∉ s'.admitted := by
              rw [hcore.admitted]
              intro hin
              obtain ⟨ob, hob2, hw'⟩ := hm.adm oid hin
              rw [hob] at hob2; injection hob2 with e
              subst e
              exact hv (hw' hw).1
            have hnos : oid ∉ s.admitted := fun hin => hno (h'.adm oid hin)
            have hfid : ∀ r : Obs, ({ r with ast := some n } : Obs).id = r.id := fun _ => rfl
            constructor
            · exact h'.cl
            · exact h'.tasks
            · intro o' ho'
              show o' ∈ s'.admitted ++ [oid]
              exact List.mem_append_left _ (h'.adm o' ho')
            · show s.nextPid ≤ s'.nextPid + 1
              have := h'.np; omega
            · obtain ⟨new, e, f⟩ := h'.procs
              refine ⟨new ++ [{ pid := s'.nextPid, k := .allocIngest oid 0, wake := (n : Time) }], ?_, ?_⟩
              · show s'.procs ++ [_] = _
                rw [e, List.append_assoc]
                rfl
              · intro q hq
                rcases List.mem_append.mp hq with hq | hq
                · obtain ⟨f1, f2, f3, f4, oid', ob, f5, f6, f7, f8, f9, f10⟩ := f q hq
                  have hne : oid' ≠ oid := fun e' => hno (e' ▸ f9)
                  refine ⟨f1, f2, f3, f4, oid', ob, f5, ?_, f7, f8, List.mem_append_left _ f9, f10⟩
                  show (Sys.updObs _ oid _).obs? oid' = _
                  rw [il_obs?_updObs_ne _ _ hfid hne]
                  exact f6
                · simp only [List.mem_singleton] at hq
                  subst hq
                  refine ⟨rfl, rfl, rfl, h'.np, oid, { o with ast := some n }, rfl, ?_, rfl, hw, by simp, hnos⟩
                  show (Sys.updObs _ oid _).obs? oid = _
                  exact il_obs?_updObs_eq _ _ hfid hob'
            · intro ob' hob''
              have : ob' ∈ (s'.updObs oid (fun r => { r with ast := some n })).obs := hob''
              simp only [Sys.updObs, List.mem_map] at this
              obtain ⟨r, hr, rfl⟩ := this
              obtain ⟨ob0, hob0, e0⟩ := h'.durs r hr
              exact ⟨ob0, hob0, by rw [← e0]; split <;> rfl⟩
            · intro o' ob0 hob0
              obtain ⟨ob', g1, g2, g3, g4⟩ := h'.obs o' ob0 hob0
              by_cases hne : o' = oid
              · subst hne
                rw [hob'] at g1; cases g1
                refine ⟨{ o with ast := some n }, ?_, g2, fun hin => absurd hin hnos, ?_⟩
                · show (Sys.updObs _ o' _).obs? o' = _
                  exact il_obs?_updObs_eq _ _ hfid hob'
                · rcases g4 with g4 | ⟨g4, _⟩
                  · exact Or.inl g4
                  · rw [hw] at g4; exact absurd g4 (by simp)
              · refine ⟨ob', ?_, g2, g3, g4⟩
                show (Sys.updObs _ oid _).obs? o' = _
                rw [il_obs?_updObs_ne _ _ hfid hne]
                exact g1
      · simp only [hready, Bool.false_eq_true, if_false]
        split
        · -- the observation is marked FINISHED
          rename_i hfin
          obtain ⟨a, ha, hle, _, _⟩ := (isFinishedAt_iff _ _ _).mp hfin
          have hfid : ∀ r : Obs, ({ r with status := .finished } : Obs).id = r.id := fun _ => rfl
          constructor
          · exact h.cl
          · exact h.tasks
          · exact h.adm
          · exact h.np
          · obtain ⟨new, e, f⟩ := h.procs
            refine ⟨new, e, ?_⟩
            intro q hq
            obtain ⟨f1, f2, f3, f4, oid', ob, f5, f6, f7, f8, f9, f10⟩ := f q hq
            -- a supervisor created in this loop is for an observation visited before
            have hne : oid' ≠ oid := by
              intro e'
              subst e'
              obtain ⟨ob2, hob2, hw'⟩ := hm.adm oid' f9
              rw [f6] at hob2; cases hob2
              exact hv (hw' f8).1
            refine ⟨f1, f2, f3, f4, oid', ob, f5, ?_, f7, f8, f9, f10⟩
            show (Sys.updObs _ oid _).obs? oid' = _
            rw [il_obs?_updObs_ne _ _ hfid hne]
            exact f6
          · intro ob' hob''
            have : ob' ∈ (cur.updObs oid (fun r => { r with status := .finished })).obs := hob''
            simp only [Sys.updObs, List.mem_map] at this
            obtain ⟨r, hr, rfl⟩ := this
            obtain ⟨ob0, hob0, e0⟩ := h.durs r hr
            exact ⟨ob0, hob0, by rw [← e0]; split <;> rfl⟩
          · intro o' ob0 hob0
            obtain ⟨ob', g1, g2, g3, g4⟩ := h.obs o' ob0 hob0
            by_cases hne : o' = oid
            · subst hne
              rw [hob] at g1; cases g1
              refine ⟨{ o with status := .finished }, ?_, g2, g3, Or.inr ⟨rfl, a, ha, hle⟩⟩
              show (Sys.updObs _ o' _).obs? o' = _
              exact il_obs?_updObs_eq _ _ hfid hob
            · refine ⟨ob', ?_, g2, g3, g4⟩
              show (Sys.updObs _ oid _).obs? o' = _
              rw [il_obs?_updObs_ne _ _ hfid hne]
              exact g1
        · exact h

theorem il_fold_rel {s : Sys} (n : Nat) (l : List Oid) (hnd : l.Nodup) (acc : Sys × Option Err)
    (v : List Oid) (hdisj : ∀ o ∈ l, o ∉ v) (hm : TelMid acc.1 n v) (h : IlTelRel s n acc.1) :
    IlTelRel s n (l.foldl (telescopeVisit n) acc).1 := by
  induction l generalizing acc v with
  | nil => exact h
  | cons x r ih =>
    simp only [List.foldl_cons]
    rw [List.nodup_cons] at hnd
    obtain ⟨s1, err⟩ := acc
    have hvis := il_visit_rel n s1 err x v (hdisj x (by simp)) hm h
    obtain ⟨_, h2⟩ := telescopeVisit_inv n s1 err x v (hdisj x (by simp)) hm
    refine ih hnd.2 (telescopeVisit n (s1, err) x) (x :: v) ?_ h2 hvis
    intro o ho hov
    rcases List.mem_cons.mp hov with rfl | hov
    · exact hnd.1 ho
    · exact hdisj o (List.mem_cons_of_mem _ ho) hov

/-- the telescope's block -/
theorem il_telescope_rel {s : Sys} (hs : SInv s) {p : Proc} (hpm : p ∈ s.procs) (ha : p.alive = true)
    (hmin : ∀ q ∈ s.procs, q.alive = true → p.wake ≤ q.wake) (hk : p.k = .telescope) :
    IlTelRel s (natNow p.wake) (s.telescopeBlock p.wake).1 := by
  have heg := hs.eg
  have hmid0 : TelMid s (natNow p.wake) [] := by
    refine ⟨heg.obsNodup, heg.admNodup, heg.telUniq, heg.telWake, ?_⟩
    intro o ho
    obtain ⟨ob, hob, hw⟩ := heg.adm o ho
    refine ⟨ob, hob, fun hst => ?_⟩
    exfalso
    obtain ⟨w, hw1, hwa, _, _, hlt⟩ := hw hst
    have h1 := hlt p hpm hk ha
    have h2 := hmin w hw1 hwa
    exact absurd h1 (Rat.not_lt.mpr h2)
  unfold telescopeBlock
  split
  · exact (IlTelRel.refl s _).congr rfl rfl rfl rfl rfl rfl
  · simp only
    generalize hs0 : ({ s with telEvents := [], telDelayed := if s.schedDelayed = true ∧ (!s.telDelayed) = true then true else s.telDelayed } : Sys) = s0
    have hk0 : IlTelRel s (natNow p.wake) s0 := by
      subst hs0; exact (IlTelRel.refl s _).congr rfl rfl rfl rfl rfl rfl
    have hm0 : TelMid s0 (natNow p.wake) [] := by subst hs0; exact hmid0.core rfl rfl rfl
    have f1 := il_fold_rel (natNow p.wake) (s.obs.map (·.id)) heg.obsNodup (s0, none) []
      (fun _ _ => by simp) hm0 hk0
    generalize (List.foldl (telescopeVisit (natNow p.wake)) (s0, none) (s.obs.map (·.id))) = r at f1 ⊢
    obtain ⟨s1, e1⟩ := r
    cases e1 with
    | some e => exact f1
    | none => exact f1

end Sys
end Topsim
