/-
  BoundP3 — (plan-following algorithms; the counterpart of Bound3, same proofs) C05, the numeric clause: every live process other than a task body is due at a whole
  instant, at most one time unit after the clock of the block that just ran (`BoundPParts.wake_nat`).

  Induction over the run.  The invariant at index `n` (`boundP_wk_Q`): every live process that is not
  a `doWork` has a natural wake time `m` with `m ≤ boundTau n + 1`.  One block of `p` at time
  `t = p.wake = boundTau n`:
    * `p` is replaced by `fin k y t p`; when this is alive `y = timeout d`; when it is not a `doWork`
      neither is `p` (`block_tag`), so `d = 1` (`block_unit`) and `t` is natural (invariant);
    * the other old processes keep their records;
    * new processes are due at `ilSpawnTime p`: a `doWork` creates nothing, otherwise `t` is natural
      and `ilSpawnTime p = t`.
  The clock is monotone (`K.minMono`), which carries the bound to the next index.
-/
import TopsimProofs.BoundP1

namespace Topsim

open KState Sys

section
variable {env : SimEnv} {s0 : Sys}

/-- the clock is monotone -/
theorem boundP_wk_mono (C : LivePCfg env s0) (K : LiveKernel env s0) (n : Nat) :
    boundTau env s0 n ≤ boundTau env s0 (n + 1) := by
  obtain ⟨e, p, hpk, -⟩ := live_step_P C K n
  obtain ⟨e', p', hpk', -⟩ := live_step_P C K (n + 1)
  rw [bound_wk_tau hpk, bound_wk_tau hpk']
  obtain ⟨_, hleast⟩ := peek_spec _ e hpk
  obtain ⟨he', _⟩ := peek_spec _ e' hpk'
  refine K.minMono n (n + 1) e.time (Nat.le_succ n) ?_ e' he'
  intro x hx
  have h1 := hleast x hx
  rw [lt_false_iff] at h1
  have h2 : ¬ x.time < e.time := fun h => h1 (Or.inl h)
  exact Rat.not_lt.mp h2

theorem boundP_wk_start_procs (C : LivePCfg env s0) :
    ∀ q ∈ (simAt env s0 0).st.procs, q.wake = 0 := by
  obtain ⟨hprocs, hnp, _⟩ := C.hw.fresh
  have hst : (simAt env s0 0).st = s0.start := rfl
  have hp : s0.start.procs =
      [{ pid := 0, k := .monitor, wake := 0 }, { pid := 1, k := .telescope, wake := 0 },
       { pid := 2, k := .clusterLoop, wake := 0 }, { pid := 3, k := .schedLoop, wake := 0 },
       { pid := 4, k := .bufferLoop, wake := 0 }] := by
    simp [start, spawn, hprocs, hnp]
  intro q hq
  rw [hst, hp] at hq
  simp only [List.mem_cons, List.not_mem_nil, or_false] at hq
  rcases hq with rfl | rfl | rfl | rfl | rfl <;> rfl

theorem boundP_wk_Q_zero (C : LivePCfg env s0) (K : LiveKernel env s0) : bound_wk_Q env s0 0 := by
  intro q hq _ _
  obtain ⟨e, p, hpk, hpp, _, het, -⟩ := live_step_P C K 0
  have hp0 := boundP_wk_start_procs C p (proc?_some hpp).1
  refine ⟨0, by rw [boundP_wk_start_procs C q hq]; simp, ?_⟩
  rw [bound_wk_tau hpk, het, hp0]
  exact bound_wk_le_add_one 0

/-- one block: the invariant at `n` gives the statement at `n + 1` with the clock of index `n` -/
theorem boundP_wk_step (C : LivePCfg env s0) (K : LiveKernel env s0) (n : Nat)
    (hQ : bound_wk_Q env s0 n) :
    ∀ q ∈ (simAt env s0 (n + 1)).st.procs, q.alive = true → q.k.tag ≠ "doWork" →
      ∃ m : Nat, q.wake = ((m : Nat) : Time) ∧ ((m : Nat) : Time) ≤ boundTau env s0 n + 1 := by
  obtain ⟨e, p, hpk, hpp, ha, het, _, _, hst⟩ := live_step_P C K n
  have hpw : PW (simAt env s0 n).st := (live_sinv_P C K n).pw
  obtain ⟨hpm, hpid⟩ := proc?_some hpp
  obtain ⟨m1, _, _⟩ := il_resume_procs_mem hpw hpp ha (env.oracle (simAt env s0 n).st)
  have htau : boundTau env s0 n = p.wake := by rw [bound_wk_tau hpk, het]
  -- a fired process that is not a task body is due at a whole instant
  have hpnat : p.k.tag ≠ "doWork" → ∃ m : Nat, p.wake = ((m : Nat) : Time) := by
    intro hk
    obtain ⟨m, hm, _⟩ := hQ p hpm ha hk
    exact ⟨m, hm⟩
  intro q hq hqa hqk
  rw [hst] at hq
  rcases m1 q hq with rfl | ⟨hold, _⟩ | ⟨w1, _, _, w4⟩
  · -- the fired process
    obtain ⟨_, d, hd⟩ := fin_alive _ _ _ _ hqa
    have htag : p.k.tag ≠ "doWork" := by
      rw [← block_tag _ hpw p (env.oracle (simAt env s0 n).st)]
      simpa using hqk
    have hu := block_unit (simAt env s0 n).st p (env.oracle (simAt env s0 n).st)
      (bound_wk_isDoWork htag)
    rw [hd] at hu
    simp only [Yield.unit] at hu
    subst hu
    obtain ⟨m, hm⟩ := hpnat htag
    refine ⟨m + 1, ?_, ?_⟩
    · rw [hd, il_fin_wake_timeout, hm]; simp
    · rw [htau, hm]; simp
  · -- another old process
    exact hQ q hold hqa hqk
  · -- a new process
    by_cases hk : p.k.tag = "doWork"
    · -- a task body creates nothing
      exfalso
      obtain ⟨e1, _, _⟩ := il_resume_procs_eq (simAt env s0 n).st e.pid
        (env.oracle (simAt env s0 n).st) p hpp ha
      rw [e1] at hq
      obtain ⟨q0, hq0, hq0e⟩ := mem_updProc.mp hq
      have hprocs : ((simAt env s0 n).st.block p (env.oracle (simAt env s0 n).st)).1.procs =
          (simAt env s0 n).st.procs := by
        cases hkk : p.k with
        | doWork t m preds ph tot =>
          rw [block_doWork _ hkk]
          exact (doWorkBlock_spec _ _ _ _ _ _ _ _).1
        | _ => rw [hkk] at hk; exact absurd hk (by simp [PK.tag])
      rw [hprocs] at hq0
      have hlt := hpw.lt q0 hq0
      have hpidq : q.pid = q0.pid := by
        rw [hq0e]; split
        · unfold fin; split <;> rfl
        · rfl
      omega
    · obtain ⟨m, hm⟩ := hpnat hk
      have hsp : ilSpawnTime p = ((m : Nat) : Time) := by
        unfold ilSpawnTime
        split
        · rw [hm, il_natNow_natCast]
        · exact hm
      refine ⟨m, by rw [w1, hsp], ?_⟩
      rw [htau, hm]
      exact bound_wk_le_add_one _

theorem boundP_wk_Q_all (C : LivePCfg env s0) (K : LiveKernel env s0) (n : Nat) :
    bound_wk_Q env s0 n := by
  induction n with
  | zero => exact boundP_wk_Q_zero C K
  | succ n ih =>
    intro q hq hqa hqk
    obtain ⟨m, hm, hle⟩ := boundP_wk_step C K n ih q hq hqa hqk
    refine ⟨m, hm, Rat.le_trans hle ?_⟩
    exact Rat.add_le_add_right.mpr (boundP_wk_mono C K n)

/-- **`BoundPParts.wake_nat`.**  Every live process other than a task body is due at a whole
instant, at most one unit after the clock of the block that just ran. -/
theorem boundP_wake_nat {env : SimEnv} {s0 : Sys} (C : LivePCfg env s0) (K : LiveKernel env s0) (n : Nat) :
    ∀ q ∈ (simAt env s0 (n + 1)).st.procs, q.alive = true → q.k.tag ≠ "doWork" →
      ∃ m : Nat, q.wake = ((m : Nat) : Time) ∧ ((m : Nat) : Time) ≤ boundTau env s0 n + 1 :=
  boundP_wk_step C K n (boundP_wk_Q_all C K n)

end

end Topsim
