/-
  ResOr9 — `ResOrRI` under the scheduler loop (port of FinishRes7).
-/
import TopsimProofs.ResOr8

namespace Topsim
namespace Sys

open Cluster

theorem resOr_ri_schedLoop {s : Sys} (hs : SInv s) (h : ResOrRI s) (hb : BufI s) {p : Proc} (hp : p ∈ s.procs)
    (orc : Oracle) (hk : p.k = .schedLoop) :
    ResOrRI ((s.schedLoopBlock p.wake orc).1.updProc p.pid (fin .schedLoop (s.schedLoopBlock p.wake orc).2 p.wake)) := by
  have hpw := hs.pw
  have hcl : (s.schedLoopBlock p.wake orc).1.cl = s.cl := schedLoopBlock_clq s p.wake orc
  have hpres := schedLoopBlock_pres s p.wake orc
  have hpwX := hpres.pw hpw
  rcases schedLoopBlock_buf s p.wake orc with ⟨_, hpl, htasks, hqu, hprocs⟩ |
    ⟨oid, o, recs, plan, hnx, hob, hrp, _, hpl, htasks, hq⟩
  · -- nothing planned
    have hm := memSpec_updProc hpw hp [] (by simpa using hprocs) hpwX
      (fin .schedLoop (s.schedLoopBlock p.wake orc).2 p.wake)
    have hts : ∀ t, tstat ((s.schedLoopBlock p.wake orc).1.updProc p.pid
        (fin .schedLoop (s.schedLoopBlock p.wake orc).2 p.wake)) t = tstat s t := fun t => tstat_of_tasks htasks t
    refine h.step hpw hp hm (by simp) hqu hpl ?_ ?_ ?_ ?_ ?_ ?_ ?_
    · intro t ht; rw [hts] at ht; exact ht
    · intro o c n ht; left; rw [hts] at ht; exact ht
    · intro q hq _ o sc pa po hqk
      rcases hq with rfl | hq
      · simp at hqk
      · simp at hq
    · intro q hq _ t m preds o ret hqk
      rcases hq with rfl | hq
      · simp at hqk
      · simp at hq
    · exact resOr_rc_quiet h hpw hp hm (by show (s.schedLoopBlock p.wake orc).1.cl.runOn = _; rw [hcl])
        (by simp [hk, PK.tag])
    · intro o ho
      have : ((s.schedLoopBlock p.wake orc).1.updProc p.pid
        (fin .schedLoop (s.schedLoopBlock p.wake orc).2 p.wake)).cl = s.cl := hcl
      rw [this] at ho; exact ho
    · have : ((s.schedLoopBlock p.wake orc).1.updProc p.pid
        (fin .schedLoop (s.schedLoopBlock p.wake orc).2 p.wake)).cl = s.cl := hcl
      rw [this]; exact h.keyNE
  · -- a plan is made for `oid`
    have hoid : o.id = oid := (obs_mem_of_obs? hob).2
    obtain ⟨g1, g2, g3, g4⟩ := planOf_facts o (natNow p.wake) s.staticPlan orc.plan recs plan hrp
    rw [hoid] at g1 g3 g4
    -- no plan exists yet for this observation: it is still in `hot.stored`
    obtain ⟨_, hst, _, _⟩ := bufList_next s.buf oid hnx
    have hnoplan : ∀ pl ∈ s.plans, pl.obs ≠ oid := by
      intro pl hpl' e
      have h1 := hb.planLoc pl hpl'
      rw [e] at h1
      have h2 := hb.cnt oid
      have c1 := count_pos_of_mem hst
      have c2 := count_pos_of_mem h1
      unfold locCount bufList at h2
      simp only [List.count_append] at h2 c2
      omega
    have hfilter : s.plans.filter (fun pl => decide (pl.obs ≠ oid)) = s.plans := by
      rw [List.filter_eq_self]
      intro pl hpl'; simpa using hnoplan pl hpl'
    rw [hfilter] at hpl
    have hplanNone : s.plan? oid = none := by
      unfold plan?
      rw [List.find?_eq_none]
      intro pl hpl'; simpa using hnoplan pl hpl'
    generalize hX : (s.schedLoopBlock p.wake orc).1 = X at hpl htasks hq hcl hpwX
    have hplan? : ∀ o', X.plan? o' = if o' = oid then some plan else s.plan? o' := by
      intro o'
      unfold plan?
      rw [hpl, plan?_append]
      by_cases e : o' = oid
      · subst e
        have : s.plans.find? (fun p => decide (p.obs = o')) = none := hplanNone
        rw [this]; simp [g1]
      · rw [if_neg e]
        cases hf : s.plans.find? (fun p => decide (p.obs = o')) with
        | some pl => rfl
        | none => simp only; rw [if_neg (by rw [g1]; exact fun e' => e e'.symm)]
    have hPT : ∀ o', o' ≠ oid → planTasks X o' = planTasks s o' := by
      intro o' e; unfold planTasks; rw [hplan?, if_neg e]
    have hPT0 : planTasks s oid = [] := by unfold planTasks; rw [hplanNone]
    have hts : ∀ t, tstat X t = tstat s t := tstat_append_unsched s X recs htasks (fun r hr => (g4 r hr).1)
    -- what remains is about the process table
    have key : ∀ (new : List Proc), X.procs = s.procs ++ new →
        (∀ q ∈ new, q = { pid := s.nextPid, k := .allocTasks oid [] [] [] false, wake := p.wake }) →
        (∀ x ∈ s.queue, x ∈ X.queue) → X.queue.Nodup → (new ≠ [] → oid ∈ X.queue) →
        (new ≠ [] → ∀ q0 ∈ s.procs, q0.alive = true → ∀ sc pa po, q0.k ≠ .allocTasks oid sc pa po false) →
        ResOrRI (X.updProc p.pid (fin .schedLoop (s.schedLoopBlock p.wake orc).2 p.wake)) := by
      intro new hprocs hnew hqsub hqnd hqoid hnoats
      have hm := memSpec_updProc hpw hp new hprocs hpwX (fin .schedLoop (s.schedLoopBlock p.wake orc).2 p.wake)
      have hold : ∀ q ∈ (X.updProc p.pid (fin .schedLoop (s.schedLoopBlock p.wake orc).2 p.wake)).procs,
          q.k.tag ≠ "schedLoop" → q ∈ s.procs ∨ q ∈ new := by
        intro q hq hqt
        rcases (hm q).mp hq with rfl | ⟨hq0, _⟩ | hqn
        · simp [PK.tag] at hqt
        · exact Or.inl hq0
        · exact Or.inr hqn
      constructor
      · exact hqnd
      · intro q hq hqa o' sc pa po hqk
        rcases hold q hq (by rw [hqk]; simp [PK.tag]) with hq0 | hqn
        · obtain ⟨a1, a2⟩ := h.atsQ q hq0 hqa o' sc pa po hqk
          have hne : o' ≠ oid := by
            intro e; rw [e, hplanNone] at a2; simp at a2
          exact ⟨hqsub _ a1, by
            rw [show (X.updProc p.pid (fin .schedLoop (s.schedLoopBlock p.wake orc).2 p.wake)).plan? o' = X.plan? o' from rfl,
              hplan?, if_neg hne]; exact a2⟩
        · have := hnew q hqn
          rw [this] at hqk
          simp only [PK.allocTasks.injEq] at hqk
          obtain ⟨rfl, _⟩ := hqk
          exact ⟨hqoid (List.ne_nil_of_mem hqn), by
            rw [show (X.updProc p.pid (fin .schedLoop (s.schedLoopBlock p.wake orc).2 p.wake)).plan? oid = X.plan? oid from rfl,
              hplan?, if_pos rfl]; rfl⟩
      · intro q1 hq1 q2 hq2 ha1 ha2 o' sc pa po sc' pa' po' hk1 hk2
        rcases hold q1 hq1 (by rw [hk1]; simp [PK.tag]) with h1 | h1 <;>
        rcases hold q2 hq2 (by rw [hk2]; simp [PK.tag]) with h2 | h2
        · exact h.atsUniq q1 h1 q2 h2 ha1 ha2 o' sc pa po sc' pa' po' hk1 hk2
        · have e2 := hnew q2 h2
          rw [e2] at hk2
          simp only [PK.allocTasks.injEq] at hk2
          obtain ⟨rfl, _⟩ := hk2
          exact absurd hk1 (hnoats (List.ne_nil_of_mem h2) q1 h1 ha1 _ _ _)
        · have e1 := hnew q1 h1
          rw [e1] at hk1
          simp only [PK.allocTasks.injEq] at hk1
          obtain ⟨rfl, _⟩ := hk1
          exact absurd hk2 (hnoats (List.ne_nil_of_mem h1) q2 h2 ha2 _ _ _)
        · rw [hnew q1 h1, hnew q2 h2]
      · intro q hq hqa o' sc pa po hqk
        rcases hold q hq (by rw [hqk]; simp [PK.tag]) with hq0 | hqn
        · obtain ⟨a1, a2⟩ := h.sl q hq0 hqa o' sc pa po hqk
          have hne : o' ≠ oid := by
            intro e
            have := (h.atsQ q hq0 hqa o' sc pa po hqk).2
            rw [e, hplanNone] at this; simp at this
          refine ⟨a1, fun t ht hu => ?_⟩
          rw [show planTasks (X.updProc p.pid _) o' = planTasks X o' from rfl, hPT o' hne]
          rw [show tstat (X.updProc p.pid _) t = tstat X t from rfl, hts] at hu
          exact a2 t ht hu
        · have := hnew q hqn
          rw [this] at hqk
          simp only [PK.allocTasks.injEq] at hqk
          obtain ⟨_, rfl, _⟩ := hqk
          exact ⟨by simp, by simp⟩
      · intro pl hpl' t ht
        have : pl ∈ s.plans ++ [plan] := by rw [← hpl]; exact hpl'
        rcases List.mem_append.mp this with h1 | h1
        · exact h.pt pl h1 t ht
        · simp only [List.mem_singleton] at h1
          subst h1
          obtain ⟨n, e⟩ := g3 t ht
          exact ⟨_, n, by rw [e, g1]⟩
      · intro pl hpl' hfin
        have : pl ∈ s.plans ++ [plan] := by rw [← hpl]; exact hpl'
        rcases List.mem_append.mp this with h1 | h1
        · exact h.pf pl h1 hfin
        · simp only [List.mem_singleton] at h1
          subst h1
          rw [g2] at hfin; exact absurd hfin (by simp)
      · show (X.plans.map (·.obs)).Nodup
        rw [hpl, List.map_append, List.nodup_append]
        refine ⟨h.pn, by simp, ?_⟩
        intro a ha b hb'
        simp at hb'; subst hb'
        obtain ⟨pl, hpl', rfl⟩ := List.mem_map.mp ha
        rw [g1]; exact hnoplan pl hpl'
      · intro q hq hqa t m preds o' ret hqk
        rcases hold q hq (by rw [hqk]; simp [PK.tag]) with hq0 | hqn
        · obtain ⟨a1, a2⟩ := h.st q hq0 hqa t m preds o' ret hqk
          have hne : o' ≠ oid := by
            intro e; rw [e, hPT0] at a2; simp at a2
          exact ⟨by rw [show tstat (X.updProc p.pid _) t = tstat X t from rfl, hts]; exact a1,
            by rw [show planTasks (X.updProc p.pid _) o' = planTasks X o' from rfl, hPT o' hne]; exact a2⟩
        · have := hnew q hqn; rw [this] at hqk; simp at hqk
      · exact resOr_rc_quiet h hpw hp hm (by show X.cl.runOn = _; rw [hcl]) (by simp [hk, PK.tag])
      · intro o' ho'
        have : (X.updProc p.pid (fin .schedLoop (s.schedLoopBlock p.wake orc).2 p.wake)).cl = s.cl := hcl
        rw [this] at ho'
        exact hqsub _ (h.keyQ o' ho')
      · have : (X.updProc p.pid (fin .schedLoop (s.schedLoopBlock p.wake orc).2 p.wake)).cl = s.cl := hcl
        rw [this]; exact h.keyNE
    rcases hq with ⟨_, hqu, hprocs⟩ | ⟨hnq, hqu, hprocs⟩
    · exact key [] (by simpa using hprocs) (by simp) (by rw [hqu]; exact fun _ h => h) (by rw [hqu]; exact h.qNodup)
        (fun hh => absurd rfl hh) (fun hh => absurd rfl hh)
    · refine key _ hprocs (by simp) (by rw [hqu]; exact fun _ h => List.mem_append_left _ h) ?_
        (fun _ => by rw [hqu]; simp) ?_
      · rw [hqu, List.nodup_append]
        refine ⟨h.qNodup, by simp, ?_⟩
        intro a ha b hb'
        simp at hb'; subst hb'
        intro e; subst e; exact hnq ha
      · intro _ q0 hq0 ha0 sc pa po hk0
        have := (h.atsQ q0 hq0 ha0 oid sc pa po hk0).2
        rw [hplanNone] at this; simp at this

end Sys
end Topsim
