/-
  LiveB18 — BatchProcessing: the declarations of Live18 that depend on the configuration hypotheses,
  for `LiveCfgB` / `NcCfgB` (`s0.alg = .batch …`).  Generated from Live18.lean by renaming (suffix `_B`);
  the algorithm-dependent ones are rewritten (see the comments).
-/
import TopsimProofs.Live18
import TopsimProofs.LiveB5
import TopsimProofs.LiveB6
import TopsimProofs.LiveB6b
import TopsimProofs.LiveB6c
import TopsimProofs.LiveB6d
import TopsimProofs.LiveB7
import TopsimProofs.LiveB7c
import TopsimProofs.LiveB7d
import TopsimProofs.LiveB7e
import TopsimProofs.LiveB7g
import TopsimProofs.LiveB7h
import TopsimProofs.LiveB7i
import TopsimProofs.LiveB8
import TopsimProofs.LiveB8b
import TopsimProofs.LiveB8c
import TopsimProofs.LiveB8d
import TopsimProofs.LiveB8e
import TopsimProofs.LiveB8f
import TopsimProofs.LiveB8g
import TopsimProofs.LiveB8h
import TopsimProofs.LiveB9
import TopsimProofs.LiveB10
import TopsimProofs.LiveB11
import TopsimProofs.LiveB12
import TopsimProofs.LiveB13
import TopsimProofs.LiveB4

namespace Topsim
open KState Sys
section
variable {env : SimEnv} {s0 : Sys}

theorem liveParts_B (C : LiveCfgB env s0) (K : LiveKernel env s0) : LivePartsB env s0 where
  worker_ends := fun hp ha hk => live_worker_ends_B C K hp ha hk
  tel_alive := fun n h => live_telescope_alive_B C K n h
  sched_alive := fun n => live_schedLoop_alive_B C K n
  obs_finishes := fun hob hast => live_obs_finishes_B C K hob hast
  ats_progress := by
    intro n e p hpk hpp ha o sc pa po hk hrm hocc hq parts minPer split halg
    rcases live_allocTasks_progress_B' C K n hpk hpp ha hk hrm hocc hq halg with h |
      ⟨ob, hob, hid, node, hnode, _, _, ⟨q, hq1, c, m, preds, obs, ing, ret, hqk⟩, hnone⟩ | h3
    · exact Or.inl h
    · refine Or.inr (Or.inl ⟨ob, hob, hid, node, hnode, ?_, ⟨q, hq1, c, m, preds, obs, ing, ret, hqk⟩⟩)
      rintro ⟨q0, hq0, c0, m0, preds0, obs0, ing0, ret0, hk0⟩
      exact hnone q0 hq0 c0 m0 preds0 obs0 ing0 ret0 hk0
    · exact Or.inr (Or.inr h3)
  ats_spawn := by
    intro n e p hpk hpp ha o sc pa po fn hk hsp
    obtain ⟨ob, hob, hid, node, hnode, _, _, ⟨q, hq1, c, m, preds, obs, ing, ret, hqk⟩, hnone⟩ :=
      live_allocTasks_spawn_flips_B' C K n hpk hpp ha hk hsp
    refine ⟨ob, hob, hid, node, hnode, ?_, ⟨q, hq1, c, m, preds, obs, ing, ret, hqk⟩⟩
    rintro ⟨q0, hq0, c0, m0, preds0, obs0, ing0, ret0, hk0⟩
    exact hnone q0 hq0 c0 m0 preds0 obs0 ing0 ret0 hk0
  ats_sched := fun n => live_ats_sched_B C K n
  idle_queue := fun n => live_idle_queue_B C K n
  idle_keep := fun n _ _ hpk hpp ha hq hk => live_idle_keep_B C K n hpk hpp ha hq hk
  numProv := fun n => live_numProv_B C K n
  sched_has_proc := fun n _ ho => live_sched_has_proc_B C K n ho
  queue_sched := fun n _ ho => live_queue_sched_B C K n ho
  noTier := fun n => live_noTier_B C K n
  schedLoop_pops := fun n _ _ hpk hpp ha hk hst => live_schedLoop_pops_B C K n hpk hpp ha hk hst
  finished_stored := fun n _ hob hfin hns => live_finished_stored_B C K n hob hfin hns
  free := fun n hq hfin => live_free_B C K n hq hfin
  admits := fun n _ _ hpk hpp ha hk hq hfin hex hdue hidle => live_admit_B C K n hpk hpp ha hk hq hfin hex hdue hidle
  finished := fun n hq hall hqueue => live_finished_B C K n hq hall hqueue
  schedLoop_spawn := fun n _ _ hpk hpp ha hk hsp => live_schedLoop_spawn_flips_B C K n hpk hpp ha hk hsp
  tel_spawn := fun n _ _ hpk hpp ha hk hsp => live_telescope_spawn_flips_B C K n hpk hpp ha hk hsp
  bufferLoop_no_spawn := fun n _ _ hpk hpp ha hk => live_bufferLoop_no_spawn_B C K n hpk hpp ha hk

/-- **Liveness of a run that never raises** (BatchProcessing, H1, topologically ordered workflows):
it reaches `is_finished()`. -/
theorem live_terminates_noRaise_B (C : LiveCfgB env s0) (hh0 : s0.halted = false) :
    ∃ n, (simAt env s0 n).st.isFinished = true ∧ (simAt env s0 n).st.crashed = none ∧
      SimRun env s0 (simAt env s0 n) := by
  have K := liveKernel_B C hh0
  obtain ⟨n, hn⟩ := live_terminates_B C K (liveParts_B C K)
  exact ⟨n, hn, C.nr n, (K.run n).1⟩
end
end Topsim
