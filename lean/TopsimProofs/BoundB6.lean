/-
  BoundB6 — C05, the numeric clause for BatchProcessing: the assembly (Bound9 for `BoundBParts`) and
  the bound.  From the parts the invariant
      clock < latest  ∨  clock + debt ≤ latest + V
  at every index before the run is at `is_finished()`, `debt = 1` in an idle state in which no enabled
  poller (`Sys.BoundBEn`) is still due at the current instant, else `0`.  The argument is that of Bound9;
  the persistence of an enabled poller is only used (and only true) for a block in an idle state.
-/
import TopsimProofs.BoundB2
import TopsimProofs.BoundB3
import TopsimProofs.BoundB5

namespace Topsim

open KState Sys

section
variable {env : SimEnv} {s0 : Sys}

/-- idle, and no enabled poller is still due at this instant -/
def BoundBIdleDone (env : SimEnv) (s0 : Sys) (n : Nat) : Prop :=
  (simAt env s0 n).st.NoWorker ∧
    ∀ p ∈ (simAt env s0 n).st.procs, (simAt env s0 n).st.BoundBEn p → boundTau env s0 n < p.wake

open Classical in
noncomputable def boundB_debt (env : SimEnv) (s0 : Sys) (n : Nat) : Time :=
  if BoundBIdleDone env s0 n then 1 else 0

theorem boundB_debt_nonneg (n : Nat) : 0 ≤ boundB_debt env s0 n := by
  unfold boundB_debt; split <;> decide

theorem boundB_debt_le_one (n : Nat) : boundB_debt env s0 n ≤ 1 := by
  unfold boundB_debt; split <;> decide

def BoundBInv (env : SimEnv) (s0 : Sys) (n : Nat) : Prop :=
  boundTau env s0 n < ((boundLatest s0 : Nat) : Time) ∨
    boundTau env s0 n + boundB_debt env s0 n ≤ boundLV env s0 n

theorem BoundBInv.le (h : BoundBInv env s0 n) : boundTau env s0 n ≤ boundLV env s0 n := by
  rcases h with h | h
  · have := bound_latest_le_lv (env := env) (s0 := s0) n
    grind
  · have := boundB_debt_nonneg (env := env) (s0 := s0) n
    grind

/-- **The step of the invariant.** -/
theorem boundB_inv_step (C : LiveCfgB env s0) (K : LiveKernel env s0) (P : BoundBParts env s0) (n : Nat)
    (ih : ∀ j, j ≤ n → BoundBInv env s0 j)
    (hnf : (simAt env s0 (n + 1)).st.isFinished = false) : BoundBInv env s0 (n + 1) := by
  obtain ⟨e, p, hpk, hpp, ha, hpm, hpid, htau, hmin, hkeep, huniq⟩ := boundB_step_facts C K n
  obtain ⟨e1, p1, _, _, ha1, hpm1, _, htau1, hmin1, _, _⟩ := boundB_step_facts C K (n + 1)
  have hmono := boundB_wk_mono C K n
  have hH : ∀ j, j < n + 1 → boundTau env s0 j ≤ boundLV env s0 j :=
    fun j hj => (ih j (by omega)).le
  have hvm := P.v_mono n
  have hlvm : boundLV env s0 n ≤ boundLV env s0 (n + 1) := by
    unfold boundLV
    have : boundLatest s0 + boundV s0 (simAt env s0 n).st ≤
        boundLatest s0 + boundV s0 (simAt env s0 (n + 1)).st := Nat.add_le_add_left hvm _
    exact_mod_cast this
  have hlvflip : boundV s0 (simAt env s0 n).st < boundV s0 (simAt env s0 (n + 1)).st →
      boundLV env s0 n + 1 ≤ boundLV env s0 (n + 1) := by
    intro hf
    unfold boundLV
    have : boundLatest s0 + boundV s0 (simAt env s0 n).st + 1 ≤
        boundLatest s0 + boundV s0 (simAt env s0 (n + 1)).st := by omega
    exact_mod_cast this
  have hlveq : ¬ boundV s0 (simAt env s0 n).st < boundV s0 (simAt env s0 (n + 1)).st →
      boundV s0 (simAt env s0 (n + 1)).st = boundV s0 (simAt env s0 n).st := by
    intro hf; omega
  have hdeb1 := boundB_debt_le_one (env := env) (s0 := s0) (n + 1)
  have hdeb0 := boundB_debt_nonneg (env := env) (s0 := s0) n
  by_cases hlt : boundTau env s0 (n + 1) < ((boundLatest s0 : Nat) : Time)
  · exact Or.inl hlt
  right
  have hge : ((boundLatest s0 : Nat) : Time) ≤ boundTau env s0 (n + 1) := Rat.not_lt.mp hlt
  -- the common sub-argument: in a state at index `n` that is not "idle-done", with no stage happening
  -- in the step, either the fired process was the last worker (then `tau + 1 ≤ LV`) or an enabled
  -- poller due now was not fired and survives
  have hkey : ((boundLatest s0 : Nat) : Time) ≤ boundTau env s0 n →
      ¬ boundV s0 (simAt env s0 n).st < boundV s0 (simAt env s0 (n + 1)).st →
      ¬ BoundBIdleDone env s0 n → (simAt env s0 (n + 1)).st.NoWorker →
      boundTau env s0 n + 1 ≤ boundLV env s0 n ∨
      ∃ p' ∈ (simAt env s0 n).st.procs, p'.pid ≠ e.pid ∧ (simAt env s0 n).st.BoundBEn p' ∧
        p'.wake ≤ boundTau env s0 n ∧ (simAt env s0 n).st.NoWorker := by
    intro hgen hnoflip hnd hw1
    by_cases hw : (simAt env s0 n).st.NoWorker
    · -- idle with an enabled poller due now
      have : ∃ p' ∈ (simAt env s0 n).st.procs, (simAt env s0 n).st.BoundBEn p' ∧
          ¬ boundTau env s0 n < p'.wake := by
        apply Classical.byContradiction
        intro hno
        apply hnd
        refine ⟨hw, fun p' hp' hen' => ?_⟩
        apply Classical.byContradiction
        intro hnl
        exact hno ⟨p', hp', hen', hnl⟩
      obtain ⟨p', hp', hen', hnl⟩ := this
      have hle : p'.wake ≤ boundTau env s0 n := Rat.not_lt.mp hnl
      by_cases hpe : p'.pid = e.pid
      · exfalso
        have : p' = p := huniq p' hp' hpe
        subst this
        apply hnoflip
        exact P.enabled_fires n e p' hpk hpp hen' hw (by rw [← htau]; exact hgen)
      · exact Or.inr ⟨p', hp', hpe, hen', hle, hw⟩
    · -- the fired process was the last worker
      left
      obtain ⟨q, hq, hqa, hqw⟩ := bound_not_noWorker hw
      have hqe : q.pid = e.pid := by
        apply Classical.byContradiction
        intro hne
        exact bound_noWorker_not hw1 (hkeep q hq hne) hqa hqw
      have : q = p := huniq q hq hqe
      subst this
      have := P.tl n (fun j hj => hH j (by omega)) q hq hqa hqw
      rw [htau]
      exact this
  by_cases hw1 : (simAt env s0 (n + 1)).st.NoWorker
  · -- idle at `n + 1`
    by_cases hadv : boundTau env s0 n < boundTau env s0 (n + 1)
    · -- the clock advanced: an enabled poller is due now, the debt is 0
      obtain ⟨p', hp', hen'⟩ := P.idle_enabled (n + 1) hw1 hnf
      have hp'nd : p'.k.tag ≠ "doWork" := (hw1 p' hp' hen'.1).2.2.2.2
      have hp1nd : p1.k.tag ≠ "doWork" := (hw1 p1 hpm1 ha1).2.2.2.2
      obtain ⟨m, hm, hmle⟩ := P.wake_nat n p' hp' hen'.1 hp'nd
      obtain ⟨m1, hm1, hm1le⟩ := P.wake_nat n p1 hpm1 ha1 hp1nd
      have hmm : m ≤ m1 := by
        have h1 : ((m : Nat) : Time) < ((m1 + 1 : Nat) : Time) := by
          push_cast
          rw [htau1, hm1] at hadv
          grind
        have : m < m1 + 1 := by exact_mod_cast h1
        omega
      have hp'le : p'.wake ≤ boundTau env s0 (n + 1) := by
        rw [htau1, hm, hm1]
        exact_mod_cast hmm
      have hnd1 : ¬ BoundBIdleDone env s0 (n + 1) := by
        rintro ⟨_, h2⟩
        exact absurd (h2 p' hp' hen') (Rat.not_lt.mpr hp'le)
      have hd0 : boundB_debt env s0 (n + 1) = 0 := by unfold boundB_debt; rw [if_neg hnd1]
      rw [hd0]
      have hle1 : boundTau env s0 (n + 1) ≤ boundTau env s0 n + 1 := by
        rw [htau1, hm1]; exact hm1le
      by_cases hearly : boundTau env s0 n < ((boundLatest s0 : Nat) : Time)
      · -- the clock crosses `latest`: it is exactly at a whole instant ≤ latest
        have hm1L : m1 ≤ boundLatest s0 := by
          have h1 : ((m1 : Nat) : Time) < ((boundLatest s0 + 1 : Nat) : Time) := by
            push_cast
            grind
          have : m1 < boundLatest s0 + 1 := by exact_mod_cast h1
          omega
        have h2 : boundTau env s0 (n + 1) ≤ ((boundLatest s0 : Nat) : Time) := by
          rw [htau1, hm1]; exact_mod_cast hm1L
        have := bound_latest_le_lv (env := env) (s0 := s0) (n + 1)
        grind
      · have hgen : ((boundLatest s0 : Nat) : Time) ≤ boundTau env s0 n := Rat.not_lt.mp hearly
        have hin : boundTau env s0 n + boundB_debt env s0 n ≤ boundLV env s0 n := by
          rcases ih n (Nat.le_refl n) with h | h
          · exact absurd h hearly
          · exact h
        by_cases hflip : boundV s0 (simAt env s0 n).st < boundV s0 (simAt env s0 (n + 1)).st
        · have := hlvflip hflip
          grind
        · by_cases hdone : BoundBIdleDone env s0 n
          · have hd1 : boundB_debt env s0 n = 1 := by unfold boundB_debt; rw [if_pos hdone]
            rw [hd1] at hin
            grind
          · rcases hkey hgen hflip hdone hw1 with h | ⟨p2, hp2, hp2e, hen2, hle2, hwn⟩
            · grind
            · -- an enabled poller due at the old instant was not fired: the clock cannot advance
              exfalso
              have hin2 := hkeep p2 hp2 hp2e
              have := hmin1 p2 hin2 hen2.1
              grind
    · -- no advance
      have heq : boundTau env s0 (n + 1) = boundTau env s0 n := by
        have := Rat.not_lt.mp hadv
        exact Rat.le_antisymm this hmono
      have hgen : ((boundLatest s0 : Nat) : Time) ≤ boundTau env s0 n := by rw [← heq]; exact hge
      have hin : boundTau env s0 n + boundB_debt env s0 n ≤ boundLV env s0 n := by
        rcases ih n (Nat.le_refl n) with h | h
        · exact absurd h (Rat.not_lt.mpr hgen)
        · exact h
      rw [heq]
      by_cases hflip : boundV s0 (simAt env s0 n).st < boundV s0 (simAt env s0 (n + 1)).st
      · have := hlvflip hflip
        grind
      · by_cases hdone1 : BoundBIdleDone env s0 (n + 1)
        · have hd1 : boundB_debt env s0 (n + 1) = 1 := by unfold boundB_debt; rw [if_pos hdone1]
          rw [hd1]
          by_cases hdone : BoundBIdleDone env s0 n
          · have hd : boundB_debt env s0 n = 1 := by unfold boundB_debt; rw [if_pos hdone]
            rw [hd] at hin
            grind
          · rcases hkey hgen hflip hdone hw1 with h | ⟨p2, hp2, hp2e, hen2, hle2, hwn⟩
            · grind
            · exfalso
              obtain ⟨hin2, hen3⟩ := P.enabled_persists n e p2 hpk hp2 hp2e hen2 hwn (hlveq hflip)
              have := hdone1.2 p2 hin2 hen3
              rw [heq] at this
              grind
        · have hd0 : boundB_debt env s0 (n + 1) = 0 := by unfold boundB_debt; rw [if_neg hdone1]
          rw [hd0]
          grind
  · -- a worker is alive at `n + 1`: its whole life is pre-paid
    obtain ⟨q, hq, hqa, hqw⟩ := bound_not_noWorker hw1
    have hnd1 : ¬ BoundBIdleDone env s0 (n + 1) := fun h => hw1 h.1
    have hd0 : boundB_debt env s0 (n + 1) = 0 := by unfold boundB_debt; rw [if_neg hnd1]
    rw [hd0]
    have h1 := hmin1 q hq hqa
    have h2 := P.tl (n + 1) hH q hq hqa hqw
    grind

/-- the invariant at index 0 -/
theorem boundB_inv_zero (C : LiveCfgB env s0) (K : LiveKernel env s0) (P : BoundBParts env s0)
    (hnf : (simAt env s0 0).st.isFinished = false) : BoundBInv env s0 0 := by
  obtain ⟨e, p, hpk, hpp, ha, hpm, hpid, htau, hmin, _, _⟩ := boundB_step_facts C K 0
  have hw0 : ∀ q ∈ (simAt env s0 0).st.procs, q.wake = 0 := boundB_wk_start_procs C
  have ht0 : boundTau env s0 0 = 0 := by rw [htau]; exact hw0 p hpm
  by_cases hL : 0 < boundLatest s0
  · left
    rw [ht0]
    exact_mod_cast hL
  · right
    by_cases hw : (simAt env s0 0).st.NoWorker
    · obtain ⟨p', hp', hen'⟩ := P.idle_enabled 0 hw hnf
      have hnd : ¬ BoundBIdleDone env s0 0 := by
        rintro ⟨_, h2⟩
        have := h2 p' hp' hen'
        rw [ht0, hw0 p' hp'] at this
        exact absurd this (by decide)
      have hd0 : boundB_debt env s0 0 = 0 := by unfold boundB_debt; rw [if_neg hnd]
      rw [hd0, ht0]
      have := bound_latest_le_lv (env := env) (s0 := s0) 0
      have h0 : (0 : Time) ≤ ((boundLatest s0 : Nat) : Time) := by exact_mod_cast Nat.zero_le _
      grind
    · have hnd : ¬ BoundBIdleDone env s0 0 := fun h => hw h.1
      have hd0 : boundB_debt env s0 0 = 0 := by unfold boundB_debt; rw [if_neg hnd]
      rw [hd0, ht0]
      have := bound_latest_le_lv (env := env) (s0 := s0) 0
      have h0 : (0 : Time) ≤ ((boundLatest s0 : Nat) : Time) := by exact_mod_cast Nat.zero_le _
      grind

/-- **The invariant** at every index up to which the run is not at `is_finished()`. -/
theorem boundB_inv_all (C : LiveCfgB env s0) (K : LiveKernel env s0) (P : BoundBParts env s0) (n : Nat)
    (hnf : ∀ j, j ≤ n → (simAt env s0 j).st.isFinished = false) : BoundBInv env s0 n := by
  induction n using Nat.strongRecOn with
  | _ n ih =>
    cases n with
    | zero => exact boundB_inv_zero C K P (hnf 0 (Nat.le_refl 0))
    | succ n =>
      apply boundB_inv_step C K P n
      · intro j hj
        exact ih j (by omega) (fun i hi => hnf i (by omega))
      · exact hnf (n + 1) (Nat.le_refl _)

/-- **The bound from the parts**, for any number `B` that dominates `latest + V` along the run: the
first index at which the run is at `is_finished()` has its clock within `B`. -/
theorem boundB_of_parts_gen (C : LiveCfgB env s0) (K : LiveKernel env s0) (P : BoundBParts env s0)
    (hex : ∃ n, (simAt env s0 n).st.isFinished = true) (B : Nat)
    (hB : ∀ n, boundLatest s0 + boundV s0 (simAt env s0 n).st ≤ B) :
    ∃ n, (simAt env s0 n).st.isFinished = true ∧ boundClock env s0 n ≤ ((B : Nat) : Time) := by
  obtain ⟨n, hfin, hmin'⟩ := bound_least _ hex
  have hmin : ∀ j, j < n → (simAt env s0 j).st.isFinished = false := by
    intro j hj
    cases h : (simAt env s0 j).st.isFinished with
    | false => rfl
    | true => exact absurd h (hmin' j hj)
  refine ⟨n, hfin, ?_⟩
  cases n with
  | zero =>
    show (0 : Time) ≤ _
    exact_mod_cast Nat.zero_le _
  | succ m =>
    show boundTau env s0 m ≤ _
    have hinv := boundB_inv_all C K P m (fun j hj => hmin j (by omega))
    have h1 := hinv.le
    have h2 : boundLV env s0 m ≤ ((B : Nat) : Time) := by
      unfold boundLV
      exact_mod_cast hB m
    exact Rat.le_trans h1 h2

/-- … in particular within the serial bound -/
theorem boundB_of_parts (C : LiveCfgB env s0) (K : LiveKernel env s0) (P : BoundBParts env s0)
    (hex : ∃ n, (simAt env s0 n).st.isFinished = true) :
    ∃ n, (simAt env s0 n).st.isFinished = true ∧
      boundClock env s0 n ≤ ((Sys.serialBound s0 : Nat) : Time) :=
  boundB_of_parts_gen C K P hex _ P.v_total

/-- all the parts, BatchProcessing -/
theorem boundB_parts (C : LiveCfgB env s0) (K : LiveKernel env s0)
    (hd1 : env.delayTable = []) (hd2 : env.delayScript = []) : BoundBParts env s0 where
  wake_nat := fun n => boundB_wake_nat C K n
  tl := by
    intro n hprev q hq ha hw
    rcases bound_worker_split hw with h | h
    · exact boundB_tl_ingest C K n hprev q hq ha h
    · exact boundB_tl_wf C K hd1 hd2 n hprev q hq ha h
  idle_enabled := fun n hq hnf => boundB_idle_enabled C K n hq hnf
  enabled_fires := fun n _ _ hpk hpp hen hq hdue => boundB_enabled_fires C K n hpk hpp hen hq hdue
  enabled_persists := fun n _ _ hpk hp hne hen hq hV => boundB_enabled_persists C K n hpk hp hne hen hq hV
  v_mono := fun n => boundB_v_mono C K (Nat.le_succ n)
  v_total := by
    intro n
    have h1 := bound_v_le_total s0 (simAt env s0 n).st
    have h2 := bound_total_le_serial s0 C.topo
    omega

/-- **The serial bound, run level, BatchProcessing**: the first index at which the run is at
`is_finished()` has its clock (the time of the last event popped) within the serial bound. -/
theorem boundB_batch_clock (N : NcCfgB env s0) (hd1 : env.delayTable = []) (hd2 : env.delayScript = []) :
    ∃ n, (simAt env s0 n).st.isFinished = true ∧ (simAt env s0 n).st.crashed = none ∧
      SimRun env s0 (simAt env s0 n) ∧
      boundClock env s0 n ≤ ((Sys.serialBound s0 : Nat) : Time) := by
  have C : LiveCfgB env s0 := N.toLive (live_noRaise_B N)
  have K := liveKernel_B C N.hh0
  obtain ⟨n0, h0, _⟩ := live_terminates_noRaise_B C N.hh0
  obtain ⟨n, hfin, hclk⟩ := boundB_of_parts C K (boundB_parts C K hd1 hd2) ⟨n0, h0⟩
  exact ⟨n, hfin, C.nr n, (K.run n).1, hclk⟩

/-- the same with the sharper number `latest + boundVTotal` -/
theorem boundB_batch_clock_sharp (N : NcCfgB env s0) (hd1 : env.delayTable = []) (hd2 : env.delayScript = []) :
    ∃ n, (simAt env s0 n).st.isFinished = true ∧ (simAt env s0 n).st.crashed = none ∧
      SimRun env s0 (simAt env s0 n) ∧
      boundClock env s0 n ≤ ((boundLatest s0 + boundVTotal s0 : Nat) : Time) := by
  have C : LiveCfgB env s0 := N.toLive (live_noRaise_B N)
  have K := liveKernel_B C N.hh0
  obtain ⟨n0, h0, _⟩ := live_terminates_noRaise_B C N.hh0
  obtain ⟨n, hfin, hclk⟩ := boundB_of_parts_gen C K (boundB_parts C K hd1 hd2) ⟨n0, h0⟩
    (boundLatest s0 + boundVTotal s0)
    (fun n => Nat.add_le_add_left (bound_v_le_total s0 (simAt env s0 n).st) _)
  exact ⟨n, hfin, C.nr n, (K.run n).1, hclk⟩

end

end Topsim
