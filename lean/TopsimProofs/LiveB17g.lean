/-
  LiveB17g — BatchProcessing: the declarations of Live17g that depend on the configuration hypotheses,
  for `LiveCfgB` / `NcCfgB` (`s0.alg = .batch …`).  Generated from Live17g.lean by renaming (suffix `_B`);
  the algorithm-dependent ones are rewritten (see the comments).
-/
import TopsimProofs.Live17g
import TopsimProofs.LiveB5
import TopsimProofs.LiveB8
import TopsimProofs.LiveB8b
import TopsimProofs.LiveB8c
import TopsimProofs.LiveB8d
import TopsimProofs.LiveB8e
import TopsimProofs.LiveB8f
import TopsimProofs.LiveB8g
import TopsimProofs.LiveB9
import TopsimProofs.LiveB14
import TopsimProofs.LiveB17
import TopsimProofs.LiveB17b
import TopsimProofs.LiveB17d
import TopsimProofs.LiveB17e
import TopsimProofs.LiveB17f
import TopsimProofs.LiveB4

namespace Topsim
open KState Sys
section
variable {env : SimEnv} {s0 : Sys}

/-- **T8**, at an index that has not crashed (BatchProcessing) -/
theorem nc_block_allocTasks_ok_B (N : NcCfgB env s0) (n : Nat) (hc : (simAt env s0 n).st.crashed = none)
    {p : Proc} (hp : p ∈ (simAt env s0 n).st.procs) (ha : p.alive = true) {o : Oid}
    {sc pa : List (Tid × Mid)} {po : List Tid} {fn : Bool} (hk : p.k = .allocTasks o sc pa po fn)
    (orc : Oracle) : ∀ err, ((simAt env s0 n).st.block p orc).2.2 ≠ .raised err := by
  cases fn with
  | true =>
    rw [block_allocTasks orc hk, allocTasksBlock_fin]
    intro err h; cases h
  | false =>
    obtain ⟨parts, minPer, split, halg0⟩ := N.alg
    have halg : (simAt env s0 n).st.alg = .batch parts minPer split := (reach_alg (nc_reach_B N n hc)).trans halg0
    obtain ⟨hparts, _, hfsome⟩ := Sys.lb_feasible_batch N.feas halg0 N.minOk
    -- the observation of the process is an observation of the configuration
    have hsch := (reachOk_ati s0 _ N.hw (nc_bufList_B N) (nc_reachOk_B N n hc)).sched p hp ha o sc pa po hk
    have hpos : 0 < locCount (simAt env s0 n).st o := by
      unfold locCount bufList
      simp only [List.count_append]
      have := List.count_pos_iff.mpr hsch
      omega
    obtain ⟨ob, hob, _⟩ := (nc_bufi_B N n hc).locObs o hpos
    obtain ⟨hobm, hoid⟩ := obs_mem_of_obs? hob
    obtain ⟨o0, ho0, hst⟩ := nc_obs_cfg_B N n hobm
    have hid0 : o0.id = o := by
      have := (Sys.ot_stat_fields hst).1
      rw [← this]; exact hoid
    have hM : (simAt env s0 n).st.cl.machines.length = s0.machines.length := by
      rw [sim_machines env s0 N.hw _ (simAt_reach env s0 n), List.length_map]
    refine Sys.nc_allocTasks_nr_B (nc_sinv_B N n)
      (Sys.reach_ri s0 _ N.hw (nc_bufList_B N) halg0 (nc_reach_B N n hc))
      (Sys.reachOk_ncp_B s0 _ N.hw (nc_bufList_B N) halg0 (nc_reachOk_B N n hc) hc)
      (reach_pr s0 _ N.hw (nc_bufList_B N) (nc_noOracle_B N) (nc_reach_B N n hc) hc)
      (reach_px s0 _ N.hw (nc_bufList_B N) (nc_noOracle_B N) (nc_reach_B N n hc) hc)
      (reach_st s0 _ N.hw (nc_bufList_B N) (nc_noOracle_B N) (nc_reach_B N n hc) hc)
      (nc_fi_B N n hc) (fun _ hm => nc_machine_B N n hc hm) hp ha hk orc halg hparts ?_
    intro sp e
    obtain ⟨lo, hi, hg, _, _, h3, _⟩ := hfsome sp e o0 ho0
    exact ⟨lo, hi, by rw [← hid0]; exact hg, by rw [hM]; exact h3⟩

/-- **The block that runs at an index that has not crashed does not raise.** -/
theorem nc_block_ok_B (N : NcCfgB env s0) (Ord : NcOrderB env s0) (n : Nat)
    (hc : (simAt env s0 n).st.crashed = none) {e : HEntry} {p : Proc}
    (hpk : (simAt env s0 n).peek = some e) (hpp : (simAt env s0 n).st.proc? e.pid = some p)
    (ha : p.alive = true) (orc : Oracle) :
    ∀ err, ((simAt env s0 n).st.block p orc).2.2 ≠ .raised err := by
  have hp := nc_mem hpp
  cases hk : p.k with
  | monitor =>
    rw [block_monitor orc hk]
    intro err h; cases h
  | telescope => exact nc_block_telescope_ok_B N n hc hk orc
  | clusterLoop =>
    rw [block_clusterLoop orc hk]
    intro err h; cases h
  | schedLoop => exact nc_block_schedLoop_ok_B N n hc hk orc
  | bufferLoop => exact nc_block_bufferLoop_ok_B N n hc hk orc
  | allocIngest o tl => exact nc_block_allocIngest_ok_B N n hc hp hk orc
  | provIngest o d => exact nc_block_provIngest_ok_B N Ord n hc hpk hpp ha hk orc
  | ingestStream o tl => exact nc_block_ingestStream_ok_B N n hc hp ha hk orc
  | allocTask t m preds obs ing ret => exact nc_block_allocTask_ok_B N Ord n hc hpk hpp ha hk orc
  | doWork t m preds ph tot => exact nc_block_doWork_ok_B N n hc hp ha hk orc
  | allocTasks o sc pa po fn => exact nc_block_allocTasks_ok_B N n hc hp ha hk orc
  | hot2cold cur => exact nc_block_hot2cold_ok_B N n hc hp hk orc
  | cold2hot cur => exact nc_block_cold2hot_ok_B N n hc hp hk orc

/-- **No block of the run raises.** -/
theorem nc_noRaise_B (N : NcCfgB env s0) (Ord : NcOrderB env s0) : NoRaise env s0 := by
  intro n
  induction n with
  | zero =>
    show s0.start.crashed = none
    have : s0.start.crashed = s0.crashed := by simp [Sys.start, Sys.spawn]
    rw [this]
    exact N.hw.fresh.2.2.2.2.2.2.2.2.2.2.2.2.2.2.2.2
  | succ n ih =>
    obtain ⟨e, p, hpk, hpp, ha, _, _, hst⟩ := nc_step_B N n ih
    rw [hst]
    exact Sys.nc_resume_crashed _ _ _ p hpp ha ih (nc_block_ok_B N Ord n ih hpk hpp ha _)

/-- the hypotheses of the liveness development, without assuming `NoRaise` -/
theorem nc_live_B (N : NcCfgB env s0) (Ord : NcOrderB env s0) : LiveCfgB env s0 := N.toLive (nc_noRaise_B N Ord)
end
end Topsim
