import TopsimProofs.IngestLimit23

namespace Topsim
open KState Sys

def otObs (D n : Nat) : Obs :=
  { id := 0, est := 1, duration := D, demand := 1, rate := 1, ingestDemand := n, wf := ⟨[], [], []⟩ }

def otW (D n : Nat) : Sys :=
  { machines := [⟨0, 1, 1⟩, ⟨1, 1, 1⟩, ⟨2, 1, 1⟩], totalArrays := 3, maxIngest := 2, alg := .queue,
    cl := Cluster.init [0, 1, 2], buf := Buffer.init 100 10 100 10,
    obs := [otObs D n] }

def otTrace (D n : Nat) (steps : Nat) : List (Nat × Option Rat × Option Nat × List Mid × Option (Option Nat) × Option RunStatus) :=
  (List.range steps).map (fun i =>
    let k := ilSimSteps {} i (SimState.start (otW D n))
    (i, k.peek.map (·.time), k.peek.map (·.pid), k.st.cl.ingest, (k.st.obs? 0).map (·.ast), (k.st.obs? 0).map (·.status)))

#eval otTrace 3 2 60
#eval otTrace 2 2 50
#eval otTrace 1 2 40

end Topsim
