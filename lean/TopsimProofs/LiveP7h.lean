/-
  LiveP7h — the declarations of Live7h.lean that depend on the configuration structures, restated for
  the plan-following configurations (`LivePCfg`, `NcPCfg`, `L7PLib`); the proofs are those of Live7h.lean.
  `l7_progress_P` / `l7_spawn_flips_P` (LiveP7g) take the static-plan invariant `PlanI` in the place of batch planning.
-/
import TopsimProofs.LiveP7g

namespace Topsim

open KState Sys

section

variable {env : SimEnv} {s0 : Sys}

/-- the step at index `n`, for the entry and the process the caller names -/
theorem l7_step_at_P (C : LivePCfg env s0) (K : LiveKernel env s0) (n : Nat) {e : HEntry} {p : Proc}
    (hpk : (simAt env s0 n).peek = some e) (hpp : (simAt env s0 n).st.proc? e.pid = some p) :
    L7Step (simAt env s0 n).st (simAt env s0 (n + 1)).st p (env.oracle (simAt env s0 n).st) := by
  obtain ⟨e', p', hpk', hpp', _, hstep⟩ := l7_step_P C K n
  rw [hpk] at hpk'
  injection hpk' with he
  subst he
  rw [hpp] at hpp'
  injection hpp' with hp
  subst hp
  exact hstep

/-- `PSch` is monotone along the run -/
theorem live_PSch_mono_P (C : LivePCfg env s0) (K : LiveKernel env s0) (n : Nat) {o : Oid} {node : Nat}
    (h : Sys.PSch o node (simAt env s0 n).st) : Sys.PSch o node (simAt env s0 (n + 1)).st := by
  obtain ⟨e, p, _, _, _, hstep⟩ := l7_step_P C K n
  exact l7_psch_step_P (l7_lib_P C K n) hstep h

/-- SF, strengthened: the allocation process that was created, and none for that node before -/
theorem live_allocTasks_spawn_flips'_P (C : LivePCfg env s0) (K : LiveKernel env s0) (n : Nat) {e : HEntry}
    {p : Proc} (hpk : (simAt env s0 n).peek = some e) (hpp : (simAt env s0 n).st.proc? e.pid = some p)
    (_ha : p.alive = true) {o : Oid} {sc pa : List (Tid × Mid)} {po : List Tid} {fn : Bool}
    (hk : p.k = .allocTasks o sc pa po fn)
    (hsp : (simAt env s0 n).st.nextPid < (simAt env s0 (n + 1)).st.nextPid) :
    ∃ ob ∈ s0.obs, ob.id = o ∧ ∃ node ∈ ob.wf.topo,
      ¬ Sys.PSch o node (simAt env s0 n).st ∧ Sys.PSch o node (simAt env s0 (n + 1)).st ∧
      (∃ q ∈ (simAt env s0 (n + 1)).st.procs, ∃ c m preds obs ing ret,
        q.k = .allocTask (.wf o c node) m preds obs ing ret) ∧
      (∀ q ∈ (simAt env s0 n).st.procs, ∀ c m preds obs ing ret,
        q.k ≠ .allocTask (.wf o c node) m preds obs ing ret) := by
  have hstep := l7_step_at_P C K n hpk hpp
  obtain ⟨new, hnewe, _⟩ := block_newp (simAt env s0 n).st p (env.oracle (simAt env s0 n).st)
  have hlen : (simAt env s0 (n + 1)).st.procs.length = (simAt env s0 n).st.procs.length + new.length := by
    rw [hstep.eq]
    simp only [Sys.updProc, List.length_map]
    rw [hnewe, List.length_append]
  rw [l7_procs_length K, l7_procs_length K] at hlen
  have hne : new ≠ [] := by
    intro e0
    rw [e0] at hlen
    simp at hlen
    omega
  obtain ⟨q, hq⟩ := List.exists_mem_of_ne_nil _ hne
  exact l7_spawn_flips_P (l7_lib_P C K n) (l7_lib_P C K (n + 1)) (live_l7a_P C K (n + 1)) (live_planI_P C K (n + 1))
    hstep hk hnewe hq

/-- **SF.**  Whenever a block of an `allocate_tasks` process creates a process, the record of some
workflow node of that observation goes from UNSCHEDULED to not UNSCHEDULED in that block. -/
theorem live_allocTasks_spawn_flips_P (C : LivePCfg env s0) (K : LiveKernel env s0) (n : Nat) {e : HEntry}
    {p : Proc} (hpk : (simAt env s0 n).peek = some e) (hpp : (simAt env s0 n).st.proc? e.pid = some p)
    (ha : p.alive = true) {o : Oid} {sc pa : List (Tid × Mid)} {po : List Tid} {fn : Bool}
    (hk : p.k = .allocTasks o sc pa po fn)
    (hsp : (simAt env s0 n).st.nextPid < (simAt env s0 (n + 1)).st.nextPid) :
    ∃ ob ∈ s0.obs, ob.id = o ∧ ∃ node ∈ ob.wf.topo,
      ¬ Sys.PSch o node (simAt env s0 n).st ∧ Sys.PSch o node (simAt env s0 (n + 1)).st := by
  obtain ⟨ob, hob, hoid, node, hnode, h1, h2, _⟩ := live_allocTasks_spawn_flips'_P C K n hpk hpp ha hk hsp
  exact ⟨ob, hob, hoid, node, hnode, h1, h2⟩

/-- E2, strengthened: the allocation process that was created, and none for that node before -/
theorem live_allocTasks_progress'_P (C : LivePCfg env s0) (K : LiveKernel env s0) (n : Nat) {e : HEntry}
    {p : Proc} (hpk : (simAt env s0 n).peek = some e) (hpp : (simAt env s0 n).st.proc? e.pid = some p)
    (_ha : p.alive = true) {o : Oid} {sc pa : List (Tid × Mid)} {po : List Tid}
    (hk : p.k = .allocTasks o sc pa po false) (_hrm : o ∉ (simAt env s0 n).st.buf.hot.finished)
    (hav : (simAt env s0 n).st.cl.available ≠ [])
    (hocc : (simAt env s0 n).st.cl.occupied = [] ∧ (simAt env s0 n).st.cl.ingest = [])
    (hq : ∀ q ∈ (simAt env s0 n).st.procs, q.alive = true → q.k.tag ≠ "allocTask" ∧ q.k.tag ≠ "doWork") :
    o ∈ (simAt env s0 (n + 1)).st.buf.hot.finished ∨
    ∃ ob ∈ s0.obs, ob.id = o ∧ ∃ node ∈ ob.wf.topo,
      ¬ Sys.PSch o node (simAt env s0 n).st ∧ Sys.PSch o node (simAt env s0 (n + 1)).st ∧
      (∃ q ∈ (simAt env s0 (n + 1)).st.procs, ∃ c m preds obs ing ret,
        q.k = .allocTask (.wf o c node) m preds obs ing ret) ∧
      (∀ q ∈ (simAt env s0 n).st.procs, ∀ c m preds obs ing ret,
        q.k ≠ .allocTask (.wf o c node) m preds obs ing ret) := by
  have hstep := l7_step_at_P C K n hpk hpp
  have L := l7_lib_P C K n
  rcases l7_progress_P L (live_l7a_P C K n)
      (fun hd => live_l7pool_P C K ((reach_alg L.ok.toReach).symm.trans hd) n) (live_planI_P C K n) C.hw C.alg C.topo
      hstep hk hav hocc hq with
    h1 | ⟨q, hq1, hpid⟩
  · exact Or.inl h1
  · right
    obtain ⟨new, hnewe, _⟩ := block_newp (simAt env s0 n).st p (env.oracle (simAt env s0 n).st)
    have hqn : q ∈ new := by
      rw [hnewe] at hq1
      rcases List.mem_append.mp hq1 with h2 | h2
      · exfalso
        have := L.sinv.pw.lt q h2
        omega
      · exact h2
    exact l7_spawn_flips_P L (l7_lib_P C K (n + 1)) (live_l7a_P C K (n + 1)) (live_planI_P C K (n + 1)) hstep hk hnewe hqn

/-- **E2.**  When the kernel resumes the live `allocate_tasks` process of an observation not yet
removed, in a state where no allocation process / task body is alive, no machine is occupied or
ingesting and some machine is available, then this block either removes the observation from the
hot buffer or starts at least one more task of its workflow. -/
theorem live_allocTasks_progress_P (C : LivePCfg env s0) (K : LiveKernel env s0) (n : Nat) {e : HEntry}
    {p : Proc} (hpk : (simAt env s0 n).peek = some e) (hpp : (simAt env s0 n).st.proc? e.pid = some p)
    (ha : p.alive = true) {o : Oid} {sc pa : List (Tid × Mid)} {po : List Tid}
    (hk : p.k = .allocTasks o sc pa po false) (hrm : o ∉ (simAt env s0 n).st.buf.hot.finished)
    (hav : (simAt env s0 n).st.cl.available ≠ [])
    (hocc : (simAt env s0 n).st.cl.occupied = [] ∧ (simAt env s0 n).st.cl.ingest = [])
    (hq : ∀ q ∈ (simAt env s0 n).st.procs, q.alive = true → q.k.tag ≠ "allocTask" ∧ q.k.tag ≠ "doWork") :
    o ∈ (simAt env s0 (n + 1)).st.buf.hot.finished ∨
    ∃ ob ∈ s0.obs, ob.id = o ∧ ∃ node ∈ ob.wf.topo,
      ¬ Sys.PSch o node (simAt env s0 n).st ∧ Sys.PSch o node (simAt env s0 (n + 1)).st := by
  rcases live_allocTasks_progress'_P C K n hpk hpp ha hk hrm hav hocc hq with h1 |
    ⟨ob, hob, hoid, node, hnode, h1, h2, _⟩
  · exact Or.inl h1
  · exact Or.inr ⟨ob, hob, hoid, node, hnode, h1, h2⟩

end

end Topsim

