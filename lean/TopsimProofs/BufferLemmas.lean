/-
  Buffer accounting (C07): the conservation identity is an invariant of every
  well-formed operation history.
-/
import TopsimModel.BufferOps
import TopsimProofs.ListLemmas

namespace Topsim
namespace Buffer

/-! ### sums over the size dictionary -/

/-- data of the entries of `d` whose key is not in `fin` -/
def resSum (fin : List Oid) : List (Oid × Int) → Int
  | [] => 0
  | (k, v) :: r => (if k ∈ fin then 0 else v) + resSum fin r

theorem foldl_add_eq_sum (l : List Int) (a : Int) : l.foldl (· + ·) a = a + l.sum := by
  induction l generalizing a with
  | nil => simp
  | cons x r ih => rw [List.foldl_cons, ih, List.sum_cons]; omega

theorem sum_filter_eq (fin : List Oid) (d : List (Oid × Int)) :
    ((d.filter (fun p => !fin.contains p.1)).map (·.2)).sum = resSum fin d := by
  induction d with
  | nil => rfl
  | cons p r ih =>
    obtain ⟨k, v⟩ := p
    by_cases h : k ∈ fin <;> simp [resSum, h] <;> simpa using ih

theorem residentData_eq (b : Buffer) : b.residentData = resSum b.hot.finished b.size := by
  unfold residentData
  rw [foldl_add_eq_sum, sum_filter_eq]
  omega

theorem resSum_dictSet (fin : List Oid) (d : List (Oid × Int)) (o : Oid) (r : Int) :
    resSum fin (dictSet d o ((dictGet d o).getD 0 + r))
      = resSum fin d + (if o ∈ fin then 0 else r) := by
  induction d with
  | nil => simp [dictSet, dictGet, resSum]
  | cons p rest ih =>
    obtain ⟨k, v⟩ := p
    by_cases hk : k = o
    · subst hk
      simp only [dictSet, dictGet, if_true, resSum, Option.getD_some]
      split <;> omega
    · simp only [dictSet, dictGet, hk, if_false, resSum, ih]
      omega

theorem resSum_not_mem (fin : List Oid) (d : List (Oid × Int)) (o : Oid) (h : o ∉ dictKeys d) :
    resSum (fin ++ [o]) d = resSum fin d := by
  induction d with
  | nil => rfl
  | cons p rest ih =>
    obtain ⟨k, v⟩ := p
    simp only [dictKeys, List.map_cons, List.mem_cons, not_or] at h
    have hk : ¬ k = o := fun e => h.1 e.symm
    simp only [resSum, List.mem_append, List.mem_singleton, hk, or_false]
    rw [ih h.2]

theorem resSum_finish (fin : List Oid) (d : List (Oid × Int)) (o : Oid) (ho : o ∉ fin)
    (hn : (dictKeys d).Nodup) :
    resSum (fin ++ [o]) d + (dictGet d o).getD 0 = resSum fin d := by
  induction d with
  | nil => simp [dictGet, resSum]
  | cons p rest ih =>
    obtain ⟨k, v⟩ := p
    simp only [dictKeys, List.map_cons, List.nodup_cons] at hn
    by_cases hk : k = o
    · subst hk
      have := resSum_not_mem fin rest k hn.1
      simp only [resSum, dictGet, if_true, Option.getD_some, List.mem_append, List.mem_singleton,
        or_true, ho, if_false, this]
      omega
    · have := ih hn.2
      simp only [resSum, dictGet, hk, if_false, List.mem_append, List.mem_singleton, or_false]
      omega

theorem resSum_nonneg (fin : List Oid) (d : List (Oid × Int)) (h : ∀ p ∈ d, 0 ≤ p.2) :
    0 ≤ resSum fin d := by
  induction d with
  | nil => simp [resSum]
  | cons p rest ih =>
    obtain ⟨k, v⟩ := p
    have h1 : 0 ≤ v := h (k, v) (by simp)
    have h2 := ih (fun p hp => h p (List.mem_cons_of_mem _ hp))
    simp only [resSum]
    split <;> omega

theorem mem_dictSet {κ α} [DecidableEq κ] (d : List (κ × α)) (k : κ) (v : α) (p : κ × α)
    (h : p ∈ dictSet d k v) : p = (k, v) ∨ p ∈ d := by
  induction d with
  | nil => simpa [dictSet] using h
  | cons q rest ih =>
    obtain ⟨k', v'⟩ := q
    by_cases hk : k' = k
    · simp only [dictSet, hk, if_true, List.mem_cons] at h ⊢
      rcases h with h | h
      · exact Or.inl h
      · exact Or.inr (Or.inr h)
    · simp only [dictSet, hk, if_false, List.mem_cons] at h ⊢
      rcases h with h | h
      · exact Or.inr (Or.inl h)
      · rcases ih h with h | h
        · exact Or.inl h
        · exact Or.inr (Or.inr h)

theorem sizeOf_nonneg (b : Buffer) (o : Oid) (h : ∀ p ∈ b.size, 0 ≤ p.2) : 0 ≤ b.sizeOf o := by
  unfold sizeOf
  cases hg : dictGet b.size o with
  | none => simp
  | some v => exact h _ (dictGet_some_mem hg)

/-! ### the invariant -/

structure BInv (b : Buffer) : Prop where
  acct : (b.hot.total - b.hot.cur) + (b.cold.total - b.cold.cur) = resSum b.hot.finished b.size
  keys : (dictKeys b.size).Nodup

theorem inv_init (hc hr cc cr : Int) : BInv (init hc hr cc cr) := by
  constructor <;> simp [init, resSum, dictKeys]

theorem recvAmount_fst (r l s : Int) : (recvAmount r l s).1 = l - (recvAmount r l s).2 := by
  unfold recvAmount
  split
  · split <;> simp <;> omega
  · simp; omega

theorem sendAmount_fst (r l s : Int) : (sendAmount r l s).1 = l - (sendAmount r l s).2 := by
  unfold sendAmount
  split
  · simp; omega
  · split <;> simp <;> omega

theorem hot2coldStep_spec (b : Buffer) (o : Oid) (l : Int) :
    (b.hot2coldStep o l).1.size = b.size ∧
    (b.hot2coldStep o l).1.hot.finished = b.hot.finished ∧
    (b.hot2coldStep o l).1.hot.total = b.hot.total ∧
    (b.hot2coldStep o l).1.cold.total = b.cold.total ∧
    (b.hot2coldStep o l).1.hot.cur = b.hot.cur + (sendAmount b.moveRate l (b.sizeOf o)).1 ∧
    (b.hot2coldStep o l).1.cold.cur = b.cold.cur - (recvAmount b.moveRate l (b.sizeOf o)).1 ∧
    ((∃ x, (b.hot2coldStep o l).2 = .ok x) →
      (recvAmount b.moveRate l (b.sizeOf o)).2 = (sendAmount b.moveRate l (b.sizeOf o)).2) := by
  simp only [hot2coldStep]
  generalize recvAmount b.moveRate l (b.sizeOf o) = ra
  generalize sendAmount b.moveRate l (b.sizeOf o) = sa
  obtain ⟨take, check⟩ := ra
  obtain ⟨give, left'⟩ := sa
  simp only []
  by_cases h3 : check = left' <;> by_cases h1 : check = 0 <;> by_cases h2 : left' = 0 <;>
    by_cases h4 : b.hot.transfer.isNone = true <;> simp_all

theorem cold2hotStep_spec (b : Buffer) (o : Oid) (l : Int) :
    (b.cold2hotStep o l).1.size = b.size ∧
    (b.cold2hotStep o l).1.hot.finished = b.hot.finished ∧
    (b.cold2hotStep o l).1.hot.total = b.hot.total ∧
    (b.cold2hotStep o l).1.cold.total = b.cold.total ∧
    (b.cold2hotStep o l).1.cold.cur = b.cold.cur + (sendAmount b.moveRate l (b.sizeOf o)).1 ∧
    (b.cold2hotStep o l).1.hot.cur = b.hot.cur - (recvAmount b.moveRate l (b.sizeOf o)).1 ∧
    ((∃ x, (b.cold2hotStep o l).2 = .ok x) →
      (recvAmount b.moveRate l (b.sizeOf o)).2 = (sendAmount b.moveRate l (b.sizeOf o)).2) := by
  simp only [cold2hotStep]
  generalize recvAmount b.moveRate l (b.sizeOf o) = ra
  generalize sendAmount b.moveRate l (b.sizeOf o) = sa
  obtain ⟨take, check⟩ := ra
  obtain ⟨give, left'⟩ := sa
  simp only []
  by_cases h3 : check = left' <;> by_cases h1 : check = 0 <;> by_cases h2 : left' = 0 <;>
    by_cases h4 : b.cold.transfer.isNone = true <;> simp_all

theorem hot2coldBegin_spec (b : Buffer) :
    b.hot2coldBegin.1.size = b.size ∧ b.hot2coldBegin.1.hot.finished = b.hot.finished ∧
    b.hot2coldBegin.1.hot.total = b.hot.total ∧ b.hot2coldBegin.1.cold.total = b.cold.total ∧
    b.hot2coldBegin.1.hot.cur = b.hot.cur ∧ b.hot2coldBegin.1.cold.cur = b.cold.cur := by
  unfold hot2coldBegin
  split
  · simp
  · simp only []
    split <;> simp

theorem cold2hotBegin_spec (b : Buffer) :
    b.cold2hotBegin.1.size = b.size ∧ b.cold2hotBegin.1.hot.finished = b.hot.finished ∧
    b.cold2hotBegin.1.hot.total = b.hot.total ∧ b.cold2hotBegin.1.cold.total = b.cold.total ∧
    b.cold2hotBegin.1.hot.cur = b.hot.cur ∧ b.cold2hotBegin.1.cold.cur = b.cold.cur := by
  unfold cold2hotBegin
  split
  · simp
  · simp only []
    split <;> simp

/-- a step that only touches fields outside the accounting keeps the invariant -/
theorem BInv.of_eq {b b' : Buffer} (h : BInv b) (h1 : b'.size = b.size)
    (h2 : b'.hot.finished = b.hot.finished)
    (h3 : (b'.hot.total - b'.hot.cur) + (b'.cold.total - b'.cold.cur)
      = (b.hot.total - b.hot.cur) + (b.cold.total - b.cold.cur)) : BInv b' := by
  constructor
  · rw [h3, h1, h2]; exact h.acct
  · rw [h1]; exact h.keys

theorem deposit_spec (b : Buffer) (o : Oid) (rate : Int) :
    (rate > b.hot.maxRate ∧ b.deposit o rate = (b, some .value)) ∨
    (rate ≤ b.hot.maxRate ∧ (b.deposit o rate).2 = none ∧
      (b.deposit o rate).1.hot.cur = b.hot.cur - rate ∧
      (b.deposit o rate).1.size = dictSet b.size o (b.sizeOf o + rate) ∧
      (b.deposit o rate).1.hot.finished = b.hot.finished ∧
      (b.deposit o rate).1.hot.total = b.hot.total ∧
      (b.deposit o rate).1.hot.stored = b.hot.stored ∧
      (b.deposit o rate).1.cold = b.cold) := by
  unfold deposit
  by_cases h : rate > b.hot.maxRate
  · left; simp [h]
  · right; refine ⟨by omega, ?_⟩; simp [h]

theorem applyOp_inv {b : Buffer} (h : BInv b) (op : BufOp) (hok : opOk b op = true) :
    BInv (b.applyOp op) := by
  cases op with
  | deposit o r =>
    have hnf : o ∉ b.hot.finished := by simpa [opOk] using hok
    simp only [applyOp]
    rcases deposit_spec b o r with ⟨_, he⟩ | ⟨_, _, h1, h2, h3, h4, _, h6⟩
    · rw [he]; exact h
    · constructor
      · rw [h1, h2, h3, h4, h6]
        have := resSum_dictSet b.hot.finished b.size o r
        simp only [hnf, if_false] at this
        unfold sizeOf
        rw [this, ← h.acct]
        omega
      · rw [h2]; exact dictKeys_nodup_dictSet _ _ _ h.keys
  | store o n => exact h.of_eq rfl rfl rfl
  | next =>
    simp only [applyOp, nextForProcessing]
    split
    · exact h
    · exact h.of_eq rfl rfl rfl
  | remove o =>
    have hnf : o ∉ b.hot.finished := by simpa [opOk] using hok
    simp only [applyOp, remove]
    split
    · constructor
      · have := resSum_finish b.hot.finished b.size o hnf h.keys
        have h1 := h.acct
        simp only [sizeOf]
        omega
      · exact h.keys
    · exact h
  | h2cBegin =>
    obtain ⟨h1, h2, h3, h4, h5, h6⟩ := hot2coldBegin_spec b
    exact h.of_eq h1 h2 (by simp only [applyOp]; rw [h3, h4, h5, h6])
  | c2hBegin =>
    obtain ⟨h1, h2, h3, h4, h5, h6⟩ := cold2hotBegin_spec b
    exact h.of_eq h1 h2 (by simp only [applyOp]; rw [h3, h4, h5, h6])
  | h2cStep o l =>
    obtain ⟨h1, h2, h3, h4, h5, h6, h7⟩ := hot2coldStep_spec b o l
    have hx : ∃ x, (b.hot2coldStep o l).2 = .ok x := by
      cases hr : (b.hot2coldStep o l).2 with
      | ok x => exact ⟨x, rfl⟩
      | error e => simp [opOk, hr] at hok
    have h8 := h7 hx
    have h9 := recvAmount_fst b.moveRate l (b.sizeOf o)
    have h10 := sendAmount_fst b.moveRate l (b.sizeOf o)
    exact h.of_eq h1 h2 (by simp only [applyOp]; rw [h3, h4, h5, h6]; omega)
  | c2hStep o l =>
    obtain ⟨h1, h2, h3, h4, h5, h6, h7⟩ := cold2hotStep_spec b o l
    have hx : ∃ x, (b.cold2hotStep o l).2 = .ok x := by
      cases hr : (b.cold2hotStep o l).2 with
      | ok x => exact ⟨x, rfl⟩
      | error e => simp [opOk, hr] at hok
    have h8 := h7 hx
    have h9 := recvAmount_fst b.moveRate l (b.sizeOf o)
    have h10 := sendAmount_fst b.moveRate l (b.sizeOf o)
    exact h.of_eq h1 h2 (by simp only [applyOp]; rw [h3, h4, h5, h6]; omega)

/-! ### histories -/

theorem run_cons (b : Buffer) (op : BufOp) (ops : List BufOp) :
    b.run (op :: ops) = (b.applyOp op).run ops := rfl

theorem run_induct (P : Buffer → Prop) (G : BufOp → Prop)
    (step : ∀ b op, P b → opOk b op = true → G op → P (b.applyOp op)) :
    ∀ (ops : List BufOp) (b : Buffer), P b → WFHistDef b ops → (∀ op ∈ ops, G op) → P (b.run ops) := by
  intro ops
  induction ops with
  | nil => intro b h _ _; exact h
  | cons op ops ih =>
    intro b h hwf hg
    rw [run_cons]
    exact ih _ (step b op h hwf.1 (hg op (by simp))) hwf.2
      (fun op' h' => hg op' (List.mem_cons_of_mem _ h'))

theorem run_accounting (hc hr cc cr : Int) (ops : List BufOp)
    (hwf : WFHistDef (init hc hr cc cr) ops) :
    let b := (init hc hr cc cr).run ops
    (b.hot.total - b.hot.cur) + (b.cold.total - b.cold.cur) = b.residentData := by
  intro b
  have : BInv b :=
    run_induct BInv (fun _ => True) (fun b op h hok _ => applyOp_inv h op hok) ops _
      (inv_init hc hr cc cr) hwf (fun _ _ => trivial)
  rw [residentData_eq]
  exact this.acct

/-- operations other than tier moves -/
abbrev NoTier (op : BufOp) : Prop :=
  match op with
  | .h2cBegin | .h2cStep _ _ | .c2hBegin | .c2hStep _ _ => False | _ => True

/-- without tier moves the cold tier and the hot capacity are untouched -/
theorem applyOp_noTier (b : Buffer) (op : BufOp) (h : NoTier op) :
    (b.applyOp op).cold = b.cold ∧ (b.applyOp op).hot.total = b.hot.total := by
  cases op with
  | deposit o r =>
    simp only [applyOp]
    rcases deposit_spec b o r with ⟨_, he⟩ | ⟨_, _, _, _, _, h4, _, h6⟩
    · rw [he]; exact ⟨rfl, rfl⟩
    · exact ⟨h6, h4⟩
  | store o n => exact ⟨rfl, rfl⟩
  | next =>
    simp only [applyOp, nextForProcessing]
    split <;> exact ⟨rfl, rfl⟩
  | remove o =>
    simp only [applyOp, remove]
    split <;> exact ⟨rfl, rfl⟩
  | h2cBegin => exact h.elim
  | c2hBegin => exact h.elim
  | h2cStep o l => exact h.elim
  | c2hStep o l => exact h.elim

theorem run_accounting_hot (hc hr cc cr : Int) (ops : List BufOp)
    (hwf : WFHistDef (init hc hr cc cr) ops)
    (hnt : ∀ op ∈ ops, match op with
      | .h2cBegin | .h2cStep _ _ | .c2hBegin | .c2hStep _ _ => False | _ => True) :
    let b := (init hc hr cc cr).run ops
    b.cold.cur = b.cold.total ∧ b.hot.total - b.hot.cur = b.residentData := by
  intro b
  have : BInv b ∧ b.cold.cur = b.cold.total :=
    run_induct (fun b => BInv b ∧ b.cold.cur = b.cold.total) NoTier
      (fun b op h hok hg => ⟨applyOp_inv h.1 op hok, by rw [(applyOp_noTier b op hg).1]; exact h.2⟩)
      ops _ ⟨inv_init hc hr cc cr, rfl⟩ hwf hnt
  refine ⟨this.2, ?_⟩
  rw [residentData_eq, ← this.1.acct]
  omega

theorem run_end_full (hc hr cc cr : Int) (ops : List BufOp)
    (hwf : WFHistDef (init hc hr cc cr) ops)
    (hnt : ∀ op ∈ ops, match op with
      | .h2cBegin | .h2cStep _ _ | .c2hBegin | .c2hStep _ _ => False | _ => True) :
    let b := (init hc hr cc cr).run ops
    b.residentData = 0 → b.isEmpty = true := by
  intro b h0
  obtain ⟨h1, h2⟩ := run_accounting_hot hc hr cc cr ops hwf hnt
  simp only [isEmpty, Bool.and_eq_true, decide_eq_true_eq]
  change b.cold.cur = b.cold.total at h1
  change b.hot.total - b.hot.cur = b.residentData at h2
  omega

/-! ### single steps -/

theorem deposit_step (b b' : Buffer) (o : Oid) (rate : Int) (h : b.deposit o rate = (b', none)) :
    b'.hot.cur = b.hot.cur - rate ∧ b'.sizeOf o = b.sizeOf o + rate ∧ rate ≤ b.hot.maxRate := by
  rcases deposit_spec b o rate with ⟨_, he⟩ | ⟨h0, _, h1, h2, _⟩
  · rw [he] at h; simp at h
  · rw [h] at h1 h2
    simp only at h1 h2
    refine ⟨h1, ?_, h0⟩
    unfold sizeOf
    rw [h2, dictGet_dictSet]
    simp [sizeOf]

theorem deposit_stored (b b' : Buffer) (o : Oid) (rate : Int) (h : b.deposit o rate = (b', none)) :
    b'.hot.stored = b.hot.stored := by
  rcases deposit_spec b o rate with ⟨_, he⟩ | ⟨_, _, _, _, _, _, h5, _⟩
  · rw [he] at h; simp at h
  · rw [h] at h5; exact h5

theorem ingestAll_total (b b' : Buffer) (o : Oid) (rate : Int) (start d : Nat) (hd : 1 ≤ d)
    (h : b.ingestAll o rate start d = (b', none)) :
    b'.hot.cur = b.hot.cur - rate * d ∧ b'.sizeOf o = b.sizeOf o + rate * d ∧
    b'.hot.stored = b.hot.stored ++ [o] := by
  induction d generalizing b start with
  | zero => omega
  | succ d ih =>
    unfold ingestAll at h
    generalize hdep : b.deposit o rate = r at h
    obtain ⟨b1, e⟩ := r
    cases e with
    | some e => simp at h
    | none =>
      simp only at h
      obtain ⟨s1, s2, _⟩ := deposit_step b b1 o rate hdep
      have s3 := deposit_stored b b1 o rate hdep
      have hm : rate * ((d + 1 : Nat) : Int) = rate * (d : Int) + rate := by
        rw [Int.natCast_add, Int.mul_add]; simp
      by_cases h0 : d = 0
      · simp only [h0, if_true, Prod.mk.injEq, and_true] at h
        subst h
        subst h0
        refine ⟨?_, ?_, ?_⟩
        · simp only [store]; omega
        · simp only [store, sizeOf] at s2 ⊢; omega
        · simp only [store, s3]
      · simp only [h0, if_false] at h
        obtain ⟨i1, i2, i3⟩ := ih b1 (start + 1) (by omega) h
        refine ⟨by omega, by omega, by rw [i3, s3]⟩

theorem remove_exact (b b' : Buffer) (o : Oid) (h : b.remove o = (b', true)) :
    b'.hot.cur = b.hot.cur + b.sizeOf o ∧ o ∈ b.hot.scheduled ∧
    b'.hot.finished = b.hot.finished ++ [o] := by
  unfold remove at h
  split at h
  · rename_i hs
    simp only [Prod.mk.injEq, and_true] at h
    subst h
    exact ⟨rfl, hs, rfl⟩
  · simp at h

theorem checkCapacity_true (b : Buffer) (rate duration : Int)
    (h : b.checkCapacity rate duration = .ok true) :
    rate * duration ≤ b.hot.cur ∧ rate * duration < b.hot.total ∧ 1 ≤ duration ∧
    b.coldHasCapacityFor (rate * duration) = true := by
  unfold checkCapacity at h
  split at h
  · simp at h
  · simp only at h
    split at h
    · simp at h
    · split at h
      · simp at h
      · rename_i h1 h2 h3
        simp only [not_or, Bool.not_eq_true', Bool.not_eq_false] at h3
        refine ⟨by omega, by omega, by omega, ?_⟩
        simpa using h3.2

/-! ### bounds -/

theorem bounds_statement_neg :
    ¬ (∀ (hc hr cc cr : Int) (ops : List BufOp), 0 < hc → WFHistDef (init hc hr cc cr) ops →
      0 ≤ ((init hc hr cc cr).run ops).hot.cur ∧ ((init hc hr cc cr).run ops).hot.cur ≤ hc) := by
  intro h
  have := h 1 5 1 1 [.deposit 0 5] (by decide) (by decide)
  revert this
  decide

theorem run_bounds_partial (hc hr cc cr : Int) (ops : List BufOp)
    (hwf : WFHistDef (init hc hr cc cr) ops)
    (hnt : ∀ op ∈ ops, match op with
      | .h2cBegin | .h2cStep _ _ | .c2hBegin | .c2hStep _ _ => False | _ => True)
    (hpos : ∀ op ∈ ops, match op with | .deposit _ r => 0 ≤ r | _ => True) :
    let b := (init hc hr cc cr).run ops
    b.residentData ≤ hc → 0 ≤ b.hot.cur ∧ b.hot.cur ≤ b.hot.total := by
  intro b hres
  have : BInv b ∧ b.cold.cur = b.cold.total ∧ b.hot.total = hc ∧ ∀ p ∈ b.size, 0 ≤ p.2 := by
    refine run_induct
      (fun b => BInv b ∧ b.cold.cur = b.cold.total ∧ b.hot.total = hc ∧ ∀ p ∈ b.size, 0 ≤ p.2)
      (fun op => NoTier op ∧ match op with | .deposit _ r => 0 ≤ r | _ => True)
      ?_ ops _ ⟨inv_init hc hr cc cr, rfl, rfl, by simp [init]⟩ hwf
      (fun op h => ⟨hnt op h, hpos op h⟩)
    intro b op h hok hg
    obtain ⟨g1, g2⟩ := applyOp_noTier b op hg.1
    refine ⟨applyOp_inv h.1 op hok, by rw [g1]; exact h.2.1, by rw [g2]; exact h.2.2.1, ?_⟩
    have hs := h.2.2.2
    cases op with
    | deposit o r =>
      have hr : 0 ≤ r := hg.2
      simp only [applyOp]
      rcases deposit_spec b o r with ⟨_, he⟩ | ⟨_, _, _, h2, _⟩
      · rw [he]; exact hs
      · rw [h2]
        intro p hp
        rcases mem_dictSet _ _ _ _ hp with hp | hp
        · subst hp
          have := sizeOf_nonneg b o hs
          simp only; omega
        · exact hs p hp
    | store o n => exact hs
    | next =>
      simp only [applyOp, nextForProcessing]
      split <;> exact hs
    | remove o =>
      simp only [applyOp, remove]
      split <;> exact hs
    | h2cBegin => exact hg.1.elim
    | c2hBegin => exact hg.1.elim
    | h2cStep o l => exact hg.1.elim
    | c2hStep o l => exact hg.1.elim
  obtain ⟨i1, i2, i3, i4⟩ := this
  have h1 := i1.acct
  have h2 := resSum_nonneg b.hot.finished b.size i4
  rw [residentData_eq] at hres
  omega

end Buffer
end Topsim
