/-
  BufTraj11 — what an observation has deposited so far never exceeds its volume
  `rate × duration` (and is never negative), along every run that has not crashed.
-/
import TopsimProofs.BufTraj10

namespace Topsim
namespace Sys

theorem deposited_le_volume (s0 s : Sys) (hw : WFConfig s0) (hbuf : bufList s0.buf = [])
    (hsz0 : s0.buf.size = [] ∧ s0.buf.hot.cur ≤ s0.buf.hot.total ∧ s0.buf.cold.cur ≤ s0.buf.cold.total)
    (hrate : ∀ o ∈ s0.obs, 0 < o.rate) (h : ReachOk s0 s) (hc : s.crashed = none) :
    ∀ ob ∈ s.obs, 0 ≤ s.buf.sizeOf ob.id ∧ s.buf.sizeOf ob.id ≤ ob.rate * ob.duration := by
  intro ob hob
  have hsi := (reachOk_sh2 s0 s hw hbuf hsz0 hrate h hc).1
  have hsp := reachOk_sp s0 s hw hbuf hsz0 hrate h hc
  have hnd := (reach_inv s0 s hw h).eg.obsNodup
  have hr : 0 ≤ ob.rate := Int.le_of_lt (hsi.rp ob hob)
  have hd : (0 : Int) ≤ (ob.duration : Int) := Int.natCast_nonneg _
  refine ⟨hsi.sn ob.id, ?_⟩
  by_cases hstr : ∃ q ∈ s.procs, ∃ tl, q.k = .ingestStream ob.id tl
  · obtain ⟨q, hq, tl, hqk⟩ := hstr
    obtain ⟨ob2, hob2, a0, a1, a2⟩ := hsp.str q hq ob.id tl hqk
    rw [obs?_of_mem hnd hob] at hob2
    injection hob2 with hob2
    subst hob2
    by_cases hp0 : q.pc = 0
    · rw [a0 hp0]; exact Int.mul_nonneg hr hd
    · cases hal : q.alive with
      | true =>
        obtain ⟨a, _, _, _, g4, g5, g6⟩ := a1 (by omega) hal
        rw [g6]
        exact Int.mul_le_mul_of_nonneg_left (by omega) hr
      | false => rw [a2 (by omega) hal]; exact Int.le_refl _
  · rw [hsp.nz ob.id (fun q hq tl e => hstr ⟨q, hq, tl, e⟩)]; exact Int.mul_nonneg hr hd

end Sys
end Topsim
