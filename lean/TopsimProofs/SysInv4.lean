/-
  SysInv4 — one `resume` as "block, then bookkeeping on the process table";
  the steps that no clause of the invariant cares about (`Pres`), and the
  blocks made only of such steps.
-/
import TopsimProofs.SysInv3

namespace Topsim
namespace Sys

/-! ### states that agree on everything the invariant reads -/

structure Core8 (a b : Sys) : Prop where
  cl : b.cl = a.cl
  tasks : b.tasks = a.tasks
  obs : b.obs = a.obs
  procs : b.procs = a.procs
  nextPid : b.nextPid = a.nextPid
  starts : b.starts = a.starts
  active : b.active = a.active
  admitted : b.admitted = a.admitted

theorem Core8.refl (a : Sys) : Core8 a a := ⟨rfl, rfl, rfl, rfl, rfl, rfl, rfl, rfl⟩

theorem ClQuiet.of_eq {c c' : Cluster} (h : c' = c) : ClQuiet c c' := by subst h; exact ClQuiet.refl _
theorem TaskMono.of_eq {a b : List TaskRec} (h : b = a) : TaskMono a b := by subst h; exact TaskMono.refl _
theorem ObsMonoS.of_eq {a b : List Obs} (h : b = a) : ObsMonoS a b := by subst h; exact fun _ h => h

theorem PW.core {a b : Sys} (h : PW a) (e : Core8 a b) : PW b :=
  ⟨by rw [e.procs]; exact h.nodup, by rw [e.procs, e.nextPid]; exact h.lt⟩

theorem CI.core {a b : Sys} {U} (h : CI a U) (e : Core8 a b) : CI b U :=
  h.frame (ClQuiet.of_eq e.cl) (TaskMono.of_eq e.tasks) (ObsMonoS.of_eq e.obs) (fun _ _ => by rw [e.procs])

theorem DG.core {a b : Sys} (h : DG a) (e : Core8 a b) : DG b :=
  h.frame (by rw [e.cl]) (by rw [e.cl]) e.starts e.active (fun _ _ => by rw [e.procs])
    (fun _ _ hq => by rw [e.procs]; exact hq)

theorem EG.core {a b : Sys} (h : EG a) (e : Core8 a b) : EG b :=
  h.frame e.obs e.admitted (fun _ _ => by rw [e.procs])

theorem SInv.core {a b : Sys} (h : SInv a) (e : Core8 a b) : SInv b := by
  obtain ⟨U, hU⟩ := h.ci
  exact ⟨h.pw.core e, ⟨U, hU.core e⟩, h.dg.core e, h.eg.core e⟩

/-! ### `resume` = block + bookkeeping -/

/-- what `resume` does to the entry of the process that ran -/
def fin (k : PK) (y : Yield) (w : Time) (q : Proc) : Proc :=
  match y with
  | .timeout d => { q with k := k, pc := q.pc + 1, wake := w + d }
  | .done => { q with k := k, pc := q.pc + 1, alive := false }
  | .raised _ => { q with k := k, pc := q.pc + 1, alive := false }

@[simp] theorem fin_pid (k y w q) : (fin k y w q).pid = q.pid := by unfold fin; split <;> rfl
@[simp] theorem fin_k (k y w q) : (fin k y w q).k = k := by unfold fin; split <;> rfl
@[simp] theorem fin_pc (k y w q) : (fin k y w q).pc = q.pc + 1 := by unfold fin; split <;> rfl

theorem fin_alive (k y w q) : (fin k y w q).alive = true → q.alive = true ∧ ∃ d, y = .timeout d := by
  unfold fin; split <;> simp

theorem fin_timeout (k d w q) : fin k (.timeout d) w q = { q with k := k, pc := q.pc + 1, wake := w + d } := rfl

theorem resume_core (s : Sys) (pid : Nat) (orc : Oracle) (p : Proc) (hp : s.proc? pid = some p)
    (ha : p.alive = true) :
    Core8 ((s.block p orc).1.updProc pid (fin (s.block p orc).2.1 (s.block p orc).2.2 p.wake))
      (s.resume pid orc).1 := by
  unfold resume
  simp only [hp, ha, Bool.not_true, Bool.false_eq_true, if_false]
  generalize s.block p orc = r
  obtain ⟨s1, k, y⟩ := r
  cases y with
  | timeout d => exact Core8.refl _
  | done => exact Core8.refl _
  | raised e =>
    simp only
    constructor <;> simp <;> rfl

/-! ### updating the entry of a process the clause group does not talk about -/

theorem mem_updProc_irrel {s1 : Sys} {pid : Nat} {g : Proc → Proc} {p : Proc} (hpw : PW s1)
    (hp : p ∈ s1.procs) (hpid : p.pid = pid) (rel : PK → Prop) (h1 : ¬ rel p.k) (h2 : ¬ rel (g p).k)
    (q : Proc) (hq : rel q.k) : q ∈ (s1.updProc pid g).procs ↔ q ∈ s1.procs := by
  rw [mem_updProc]
  constructor
  · rintro ⟨q0, hq0, rfl⟩
    by_cases e : q0.pid = pid
    · have : q0 = p := hpw.eq_of_pid hq0 hp (e.trans hpid.symm)
      subst this
      rw [if_pos e] at hq
      exact absurd hq h2
    · rw [if_neg e]; exact hq0
  · intro hq'
    refine ⟨q, hq', ?_⟩
    by_cases e : q.pid = pid
    · have : q = p := hpw.eq_of_pid hq' hp (e.trans hpid.symm)
      subst this
      exact absurd hq h1
    · rw [if_neg e]

theorem CI.updProc_neutral {s1 : Sys} {U} (h : CI s1 U) (hpw : PW s1) {p : Proc} (hp : p ∈ s1.procs)
    (g : Proc → Proc) (h1 : p.k.isAT = false ∧ p.k.isPI = false)
    (h2 : (g p).k.isAT = false ∧ (g p).k.isPI = false) : CI (s1.updProc p.pid g) U :=
  h.frame (ClQuiet.refl _) (TaskMono.refl _) (fun _ h => h)
    (mem_updProc_irrel hpw hp rfl (fun k => k.isAT = true ∨ k.isPI = true)
      (by simp [h1]) (by simp [h2]))

theorem DG.updProc_neutral {s1 : Sys} (h : DG s1) (hpw : PW s1) {p : Proc} (hp : p ∈ s1.procs)
    (g : Proc → Proc) (h1 : p.k.isAT = false ∧ p.k.isDW = false)
    (h2 : (g p).k.isAT = false ∧ (g p).k.isDW = false) : DG (s1.updProc p.pid g) :=
  h.frame rfl rfl rfl rfl
    (mem_updProc_irrel hpw hp rfl (fun k => k.isDW = true) (by simp [h1]) (by simp [h2]))
    (fun q hq => (mem_updProc_irrel hpw hp rfl (fun k => k.isAT = true) (by simp [h1]) (by simp [h2]) q hq).mpr)

theorem EG.updProc_neutral {s1 : Sys} (h : EG s1) (hpw : PW s1) {p : Proc} (hp : p ∈ s1.procs)
    (g : Proc → Proc) (h1 : p.k.isTel = false ∧ p.k.isAI = false)
    (h2 : (g p).k.isTel = false ∧ (g p).k.isAI = false) : EG (s1.updProc p.pid g) :=
  h.frame rfl rfl
    (mem_updProc_irrel hpw hp rfl (fun k => k.isTel = true ∨ k.isAI = true) (by simp [h1]) (by simp [h2]))

/-! ### appending processes the clause group does not talk about -/

theorem CI.addProcs {s s1 : Sys} {U} (h : CI s U) (hcl : ClQuiet s.cl s1.cl)
    (ht : TaskMono s.tasks s1.tasks) (ho : ObsMonoS s.obs s1.obs) (new : List Proc)
    (hp : s1.procs = s.procs ++ new) (hn : ∀ q ∈ new, q.k.isAT = false ∧ q.k.isPI = false) : CI s1 U := by
  refine h.frame hcl ht ho ?_
  intro q hq
  rw [hp, List.mem_append]
  constructor
  · rintro (h' | h')
    · exact h'
    · have := hn q h'; simp [this] at hq
  · exact Or.inl

theorem DG.addProcs {s s1 : Sys} (h : DG s) (hr : s1.cl.running = s.cl.running)
    (hf : s1.cl.finished = s.cl.finished) (hs : s1.starts = s.starts) (ha : s1.active = s.active)
    (new : List Proc) (hp : s1.procs = s.procs ++ new) (hn : ∀ q ∈ new, q.k.isDW = false) : DG s1 := by
  refine h.frame hr hf hs ha ?_ ?_
  · intro q hq
    rw [hp, List.mem_append]
    constructor
    · rintro (h' | h')
      · exact h'
      · have := hn q h'; simp [this] at hq
    · exact Or.inl
  · intro q _ hq'; rw [hp]; exact List.mem_append_left _ hq'

theorem EG.addProcs {s s1 : Sys} (h : EG s) (ho : s1.obs = s.obs) (ha : s1.admitted = s.admitted)
    (new : List Proc) (hp : s1.procs = s.procs ++ new)
    (hn : ∀ q ∈ new, q.k.isTel = false ∧ q.k.isAI = false) : EG s1 := by
  refine h.frame ho ha ?_
  intro q hq
  rw [hp, List.mem_append]
  constructor
  · rintro (h' | h')
    · exact h'
    · have := hn q h'; simp [this] at hq
  · exact Or.inl

/-! ### steps that preserve every group -/

/-- the shape of such a step: records of observations, `starts`, `admitted` untouched; the
process table only grows, by fresh processes that are no task body, ingest provisioner, ingest
supervisor or telescope -/
structure Shape (s s1 : Sys) : Prop where
  obs : s1.obs = s.obs
  starts : s1.starts = s.starts
  admitted : s1.admitted = s.admitted
  clfin : s1.cl.finished = s.cl.finished
  newp : ∃ new, s1.procs = s.procs ++ new ∧ ∀ q ∈ new, q.alive = true ∧ q.pc = 0 ∧
    q.k.isDW = false ∧ q.k.isPI = false ∧ q.k.isAI = false ∧ q.k.isTel = false ∧
    q.k.tag ≠ "ingestStream" ∧ (∀ c, q.k = .hot2cold c → c = none) ∧ (∀ c, q.k = .cold2hot c → c = none)

theorem Shape.refl (s : Sys) : Shape s s := ⟨rfl, rfl, rfl, rfl, [], by simp, by simp⟩

theorem Shape.trans {a b c : Sys} (h1 : Shape a b) (h2 : Shape b c) : Shape a c := by
  obtain ⟨n1, e1, f1⟩ := h1.newp
  obtain ⟨n2, e2, f2⟩ := h2.newp
  refine ⟨h2.obs.trans h1.obs, h2.starts.trans h1.starts, h2.admitted.trans h1.admitted,
    h2.clfin.trans h1.clfin, n1 ++ n2,
    by rw [e2, e1, List.append_assoc], ?_⟩
  intro q hq
  rcases List.mem_append.mp hq with hq | hq
  · exact f1 q hq
  · exact f2 q hq

structure Pres (s s1 : Sys) : Prop where
  pre : s.procs <+: s1.procs
  pw : PW s → PW s1
  ci : ∀ U, PW s → CI s U → CI s1 U
  dg : PW s → DG s → DG s1
  eg : PW s → EG s → EG s1
  shape : Shape s s1

theorem Pres.refl (s : Sys) : Pres s s :=
  ⟨List.prefix_refl _, fun h => h, fun _ _ h => h, fun _ h => h, fun _ h => h, Shape.refl s⟩

theorem Pres.trans {a b c : Sys} (h1 : Pres a b) (h2 : Pres b c) : Pres a c :=
  ⟨h1.pre.trans h2.pre, fun h => h2.pw (h1.pw h), fun U hp h => h2.ci U (h1.pw hp) (h1.ci U hp h),
   fun hp h => h2.dg (h1.pw hp) (h1.dg hp h), fun hp h => h2.eg (h1.pw hp) (h1.eg hp h),
   h1.shape.trans h2.shape⟩

/-- a change of the cluster pools / task records that keeps the tables' shape -/
theorem Pres.frame {s s1 : Sys} (hcl : ClQuiet s.cl s1.cl) (ht : TaskMono s.tasks s1.tasks)
    (ho : s1.obs = s.obs) (hp : s1.procs = s.procs) (hn : s1.nextPid = s.nextPid)
    (hs : s1.starts = s.starts) (ha : s1.active = s.active) (hd : s1.admitted = s.admitted) :
    Pres s s1 :=
  ⟨by rw [hp]; exact List.prefix_refl _, fun h => ⟨by rw [hp]; exact h.nodup, by rw [hp, hn]; exact h.lt⟩,
   fun _ _ h => h.frame hcl ht (ObsMonoS.of_eq ho) (fun _ _ => by rw [hp]),
   fun _ h => h.frame hcl.running hcl.finished hs ha (fun _ _ => by rw [hp])
     (fun _ _ hq => by rw [hp]; exact hq),
   fun _ h => h.frame ho hd (fun _ _ => by rw [hp]),
   ⟨ho, hs, hd, hcl.finished, [], by simp [hp], by simp⟩⟩

theorem Pres.core {s s1 : Sys} (e : Core8 s s1) : Pres s s1 :=
  Pres.frame (ClQuiet.of_eq e.cl) (TaskMono.of_eq e.tasks) e.obs e.procs e.nextPid e.starts e.active
    e.admitted

theorem Pres.spawn (s : Sys) (k : PK) (now : Time) (hk : k.neutral)
    (hk2 : k.tag ≠ "ingestStream" ∧ (∀ c, k = .hot2cold c → c = none) ∧ (∀ c, k = .cold2hot c → c = none)) :
    Pres s (s.spawn k now).1 := by
  obtain ⟨k1, k2, k3, k4, k5⟩ := hk
  refine ⟨by simp, fun h => h.spawn k now, ?_, ?_, ?_,
    ⟨rfl, rfl, rfl, rfl, _, spawn_procs s k now, by simpa [k2, k3, k4, k5] using hk2⟩⟩
  · intro U _ h
    exact h.addProcs (ClQuiet.refl _) (TaskMono.refl _) (fun _ h => h) _ (spawn_procs s k now)
      (by simp [k1, k3])
  · intro _ h
    exact h.addProcs rfl rfl rfl rfl _ (spawn_procs s k now) (by simp [k2])
  · intro _ h
    exact h.addProcs rfl rfl _ (spawn_procs s k now) (by simp [k4, k5])

/-- after a block made of such steps, by a process of a neutral kind -/
theorem SInv.finish_neutral {s s1 : Sys} (h : SInv s) (hpres : Pres s s1) {p : Proc}
    (hp : p ∈ s.procs) (g : Proc → Proc) (hg : ∀ q, (g q).pid = q.pid) (hk : p.k.neutral)
    (hk' : (g p).k.neutral) : SInv (s1.updProc p.pid g) := by
  obtain ⟨U, hU⟩ := h.ci
  have hpw1 := hpres.pw h.pw
  have hp1 : p ∈ s1.procs := hpres.pre.subset hp
  obtain ⟨a1, a2, a3, a4, a5⟩ := hk
  obtain ⟨b1, b2, b3, b4, b5⟩ := hk'
  exact ⟨hpw1.updProc _ g hg, ⟨U, (hpres.ci U h.pw hU).updProc_neutral hpw1 hp1 g ⟨a1, a3⟩ ⟨b1, b3⟩⟩,
    (hpres.dg h.pw h.dg).updProc_neutral hpw1 hp1 g ⟨a1, a2⟩ ⟨b1, b2⟩,
    (hpres.eg h.pw h.eg).updProc_neutral hpw1 hp1 g ⟨a5, a4⟩ ⟨b5, b4⟩⟩

end Sys
end Topsim
