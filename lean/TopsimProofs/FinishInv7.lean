/-
  FinishInv7 — `FI` under the telescope's block: admissions, and the moment an
  observation is marked FINISHED (its provisioner has run by then).
-/
import TopsimProofs.FinishInv6

namespace Topsim
namespace Sys

open Cluster

theorem Ok.of_fresh_ai {s : Sys} {q : Proc} {o : Oid} {tl : Int} (ha : q.alive = true) (hpc : q.pc = 0)
    (hk : q.k = .allocIngest o tl)
    (hw : ∃ ob, s.obs? o = some ob ∧ ob.status = .waiting ∧ ∃ n : Nat, q.wake = (n : Time))
    (hadm : o ∈ s.admitted) : Ok s q := by
  constructor
  · intro h; rw [ha] at h; exact absurd h (by simp)
  · intro t m preds ph tot e; rw [hk] at e; simp at e
  · intro t m preds obs ing ret e; rw [hk] at e; simp at e
  · intro t m preds obs ing ret e; rw [hk] at e; simp at e
  · intro o1 d e; rw [hk] at e; simp at e
  · intro o1 d e; rw [hk] at e; simp at e
  · intro o1 tl1 e _
    rw [hk] at e; injection e with e1 _; subst e1; exact hw
  · intro o1 tl1 e
    rw [hk] at e; injection e with e1 _; subst e1; exact hadm
  · intro o1 tl1 _ h; omega

/-- one iteration of the telescope's loop -/
theorem fi_telescopeVisit (n : Nat) (tw : Time) (hn : (n : Time) ≤ tw) (s1 : Sys) (err : Option Err)
    (oid : Oid) (v : List Oid) (hv : oid ∉ v) (hm : TelMid s1 n v) (hpw : PW s1) {U : List Tid}
    (hci : CI s1 U) (h : FI s1)
    (hT : ∀ q ∈ s1.procs, ∀ o d, q.k = .provIngest o d → q.pc = 0 → tw ≤ q.wake)
    {pt : Proc} (hpt : pt ∈ s1.procs) :
    FI (telescopeVisit n (s1, err) oid).1 ∧
    (∀ q ∈ (telescopeVisit n (s1, err) oid).1.procs, ∀ o d, q.k = .provIngest o d → q.pc = 0 →
      tw ≤ q.wake) := by
  unfold telescopeVisit
  cases err with
  | some e => exact ⟨h, hT⟩
  | none =>
    simp only
    cases hob : s1.obs? oid with
    | none => exact ⟨h, hT⟩
    | some o =>
      simp only
      have hoid : o.id = oid := (obs_mem_of_obs? hob).2
      have hom : o ∈ s1.obs := (obs_mem_of_obs? hob).1
      by_cases hready : o.isReady n ((s1.totalArrays : Int) - s1.telUse) = true
      · simp only [hready, if_true]
        have hw : o.status = .waiting := by
          unfold Obs.isReady at hready
          simp only [Bool.and_eq_true, beq_iff_eq] at hready
          exact hready.2
        cases hc : s1.checkIngestCapacity o with
        | error e => exact ⟨h, hT⟩
        | ok r =>
          obtain ⟨s', b⟩ := r
          have hcore := checkIngestCapacity_core s1 o s' b hc
          have h' : FI s' := h.congr hcore.procs hcore.starts hcore.obs hcore.admitted hcore.cl
          have hT' : ∀ q ∈ s'.procs, ∀ o d, q.k = .provIngest o d → q.pc = 0 → tw ≤ q.wake := by
            rw [hcore.procs]; exact hT
          cases b with
          | false => exact ⟨h', hT'⟩
          | true =>
            simp only
            have hpw' : PW s' := hpw.core hcore
            have hob' : s'.obs? oid = some o := by
              unfold obs? at hob ⊢; rw [hcore.obs]; exact hob
            have hmid : TelMid s' n v := hm.core hcore.obs hcore.procs hcore.admitted
            have hci' : CI s' U := hci.core hcore
            have hpt' : pt ∈ s'.procs := by rw [hcore.procs]; exact hpt
            have hnot : oid ∉ s'.admitted := by
              intro hin
              obtain ⟨ob, hobx, hwx⟩ := hmid.adm oid hin
              rw [hob'] at hobx; injection hobx with e
              subst e
              exact hv (hwx hw).1
            generalize hA : (((({ s' with telUse := s'.telUse + o.demand, telStatus := true, admitted := s'.admitted ++ [oid] }).updObs oid (fun r => { r with ast := some n })).spawn (.allocIngest oid 0) (n : Time)).1.addTel ⟨n, oid, .telStarted⟩) = A
            have hAprocs : A.procs = s'.procs ++ [{ pid := s'.nextPid, k := .allocIngest oid 0, wake := (n : Time) }] := by
              subst hA; rfl
            have hAstarts : A.starts = s'.starts := by subst hA; rfl
            have hAadm : A.admitted = s'.admitted ++ [oid] := by subst hA; rfl
            have hAcl : A.cl = s'.cl := by subst hA; rfl
            have hpwA : PW A := by
              subst hA
              have h1 : PW (({ s' with telUse := s'.telUse + o.demand, telStatus := true, admitted := s'.admitted ++ [oid] }).updObs oid (fun r => { r with ast := some n })) := ⟨hpw'.nodup, hpw'.lt⟩
              have h2 := h1.spawn (.allocIngest oid 0) (n : Time)
              exact ⟨h2.nodup, h2.lt⟩
            have hupd : ObsUpd s' A oid (fun r => { r with ast := some n }) := by
              refine ⟨?_, fun _ => rfl⟩
              subst hA; rfl
            have hAoid : A.obs? oid = some { o with ast := some n } := by
              rw [hupd.obs? oid, hob']; simp [hoid]
            have hmem := memSpec_append hpwA hpt' _ hAprocs
            have hnoPI : ∀ q ∈ s'.procs, ∀ d, q.k ≠ .provIngest oid d := by
              intro q hq d hqk
              obtain ⟨ob, hobx, hst⟩ := hci'.provObs q hq oid d hqk
              have : s'.obs? oid = some ob := hobx
              rw [hob'] at this; injection this with e
              subst e; exact hst hw
            refine ⟨?_, ?_⟩
            · refine h'.step hpw' hpt' hmem rfl (Nat.le_refl _) (SameClass.refl _)
                (by rw [hAstarts]; exact fun _ h => h)
                (by rw [hAadm]; exact fun _ h => List.mem_append_left _ h) ?_ ?_ ?_ ?_ ?_ ?_ ?_
                (fun x hx => Or.inl (by rw [hAcl] at hx; exact hx))
              · intro q hq o1 d hqk _ ob a hobx hast
                have hne : o1 ≠ oid := fun e => hnoPI q hq d (e ▸ hqk)
                exact ⟨ob, hupd.other hne hobx, hast⟩
              · intro q _ _ o1 tl1 _ _ ob hobx hst
                rw [hupd.obs? o1, hobx]
                refine ⟨_, rfl, ?_⟩
                dsimp only
                split <;> exact hst
              · exact hupd.good (fun r hh => hh)
              · intro hkeep
                exact (h'.ok pt hpt').mono hkeep
                  (fun o1 d hqk _ ob a hobx hast => by
                    have hne : o1 ≠ oid := fun e => hnoPI pt hpt' d (e ▸ hqk)
                    exact ⟨ob, hupd.other hne hobx, hast⟩)
                  (fun o1 tl1 _ _ ob hobx hst => by
                    rw [hupd.obs? o1, hobx]
                    refine ⟨_, rfl, ?_⟩
                    dsimp only
                    split <;> exact hst)
                  (hupd.good (fun r hh => hh))
              · intro _ q hq
                simp only [List.mem_singleton] at hq
                subst hq
                exact Ok.of_fresh_ai (o := oid) (tl := 0) rfl rfl rfl
                  ⟨_, hAoid, hw, n, rfl⟩ (by rw [hAadm]; simp)
              · intro q hq o1 tl1 hqk
                simp only [List.mem_singleton] at hq
                subst hq
                simp only [PK.allocIngest.injEq] at hqk
                obtain ⟨rfl, _⟩ := hqk
                refine ⟨?_, ?_⟩
                · intro q0 hq0 tl0 hq0k
                  exact hnot ((h'.ok q0 hq0).aiAdm _ _ hq0k)
                · intro q2 hq2 _ _
                  simp only [List.mem_singleton] at hq2
                  rw [hq2]
              · intro hkeep
                constructor
                · intro ob' hobm hst
                  obtain ⟨ob, hobm0, rfl⟩ := hupd.mem hobm
                  have : ob.status ≠ .waiting := by
                    intro hh; apply hst; split <;> exact hh
                  obtain ⟨q, hq, hqk⟩ := h'.obs.obsProv ob hobm0 this
                  obtain ⟨q', hq', hqk', _⟩ := hkeep.pi q hq _ _ hqk
                  refine ⟨q', hq', ?_⟩
                  rw [hqk']; split <;> rfl
                · intro ob' hobm hst
                  obtain ⟨ob, hobm0, rfl⟩ := hupd.mem hobm
                  have : ob.status = .finished := by
                    split at hst <;> exact hst
                  obtain ⟨q, hq, hqk, hqc⟩ := h'.obs.finProv ob hobm0 this
                  obtain ⟨q', hq', hqk', hqc'⟩ := hkeep.pi q hq _ _ hqk
                  refine ⟨q', hq', ?_, by omega⟩
                  rw [hqk']; split <;> rfl
                · intro ob' hobm hast
                  obtain ⟨ob, hobm0, rfl⟩ := hupd.mem hobm
                  rw [hAadm]
                  by_cases e : ob.id = oid
                  · simp [e]
                  · simp only [e, if_false] at hast ⊢
                    exact List.mem_append_left _ (h'.obs.astAdm ob hobm0 hast)
                · intro ob' hobm
                  obtain ⟨ob, hobm0, rfl⟩ := hupd.mem hobm
                  have := h'.obs.durPos ob hobm0
                  split <;> exact this
            · intro q hq o1 d hqk hqc
              rw [hAprocs] at hq
              rcases List.mem_append.mp hq with hq | hq
              · exact hT' q hq o1 d hqk hqc
              · simp only [List.mem_singleton] at hq
                subst hq; simp at hqk
      · simp only [hready, Bool.false_eq_true, if_false]
        by_cases hfin : o.isFinishedAt n s1.telStatus = true
        · simp only [hfin, if_true]
          -- the observation has been admitted and is past WAITING
          obtain ⟨a, hast, hnge, hnf⟩ : ∃ a, o.ast = some a ∧ a + o.duration ≤ n ∧ o.status ≠ .finished := by
            unfold Obs.isFinishedAt at hfin
            cases hoa : o.ast with
            | none => simp [hoa] at hfin
            | some a =>
              simp only [hoa, Bool.and_eq_true, decide_eq_true_eq, bne_iff_ne] at hfin
              exact ⟨a, rfl, hfin.1.1, hfin.2⟩
          have hadm : oid ∈ s1.admitted := by
            have := h.obs.astAdm o hom (by rw [hast]; simp)
            rw [hoid] at this; exact this
          have hnw : o.status ≠ .waiting := by
            intro hh
            obtain ⟨ob, hobx, hwx⟩ := hm.adm oid hadm
            rw [hob] at hobx; injection hobx with e
            subst e
            exact hv (hwx hh).1
          generalize hB : (({ (s1.updObs oid (fun r => { r with status := .finished })) with telUse := (s1.updObs oid (fun r => { r with status := .finished })).telUse - o.demand, telStatus := if (s1.updObs oid (fun r => { r with status := .finished })).telUse - o.demand = 0 then false else (s1.updObs oid (fun r => { r with status := .finished })).telStatus } : Sys).addTel ⟨n, oid, .telFinished⟩) = B
          have hBprocs : B.procs = s1.procs := by subst hB; rfl
          have hBnp : B.nextPid = s1.nextPid := by subst hB; rfl
          have hBstarts : B.starts = s1.starts := by subst hB; rfl
          have hBadm : B.admitted = s1.admitted := by subst hB; rfl
          have hBcl : B.cl = s1.cl := by subst hB; rfl
          have hpwB : PW B := ⟨by rw [hBprocs]; exact hpw.nodup, by rw [hBprocs, hBnp]; exact hpw.lt⟩
          have hupd : ObsUpd s1 B oid (fun r => { r with status := .finished }) := by
            refine ⟨?_, fun _ => rfl⟩
            subst hB; rfl
          have hmem := memSpec_append hpwB hpt [] (by simp [hBprocs])
          have hnd := hm.obsNodup
          -- the provisioner of this observation has run: it was due before the telescope
          have hprov : ∃ q ∈ s1.procs, q.k = .provIngest oid o.ingestDemand ∧ 1 ≤ q.pc := by
            obtain ⟨q, hq, hqk⟩ := h.obs.obsProv o hom hnw
            rw [hoid] at hqk
            refine ⟨q, hq, hqk, ?_⟩
            by_cases hq0 : q.pc = 0
            · exfalso
              obtain ⟨ob, a', hobx, hast', hqw⟩ := (h.ok q hq).provWake _ _ hqk hq0
              rw [hob] at hobx; injection hobx with e
              subst e
              rw [hast] at hast'; injection hast' with e
              subst e
              have h1 := hT q hq _ _ hqk hq0
              rw [hqw] at h1
              have h2 : ((n : Nat) : Rat) ≤ ((a : Nat) : Rat) := Rat.le_trans hn h1
              have h3 := Rat.natCast_le_natCast.mp h2
              have h4 := h.obs.durPos o hom
              omega
            · omega
          refine ⟨?_, by rw [hBprocs]; exact hT⟩
          refine h.step hpw hpt hmem rfl (Nat.le_refl _) (SameClass.refl _)
            (by rw [hBstarts]; exact fun _ h => h) (by rw [hBadm]; exact fun _ h => h) ?_ ?_ ?_ ?_
            (by simp) (by simp) ?_ (fun x hx => Or.inl (by rw [hBcl] at hx; exact hx))
          · intro q _ o1 d _ _ ob a1 hobx hast1
            rw [hupd.obs? o1, hobx]
            refine ⟨_, rfl, ?_⟩
            dsimp only
            split <;> exact hast1
          · intro q _ _ o1 tl1 _ _ ob hobx hst
            have hne : o1 ≠ oid := by
              intro e; subst e
              rw [hob] at hobx; injection hobx with e
              subst e; exact hnw hst
            exact ⟨ob, hupd.other hne hobx, hst⟩
          · exact hupd.good (fun r hh => by simp at hh)
          · intro hkeep
            exact (h.ok pt hpt).mono hkeep
              (fun o1 d _ _ ob a1 hobx hast1 => by
                rw [hupd.obs? o1, hobx]
                refine ⟨_, rfl, ?_⟩
                dsimp only
                split <;> exact hast1)
              (fun o1 tl1 _ _ ob hobx hst => by
                have hne : o1 ≠ oid := by
                  intro e; subst e
                  rw [hob] at hobx; injection hobx with e
                  subst e; exact hnw hst
                exact ⟨ob, hupd.other hne hobx, hst⟩)
              (hupd.good (fun r hh => by simp at hh))
          · intro hkeep
            obtain ⟨qp, hqp, hqpk, hqpc⟩ := hprov
            obtain ⟨qp', hqp', hqpk', hqpc'⟩ := hkeep.pi qp hqp _ _ hqpk
            constructor
            · intro ob' hobm hst
              obtain ⟨ob, hobm0, rfl⟩ := hupd.mem hobm
              by_cases e : ob.id = oid
              · have : ob = o := obs_eq_of_id hnd hob hobm0 e
                subst this
                simp only [e, if_true]
                exact ⟨qp', hqp', by rw [hqpk']⟩
              · simp only [e, if_false] at hst ⊢
                obtain ⟨q, hq, hqk⟩ := h.obs.obsProv ob hobm0 hst
                obtain ⟨q', hq', hqk', _⟩ := hkeep.pi q hq _ _ hqk
                exact ⟨q', hq', hqk'⟩
            · intro ob' hobm hst
              obtain ⟨ob, hobm0, rfl⟩ := hupd.mem hobm
              by_cases e : ob.id = oid
              · have : ob = o := obs_eq_of_id hnd hob hobm0 e
                subst this
                simp only [e, if_true]
                exact ⟨qp', hqp', by rw [hqpk'], by omega⟩
              · simp only [e, if_false] at hst ⊢
                obtain ⟨q, hq, hqk, hqc⟩ := h.obs.finProv ob hobm0 hst
                obtain ⟨q', hq', hqk', hqc'⟩ := hkeep.pi q hq _ _ hqk
                exact ⟨q', hq', hqk', by omega⟩
            · intro ob' hobm hast'
              obtain ⟨ob, hobm0, rfl⟩ := hupd.mem hobm
              rw [hBadm]
              have : ob.ast ≠ none := by
                intro hh; apply hast'; split <;> exact hh
              have := h.obs.astAdm ob hobm0 this
              split <;> exact this
            · intro ob' hobm
              obtain ⟨ob, hobm0, rfl⟩ := hupd.mem hobm
              have := h.obs.durPos ob hobm0
              split <;> exact this
        · simp only [hfin, Bool.false_eq_true, if_false]
          exact ⟨h, hT⟩

end Sys
end Topsim
