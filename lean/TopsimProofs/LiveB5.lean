/-
  LiveB5 — BatchProcessing: the declarations of Live5 that depend on the configuration hypotheses,
  for `LiveCfgB` / `NcCfgB` (`s0.alg = .batch …`).  Generated from Live5.lean by renaming (suffix `_B`);
  the algorithm-dependent ones are rewritten (see the comments).
-/
import TopsimProofs.Live5

namespace Topsim
open KState Sys

/-- `s0.alg` is BatchProcessing -/
def Sys.BatchAlg (s : Sys) : Prop := ∃ parts minPer split, s.alg = .batch parts minPer split

theorem Sys.BatchAlg.ne_oracle {s : Sys} (h : s.BatchAlg) : s.alg ≠ .oracle := by
  obtain ⟨parts, minPer, split, e⟩ := h
  rw [e]; simp

/-- with a per-observation split, the configured minimum of machines per workflow does not exceed the
number of machines (`Feasible` does not say so: `lbHangW`, LiveB1) -/
def Sys.BatchMinOk (s0 : Sys) : Prop :=
  ∀ parts minPer sp, s0.alg = .batch parts minPer (some sp) → minPer ≤ s0.machines.length

structure LiveCfgB (env : SimEnv) (s0 : Sys) : Prop where
  hw : Sys.WFConfig s0
  feas : Sys.Feasible s0
  hb0 : s0.buf.hot.stored = [] ∧ s0.buf.hot.scheduled = [] ∧ s0.buf.hot.finished = [] ∧
      s0.buf.cold.stored = []
  hfull : s0.buf.size = [] ∧ s0.buf.hot.cur = s0.buf.hot.total ∧ s0.buf.cold.cur = s0.buf.cold.total
  hct : s0.buf.cold.transfer = none
  h1 : Sys.NoTierCfg s0
  alg : Sys.BatchAlg s0
  stat : s0.staticPlan = false
  topo : ∀ o ∈ s0.obs, IsTopo o.wf
  nr : NoRaise env s0
  minOk : Sys.BatchMinOk s0

theorem Sys.BatchAlg.of_alg {s s' : Sys} (h : s.BatchAlg) (e : s'.alg = s.alg) : s'.BatchAlg := by
  obtain ⟨parts, minPer, split, e0⟩ := h
  exact ⟨parts, minPer, split, e.trans e0⟩
section
variable {env : SimEnv} {s0 : Sys}

/-- **One index of the run is one block.**  The kernel pops the entry `e` of the live process `p`,
due at `e.time = p.wake` and enabled (no live process is due earlier), and the next state is the
state after `resume` with the simulator's oracle. -/
theorem live_step_B (C : LiveCfgB env s0) (K : LiveKernel env s0) (n : Nat) :
    ∃ e p, (simAt env s0 n).peek = some e ∧ (simAt env s0 n).st.proc? e.pid = some p ∧
      p.alive = true ∧ e.time = p.wake ∧ (simAt env s0 n).st.enabled e.pid ∧
      (simAt env s0 n).step (simHandler env) = some (simAt env s0 (n + 1)) ∧
      (simAt env s0 (n + 1)).st =
        ((simAt env s0 n).st.resume e.pid (env.oracle (simAt env s0 n).st)).1 := by
  obtain ⟨_, _, k1, hs⟩ := K.run n
  have h1 : simAt env s0 (n + 1) = k1 := simAt_succ_of_step hs
  obtain ⟨e, hpk, hc⟩ := ot_step_cases C.hw (K.reach n) hs
  rcases hc with ⟨hc, _⟩ | ⟨p, hpp, ha, het, hen, hc⟩
  · exfalso
    have := (K.run (n + 1)).2.1
    rw [h1, hc] at this
    simp at this
  · exact ⟨e, p, hpk, hpp, ha, het, hen, by rw [h1]; exact hs, by rw [h1]; exact hc⟩

theorem LiveCfgB.crashed (C : LiveCfgB env s0) (n : Nat) : (simAt env s0 n).st.crashed = none := C.nr n

/-- the static attributes of the observation records, from the configuration -/
theorem live_keep0_B (C : LiveCfgB env s0) (n : Nat) :
    (simAt env s0 n).st.obs.map Obs.stat = s0.obs.map Obs.stat :=
  (simAt_reach env s0 n).keep0 C.hw
end
namespace Sys
end Sys
end Topsim
