/-
  FinishFrame2 — which blocks leave `starts` alone (generated from the pattern
  of FinishFrame).
-/
import TopsimProofs.FinishRes11

namespace Topsim

namespace Sys

/-! ### `starts` -/

theorem foldl_starts {α} (f : Sys → α → Sys) (hf : ∀ s x, (f s x).starts = s.starts) (l : List α) (s : Sys) :
    (l.foldl f s).starts = s.starts := by
  induction l generalizing s with
  | nil => rfl
  | cons x r ih => exact (ih _).trans (hf s x)

theorem monitorBlock_starts (s : Sys) (now : Time) : (s.monitorBlock now).1.starts = s.starts := rfl

theorem checkIngestCapacity_starts (s : Sys) (o : Obs) (s' : Sys) (b : Bool)
    (h : s.checkIngestCapacity o = .ok (s', b)) : s'.starts = s.starts := by
  unfold checkIngestCapacity at h
  split at h
  · exact absurd h (by simp)
  · split at h
    · split at h
      · injection h with h; injection h with h1 _
        subst h1
        split <;> rfl
      · injection h with h; injection h with h1 _; subst h1; rfl
    · injection h with h; injection h with h1 _; subst h1; rfl

theorem telescopeVisit_starts (n : Nat) (acc : Sys × Option Err) (oid : Oid) :
    (telescopeVisit n acc oid).1.starts = acc.1.starts := by
  obtain ⟨s1, err⟩ := acc
  unfold telescopeVisit
  cases err with
  | some e => rfl
  | none =>
    simp only
    split
    · rfl
    · rename_i o _
      split
      · cases hc : s1.checkIngestCapacity o with
        | error e => rfl
        | ok r =>
          obtain ⟨s', b⟩ := r
          have := checkIngestCapacity_starts s1 o s' b hc
          cases b with
          | false => exact this
          | true => simp only; exact this
      · split <;> rfl

theorem foldl_starts' {α β} (f : Sys × β → α → Sys × β) (hf : ∀ acc x, (f acc x).1.starts = acc.1.starts)
    (l : List α) (acc : Sys × β) : (l.foldl f acc).1.starts = acc.1.starts := by
  induction l generalizing acc with
  | nil => rfl
  | cons x r ih => exact (ih _).trans (hf acc x)

theorem telescopeBlock_starts (s : Sys) (now : Time) : (s.telescopeBlock now).1.starts = s.starts := by
  unfold telescopeBlock
  split
  · rfl
  · simp only
    have := foldl_starts' (telescopeVisit (natNow now)) (telescopeVisit_starts (natNow now))
      (s.obs.map (·.id))
      ({ s with telEvents := [], telDelayed := if s.schedDelayed = true ∧ (!s.telDelayed) = true then true else s.telDelayed }, none)
    generalize (List.foldl (telescopeVisit (natNow now)) ({ s with telEvents := [], telDelayed := if s.schedDelayed = true ∧ (!s.telDelayed) = true then true else s.telDelayed }, none) (s.obs.map (·.id))) = r at this ⊢
    obtain ⟨s1, e1⟩ := r
    cases e1 <;> exact this

theorem bufferLoopBlock_starts (s : Sys) (now : Time) : (s.bufferLoopBlock now).1.starts = s.starts := by
  unfold bufferLoopBlock
  split
  · rfl
  · simp only; split <;> split <;> rfl

theorem allocIngestIter_starts (s : Sys) (now : Time) (oid : Oid) (tl : Int) :
    (s.allocIngestIter now oid tl).1.starts = s.starts := by
  unfold allocIngestIter; simp only; mach_split

theorem allocIngestBlock_starts (s : Sys) (now : Time) (pc : Nat) (oid : Oid) (tl : Int) :
    (s.allocIngestBlock now pc oid tl).1.starts = s.starts := by
  unfold allocIngestBlock
  split
  · exact allocIngestIter_starts _ _ _ _
  · exact allocIngestIter_starts _ _ _ _

theorem provIngestBlock_starts (s : Sys) (now : Time) (pc : Nat) (oid : Oid) (d : Nat) :
    (s.provIngestBlock now pc oid d).1.starts = s.starts := by
  unfold provIngestBlock
  split
  · simp only
    split
    · rfl
    · refine Eq.trans (foldl_starts _ ?_ _ _) rfl
      intro s x; rfl
  · rfl

theorem ingestStreamIter_starts (s : Sys) (now : Time) (oid : Oid) (tl : Int) :
    (s.ingestStreamIter now oid tl).1.starts = s.starts := by
  unfold ingestStreamIter; mach_split

theorem ingestStreamBlock_starts (s : Sys) (now : Time) (pc : Nat) (oid : Oid) (tl : Int) :
    (s.ingestStreamBlock now pc oid tl).1.starts = s.starts := by
  unfold ingestStreamBlock
  split
  · split
    · rfl
    · split
      · rfl
      · exact ingestStreamIter_starts _ _ _ _
  · exact ingestStreamIter_starts _ _ _ _

theorem allocTaskBlock_starts (s : Sys) (now : Time) (t : Tid) (m : Mid) (preds : List Tid)
    (obs : Option Oid) (ing : Bool) (ret : Nat) :
    (s.allocTaskBlock now t m preds obs ing ret).1.starts = s.starts := by
  unfold allocTaskBlock; simp only; mach_split

theorem hot2coldIter_starts (s : Sys) (now : Time) (o : Oid) (left : Int) :
    (s.hot2coldIter now o left).1.starts = s.starts := by
  unfold hot2coldIter; mach_split

theorem hot2coldBlock_starts (s : Sys) (now : Time) (cur : Option (Oid × Int)) :
    (s.hot2coldBlock now cur).1.starts = s.starts := by
  unfold hot2coldBlock
  split
  · exact hot2coldIter_starts _ _ _ _
  · split
    · rfl
    · rfl
    · rw [hot2coldIter_starts]; rfl

theorem cold2hotIter_starts (s : Sys) (now : Time) (o : Oid) (left : Int) :
    (s.cold2hotIter now o left).1.starts = s.starts := by
  unfold cold2hotIter; mach_split

theorem cold2hotBlock_starts (s : Sys) (now : Time) (cur : Option (Oid × Int)) :
    (s.cold2hotBlock now cur).1.starts = s.starts := by
  unfold cold2hotBlock
  split
  · exact cold2hotIter_starts _ _ _ _
  · split
    · rfl
    · rfl
    · rw [cold2hotIter_starts]; rfl

theorem block_starts (s : Sys) (p : Proc) (orc : Oracle)
    (h_schedLoop : p.k.tag ≠ "schedLoop")
    (h_doWork : p.k.tag ≠ "doWork")
    (h_allocTasks : p.k.tag ≠ "allocTasks") :
    (s.block p orc).1.starts = s.starts := by
  unfold block
  split
  · exact monitorBlock_starts _ _
  · exact telescopeBlock_starts _ _
  · rfl
  · rename_i hk; rw [hk] at h_schedLoop; exact absurd rfl h_schedLoop
  · exact bufferLoopBlock_starts _ _
  · exact allocIngestBlock_starts _ _ _ _ _
  · exact provIngestBlock_starts _ _ _ _ _
  · exact ingestStreamBlock_starts _ _ _ _ _
  · exact allocTaskBlock_starts _ _ _ _ _ _ _ _
  · rename_i hk; rw [hk] at h_doWork; exact absurd rfl h_doWork
  · rename_i hk; rw [hk] at h_allocTasks; exact absurd rfl h_allocTasks
  · exact hot2coldBlock_starts _ _ _
  · exact cold2hotBlock_starts _ _ _

end Sys
end Topsim
