/-
  LiveP15c2 — the declarations of Live15c2.lean that depend on the configuration structures, restated for
  the plan-following configurations (`LivePCfg`, `NcPCfg`, `L7PLib`); the proofs are those of Live15c2.lean.
-/
import TopsimProofs.LiveP15c

namespace Topsim

open KState Sys

namespace Sys

end Sys

variable {env : SimEnv} {s0 : Sys}

/-- one kernel step (a block of the live process `p`) keeps `AtInv` -/
theorem Sys.AtInv.step_P (N : NcPCfg env s0) {k k1 : SimState} (hr : SimReach env s0 k)
    (hreach : ReachOk s0 k.st) (inv : AtInv k.st) {e : HEntry} {p : Proc}
    (hpk : k.peek = some e) (hpp : k.st.proc? e.pid = some p) (ha : p.alive = true)
    (hst : k1.st = (k.st.resume e.pid (env.oracle k.st)).1) : AtInv k1.st := by
  have hw := N.hw
  have hinv := hr.l3inv hw
  have hs := hinv.sinv
  have hpw := hs.pw
  have hu := hr.urg hw
  have hsi := hr.startInv hw N.hb0.1
  obtain ⟨hpm, hpid⟩ := proc?_some hpp
  rw [hst]
  generalize env.oracle k.st = orc
  have hm := nco_resume_procs hpw hpp ha orc
  obtain ⟨_, hcl', _⟩ := il_resume_fields k.st e.pid orc p hpp ha
  have hidle : k.st.cl.idle = [] := reach_idle_nil hw hreach.toReach N.alg.noBatch
  have halg : PlanAlg k.st.alg := by rw [reach_alg hreach.toReach]; exact N.alg
  have hP0 : ∀ q' ∈ (k.st.resume e.pid orc).1.procs, q'.pc = 0 →
      (q' ∈ k.st.procs ∧ q'.pid ≠ e.pid) ∨
      (k.st.nextPid ≤ q'.pid ∧ NewKind p.k q'.k ∧ q' ∈ (k.st.block p orc).1.procs ∧ q' ∉ k.st.procs) := by
    intro q' hq' h0
    rcases hm q' hq' with rfl | h | ⟨_, _, w1, w2, w3, w4⟩
    · simp at h0
    · exact Or.inl h
    · exact Or.inr ⟨w1, w2, w3, w4⟩
  have hnormal : 1 ≤ p.pc → ∀ q ∈ k.st.procs, q.alive = true → q.pc = 0 → False := by
    intro hpc q hq hqa hq0
    have := hu.normal hinv.heap hpk hpp ha hpc q hq hqa
    omega
  -- if an old scheduler-side process is pending, `p` is before its first block and of such a kind
  have hT : ∀ q ∈ k.st.procs, q.alive = true → q.pc = 0 → q.k.ncoSched = true →
      p.pc = 0 ∧ p.k.ncoOk3 = true := by
    intro q hq hqa hq0 hqt
    have hp0 := hu.first hinv.heap hpk hpp ha hq hqa hq0
    exact ⟨hp0, inv.ok q hq hqa hq0 hqt p hpm ha hp0⟩
  -- old pending processes when `p` is of another kind
  have holdBad : p.k.ncoOk3 = false →
      ∀ q ∈ k.st.procs, q.alive = true → q.pc = 0 → q.k.ncoSched = false := by
    intro hbad q hq hqa hq0
    cases hn : q.k.ncoSched with
    | false => rfl
    | true =>
      have := (hT q hq hqa hq0 hn).2
      rw [hbad] at this; cases this
  -- a generic case: no scheduler-side process is pending afterwards
  have hnone : (∀ q ∈ k.st.procs, q.alive = true → q.pc = 0 → q.pid ≠ e.pid → q.k.ncoSched = false) →
      (∀ c, NewKind p.k c → c.ncoSched = false) → AtInv (k.st.resume e.pid orc).1 := by
    intro hold hnew
    apply AtInv.of_noTrig
    intro q' hq' hqa h0
    rcases hP0 q' hq' h0 with ⟨h, hne⟩ | ⟨_, w, _, _⟩
    · exact hold q' h hqa h0 hne
    · exact hnew _ w
  have hbad : p.k.ncoOk3 = false → (∀ c, NewKind p.k c → c.ncoSched = false) →
      AtInv (k.st.resume e.pid orc).1 :=
    fun h1 h2 => hnone (fun q hq hqa hq0 _ => holdBad h1 q hq hqa hq0) h2
  cases hk : p.k with
  | monitor => exact hbad (by rw [hk]; rfl) (fun c w => by rw [hk] at w; simp [NewKind] at w)
  | clusterLoop => exact hbad (by rw [hk]; rfl) (fun c w => by rw [hk] at w; simp [NewKind] at w)
  | ingestStream o tl => exact hbad (by rw [hk]; rfl) (fun c w => by rw [hk] at w; simp [NewKind] at w)
  | hot2cold cur => exact hbad (by rw [hk]; rfl) (fun c w => by rw [hk] at w; simp [NewKind] at w)
  | cold2hot cur => exact hbad (by rw [hk]; rfl) (fun c w => by rw [hk] at w; simp [NewKind] at w)
  | telescope =>
    refine hbad (by rw [hk]; rfl) (fun c w => ?_)
    rw [hk] at w; simp only [NewKind] at w
    obtain ⟨o, rfl⟩ := w; rfl
  | bufferLoop =>
    refine hbad (by rw [hk]; rfl) (fun c w => ?_)
    rw [hk] at w; simp only [NewKind] at w
    rcases w with rfl | rfl <;> rfl
  | allocIngest o tl =>
    refine hbad (by rw [hk]; rfl) (fun c w => ?_)
    rw [hk] at w; simp only [NewKind] at w
    rcases w with ⟨d, rfl⟩ | rfl <;> rfl
  | provIngest o d =>
    refine hbad (by rw [hk]; rfl) (fun c w => ?_)
    rw [hk] at w; simp only [NewKind] at w
    obtain ⟨t, m, rfl⟩ := w; rfl
  | doWork t m preds ph tot =>
    -- a task body: the cluster is not touched, nothing is created
    have hav : (k.st.resume e.pid orc).1.cl.available = k.st.cl.available := by
      rw [hcl']; exact nco_block_avail k.st p orc (by rw [hk]; rfl)
    refine inv.mono ?_ ?_
    · intro q' hq' _ h0
      rcases hP0 q' hq' h0 with ⟨h, _⟩ | ⟨_, w, _, _⟩
      · exact Or.inl h
      · rw [hk] at w; simp [NewKind] at w
    · intro q' _ _ _ _ m' _ hm'
      rw [hav]; exact hm'
  | schedLoop =>
    have hold := holdBad (by rw [hk]; rfl)
    rcases blockEvents_schedLoop (s := k.st) orc hk with ⟨_, hprocs, _⟩ | ⟨oid, ob, _, hnext, _, _, _, hprocs⟩
    · -- nothing created
      apply AtInv.of_noTrig
      intro q' hq' hqa h0
      rcases hP0 q' hq' h0 with ⟨h, _⟩ | ⟨_, _, w3, w4⟩
      · exact hold q' h hqa h0
      · rw [hprocs] at w3; exact absurd w3 w4
    · -- an `allocate_tasks` process is created: the loop is past its first block
      have hpc1 : 1 ≤ p.pc := by
        cases hpc : p.pc with
        | succ j => omega
        | zero =>
          exfalso
          have hstored := hsi.sch0 p hpm ha hpc hk
          unfold Buffer.nextForProcessing at hnext
          rw [hstored] at hnext
          simp at hnext
      have hnewq : ∀ q' ∈ (k.st.block p orc).1.procs, q' ∉ k.st.procs →
          q' = { pid := k.st.nextPid, k := .allocTasks oid [] [] [] false, wake := p.wake } := by
        intro q' hq' hnot
        rw [hprocs] at hq'
        rcases List.mem_append.mp hq' with h | h
        · exact absurd h hnot
        · simpa using h
      have hall : ∀ q' ∈ (k.st.resume e.pid orc).1.procs, q'.alive = true → q'.pc = 0 →
          q' = { pid := k.st.nextPid, k := .allocTasks oid [] [] [] false, wake := p.wake } := by
        intro q' hq' hqa h0
        rcases hP0 q' hq' h0 with ⟨h, _⟩ | ⟨_, _, w3, w4⟩
        · exact absurd h0 (fun h0 => hnormal hpc1 q' h hqa h0)
        · exact hnewq q' w3 w4
      refine ⟨?_, ?_, ?_, ?_⟩
      · intro q hq hqa h0 m hm
        rw [hall q hq hqa h0] at hm; cases hm
      · intro q hq q' hq' hqa h0 hqa' h0' m hm _
        rw [hall q hq hqa h0] at hm; cases hm
      · intro q hq hqa h0 _ q' hq' hqa' h0'
        rw [hall q' hq' hqa' h0']; rfl
      · intro q hq q' hq' hqa h0 hqa' h0' _ _
        rw [hall q hq hqa h0, hall q' hq' hqa' h0']
  | allocTask t m preds obs ing ret =>
    cases ing with
    | true =>
      refine hbad (by rw [hk]; rfl) (fun c w => ?_)
      rw [hk] at w; simp only [NewKind] at w
      rw [w]; rfl
    | false =>
      -- a scheduler-side allocation process: it takes its own machine only
      refine inv.mono ?_ ?_
      · intro q' hq' _ h0
        rcases hP0 q' hq' h0 with ⟨h, _⟩ | ⟨_, w, _, _⟩
        · exact Or.inl h
        · rw [hk] at w; simp only [NewKind] at w
          rw [w]; exact Or.inr ⟨rfl, rfl⟩
      · intro q' hq' hqa h0 hold m' hm' hav
        have hne : q'.pid ≠ e.pid := by
          rcases hP0 q' hq' h0 with ⟨_, h⟩ | ⟨_, _, _, w4⟩
          · exact h
          · exact absurd hold w4
        have hp0 : p.pc = 0 := hu.first hinv.heap hpk hpp ha hold hqa h0
        have hmm : m' ≠ m := by
          intro hmm
          apply hne
          have := inv.dist q' hold p hpm hqa h0 ha hp0 m' hm' (by rw [hk, hmm]; rfl)
          omega
        rw [hcl', block_allocTask orc hk]
        exact nco_allocTaskBlock_avail k.st p.wake t m preds obs false ret m' hav hmm
  | allocTasks o sc pa po fin =>
    obtain ⟨hclb, new, hprocs, hnd, hnew⟩ :=
      nco_allocTasksBlock_P k.st p.wake orc p.pc o sc pa po fin halg hidle
    rw [← block_allocTasks orc hk] at hclb hprocs
    have hav : (k.st.resume e.pid orc).1.cl.available = k.st.cl.available := by rw [hcl', hclb]
    have hpT : p.k.ncoIsATs = true := by rw [hk]; rfl
    -- the other old pending processes are task bodies
    have hold : ∀ q ∈ k.st.procs, q.alive = true → q.pc = 0 → q.pid ≠ e.pid →
        q.k.ncoSched = false ∧ q.k.ncoOk3 = true := by
      intro q hq hqa hq0 hne
      have hp0 : p.pc = 0 := hu.first hinv.heap hpk hpp ha hq hqa hq0
      constructor
      · cases hn : q.k.ncoSched with
        | false => rfl
        | true =>
          exfalso
          apply hne
          have := inv.one p hpm q hq ha hp0 hqa hq0 hpT hn
          omega
      · exact inv.ok p hpm ha hp0 (PK.ncoIsATs_sched hpT) q hq hqa hq0
    have hnewq : ∀ q' ∈ (k.st.block p orc).1.procs, q' ∉ k.st.procs → q' ∈ new := by
      intro q' hq' hnot
      rw [hprocs] at hq'
      rcases List.mem_append.mp hq' with h | h
      · exact absurd h hnot
      · exact h
    have hmach : k.st.cl.machines = k.st.machines.map (·.id) := by
      rw [sim_machines env s0 hw k hr, reach_sys_machines hreach.toReach]
    obtain ⟨U, hU⟩ := hs.ci
    refine ⟨?_, ?_, ?_, ?_⟩
    · intro q hq hqa h0 m hm
      rcases hP0 q hq h0 with ⟨h, hne⟩ | ⟨_, _, w3, w4⟩
      · have := (hold q h hqa h0 hne).1
        rw [PK.ncoB_sched hm] at this; cases this
      · obtain ⟨t', m', cross, hk', hocc, mm, hmm, hid⟩ := hnew q (hnewq q w3 w4)
        rw [hk'] at hm
        simp only [PK.ncoB, Bool.false_eq_true, if_false, Option.some.injEq] at hm
        subst hm
        rw [hav]
        apply Cluster.nco_avail_of_free hU.inv hidle _ hocc
        rw [hmach]
        exact List.mem_map.mpr ⟨mm, hmm, hid⟩
    · intro q hq q' hq' hqa h0 hqa' h0' m hm hm'
      rcases hP0 q hq h0 with ⟨h, hne⟩ | ⟨_, _, w3, w4⟩
      · have := (hold q h hqa h0 hne).1
        rw [PK.ncoB_sched hm] at this; cases this
      · rcases hP0 q' hq' h0' with ⟨h', hne'⟩ | ⟨_, _, w3', w4'⟩
        · have := (hold q' h' hqa' h0' hne').1
          rw [PK.ncoB_sched hm'] at this; cases this
        · have hq1 := hnewq q w3 w4
          have hq2 := hnewq q' w3' w4'
          obtain ⟨t1, m1, c1, hk1, _⟩ := hnew q hq1
          obtain ⟨t2, m2, c2, hk2, _⟩ := hnew q' hq2
          have e1 : q.k.ncoMach = q'.k.ncoMach := by
            rw [hk1] at hm; rw [hk2] at hm'
            simp only [PK.ncoB, Bool.false_eq_true, if_false, Option.some.injEq] at hm hm'
            rw [hk1, hk2]
            simp only [PK.ncoMach, Option.some.injEq]
            rw [hm, hm']
          have := nodup_map_inj (fun q : Proc => q.k.ncoMach) new hnd q q' hq1 hq2 e1
          rw [this]
    · intro q hq hqa h0 _ q' hq' hqa' h0'
      rcases hP0 q' hq' h0' with ⟨h', hne'⟩ | ⟨_, _, w3', w4'⟩
      · exact (hold q' h' hqa' h0' hne').2
      · obtain ⟨t2, m2, c2, hk2, _⟩ := hnew q' (hnewq q' w3' w4')
        rw [hk2]; rfl
    · intro q hq q' hq' hqa h0 hqa' h0' ht _
      rcases hP0 q hq h0 with ⟨h, hne⟩ | ⟨_, _, w3, w4⟩
      · have := (hold q h hqa h0 hne).1
        rw [PK.ncoIsATs_sched ht] at this; cases this
      · obtain ⟨t1, m1, c1, hk1, _⟩ := hnew q (hnewq q w3 w4)
        rw [hk1] at ht; cases ht

theorem nco_atInv_P (N : NcPCfg env s0) (n : Nat) (hc : (simAt env s0 n).st.crashed = none) :
    AtInv (simAt env s0 n).st := by
  induction n with
  | zero => exact AtInv.init s0 N.hw
  | succ n ih =>
    obtain ⟨hcn, hreach, e, p, hpk, hpp, ha, hst⟩ := nco_step_ctx_P N n hc
    exact (ih hcn).step_P N (simAt_reach env s0 n) hreach hpk hpp ha hst

/-- **NC-A3.**  In a run that has not raised, the first block of a scheduler-side allocation
process finds its machine available: `allocate_task_to_cluster` finds the machine eligible. -/
theorem nc_allocTask_avail_P (N : NcPCfg env s0) (n : Nat) (hc : (simAt env s0 n).st.crashed = none)
    {e : HEntry} {p : Proc} (hpk : (simAt env s0 n).peek = some e)
    (hpp : (simAt env s0 n).st.proc? e.pid = some p) (ha : p.alive = true) {t : Tid} {m : Mid}
    {preds : List Tid} {obs : Option Oid} {ret : Nat} (hk : p.k = .allocTask t m preds obs false ret)
    (hpc : p.pc = 0) : m ∈ (simAt env s0 n).st.cl.available := by
  have _ := hpk
  obtain ⟨hpm, _⟩ := proc?_some hpp
  exact (nco_atInv_P N n hc).avail p hpm ha hpc m (by rw [hk]; rfl)

end Topsim

