/-
  Live9 — stabilisation: finitely many monotone predicates of the run are all constant from some
  index on; and the monotone predicates of the liveness argument (admitted, recorded start, left
  WAITING, FINISHED, handed to the scheduler, removed, an allocation process exists for a workflow
  node).
-/
import TopsimProofs.Live5

namespace Topsim

open KState Sys

/-! ### stabilisation -/

theorem mono_le {P : Nat → Prop} (mono : ∀ n, P n → P (n + 1)) {n m : Nat} (h : n ≤ m) (hn : P n) : P m := by
  induction m with
  | zero =>
    have : n = 0 := by omega
    subst this; exact hn
  | succ m ih =>
    by_cases e : n = m + 1
    · subst e; exact hn
    · exact mono m (ih (by omega))

/-- `P` is constant from `n₀` on -/
def StableFrom (P : Nat → Prop) (n₀ : Nat) : Prop := ∀ n, n₀ ≤ n → (P n ↔ P n₀)

theorem StableFrom.later {P : Nat → Prop} {n₀ n₁ : Nat} (h : StableFrom P n₀) (hle : n₀ ≤ n₁) :
    StableFrom P n₁ := by
  intro n hn
  rw [h n (by omega), h n₁ hle]

theorem StableFrom.eq {P : Nat → Prop} {n₀ : Nat} (h : StableFrom P n₀) {n m : Nat} (hn : n₀ ≤ n) (hm : n₀ ≤ m) :
    P n ↔ P m := by
  rw [h n hn, h m hm]

theorem stab_one (P : Nat → Prop) (mono : ∀ n, P n → P (n + 1)) : ∃ n₀, StableFrom P n₀ := by
  by_cases h : ∃ n, P n
  · obtain ⟨n₀, hn₀⟩ := h
    exact ⟨n₀, fun n hn => ⟨fun _ => hn₀, fun _ => mono_le mono hn hn₀⟩⟩
  · refine ⟨0, fun n _ => ⟨fun hp => absurd ⟨n, hp⟩ h, fun hp => absurd ⟨0, hp⟩ h⟩⟩

theorem stab_list {ι : Type} (l : List ι) (P : ι → Nat → Prop)
    (mono : ∀ i ∈ l, ∀ n, P i n → P i (n + 1)) : ∃ n₀, ∀ i ∈ l, StableFrom (P i) n₀ := by
  induction l with
  | nil => exact ⟨0, fun i hi => by simp at hi⟩
  | cons a l ih =>
    obtain ⟨n1, h1⟩ := ih (fun i hi => mono i (List.mem_cons_of_mem _ hi))
    obtain ⟨n2, h2⟩ := stab_one (P a) (mono a (by simp))
    refine ⟨max n1 n2, fun i hi => ?_⟩
    rcases List.mem_cons.mp hi with rfl | hi
    · exact h2.later (by omega)
    · exact (h1 i hi).later (by omega)

/-! ### the process table along the run -/

section
variable {env : SimEnv} {s0 : Sys}

/-- what a block returns as the kind of an allocation process -/
theorem allocTaskBlock_key (s : Sys) (now : Time) (t : Tid) (m : Mid) (preds : List Tid) (obs : Option Oid)
    (ing : Bool) (ret : Nat) :
    ∃ ret', (s.allocTaskBlock now t m preds obs ing ret).2.1 = .allocTask t m preds obs ing ret' := by
  unfold Sys.allocTaskBlock
  simp only
  repeat' split
  all_goals exact ⟨_, rfl⟩

/-- one step keeps every process record up to its local variables: same pid, same tag, and an
allocation process keeps its task, machine, cross list, observation and flag -/
theorem live_procs_step (C : LiveCfg env s0) (K : LiveKernel env s0) (n : Nat) :
    ∀ q ∈ (simAt env s0 n).st.procs, ∃ q' ∈ (simAt env s0 (n + 1)).st.procs, q'.pid = q.pid ∧
      q'.k.tag = q.k.tag ∧
      ∀ t m preds obs ing ret, q.k = .allocTask t m preds obs ing ret →
        ∃ ret', q'.k = .allocTask t m preds obs ing ret' := by
  obtain ⟨e, p, hpk, hpp, ha, het, hen, hs, hst⟩ := live_step C K n
  have hpw := ((K.reach n).l3inv C.hw).sinv.pw
  obtain ⟨_, m2, m3⟩ := il_resume_procs_mem hpw hpp ha (env.oracle (simAt env s0 n).st)
  obtain ⟨hpm, hpid⟩ := proc?_some hpp
  intro q hq
  by_cases hqe : q.pid = e.pid
  · have hqp : q = p := hpw.eq_of_pid hq hpm (hqe.trans hpid.symm)
    subst hqp
    refine ⟨_, by rw [hst]; exact m2, by simp, ?_, ?_⟩
    · simp only [fin_k]
      exact block_tag _ hpw q _
    · intro t m preds obs ing ret hk
      simp only [fin_k]
      rw [block_allocTask _ hk]
      exact allocTaskBlock_key _ _ _ _ _ _ _ _
  · exact ⟨q, by rw [hst]; exact m3 q hq hqe, rfl, rfl, fun t m preds obs ing ret hk => ⟨ret, hk⟩⟩

theorem live_procs_keep (C : LiveCfg env s0) (K : LiveKernel env s0) {n m : Nat} (h : n ≤ m) :
    ∀ q ∈ (simAt env s0 n).st.procs, ∃ q' ∈ (simAt env s0 m).st.procs, q'.pid = q.pid ∧
      q'.k.tag = q.k.tag ∧
      ∀ t mm preds obs ing ret, q.k = .allocTask t mm preds obs ing ret →
        ∃ ret', q'.k = .allocTask t mm preds obs ing ret' := by
  induction m with
  | zero =>
    have : n = 0 := by omega
    subst this
    exact fun q hq => ⟨q, hq, rfl, rfl, fun t mm preds obs ing ret hk => ⟨ret, hk⟩⟩
  | succ m ih =>
    by_cases e : n = m + 1
    · subst e
      exact fun q hq => ⟨q, hq, rfl, rfl, fun t mm preds obs ing ret hk => ⟨ret, hk⟩⟩
    · intro q hq
      obtain ⟨q1, hq1, e1, e2, e3⟩ := ih (by omega) q hq
      obtain ⟨q2, hq2, f1, f2, f3⟩ := live_procs_step C K m q1 hq1
      refine ⟨q2, hq2, f1.trans e1, f2.trans e2, ?_⟩
      intro t mm preds obs ing ret hk
      obtain ⟨r1, hk1⟩ := e3 t mm preds obs ing ret hk
      exact f3 t mm preds obs ing r1 hk1

end

/-! ### the monotone predicates -/

namespace Sys

/-- the observation has been admitted -/
def PAdm (o : Oid) (s : Sys) : Prop := o ∈ s.admitted

/-- an allocation process exists (alive or not) for node `node` of the workflow of `o` -/
def PAT (o : Oid) (node : Nat) (s : Sys) : Prop :=
  ∃ q ∈ s.procs, ∃ c m preds obs ing ret, q.k = .allocTask (.wf o c node) m preds obs ing ret

end Sys

section
variable {env : SimEnv} {s0 : Sys}

theorem live_PAT_mono (C : LiveCfg env s0) (K : LiveKernel env s0) {o : Oid} {node : Nat} {n m : Nat}
    (h : n ≤ m) (hp : Sys.PAT o node (simAt env s0 n).st) : Sys.PAT o node (simAt env s0 m).st := by
  obtain ⟨q, hq, c, mm, preds, obs, ing, ret, hk⟩ := hp
  obtain ⟨q', hq', _, _, h3⟩ := live_procs_keep C K h q hq
  obtain ⟨ret', hk'⟩ := h3 _ _ _ _ _ _ hk
  exact ⟨q', hq', c, mm, preds, obs, ing, ret', hk'⟩

theorem live_PAst_mono (C : LiveCfg env s0) (K : LiveKernel env s0) {o : Oid} {n m : Nat}
    (h : n ≤ m) (hp : Sys.PAst o (simAt env s0 n).st) : Sys.PAst o (simAt env s0 m).st := by
  obtain ⟨ob, a, hob, hast⟩ := hp
  obtain ⟨ob', hob', hast', _⟩ := SimPath.ast_persist C.hw (K.reach n) (simAt_path env s0 n m h) hob hast
  exact ⟨ob', a, hob', hast'⟩

theorem live_PRun_mono (C : LiveCfg env s0) (K : LiveKernel env s0) {o : Oid} {n m : Nat}
    (h : n ≤ m) (hp : Sys.PRun o (simAt env s0 n).st) : Sys.PRun o (simAt env s0 m).st := by
  obtain ⟨ob, hob, hst⟩ := hp
  obtain ⟨ob', hob', hr, _⟩ := SimPath.status_mono C.hw (K.reach n) (simAt_path env s0 n m h) hob
  refine ⟨ob', hob', ?_⟩
  intro hw
  rw [hw] at hr
  have : ob.status = .waiting := by
    cases hs : ob.status <;> rw [hs] at hr <;> simp [obsRank] at hr ⊢
  exact hst this

theorem live_PFin_mono (C : LiveCfg env s0) (K : LiveKernel env s0) {o : Oid} {n m : Nat}
    (h : n ≤ m) (hp : Sys.PFin o (simAt env s0 n).st) : Sys.PFin o (simAt env s0 m).st := by
  obtain ⟨ob, hob, hst⟩ := hp
  obtain ⟨ob', hob', hr, _⟩ := SimPath.status_mono C.hw (K.reach n) (simAt_path env s0 n m h) hob
  refine ⟨ob', hob', ?_⟩
  rw [hst] at hr
  cases hs : ob'.status <;> rw [hs] at hr <;> simp [obsRank] at hr ⊢

/-- the buffer after one block: the lists `scheduled` and `finished` only grow together -/
theorem block_pq_mono (s : Sys) (_hpw : PW s) (p : Proc) (orc : Oracle) (o : Oid) :
    (o ∈ s.buf.hot.finished → o ∈ (s.block p orc).1.buf.hot.finished) ∧
    (o ∈ s.buf.hot.scheduled ∨ o ∈ s.buf.hot.finished →
      o ∈ (s.block p orc).1.buf.hot.scheduled ∨ o ∈ (s.block p orc).1.buf.hot.finished) := by
  have quiet : (s.block p orc).1.buf = s.buf →
      (o ∈ s.buf.hot.finished → o ∈ (s.block p orc).1.buf.hot.finished) ∧
      (o ∈ s.buf.hot.scheduled ∨ o ∈ s.buf.hot.finished →
        o ∈ (s.block p orc).1.buf.hot.scheduled ∨ o ∈ (s.block p orc).1.buf.hot.finished) := by
    intro e; rw [e]; exact ⟨fun h => h, fun h => h⟩
  have sf : (s.block p orc).1.buf.hot.scheduled = s.buf.hot.scheduled →
      (s.block p orc).1.buf.hot.finished = s.buf.hot.finished →
      (o ∈ s.buf.hot.finished → o ∈ (s.block p orc).1.buf.hot.finished) ∧
      (o ∈ s.buf.hot.scheduled ∨ o ∈ s.buf.hot.finished →
        o ∈ (s.block p orc).1.buf.hot.scheduled ∨ o ∈ (s.block p orc).1.buf.hot.finished) := by
    intro e1 e2; rw [e1, e2]; exact ⟨fun h => h, fun h => h⟩
  cases hk : p.k with
  | schedLoop =>
    rw [block_schedLoop orc hk]
    rcases schedLoopBlock_buf s p.wake orc with ⟨hbuf, _⟩ | ⟨oid, ob, recs, plan, hnext, _, _, hbuf, _⟩
    · show (o ∈ s.buf.hot.finished → o ∈ (s.schedLoopBlock p.wake orc).1.buf.hot.finished) ∧ _
      rw [hbuf]; exact ⟨fun h => h, fun h => h⟩
    · show (o ∈ s.buf.hot.finished → o ∈ (s.schedLoopBlock p.wake orc).1.buf.hot.finished) ∧
        (_ → o ∈ (s.schedLoopBlock p.wake orc).1.buf.hot.scheduled ∨
          o ∈ (s.schedLoopBlock p.wake orc).1.buf.hot.finished)
      rw [hbuf]
      unfold Buffer.nextForProcessing
      split
      · exact ⟨fun h => h, fun h => h⟩
      · simp only
        refine ⟨fun h => h, fun h => ?_⟩
        rcases h with h | h
        · exact Or.inl (List.mem_append_left _ h)
        · exact Or.inr h
  | ingestStream oid tl =>
    rw [block_ingestStream orc hk]
    obtain ⟨e1, e2, _⟩ := ingestStreamBlock_buf s p.wake p.pc oid tl
    rw [e1, e2]; exact ⟨fun h => h, fun h => h⟩
  | allocTasks oid sc pa po fn =>
    rw [block_allocTasks orc hk]
    rcases allocTasksBlock_bufCases s p.wake orc p.pc oid sc pa po fn with e | e
    · rw [e]; exact ⟨fun h => h, fun h => h⟩
    · rw [e]
      rcases remove_full s.buf oid with e2 | ⟨_, _, hf, hsch, _⟩
      · rw [e2]; exact ⟨fun h => h, fun h => h⟩
      · rw [hf, hsch]
        refine ⟨fun h => List.mem_append_left _ h, fun h => ?_⟩
        rcases h with h | h
        · by_cases eo : o = oid
          · right; rw [eo]; simp
          · left; exact (List.mem_erase_of_ne eo).mpr h
        · exact Or.inr (List.mem_append_left _ h)
  | hot2cold cur =>
    have hb : s.block p orc = s.hot2coldBlock p.wake cur := by unfold block; simp only [hk]
    rw [hb]
    obtain ⟨e1, e2⟩ := hot2coldBlock_schedfin s p.wake cur
    rw [e1, e2]; exact ⟨fun h => h, fun h => h⟩
  | cold2hot cur =>
    have hb : s.block p orc = s.cold2hotBlock p.wake cur := by unfold block; simp only [hk]
    rw [hb]
    obtain ⟨e1, e2⟩ := cold2hotBlock_schedfin s p.wake cur
    rw [e1, e2]; exact ⟨fun h => h, fun h => h⟩
  | _ =>
    exact quiet (block_buf s p orc (by rw [hk]; simp [PK.tag]) (by rw [hk]; simp [PK.tag])
      (by rw [hk]; simp [PK.tag]) (by rw [hk]; simp [PK.tag]) (by rw [hk]; simp [PK.tag]))

theorem live_PQ_step (C : LiveCfg env s0) (K : LiveKernel env s0) (o : Oid) (n : Nat) :
    (Sys.PRm o (simAt env s0 n).st → Sys.PRm o (simAt env s0 (n + 1)).st) ∧
    (Sys.PQ o (simAt env s0 n).st → Sys.PQ o (simAt env s0 (n + 1)).st) := by
  obtain ⟨e, p, hpk, hpp, ha, het, hen, hs, hst⟩ := live_step C K n
  have hpw := ((K.reach n).l3inv C.hw).sinv.pw
  have hb := resume_buf (simAt env s0 n).st e.pid (env.oracle (simAt env s0 n).st) p hpp ha
  unfold Sys.PRm Sys.PQ
  rw [hst, hb]
  exact block_pq_mono _ hpw p _ o

theorem live_PRm_mono (C : LiveCfg env s0) (K : LiveKernel env s0) {o : Oid} {n m : Nat}
    (h : n ≤ m) (hp : Sys.PRm o (simAt env s0 n).st) : Sys.PRm o (simAt env s0 m).st :=
  mono_le (P := fun n => Sys.PRm o (simAt env s0 n).st) (fun n => (live_PQ_step C K o n).1) h hp

theorem live_PQ_mono (C : LiveCfg env s0) (K : LiveKernel env s0) {o : Oid} {n m : Nat}
    (h : n ≤ m) (hp : Sys.PQ o (simAt env s0 n).st) : Sys.PQ o (simAt env s0 m).st :=
  mono_le (P := fun n => Sys.PQ o (simAt env s0 n).st) (fun n => (live_PQ_step C K o n).2) h hp

/-- the list of admitted observations only grows -/
theorem live_PAdm_step (C : LiveCfg env s0) (K : LiveKernel env s0) (o : Oid) (n : Nat)
    (hp : Sys.PAdm o (simAt env s0 n).st) : Sys.PAdm o (simAt env s0 (n + 1)).st := by
  obtain ⟨e, p, hpk, hpp, ha, het, hen, hs, hst⟩ := live_step C K n
  have hrts := resume_telSame (simAt env s0 n).st e.pid (env.oracle (simAt env s0 n).st) p hpp ha
  unfold Sys.PAdm at hp ⊢
  rw [hst, hrts.admitted]
  by_cases hk : p.k = .telescope
  · rcases blockEvents_telescope (s := (simAt env s0 n).st) (env.oracle (simAt env s0 n).st) hk with
      ⟨_, hb, _⟩ | ⟨s00, e0, g1, _, _, _, _, _, _, hrun, _⟩
    · rw [hb]; exact hp
    · have hpre := telRun_admitted_prefix hrun
      exact hpre.subset (by rw [g1]; exact hp)
  · rw [(block_telSame _ p _ hk).admitted]; exact hp

theorem live_PAdm_mono (C : LiveCfg env s0) (K : LiveKernel env s0) {o : Oid} {n m : Nat}
    (h : n ≤ m) (hp : Sys.PAdm o (simAt env s0 n).st) : Sys.PAdm o (simAt env s0 m).st :=
  mono_le (P := fun n => Sys.PAdm o (simAt env s0 n).st) (fun n => live_PAdm_step C K o n) h hp

end

end Topsim
