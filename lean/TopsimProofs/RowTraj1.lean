/-
  RowTraj1 — the per-timestep table along the runs of the simulator: one row per
  instant, the `i`-th row written at instant `i`, from the state in which the
  instant began.
-/
import TopsimProofs.IngestLimit23
import TopsimProofs.PauseBoundary

namespace Topsim

open KState Sys

/-! ### `RowsInv` along the simulator's runs -/

theorem Sys.RowsInv.congr {s s' : Sys} (h : RowsInv s) (h1 : s'.procs = s.procs) (h2 : s'.rows = s.rows) :
    RowsInv s' := by
  obtain ⟨p, g1, g2, g3, g4, g5⟩ := h.mon
  refine ⟨⟨p, by unfold Sys.proc?; rw [h1]; exact g1, g2, g3, by rw [h2]; exact g4, g5⟩, ?_⟩
  rw [h1]; exact h.only

/-- in every state of every run of the simulator (pauses included): process 0 is the live monitor,
it has run as many blocks as there are rows, and it is due at that time -/
theorem sim_rowsInv (env : SimEnv) (s0 : Sys) (hw : WFConfig s0) (k : SimState) (h : SimReach env s0 k) :
    RowsInv k.st := by
  induction h with
  | start => exact rowsInv_start s0 hw
  | step k k1 hr hs ih =>
    obtain ⟨hsinv, hheap⟩ := hr.inv hw
    obtain ⟨_, _, e, _, hc⟩ := il_l3_step env k k1 hsinv hheap hs
    rcases hc with ⟨hc, _⟩ | ⟨hen, _, hc⟩
    · rw [hc]; exact ih.congr rfl rfl
    · rw [hc]; exact rowsInv_step k.st e.pid (env.oracle k.st) ih hen
  | collate k _ ih => exact ih.congr rfl rfl

/-- the monitor's pending event: at time `rows.length` -/
theorem sim_monitor_entry (env : SimEnv) (s0 : Sys) (hw : WFConfig s0) (k : SimState) (h : SimReach env s0 k) :
    ∃ m ∈ k.heap, m.pid = 0 ∧ m.time = ((k.st.rows.length : Nat) : Time) ∧
      ∀ x ∈ k.heap, x.pid = 0 → x = m := by
  obtain ⟨p, g1, _, g3, g4, g5⟩ := (sim_rowsInv env s0 hw k h).mon
  obtain ⟨_, hheap⟩ := h.inv hw
  obtain ⟨hpm, hpid⟩ := proc?_some g1
  obtain ⟨m, hm, hmp, hmt⟩ := hheap.live p hpm g3
  refine ⟨m, hm, hmp.trans hpid, by rw [hmt, g5, g4], ?_⟩
  intro x hx hx0
  exact eq_of_map_nodup hheap.uniq hx hm (by rw [hx0, hmp, hpid])

/-! ### what a step that is not the monitor's leaves alone, at a step boundary -/

theorem simHandler_dw_rows (env : SimEnv) (s : Sys) (pid : Nat) (now : Time) (h : s.isDW pid) :
    (simHandler env s pid now).1.rows = s.rows := by
  rcases simHandler_cases env s pid now with ⟨hc, _⟩ | ⟨hc, _, _⟩
  · rw [hc]
  · rw [hc]
    obtain ⟨p, hp, hk⟩ := h
    apply rows_only_monitor s pid _ p hp
    intro e
    rw [e] at hk
    simp [PK.isDoWork] at hk

/-- a step boundary stays a step boundary under every step that is not the monitor's -/
theorem Bdy.step_other (env : SimEnv) (k k' : SimState) (hb : Bdy k) (e : HEntry) (hp : k.peek = some e)
    (he : e.pid ≠ 0) (hs : k.step (simHandler env) = some k') :
    Bdy k' ∧ (∀ n, k'.st.mkRow n = k.st.mkRow n) ∧ k'.st.rows = k.st.rows := by
  obtain ⟨hmon, m, hm, hmpid, hfirst⟩ := hb
  have hem : e ≠ m := fun e' => he (e' ▸ hmpid)
  have hdw := Bdy.popped_dw hm hfirst hp hem
  have hrow := fun n => Bdy.step_mkRow env k k' m e hm hfirst hp hs hem n
  rw [step_next _ _ e hp] at hs
  cases hs
  refine ⟨⟨?_, m, ?_, hmpid, ?_⟩, hrow, ?_⟩
  · rw [next_st]; exact simHandler_isMon env _ _ _ hmon
  · exact next_keep _ _ _ _ _ ((List.mem_erase_of_ne (Ne.symm hem)).mpr hm)
  · intro x hx hxm hxdw
    rw [next_st] at hxdw
    rcases next_mem _ _ _ _ _ hx with h1 | h1 | h1
    · apply hfirst x (List.mem_of_mem_erase h1) hxm
      intro hd
      exact hxdw (simHandler_isDW env _ _ _ _ hd)
    · rw [simHandler_quiet env k.st e.pid e.time hdw] at h1
      cases h1
    · exfalso
      apply hxdw
      rw [h1]
      exact simHandler_isDW env _ _ _ _ hdw
  · rw [next_st]; exact simHandler_dw_rows env k.st e.pid e.time hdw

/-- kernel steps that do not resume the monitor, and pause hand-overs -/
inductive QuietTo (env : SimEnv) : SimState → SimState → Prop
  | refl (k : SimState) : QuietTo env k k
  | step (k k1 k2 : SimState) (e : HEntry) : k.peek = some e → e.pid ≠ 0 →
      k.step (simHandler env) = some k1 → QuietTo env k1 k2 → QuietTo env k k2
  | collate (k k2 : SimState) : QuietTo env { k with st := k.st.collate } k2 → QuietTo env k k2

theorem QuietTo.simReach {env : SimEnv} {s0 : Sys} {k k' : SimState} (hq : QuietTo env k k')
    (h : SimReach env s0 k) : SimReach env s0 k' := by
  induction hq with
  | refl k => exact h
  | step k k1 k2 e _ _ hs _ ih => exact ih (SimReach.step k k1 h hs)
  | collate k k2 _ ih => exact ih (SimReach.collate k h)

theorem Bdy.collate {k : SimState} (hb : Bdy k) : Bdy { k with st := k.st.collate } := hb

/-- from a step boundary, as long as the monitor is not resumed: still a step boundary, the row the
monitor would write and the table are as they were -/
theorem QuietTo.keeps {env : SimEnv} {k k' : SimState} (hq : QuietTo env k k') (hb : Bdy k) :
    Bdy k' ∧ (∀ n, k'.st.mkRow n = k.st.mkRow n) ∧ k'.st.rows = k.st.rows := by
  induction hq with
  | refl k => exact ⟨hb, fun _ => rfl, rfl⟩
  | step k k1 k2 e hp he hs _ ih =>
    obtain ⟨b1, r1, t1⟩ := Bdy.step_other env k k1 hb e hp he hs
    obtain ⟨b2, r2, t2⟩ := ih b1
    exact ⟨b2, fun n => (r2 n).trans (r1 n), t2.trans t1⟩
  | collate k k2 _ ih =>
    obtain ⟨b2, r2, t2⟩ := ih hb.collate
    exact ⟨b2, fun n => (r2 n).trans (mkRow_collate k.st n), t2⟩

/-! ### the monitor's step -/

/-- the monitor's step appends the row of the state it finds, with the number of rows as its
timestep -/
theorem monitor_step_rows (env : SimEnv) (k k' : SimState) (hi : RowsInv k.st) (e : HEntry)
    (hp : k.peek = some e) (he : e.pid = 0) (hs : k.step (simHandler env) = some k') :
    k'.st.rows = k.st.rows ++ [k.st.mkRow k.st.rows.length] := by
  obtain ⟨p, g1, g2, g3, g4, g5⟩ := hi.mon
  rw [step_next _ _ e hp] at hs
  cases hs
  rw [next_st, he]
  rcases simHandler_cases env k.st 0 e.time with ⟨_, hc⟩ | ⟨hc, _, _⟩
  · rw [hc p g1] at g3; cases g3
  · rw [hc, (resume_monitor k.st 0 _ p g1 g3 g2).1, g5, il_natNow_natCast, g4]

/-- no event before instant `rows.length` is pending: a step boundary -/
theorem Bdy.of_instant_begins (env : SimEnv) (s0 : Sys) (hw : WFConfig s0) (k : SimState)
    (h : SimReach env s0 k) (hall : ∀ x ∈ k.heap, ((k.st.rows.length : Nat) : Time) ≤ x.time) : Bdy k := by
  obtain ⟨m, hm, hmp, hmt, huniq⟩ := sim_monitor_entry env s0 hw k h
  apply Bdy.of_monFirst k (h.l3inv hw).mon _ hall
  intro x hx hx0
  rw [huniq x hx hx0, hmt]
  exact Rat.le_refl

/-- **the row of instant `T` is the row of the state in which instant `T` began** -/
theorem sim_row_begin_of_step (env : SimEnv) (s0 : Sys) (hw : WFConfig s0) (kB k k' : SimState)
    (h : SimReach env s0 kB) (hb : Bdy kB) (hq : QuietTo env kB k) (e : HEntry) (hp : k.peek = some e)
    (he : e.pid = 0) (hs : k.step (simHandler env) = some k') :
    k'.st.rows = kB.st.rows ++ [kB.st.mkRow kB.st.rows.length] := by
  obtain ⟨_, r1, t1⟩ := hq.keeps hb
  rw [monitor_step_rows env k k' (sim_rowsInv env s0 hw k (hq.simReach h)) e hp he hs, t1, r1]

/-- where the next event stands: the next event of a process that is not a task body is the
monitor's own wake-up at instant `rows.length`, or belongs to instant `rows.length - 1`, whose row
has been written -/
theorem sim_rows_next (env : SimEnv) (s0 : Sys) (hw : WFConfig s0) (k : SimState) (h : SimReach env s0 k)
    (e : HEntry) (hp : k.peek = some e) (hdw : ¬ k.st.isDW e.pid) :
    (e.pid = 0 ∧ e.time = ((k.st.rows.length : Nat) : Time)) ∨
    (e.pid ≠ 0 ∧ e.time + 1 = ((k.st.rows.length : Nat) : Time)) := by
  obtain ⟨m, hm, hmp, hmt, huniq⟩ := sim_monitor_entry env s0 hw k h
  obtain ⟨m', hm', hmp', hor⟩ := MonFirst.next k (h.l3inv hw).mon e hp hdw
  have : m' = m := huniq m' hm' hmp'
  subst this
  rcases hor with rfl | hor
  · exact Or.inl ⟨hmp', hmt⟩
  · refine Or.inr ⟨?_, by rw [← hmt, hor]⟩
    intro e0
    have := huniq e (peek_spec k e hp).1 e0
    subst this
    have h0 : (0 : Time) < 1 := by decide
    grind

/-- every pending event of a process that is not a task body is at instant `rows.length - 1` (the
instant whose row was written last) or at instant `rows.length`, after the monitor's -/
theorem sim_rows_pending (env : SimEnv) (s0 : Sys) (hw : WFConfig s0) (k : SimState) (h : SimReach env s0 k) :
    ∃ m ∈ k.heap, m.pid = 0 ∧ m.time = ((k.st.rows.length : Nat) : Time) ∧
      ∀ x ∈ k.heap, x ≠ m → ¬ k.st.isDW x.pid →
        (x.time + 1 = ((k.st.rows.length : Nat) : Time) ∨
         (x.time = ((k.st.rows.length : Nat) : Time) ∧ m.lt x = true)) := by
  obtain ⟨m, hm, hmp, hmt, huniq⟩ := sim_monitor_entry env s0 hw k h
  obtain ⟨m', hm', hmp', _, hfirst⟩ := (h.l3inv hw).mon.first
  have : m' = m := huniq m' hm' hmp'
  subst this
  refine ⟨m', hm, hmp, hmt, ?_⟩
  intro x hx hxm hxdw
  rw [← hmt]
  exact hfirst x hx hxm hxdw

end Topsim
