/-
  Reserve6 — batch reservations, one step of a run of BatchProcessing: a workflow task begins only
  on a machine idle in the reservation of its observation; a machine leaves a reservation only
  that way or by release; a finished task returns its machine to the reservation.
-/
import TopsimProofs.Reserve5

namespace Topsim
namespace Sys

open Cluster

/-! ### consequences of the cluster invariant for reservations -/

theorem mem_idleOf_iff {c : Cluster} {m : Mid} {o : Oid} :
    m ∈ c.idleOf (some o) ↔ ∃ l, dictGet c.idle o = some l ∧ m ∈ l := by
  show m ∈ (dictGet c.idle o).getD [] ↔ _
  cases dictGet c.idle o with
  | none => simp
  | some l => simp

theorem idleOf_of_get {c : Cluster} {o : Oid} {l : List Mid} (hg : dictGet c.idle o = some l) :
    c.idleOf (some o) = l := by
  show (dictGet c.idle o).getD [] = l
  rw [hg]; rfl

theorem idle_count_le {c : Cluster} {o : Oid} {l : List Mid} (hg : dictGet c.idle o = some l) (m : Mid) :
    l.count m ≤ c.idleAll.count m := by
  have := dictGet_some_mem hg
  unfold Cluster.idleAll
  apply List.Sublist.count_le
  apply List.sublist_flatten_of_mem
  exact List.mem_map.mpr ⟨_, this, rfl⟩

/-- a machine idle in a reservation is in no pool, in no other reservation, and there once -/
theorem Inv.idle_excl {c : Cluster} {U : List Tid} (h : Inv c U) {o : Oid} {m : Mid}
    (hm : m ∈ c.idleOf (some o)) :
    m ∉ c.available ∧ m ∉ c.ingest ∧ m ∉ c.occupied ∧ (∀ o', o' ≠ o → m ∉ c.idleOf (some o')) ∧
    (c.idleOf (some o)).count m = 1 := by
  obtain ⟨l, hg, hml⟩ := mem_idleOf_iff.mp hm
  have h1 := idle_count_le hg m
  have h2 := h.part m
  have h3 := List.nodup_iff_count.mp h.nodupM m
  have h4 := count_pos_of_mem hml
  refine ⟨fun hx => ?_, fun hx => ?_, fun hx => ?_, fun o' hne hx => ?_, ?_⟩
  · have := count_pos_of_mem hx; omega
  · have := count_pos_of_mem hx; omega
  · have := count_pos_of_mem hx; omega
  · obtain ⟨l', hg', hml'⟩ := mem_idleOf_iff.mp hx
    have h5 := count_flatten_two c.idle o o' l l' m hg hg' (fun e => hne e.symm)
    have h6 := count_pos_of_mem hml'
    simp only [idleAll] at h2
    omega
  · rw [idleOf_of_get hg]; omega

theorem Inv.occupied_of_runOn {c : Cluster} {U : List Tid} (h : Inv c U) {e : RunEntry} (he : e ∈ c.runOn)
    (hi : e.ing = false) : e.mach ∈ c.occupied := by
  have : e.mach ∈ c.runMachines false :=
    List.mem_map.mpr ⟨e, List.mem_filter.mpr ⟨he, by simp [hi]⟩, rfl⟩
  have h1 := count_pos_of_mem this
  rw [h.occ] at h1
  exact List.count_pos_iff.mp h1

theorem Res.not_available {c : Cluster} {U : List Tid} (h : Inv c U) {m : Mid} {o : Oid} (hr : Res c m o) :
    m ∉ c.available := by
  obtain ⟨l, hg, hm⟩ := hr
  rcases hm with hm | ⟨e, he, h1, _, h3⟩
  · exact (Inv.idle_excl h (mem_idleOf_iff.mpr ⟨l, hg, hm⟩)).1
  · intro hx
    have h4 := Inv.occupied_of_runOn h he h3
    rw [h1] at h4
    have h5 := h.part m
    have h6 := List.nodup_iff_count.mp h.nodupM m
    have := count_pos_of_mem hx
    have := count_pos_of_mem h4
    omega

/-! ### the cluster after one step -/

theorem resume_cl_block {s : Sys} {p : Proc} (hp : s.proc? p.pid = some p) (ha : p.alive = true) (orc : Oracle) :
    (s.resume p.pid orc).1.cl = (s.block p orc).1.cl :=
  (resume_core s p.pid orc p hp ha).cl

/-- idle map and polling entries after a block that is neither of an allocation process nor of
`allocate_tasks` -/
theorem block_quiet_cl (s : Sys) (p : Proc) (orc : Oracle) (h2 : p.k.tag ≠ "allocTask")
    (h4 : p.k.tag ≠ "allocTasks") (o : Option Oid) :
    (s.block p orc).1.cl.idleOf o = s.cl.idleOf o ∧ (s.block p orc).1.cl.runOn = s.cl.runOn ∧
    (s.block p orc).1.cl.idle = s.cl.idle := by
  obtain ⟨hi, hr⟩ := block_idle_runOn_harmless s p orc h2 h4
  refine ⟨?_, hr, hi⟩
  unfold Cluster.idleOf; rw [hi]

/-! ### (d) a task begins only on a machine idle in the reservation of its observation -/

theorem resume_new_runOn {s0 s : Sys} (hw : WFConfig s0) (hbuf : bufList s0.buf = []) {parts minPer : Nat}
    {split : Option (List (Oid × Nat × Nat))} (halg : s0.alg = .batch parts minPer split) (h : Reach s0 s)
    {pid : Nat} (hen : s.enabled pid) (orc : Oracle) :
    ∀ e ∈ (s.resume pid orc).1.cl.runOn, e ∉ s.cl.runOn → e.ing = false →
      ∃ o c n, e.obs = some o ∧ e.task = .wf o c n ∧ e.mach ∈ s.cl.idleOf (some o) ∧
        e.mach ∉ s.cl.available := by
  have hno : s0.alg ≠ .oracle := by rw [halg]; simp
  have hs := reach_inv s0 s hw (h.toOk hno)
  have hri := reach_ri s0 s hw hbuf halg h
  have hrv := reach_rv s0 s hw hbuf halg h
  have halg' : s.alg = .batch parts minPer split := by rw [reach_alg h]; exact halg
  obtain ⟨U, hU⟩ := hs.ci
  obtain ⟨p, hp, ha, hmin⟩ := hen
  obtain ⟨hpm, hpid⟩ := proc?_some hp
  subst hpid
  intro e he hne hi
  rw [resume_cl_block hp ha orc] at he
  by_cases h2 : p.k.tag = "allocTask"
  · cases hk : p.k with
    | allocTask t m preds obs ing ret =>
      obtain ⟨_, _, _, g4⟩ := allocTask_facts s hs.pw p orc hk
      rcases g4 e he with h1 | ⟨h1, hnr, hok⟩
      · exact absurd h1 hne
      · subst h1
        simp only at hi
        subst hi
        have hpc0 := hU.pc_zero hpm ha hk hnr
        obtain ⟨o, ho, hr⟩ := hrv.pend p hpm ha t m preds obs ret hk hpc0
        subst ho
        have hna := hr.not_available hU.inv
        obtain ⟨c, n, htw⟩ := planTasks_wf hri.pt (hri.st p hpm ha t m preds o ret hk).2
        refine ⟨o, c, n, rfl, htw, ?_, hna⟩
        rcases (allocBegin_spec s.cl t m (some o) false hok).2 with ⟨e1, _⟩ | ⟨_, e2, _⟩ |
          ⟨_, _, o1, l, e3, hg, hml, _⟩
        · simp at e1
        · exact absurd e2 hna
        · injection e3 with e3
          subst e3
          exact mem_idleOf_iff.mpr ⟨l, hg, hml⟩
    | _ => rw [hk] at h2; simp [PK.tag] at h2
  · by_cases h4 : p.k.tag = "allocTasks"
    · cases hk : p.k with
      | allocTasks o sc pa po fn =>
        obtain ⟨E, _, _, _, _, _, hstep, hfin, _⟩ := allocTasks_batch_facts hri halg' p orc hk
        exfalso
        apply hne
        rcases hstep with e1 | e1
        · rw [(hfin e1).1] at he; exact he
        · rw [e1.runOn] at he; exact he
      | _ => rw [hk] at h4; simp [PK.tag] at h4
    · rw [(block_quiet_cl s p orc h2 h4 none).2.1] at he
      exact absurd he hne

/-! ### a finished task returns its machine to the reservation -/

theorem resume_ended_runOn {s0 s : Sys} (hw : WFConfig s0) (hbuf : bufList s0.buf = []) {parts minPer : Nat}
    {split : Option (List (Oid × Nat × Nat))} (halg : s0.alg = .batch parts minPer split) (h : Reach s0 s)
    {pid : Nat} (hen : s.enabled pid) (orc : Oracle) :
    ∀ e ∈ s.cl.runOn, e.ing = false → e ∉ (s.resume pid orc).1.cl.runOn →
      ∃ o, e.obs = some o ∧ e.mach ∈ (s.resume pid orc).1.cl.idleOf (some o) := by
  have hno : s0.alg ≠ .oracle := by rw [halg]; simp
  have hs := reach_inv s0 s hw (h.toOk hno)
  have hri := reach_ri s0 s hw hbuf halg h
  have hrv := reach_rv s0 s hw hbuf halg h
  have halg' : s.alg = .batch parts minPer split := by rw [reach_alg h]; exact halg
  obtain ⟨p, hp, ha, hmin⟩ := hen
  obtain ⟨hpm, hpid⟩ := proc?_some hp
  subst hpid
  intro e he hi hne
  rw [resume_cl_block hp ha orc] at hne ⊢
  by_cases h2 : p.k.tag = "allocTask"
  · cases hk : p.k with
    | allocTask t m preds obs ing ret =>
      have hb : s.block p orc = s.allocTaskBlock p.wake t m preds obs ing ret := by
        unfold block; simp only [hk]
      rw [hb] at hne ⊢
      rcases allocTaskBlock_cases s hs.pw p.wake t m preds obs ing ret with
        ⟨_, e1, he1, heq⟩ | ⟨_, hok, heq⟩ | ⟨_, _, heq⟩ | ⟨_, _, e1, he1, heq⟩ | ⟨_, _, hok, heq⟩ <;>
        rw [heq] at hne ⊢
      · exfalso; apply hne
        show e ∈ (s.cl.allocBegin t m obs ing).1.runOn
        rw [allocBegin_err_unchanged s.cl t m obs ing e1 he1]; exact he
      · exfalso; apply hne
        show e ∈ (s.cl.allocBegin t m obs ing).1.runOn
        rw [(allocBegin_fields s.cl t m obs ing hok).1]; exact List.mem_append_left _ he
      · exact absurd he hne
      · exfalso; apply hne
        show e ∈ (s.cl.allocEnd t m obs ing).1.runOn
        rw [(allocEnd_err s.cl t m obs ing e1 he1).2.1]; exact he
      · have hne' : e ∉ (s.cl.allocEnd t m obs ing).1.runOn := hne
        obtain ⟨hr, hcase⟩ := allocEnd_spec s.cl t m obs ing hok
        rw [hr] at hne'
        have hex : e = ⟨t, m, obs, ing⟩ := by
          apply Classical.byContradiction
          intro hx
          exact hne' ((List.mem_erase_of_ne hx).mpr he)
        subst hex
        simp only at hi
        subst hi
        obtain ⟨o, ho, l0, hl0⟩ := hrv.ro _ he rfl
        simp only at ho
        subst ho
        refine ⟨o, rfl, ?_⟩
        show m ∈ (s.cl.allocEnd t m (some o) false).1.idleOf (some o)
        rcases hcase with ⟨e1, _⟩ | ⟨_, o1, l, e3, hg, hidle, _⟩ | ⟨_, hnone, _⟩
        · simp at e1
        · injection e3 with e3
          subst e3
          refine mem_idleOf_iff.mpr ⟨l ++ [m], ?_, by simp⟩
          rw [hidle, dictGet_dictSet, if_pos rfl]
        · rw [hnone o rfl] at hl0; exact absurd hl0 (by simp)
    | _ => rw [hk] at h2; simp [PK.tag] at h2
  · by_cases h4 : p.k.tag = "allocTasks"
    · cases hk : p.k with
      | allocTasks o sc pa po fn =>
        obtain ⟨E, _, _, _, _, _, hstep, hfin, _⟩ := allocTasks_batch_facts hri halg' p orc hk
        exfalso
        apply hne
        rcases hstep with e1 | e1
        · rw [(hfin e1).1]; exact he
        · rw [e1.runOn]; exact he
      | _ => rw [hk] at h4; simp [PK.tag] at h4
    · rw [(block_quiet_cl s p orc h2 h4 none).2.1] at hne
      exact absurd he hne

/-! ### (e) a reserved machine leaves its reservation only to a task of that observation, or by release -/

theorem hasRes_of_release {c : Cluster} {oid o : Oid} (h : HasRes (c.releaseBatch oid) o) : HasRes c o := by
  by_cases hne : o = oid
  · subst hne
    cases hg : dictGet c.idle o with
    | none => rw [releaseBatch_none c o hg] at h; exact h
    | some l => exact ⟨l, hg⟩
  · obtain ⟨l, hl⟩ := h
    rw [releaseBatch_get_ne c oid o hne] at hl
    exact ⟨l, hl⟩

theorem resume_leaves_reservation {s0 s : Sys} (hw : WFConfig s0) (hbuf : bufList s0.buf = [])
    {parts minPer : Nat} {split : Option (List (Oid × Nat × Nat))} (halg : s0.alg = .batch parts minPer split)
    (h : Reach s0 s) {pid : Nat} (hen : s.enabled pid) (orc : Oracle) (o : Oid) (m : Mid)
    (hm : m ∈ s.cl.idleOf (some o)) (hgone : m ∉ (s.resume pid orc).1.cl.idleOf (some o)) :
    (∃ e ∈ (s.resume pid orc).1.cl.runOn, e ∉ s.cl.runOn ∧ e.mach = m ∧ e.obs = some o ∧ e.ing = false) ∨
    (¬ HasRes (s.resume pid orc).1.cl o ∧ ∀ m' ∈ s.cl.idleOf (some o), m' ∈ (s.resume pid orc).1.cl.available) := by
  have hno : s0.alg ≠ .oracle := by rw [halg]; simp
  have hs := reach_inv s0 s hw (h.toOk hno)
  have hri := reach_ri s0 s hw hbuf halg h
  have halg' : s.alg = .batch parts minPer split := by rw [reach_alg h]; exact halg
  obtain ⟨U, hU⟩ := hs.ci
  obtain ⟨p, hp, ha, hmin⟩ := hen
  obtain ⟨hpm, hpid⟩ := proc?_some hp
  subst hpid
  rw [resume_cl_block hp ha orc] at hgone ⊢
  obtain ⟨l, hg, hml⟩ := mem_idleOf_iff.mp hm
  -- an idle map that still has the list of `o` keeps `m`
  have hsameIdle : ∀ c' : Cluster, dictGet c'.idle o = some l → m ∈ c'.idleOf (some o) :=
    fun c' h' => mem_idleOf_iff.mpr ⟨l, h', hml⟩
  by_cases h2 : p.k.tag = "allocTask"
  · cases hk : p.k with
    | allocTask t m1 preds obs ing ret =>
      have hb : s.block p orc = s.allocTaskBlock p.wake t m1 preds obs ing ret := by
        unfold block; simp only [hk]
      rw [hb] at hgone ⊢
      rcases allocTaskBlock_cases s hs.pw p.wake t m1 preds obs ing ret with
        ⟨_, e1, he1, heq⟩ | ⟨hnr, hok, heq⟩ | ⟨_, _, heq⟩ | ⟨_, _, e1, he1, heq⟩ | ⟨_, _, hok, heq⟩ <;>
        rw [heq] at hgone ⊢
      · exfalso; apply hgone
        apply hsameIdle
        show dictGet (s.cl.allocBegin t m1 obs ing).1.idle o = some l
        rw [allocBegin_err_unchanged s.cl t m1 obs ing e1 he1]; exact hg
      · have hgone' : m ∉ (s.cl.allocBegin t m1 obs ing).1.idleOf (some o) := hgone
        obtain ⟨hr, hcase⟩ := allocBegin_spec s.cl t m1 obs ing hok
        rcases hcase with ⟨_, hi, _⟩ | ⟨_, _, hi, _⟩ | ⟨hing, _, o1, l1, hobs, hg1, hml1, hi, _⟩
        · exact absurd (hsameIdle _ (by rw [hi]; exact hg)) hgone'
        · exact absurd (hsameIdle _ (by rw [hi]; exact hg)) hgone'
        · by_cases e1 : o1 = o
          · subst e1
            rw [hg] at hg1
            injection hg1 with hg1
            subst hg1
            have hmm : m = m1 := by
              apply Classical.byContradiction
              intro hx
              apply hgone'
              refine mem_idleOf_iff.mpr ⟨l.erase m1, by rw [hi, dictGet_dictSet, if_pos rfl], ?_⟩
              exact (List.mem_erase_of_ne hx).mpr hml
            subst hmm
            left
            refine ⟨⟨t, m, obs, ing⟩, ?_, ?_, rfl, hobs, hing⟩
            · show _ ∈ (s.cl.allocBegin t m obs ing).1.runOn
              rw [hr]; simp
            · intro hin
              apply hnr
              rw [← hU.inv.runOnTasks]
              exact List.mem_map_of_mem (f := (·.task)) hin
          · exact absurd (hsameIdle _ (by rw [hi, dictGet_dictSet, if_neg e1]; exact hg)) hgone'
      · exact absurd hm hgone
      · exfalso; apply hgone
        apply hsameIdle
        show dictGet (s.cl.allocEnd t m1 obs ing).1.idle o = some l
        rw [(allocEnd_err s.cl t m1 obs ing e1 he1).1]; exact hg
      · have hgone' : m ∉ (s.cl.allocEnd t m1 obs ing).1.idleOf (some o) := hgone
        obtain ⟨_, hcase⟩ := allocEnd_spec s.cl t m1 obs ing hok
        rcases hcase with ⟨_, hi, _⟩ | ⟨_, o1, l1, _, hg1, hi, _⟩ | ⟨_, _, hi, _⟩
        · exact absurd (hsameIdle _ (by rw [hi]; exact hg)) hgone'
        · by_cases e1 : o1 = o
          · subst e1
            rw [hg] at hg1
            injection hg1 with hg1
            subst hg1
            exfalso; apply hgone'
            exact mem_idleOf_iff.mpr ⟨l ++ [m1], by rw [hi, dictGet_dictSet, if_pos rfl],
              List.mem_append_left _ hml⟩
          · exact absurd (hsameIdle _ (by rw [hi, dictGet_dictSet, if_neg e1]; exact hg)) hgone'
        · exact absurd (hsameIdle _ (by rw [hi]; exact hg)) hgone'
    | _ => rw [hk] at h2; simp [PK.tag] at h2
  · by_cases h4 : p.k.tag = "allocTasks"
    · cases hk : p.k with
      | allocTasks oid sc pa po fn =>
        obtain ⟨E, _, _, _, _, _, hstep, hfin, _⟩ := allocTasks_batch_facts hri halg' p orc hk
        rcases hstep with e1 | hrs
        · rw [(hfin e1).1] at hgone; exact absurd hm hgone
        · by_cases hne : o = oid
          · subst hne
            obtain ⟨c1, h1, h2'⟩ := hrs
            have e1 : c1 = s.cl := by
              rcases h1 with e | ⟨hnp, _⟩
              · exact e
              · unfold Cluster.isProvisioned dictHas at hnp
                rw [hg] at hnp; simp at hnp
            subst e1
            have hlne : l ≠ [] := by intro e; rw [e] at hml; simp at hml
            obtain ⟨r1, r2, _⟩ := releaseBatch_returns s.cl o l hg hlne hU.inv.keys
            have hnone : dictGet (s.cl.releaseBatch o).idle o = none := by
              unfold dictHas at r2
              cases hx : dictGet (s.cl.releaseBatch o).idle o with
              | none => rfl
              | some v => rw [hx] at r2; simp at r2
            rcases h2' with e | ⟨_, e | e⟩
            · rw [e] at hgone; exact absurd hm hgone
            · right
              rw [e]
              refine ⟨fun ⟨l', hl'⟩ => by rw [hnone] at hl'; exact absurd hl' (by simp), ?_⟩
              intro m' hm'
              rw [idleOf_of_get hg] at hm'
              rw [r1]; exact List.mem_append_right _ hm'
            · right
              rw [e, releaseBatch_none _ o hnone]
              refine ⟨fun ⟨l', hl'⟩ => by rw [hnone] at hl'; exact absurd hl' (by simp), ?_⟩
              intro m' hm'
              rw [idleOf_of_get hg] at hm'
              rw [r1]; exact List.mem_append_right _ hm'
          · exfalso; apply hgone
            apply hsameIdle
            rw [(hrs.sameO o hne).1]; exact hg
      | _ => rw [hk] at h4; simp [PK.tag] at h4
    · rw [(block_quiet_cl s p orc h2 h4 (some o)).1] at hgone
      exact absurd hm hgone

end Sys
end Topsim
