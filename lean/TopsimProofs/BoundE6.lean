/-
  BoundE6 — C05, the numeric clause under a delay model for the plan-following algorithms: along the
  run, and the bound.  BoundP5 (ingest-side deadline) and BoundP6f (the invariant of the workflow-task
  workers at every index) with the delayed weight `boundEP_V` / deadline `boundEP_LV`; reused: whole-instant
  wakes (BoundP3), idle states (BoundP7 / BoundP7b), persistence of enabled pollers (BoundP8) —
  transferred to the delayed weight because the two weights change at the same steps
  (`boundEP_v_lt_of_lt`, `boundEP_v_eq_of_eq`); the assembly is BoundE1's.
-/
import TopsimProofs.BoundE5

namespace Topsim

open KState Sys

section
variable {env : SimEnv} {s0 : Sys}

theorem boundEP_v_mono (C : LivePCfg env s0) (K : LiveKernel env s0) {n m : Nat} (h : n ≤ m) :
    boundEP_V env s0 (simAt env s0 n).st ≤ boundEP_V env s0 (simAt env s0 m).st :=
  boundEP_v_mono_of (boundP_run_mono C K h)

theorem boundEP_lv_mono (C : LivePCfg env s0) (K : LiveKernel env s0) {n m : Nat} (h : n ≤ m) :
    boundEP_LV env s0 n ≤ boundEP_LV env s0 m := by
  unfold boundEP_LV
  have := boundEP_v_mono C K h
  exact_mod_cast Nat.add_le_add_left this _

/-- every recorded start is pre-paid: `ast + duration + 1 ≤ latest + V` -/
theorem boundEP_ti_ast (C : LivePCfg env s0) (K : LiveKernel env s0) (n : Nat)
    (hprev : ∀ j, j < n → boundTau env s0 j ≤ boundEP_LV env s0 j) :
    ∀ o ob a, (simAt env s0 n).st.obs? o = some ob → ob.ast = some a →
      (((a + ob.duration + 1 : Nat) : Nat) : Time) ≤ boundEP_LV env s0 n := by
  induction n with
  | zero =>
    intro o ob a hob hast
    exfalso
    have hst : (simAt env s0 0).st = s0.start := rfl
    rw [hst] at hob
    have hm := (obs_mem_of_obs? hob).1
    rw [start_obs s0] at hm
    rw [(C.hw.obsWaiting ob hm).2.1] at hast
    cases hast
  | succ n ih =>
    intro o ob' a hob' hast'
    have ih' := ih (fun j hj => hprev j (by omega))
    obtain ⟨e, p, hpk, hpp, ha, het, hen, _, hst⟩ := live_step_P C K n
    have hinv := (K.reach n).l3inv C.hw
    have hA := sim_otAst env s0 C.hw _ (K.reach n)
    obtain ⟨p', hp', _, hmin⟩ := hen
    rw [hpp] at hp'; cases hp'
    obtain ⟨hpm, _⟩ := proc?_some hpp
    have hmono := boundEP_lv_mono C K (Nat.le_succ n)
    have hob'' := hob'
    rw [hst] at hob''
    obtain ⟨ob, hob, hor⟩ := ot_step_ast hinv.ti hpp ha (env.oracle (simAt env s0 n).st) o ob' hob''
    have hdur : ob'.duration = ob.duration := by
      obtain ⟨ob0, hob0, hs⟩ := (ot_resume_keep _ _ _ p hpp ha).bwd hob''
      rw [hob] at hob0; cases hob0
      exact (ot_stat_fields hs).2.2.1
    cases hast : ob.ast with
    | some a0 =>
      obtain ⟨ob2, hob2, hast2, _⟩ := ot_ast_persist hinv.sinv hinv.ti hA hpp ha hmin
        (env.oracle (simAt env s0 n).st) hob hast
      rw [hob''] at hob2; cases hob2
      rw [hast'] at hast2; cases hast2
      rw [hdur]
      exact Rat.le_trans (ih' o ob a hob hast) hmono
    | none =>
      rcases hor with e1 | ⟨hk, _, e1⟩
      · rw [hast', hast] at e1; cases e1
      · obtain ⟨m, hwm⟩ := hinv.heap.telInt p hpm hk
        rw [hast', hwm, natNow_natCast] at e1
        cases e1
        have htau : boundTau env s0 n = ((a : Nat) : Time) := by rw [bound_wk_tau hpk, het, hwm]
        have hclock := hprev n (Nat.lt_succ_self n)
        rw [htau] at hclock
        obtain ⟨hom, hoid⟩ := obs_mem_of_obs? hob
        obtain ⟨o0, ho0, hid0, hd0⟩ := boundP_ti_obs0 C n hom
        have hno : ¬ Sys.PAst o0.id (simAt env s0 n).st := by
          rintro ⟨ob2, a2, hob2, hast2⟩
          rw [hid0, hoid, hob] at hob2; cases hob2
          rw [hast] at hast2; cases hast2
        have hyes : Sys.PAst o0.id (simAt env s0 (n + 1)).st :=
          ⟨ob', a, by rw [hid0, hoid]; exact hob', hast'⟩
        have hadd : boundEP_V env s0 (simAt env s0 n).st + (o0.duration + 1) ≤
            boundEP_V env s0 (simAt env s0 (n + 1)).st :=
          boundEP_v_add_ast (env := env) (boundP_run_mono C K (Nat.le_succ n)) ho0 hno hyes
        unfold boundEP_LV at hclock ⊢
        rw [hdur, ← hd0]
        have h1 : a ≤ boundLatest s0 + boundEP_V env s0 (simAt env s0 n).st := by exact_mod_cast hclock
        exact_mod_cast (by omega :
          a + o0.duration + 1 ≤ boundLatest s0 + boundEP_V env s0 (simAt env s0 (n + 1)).st)

/-! ### the lemma -/

/-- **Timed liveness of the ingest-side workers.**  If the clock was within `latest + V` at every
earlier index, every live ingest-side worker is due (and so ends) before `latest + V`. -/
theorem boundEP_tl_ingest {env : SimEnv} {s0 : Sys} (C : LivePCfg env s0) (K : LiveKernel env s0) (n : Nat)
    (hprev : ∀ j, j < n → boundTau env s0 j ≤ boundEP_LV env s0 j) :
    ∀ q ∈ (simAt env s0 n).st.procs, q.alive = true → q.BoundIngestWorker →
      q.wake + 1 ≤ boundEP_LV env s0 n := by
  intro q hq hqa hw
  have hinv := (K.reach n).l3inv C.hw
  have hB := boundP_ti_inv C K n
  have hacc := boundEP_ti_ast C K n hprev
  have hsup := sim_supTl env s0 C.hw _ (K.reach n)
  have hti := hinv.ti
  have hsinv := hinv.sinv
  have hpw := hsinv.pw
  have hclose : ∀ {o : Oid} {ob : Obs} {a : Nat}, (simAt env s0 n).st.obs? o = some ob → ob.ast = some a →
      q.wake + 1 ≤ (((a + ob.duration + 1 : Nat) : Nat) : Time) → q.wake + 1 ≤ boundEP_LV env s0 n :=
    fun hob hast hle => Rat.le_trans hle (hacc _ _ _ hob hast)
  have hdur : ∀ {o : Oid} {ob : Obs}, (simAt env s0 n).st.obs? o = some ob → 1 ≤ ob.duration :=
    fun hob => hti.durPos _ (obs_mem_of_obs? hob).1
  rcases hw with ht | ht | ht | ⟨t, m, preds, obs, ing, ret, hk, hi⟩ | ⟨t, m, preds, ph, tot, hk, hi⟩
  · -- the supervisor
    cases hk : q.k with
    | allocIngest o tl =>
      by_cases hpc : q.pc = 0
      · obtain ⟨a, ob, hwn, hob, hast, _⟩ := hti.aiNew q hq o tl hk hpc
        have := hdur hob
        exact hclose hob hast (bound_ti_le_step (by rw [hwn]; exact Rat.le_refl) (by omega))
      · obtain ⟨ob, a, j, hob, hast, hj, hwn, htl⟩ := hti.aiRun q hq hqa (by omega) o tl hk
        have h0 := hsup q hq hqa (by omega) o tl hk
        exact hclose hob hast (bound_ti_le_step (by rw [hwn]; exact Rat.le_refl) (by omega))
    | _ => rw [hk] at ht; simp [PK.tag] at ht
  · -- the provisioning process
    cases hk : q.k with
    | provIngest o d =>
      by_cases hpc : q.pc = 0
      · obtain ⟨ob, a, hob, hast, hwn⟩ := hti.piW q hq hqa hpc o d hk
        have := hdur hob
        exact hclose hob hast (bound_ti_le_step (by rw [hwn]; exact Rat.le_refl) (by omega))
      · obtain ⟨ob, a, hob, hast, hwn⟩ := hB.pi q hq hqa (by omega) o d hk
        have := hdur hob
        exact hclose hob hast (bound_ti_le_step (by rw [hwn]; exact Rat.le_refl) (by omega))
    | _ => rw [hk] at ht; simp [PK.tag] at ht
  · -- the stream
    cases hk : q.k with
    | ingestStream o tl =>
      by_cases hpc : q.pc = 0
      · obtain ⟨ob, a, hob, hast, hwn⟩ := hB.is0 q hq hqa hpc o tl hk
        have := hdur hob
        exact hclose hob hast (bound_ti_le_step (by rw [hwn]; exact Rat.le_refl) (by omega))
      · obtain ⟨ob, a, j, hob, hast, hwn, h0, hle⟩ := hB.is1 q hq hqa (by omega) o tl hk
        exact hclose hob hast (bound_ti_le_step (by rw [hwn]; exact Rat.le_refl) (by omega))
    | _ => rw [hk] at ht; simp [PK.tag] at ht
  · -- the allocation process of an ingest task
    obtain ⟨hing, o, hobs⟩ := hB.atI q hq t m preds obs ing ret hk hi
    subst hing hobs
    by_cases hpc : q.pc = 0
    · obtain ⟨_, _, ob, a, hob, hast, hwn⟩ := hti.atPend q hq hqa hpc t m preds o ret hk
      have := hdur hob
      exact hclose hob hast (bound_ti_le_step (by rw [hwn]; exact Rat.le_refl) (by omega))
    · obtain ⟨_, r, hr, _, hqw, ph, tot, _, _, ob, a, b, hob, hast, hrw, _, hbd, _⟩ :=
        hti.atRun q hq hqa (by omega) t m preds o ret hk
      have h1 : q.wake ≤ (((b + 1 : Nat) : Nat) : Time) := by
        rw [← lcCast_succ, ← hrw]; exact hqw
      exact hclose hob hast (bound_ti_le_step h1 (by omega))
  · -- the body of an ingest task
    obtain ⟨al, hal, hala, halpc, preds', obs, ing, halk⟩ := hsinv.dg.dwAlloc q hq hqa t m preds ph tot hk
    obtain ⟨hing, o, hobs⟩ := hB.atI al hal t m preds' obs ing q.pid halk hi
    subst hing hobs
    obtain ⟨_, r, hr, hrpid, _, ph', tot', _, _, ob, a, b, hob, hast, hrw, _, hbd, _⟩ :=
      hti.atRun al hal hala halpc t m preds' o q.pid halk
    have hrq : r = q := hpw.eq_of_pid hr hq hrpid
    subst hrq
    exact hclose hob hast (bound_ti_le_step (by rw [hrw]; exact Rat.le_refl) (by omega))

/-- the setting of the step at index `n` -/
theorem boundEP_tw_step_at (C : LivePCfg env s0) (K : LiveKernel env s0) (n : Nat) :
    ∃ e p new, (simAt env s0 n).peek = some e ∧ (simAt env s0 n).st.proc? e.pid = some p ∧
      e.time = p.wake ∧
      BoundEPTwStep env s0 (simAt env s0 n).st (simAt env s0 (n + 1)).st p new := by
  obtain ⟨e, p, hpk, hpp, hpid, hstep⟩ := l7_step_P C K n
  obtain ⟨e', p', hpk', hpp', _, het, _⟩ := live_step_P C K n
  rw [hpk] at hpk'
  cases hpk'
  rw [hpp] at hpp'
  cases hpp'
  obtain ⟨new, hnew, hnp⟩ := Sys.block_newp (simAt env s0 n).st p (env.oracle (simAt env s0 n).st)
  refine ⟨e, p, new, hpk, hpp, het, ?_⟩
  exact
    { X := boundP_tw_ctx C K n
      X' := boundP_tw_ctx C K (n + 1)
      step := hstep
      hnew := hnew
      hnp := hnp
      hE := boundE_tw_dur C K n
      aft := by
        intro d hd hdd t m preds ph tot hdk r hr
        exact live_aft_stable_P C K ((live_sinv_P C K n).pw.proc?_of_mem hd) hdk hdd hr (n + 1) (Nat.le_succ n) }

/-- an allocation process created at index `n` meets the deadline of index `n + 1` -/
theorem boundEP_tw_new_at_le (C : LivePCfg env s0) (K : LiveKernel env s0) (n : Nat) {e : HEntry} {p : Proc}
    {new : List Proc} (hpk : (simAt env s0 n).peek = some e)
    (het : e.time = p.wake)
    (S : BoundEPTwStep env s0 (simAt env s0 n).st (simAt env s0 (n + 1)).st p new)
    (hT : boundTau env s0 n ≤ boundEP_LV env s0 n)
    {o sc pa po fn} (hk : p.k = .allocTasks o sc pa po fn) {q : Proc} (hq : q ∈ new)
    {t m preds obs ing ret} (hqk : q.k = .allocTask t m preds obs ing ret) :
    q.wake + ((bound_tw_W s0 t : Nat) : Time) + ((boundEP_tw_R env s0 t : Nat) : Time) + 1 ≤ boundEP_LV env s0 (n + 1) := by
  obtain ⟨ob, hob, hoid, node, hnode, hn, c, m', preds', hqk'⟩ :=
    Sys.boundP_tw_spawn_named (l7_lib_P C K n) (l7_lib_P C K (n + 1)) (live_l7a_P C K (n + 1)) (live_planI_P C K (n + 1)) S.step hk
      S.hnew hq
  rw [hqk'] at hqk
  cases hqk
  subst hoid
  have hy : Sys.PAT ob.id node (simAt env s0 (n + 1)).st :=
    ⟨q, (S.mem q).mpr (Or.inr (Or.inr hq)), c, m, preds, some ob.id, false, 0, hqk'⟩
  have hV := boundEP_v_add_at (env := env) (boundP_run_mono C K (show n ≤ n + 1 by omega)) hob hnode hn hy
  have hobs := obs?_of_mem C.hw.obsNodup hob
  rw [bound_tw_W_wf hobs, boundEP_tw_R_wf hobs]
  obtain ⟨_, _, hwk, _⟩ := S.hnp q hq
  rw [hk] at hwk
  simp only [reduceCtorEq, if_false] at hwk
  have htau : boundTau env s0 n = p.wake := by rw [bound_wk_tau hpk, het]
  rw [hwk, ← htau]
  unfold boundEP_LV at hT ⊢
  unfold boundEP_WAT at hV
  have h3 : ((boundLatest s0 + boundEP_V env s0 (simAt env s0 n).st +
      (boundEP_Rt env s0 ob node + boundWait s0 ob node + 1) : Nat) : Rat) ≤
      ((boundLatest s0 + boundEP_V env s0 (simAt env s0 (n + 1)).st : Nat) : Rat) := by
    exact_mod_cast (by omega : boundLatest s0 + boundEP_V env s0 (simAt env s0 n).st +
      (boundEP_Rt env s0 ob node + boundWait s0 ob node + 1) ≤ boundLatest s0 + boundEP_V env s0 (simAt env s0 (n + 1)).st)
  push_cast at h3 hT ⊢
  grind

/-- no worker in the initial state -/
theorem boundEP_tw_zero (C : LivePCfg env s0) (B : Time) : BoundEPTw env s0 (simAt env s0 0).st B := by
  obtain ⟨hprocs, hnp, _⟩ := C.hw.fresh
  have hst : (simAt env s0 0).st = s0.start := rfl
  have hp : s0.start.procs =
      [{ pid := 0, k := .monitor, wake := 0 }, { pid := 1, k := .telescope, wake := 0 },
       { pid := 2, k := .clusterLoop, wake := 0 }, { pid := 3, k := .schedLoop, wake := 0 },
       { pid := 4, k := .bufferLoop, wake := 0 }] := by
    simp [Sys.start, Sys.spawn, hprocs, hnp]
  rw [hst]
  constructor
  · intro d hd _ t m preds ph tot hk
    rw [hp] at hd
    simp only [List.mem_cons, List.not_mem_nil, or_false] at hd
    rcases hd with rfl | rfl | rfl | rfl | rfl <;> simp at hk
  · intro d hd _ t m preds obs ing ret hk
    rw [hp] at hd
    simp only [List.mem_cons, List.not_mem_nil, or_false] at hd
    rcases hd with rfl | rfl | rfl | rfl | rfl <;> simp at hk
  · intro d hd _ t m preds obs ing ret hk
    rw [hp] at hd
    simp only [List.mem_cons, List.not_mem_nil, or_false] at hd
    rcases hd with rfl | rfl | rfl | rfl | rfl <;> simp at hk

/-- the invariant at every index, with the deadline `latest + V` of that index -/
theorem boundEP_tw_inv (C : LivePCfg env s0) (K : LiveKernel env s0) (n : Nat)
    (hprev : ∀ j, j < n → boundTau env s0 j ≤ boundEP_LV env s0 j) :
    BoundEPTw env s0 (simAt env s0 n).st (boundEP_LV env s0 n) := by
  induction n with
  | zero => exact boundEP_tw_zero C _
  | succ n ih =>
    have h0 := (ih (fun j hj => hprev j (by omega))).mono (boundEP_lv_mono C K (Nat.le_succ n))
    obtain ⟨e, p, new, hpk, hpp, het, S⟩ := boundEP_tw_step_at C K n
    refine boundEP_tw_step S h0 ?_
    intro o sc pa po fn hk q hq t m preds obs ing ret hqk _
    exact boundEP_tw_new_at_le C K n hpk het S (hprev n (Nat.lt_succ_self n)) hk hq hqk

/-- **Timed liveness of the workers of the workflow tasks.**  With no delay model, if the clock was
within `latest + V` at every earlier index, every live allocation process / body of a task that is
not an ingest task is due, and so ends, before `latest + V`. -/
theorem boundEP_tl_wf {env : SimEnv} {s0 : Sys} (C : LivePCfg env s0) (K : LiveKernel env s0) (n : Nat)
    (hprev : ∀ j, j < n → boundTau env s0 j ≤ boundEP_LV env s0 j) :
    ∀ q ∈ (simAt env s0 n).st.procs, q.alive = true → q.BoundWfWorker →
      q.wake + 1 ≤ boundEP_LV env s0 n := by
  have h := boundEP_tw_inv C K n hprev
  have X := boundP_tw_ctx C K n
  intro q hq hqa hw
  rcases hw with ⟨t, m, preds, obs, ing, ret, hk, hti⟩ | ⟨t, m, preds, ph, tot, hk, hti⟩
  · -- an allocation process
    have hR : (0 : Time) ≤ ((boundEP_tw_R env s0 t : Nat) : Time) := Rat.natCast_nonneg
    have hW : (0 : Time) ≤ ((bound_tw_W s0 t : Nat) : Time) := Rat.natCast_nonneg
    by_cases hpc : q.pc = 0
    · have := h.at0 q hq hqa t m preds obs ing ret hk hti hpc
      grind
    · have hpc1 : 1 ≤ q.pc := by omega
      obtain ⟨d, hd, hdp, m', preds', ph, tot, hdk⟩ := (X.fi.ok q hq).atRet _ _ _ _ _ _ hk hpc1
      obtain ⟨g1, g2⟩ := h.at1 q hq hqa t m preds obs ing ret hk hti hpc1 d hd hdp
      cases hda : d.alive with
      | true =>
        have h1 := g1 hda
        have h2 := h.dw_two X hd hda hdk hti
        grind
      | false =>
        obtain ⟨r, f, _, _, hlt, hle⟩ := g2 hda
        obtain ⟨mq, hmq, _⟩ := boundP_wk_Q_all C K n q hq hqa (by rw [hk]; simp [PK.tag])
        rw [hmq] at hlt ⊢
        unfold boundEP_LV at hle ⊢
        have h3 : ((mq : Nat) : Rat) < ((boundLatest s0 + boundEP_V env s0 (simAt env s0 n).st : Nat) : Rat) := by
          grind
        have h4 : mq < boundLatest s0 + boundEP_V env s0 (simAt env s0 n).st := by exact_mod_cast h3
        have h5 : mq + 1 ≤ boundLatest s0 + boundEP_V env s0 (simAt env s0 n).st := h4
        exact_mod_cast h5
  · -- a body
    have := h.dw_two X hq hqa hk hti
    grind


/-- all the parts, plan-following algorithms, any delay environment -/
theorem boundEP_asm (C : LivePCfg env s0) (K : LiveKernel env s0) :
    BoundEAsm env s0 Sys.BoundEn (boundEP_V env s0) where
  en_alive := fun _ _ h => h.1
  step_facts := fun n => boundP_step_facts C K n
  wk_mono := fun n => boundP_wk_mono C K n
  start_wake := boundP_wk_start_procs C
  wake_nat := fun n => boundP_wake_nat C K n
  tl := by
    intro n hprev q hq ha hw
    rcases bound_worker_split hw with h | h
    · exact boundEP_tl_ingest C K n hprev q hq ha h
    · exact boundEP_tl_wf C K n hprev q hq ha h
  idle_enabled := fun n hq hnf => boundP_idle_enabled C K n hq hnf
  enabled_fires := fun n _ _ hpk hpp hen hq hdue =>
    boundEP_v_lt_of_lt (boundP_run_mono C K (Nat.le_succ n)) (boundP_enabled_fires C K n hpk hpp hen hq hdue)
  enabled_persists := fun n _ _ hpk hp hne hen _ hV =>
    boundP_enabled_persists C K n hpk hp hne hen
      (boundEP_v_eq_of_eq (boundP_run_mono C K (Nat.le_succ n)) hV)
  v_mono := fun n => boundEP_v_mono C K (Nat.le_succ n)

/-- the accounting invariant, plan-following algorithms, any delay environment -/
theorem boundEP_inv_all (C : LivePCfg env s0) (K : LiveKernel env s0) (n : Nat)
    (hnf : ∀ j, j ≤ n → (simAt env s0 j).st.isFinished = false) :
    boundTau env s0 n ≤ boundEP_LV env s0 n :=
  (boundE_inv_all (boundEP_asm C K) n hnf).le

/-- **The delayed plan bound, run level**: for any delay environment the first index at which the run
is at `is_finished()` has its clock within `boundEP_serial env s0`. -/
theorem boundEP_plan_clock (N : NcPCfg env s0) :
    ∃ n, (simAt env s0 n).st.isFinished = true ∧ (simAt env s0 n).st.crashed = none ∧
      SimRun env s0 (simAt env s0 n) ∧
      boundClock env s0 n ≤ ((boundEP_serial env s0 : Nat) : Time) := by
  have C : LivePCfg env s0 := N.toLive (live_noRaise_P N)
  have K := liveKernel_P C N.hh0
  obtain ⟨n0, h0, _⟩ := live_terminates_noRaise_P C N.hh0
  obtain ⟨n, hfin, hclk⟩ := boundE_of_parts_gen (boundEP_asm C K) ⟨n0, h0⟩
    (boundEP_serial env s0)
    (fun n => by
      have h1 := boundEP_v_le_total env s0 (simAt env s0 n).st
      have h2 := boundEP_total_le_serial env s0 C.topo
      omega)
  exact ⟨n, hfin, C.nr n, (K.run n).1, hclk⟩

/-- the same with the sharper number `latest + boundEP_VTotal` -/
theorem boundEP_plan_clock_sharp (N : NcPCfg env s0) :
    ∃ n, (simAt env s0 n).st.isFinished = true ∧ (simAt env s0 n).st.crashed = none ∧
      SimRun env s0 (simAt env s0 n) ∧
      boundClock env s0 n ≤ ((boundLatest s0 + boundEP_VTotal env s0 : Nat) : Time) := by
  have C : LivePCfg env s0 := N.toLive (live_noRaise_P N)
  have K := liveKernel_P C N.hh0
  obtain ⟨n0, h0, _⟩ := live_terminates_noRaise_P C N.hh0
  obtain ⟨n, hfin, hclk⟩ := boundE_of_parts_gen (boundEP_asm C K) ⟨n0, h0⟩
    (boundLatest s0 + boundEP_VTotal env s0)
    (fun n => Nat.add_le_add_left (boundEP_v_le_total env s0 (simAt env s0 n).st) _)
  exact ⟨n, hfin, C.nr n, (K.run n).1, hclk⟩

end

end Topsim
