/-
  PlanFollow3 — plan-following scheduling, one step of a run: the plan fields of every record are
  kept (no migration), and an allocation process is created only for a task whose planned machine
  is in the available pool at that moment (a task whose planned machine is busy waits).
-/
import TopsimProofs.PlanFollow2

namespace Topsim
namespace Sys

open Cluster

/-- the machine table of the configuration never changes -/
theorem reach_sys_machines {s0 s : Sys} (h : Reach s0 s) : s.machines = s0.machines := by
  induction h with
  | start => simp [start, spawn]
  | step s pid orc _ _ ih => rw [resume_machs]; exact ih

/-- one step of a run of DynamicSchedulingFromPlan keeps the plan fields of every record -/
theorem resume_planKeep {s : Sys} (h : PF s) (hs : SInv s) (halg : s.alg = .dynamic) {pid : Nat}
    (hen : s.enabled pid) (orc : Oracle) : PlanKeep s (s.resume pid orc).1 := by
  obtain ⟨p, hp, ha, hmin⟩ := hen
  obtain ⟨hpm, hpid⟩ := proc?_some hp
  subst hpid
  have hc := resume_core s p.pid orc p hp ha
  refine PlanKeep.trans ?_ (PlanKeep.of_eq (hc.tasks.trans rfl))
  by_cases h2 : p.k.tag = "allocTask"
  · cases hk : p.k with
    | allocTask t m preds obs ing ret => exact (allocTask_facts s hs.pw p orc hk).1
    | _ => rw [hk] at h2; simp [PK.tag] at h2
  · by_cases h3 : p.k.tag = "doWork"
    · cases hk : p.k with
      | doWork t m preds ph tot => exact (doWork_facts s p orc hk).1
      | _ => rw [hk] at h3; simp [PK.tag] at h3
    · by_cases h4 : p.k.tag = "allocTasks"
      · cases hk : p.k with
        | allocTasks o sc pa po fn =>
          obtain ⟨_, _, _, _, _, hK, _⟩ := allocTasks_facts s halg p orc hk (h.sched p hpm o sc pa po fn hk)
          exact hK
        | _ => rw [hk] at h4; simp [PK.tag] at h4
      · exact block_planKeep_harmless s p orc h2 h3 h4

/-- with no reservation anywhere, a machine of the configuration that is neither occupied nor
ingesting is in the available pool -/
theorem avail_of_free {s0 s : Sys} (hw : WFConfig s0) (hnb : NoBatch s0.alg) (h : Reach s0 s) {m : Mid}
    (hocc : s.cl.isOccupied m = false) (hmm : (s.machine? m).isSome = true) : m ∈ s.cl.available := by
  have hno : s0.alg ≠ .oracle := by
    rcases hnb with e | e | e <;> rw [e] <;> simp
  obtain ⟨U, hU⟩ := reach_cluster_inv s0 s hw (h.toOk hno)
  have hidle := reach_idle_nil hw h hnb
  have hmem : m ∈ s.cl.machines := by
    rw [reach_machines hw h, ← reach_sys_machines h]
    cases hm : s.machine? m with
    | none => rw [hm] at hmm; simp at hmm
    | some mm =>
      unfold machine? at hm
      have h1 := List.mem_of_find?_eq_some hm
      have h2 : mm.id = m := by simpa using List.find?_some hm
      rw [← h2]; exact List.mem_map_of_mem (f := (·.id)) h1
  have hp := hU.part m
  have h1 : s.cl.idleAll.count m = 0 := by simp [Cluster.idleAll, hidle]
  unfold Cluster.isOccupied at hocc
  simp only [Bool.or_eq_false_iff, decide_eq_false_iff_not] at hocc
  have h2 : s.cl.occupied.count m = 0 := List.count_eq_zero.mpr hocc.1
  have h3 : s.cl.ingest.count m = 0 := List.count_eq_zero.mpr hocc.2
  have h4 := count_pos_of_mem hmem
  exact List.count_pos_iff.mp (by omega)

/-- the processes of the table after one step: the one that ran (same pid), the others, and the
new ones, which are in the table of the block's result and not in the old table -/
theorem resume_mem {s : Sys} (hs : SInv s) {p : Proc} (hp : s.proc? p.pid = some p) (ha : p.alive = true)
    (hmin : ∀ q ∈ s.procs, q.alive = true → p.wake ≤ q.wake) (orc : Oracle) :
    ∀ q ∈ (s.resume p.pid orc).1.procs, q.pid = p.pid ∨ q ∈ s.procs ∨
      (q ∈ (s.block p orc).1.procs ∧ q ∉ s.procs) := by
  have hpm := (proc?_some hp).1
  obtain ⟨hpre, hpwX⟩ := block_pre_str hs.pw hs.eg hpm ha hmin orc
  have hpX : p ∈ (s.block p orc).1.procs := hpre.subset hpm
  intro q hq
  rw [(resume_core s p.pid orc p hp ha).procs] at hq
  rcases (mem_updProc_iff hpwX hpX _ q).mp hq with rfl | ⟨hq1, _⟩
  · exact Or.inl (fin_pid _ _ _ _)
  · by_cases hin : q ∈ s.procs
    · exact Or.inr (Or.inl hin)
    · exact Or.inr (Or.inr ⟨hq1, hin⟩)

/-- one step of a run of DynamicSchedulingFromPlan: a scheduler-side allocation process with a new
process id is for a task on its planned machine, and that machine was in the available pool
before the step -/
theorem resume_new_alloc {s0 s : Sys} (hw : WFConfig s0) (halg : s0.alg = .dynamic) (h : Reach s0 s)
    {pid : Nat} (hen : s.enabled pid) (orc : Oracle) :
    ∀ q ∈ (s.resume pid orc).1.procs, (∀ q0 ∈ s.procs, q0.pid ≠ q.pid) →
      ∀ t m cross obs ret, q.k = .allocTask t m cross obs false ret →
        m ∈ s.cl.available ∧ OnPlan (s.resume pid orc).1 t m := by
  have hno : s0.alg ≠ .oracle := by rw [halg]; simp
  have hs := reach_inv s0 s hw (h.toOk hno)
  have hpf := reach_pf s0 s hw halg h
  have halg' : s.alg = .dynamic := by rw [reach_alg h]; exact halg
  obtain ⟨p, hp, ha, hmin⟩ := hen
  obtain ⟨hpm, hpid⟩ := proc?_some hp
  subst hpid
  have hc := resume_core s p.pid orc p hp ha
  intro q hq hfresh t m cross obs ret hqk
  rcases resume_mem hs hp ha hmin orc q hq with h1 | h1 | ⟨h1, h2⟩
  · exact absurd h1.symm (hfresh p hpm)
  · exact absurd rfl (hfresh q h1)
  · -- a process created by the block
    by_cases h2' : p.k.tag = "allocTask"
    · cases hk : p.k with
      | allocTask t1 m1 preds obs1 ing ret1 =>
        obtain ⟨_, _, hnewp, _⟩ := allocTask_facts s hs.pw p orc hk
        have := (hnewp q h1 h2).2
        rw [this] at hqk; exact absurd hqk (by simp)
      | _ => rw [hk] at h2'; simp [PK.tag] at h2'
    · by_cases h3 : p.k.tag = "doWork"
      · cases hk : p.k with
        | doWork t1 m1 preds ph tot =>
          obtain ⟨_, hprocs, _⟩ := doWork_facts s p orc hk
          rw [hprocs] at h1; exact absurd h1 h2
        | _ => rw [hk] at h3; simp [PK.tag] at h3
      · by_cases h4 : p.k.tag = "allocTasks"
        · cases hk : p.k with
          | allocTasks o sc pa po fn =>
            obtain ⟨_, _, _, _, _, _, _, _, hnewp⟩ :=
              allocTasks_facts s halg' p orc hk (hpf.sched p hpm o sc pa po fn hk)
            rcases hnewp q h1 with h5 | ⟨t', m', cross', hk', hon, hocc, hmm⟩
            · exact absurd h5 h2
            · rw [hk'] at hqk
              simp only [PK.allocTask.injEq] at hqk
              rw [← hqk.1, ← hqk.2.1]
              exact ⟨avail_of_free hw (Or.inr (Or.inl halg)) h hocc hmm, hon.congr (hc.tasks.trans rfl)⟩
          | _ => rw [hk] at h4; simp [PK.tag] at h4
        · exact absurd hqk ((block_new_harmless s p orc h2' h3 h4 q h1 h2).2.2.2 t m cross obs ret)

/-! ### later states of a run -/

/-- `s'` is reached from the reachable state `s` by zero or more further steps -/
inductive Later (s0 s : Sys) : Sys → Prop
  | refl : Reach s0 s → Later s0 s s
  | step (s' : Sys) (pid : Nat) (orc : Oracle) :
      Later s0 s s' → s'.enabled pid → Later s0 s (s'.resume pid orc).1

theorem Later.reach_left {s0 s s' : Sys} (h : Later s0 s s') : Reach s0 s := by
  induction h with
  | refl hr => exact hr
  | step _ _ _ _ _ ih => exact ih

theorem Later.reach_right {s0 s s' : Sys} (h : Later s0 s s') : Reach s0 s' := by
  induction h with
  | refl hr => exact hr
  | step s' pid orc _ hen ih => exact Reach.step s' pid orc ih hen

/-- along a run of DynamicSchedulingFromPlan the plan fields of a record never change -/
theorem later_planKeep {s0 s s' : Sys} (hw : WFConfig s0) (halg : s0.alg = .dynamic) (h : Later s0 s s') :
    PlanKeep s s' := by
  have hno : s0.alg ≠ .oracle := by rw [halg]; simp
  induction h with
  | refl _ => exact PlanKeep.refl s
  | step s' pid orc hl hen ih =>
    have hr := hl.reach_right
    exact ih.trans (resume_planKeep (reach_pf s0 s' hw halg hr) (reach_inv s0 s' hw (hr.toOk hno))
      (by rw [reach_alg hr]; exact halg) hen orc)

end Sys
end Topsim
