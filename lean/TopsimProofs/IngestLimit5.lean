/-
  IngestLimit5 — the ledger invariant across the blocks of the processes the
  ledger does not talk about, of the allocation processes
  (`allocate_task_to_cluster`) and of the provisioning process
  (`provision_ingest_resources`).
-/
import TopsimProofs.IngestLimit4

namespace Topsim
namespace Sys

open Cluster

/-- what a block has to establish for the state before `resume` closes it -/
def ILStep (s X : Sys) : Prop := ILInv X ∧ X.maxIngest = s.maxIngest ∧ X.ilLoadS ≤ s.ilLoadS

theorem ILStep.close {s X Y : Sys} (h : ILStep s X) (hq : ILQ X Y) : ILStep s Y := by
  obtain ⟨h1, h2, h3⟩ := h
  obtain ⟨q1, q2⟩ := h1.quiet hq
  exact ⟨q1, hq.maxI.trans h2, Nat.le_trans q2 h3⟩

/-! ### processes the ledger does not talk about -/

theorem il_step_neutral {s : Sys} (h : ILInv s) {p : Proc}
    {s1 : Sys} {k' : PK} (y : Yield) (hq : ILQ s s1) (hpw1 : PW s1) (hp1 : p ∈ s1.procs)
    (hk : p.k.aiObs = none ∧ p.k.piObs = none) (hk' : k'.aiObs = none ∧ k'.piObs = none) :
    ILStep s (s1.updProc p.pid (fin k' y p.wake)) := by
  obtain ⟨i1, i2⟩ := h.quiet hq
  obtain ⟨j1, j2⟩ := il_finish_other i1 hpw1 hp1 (fin k' y p.wake) (by simp) hk (by simpa using hk')
    (fun ha => (fin_alive _ _ _ _ ha).1)
  exact ⟨j1, hq.maxI, Nat.le_trans j2 i2⟩

/-! ### the allocation process -/

theorem il_ent_allocBegin (c : Cluster) (t : Tid) (m : Mid) (obs : Option Oid) (ing : Bool)
    (hok : (c.allocBegin t m obs ing).2 = none)
    (hpend : ing = true → (⟨t, m, obs, true⟩ : RunEntry) ∈ c.pending) (Q : RunEntry → Bool) :
    (c.allocBegin t m obs ing).1.ilEntries.countP Q ≤ c.ilEntries.countP Q := by
  obtain ⟨f1, f2, _, _⟩ := allocBegin_fields c t m obs ing hok
  unfold Cluster.ilEntries
  rw [f1, f2]
  cases ing with
  | false =>
    simp only [Bool.false_eq_true, if_false, List.filter_append, List.filter_cons, List.filter_nil,
      List.append_nil]
    exact Nat.le_refl _
  | true =>
    simp only [if_true, List.filter_append, List.filter_cons, List.filter_nil, List.countP_append,
      List.countP_cons, List.countP_nil]
    have hperm := (List.perm_cons_erase (hpend rfl)).countP_eq Q
    rw [List.countP_cons] at hperm
    omega

theorem il_ent_allocEnd (c : Cluster) (t : Tid) (m : Mid) (obs : Option Oid) (ing : Bool)
    (hok : (c.allocEnd t m obs ing).2 = none) (Q : RunEntry → Bool) :
    (c.allocEnd t m obs ing).1.ilEntries.countP Q ≤ c.ilEntries.countP Q := by
  obtain ⟨f1, f2, _, _⟩ := allocEnd_fields c t m obs ing hok
  unfold Cluster.ilEntries
  rw [f1, f2, List.countP_append, List.countP_append]
  have : ((c.runOn.erase ⟨t, m, obs, ing⟩).filter (·.ing)).Sublist (c.runOn.filter (·.ing)) :=
    List.Sublist.filter _ List.erase_sublist
  have := this.countP_le (p := Q)
  omega

theorem il_step_allocTask {s : Sys} (hs : SInv s) (h : ILInv s) {p : Proc} (hpm : p ∈ s.procs)
    (ha : p.alive = true) {t m preds obs ing ret} (hk : p.k = .allocTask t m preds obs ing ret) :
    ILStep s ((s.allocTaskBlock p.wake t m preds obs ing ret).1.updProc p.pid
      (fin (s.allocTaskBlock p.wake t m preds obs ing ret).2.1
        (s.allocTaskBlock p.wake t m preds obs ing ret).2.2 p.wake)) := by
  obtain ⟨U, hU⟩ := hs.ci
  have hpw := hs.pw
  have hkn : p.k.aiObs = none ∧ p.k.piObs = none := by rw [hk]; exact ⟨rfl, rfl⟩
  -- the common closing step
  have close : ∀ (s1 : Sys) (k' : PK) (y : Yield), ILQ s s1 → PW s1 → p ∈ s1.procs →
      (k'.aiObs = none ∧ k'.piObs = none) → ILStep s (s1.updProc p.pid (fin k' y p.wake)) := by
    intro s1 k' y hq hpw1 hp1 hk'
    obtain ⟨i1, i2⟩ := h.quiet hq
    obtain ⟨j1, j2⟩ := il_finish_other i1 hpw1 hp1 (fin k' y p.wake) (by simp) hkn (by simpa using hk')
      (fun ha => (fin_alive _ _ _ _ ha).1)
    exact ⟨j1, hq.maxI, Nat.le_trans j2 i2⟩
  rcases allocTaskBlock_cases s hpw p.wake t m preds obs ing ret with
    ⟨hnr, e, he, heq⟩ | ⟨hnr, hok, heq⟩ | ⟨hr, htr, heq⟩ | ⟨hr, htr, e, he, heq⟩ | ⟨hr, htr, hok, heq⟩
  · rw [heq]
    have hun := allocBegin_err_unchanged s.cl t m obs ing e he
    exact close _ _ _ (ILQ.same rfl rfl rfl rfl (by rw [hun]) (by rw [hun]) rfl) ⟨hpw.nodup, hpw.lt⟩ hpm
      ⟨rfl, rfl⟩
  · rw [heq]
    have hpc0 := hU.pc_zero hpm ha hk hnr
    have hpend : ing = true → (⟨t, m, obs, true⟩ : RunEntry) ∈ s.cl.pending := by
      intro hi; subst hi
      exact hU.pend p hpm ha t m preds obs ret hk hpc0
    have hq : ILQ s ((({ s with cl := (s.cl.allocBegin t m obs ing).1 }).updTask t
        (fun r => { r with status := .scheduled })).spawn (.doWork t m preds 0 0) p.wake).1 :=
      ⟨rfl, rfl, fun _ => rfl, rfl, il_ent_allocBegin s.cl t m obs ing hok hpend, _, rfl, by simp [PK.aiObs, PK.piObs]⟩
    have hpwT : PW (({ s with cl := (s.cl.allocBegin t m obs ing).1 }).updTask t
        (fun r => { r with status := .scheduled })) := ⟨hpw.nodup, hpw.lt⟩
    exact close _ _ _ hq (hpwT.spawn _ _) (by simp [hpm]) ⟨rfl, rfl⟩
  · rw [heq]
    exact close _ _ _ (ILQ.refl _) hpw hpm ⟨rfl, rfl⟩
  · exfalso
    have := (hU.atEnd hpw hpm ha hk hr (fin p.k .done p.wake) (by simp) (by simp) (by simp)).1
    rw [this] at he; exact absurd he (by simp)
  · rw [heq]
    have hq : ILQ s (({ s with cl := (s.cl.allocEnd t m obs ing).1 }).updTask t
        (fun r => { r with status := .finished })) :=
      ⟨rfl, rfl, fun _ => rfl, rfl, il_ent_allocEnd s.cl t m obs ing hok, [], by simp, by simp⟩
    exact close _ _ _ hq ⟨hpw.nodup, hpw.lt⟩ hpm ⟨rfl, rfl⟩

/-! ### the provisioning process -/

theorem foldSpawn_il {α} (K : α → PK) (now : Time) (l : List α) (s1 : Sys) :
    (l.foldl (fun s p => (s.spawn (K p) now).1) s1).provIngest = s1.provIngest ∧
    (l.foldl (fun s p => (s.spawn (K p) now).1) s1).maxIngest = s1.maxIngest := by
  induction l generalizing s1 with
  | nil => exact ⟨rfl, rfl⟩
  | cons x r ih => simp only [List.foldl_cons]; exact ih _

theorem il_step_provIngest {s : Sys} (hs : SInv s) (h : ILInv s) {p : Proc} (hpm : p ∈ s.procs)
    (ha : p.alive = true) {o d} (hk : p.k = .provIngest o d) :
    ILStep s ((s.provIngestBlock p.wake p.pc o d).1.updProc p.pid
      (fin (s.provIngestBlock p.wake p.pc o d).2.1 (s.provIngestBlock p.wake p.pc o d).2.2 p.wake)) := by
  obtain ⟨U, hU⟩ := hs.ci
  have hpw := hs.pw
  obtain ⟨l1, l2, e, hne, hg⟩ := il_split hpw hpm
  have hil : ILC (l1 ++ p :: l2) s.ilDemand s.cl.ilEntries s.provIngest s.maxIngest s.admitted := by
    have := h; unfold ILInv at this; rw [e] at this; exact this
  -- replacing the entry of the provisioning process
  have hrep : ∀ y : Yield,
      ILC (l1 ++ fin (.provIngest o d) y p.wake p :: l2) s.ilDemand s.cl.ilEntries s.provIngest
        s.maxIngest s.admitted ∧
      ilPromised (l1 ++ fin (.provIngest o d) y p.wake p :: l2) s.ilDemand
        ≤ ilPromised (l1 ++ p :: l2) s.ilDemand := by
    intro y
    refine hil.replace (by rw [fin_k, hk]) (by simp) (fun ha' => (fin_alive _ _ _ _ ha').1) ?_ ?_ ?_
    · intro x hx
      have := (ilUnprov_iff.mp hx).2.1
      simp at this
    · intro q _ _ _ x dd _ hw
      rw [hk] at hw; exact absurd hw.2.2.1 (by simp [PK.aiObs])
    · intro _ hpc'
      simp at hpc'
  -- the process stays or dies, the cluster is as before
  have stay : ∀ (cl1 : Cluster) (y : Yield), cl1 = s.cl →
      ILStep s (({ s with cl := cl1 }).updProc p.pid (fin (.provIngest o d) y p.wake)) := by
    intro cl1 y hcl
    subst hcl
    obtain ⟨hc, hl⟩ := hrep y
    have := ILInv.of_ilc (s' := ({ s with cl := s.cl }).updProc p.pid (fin (.provIngest o d) y p.wake)) hc
      (hg _) (fun _ => rfl) (fun _ => Nat.le_refl _) rfl rfl rfl
    refine ⟨this.1, rfl, Nat.le_trans this.2 ?_⟩
    unfold ilLoadS ingestPromised
    rw [e]
    exact Nat.add_le_add_left hl _
  unfold provIngestBlock
  by_cases hpc : p.pc = 0
  · simp only [hpc, if_true]
    have href := provisionIngest_refused hU.inv d o
    have hfresh : ∀ i, Tid.ingest o i ∉ U := by
      intro i hi
      obtain ⟨q, hq, d', hqk, hqc⟩ := hU.provOnce o i hi
      have e' := hU.provUniq q hq p hpm o d' d hqk hk
      have : q = p := hpw.eq_of_pid hq hpm e'
      subst this
      omega
    have hsharp := provisionIngest_sharp hU.inv d o hfresh
    have hexact := provisionIngest_exact s.cl
    generalize hr : s.cl.provisionIngest d o = r at href hsharp hexact
    obtain ⟨cl1, e1, pairs⟩ := r
    cases e1 with
    | some err =>
      simp only at href ⊢
      exact stay cl1 _ (href err rfl)
    | none =>
      simp only at hsharp hexact ⊢
      obtain ⟨_, f1, f2, _, _, _, _⟩ := hsharp trivial
      obtain ⟨hlen, _⟩ := hexact cl1 d o pairs hU.inv.avail_nodup hr
      -- facts about the observation being provisioned
      obtain ⟨hd, w, hw, w1, w2, w3, w4⟩ := hil.piLive p (by simp) ha hpc o d hk
      have hwm : w ∈ s.procs := by rw [e]; exact hw
      have holive : o ∈ ilLiveAI (l1 ++ p :: l2) := mem_ilLiveAI.mpr ⟨w, hw, w1, w3⟩
      have hunp : ilUnprovisioned (l1 ++ p :: l2) o = true :=
        ilUnprovisioned_iff.mpr ⟨p, by simp, ha, hpc, Or.inr (by rw [hk]; rfl)⟩
      have hpt : ilPromisedTo (l1 ++ p :: l2) s.ilDemand o = s.ilDemand o := by
        unfold ilPromisedTo; rw [if_pos hunp]
      have hE0 : ilEntCount s.cl.ilEntries o = 0 := by
        have := hil.perObs o holive
        omega
      obtain ⟨hc, hl⟩ := hrep (.timeout 1)
      -- nobody else stands for unprovisioned machines of `o`
      have hun' : ilUnprovisioned (l1 ++ fin (.provIngest o d) (.timeout 1) p.wake p :: l2) o = false := by
        cases hu : ilUnprovisioned (l1 ++ fin (.provIngest o d) (.timeout 1) p.wake p :: l2) o with
        | false => rfl
        | true =>
          exfalso
          obtain ⟨r, hr', r1, r2, r3⟩ := ilUnprovisioned_iff.mp hu
          rcases mem_replace (p := p) hr' with rfl | ⟨hside, hr''⟩
          · simp at r2
          · have hrm : r ∈ s.procs := by rw [e]; exact hr''
            rcases r3 with r3 | r3
            · have := hil.aiUniq r hr'' w hw o r3 w3
              have : r = w := hpw.eq_of_pid hrm hwm this
              subst this
              omega
            · have hrk : ∃ d', r.k = .provIngest o d' := by
                cases hrk : r.k <;> simp [hrk, PK.piObs] at r3
                subst r3
                exact ⟨_, rfl⟩
              obtain ⟨d', hrk⟩ := hrk
              exact hne r hside (hU.provUniq r hrm p hpm o d' d hrk hk)
      have hadm : o ∈ s.admitted := hil.aiAdm w hw o w3
      let newE : List RunEntry := pairs.map (fun x => (⟨x.2, x.1, some o, true⟩ : RunEntry))
      have hc2 := hc.addEntries newE o (by intro e he; simp only [newE, List.mem_map] at he; obtain ⟨x, _, rfl⟩ := he; rfl)
        (by simp only [newE, List.length_map]; omega) hE0 hun' hadm
      -- the state after the block
      have key : ∀ s1 : Sys, s1.procs = s.procs → s1.nextPid = s.nextPid → s1.cl = cl1 → s1.obs = s.obs →
          s1.provIngest = s.provIngest → s1.maxIngest = s.maxIngest → s1.admitted = s.admitted →
          ILStep s ((List.foldl (fun (s : Sys) (x : Mid × Tid) =>
            (s.spawn (.allocTask x.2 x.1 [] (some o) true 0) p.wake).1) s1 pairs).updProc p.pid
              (fin (.provIngest o d) (.timeout 1) p.wake)) := by
        intro s1 k1 k2 k3 k4 k5 k6 k7
        rw [foldSpawn_comm (fun x : Mid × Tid => PK.allocTask x.2 x.1 [] (some o) true 0) p.wake p.pid
          (fin (.provIngest o d) (.timeout 1) p.wake) pairs s1 (by rw [k2]; exact hpw.lt p hpm)]
        obtain ⟨⟨new, g1, g2⟩, _, g4, _, g6, _, _, g9⟩ :=
          foldSpawn_spec (fun x : Mid × Tid => PK.allocTask x.2 x.1 [] (some o) true 0) p.wake pairs
            (s1.updProc p.pid (fin (.provIngest o d) (.timeout 1) p.wake))
        obtain ⟨g10, g11⟩ :=
          foldSpawn_il (fun x : Mid × Tid => PK.allocTask x.2 x.1 [] (some o) true 0) p.wake pairs
            (s1.updProc p.pid (fin (.provIngest o d) (.timeout 1) p.wake))
        have hprocs1 : (s1.updProc p.pid (fin (.provIngest o d) (.timeout 1) p.wake)).procs
            = l1 ++ fin (.provIngest o d) (.timeout 1) p.wake p :: l2 := by
          rw [← hg]; simp only [Sys.updProc, k1]
        have hnew : ∀ q ∈ new, q.k.aiObs = none ∧ q.k.piObs = none := by
          intro q hq
          obtain ⟨x, _, hx⟩ := g2 q hq
          rw [hx]; exact ⟨rfl, rfl⟩
        have hc3 := hc2.append_neutral new hnew
        generalize (List.foldl (fun (s : Sys) (x : Mid × Tid) =>
            (s.spawn (PK.allocTask x.2 x.1 [] (some o) true 0) p.wake).1)
            (s1.updProc p.pid (fin (.provIngest o d) (.timeout 1) p.wake)) pairs) = X
          at g1 g4 g6 g9 g10 g11 ⊢
        have hXcl : X.cl = cl1 := by rw [g4]; exact k3
        have hfin := ILInv.of_ilc (s' := X) hc3 (by rw [g1, hprocs1])
          (fun x => ilDemand_congr (by rw [g6]; exact k4) x)
          (fun Q => by
            rw [hXcl]
            unfold Cluster.ilEntries
            rw [f1, f2]
            simp only [List.countP_append, newE]
            omega)
          (g10.trans k5) (g11.trans k6) (g9.trans k7)
        refine ⟨hfin.1, g11.trans k6, Nat.le_trans hfin.2 ?_⟩
        rw [ilPromised_append_neutral _ _ _ hnew]
        unfold ilLoadS ingestPromised
        rw [e]
        simp only [List.length_append, newE, List.length_map]
        -- the promise of `o` is redeemed
        have hdrop : ilPromised (l1 ++ fin (.provIngest o d) (.timeout 1) p.wake p :: l2) s.ilDemand + d
            ≤ ilPromised (l1 ++ p :: l2) s.ilDemand := by
          unfold ilPromised
          have hA : ilLiveAI (l1 ++ fin (.provIngest o d) (.timeout 1) p.wake p :: l2) = ilLiveAI (l1 ++ p :: l2) := by
            apply ilLiveAI_replace_eq
            rw [ilAiLive_none_of_aiObs (by rw [fin_k]; rfl), ilAiLive_none_of_aiObs (by rw [hk]; rfl)]
          rw [hA]
          refine il_sum_drop _ _ _ ?_ holive d ?_
          · intro x _
            apply ilPromisedTo_mono
            apply ilUnprovisioned_replace
            intro x' hx'
            have := (ilUnprov_iff.mp hx').2.1
            simp at this
          · have : ilPromisedTo (l1 ++ fin (.provIngest o d) (.timeout 1) p.wake p :: l2) s.ilDemand o = 0 := by
              unfold ilPromisedTo; simp [hun']
            omega
        omega
      exact key _ rfl rfl rfl rfl rfl rfl rfl
  · simp only [hpc, if_false]
    exact stay s.cl _ rfl

end Sys
end Topsim
