/-
  Live7c — progress of `allocate_tasks` (part 3): what one block does to the status of a workflow
  task as the scheduler sees it, per process kind, and the invariant `L7A` along the run:
  the records of one observation carry one planning clock; a SCHEDULED / RUNNING workflow record
  has a live allocation process; a FINISHED workflow record is reported finished by the cluster.
-/
import TopsimProofs.Live7b

namespace Topsim

open Sys

namespace Sys

/-! ### the status of a workflow task under one block -/

/-- kinds other than the allocation process, the task body and `allocate_tasks` -/
theorem l7_block_tstat_other (s : Sys) (p : Proc) (orc : Oracle)
    (h1 : p.k.tag ≠ "allocTask") (h2 : p.k.tag ≠ "doWork") (h3 : p.k.tag ≠ "allocTasks") {t : Tid}
    (hw : IsWf t) : tstat (s.block p orc).1 t = tstat s t := by
  by_cases h4 : p.k.tag = "schedLoop"
  · have hk : p.k = .schedLoop := by cases hk : p.k <;> rw [hk] at h4 <;> simp [PK.tag] at h4 <;> rfl
    rw [block_schedLoop orc hk]
    rcases schedLoopBlock_buf s p.wake orc with ⟨_, _, htasks, _, _⟩ |
      ⟨oid, o, recs, plan, _, _, hrp, _, _, htasks, _⟩
    · exact tstat_of_tasks htasks t
    · obtain ⟨_, _, _, g4⟩ := planOf_facts o (natNow p.wake) s.staticPlan orc.plan recs plan hrp
      exact tstat_append_unsched s _ recs htasks (fun r hr => (g4 r hr).1) t
  · by_cases h5 : p.k.tag = "provIngest"
    · cases hk : p.k <;> rw [hk] at h5 <;> simp [PK.tag] at h5
      rename_i o d
      rw [block_provIngest orc hk]
      obtain ⟨recs, hrecs, htasks, _⟩ := provIngestBlock_shape s p.wake p.pc o d
      refine tstat_append s _ recs htasks t ?_
      intro r hr e
      have := hrecs r hr
      rw [e] at this
      obtain ⟨o', c, n, rfl⟩ := hw
      simp [Tid.isIngest] at this
    · exact tstat_of_tasks (block_tasks s p orc h4 h5 h1 h2 h3) t

/-- the task body: the status of its own task becomes RUNNING at the start, nothing else changes -/
theorem l7_doWork_tstat (s : Sys) (now : Time) (orc : Oracle) (t0 : Tid) (m : Mid) (preds : List Tid)
    (ph tot : Nat) (t : Tid) :
    tstat (s.doWorkBlock now orc t0 m preds ph tot).1 t = tstat s t ∨
    (t = t0 ∧ tstat (s.doWorkBlock now orc t0 m preds ph tot).1 t = .running) := by
  have hsh := doWorkBlock_shape2 s now orc t0 m preds ph tot
  generalize s.doWorkBlock now orc t0 m preds ph tot = X at hsh
  cases hsh with
  | raised ph' e _ => exact Or.inl rfl
  | wait w => exact Or.inl rfl
  | start r mm dur hr _ _ =>
    by_cases e : t = t0
    · right
      subst e
      refine ⟨rfl, ?_⟩
      exact (tstat_of_tasks rfl t).trans
        (tstat_updTask_set s t (dwStartF now dur) (fun _ => rfl) .running (fun _ => rfl) hr)
    · exact Or.inl (tstat_upd1 (dwStartF now dur) (fun _ => rfl) rfl e)
  | finish _ =>
    left
    exact (tstat_of_tasks rfl t).trans (tstat_updTask_keep s t0 t (dwEndF now tot)
      (fun r => (dwEndF_spec now tot r).1) (fun r => (dwEndF_spec now tot r).2.2.2.2.1))

theorem l7_doWork_cl (s : Sys) (now : Time) (orc : Oracle) (t0 : Tid) (m : Mid) (preds : List Tid)
    (ph tot : Nat) : (s.doWorkBlock now orc t0 m preds ph tot).1.cl = s.cl := by
  have hsh := doWorkBlock_shape2 s now orc t0 m preds ph tot
  generalize s.doWorkBlock now orc t0 m preds ph tot = X at hsh
  cases hsh <;> rfl

/-- the allocation process of `t` (a block that does not raise): either it goes on polling, and
the status of `t` is as before or SCHEDULED; or it ends, the status is FINISHED and the cluster
reports `t` finished -/
theorem l7_allocTask_block (s : Sys) (hpw : PW s) (now : Time) (t : Tid) (m : Mid) (preds : List Tid)
    (obs : Option Oid) (ing : Bool) (ret : Nat)
    (hnr : ∀ e, (s.allocTaskBlock now t m preds obs ing ret).2.2 ≠ .raised e)
    (hrec : ∃ r, s.task? t = some r) :
    (∃ ret', (s.allocTaskBlock now t m preds obs ing ret).2.1 = .allocTask t m preds obs ing ret') ∧
    (((s.allocTaskBlock now t m preds obs ing ret).2.2 = .timeout 1 ∧
        (tstat (s.allocTaskBlock now t m preds obs ing ret).1 t = tstat s t ∨
          tstat (s.allocTaskBlock now t m preds obs ing ret).1 t = .scheduled) ∧
        ((s.allocTaskBlock now t m preds obs ing ret).1.cl.finished = s.cl.finished ∨
          (s.allocTaskBlock now t m preds obs ing ret).1.cl.finished = dictSet s.cl.finished t false)) ∨
     ((s.allocTaskBlock now t m preds obs ing ret).2.2 = .done ∧
        tstat (s.allocTaskBlock now t m preds obs ing ret).1 t = .finished ∧
        (s.allocTaskBlock now t m preds obs ing ret).1.cl.finished = dictSet s.cl.finished t true)) := by
  obtain ⟨r, hr⟩ := hrec
  rcases allocTaskBlock_cases s hpw now t m preds obs ing ret with
    ⟨_, e, _, heq⟩ | ⟨_, hb, heq⟩ | ⟨_, _, heq⟩ | ⟨_, _, e, _, heq⟩ | ⟨_, _, he, heq⟩
  · rw [heq] at hnr; exact absurd rfl (hnr e)
  · rw [heq]
    refine ⟨⟨_, rfl⟩, Or.inl ⟨rfl, Or.inr ?_, ?_⟩⟩
    · have hr' : ({ s with cl := (s.cl.allocBegin t m obs ing).1 } : Sys).task? t = some r := hr
      exact (tstat_of_tasks rfl t).trans
        (tstat_updTask_set _ t (fun r : TaskRec => { r with status := .scheduled }) (fun _ => rfl) .scheduled
          (fun _ => rfl) hr')
    · show (s.cl.allocBegin t m obs ing).1.finished = _ ∨ (s.cl.allocBegin t m obs ing).1.finished = _
      rw [allocBegin_finished s.cl t m obs ing hb]
      cases ing with
      | true => exact Or.inr rfl
      | false => exact Or.inl rfl
  · rw [heq]
    exact ⟨⟨_, rfl⟩, Or.inl ⟨rfl, Or.inl rfl, Or.inl rfl⟩⟩
  · rw [heq] at hnr; exact absurd rfl (hnr e)
  · rw [heq]
    refine ⟨⟨_, rfl⟩, Or.inr ⟨rfl, ?_, ?_⟩⟩
    · have hr' : ({ s with cl := (s.cl.allocEnd t m obs ing).1 } : Sys).task? t = some r := hr
      exact tstat_updTask_set _ t (fun r : TaskRec => { r with status := .finished }) (fun _ => rfl) .finished
        (fun _ => rfl) hr'
    · show (s.cl.allocEnd t m obs ing).1.finished = _
      exact (allocEnd_fields s.cl t m obs ing he).2.2.2

attribute [local irreducible] atS3 atStart Sys.updateCurrentPlan processCurrentSchedule in
/-- one block of `allocate_tasks` (shipped algorithm, schedule with distinct keys): the status of a
task is as before, or it goes from UNSCHEDULED to SCHEDULED and a new allocation process carries it -/
theorem l7_allocTasks_tstat {s : Sys} (hsu : SU s) (hno : s.alg ≠ .oracle) {p : Proc} (hp : p ∈ s.procs)
    (ha : p.alive = true) (orc : Oracle) {o : Oid} {sc pa : List (Tid × Mid)} {po : List Tid} {fn : Bool}
    (hk : p.k = .allocTasks o sc pa po fn) {new : List Proc}
    (hnew : (s.block p orc).1.procs = s.procs ++ new) (t : Tid) :
    tstat (s.block p orc).1 t = tstat s t ∨
    (tstat s t = .unscheduled ∧ tstat (s.block p orc).1 t = .scheduled ∧
      ∃ q ∈ new, q.alive = true ∧ ∃ m cross, q.k = .allocTask t m cross (some o) false 0) := by
  rw [block_allocTasks orc hk] at hnew ⊢
  cases fn with
  | true => rw [allocTasksBlock_fin]; exact Or.inl rfl
  | false =>
    rw [allocTasksBlock_eq] at hnew ⊢
    have hts1 : ∀ t, tstat ((atStart s p.wake p.pc o).updateCurrentPlan o) t = tstat s t := fun t =>
      (updateCurrentPlan_tstat _ o t).trans (atStart_tstat s p.wake p.pc o t)
    have hp1 : ((atStart s p.wake p.pc o).updateCurrentPlan o).procs = s.procs :=
      (updateCurrentPlan_core _ o).procs.trans (atStart_procs s p.wake p.pc o)
    have halg1 : ((atStart s p.wake p.pc o).updateCurrentPlan o).alg ≠ .oracle := by
      rw [updateCurrentPlan_alg, atStart_alg]; exact hno
    obtain ⟨hnd0, _⟩ := hsu.sl p hp ha o sc pa po false hk
    have hout := allocTasksIter_out (atStart s p.wake p.pc o) p.wake orc o sc pa po
    generalize (atStart s p.wake p.pc o).allocTasksIter p.wake orc o sc pa po = r at hout hnew ⊢
    cases hout with
    | noPlan _ => exact Or.inl (hts1 t)
    | algErr plan e _ _ => exact Or.inl (hts1 t)
    | finish plan out _ _ _ _ _ _ =>
      exact Or.inl ((tstat_of_tasks (atS3_tasks ((atStart s p.wake p.pc o).updateCurrentPlan o) out o) t).trans (hts1 t))
    | finishBad plan out _ _ _ _ _ _ =>
      exact Or.inl ((tstat_of_tasks (atS3_tasks ((atStart s p.wake p.pc o).updateCurrentPlan o) out o) t).trans (hts1 t))
    | finishWait plan out _ _ _ _ _ =>
      exact Or.inl ((tstat_of_tasks (atS3_tasks ((atStart s p.wake p.pc o).updateCurrentPlan o) out o) t).trans (hts1 t))
    | idle plan out _ _ _ _ =>
      exact Or.inl ((tstat_of_tasks (atS3_tasks ((atStart s p.wake p.pc o).updateCurrentPlan o) out o) t).trans (hts1 t))
    | alloc plan out y hplan hrun _ _ =>
      obtain ⟨_, halgn⟩ := runAlgorithm_sched ((atStart s p.wake p.pc o).updateCurrentPlan o) orc plan sc po out
        halg1 hrun
      obtain ⟨new', hpcs⟩ := processCurrentSchedule_pcs (atS3 ((atStart s p.wake p.pc o).updateCurrentPlan o) out o)
        p.wake o out.schedule pa (halgn hnd0)
      generalize processCurrentSchedule (atS3 ((atStart s p.wake p.pc o).updateCurrentPlan o) out o) p.wake o
        out.schedule pa = st at hpcs hnew ⊢
      have hnn : new' = new := by
        have h1 := hpcs.procs
        rw [atS3_procs, hp1] at h1
        exact List.append_cancel_left (h1.symm.trans hnew)
      subst hnn
      rcases hpcs.stat t with e | ⟨e1, e2, q, hq, m', cross', hqk⟩
      · left
        show tstat st.s t = _
        rw [e, atS3_tstat, hts1]
      · right
        rw [atS3_tstat, hts1] at e1
        exact ⟨e1, e2, q, hq, (hpcs.newk q hq).1, m', cross', hqk⟩

/-! ### the invariant -/

structure L7A (s : Sys) : Prop where
  /-- the workflow records of one observation carry one planning clock -/
  clk : ∀ r ∈ s.tasks, ∀ r' ∈ s.tasks, ∀ o c n c' n', r.id = .wf o c n → r'.id = .wf o c' n' → c = c'
  /-- a SCHEDULED / RUNNING workflow task has a live allocation process -/
  run : ∀ t, IsWf t → (tstat s t = .scheduled ∨ tstat s t = .running) →
    ∃ q ∈ s.procs, q.alive = true ∧ ∃ m preds obs ing ret, q.k = .allocTask t m preds obs ing ret
  /-- a FINISHED workflow task is reported finished by the cluster -/
  fin : ∀ t, IsWf t → tstat s t = .finished → FinT s t

theorem l7a_start (s0 : Sys) (hw : WFConfig s0) : L7A s0.start := by
  obtain ⟨_, _, htasks, _⟩ := hw.fresh
  have ht : s0.start.tasks = [] := by rw [← htasks]; simp [start, spawn]
  have hts : ∀ t, tstat s0.start t = .unscheduled := by
    intro t; rw [tstat_eq]; unfold task?; rw [ht]; rfl
  constructor
  · rw [ht]; intro r h; simp at h
  · intro t _ h; rw [hts] at h; rcases h with h | h <;> cases h
  · intro t _ h; rw [hts] at h; cases h

/-- the scheduler loop plans an observation that has neither plan nor records -/
theorem l7_next_fresh {s : Sys} (hwi : WI s) (hb : BufI s) {oid : Oid}
    (hnx : s.buf.nextForProcessing.2 = some oid) :
    (∀ pl ∈ s.plans, pl.obs ≠ oid) ∧ s.plan? oid = none ∧ (∀ r ∈ s.tasks, ∀ c n, r.id ≠ .wf oid c n) := by
  obtain ⟨_, hst, _, _⟩ := bufList_next s.buf oid hnx
  have hnoplan : ∀ pl ∈ s.plans, pl.obs ≠ oid := by
    intro pl hpl' e
    have h1 := hb.planLoc pl hpl'
    rw [e] at h1
    have h2 := hb.cnt oid
    have c1 := count_pos_of_mem hst
    have c2 := count_pos_of_mem h1
    unfold locCount bufList at h2
    simp only [List.count_append] at h2 c2
    omega
  have hplanNone : s.plan? oid = none := by
    unfold plan?
    rw [List.find?_eq_none]
    intro pl hpl'; simpa using hnoplan pl hpl'
  refine ⟨hnoplan, hplanNone, ?_⟩
  intro r hr c n e
  have := hwi.pr r hr oid c n e
  rw [hplanNone] at this; simp at this

theorem l7_clk_step {s0 s s' : Sys} {p : Proc} {orc : Oracle} (L : L7Lib s0 s) (h : L7Step s s' p orc)
    (hc : ∀ r ∈ s.tasks, ∀ r' ∈ s.tasks, ∀ o c n c' n', r.id = .wf o c n → r'.id = .wf o c' n' → c = c') :
    ∀ r ∈ s'.tasks, ∀ r' ∈ s'.tasks, ∀ o c n c' n', r.id = .wf o c n → r'.id = .wf o c' n' → c = c' := by
  rw [h.res]
  rcases resume_shape s L.sinv.pw p.pid orc with ⟨_, hM⟩ | ⟨_, p1, o1, d, recs, _, _, _, _, ht, _, hid⟩ |
      ⟨p1, hp1, _, _, oid, ob, recs, plan, hnx, hob, hrp, ht, _⟩
  · intro r hr r' hr' o c n c' n' e e'
    obtain ⟨a, ha, ka⟩ := hM.back hr
    obtain ⟨b, hb, kb⟩ := hM.back hr'
    exact hc a ha b hb o c n c' n' (ka.id.symm.trans e) (kb.id.symm.trans e')
  · intro r hr r' hr' o c n c' n' e e'
    rw [ht] at hr hr'
    have old : ∀ x ∈ s.tasks ++ recs, ∀ o c n, x.id = Tid.wf o c n → x ∈ s.tasks := by
      intro x hx o c n ex
      rcases List.mem_append.mp hx with h1 | h1
      · exact h1
      · obtain ⟨i, _, ei⟩ := hid x h1
        rw [ei] at ex; cases ex
    exact hc r (old r hr o c n e) r' (old r' hr' o c' n' e') o c n c' n' e e'
  · obtain ⟨_, _, hold⟩ := l7_next_fresh L.wi L.bufi hnx
    have hoid : ob.id = oid := (obs_mem_of_obs? hob).2
    obtain ⟨_, _, _, g4⟩ := planOf_facts ob (natNow p1.wake) s.staticPlan orc.plan recs plan hrp
    intro r hr r' hr' o c n c' n' e e'
    rw [ht] at hr hr'
    rcases List.mem_append.mp hr with h1 | h1 <;> rcases List.mem_append.mp hr' with h2 | h2
    · exact hc r h1 r' h2 o c n c' n' e e'
    · exfalso
      obtain ⟨_, n2, e2⟩ := g4 r' h2
      rw [e2, hoid] at e'
      injection e' with e3 _ _
      subst e3
      exact hold r h1 c n e
    · exfalso
      obtain ⟨_, n1, e1⟩ := g4 r h1
      rw [e1, hoid] at e
      injection e with e3 _ _
      subst e3
      exact hold r' h2 c' n' e'
    · obtain ⟨_, n1, e1⟩ := g4 r h1
      obtain ⟨_, n2, e2⟩ := g4 r' h2
      rw [e1] at e
      rw [e2] at e'
      injection e with _ a1 _
      injection e' with _ a2 _
      rw [← a1, ← a2]

/-- a FINISHED status gives a record -/
theorem l7_rec_of_finished {s : Sys} {t : Tid} (h : tstat s t = .finished) :
    ∃ r ∈ s.tasks, r.id = t ∧ r.status = .finished := by
  obtain ⟨r, hr, hs⟩ := (tstat_finished_iff s t).mp h
  exact ⟨r, List.mem_of_find?_eq_some hr, task?_id hr, hs⟩

theorem l7a_step {s0 s s' : Sys} {p : Proc} {orc : Oracle} (L : L7Lib s0 s) (h : L7Step s s' p orc)
    (A : L7A s) : L7A s' := by
  have hpm := h.mem
  have hs := L.sinv
  obtain ⟨U, hU⟩ := hs.ci
  have hno : s.alg ≠ .oracle := by rw [L.alg]; simp
  obtain ⟨new, hnewe, hnewp⟩ := block_newp s p orc
  have hm := h.memSpec hs hnewe
  -- an old live allocation process other than the one that ran is still there
  have keep : ∀ a ∈ s.procs, a.pid ≠ p.pid → a ∈ s'.procs := fun a ha hne => (hm a).mpr (Or.inr (Or.inl ⟨ha, hne⟩))
  have keepK : ∀ {t : Tid}, (∀ m preds obs ing ret, p.k ≠ .allocTask t m preds obs ing ret) →
      (∃ q ∈ s.procs, q.alive = true ∧ ∃ m preds obs ing ret, q.k = .allocTask t m preds obs ing ret) →
      ∃ q ∈ s'.procs, q.alive = true ∧ ∃ m preds obs ing ret, q.k = .allocTask t m preds obs ing ret := by
    rintro t hne ⟨q, hq, hqa, m, preds, obs, ing, ret, hqk⟩
    refine ⟨q, keep q hq ?_, hqa, m, preds, obs, ing, ret, hqk⟩
    intro e
    have : q = p := hs.pw.eq_of_pid hq hpm e
    subst this
    exact hne m preds obs ing ret hqk
  refine ⟨l7_clk_step L h A.clk, ?_, ?_⟩
  · -- run
    intro t hw hst
    rw [h.tstat] at hst
    cases hk : p.k with
    | allocTask t0 m preds obs ing ret =>
      have hnr := h.nr
      rw [block_allocTask orc hk] at hnr hst
      have hrec : ∃ r, s.task? t0 = some r := by
        obtain ⟨r, hr, _⟩ := hU.hasRec p hpm t0 m preds obs ing ret hk
        exact ⟨r, hr⟩
      obtain ⟨⟨ret', hk'⟩, hcase⟩ := l7_allocTask_block s hs.pw p.wake t0 m preds obs ing ret hnr hrec
      by_cases e : t = t0
      · subst e
        rcases hcase with ⟨hy, _, _⟩ | ⟨_, hf, _⟩
        · refine ⟨_, (hm _).mpr (Or.inl rfl), ?_, m, preds, obs, ing, ret', ?_⟩
          · rw [h.alive', block_allocTask orc hk]; exact ⟨1, hy⟩
          · rw [fin_k, block_allocTask orc hk]; exact hk'
        · rw [hf] at hst; rcases hst with hst | hst <;> cases hst
      · rw [allocTask_tstat_ne s _ _ _ _ _ _ _ e] at hst
        apply keepK _ (A.run t hw hst)
        intro m1 p1 o1 i1 r1 e1
        rw [hk] at e1
        injection e1 with e2
        exact e e2.symm
    | doWork t0 m preds ph tot =>
      rw [block_doWork orc hk] at hst
      have hne : ∀ m1 p1 o1 i1 r1, p.k ≠ .allocTask t m1 p1 o1 i1 r1 := by
        intro m1 p1 o1 i1 r1 e1; rw [hk] at e1; cases e1
      rcases l7_doWork_tstat s p.wake orc t0 m preds ph tot t with e | ⟨e, _⟩
      · rw [e] at hst; exact keepK hne (A.run t hw hst)
      · subst e
        obtain ⟨a, ha1, haa, _, preds', obs, ing, hak⟩ := hs.dg.dwAlloc p hpm h.ha _ _ _ _ _ hk
        exact keepK hne ⟨a, ha1, haa, m, preds', obs, ing, p.pid, hak⟩
    | allocTasks o sc pa po fn =>
      have hne : ∀ m1 p1 o1 i1 r1, p.k ≠ .allocTask t m1 p1 o1 i1 r1 := by
        intro m1 p1 o1 i1 r1 e1; rw [hk] at e1; cases e1
      rcases l7_allocTasks_tstat L.su hno hpm h.ha orc hk hnewe t with e | ⟨_, _, q, hq, hqa, m', cross', hqk⟩
      · rw [e] at hst; exact keepK hne (A.run t hw hst)
      · exact ⟨q, (hm q).mpr (Or.inr (Or.inr hq)), hqa, m', cross', some o, false, 0, hqk⟩
    | _ =>
      have hne : ∀ m1 p1 o1 i1 r1, p.k ≠ .allocTask t m1 p1 o1 i1 r1 := by
        intro m1 p1 o1 i1 r1 e1; rw [hk] at e1; cases e1
      rw [l7_block_tstat_other s p orc (by rw [hk]; simp [PK.tag]) (by rw [hk]; simp [PK.tag])
        (by rw [hk]; simp [PK.tag]) hw] at hst
      exact keepK hne (A.run t hw hst)
  · -- fin
    intro t hw hst
    rw [h.tstat] at hst
    rw [h.finT]
    by_cases htag : p.k.tag = "allocTask"
    · cases hk : p.k <;> rw [hk] at htag <;> simp [PK.tag] at htag
      rename_i t0 m preds obs ing ret
      have hnr := h.nr
      rw [block_allocTask orc hk] at hnr hst ⊢
      have hrec : ∃ r, s.task? t0 = some r := by
        obtain ⟨r, hr, _⟩ := hU.hasRec p hpm t0 m preds obs ing ret hk
        exact ⟨r, hr⟩
      obtain ⟨_, hcase⟩ := l7_allocTask_block s hs.pw p.wake t0 m preds obs ing ret hnr hrec
      by_cases e : t = t0
      · subst e
        rcases hcase with ⟨_, hsame | hsch, _⟩ | ⟨_, _, hf⟩
        · exfalso
          rw [hsame] at hst
          obtain ⟨r, hr, hid, hfin⟩ := l7_rec_of_finished hst
          exact L.wi.ast p hpm h.ha t m preds obs ing ret hk hw r hr hid hfin
        · rw [hsch] at hst; cases hst
        · unfold FinT; rw [hf]; exact dictGet_dictSet_self _ _ _
      · rw [allocTask_tstat_ne s _ _ _ _ _ _ _ e] at hst
        have ih := A.fin t hw hst
        unfold FinT at ih ⊢
        have hne : t0 ≠ t := fun e' => e e'.symm
        rcases hcase with ⟨_, _, hf | hf⟩ | ⟨_, _, hf⟩
        · rw [hf]; exact ih
        · rw [hf, dictGet_dictSet_ne _ _ hne]; exact ih
        · rw [hf, dictGet_dictSet_ne _ _ hne]; exact ih
    · by_cases htag2 : p.k.tag = "doWork"
      · cases hk : p.k <;> rw [hk] at htag2 <;> simp [PK.tag] at htag2
        rename_i t0 m preds ph tot
        rw [block_doWork orc hk] at hst ⊢
        rcases l7_doWork_tstat s p.wake orc t0 m preds ph tot t with e | ⟨_, e⟩
        · rw [e] at hst
          exact (finT_congr (by rw [l7_doWork_cl]) t).mpr (A.fin t hw hst)
        · rw [e] at hst; cases hst
      · have hfin := (block_taskStep s p orc hno htag htag2).2
        have hsame : tstat (s.block p orc).1 t = tstat s t := by
          by_cases htag3 : p.k.tag = "allocTasks"
          · cases hk : p.k <;> rw [hk] at htag3 <;> simp [PK.tag] at htag3
            rcases l7_allocTasks_tstat L.su hno hpm h.ha orc hk hnewe t with e | ⟨_, e, _⟩
            · exact e
            · rw [e] at hst; cases hst
          · exact l7_block_tstat_other s p orc htag htag2 htag3 hw
        rw [hsame] at hst
        exact (finT_congr hfin t).mpr (A.fin t hw hst)

section
variable {env : SimEnv} {s0 : Sys}

/-- `L7A` at every index of the run -/
theorem live_l7a (C : LiveCfg env s0) (K : LiveKernel env s0) (n : Nat) : L7A (simAt env s0 n).st := by
  induction n with
  | zero => exact l7a_start s0 C.hw
  | succ n ih =>
    obtain ⟨e, p, _, _, _, hstep⟩ := l7_step C K n
    exact l7a_step (l7_lib C K n) hstep ih

end

end Sys

end Topsim
