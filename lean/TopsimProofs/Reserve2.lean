/-
  Reserve2 — batch reservations at cluster level: what `allocBegin`, `allocEnd`,
  `provision_batch_resources` and `release_batch_resources` do to the idle map, the available pool
  and the polling entries; "machine `m` belongs to the reservation of `o`" (`Res`) and the cluster
  changes that keep it (`KeepO`).
-/
import TopsimProofs.Reserve1
import TopsimProofs.PlanFollow1

namespace Topsim
namespace Sys

open Cluster

/-! ### exact effect of the allocation calls on idle map, available pool, polling entries -/

theorem allocBegin_spec (c : Cluster) (t : Tid) (m : Mid) (obs : Option Oid) (ing : Bool)
    (h : (c.allocBegin t m obs ing).2 = none) :
    (c.allocBegin t m obs ing).1.runOn = c.runOn ++ [⟨t, m, obs, ing⟩] ∧
    ((ing = true ∧ (c.allocBegin t m obs ing).1.idle = c.idle ∧
        (c.allocBegin t m obs ing).1.available = c.available) ∨
     (ing = false ∧ m ∈ c.available ∧ (c.allocBegin t m obs ing).1.idle = c.idle ∧
        (c.allocBegin t m obs ing).1.available = c.available.erase m) ∨
     (ing = false ∧ m ∉ c.available ∧ ∃ o l, obs = some o ∧ dictGet c.idle o = some l ∧ m ∈ l ∧
        (c.allocBegin t m obs ing).1.idle = dictSet c.idle o (l.erase m) ∧
        (c.allocBegin t m obs ing).1.available = c.available)) := by
  refine ⟨(allocBegin_fields c t m obs ing h).1, ?_⟩
  generalize hc : c.allocBegin t m obs ing = r at h ⊢
  obtain ⟨c', e'⟩ := r
  simp only at h
  subst h
  unfold allocBegin at hc
  by_cases ht : t ∈ c.running
  · simp [ht] at hc
  · simp only [ht, if_false] at hc
    cases ing with
    | true =>
      simp only [if_true] at hc
      by_cases hm : m ∈ c.ingest
      · simp only [hm, decide_true, Bool.not_true, Bool.false_eq_true, if_false] at hc
        injection hc with hc _
        subst hc
        exact Or.inl ⟨rfl, rfl, rfl⟩
      · simp [hm] at hc
    | false =>
      simp only [Bool.false_eq_true, if_false] at hc
      by_cases hel : (!(decide (m ∈ c.available) || decide (m ∈ c.idleOf obs))) = true
      · simp [hel] at hc
      · simp only [hel] at hc
        right
        unfold setMachineOccupied at hc
        by_cases hav : m ∈ c.available
        · simp only [hav, if_true] at hc
          injection hc with hc _
          subst hc
          exact Or.inl ⟨rfl, hav, rfl, rfl⟩
        · simp only [hav, if_false] at hc
          have hidle : m ∈ c.idleOf obs := by
            simp only [hav, decide_false, Bool.false_or, Bool.not_eq_true', decide_eq_false_iff_not] at hel
            exact Classical.not_not.mp hel
          cases obs with
          | none => simp [Cluster.idleOf] at hidle
          | some o =>
            simp only at hc
            cases hg : dictGet c.idle o with
            | none => simp [Cluster.idleOf, hg] at hidle
            | some l =>
              have hml : m ∈ l := by simpa [Cluster.idleOf, hg] using hidle
              simp only [hg, hml, if_true] at hc
              injection hc with hc _
              subst hc
              exact Or.inr ⟨rfl, hav, o, l, rfl, hg, hml, rfl, rfl⟩

theorem allocEnd_err (c : Cluster) (t : Tid) (m : Mid) (obs : Option Oid) (ing : Bool) (e : Err)
    (h : (c.allocEnd t m obs ing).2 = some e) :
    (c.allocEnd t m obs ing).1.idle = c.idle ∧ (c.allocEnd t m obs ing).1.runOn = c.runOn ∧
    (c.allocEnd t m obs ing).1.available = c.available := by
  generalize hc : c.allocEnd t m obs ing = r at h ⊢
  obtain ⟨c', e'⟩ := r
  simp only at h
  subst h
  unfold allocEnd at hc
  by_cases ht : t ∈ c.running
  · simp only [ht, if_true] at hc
    cases ing with
    | true =>
      simp only [if_true] at hc
      by_cases hm : m ∈ c.ingest
      · simp [hm] at hc
      · simp only [hm, if_false] at hc
        injection hc with hc _
        subst hc
        exact ⟨rfl, rfl, rfl⟩
    | false =>
      simp only [Bool.false_eq_true, if_false] at hc
      unfold setMachineAvailable at hc
      by_cases ho : m ∈ c.occupied
      · simp only [ho, if_true] at hc
        cases obs with
        | none => simp at hc
        | some o =>
          simp only at hc
          cases hg : dictGet c.idle o <;> simp [hg] at hc
      · simp only [ho, if_false] at hc
        injection hc with hc _
        subst hc
        exact ⟨rfl, rfl, rfl⟩
  · simp only [ht, if_false] at hc
    injection hc with hc _
    subst hc
    exact ⟨rfl, rfl, rfl⟩

theorem allocEnd_spec (c : Cluster) (t : Tid) (m : Mid) (obs : Option Oid) (ing : Bool)
    (h : (c.allocEnd t m obs ing).2 = none) :
    (c.allocEnd t m obs ing).1.runOn = c.runOn.erase ⟨t, m, obs, ing⟩ ∧
    ((ing = true ∧ (c.allocEnd t m obs ing).1.idle = c.idle ∧
        (c.allocEnd t m obs ing).1.available = c.available ++ [m]) ∨
     (ing = false ∧ ∃ o l, obs = some o ∧ dictGet c.idle o = some l ∧
        (c.allocEnd t m obs ing).1.idle = dictSet c.idle o (l ++ [m]) ∧
        (c.allocEnd t m obs ing).1.available = c.available) ∨
     (ing = false ∧ (∀ o, obs = some o → dictGet c.idle o = none) ∧
        (c.allocEnd t m obs ing).1.idle = c.idle ∧
        (c.allocEnd t m obs ing).1.available = c.available ++ [m])) := by
  refine ⟨(allocEnd_fields c t m obs ing h).1, ?_⟩
  generalize hc : c.allocEnd t m obs ing = r at h ⊢
  obtain ⟨c', e'⟩ := r
  simp only at h
  subst h
  unfold allocEnd at hc
  by_cases ht : t ∈ c.running
  · simp only [ht, if_true] at hc
    cases ing with
    | true =>
      simp only [if_true] at hc
      by_cases hm : m ∈ c.ingest
      · simp only [hm, if_true] at hc
        injection hc with hc _
        subst hc
        exact Or.inl ⟨rfl, rfl, rfl⟩
      · simp [hm] at hc
    | false =>
      simp only [Bool.false_eq_true, if_false] at hc
      right
      unfold setMachineAvailable at hc
      by_cases ho : m ∈ c.occupied
      · simp only [ho, if_true] at hc
        cases obs with
        | none =>
          simp only at hc
          injection hc with hc _
          subst hc
          exact Or.inr ⟨rfl, fun o e => by simp at e, rfl, rfl⟩
        | some o =>
          simp only at hc
          cases hg : dictGet c.idle o with
          | none =>
            simp only [hg] at hc
            injection hc with hc _
            subst hc
            refine Or.inr ⟨rfl, ?_, rfl, rfl⟩
            intro o' e
            injection e with e
            subst e
            exact hg
          | some l =>
            simp only [hg] at hc
            injection hc with hc _
            subst hc
            exact Or.inl ⟨rfl, o, l, rfl, hg, rfl, rfl⟩
      · simp [ho] at hc
  · simp [ht] at hc

/-! ### other keys of the idle map under the reservation calls -/

theorem addIdleResource_get_ne (c : Cluster) (o : Oid) (m : Mid) (o' : Oid) (hne : o' ≠ o) :
    dictGet (c.addIdleResource o m).1.idle o' = dictGet c.idle o' := by
  have hn : ¬ o = o' := fun e => hne e.symm
  unfold addIdleResource
  by_cases ho : dictHas c.idle o = true
  · simp only [ho, if_true]
    by_cases hm : m ∈ c.available
    · simp only [hm, if_true]
      rw [dictGet_dictSet, if_neg hn]
    · simp only [hm, if_false]
  · simp only [ho, Bool.false_eq_true, if_false]
    have hap : dictGet (c.idle ++ [(o, ([] : List Mid))]) o' = dictGet c.idle o' := by
      rw [dictGet_append_new]
      cases dictGet c.idle o' with
      | none => simp [hn]
      | some x => rfl
    by_cases hm : m ∈ c.available
    · simp only [hm, if_true]
      rw [dictGet_dictSet, if_neg hn]; exact hap
    · simp only [hm, if_false]; exact hap

theorem addIdleAll_get_ne (c : Cluster) (o : Oid) (ms : List Mid) (o' : Oid) (hne : o' ≠ o) :
    dictGet (c.addIdleAll o ms).1.idle o' = dictGet c.idle o' := by
  induction ms generalizing c with
  | nil => rfl
  | cons m rest ih =>
    unfold addIdleAll
    have h1 := addIdleResource_get_ne c o m o' hne
    generalize c.addIdleResource o m = r at h1
    obtain ⟨c1, e1⟩ := r
    cases e1 with
    | some e => exact h1
    | none => exact (ih c1).trans h1

theorem provisionBatch_get_ne (c : Cluster) (n : Nat) (o o' : Oid) (hne : o' ≠ o) :
    dictGet (c.provisionBatch n o).1.idle o' = dictGet c.idle o' := by
  unfold provisionBatch
  simp only
  generalize (if n > c.available.length ∧ c.available.length > 0 then c.available.length else n) = s'
  by_cases hs : s' > c.available.length
  · simp only [hs, if_true]
  · simp only [hs, if_false]
    have h1 := addIdleAll_get_ne c o (c.available.take s') o' hne
    generalize c.addIdleAll o (c.available.take s') = r at h1
    obtain ⟨c1, e1⟩ := r
    cases e1 <;> exact h1

theorem addIdleResource_runOn (c : Cluster) (o : Oid) (m : Mid) :
    (c.addIdleResource o m).1.runOn = c.runOn := by
  unfold addIdleResource
  by_cases h1 : dictHas c.idle o = true <;> by_cases h2 : m ∈ c.available <;> simp [h1, h2]

theorem addIdleAll_runOn (c : Cluster) (o : Oid) (ms : List Mid) : (c.addIdleAll o ms).1.runOn = c.runOn := by
  induction ms generalizing c with
  | nil => rfl
  | cons m rest ih =>
    unfold addIdleAll
    have h1 := addIdleResource_runOn c o m
    generalize c.addIdleResource o m = r at h1
    obtain ⟨c1, e1⟩ := r
    cases e1 with
    | some e => exact h1
    | none => exact (ih c1).trans h1

theorem provisionBatch_runOn (c : Cluster) (n : Nat) (o : Oid) : (c.provisionBatch n o).1.runOn = c.runOn := by
  unfold provisionBatch
  simp only
  generalize (if n > c.available.length ∧ c.available.length > 0 then c.available.length else n) = s'
  by_cases hs : s' > c.available.length
  · simp only [hs, if_true]
  · simp only [hs, if_false]
    have h1 := addIdleAll_runOn c o (c.available.take s')
    generalize c.addIdleAll o (c.available.take s') = r at h1
    obtain ⟨c1, e1⟩ := r
    cases e1 <;> exact h1

theorem releaseBatch_get_ne (c : Cluster) (o o' : Oid) (hne : o' ≠ o) :
    dictGet (c.releaseBatch o).idle o' = dictGet c.idle o' := by
  unfold releaseBatch
  split
  · rfl
  · simp only
    split
    · exact dictGet_dictErase_ne _ _ _ hne
    · rfl

/-- nothing to release: the cluster is unchanged -/
theorem releaseBatch_none (c : Cluster) (o : Oid) (h : dictGet c.idle o = none) : c.releaseBatch o = c := by
  unfold releaseBatch; rw [h]

/-! ### a machine of the reservation of an observation -/

/-- observation `o` holds a reservation -/
def HasRes (c : Cluster) (o : Oid) : Prop := ∃ l, dictGet c.idle o = some l

/-- machine `m` is in the reservation of `o`: in its idle list, or occupied by a task that was
allocated for `o` (and will return it to that list) -/
def Res (c : Cluster) (m : Mid) (o : Oid) : Prop :=
  ∃ l, dictGet c.idle o = some l ∧ (m ∈ l ∨ ∃ e ∈ c.runOn, e.mach = m ∧ e.obs = some o ∧ e.ing = false)

theorem Res.has {c : Cluster} {m : Mid} {o : Oid} (h : Res c m o) : HasRes c o := by
  obtain ⟨l, hl, _⟩ := h; exact ⟨l, hl⟩

/-- a cluster change that keeps the reservation of `o`: its idle machines stay idle for `o` or are
given to a task allocated for `o`; a task allocated for `o` keeps polling or has returned its
machine to the idle list of `o` -/
def KeepO (c c' : Cluster) (o : Oid) : Prop :=
  (∀ l, dictGet c.idle o = some l → ∃ l', dictGet c'.idle o = some l' ∧
    ∀ m ∈ l, m ∈ l' ∨ ∃ e ∈ c'.runOn, e.mach = m ∧ e.obs = some o ∧ e.ing = false) ∧
  (∀ e ∈ c.runOn, e.obs = some o → e.ing = false →
    e ∈ c'.runOn ∨ ∃ l', dictGet c'.idle o = some l' ∧ e.mach ∈ l')

theorem KeepO.of_eq {c c' : Cluster} (hi : c'.idle = c.idle) (hr : c'.runOn = c.runOn) (o : Oid) :
    KeepO c c' o := by
  refine ⟨fun l hl => ⟨l, by rw [hi]; exact hl, fun m hm => Or.inl hm⟩, fun e he _ _ => Or.inl ?_⟩
  rw [hr]; exact he

theorem KeepO.refl (c : Cluster) (o : Oid) : KeepO c c o := KeepO.of_eq rfl rfl o

theorem HasRes.keep {c c' : Cluster} {o : Oid} (h : HasRes c o) (hk : KeepO c c' o) : HasRes c' o := by
  obtain ⟨l, hl⟩ := h
  obtain ⟨l', hl', _⟩ := hk.1 l hl
  exact ⟨l', hl'⟩

theorem Res.keep {c c' : Cluster} {m : Mid} {o : Oid} (h : Res c m o) (hk : KeepO c c' o) : Res c' m o := by
  obtain ⟨l, hl, hm⟩ := h
  obtain ⟨l', hl', hsub⟩ := hk.1 l hl
  rcases hm with hm | ⟨e, he, h1, h2, h3⟩
  · exact ⟨l', hl', hsub m hm⟩
  · rcases hk.2 e he h2 h3 with h4 | ⟨l'', hl'', h4⟩
    · exact ⟨l', hl', Or.inr ⟨e, h4, h1, h2, h3⟩⟩
    · exact ⟨l'', hl'', Or.inl (by rw [← h1]; exact h4)⟩

/-- the first block of an allocation process keeps every reservation -/
theorem allocBegin_keepO (c : Cluster) (t : Tid) (m : Mid) (obs : Option Oid) (ing : Bool) (o : Oid) :
    KeepO c (c.allocBegin t m obs ing).1 o := by
  cases hok : (c.allocBegin t m obs ing).2 with
  | some e => rw [allocBegin_err_unchanged c t m obs ing e hok]; exact KeepO.refl c o
  | none =>
    obtain ⟨hr, hcase⟩ := allocBegin_spec c t m obs ing hok
    have hrun : ∀ e ∈ c.runOn, e ∈ (c.allocBegin t m obs ing).1.runOn := by
      intro e he; rw [hr]; exact List.mem_append_left _ he
    rcases hcase with ⟨_, hi, _⟩ | ⟨_, _, hi, _⟩ | ⟨hing, _, o1, l1, hobs, hg, hml, hi, _⟩
    · exact ⟨fun l hl => ⟨l, by rw [hi]; exact hl, fun x hx => Or.inl hx⟩, fun e he _ _ => Or.inl (hrun e he)⟩
    · exact ⟨fun l hl => ⟨l, by rw [hi]; exact hl, fun x hx => Or.inl hx⟩, fun e he _ _ => Or.inl (hrun e he)⟩
    · refine ⟨fun l hl => ?_, fun e he _ _ => Or.inl (hrun e he)⟩
      by_cases e1 : o1 = o
      · subst e1
        rw [hg] at hl
        injection hl with hl
        subst hl
        refine ⟨l1.erase m, by rw [hi, dictGet_dictSet, if_pos rfl], fun x hx => ?_⟩
        by_cases hxm : x = m
        · right
          refine ⟨⟨t, m, obs, ing⟩, by rw [hr]; simp, hxm.symm, hobs, hing⟩
        · exact Or.inl ((List.mem_erase_of_ne hxm).mpr hx)
      · exact ⟨l, by rw [hi, dictGet_dictSet, if_neg e1]; exact hl, fun x hx => Or.inl hx⟩

/-- the last block of an allocation process keeps every reservation, provided the observation it
allocated for still holds one -/
theorem allocEnd_keepO (c : Cluster) (t : Tid) (m : Mid) (obs : Option Oid) (ing : Bool)
    (hres : ing = false → ∀ o1, obs = some o1 → HasRes c o1) (o : Oid) :
    KeepO c (c.allocEnd t m obs ing).1 o := by
  cases hok : (c.allocEnd t m obs ing).2 with
  | some e =>
    obtain ⟨h1, h2, _⟩ := allocEnd_err c t m obs ing e hok
    exact KeepO.of_eq h1 h2 o
  | none =>
    obtain ⟨hr, hcase⟩ := allocEnd_spec c t m obs ing hok
    have hrun : ∀ e ∈ c.runOn, e ≠ ⟨t, m, obs, ing⟩ → e ∈ (c.allocEnd t m obs ing).1.runOn := by
      intro e he hne; rw [hr]; exact (List.mem_erase_of_ne hne).mpr he
    rcases hcase with ⟨hing, hi, _⟩ | ⟨hing, o1, l1, hobs, hg, hi, _⟩ | ⟨hing, hno, hi, _⟩
    · refine ⟨fun l hl => ⟨l, by rw [hi]; exact hl, fun x hx => Or.inl hx⟩, fun e he _ h3 => Or.inl ?_⟩
      apply hrun e he
      intro e1
      rw [e1] at h3
      simp only at h3
      rw [hing] at h3
      exact absurd h3 (by simp)
    · constructor
      · intro l hl
        by_cases e1 : o1 = o
        · subst e1
          rw [hg] at hl
          injection hl with hl
          subst hl
          exact ⟨l1 ++ [m], by rw [hi, dictGet_dictSet, if_pos rfl],
            fun x hx => Or.inl (List.mem_append_left _ hx)⟩
        · exact ⟨l, by rw [hi, dictGet_dictSet, if_neg e1]; exact hl, fun x hx => Or.inl hx⟩
      · intro e he h2 h3
        by_cases hne : e = ⟨t, m, obs, ing⟩
        · right
          subst hne
          simp only at h2
          rw [hobs] at h2
          injection h2 with h2
          subst h2
          exact ⟨l1 ++ [m], by rw [hi, dictGet_dictSet, if_pos rfl], by simp⟩
        · exact Or.inl (hrun e he hne)
    · refine ⟨fun l hl => ⟨l, by rw [hi]; exact hl, fun x hx => Or.inl hx⟩, fun e he h2 h3 => Or.inl ?_⟩
      apply hrun e he
      intro e1
      subst e1
      simp only at h2
      obtain ⟨l, hl⟩ := hres hing o h2
      rw [hno o h2] at hl
      exact absurd hl (by simp)

/-- the idle list of `o` and the polling entries are the same -/
def SameO (c c' : Cluster) (o : Oid) : Prop := dictGet c'.idle o = dictGet c.idle o ∧ c'.runOn = c.runOn

theorem SameO.refl (c : Cluster) (o : Oid) : SameO c c o := ⟨rfl, rfl⟩

theorem SameO.trans {a b c : Cluster} {o : Oid} (h1 : SameO a b o) (h2 : SameO b c o) : SameO a c o :=
  ⟨h2.1.trans h1.1, h2.2.trans h1.2⟩

theorem SameO.keep {c c' : Cluster} {o : Oid} (h : SameO c c' o) : KeepO c c' o := by
  refine ⟨fun l hl => ⟨l, by rw [h.1]; exact hl, fun x hx => Or.inl hx⟩, fun e he _ _ => Or.inl ?_⟩
  rw [h.2]; exact he

/-- the reservation calls for observation `oid` leave the reservation of every other observation alone -/
theorem provisionBatch_sameO (c : Cluster) (n : Nat) (oid o : Oid) (hne : o ≠ oid) :
    SameO c (c.provisionBatch n oid).1 o :=
  ⟨provisionBatch_get_ne c n oid o hne, provisionBatch_runOn c n oid⟩

theorem releaseBatch_sameO (c : Cluster) (oid o : Oid) (hne : o ≠ oid) : SameO c (c.releaseBatch oid) o :=
  ⟨releaseBatch_get_ne c oid o hne, releaseBatch_runOn c oid⟩

end Sys
end Topsim
