/-
  Lemmas behind TopsimProps/Pause.lean.

  * a `do_work` block does not change the row the monitor writes;
  * the handler commutes with the hand-over (`collate`) on `do_work` events and
    absorbs it on the monitor's event;
  * hence a run from a collated state and the run from the original state stay
    in the relation `PauseRel` until the monitor is resumed, and coincide
    afterwards.
-/
import TopsimProofs.MonitorFirst

namespace Topsim
namespace Sys

/-! ### the row ignores `do_work` -/

/-- everything `mkRow` reads -/
def RowSame (s s' : Sys) : Prop :=
  s'.cl = s.cl ∧ s'.buf = s.buf ∧ s'.obs = s.obs ∧ s'.queue = s.queue ∧
  s'.schedDelayed = s.schedDelayed ∧ s'.delayOffset = s.delayOffset

theorem RowSame.refl (s : Sys) : RowSame s s := ⟨rfl, rfl, rfl, rfl, rfl, rfl⟩

theorem RowSame.trans {a b c : Sys} (h1 : RowSame a b) (h2 : RowSame b c) : RowSame a c := by
  obtain ⟨a1, a2, a3, a4, a5, a6⟩ := h1
  obtain ⟨b1, b2, b3, b4, b5, b6⟩ := h2
  exact ⟨b1.trans a1, b2.trans a2, b3.trans a3, b4.trans a4, b5.trans a5, b6.trans a6⟩

theorem RowSame.mkRow {s s' : Sys} (h : RowSame s s') (n : Nat) : s'.mkRow n = s.mkRow n := by
  obtain ⟨h1, h2, h3, h4, h5, h6⟩ := h
  simp [Sys.mkRow, obsDelay, h1, h2, h3, h4, h5, h6]

theorem doWorkBlock_rowSame (s : Sys) (now : Time) (orc : Oracle) (t : Tid) (m : Mid)
    (preds : List Tid) (phase total : Nat) :
    RowSame s (s.doWorkBlock now orc t m preds phase total).1 := by
  unfold doWorkBlock
  simp only
  repeat' split
  all_goals exact ⟨rfl, rfl, rfl, rfl, rfl, rfl⟩

theorem block_dw_rowSame (s : Sys) (p : Proc) (orc : Oracle) (h : p.k.isDoWork = true) :
    RowSame s (s.block p orc).1 := by
  unfold block
  simp only
  split
  all_goals (rename_i hk; rw [hk] at h)
  all_goals first
    | (simp [PK.isDoWork] at h; done)
    | exact doWorkBlock_rowSame _ _ _ _ _ _ _ _

theorem updProc_rowSame (s : Sys) (pid : Nat) (f : Proc → Proc) : RowSame s (s.updProc pid f) :=
  ⟨rfl, rfl, rfl, rfl, rfl, rfl⟩

theorem crash_rowSame (s : Sys) (e : Err) : RowSame s (s.crash e) := by
  unfold crash
  split <;> exact ⟨rfl, rfl, rfl, rfl, rfl, rfl⟩

theorem resume_dw_rowSame (s : Sys) (pid : Nat) (orc : Oracle) (p : Proc)
    (hp : s.proc? pid = some p) (hk : p.k.isDoWork = true) : RowSame s (s.resume pid orc).1 := by
  rcases resume_cases s pid orc with ⟨h1, _⟩ | ⟨q, hq, _, _, f, _, hs⟩
  · rw [h1]; exact RowSame.refl s
  · rw [hp] at hq
    cases hq
    have hb := block_dw_rowSame s p orc hk
    rcases hs with hs | ⟨e, hs⟩
    · rw [hs]; exact hb.trans (updProc_rowSame _ _ _)
    · rw [hs]; exact (hb.trans (updProc_rowSame _ _ _)).trans (crash_rowSame _ _)

theorem resume_dw_mkRow (s : Sys) (pid : Nat) (orc : Oracle) (p : Proc)
    (hp : s.proc? pid = some p) (hk : p.k.isDoWork = true) (n : Nat) :
    (s.resume pid orc).1.mkRow n = s.mkRow n :=
  (resume_dw_rowSame s pid orc p hp hk).mkRow n

/-! ### `collate` and `resume` -/

theorem isDoWork_iff (k : PK) (h : k.isDoWork = true) :
    ∃ t m pr ph tot, k = .doWork t m pr ph tot := by
  cases k <;> simp [PK.isDoWork] at h
  exact ⟨_, _, _, _, _, rfl⟩

@[simp] theorem collate_nextPid (s : Sys) : s.collate.nextPid = s.nextPid := rfl
@[simp] theorem collate_halted (s : Sys) : s.collate.halted = s.halted := rfl

theorem collate_isDW (s : Sys) (pid : Nat) : s.collate.isDW pid ↔ s.isDW pid := Iff.rfl
theorem collate_isMon (s : Sys) : s.collate.isMon ↔ s.isMon := Iff.rfl

theorem collate_resume_dw (s : Sys) (pid : Nat) (orc : Oracle) (h : s.isDW pid) :
    s.collate.resume pid orc = ((s.resume pid orc).1.collate, (s.resume pid orc).2) := by
  obtain ⟨p, hp, hk⟩ := h
  have hc := collate_doWork s pid orc p hp (isDoWork_iff p.k hk)
  exact Prod.ext hc.1 hc.2

theorem collate_resume_mon (s : Sys) (orc : Oracle) (h : s.isMon) :
    s.collate.resume 0 orc = s.resume 0 orc := by
  obtain ⟨p, hp, hk, ha⟩ := h
  have hb : s.collate.block p orc = s.block p orc := by
    unfold block
    simp only [hk]
    rw [collate_monitor]
  unfold resume
  simp only [collate_proc?, hp, ha, hb]
  simp

end Sys

/-! ### `collate` and the handler -/

theorem oracle_collate (env : SimEnv) (s : Sys) : env.oracle s.collate = env.oracle s := rfl

theorem simHandler_dw_mkRow (env : SimEnv) (s : Sys) (pid : Nat) (now : Time) (h : s.isDW pid)
    (n : Nat) : (simHandler env s pid now).1.mkRow n = s.mkRow n := by
  rcases simHandler_cases env s pid now with ⟨hc, _⟩ | ⟨hc, _, _⟩
  · rw [hc]; rfl
  · rw [hc]
    obtain ⟨p, hp, hk⟩ := h
    exact Sys.resume_dw_mkRow s pid _ p hp hk n

/-- on a `do_work` event the handler commutes with the hand-over -/
theorem simHandler_collate_dw (env : SimEnv) (s : Sys) (pid : Nat) (now : Time)
    (h : s.isDW pid) :
    simHandler env s.collate pid now =
      ((simHandler env s pid now).1.collate, (simHandler env s pid now).2) := by
  have hr := Sys.collate_resume_dw s pid (env.oracle s) h
  obtain ⟨p, hp, _⟩ := h
  unfold simHandler
  simp only [Sys.collate_proc?, hp, oracle_collate, hr, Sys.collate_nextPid]
  split
  · rfl
  · generalize s.resume pid (env.oracle s) = r
    obtain ⟨s1, y⟩ := r
    cases y <;> rfl

/-- on the monitor's event the hand-over is absorbed -/
theorem simHandler_collate_mon (env : SimEnv) (s : Sys) (now : Time) (h : s.isMon) :
    simHandler env s.collate 0 now = simHandler env s 0 now := by
  have hr := Sys.collate_resume_mon s (env.oracle s) h
  obtain ⟨p, hp, _, ha⟩ := h
  unfold simHandler
  simp only [Sys.collate_proc?, oracle_collate, hr, Sys.collate_nextPid, hp, ha]
  simp

/-! ### one kernel step as a function of the handler's answer -/

namespace KState

variable {σ : Type}

theorem peek_congr {a b : KState σ} (h : a.heap = b.heap) : a.peek = b.peek := by
  rw [peek_eq, peek_eq, h]

/-- the successor state, given the handler's answer `r` for the popped entry `e` -/
def next (r : σ × List Nat × Option Time) (heap : List HEntry) (eid : Nat) (e : HEntry) :
    KState σ :=
  match r.2.2 with
  | some d =>
    { st := r.1,
      heap := (pushInits (heap.erase e) eid e.time r.2.1).1 ++
        [⟨e.time + d, 1, (pushInits (heap.erase e) eid e.time r.2.1).2, e.pid⟩],
      eid := (pushInits (heap.erase e) eid e.time r.2.1).2 + 1 }
  | none =>
    { st := r.1,
      heap := (pushInits (heap.erase e) eid e.time r.2.1).1,
      eid := (pushInits (heap.erase e) eid e.time r.2.1).2 }

theorem step_next (h : Handler σ) (k : KState σ) (e : HEntry) (hp : k.peek = some e) :
    k.step h = some (next (h k.st e.pid e.time) k.heap k.eid e) :=
  step_eq h k e hp

theorem next_st (r : σ × List Nat × Option Time) (heap : List HEntry) (eid : Nat) (e : HEntry) :
    (next r heap eid e).st = r.1 := by
  unfold next
  split <;> rfl

theorem next_map (f : σ → σ) (r : σ × List Nat × Option Time) (heap : List HEntry) (eid : Nat)
    (e : HEntry) :
    next (f r.1, r.2) heap eid e =
      { next r heap eid e with st := f (next r heap eid e).st } := by
  unfold next
  simp only
  split <;> rfl

theorem next_keep (r : σ × List Nat × Option Time) (heap : List HEntry) (eid : Nat) (e x : HEntry)
    (hx : x ∈ heap.erase e) : x ∈ (next r heap eid e).heap := by
  unfold next
  split
  · exact List.mem_append_left _ (pushInits_sub _ _ _ _ _ hx)
  · exact pushInits_sub _ _ _ _ _ hx

theorem next_mem (r : σ × List Nat × Option Time) (heap : List HEntry) (eid : Nat) (e x : HEntry)
    (hx : x ∈ (next r heap eid e).heap) :
    x ∈ heap.erase e ∨ x.pid ∈ r.2.1 ∨ x.pid = e.pid := by
  unfold next at hx
  split at hx
  · rcases List.mem_append.mp hx with hx | hx
    · rcases pushInits_mem _ _ _ _ _ hx with h1 | ⟨_, _, h1⟩
      · exact Or.inl h1
      · exact Or.inr (Or.inl h1)
    · simp only [List.mem_singleton] at hx
      subst hx
      exact Or.inr (Or.inr rfl)
  · rcases pushInits_mem _ _ _ _ _ hx with h1 | ⟨_, _, h1⟩
    · exact Or.inl h1
    · exact Or.inr (Or.inl h1)

end KState

open KState

/-! ### step boundaries and the pause relation -/

/-- **Step boundary** (a pause point): the monitor is alive and its heap entry
precedes, in the event order, every other entry whose process is not a
`do_work` body — i.e. the next event that is not a `do_work` is the monitor's. -/
def Bdy (k : SimState) : Prop :=
  k.st.isMon ∧ ∃ m ∈ k.heap, m.pid = 0 ∧
    ∀ x ∈ k.heap, x ≠ m → ¬ k.st.isDW x.pid → m.lt x = true

/-- `a` is `b` after an extra hand-over -/
def PauseRel (a b : SimState) : Prop :=
  a.heap = b.heap ∧ a.eid = b.eid ∧ a.st = b.st.collate

theorem PauseRel.of_collate (k : SimState) : PauseRel { k with st := k.st.collate } k :=
  ⟨rfl, rfl, rfl⟩

theorem PauseRel.eq {a b : SimState} (h : PauseRel a b) : a = { b with st := b.st.collate } := by
  obtain ⟨h1, h2, h3⟩ := h
  obtain ⟨ast, aheap, aeid⟩ := a
  simp only at h1 h2 h3
  subst h1 h2 h3
  rfl

/-- what "invisible" means: same heap, same counter, same state up to a hand-over -/
def PauseEq (a b : SimState) : Prop :=
  a.st.collate = b.st.collate ∧ a.heap = b.heap ∧ a.eid = b.eid

theorem PauseEq.of_eq {a b : SimState} (h : a = b) : PauseEq a b := by
  subst h; exact ⟨rfl, rfl, rfl⟩

theorem PauseEq.of_rel {a b : SimState} (h : PauseRel a b) : PauseEq a b := by
  obtain ⟨h1, h2, h3⟩ := h
  exact ⟨by rw [h3, Sys.collate_collate], h1, h2⟩

/-- at a step boundary an event other than the monitor's is a `do_work` -/
theorem Bdy.popped_dw {k : SimState} {m e : HEntry} (hm : m ∈ k.heap)
    (hfirst : ∀ x ∈ k.heap, x ≠ m → ¬ k.st.isDW x.pid → m.lt x = true)
    (hp : k.peek = some e) (hem : e ≠ m) : k.st.isDW e.pid := by
  obtain ⟨he, hleast⟩ := peek_spec k e hp
  apply Classical.byContradiction
  intro hdw
  have h1 := hfirst e he hem hdw
  rw [hleast m hm] at h1
  cases h1

/-- one step from related states: the monitor's event makes them equal, a
`do_work` event keeps them related and at a boundary -/
theorem pause_step (env : SimEnv) (a b a' b' : SimState) (hb : Bdy b) (hr : PauseRel a b)
    (hsa : a.step (simHandler env) = some a') (hsb : b.step (simHandler env) = some b') :
    a' = b' ∨ (PauseRel a' b' ∧ Bdy b') := by
  have ha := hr.eq
  subst ha
  cases hp : b.peek with
  | none => simp [KState.step, hp] at hsb
  | some e =>
    have hpa : ({ b with st := b.st.collate } : SimState).peek = some e := hp
    rw [step_next _ _ e hpa] at hsa
    rw [step_next _ _ e hp] at hsb
    simp only at hsa
    obtain ⟨hmon, m, hm, hmpid, hfirst⟩ := hb
    by_cases hem : e = m
    · left
      subst hem
      rw [hmpid, simHandler_collate_mon env b.st e.time hmon] at hsa
      rw [hmpid] at hsb
      exact Option.some.inj (hsa.symm.trans hsb)
    · right
      have hdw := Bdy.popped_dw hm hfirst hp hem
      rw [simHandler_collate_dw env b.st e.pid e.time hdw, next_map] at hsa
      cases hsa
      cases hsb
      refine ⟨⟨rfl, rfl, rfl⟩, ?_, m, ?_, hmpid, ?_⟩
      · rw [next_st]; exact simHandler_isMon env _ _ _ hmon
      · exact next_keep _ _ _ _ _ ((List.mem_erase_of_ne (Ne.symm hem)).mpr hm)
      · intro x hx hxm hxdw
        rw [next_st] at hxdw
        rcases next_mem _ _ _ _ _ hx with h1 | h1 | h1
        · apply hfirst x (List.mem_of_mem_erase h1) hxm
          intro hd
          exact hxdw (simHandler_isDW env _ _ _ _ hd)
        · rw [simHandler_quiet env b.st e.pid e.time hdw] at h1
          cases h1
        · exfalso
          apply hxdw
          rw [h1]
          exact simHandler_isDW env _ _ _ _ hdw

/-- the relational form: runs until `v` from related states end in equal or
related states -/
theorem pause_runsTo (env : SimEnv) (v : Time) (a b a' b' : SimState) (hb : Bdy b)
    (hr : PauseRel a b) (ha : RunsTo (simHandler env) v a a')
    (hb' : RunsTo (simHandler env) v b b') : a' = b' ∨ PauseRel a' b' := by
  induction ha generalizing b b' with
  | idle a hp =>
    have hpb : b.peek = none := by rw [← peek_congr hr.1]; exact hp
    cases hb' with
    | idle _ _ => exact Or.inr hr
    | stop _ _ _ _ => exact Or.inr hr
    | step _ _ _ e hp' _ _ _ => rw [hpb] at hp'; cases hp'
  | stop a e hp hu =>
    have hpb : b.peek = some e := by rw [← peek_congr hr.1]; exact hp
    cases hb' with
    | idle _ _ => exact Or.inr hr
    | stop _ _ _ _ => exact Or.inr hr
    | step _ _ _ e' hp' hlt _ _ =>
      rw [hpb] at hp'; cases hp'
      exact absurd hlt (by grind)
  | step a a1 a2 e hp hlt hs hrun ih =>
    have hpb : b.peek = some e := by rw [← peek_congr hr.1]; exact hp
    cases hb' with
    | idle _ hp' => rw [hpb] at hp'; cases hp'
    | stop _ e' hp' hu =>
      rw [hpb] at hp'; cases hp'
      exact absurd hlt (by grind)
    | step _ b1 _ e' hp' _ hs' hr' =>
      rcases pause_step env a b a1 b1 hb hr hs hs' with h1 | ⟨h1, h2⟩
      · subst h1
        exact Or.inl (runsTo_deterministic _ _ _ _ _ hrun hr')
      · exact ih b1 b' h2 h1 hr'

theorem pause_runsTo_eq (env : SimEnv) (v : Time) (k k1 k2 : SimState) (hb : Bdy k)
    (h1 : RunsTo (simHandler env) v { k with st := k.st.collate } k1)
    (h2 : RunsTo (simHandler env) v k k2) : PauseEq k1 k2 := by
  rcases pause_runsTo env v _ k k1 k2 hb (PauseRel.of_collate k) h1 h2 with h | h
  · exact PauseEq.of_eq h
  · exact PauseEq.of_rel h

/-! ### the executable loop -/

namespace SimState

theorem runUntil_halted (env : SimEnv) (u : Time) (n : Nat) (k : SimState)
    (h : k.st.halted = true) : runUntil env u (n + 1) k = k := by
  simp [runUntil, h]

theorem runUntil_none (env : SimEnv) (u : Time) (n : Nat) (k : SimState)
    (h : k.st.halted = false) (hp : k.peek = none) : runUntil env u (n + 1) k = k := by
  simp [runUntil, h, hp]

theorem runUntil_stop (env : SimEnv) (u : Time) (n : Nat) (k : SimState) (e : HEntry)
    (h : k.st.halted = false) (hp : k.peek = some e) (hu : ¬ e.time < u) :
    runUntil env u (n + 1) k = k := by
  simp [runUntil, h, hp, hu]

theorem runUntil_step (env : SimEnv) (u : Time) (n : Nat) (k k1 : SimState) (e : HEntry)
    (h : k.st.halted = false) (hp : k.peek = some e) (hu : e.time < u)
    (hs : k.step (simHandler env) = some k1) :
    runUntil env u (n + 1) k = runUntil env u n k1 := by
  simp [runUntil, h, hp, hu, hs]

end SimState

theorem pause_runUntil (env : SimEnv) (v : Time) (fuel : Nat) (a b : SimState) (hb : Bdy b)
    (hr : PauseRel a b) :
    SimState.runUntil env v fuel a = SimState.runUntil env v fuel b ∨
    PauseRel (SimState.runUntil env v fuel a) (SimState.runUntil env v fuel b) := by
  induction fuel generalizing a b with
  | zero => exact Or.inr hr
  | succ n ih =>
    have hh : a.st.halted = b.st.halted := by rw [hr.2.2]; rfl
    have hpk : a.peek = b.peek := peek_congr hr.1
    cases hhal : b.st.halted with
    | true =>
      rw [SimState.runUntil_halted env v n a (hh.trans hhal),
        SimState.runUntil_halted env v n b hhal]
      exact Or.inr hr
    | false =>
      have hhala := hh.trans hhal
      cases hp : b.peek with
      | none =>
        rw [SimState.runUntil_none env v n a hhala (hpk.trans hp),
          SimState.runUntil_none env v n b hhal hp]
        exact Or.inr hr
      | some e =>
        by_cases hu : e.time < v
        · obtain ⟨a1, hsa⟩ := step_isSome (simHandler env) a e (hpk.trans hp)
          obtain ⟨b1, hsb⟩ := step_isSome (simHandler env) b e hp
          rw [SimState.runUntil_step env v n a a1 e hhala (hpk.trans hp) hu hsa,
            SimState.runUntil_step env v n b b1 e hhal hp hu hsb]
          rcases pause_step env a b a1 b1 hb hr hsa hsb with h1 | ⟨h1, h2⟩
          · left; rw [h1]
          · exact ih a1 b1 h2 h1
        · rw [SimState.runUntil_stop env v n a e hhala (hpk.trans hp) hu,
            SimState.runUntil_stop env v n b e hhal hp hu]
          exact Or.inr hr

/-- `resume(until=v)` after an extra hand-over: same heap, same counter, same
state up to a hand-over — and literally the same result unless the run halted
(the exception left `env.run`) before the monitor ran again -/
theorem pause_resumeUntil (env : SimEnv) (k : SimState) (hb : Bdy k) (v fuel : Nat) :
    PauseEq (SimState.resumeUntil env { k with st := k.st.collate } v fuel)
        (SimState.resumeUntil env k v fuel) ∧
    ((SimState.resumeUntil env k v fuel).st.halted = false →
      SimState.resumeUntil env { k with st := k.st.collate } v fuel =
        SimState.resumeUntil env k v fuel) := by
  unfold SimState.resumeUntil
  simp only
  rcases pause_runUntil env v fuel _ k hb (PauseRel.of_collate k) with h | h
  · rw [h]; exact ⟨PauseEq.of_eq rfl, fun _ => rfl⟩
  · have he := h.eq
    generalize SimState.runUntil env (v : Time) fuel { k with st := k.st.collate } = X at *
    generalize SimState.runUntil env (v : Time) fuel k = Y at *
    subst he
    simp only [Sys.collate_halted]
    by_cases hhal : Y.st.halted = true
    · simp only [hhal, if_true]
      refine ⟨⟨Sys.collate_collate _, rfl, rfl⟩, ?_⟩
      intro hf
      cases hf
    · simp only [hhal, Sys.collate_collate]
      exact ⟨⟨rfl, rfl, rfl⟩, fun _ => rfl⟩

/-! ### where boundaries come from -/

/-- with `MonFirst`: every pending entry is at or after `u` and the monitor's
wake-up is not later than `u` -/
theorem Bdy.of_monFirst (k : SimState) (inv : MonFirst k) (u : Time)
    (hall : ∀ x ∈ k.heap, u ≤ x.time) (hmon : ∀ x ∈ k.heap, x.pid = 0 → x.time ≤ u) :
    Bdy k := by
  obtain ⟨m, hm, hmpid, _, hfirst⟩ := inv.first
  refine ⟨inv.mon, m, hm, hmpid, ?_⟩
  intro x hx hxm hxdw
  rcases hfirst x hx hxm hxdw with h | ⟨_, h⟩
  · exfalso
    have h1 := hall x hx
    have h2 := hmon m hm hmpid
    grind
  · exact h

theorem Bdy.start (s : Sys) (h1 : s.procs = []) (h2 : s.nextPid = 0) :
    Bdy (SimState.start s) := by
  apply Bdy.of_monFirst _ (MonFirst.init s h1 h2) 0
  all_goals
    intro x hx
    rw [(SimState.start_heap s).1] at hx
    simp only [List.mem_cons, List.not_mem_nil, or_false] at hx
    rcases hx with rfl | rfl | rfl | rfl | rfl <;> simp

/-! ### the row at the beginning of the step -/

/-- at a step boundary, every event before the monitor's leaves the row unchanged -/
theorem Bdy.step_mkRow (env : SimEnv) (k k' : SimState) (m e : HEntry) (hm : m ∈ k.heap)
    (hfirst : ∀ x ∈ k.heap, x ≠ m → ¬ k.st.isDW x.pid → m.lt x = true)
    (hp : k.peek = some e) (hs : k.step (simHandler env) = some k') (hem : e ≠ m) (n : Nat) :
    k'.st.mkRow n = k.st.mkRow n := by
  have hdw := Bdy.popped_dw hm hfirst hp hem
  rw [step_next _ _ e hp] at hs
  cases hs
  rw [next_st]
  exact simHandler_dw_mkRow env k.st e.pid e.time hdw n

theorem MonFirst.step_mkRow (env : SimEnv) (k : SimState) (inv : MonFirst k) :
    ∃ m ∈ k.heap, m.pid = 0 ∧ ∀ e k', k.peek = some e → k.step (simHandler env) = some k' →
      e ≠ m → e.time = m.time → ∀ n, k'.st.mkRow n = k.st.mkRow n := by
  obtain ⟨m, hm, hmpid, _, hfirst⟩ := inv.first
  refine ⟨m, hm, hmpid, ?_⟩
  intro e k' hp hs hem ht n
  obtain ⟨he, hleast⟩ := peek_spec k e hp
  have hdw : k.st.isDW e.pid := by
    apply Classical.byContradiction
    intro hdw
    rcases hfirst e he hem hdw with h | ⟨_, h⟩
    · grind
    · rw [hleast m hm] at h; cases h
  rw [step_next _ _ e hp] at hs
  cases hs
  rw [next_st]
  exact simHandler_dw_mkRow env k.st e.pid e.time hdw n

end Topsim
