/-
  BoundP1 — C05, the numeric clause (the serial bound) for the two plan-following algorithms
  (DynamicSchedulingFromPlan, GreedySchedulingFromPlan, static plans) on the simulator: vocabulary
  and the decomposition into parts.  The counterpart of Bound1 (QueueProcessing); the definitions
  that do not depend on the algorithm (`boundTau`, `boundLatest`, `boundRt`, `boundWait`,
  `Proc.BoundWorker`, `Sys.BoundEn`, …) are those of Bound1.

  THE DIFFERENCE.  `do_work` takes its duration from the machine when the task carries work
  (`comp > 0` or `task_data > 0`), and otherwise runs the PLANNED duration `eft - est` of its record
  (`nominalDuration`).  Batch planning plans duration 0 for such a task; a static plan plans whatever
  its row says, and nothing in `PlanOk` ties `eft - est` of a row to the work of the node.  So the
  weight of the start of a workflow task is here
      `boundP_WAT` = max (max 1 (runtime on the slowest machine)) (planned duration if the node has no work)
                     + ⌈largest incoming transfer / slowest bandwidth⌉ + 1,
  `boundP_planDur env o node` being the largest `eft - est` among the rows of the plan of `o` that
  name `node`.  With this weight the accounting of Bound1–10 goes through unchanged: while a task waits
  for its planned machine some worker process is alive, and the life of every worker is pre-paid by
  the stage that created it.
-/
import TopsimProofs.Bound10
import TopsimProofs.LiveP22

namespace Topsim

open KState Sys

/-- the largest planned duration `eft - est` among the rows of the static plan of `o` naming `node` -/
def boundP_planDur (env : SimEnv) (o : Obs) (node : Nat) : Nat :=
  (((env.rowsOf o.id).filter (fun x => x.1 = node)).map (fun x => x.2.2.2 - x.2.2.1)).foldl max 0

/-- the planned duration of a node WITHOUT work (`comp = 0` and `task_data = 0`), 0 for a node with
work: what `do_work` runs instead of a runtime computed from the machine -/
def boundP_zdur (env : SimEnv) (o : Obs) (node : Nat) : Nat :=
  if (boundAttrs o node).2.1 = 0 ∧ (boundAttrs o node).2.2 = 0 then boundP_planDur env o node else 0

/-- occupancy of the node: on the slowest machine, or its planned duration when it has no work -/
def boundP_Rt (env : SimEnv) (s0 : Sys) (o : Obs) (node : Nat) : Nat :=
  max (boundRt s0 o node) (boundP_zdur env o node)

/-- weight of the start of a workflow task -/
def boundP_WAT (env : SimEnv) (s0 : Sys) (o : Obs) (node : Nat) : Nat :=
  boundP_Rt env s0 o node + boundWait s0 o node + 1

open Classical in
/-- the weight of the stages that have happened -/
noncomputable def boundP_V (env : SimEnv) (s0 s : Sys) : Nat :=
  (s0.obs.map (fun o =>
    (if Sys.PAst o.id s then o.duration + 1 else 0) + (if Sys.PQ o.id s then 1 else 0) +
    (if Sys.PRm o.id s then 1 else 0) +
    (o.wf.topo.map (fun node => if Sys.PAT o.id node s then boundP_WAT env s0 o node else 0)).sum)).sum

/-- the weight of all the stages -/
def boundP_VTotal (env : SimEnv) (s0 : Sys) : Nat :=
  (s0.obs.map (fun o => o.duration + 3 + (o.wf.topo.map (fun node => boundP_WAT env s0 o node)).sum)).sum

/-- `latest + V` at index `n`, as a time -/
noncomputable def boundP_LV (env : SimEnv) (s0 : Sys) (n : Nat) : Time :=
  ((boundLatest s0 + boundP_V env s0 (simAt env s0 n).st : Nat) : Time)

/-- the parts of the proof of the bound (each is proved in its own file) -/
structure BoundPParts (env : SimEnv) (s0 : Sys) : Prop where
  /-- every live process other than a task body is due at a whole instant, at most one unit after
  the clock -/
  wake_nat : ∀ n, ∀ q ∈ (simAt env s0 (n + 1)).st.procs, q.alive = true → q.k.tag ≠ "doWork" →
    ∃ m : Nat, q.wake = ((m : Nat) : Time) ∧ ((m : Nat) : Time) ≤ boundTau env s0 n + 1
  /-- timed liveness of the workers: every live worker is due (and so ends) before `latest + V`,
  provided the clock was within `latest + V` at every earlier index -/
  tl : ∀ n, (∀ j, j < n → boundTau env s0 j ≤ boundP_LV env s0 j) →
    ∀ q ∈ (simAt env s0 n).st.procs, q.alive = true → q.BoundWorker → q.wake + 1 ≤ boundP_LV env s0 n
  /-- an idle state that is not at `is_finished()` has an enabled poller -/
  idle_enabled : ∀ n, (simAt env s0 n).st.NoWorker → (simAt env s0 n).st.isFinished = false →
    ∃ p ∈ (simAt env s0 n).st.procs, (simAt env s0 n).st.BoundEn p
  /-- the block of an enabled poller in an idle state, after the latest planned start, makes a
  stage happen -/
  enabled_fires : ∀ n (e : HEntry) (p : Proc), (simAt env s0 n).peek = some e →
    (simAt env s0 n).st.proc? e.pid = some p → (simAt env s0 n).st.BoundEn p →
    (simAt env s0 n).st.NoWorker → ((boundLatest s0 : Nat) : Time) ≤ p.wake →
    boundP_V env s0 (simAt env s0 n).st < boundP_V env s0 (simAt env s0 (n + 1)).st
  /-- a block of another process in which no stage happens leaves an enabled poller enabled -/
  enabled_persists : ∀ n (e : HEntry) (p : Proc), (simAt env s0 n).peek = some e →
    p ∈ (simAt env s0 n).st.procs → p.pid ≠ e.pid → (simAt env s0 n).st.BoundEn p →
    boundP_V env s0 (simAt env s0 (n + 1)).st = boundP_V env s0 (simAt env s0 n).st →
    p ∈ (simAt env s0 (n + 1)).st.procs ∧ (simAt env s0 (n + 1)).st.BoundEn p
  v_mono : ∀ n, boundP_V env s0 (simAt env s0 n).st ≤ boundP_V env s0 (simAt env s0 (n + 1)).st

end Topsim
