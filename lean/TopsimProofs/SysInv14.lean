/-
  SysInv14 — `allocate_ingest` (the observation's ingest supervisor): its block
  and the step theorem.
-/
import TopsimProofs.SysInv13

namespace Topsim
namespace Sys

open Cluster

/-- an observation-record update that keeps the id and never returns to WAITING -/
def GoodO (f : Obs → Obs) : Prop :=
  ∀ r, (f r).id = r.id ∧ ((f r).status = .waiting → r.status = .waiting)

theorem obs?_updObs (s : Sys) (o o' : Oid) (f : Obs → Obs) (hf : ∀ r, (f r).id = r.id) :
    (s.updObs o f).obs? o' = (s.obs? o').map (fun r => if r.id = o then f r else r) :=
  find?_map_upd (fun r : Obs => r.id) s.obs o o' f hf

@[simp] theorem updObs_cl (s : Sys) (o f) : (s.updObs o f).cl = s.cl := rfl
@[simp] theorem updObs_procs (s : Sys) (o f) : (s.updObs o f).procs = s.procs := rfl
@[simp] theorem updObs_tasks (s : Sys) (o f) : (s.updObs o f).tasks = s.tasks := rfl
@[simp] theorem updObs_nextPid (s : Sys) (o f) : (s.updObs o f).nextPid = s.nextPid := rfl
@[simp] theorem updObs_starts (s : Sys) (o f) : (s.updObs o f).starts = s.starts := rfl
@[simp] theorem updObs_active (s : Sys) (o f) : (s.updObs o f).active = s.active := rfl
@[simp] theorem updObs_admitted (s : Sys) (o f) : (s.updObs o f).admitted = s.admitted := rfl

theorem updObs_ids (s : Sys) (o : Oid) (f : Obs → Obs) (hf : ∀ r, (f r).id = r.id) :
    (s.updObs o f).obs.map (·.id) = s.obs.map (·.id) := by
  simp only [Sys.updObs, List.map_map]
  apply List.map_congr_left
  intro r _
  simp only [Function.comp]
  split
  · exact hf r
  · rfl

theorem EG.updObs {s : Sys} (h : EG s) (o : Oid) (f : Obs → Obs) (hf : GoodO f) : EG (s.updObs o f) := by
  constructor
  · rw [updObs_ids s o f (fun r => (hf r).1)]; exact h.obsNodup
  · exact h.admNodup
  · exact h.telUniq
  · exact h.telWake
  · intro o' ho'
    obtain ⟨ob, hob, hw⟩ := h.adm o' ho'
    refine ⟨_, by rw [obs?_updObs s o o' f (fun r => (hf r).1), hob]; rfl, ?_⟩
    intro hst
    apply hw
    dsimp only at hst
    split at hst
    · exact (hf ob).2 hst
    · exact hst

theorem SInv.updObs {s : Sys} (h : SInv s) (o : Oid) (f : Obs → Obs) (hf : GoodO f) :
    SInv (s.updObs o f) := by
  obtain ⟨U, hU⟩ := h.ci
  exact ⟨⟨h.pw.nodup, h.pw.lt⟩,
    ⟨U, hU.frame (ClQuiet.refl _) (TaskMono.refl _) (ObsMonoS.updObs s o f hf) (fun _ _ => Iff.rfl)⟩,
    h.dg.frame rfl rfl rfl rfl (fun _ _ => Iff.rfl) (fun _ _ h => h), h.eg.updObs o f hf⟩

/-- the process's own entry: once its observation is no longer WAITING nothing
depends on it -/
theorem EG.replaceAI {s1 : Sys} (h : EG s1) (hpw : PW s1) {p : Proc} (hp : p ∈ s1.procs)
    {oid : Oid} {tl : Int} (hk : p.k = .allocIngest oid tl) (g : Proc → Proc)
    (hgp : (g p).pid = p.pid) (tl' : Int) (hgk : (g p).k = .allocIngest oid tl')
    (hst : ∀ ob, s1.obs? oid = some ob → ob.status ≠ .waiting) : EG (s1.updProc p.pid g) := by
  have hmem := fun q => mem_updProc_iff hpw (p := p) hp g q
  have htel : ∀ q, q.k.isTel = true → (q ∈ (s1.updProc p.pid g).procs ↔ q ∈ s1.procs) :=
    mem_updProc_irrel hpw hp rfl (fun k => k.isTel = true) (by rw [hk]; simp [PK.isTel])
      (by rw [hgk]; simp [PK.isTel])
  have htel1 : ∀ {q : Proc}, q ∈ (s1.updProc p.pid g).procs → q.k = .telescope → q ∈ s1.procs :=
    fun hq hqk => (htel _ (by rw [hqk]; rfl)).mp hq
  constructor
  · exact h.obsNodup
  · exact h.admNodup
  · intro q1 hq1 q2 hq2 hk1 hk2
    exact h.telUniq q1 (htel1 hq1 hk1) q2 (htel1 hq2 hk2) hk1 hk2
  · intro q hq hqk; exact h.telWake q (htel1 hq hqk) hqk
  · intro o ho
    obtain ⟨ob, hob, hw⟩ := h.adm o ho
    refine ⟨ob, hob, fun hs => ?_⟩
    obtain ⟨w, hw1, hwa, hwc, ⟨tlw, hwk⟩, hlt⟩ := hw hs
    refine ⟨w, (hmem w).mpr (Or.inr ⟨hw1, ?_⟩), hwa, hwc, ⟨tlw, hwk⟩,
      fun q hq hqk hqa => hlt q (htel1 hq hqk) hqk hqa⟩
    intro e
    have : w = p := hpw.eq_of_pid hw1 hp e
    subst this
    rw [hk] at hwk
    injection hwk with e1 _
    subst e1
    exact hst ob hob hs

theorem CI.spawnPI {s : Sys} {U : List Tid} (h : CI s U) (o : Oid) (d : Nat) (now : Time)
    (hb : Begun s.obs o) (hno : ∀ q ∈ s.procs, ∀ d', q.k ≠ .provIngest o d') :
    CI (s.spawn (.provIngest o d) now).1 U := by
  have hat : ∀ {q : Proc} {t m preds obs ing ret}, q ∈ (s.spawn (.provIngest o d) now).1.procs →
      q.k = .allocTask t m preds obs ing ret → q ∈ s.procs := by
    intro q t m preds obs ing ret hq hqk
    simp only [spawn_procs, List.mem_append, List.mem_singleton] at hq
    rcases hq with hq | rfl
    · exact hq
    · simp at hqk
  constructor
  · exact h.inv
  · intro q hq hqa t m preds obs ing ret hqk; exact h.runOn q (hat hq hqk) hqa t m preds obs ing ret hqk
  · intro q hq hqa t m preds obs ret hqk; exact h.pend q (hat hq hqk) hqa t m preds obs ret hqk
  · intro q hq hqa t m preds obs ret hqk; exact h.newT q (hat hq hqk) hqa t m preds obs ret hqk
  · intro q1 hq1 q2 hq2 ha1 ha2 t m1 preds1 obs1 ing1 ret1 m2 preds2 obs2 ing2 ret2 hk1 hk2
    exact h.uniq q1 (hat hq1 hk1) q2 (hat hq2 hk2) ha1 ha2 _ _ _ _ _ _ _ _ _ _ _ hk1 hk2
  · intro q hq t m preds obs ing ret hqk; exact h.hasRec q (hat hq hqk) t m preds obs ing ret hqk
  · exact h.ingRec
  · exact h.usedRec
  · intro o' i hoi
    obtain ⟨q, hq, d', hqk, hpc⟩ := h.provOnce o' i hoi
    exact ⟨q, by simp [hq], d', hqk, hpc⟩
  · intro q1 hq1 q2 hq2 o' d1 d2 hk1 hk2
    simp only [spawn_procs, List.mem_append, List.mem_singleton] at hq1 hq2
    rcases hq1 with hq1 | rfl <;> rcases hq2 with hq2 | rfl
    · exact h.provUniq q1 hq1 q2 hq2 o' d1 d2 hk1 hk2
    · simp only [PK.provIngest.injEq] at hk2
      obtain ⟨rfl, _⟩ := hk2
      exact absurd hk1 (hno q1 hq1 _)
    · simp only [PK.provIngest.injEq] at hk1
      obtain ⟨rfl, _⟩ := hk1
      exact absurd hk2 (hno q2 hq2 _)
    · rfl
  · intro q hq o' d' hqk
    simp only [spawn_procs, List.mem_append, List.mem_singleton] at hq
    rcases hq with hq | rfl
    · exact h.provObs q hq o' d' hqk
    · simp only [PK.provIngest.injEq] at hqk
      obtain ⟨rfl, _⟩ := hqk
      exact hb

theorem allocIngestIter_inv {s : Sys} (h : SInv s) (now : Time) (oid : Oid) (tl : Int) :
    SInv (s.allocIngestIter now oid tl).1 ∧ s.procs <+: (s.allocIngestIter now oid tl).1.procs ∧
    (∃ tl', (s.allocIngestIter now oid tl).2.1 = .allocIngest oid tl') ∧
    (∀ ob, (s.allocIngestIter now oid tl).1.obs? oid = some ob → ob.status ≠ .waiting) := by
  have hepi : ∀ dd : Int, SInv { s with provIngest := s.provIngest - dd, cl := s.cl.cleanUpIngest } :=
    fun dd => h.pres (Pres.frame (clQuiet_cleanup _) (TaskMono.refl _) rfl rfl rfl rfl rfl rfl)
  unfold allocIngestIter
  simp only
  cases hob : s.obs? oid with
  | none =>
    simp only
    exact ⟨h, List.prefix_refl _, ⟨tl, rfl⟩, fun ob hob' => by rw [hob] at hob'; exact absurd hob' (by simp)⟩
  | some o =>
    simp only
    by_cases hfin : o.status = .finished
    · simp only [hfin, if_true]
      refine ⟨hepi _, List.prefix_refl _, ⟨tl, rfl⟩, ?_⟩
      intro ob hob'
      have : ob = o := by
        have : s.obs? oid = some ob := hob'
        rw [hob] at this; injection this with e; exact e.symm
      rw [this, hfin]; simp
    · simp only [hfin, if_false]
      by_cases hw : o.status = .waiting
      · simp only [hw, if_true]
        have hgood : GoodO (fun r : Obs => { r with status := .running }) :=
          fun r => ⟨rfl, fun h => by simp at h⟩
        have ha := h.updObs oid _ hgood
        have hoid : o.id = oid := by
          unfold obs? at hob; simpa using List.find?_some hob
        have hob2 : (s.updObs oid (fun r => { r with status := .running })).obs? oid
            = some { o with status := .running } := by
          rw [obs?_updObs s oid oid (fun r => { r with status := .running }) (fun _ => rfl), hob]
          simp [hoid]
        have hbegun : Begun (s.updObs oid (fun r => { r with status := .running })).obs oid :=
          ⟨_, hob2, by simp⟩
        obtain ⟨U, hU⟩ := h.ci
        have hno : ∀ q ∈ (s.updObs oid (fun r => { r with status := .running })).procs,
            ∀ d', q.k ≠ .provIngest oid d' := by
          intro q hq d' hqk
          obtain ⟨ob, hob', hs⟩ := hU.provObs q hq oid d' hqk
          have : s.obs? oid = some ob := hob'
          rw [hob] at this; injection this with e
          subst e
          exact hs hw
        obtain ⟨Ua, hUa⟩ := ha.ci
        have hb : SInv ((s.updObs oid (fun r => { r with status := .running })).spawn
            (.provIngest oid o.ingestDemand) now).1 :=
          ⟨ha.pw.spawn _ _, ⟨Ua, hUa.spawnPI oid _ now hbegun hno⟩,
            ha.dg.addProcs rfl rfl rfl rfl _ (spawn_procs _ _ _) (by simp [PK.isDW]),
            ha.eg.addProcs rfl rfl _ (spawn_procs _ _ _) (by simp [PK.isTel, PK.isAI])⟩
        obtain ⟨Ub, hUb⟩ := hb.ci
        have hc : SInv ((((s.updObs oid (fun r => { r with status := .running })).spawn
            (.provIngest oid o.ingestDemand) now).1).spawn (.ingestStream oid 0) now).1 :=
          ⟨hb.pw.spawn _ _,
            ⟨Ub, hUb.addProcs (ClQuiet.refl _) (TaskMono.refl _) (fun _ h => h) _ (spawn_procs _ _ _)
              (by simp [PK.isAT, PK.isPI])⟩,
            hb.dg.addProcs rfl rfl rfl rfl _ (spawn_procs _ _ _) (by simp [PK.isDW]),
            hb.eg.addProcs rfl rfl _ (spawn_procs _ _ _) (by simp [PK.isTel, PK.isAI])⟩
        refine ⟨hc, ?_, ⟨tl, rfl⟩, ?_⟩
        · simp
        · intro ob hob'
          have : (s.updObs oid (fun r => { r with status := .running })).obs? oid = some ob := hob'
          rw [hob2] at this; injection this with e
          rw [← e]; simp
      · simp only [hw, if_false]
        have hst : ∀ ob, s.obs? oid = some ob → ob.status ≠ .waiting := by
          intro ob hob'
          rw [hob] at hob'; injection hob' with e
          rw [← e]; exact hw
        split
        · exact ⟨h, List.prefix_refl _, ⟨_, rfl⟩, hst⟩
        · refine ⟨hepi _, List.prefix_refl _, ⟨tl, rfl⟩, hst⟩

theorem step_allocIngest {s : Sys} (h : SInv s) {pid : Nat} {p : Proc} (hp : s.proc? pid = some p)
    (ha : p.alive = true) {oid tl} (hk : p.k = .allocIngest oid tl)
    (orc : Oracle) : SInv (s.resume pid orc).1 := by
  obtain ⟨hpm, hpid⟩ := proc?_some hp
  subst hpid
  have hcore := resume_core s p.pid orc p hp ha
  have hb : s.block p orc = s.allocIngestBlock p.wake p.pc oid tl := by
    unfold block; simp only [hk]
  rw [hb] at hcore
  refine SInv.core ?_ hcore
  -- the block leaves a state satisfying the invariant, in which `oid` is no longer WAITING
  have key : SInv (s.allocIngestBlock p.wake p.pc oid tl).1 ∧
      s.procs <+: (s.allocIngestBlock p.wake p.pc oid tl).1.procs ∧
      (∃ tl', (s.allocIngestBlock p.wake p.pc oid tl).2.1 = .allocIngest oid tl') ∧
      (∀ ob, (s.allocIngestBlock p.wake p.pc oid tl).1.obs? oid = some ob → ob.status ≠ .waiting) := by
    unfold allocIngestBlock
    split
    · have hgood : GoodO (fun r : Obs => { r with ast := some (natNow p.wake) }) :=
        fun r => ⟨rfl, fun h => h⟩
      have := allocIngestIter_inv (h.updObs oid _ hgood) p.wake oid
        ((match s.obs? oid with | some o => (o.duration : Int) | none => 0) - 1)
      exact this
    · exact allocIngestIter_inv h p.wake oid tl
  obtain ⟨h1, hpre, ⟨tl', hk'⟩, hst⟩ := key
  generalize s.allocIngestBlock p.wake p.pc oid tl = r at h1 hpre hk' hst
  obtain ⟨s1, k', y⟩ := r
  simp only at h1 hpre hk' hst ⊢
  subst hk'
  have hp1 : p ∈ s1.procs := hpre.subset hpm
  obtain ⟨U, hU⟩ := h1.ci
  exact ⟨h1.pw.updProc _ _ (by simp),
    ⟨U, hU.updProc_neutral h1.pw hp1 _ (by rw [hk]; exact ⟨rfl, rfl⟩) (by simp [PK.isAT, PK.isPI])⟩,
    h1.dg.updProc_neutral h1.pw hp1 _ (by rw [hk]; exact ⟨rfl, rfl⟩) (by simp [PK.isAT, PK.isDW]),
    h1.eg.replaceAI h1.pw hp1 hk _ (by simp) tl' (by simp) hst⟩

end Sys
end Topsim
