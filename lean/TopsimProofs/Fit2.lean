/-
  Fit2 — F14: on the runs of the simulator (SimPy's order) the machines promised to admitted
  observations are always covered by the machines available (`FitInv`), hence the first block of a
  provisioning process finds the machines it asks for: `provision_ingest_resources` never raises
  for lack of machines.  No `OneAdmission` hypothesis, any algorithm, any environment, with or
  without pauses, before or after an exception.

  `FitInv`:
  * `fit`: `promF ≤ |available|`;
  * `ok`: while an ingest supervisor / provisioning process is before its first block, every live
    process before its first block is of a kind whose first block takes no machine out of
    `available` (`fitOk`: everything but the telescope, `allocate_tasks` and the allocation
    processes of workflow tasks).
  A NORMAL block cannot run while a process is before its first block (`UrgInv`), so between an
  admission and the provisioning nothing takes a machine; the telescope's loop admits only what the
  machines available cover beyond what is already promised (`fit_telFold`, the repaired test).
-/
import TopsimProofs.Fit1

namespace Topsim

open KState Sys

/-- kinds whose first block takes no machine out of `available` -/
def PK.fitOk : PK → Bool
  | .telescope => false
  | .allocTask _ _ _ _ ing _ => ing
  | .allocTasks .. => false
  | _ => true

namespace Cluster

theorem fit_allocBegin_ing (c : Cluster) (t : Tid) (m : Mid) (obs : Option Oid) :
    (c.allocBegin t m obs true).1.available = c.available := by
  unfold allocBegin
  simp only [if_true]
  split
  · rfl
  · split <;> rfl

theorem fit_allocEnd_ing (c : Cluster) (t : Tid) (m : Mid) (obs : Option Oid) :
    c.available.length ≤ (c.allocEnd t m obs true).1.available.length := by
  unfold allocEnd
  simp only [if_true]
  split
  · split
    · simp
    · exact Nat.le_refl _
  · exact Nat.le_refl _

end Cluster

namespace Sys

theorem fit_allocTaskBlock_ing (s : Sys) (now : Time) (t : Tid) (m : Mid) (preds : List Tid)
    (obs : Option Oid) (ret : Nat) :
    s.cl.available.length ≤ (s.allocTaskBlock now t m preds obs true ret).1.cl.available.length := by
  rcases allocTaskBlock_cl s now t m preds obs true ret with he | he | he | he <;> rw [he]
  · exact Nat.le_refl _
  · rw [Cluster.fit_allocBegin_ing]; exact Nat.le_refl _
  · have := Cluster.fit_allocEnd_ing (s.cl.allocBegin t m obs true).1 t m obs
    rw [Cluster.fit_allocBegin_ing] at this
    exact this
  · exact Cluster.fit_allocEnd_ing _ _ _ _

theorem fit_provIngestBlock_cl (s : Sys) (now : Time) (pc : Nat) (oid : Oid) (d : Nat) :
    (s.provIngestBlock now pc oid d).1.cl = if pc = 0 then (s.cl.provisionIngest d oid).1 else s.cl := by
  unfold provIngestBlock
  split
  · simp only
    generalize hr : s.cl.provisionIngest d oid = r
    obtain ⟨cl1, e1, pairs⟩ := r
    cases e1 with
    | some e => rfl
    | none =>
      simp only
      obtain ⟨_, _, gcl, _⟩ := foldSpawn_spec
        (fun x : Mid × Tid => PK.allocTask x.2 x.1 [] (some oid) true 0) now pairs
        ({ s with cl := cl1, tasks := s.tasks ++ pairs.map (fun x : Mid × Tid =>
          ({ id := x.2, duration := (match s.obs? oid with | some o => o.duration | none => 0),
             status := TStatus.scheduled } : TaskRec)) } : Sys)
      exact gcl
  · rfl

/-! ### the invariant -/

structure FitInv (s : Sys) : Prop where
  fit : s.promF ≤ s.cl.available.length
  ok : ∀ q ∈ s.procs, q.alive = true → q.pc = 0 → q.k.ncoIng ≠ none →
    ∀ q' ∈ s.procs, q'.alive = true → q'.pc = 0 → q'.k.fitOk = true

theorem FitInv.same {s s' : Sys} (h : FitInv s) (h1 : s'.obs = s.obs) (h2 : s'.cl = s.cl)
    (h3 : s'.procs = s.procs) : FitInv s' := by
  refine ⟨?_, by rw [h3]; exact h.ok⟩
  have hp : s'.promF = s.promF := by
    unfold promF oids ilDemand obs?
    rw [h1, h3]
  rw [hp, h2]; exact h.fit

theorem FitInv.init (s0 : Sys) (hw : WFConfig s0) : FitInv s0.start := by
  have hno : ¬ Pend s0.start := by
    rintro ⟨q, hq, _, _, hn⟩
    rw [(nco_start_procs s0 hw).1] at hq
    simp only [List.mem_cons, List.not_mem_nil, or_false] at hq
    rcases hq with rfl | rfl | rfl | rfl | rfl <;> exact hn rfl
  refine ⟨by rw [promF_zero_of_noPend hno]; exact Nat.zero_le _, ?_⟩
  intro q hq ha h0 hn
  exact absurd ⟨q, hq, ha, h0, hn⟩ hno

theorem fit_loopKind_ok {i : Nat} (h : i ≠ 1) : (nco_loopKind i).fitOk = true := by
  unfold nco_loopKind
  split <;> first | rfl | exact absurd rfl h

end Sys

variable {env : SimEnv} {s0 : Sys}

/-- one kernel step (a block of the live process `p`) keeps `FitInv` -/
theorem Sys.FitInv.step (hw : WFConfig s0) (hb0 : s0.buf.hot.stored = []) {k : SimState}
    (hr : SimReach env s0 k) (inv : FitInv k.st) {e : HEntry} {p : Proc}
    (hpk : k.peek = some e) (hpp : k.st.proc? e.pid = some p) (ha : p.alive = true) (orc : Oracle) :
    FitInv (k.st.resume e.pid orc).1 := by
  have hinv := hr.l3inv hw
  have hs := hinv.sinv
  have hpw := hs.pw
  have hu := hr.urg hw
  have hl := hr.loopPids hw
  have hsi := hr.startInv hw hb0
  obtain ⟨hpm, hpid⟩ := proc?_some hpp
  have hil : ILC k.st.procs k.st.ilDemand k.st.cl.ilEntries k.st.provIngest k.st.maxIngest k.st.admitted :=
    hinv.il
  have hm := nco_resume_procs hpw hpp ha orc
  obtain ⟨hobs', hcl', _⟩ := il_resume_fields k.st e.pid orc p hpp ha
  have hkeep := ot_resume_keep k.st e.pid orc p hpp ha
  -- live processes of the new state before their first block: old ones, or new ones
  have hP0 : ∀ q' ∈ (k.st.resume e.pid orc).1.procs, q'.pc = 0 →
      (q' ∈ k.st.procs ∧ q'.pid ≠ e.pid) ∨
      (k.st.nextPid ≤ q'.pid ∧ NewKind p.k q'.k ∧ q' ∈ (k.st.block p orc).1.procs ∧ q' ∉ k.st.procs) := by
    intro q' hq' h0
    rcases hm q' hq' with rfl | h | ⟨_, _, w1, w2, w3, w4⟩
    · simp at h0
    · exact Or.inl h
    · exact Or.inr ⟨w1, w2, w3, w4⟩
  -- when `p` is past its first block, no live process is before its first block
  have hnormal : 1 ≤ p.pc → ∀ q ∈ k.st.procs, q.alive = true → q.pc = 0 → False := by
    intro hpc q hq hqa hq0
    have := hu.normal hinv.heap hpk hpp ha hpc q hq hqa
    omega
  -- if an old supervisor / provisioning process is pending, `p` is before its first block and harmless
  have hA : Pend k.st → p.pc = 0 ∧ p.k.fitOk = true := by
    rintro ⟨q, hq, hqa, hq0, hqn⟩
    have hp0 := hu.first hinv.heap hpk hpp ha hq hqa hq0
    exact ⟨hp0, inv.ok q hq hqa hq0 hqn p hpm ha hp0⟩
  -- an unprovisioned observation of the new state, witnessed by an old process
  have hUold : ∀ o, (∀ c, NewKind p.k c → c.ncoIng = none) →
      ilUnprovisioned (k.st.resume e.pid orc).1.procs o = true → ilUnprovisioned k.st.procs o = true := by
    intro o hnew hu'
    obtain ⟨q', hq', h1, h2, h3⟩ := ilUnprovisioned_iff.mp hu'
    rcases hP0 q' hq' h2 with ⟨h, _⟩ | ⟨_, w, _, _⟩
    · exact ilUnprovisioned_iff.mpr ⟨q', h, h1, h2, h3⟩
    · have := hnew _ w
      rw [ncoIng_of_unprov h3] at this
      cases this
  -- `fit` when nothing new is promised and no machine is taken
  have hfitP1 : k.st.cl.available.length ≤ (k.st.resume e.pid orc).1.cl.available.length →
      (∀ c, NewKind p.k c → c.ncoIng = none) →
      (k.st.resume e.pid orc).1.promF ≤ (k.st.resume e.pid orc).1.cl.available.length := by
    intro hav hnew
    exact Nat.le_trans (promF_mono hkeep (fun o => hUold o hnew)) (Nat.le_trans inv.fit hav)
  -- `fit` when nothing is promised
  have hfitNo : ¬ Pend k.st → (∀ c, NewKind p.k c → c.ncoIng = none) →
      (k.st.resume e.pid orc).1.promF ≤ (k.st.resume e.pid orc).1.cl.available.length := by
    intro hno hnew
    have := promF_mono hkeep (fun o => hUold o hnew)
    rw [promF_zero_of_noPend hno] at this
    omega
  -- `ok` when the block creates no supervisor / provisioning process and only harmless kinds
  have hokGen : (∀ c, NewKind p.k c → c.ncoIng = none) →
      (p.k.fitOk = true → ∀ c, NewKind p.k c → c.fitOk = true) →
      ∀ q ∈ (k.st.resume e.pid orc).1.procs, q.alive = true → q.pc = 0 → q.k.ncoIng ≠ none →
        ∀ q' ∈ (k.st.resume e.pid orc).1.procs, q'.alive = true → q'.pc = 0 → q'.k.fitOk = true := by
    intro hnew hnewOk q hq hqa hq0 hqn q' hq' hqa' hq0'
    rcases hP0 q hq hq0 with ⟨h, _⟩ | ⟨_, w, _, _⟩
    · obtain ⟨hp0, hpok⟩ := hA ⟨q, h, hqa, hq0, hqn⟩
      rcases hP0 q' hq' hq0' with ⟨h', _⟩ | ⟨_, w', _, _⟩
      · exact inv.ok q h hqa hq0 hqn q' h' hqa' hq0'
      · exact hnewOk hpok _ w'
    · exact absurd (hnew _ w) hqn
  have hblockAvail : p.k.ncoQuietCl = true →
      k.st.cl.available.length ≤ (k.st.resume e.pid orc).1.cl.available.length := by
    intro hq
    rw [hcl', nco_block_avail k.st p orc hq]
    exact Nat.le_refl _
  cases hk : p.k with
  | monitor =>
    have hnew : ∀ c, NewKind p.k c → c.ncoIng = none := fun c w => by rw [hk] at w; simp [NewKind] at w
    exact ⟨hfitP1 (hblockAvail (by rw [hk]; rfl)) hnew,
      hokGen hnew (fun _ c w => by rw [hk] at w; simp [NewKind] at w)⟩
  | clusterLoop =>
    have hnew : ∀ c, NewKind p.k c → c.ncoIng = none := fun c w => by rw [hk] at w; simp [NewKind] at w
    exact ⟨hfitP1 (hblockAvail (by rw [hk]; rfl)) hnew,
      hokGen hnew (fun _ c w => by rw [hk] at w; simp [NewKind] at w)⟩
  | ingestStream o tl =>
    have hnew : ∀ c, NewKind p.k c → c.ncoIng = none := fun c w => by rw [hk] at w; simp [NewKind] at w
    exact ⟨hfitP1 (hblockAvail (by rw [hk]; rfl)) hnew,
      hokGen hnew (fun _ c w => by rw [hk] at w; simp [NewKind] at w)⟩
  | doWork t m preds ph tot =>
    have hnew : ∀ c, NewKind p.k c → c.ncoIng = none := fun c w => by rw [hk] at w; simp [NewKind] at w
    exact ⟨hfitP1 (hblockAvail (by rw [hk]; rfl)) hnew,
      hokGen hnew (fun _ c w => by rw [hk] at w; simp [NewKind] at w)⟩
  | hot2cold cur =>
    have hnew : ∀ c, NewKind p.k c → c.ncoIng = none := fun c w => by rw [hk] at w; simp [NewKind] at w
    exact ⟨hfitP1 (hblockAvail (by rw [hk]; rfl)) hnew,
      hokGen hnew (fun _ c w => by rw [hk] at w; simp [NewKind] at w)⟩
  | cold2hot cur =>
    have hnew : ∀ c, NewKind p.k c → c.ncoIng = none := fun c w => by rw [hk] at w; simp [NewKind] at w
    exact ⟨hfitP1 (hblockAvail (by rw [hk]; rfl)) hnew,
      hokGen hnew (fun _ c w => by rw [hk] at w; simp [NewKind] at w)⟩
  | bufferLoop =>
    have hnew2 : ∀ c, NewKind p.k c → c = .hot2cold none ∨ c = .cold2hot none := by
      intro c w; rw [hk] at w; simpa [NewKind] using w
    have hnew : ∀ c, NewKind p.k c → c.ncoIng = none := by
      intro c w; rcases hnew2 c w with rfl | rfl <;> rfl
    refine ⟨hfitP1 (hblockAvail (by rw [hk]; rfl)) hnew, hokGen hnew (fun _ c w => ?_)⟩
    rcases hnew2 c w with rfl | rfl <;> rfl
  | allocTask t m preds obs ing ret =>
    have hnew2 : ∀ c, NewKind p.k c → c = .doWork t m preds 0 0 := by
      intro c w; rw [hk] at w; simpa [NewKind] using w
    have hnew : ∀ c, NewKind p.k c → c.ncoIng = none := by
      intro c w; rw [hnew2 c w]; rfl
    refine ⟨?_, hokGen hnew (fun _ c w => by rw [hnew2 c w]; rfl)⟩
    by_cases hpend : Pend k.st
    · have hok := (hA hpend).2
      rw [hk] at hok
      have hing : ing = true := hok
      subst hing
      refine hfitP1 ?_ hnew
      rw [hcl', block_allocTask orc hk]
      exact fit_allocTaskBlock_ing _ _ _ _ _ _ _
    · exact hfitNo hpend hnew
  | allocTasks o sc pa po fin =>
    have hnew2 : ∀ c, NewKind p.k c → ∃ t m cr, c = .allocTask t m cr (some o) false 0 := by
      intro c w; rw [hk] at w; simpa [NewKind] using w
    have hnew : ∀ c, NewKind p.k c → c.ncoIng = none := by
      intro c w; obtain ⟨t, m, cr, rfl⟩ := hnew2 c w; rfl
    have hbad : p.k.fitOk = false := by rw [hk]; rfl
    refine ⟨?_, hokGen hnew (fun h => by rw [hbad] at h; cases h)⟩
    by_cases hpend : Pend k.st
    · have := (hA hpend).2
      rw [hbad] at this; cases this
    · exact hfitNo hpend hnew
  | schedLoop =>
    have hnew2 : ∀ c, NewKind p.k c → ∃ o, c = .allocTasks o [] [] [] false := by
      intro c w; rw [hk] at w; simpa [NewKind] using w
    have hnew : ∀ c, NewKind p.k c → c.ncoIng = none := by
      intro c w; obtain ⟨o, rfl⟩ := hnew2 c w; rfl
    refine ⟨hfitP1 (hblockAvail (by rw [hk]; rfl)) hnew, ?_⟩
    intro q hq hqa hq0 hqn q' hq' hqa' hq0'
    rcases hP0 q hq hq0 with ⟨h, _⟩ | ⟨_, w, _, _⟩
    · obtain ⟨hp0, _⟩ := hA ⟨q, h, hqa, hq0, hqn⟩
      -- the scheduler loop's first block, nothing stored: it creates nothing
      have hstored := hsi.sch0 p hpm ha hp0 hk
      have hprocs : (k.st.block p orc).1.procs = k.st.procs := by
        rw [block_schedLoop orc hk]
        show (k.st.schedLoopBlock p.wake orc).1.procs = _
        unfold schedLoopBlock
        have : ({ k.st with schEvents := [] } : Sys).buf.hasReady = false := by
          show k.st.buf.hasReady = false
          unfold Buffer.hasReady
          rw [hstored]; rfl
        simp only [this, Bool.false_eq_true, if_false]
      rcases hP0 q' hq' hq0' with ⟨h', _⟩ | ⟨_, _, w3, w4⟩
      · exact inv.ok q h hqa hq0 hqn q' h' hqa' hq0'
      · rw [hprocs] at w3; exact absurd w3 w4
    · exact absurd (hnew _ w) hqn
  | provIngest o d =>
    have hnew2 : ∀ c, NewKind p.k c → ∃ t m, c = .allocTask t m [] (some o) true 0 := by
      intro c w; rw [hk] at w; simpa [NewKind] using w
    have hnew : ∀ c, NewKind p.k c → c.ncoIng = none := by
      intro c w; obtain ⟨t, m, rfl⟩ := hnew2 c w; rfl
    refine ⟨?_, hokGen hnew (fun _ c w => by obtain ⟨t, m, rfl⟩ := hnew2 c w; rfl)⟩
    have hclb : (k.st.resume e.pid orc).1.cl =
        if p.pc = 0 then (k.st.cl.provisionIngest d o).1 else k.st.cl := by
      rw [hcl', block_provIngest orc hk]; exact fit_provIngestBlock_cl _ _ _ _ _
    by_cases hpc : p.pc = 0
    · rw [if_pos hpc] at hclb
      obtain ⟨U, hU⟩ := hs.ci
      generalize hr : k.st.cl.provisionIngest d o = r at hclb
      obtain ⟨cl1, e1, pairs⟩ := r
      cases e1 with
      | some err =>
        have := Cluster.provisionIngest_refused hU.inv d o err (by rw [hr])
        rw [hr] at this
        simp only at this hclb
        refine hfitP1 ?_ hnew
        rw [hclb, this]; exact Nat.le_refl _
      | none =>
        simp only at hclb
        obtain ⟨_, _, _, hav, _⟩ := provisionIngest_exact k.st.cl cl1 d o pairs hU.inv.avail_nodup hr
        -- facts about the observation being provisioned
        obtain ⟨hd, w, hw', w1, w2, w3, _⟩ := hil.piLive p hpm ha hpc o d hk
        have hoadm : o ∈ k.st.admitted := hil.aiAdm w hw' o w3
        obtain ⟨ob, hob, _⟩ := hs.eg.adm o hoadm
        have hoid : o ∈ k.st.oids := by
          obtain ⟨h1, h2⟩ := obs_mem_of_obs? hob
          unfold oids
          rw [← h2]; exact List.mem_map_of_mem h1
        have hunp : ilUnprovisioned k.st.procs o = true :=
          ilUnprovisioned_iff.mpr ⟨p, hpm, ha, hpc, Or.inr (by rw [hk]; rfl)⟩
        -- nobody else stands for unprovisioned machines of `o`
        have hun' : ilUnprovisioned (k.st.resume e.pid orc).1.procs o = false := by
          cases hu' : ilUnprovisioned (k.st.resume e.pid orc).1.procs o with
          | false => rfl
          | true =>
            exfalso
            obtain ⟨q', hq', r1, r2, r3⟩ := ilUnprovisioned_iff.mp hu'
            rcases hP0 q' hq' r2 with ⟨h, hne⟩ | ⟨_, w', _, _⟩
            · rcases r3 with r3 | r3
              · have := hil.aiUniq q' h w hw' o r3 w3
                have : q' = w := hpw.eq_of_pid h hw' this
                subst this
                omega
              · have hrk : ∃ d', q'.k = .provIngest o d' := by
                  cases hrk : q'.k <;> simp [hrk, PK.piObs] at r3
                  subst r3
                  exact ⟨_, rfl⟩
                obtain ⟨d', hrk⟩ := hrk
                exact hne ((hU.provUniq q' h p hpm o d' d hrk hk).trans hpid)
            · have := hnew _ w'
              rw [ncoIng_of_unprov r3] at this
              cases this
        have hdrop := promF_drop hkeep (fun x => hUold x hnew) hoid hun' hunp
        have hfit := inv.fit
        rw [hclb, hav, List.length_drop]
        omega
    · rw [if_neg hpc] at hclb
      refine hfitP1 ?_ hnew
      rw [hclb]; exact Nat.le_refl _
  | allocIngest o tl =>
    have hav : (k.st.resume e.pid orc).1.cl.available = k.st.cl.available := by
      rw [hcl']; exact nco_block_avail k.st p orc (by rw [hk]; rfl)
    have hpA : p.k.ncoIng = some o := by rw [hk]; rfl
    have hnewk : ∀ c, NewKind p.k c → ((∃ d, c = .provIngest o d) ∨ c = .ingestStream o 0) := by
      intro c w; rw [hk] at w; simpa [NewKind] using w
    cases hpc : p.pc with
    | zero =>
      -- the supervisor's first block: the promise moves to the provisioning process
      have hpend : Pend k.st := ⟨p, hpm, ha, hpc, by rw [hpA]; simp⟩
      refine ⟨?_, ?_⟩
      · rw [hav]
        refine Nat.le_trans (promF_mono hkeep ?_) inv.fit
        intro x hu'
        obtain ⟨q', hq', h1, h2, h3⟩ := ilUnprovisioned_iff.mp hu'
        rcases hP0 q' hq' h2 with ⟨h, _⟩ | ⟨_, w, _, _⟩
        · exact ilUnprovisioned_iff.mpr ⟨q', h, h1, h2, h3⟩
        · rcases hnewk _ w with ⟨d, hc⟩ | hc
          · rw [hc] at h3
            simp [PK.aiObs, PK.piObs] at h3
            subst h3
            exact ilUnprovisioned_iff.mpr ⟨p, hpm, ha, hpc, Or.inl (by rw [hk]; rfl)⟩
          · rw [hc] at h3; simp [PK.aiObs, PK.piObs] at h3
      · intro q hq hqa hq0 hqn q' hq' hqa' hq0'
        rcases hP0 q' hq' hq0' with ⟨h', _⟩ | ⟨_, w', _, _⟩
        · exact inv.ok p hpm ha hpc (by rw [hpA]; simp) q' h' hqa' hq0'
        · rcases hnewk _ w' with ⟨d', hc'⟩ | hc' <;> rw [hc'] <;> rfl
    | succ j =>
      -- a later block: the observation is not WAITING any more, nothing is created
      have hpc1 : 1 ≤ p.pc := by omega
      have hprocs : (k.st.block p orc).1.procs = k.st.procs := by
        rw [block_allocIngest orc hk]
        rcases allocIngestBlock_procs k.st p.wake p.pc o tl with h | ⟨ob, d, hob, hwait, _, _⟩
        · exact h
        · exfalso
          have hoadm : o ∈ k.st.admitted := hil.aiAdm p hpm o (by rw [hk]; rfl)
          obtain ⟨ob', hob', hex⟩ := hs.eg.adm o hoadm
          rw [hob] at hob'
          cases hob'
          obtain ⟨q, hq, hqa, hq0, _⟩ := hex hwait
          exact hnormal hpc1 q hq hqa hq0
      have hnone : ∀ q' ∈ (k.st.resume e.pid orc).1.procs, q'.alive = true → q'.pc = 0 → False := by
        intro q' hq' hqa h0
        rcases hP0 q' hq' h0 with ⟨h, _⟩ | ⟨_, _, w3, w4⟩
        · exact hnormal hpc1 q' h hqa h0
        · rw [hprocs] at w3; exact absurd w3 w4
      have hno : ¬ Pend (k.st.resume e.pid orc).1 := by
        rintro ⟨q, hq, hqa, hq0, _⟩
        exact hnone q hq hqa hq0
      refine ⟨by rw [promF_zero_of_noPend hno]; exact Nat.zero_le _, ?_⟩
      intro q hq hqa hq0 _
      exact absurd hq0 (fun h0 => hnone q hq hqa h0)
  | telescope =>
    have hav : (k.st.resume e.pid orc).1.cl = k.st.cl := by
      rw [hcl', block_telescope orc hk]
      show (k.st.telescopeBlock p.wake).1.cl = _
      rw [telescopeBlock_clq]
    -- the old pending processes are harmless loops, none of them a supervisor / provisioning process
    have holdOk : ∀ q ∈ k.st.procs, q.alive = true → q.pc = 0 → q.pid ≠ e.pid →
        q.k.fitOk = true ∧ q.k.ncoIng = none := by
      intro q hq hqa hq0 hne
      have hpc0 := hu.first hinv.heap hpk hpp ha hq hqa hq0
      have hn5 := hsi.tel0 p hpm ha hpc0 hk
      have hq5 : q.pid < 5 := by have := hpw.lt q hq; omega
      rw [hl.loop q hq hq5]
      have h1 : q.pid ≠ 1 := by
        have := hl.tel hpm hk
        omega
      refine ⟨fit_loopKind_ok h1, ?_⟩
      unfold nco_loopKind
      split <;> rfl
    have hnoPend : ¬ Pend k.st := by
      rintro ⟨q, hq, hqa, hq0, hqn⟩
      by_cases hne : q.pid = e.pid
      · have : q = p := hpw.eq_of_pid hq hpm (hne.trans hpid.symm)
        subst this
        rw [hk] at hqn; exact hqn rfl
      · exact hqn (holdOk q hq hqa hq0 hne).2
    have hnewk : ∀ c, NewKind p.k c → ∃ o, c = .allocIngest o 0 := by
      intro c w; rw [hk] at w; simpa [NewKind] using w
    refine ⟨?_, ?_⟩
    · -- the admission loop
      obtain ⟨U, hU⟩ := hs.ci
      have hlen := il_ingest_length hU.inv
      have hacc := hil.accounting
      obtain ⟨hen, _⟩ := hinv.heap.enabled hpw hpk hpp ha
      obtain ⟨p', hp', _, hmin⟩ := hen
      rw [hpp] at hp'; cases hp'
      have hst : k.st.ingestStale = 0 := hinv.ti.no_stale hpm ha hk hmin
      unfold ingestStale at hst
      rw [hst] at hacc
      have hF0 : k.st.promF = 0 := promF_zero_of_noPend hnoPend
      -- the promises after the block, read off the block's state
      have hblk : (k.st.resume e.pid orc).1.promF ≤
          ((k.st.oids).map (ilPromisedTo (k.st.telescopeBlock p.wake).1.procs
            (k.st.telescopeBlock p.wake).1.ilDemand)).sum := by
        unfold promF
        rw [oids_keep hkeep, ilDemand_keep hkeep]
        have hkb : ObsKeep k.st (k.st.telescopeBlock p.wake).1 := by
          have h1 : (k.st.resume e.pid orc).1.obs = (k.st.telescopeBlock p.wake).1.obs := by
            rw [hobs', block_telescope orc hk]
          unfold ObsKeep at hkeep ⊢
          rw [← h1]; exact hkeep
        rw [ilDemand_keep hkb]
        apply il_sum_le_of_le
        intro x _
        apply ilPromisedTo_mono
        intro hu'
        obtain ⟨q', hq', h1, h2, h3⟩ := ilUnprovisioned_iff.mp hu'
        rcases hm q' hq' with rfl | ⟨h, _⟩ | ⟨_, _, _, _, w5, _⟩
        · simp at h2
        · obtain ⟨new, hnew, _⟩ := block_newp k.st p orc
          rw [block_telescope orc hk] at hnew
          exact ilUnprovisioned_iff.mpr ⟨q', by rw [hnew]; exact List.mem_append_left _ h, h1, h2, h3⟩
        · rw [block_telescope orc hk] at w5
          exact ilUnprovisioned_iff.mpr ⟨q', w5, h1, h2, h3⟩
      refine Nat.le_trans hblk ?_
      rw [hav]
      unfold telescopeBlock
      split
      · -- every observation FINISHED: nothing happens
        show ((k.st.oids).map (ilPromisedTo k.st.procs k.st.ilDemand)).sum ≤ _
        have : ((k.st.oids).map (ilPromisedTo k.st.procs k.st.ilDemand)).sum = k.st.promF := rfl
        rw [this, hF0]; exact Nat.zero_le _
      · simp only
        have key := fit_telFold (natNow p.wake) k.st.cl.available.length k.st.cl.ingest.length
          k.st.oids hs.eg.obsNodup (k.st.obs.map (·.id))
          { k.st with telEvents := [],
                      telDelayed := if k.st.schedDelayed ∧ !k.st.telDelayed then true else k.st.telDelayed }
          none rfl rfl
          (by
            show (((k.st.oids.map (ilPromisedTo k.st.procs k.st.ilDemand)).sum : Nat) : Int) ≤ _
            have : ((k.st.oids).map (ilPromisedTo k.st.procs k.st.ilDemand)).sum = k.st.promF := rfl
            rw [this, hF0]
            show (0 : Int) ≤ k.st.provIngest - _
            omega)
          (by
            show (k.st.oids.map (ilPromisedTo k.st.procs k.st.ilDemand)).sum ≤ _
            have : ((k.st.oids).map (ilPromisedTo k.st.procs k.st.ilDemand)).sum = k.st.promF := rfl
            rw [this, hF0]; exact Nat.zero_le _)
        split
        all_goals
          rename_i heq
          have h := congrArg Prod.fst heq
          simp only at h
          rw [← h]
          exact key
    · intro q hq hqa hq0 hqn q' hq' hqa' hq0'
      rcases hP0 q' hq' hq0' with ⟨h', hne'⟩ | ⟨_, w', _, _⟩
      · exact (holdOk q' h' hqa' hq0' hne').1
      · obtain ⟨o', hc'⟩ := hnewk _ w'
        rw [hc']; rfl

/-- **The promises are covered, on every run of the simulator** (F14; `hb0`: the hot buffer of the
configuration holds no observation, so the scheduler loop's first block creates no process). -/
theorem sim_fit (env : SimEnv) (s0 : Sys) (hw : WFConfig s0) (hb0 : s0.buf.hot.stored = [])
    (k : SimState) (h : SimReach env s0 k) : FitInv k.st := by
  induction h with
  | start => exact FitInv.init s0 hw
  | step k k1 hr hs ih =>
    obtain ⟨e, hpk, hc⟩ := ot_step_cases hw hr hs
    rcases hc with ⟨hc, _⟩ | ⟨p, hpp, ha, _, _, hc⟩
    · rw [hc]; exact ih.same rfl rfl rfl
    · rw [hc]; exact ih.step hw hb0 hr hpk hpp ha _
  | collate k _ ih => exact ih.same rfl rfl rfl

/-- **`provision_ingest_resources` finds its machines** (F14, no `OneAdmission` hypothesis): in
every state of every run of the simulator, a live provisioning process before its first block asks
for no more machines than are available. -/
theorem sim_provIngest_fits (env : SimEnv) (s0 : Sys) (hw : WFConfig s0) (hb0 : s0.buf.hot.stored = [])
    (k : SimState) (h : SimReach env s0 k) {p : Proc} (hpm : p ∈ k.st.procs) (ha : p.alive = true)
    {o : Oid} {d : Nat} (hk : p.k = .provIngest o d) (hpc : p.pc = 0) :
    d ≤ k.st.cl.available.length := by
  have hinv := h.l3inv hw
  have hil : ILC k.st.procs k.st.ilDemand k.st.cl.ilEntries k.st.provIngest k.st.maxIngest k.st.admitted :=
    hinv.il
  obtain ⟨hd, w, hw', _, _, w3, _⟩ := hil.piLive p hpm ha hpc o d hk
  have hoadm : o ∈ k.st.admitted := hil.aiAdm w hw' o w3
  obtain ⟨ob, hob, _⟩ := hinv.sinv.eg.adm o hoadm
  have hoid : o ∈ k.st.oids := by
    obtain ⟨h1, h2⟩ := obs_mem_of_obs? hob
    unfold Sys.oids
    rw [← h2]; exact List.mem_map_of_mem h1
  have hunp : ilUnprovisioned k.st.procs o = true :=
    ilUnprovisioned_iff.mpr ⟨p, hpm, ha, hpc, Or.inr (by rw [hk]; rfl)⟩
  have h1 := Sys.le_promF hoid hunp
  have h2 := (sim_fit env s0 hw hb0 k h).fit
  omega

end Topsim
