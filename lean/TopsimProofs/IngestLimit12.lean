/-
  IngestLimit12 — runs of the deterministic simulator: `SimReach` (everything
  the executable API can produce: kernel steps and pause hand-overs), `SimRun`
  (one uninterrupted `env.run`), the refinement theorem `l3_refines_reach`, and
  the order fact "the telescope comes first" (after the monitor and the task
  bodies) in the style of `MonFirst`.
-/
import TopsimProofs.IngestLimit11

namespace Topsim

open KState Sys

/-! ### runs -/

/-- every state the executable API can produce from `start`: kernel steps (also after the
exception flag has been raised: the loop of `runUntil` stops there, the relation `RunsTo` does
not) and the hand-over at a pause -/
inductive SimReach (env : SimEnv) (s0 : Sys) : SimState → Prop
  | start : SimReach env s0 (SimState.start s0)
  | step (k k1 : SimState) : SimReach env s0 k → k.step (simHandler env) = some k1 → SimReach env s0 k1
  | collate (k : SimState) : SimReach env s0 k → SimReach env s0 { k with st := k.st.collate }

/-- one uninterrupted `env.run(...)`: kernel steps until the exception leaves the loop -/
inductive SimRun (env : SimEnv) (s0 : Sys) : SimState → Prop
  | start : SimRun env s0 (SimState.start s0)
  | step (k k1 : SimState) : SimRun env s0 k → k.st.halted = false →
      k.step (simHandler env) = some k1 → SimRun env s0 k1

theorem SimRun.toReach {env : SimEnv} {s0 : Sys} {k : SimState} (h : SimRun env s0 k) :
    SimReach env s0 k := by
  induction h with
  | start => exact SimReach.start
  | step k k1 _ _ hs ih => exact SimReach.step k k1 ih hs

theorem il_start_sinv (s0 : Sys) (hw : WFConfig s0) : SInv (SimState.start s0).st := start_inv s0 hw

theorem SimReach.inv {env : SimEnv} {s0 : Sys} (hw : WFConfig s0) {k : SimState}
    (h : SimReach env s0 k) : SInv k.st ∧ IlHeapOk k := by
  induction h with
  | start => exact ⟨il_start_sinv s0 hw, IlHeapOk.init s0 hw⟩
  | step k k1 _ hs ih =>
    obtain ⟨h1, h2, _⟩ := il_l3_step env k k1 ih.1 ih.2 hs
    exact ⟨h2, h1⟩
  | collate k _ ih => exact ⟨ih.1.il_collate, ih.2.collate⟩

theorem SimReach.runsTo {env : SimEnv} {s0 : Sys} {u : Time} {k k' : SimState}
    (h : SimReach env s0 k) (hr : RunsTo (simHandler env) u k k') : SimReach env s0 k' := by
  induction hr with
  | idle k _ => exact h
  | stop k e _ _ => exact h
  | step k k1 k2 e _ _ hs _ ih => exact ih (SimReach.step k k1 h hs)

theorem SimReach.runUntil {env : SimEnv} {s0 : Sys} (u : Time) (fuel : Nat) {k : SimState}
    (h : SimReach env s0 k) : SimReach env s0 (SimState.runUntil env u fuel k) := by
  induction fuel generalizing k with
  | zero => exact h
  | succ n ih =>
    unfold SimState.runUntil
    repeat' split
    all_goals first
      | exact h
      | (rename_i k1 hs; exact ih (SimReach.step _ k1 h hs))

theorem SimRun.runUntil {env : SimEnv} {s0 : Sys} (u : Time) (fuel : Nat) {k : SimState}
    (h : SimRun env s0 k) : SimRun env s0 (SimState.runUntil env u fuel k) := by
  induction fuel generalizing k with
  | zero => exact h
  | succ n ih =>
    unfold SimState.runUntil
    split
    · exact h
    · rename_i hh
      repeat' split
      all_goals first
        | exact h
        | (rename_i k1 hs; exact ih (SimRun.step _ k1 h (by simpa using hh) hs))

theorem SimReach.startUntil (env : SimEnv) (s0 : Sys) (u fuel : Nat) :
    SimReach env s0 (SimState.startUntil env s0 u fuel) := by
  unfold SimState.startUntil
  have := SimReach.runUntil (env := env) (s0 := s0) u fuel SimReach.start
  simp only
  split
  · exact this
  · exact SimReach.collate _ this

theorem SimReach.resumeUntil {env : SimEnv} {s0 : Sys} {k : SimState} (h : SimReach env s0 k)
    (u fuel : Nat) : SimReach env s0 (SimState.resumeUntil env k u fuel) := by
  unfold SimState.resumeUntil
  have := SimReach.runUntil (env := env) u fuel h
  simp only
  split
  · exact this
  · exact SimReach.collate _ this

theorem SimReach.runToCompletion {env : SimEnv} {s0 : Sys} (fuel steps now : Nat) {k : SimState}
    (h : SimReach env s0 k) : SimReach env s0 (SimState.runToCompletion env fuel steps now k).1 := by
  induction steps generalizing now k with
  | zero => exact h
  | succ n ih =>
    unfold SimState.runToCompletion
    split
    · exact h
    · split
      · exact SimReach.collate _ h
      · exact ih _ (SimReach.runUntil _ fuel h)

/-! ### L3 refines L2 -/

/-- **The simulator refines the block system.**  Every state of an uninterrupted run of the
deterministic simulator (SimPy's event order) is a state of the block system, reached by
resuming, each time, a process of minimal wake time with the simulator's oracle — up to the
`halted` flag, which the kernel raises when it pops the failure event of a process that raised
(the exception leaves `env.run`) and which no block reads. -/
theorem l3_refines_reach (env : SimEnv) (s0 : Sys) (hw : WFConfig s0) (k : SimState)
    (h : SimRun env s0 k) :
    ∃ s, ReachOk s0 s ∧ (k.st = s ∨ (k.st = { s with halted := true } ∧ k.st.halted = true)) := by
  induction h with
  | start => exact ⟨_, ReachOk.start, Or.inl rfl⟩
  | step k k1 hr hh hs ih =>
    obtain ⟨s, hrs, hks⟩ := ih
    rcases hks with hks | ⟨_, hks⟩
    · obtain ⟨hsi, hho⟩ := hr.toReach.inv hw
      obtain ⟨_, _, e, _, hc⟩ := il_l3_step env k k1 hsi hho hs
      rcases hc with ⟨hc, _⟩ | ⟨hen, _, hc⟩
      · exact ⟨s, hrs, Or.inr ⟨by rw [hc, hks], by rw [hc]⟩⟩
      · refine ⟨_, ReachOk.step s e.pid (env.oracle s) hrs (by rw [← hks]; exact hen)
          (fun _ => il_oracle_preOk env s), Or.inl ?_⟩
        rw [hc, hks]
    · rw [hks] at hh; exact absurd hh (by simp)

/-- every property of the block system's reachable states that does not read the `halted` flag
holds along the simulator's runs -/
theorem l3_transfer (env : SimEnv) (s0 : Sys) (hw : WFConfig s0) (P : Sys → Prop)
    (hP : ∀ s, ReachOk s0 s → P s) (hhalt : ∀ s, P s → P { s with halted := true }) (k : SimState)
    (h : SimRun env s0 k) : P k.st := by
  obtain ⟨s, hrs, hks | ⟨hks, _⟩⟩ := l3_refines_reach env s0 hw k h
  · rw [hks]; exact hP s hrs
  · rw [hks]; exact hhalt s (hP s hrs)

/-! ### the telescope comes first -/

/-- For a live telescope process there is a heap entry `m` such that every other entry whose
process is neither the monitor (pid 0) nor a task body is still pending at the instant just before
`m` (the telescope has already run at that instant), or is scheduled at `m`'s own time, after `m`
in the event order. -/
def IlTelFirst (k : SimState) : Prop :=
  ∀ t ∈ k.st.procs, t.k = .telescope → t.alive = true →
    ∃ m ∈ k.heap, m.pid = t.pid ∧ m.prio ≤ 1 ∧
      ∀ x ∈ k.heap, x ≠ m → x.pid ≠ 0 → ¬ k.st.isDW x.pid →
        (x.time + 1 = m.time ∨ (x.time = m.time ∧ m.lt x = true))

theorem IlTelFirst.collate {k : SimState} (h : IlTelFirst k) : IlTelFirst { k with st := k.st.collate } := h

theorem IlTelFirst.init (s0 : Sys) (hw : WFConfig s0) : IlTelFirst (SimState.start s0) := by
  obtain ⟨hprocs, hnp, _⟩ := hw.fresh
  obtain ⟨hh, _⟩ := SimState.start_heap s0
  have hst : (SimState.start s0).st = s0.start := rfl
  have hp : s0.start.procs =
      [{ pid := 0, k := .monitor, wake := 0 }, { pid := 1, k := .telescope, wake := 0 },
       { pid := 2, k := .clusterLoop, wake := 0 }, { pid := 3, k := .schedLoop, wake := 0 },
       { pid := 4, k := .bufferLoop, wake := 0 }] := by
    simp [start, spawn, hprocs, hnp]
  intro t ht htk _
  rw [hst, hp] at ht
  simp only [List.mem_cons, List.not_mem_nil, or_false] at ht
  rcases ht with rfl | rfl | rfl | rfl | rfl <;> simp at htk
  refine ⟨⟨0, 0, 1, 1⟩, by rw [hh]; simp, rfl, by simp, ?_⟩
  intro x hx hne h0 _
  rw [hh] at hx
  simp only [List.mem_cons, List.not_mem_nil, or_false] at hx
  rcases hx with rfl | rfl | rfl | rfl | rfl
  · exact absurd rfl h0
  · exact absurd rfl hne
  all_goals right; simp [HEntry.lt]

theorem IlTelFirst.step (env : SimEnv) (k k' : SimState) (hs : SInv k.st) (h : IlHeapOk k)
    (hmon : k.st.isMon) (inv : IlTelFirst k) (hstep : k.step (simHandler env) = some k') :
    IlTelFirst k' := by
  obtain ⟨h', hs', e, hp, hcase⟩ := il_l3_step env k k' hs h hstep
  obtain ⟨he, hleast⟩ := peek_spec k e hp
  obtain ⟨hst, hkeep, _, eid2, heid2, hnew, hto⟩ :=
    step_spec (simHandler env) k k' e hp hstep h.fresh
  have hpw := hs.pw
  have hdw' : ∀ X, ¬ k'.st.isDW X → ¬ k.st.isDW X := by
    intro X hX hd
    apply hX
    rw [hst]
    exact simHandler_isDW env _ _ _ X hd
  intro t' ht' ht'k ht'a
  -- the old entry of the telescope
  obtain ⟨t0, ht0, ht0k⟩ := h.telEx
  rcases hcase with ⟨hc, hdead⟩ | ⟨hen, ⟨p, hpp, ha, het⟩, hc⟩
  · -- a failure event: the state only gets the flag
    have ht'0 : t' ∈ k.st.procs := by rw [hc] at ht'; exact ht'
    obtain ⟨m, hm, hmpid, hmprio, hfirst⟩ := inv t' ht'0 ht'k ht'a
    have hem : e ≠ m := by
      intro hem
      have := hdead t' (by rw [hem, hmpid]; exact hpw.proc?_of_mem ht'0)
      rw [this] at ht'a; exact absurd ht'a (by simp)
    refine ⟨m, hkeep m ((List.mem_erase_of_ne (Ne.symm hem)).mpr hm), hmpid, hmprio, ?_⟩
    intro x hx hxm hx0 hxdw
    have hsp : (simHandler env k.st e.pid e.time).2.1 = [] ∧ (simHandler env k.st e.pid e.time).2.2 = none := by
      rcases simHandler_cases env k.st e.pid e.time with ⟨hh, _⟩ | ⟨_, _, hh3⟩
      · rw [hh]; exact ⟨rfl, rfl⟩
      · exfalso
        -- the process is dead, `resume` is not called
        cases hq : k.st.proc? e.pid with
        | none =>
          have : simHandler env k.st e.pid e.time = ({ k.st with halted := true }, [], none) := by
            unfold simHandler; rw [hq]
          rw [this] at hh3
          unfold resume at hh3
          rw [hq] at hh3
          simp at hh3
        | some q =>
          have hqa := hdead q hq
          have : simHandler env k.st e.pid e.time = ({ k.st with halted := true }, [], none) := by
            unfold simHandler; rw [hq]; simp [hqa]
          rw [this] at hh3
          unfold resume at hh3
          rw [hq] at hh3
          simp [hqa] at hh3
    rcases hnew x hx with h1 | ⟨_, _, h1⟩ | ⟨d, hd, _⟩
    · exact hfirst x (List.mem_of_mem_erase h1) hxm hx0 (hdw' _ hxdw)
    · rw [hsp.1] at h1; cases h1
    · rw [hsp.2] at hd; cases hd
  · -- one block of the live process `p`
    obtain ⟨hpm, hpid⟩ := proc?_some hpp
    have ht'' : t' ∈ (k.st.resume e.pid (env.oracle k.st)).1.procs := by rw [← hc]; exact ht'
    have hs'' : SInv (k.st.resume e.pid (env.oracle k.st)).1 := by rw [← hc]; exact hs'
    obtain ⟨m1, m2, m3⟩ := il_resume_procs_mem hpw hpp ha (env.oracle k.st)
    -- `t'` is the old telescope, possibly after its own block
    have ht1 : ∃ t1 ∈ (k.st.resume e.pid (env.oracle k.st)).1.procs, t1.pid = t0.pid ∧ t1.k = .telescope := by
      by_cases hte : t0.pid = e.pid
      · have : t0 = p := hpw.eq_of_pid ht0 hpm (hte.trans hpid.symm)
        subst this
        refine ⟨_, m2, by simp, ?_⟩
        simp only [fin_k]
        unfold block
        simp only [ht0k]
      · exact ⟨t0, m3 t0 ht0 hte, rfl, ht0k⟩
    obtain ⟨t1, ht1m, ht1p, ht1k⟩ := ht1
    have hpid' : t'.pid = t0.pid := (hs''.eg.telUniq t' ht'' t1 ht1m ht'k ht1k).trans ht1p
    have hunit : ∀ d, (simHandler env k.st e.pid e.time).2.2 = some d → ¬ k.st.isDW e.pid → d = 1 ∨ d = 0 :=
      fun d hd hnd => simHandler_unit env k.st e.pid e.time hnd d hd
    rcases m1 t' ht'' with rfl | ⟨hold, hne⟩ | ⟨_, _, _, w4⟩
    · -- the telescope itself has just run
      have hpt : p = t0 := hpw.eq_of_pid hpm ht0 (by simpa using hpid')
      have hpk : p.k = .telescope := by rw [hpt]; exact ht0k
      obtain ⟨m, hm, hmpid, hmprio, hfirst⟩ := inv p hpm hpk ha
      have hem : e = m := by
        have h1 : e.pid = m.pid := by rw [hmpid, hpid]
        exact nodup_map_inj (·.pid) k.heap h.uniq e m he hm h1
      obtain ⟨_, d, hd⟩ := (il_fin_alive_iff _ _ _ _).mp ht'a
      have hu := block_unit k.st p (env.oracle k.st) (by rw [hpk]; rfl)
      rw [hd] at hu
      simp only [Yield.unit] at hu
      subst hu
      have hy : (simHandler env k.st e.pid e.time).2.2 = some 1 := by
        rcases simHandler_cases env k.st e.pid e.time with ⟨_, hdd⟩ | ⟨_, _, hh3⟩
        · have := hdd p hpp; rw [this] at ha; exact absurd ha (by simp)
        · rw [hh3, (il_resume_procs_eq k.st e.pid (env.oracle k.st) p hpp ha).2.2, hd]
      refine ⟨⟨e.time + 1, 1, eid2, e.pid⟩, hto 1 hy, by simp [hpid], Nat.le_refl _, ?_⟩
      intro x hx hxm hx0 hxdw
      rcases hnew x hx with h1 | ⟨h1, _, _⟩ | ⟨d, hd', hxd⟩
      · left
        show x.time + 1 = e.time + 1
        have hxh : x ∈ k.heap := List.mem_of_mem_erase h1
        have hxe : x ≠ m := by
          intro hxe
          have : x.pid = e.pid := by rw [hxe, hem]
          have hin : x.pid ∈ (k.heap.erase e).map (·.pid) := List.mem_map_of_mem h1
          rw [map_erase_of_nodup (·.pid) k.heap e he h.uniq, this] at hin
          exact ((List.Nodup.mem_erase_iff h.uniq).mp hin).1 rfl
        rcases hfirst x hxh hxe hx0 (hdw' _ hxdw) with h2 | ⟨h2, _⟩
        · exfalso
          have := hleast x hxh
          rw [lt_false_iff] at this
          rw [← hem] at h2
          grind
        · rw [h2, ← hem]
      · left; show x.time + 1 = e.time + 1; rw [h1]
      · rw [hy] at hd'
        cases hd'
        exact absurd hxd hxm
    · -- another process has run; the telescope's entry stays where it is
      have ht'e : t' = t0 := hpw.eq_of_pid hold ht0 hpid'
      obtain ⟨m, hm, hmpid, hmprio, hfirst⟩ := inv t' hold ht'k ht'a
      have hem : e ≠ m := by
        intro hem; apply hne; rw [← hmpid, ← hem]
      have hmk : m ∈ k'.heap := hkeep m ((List.mem_erase_of_ne (Ne.symm hem)).mpr hm)
      refine ⟨m, hmk, hmpid, hmprio, ?_⟩
      -- an ordinary process is popped only after the telescope has run at this instant
      have hpos : e.pid ≠ 0 → ¬ k.st.isDW e.pid → e.time + 1 = m.time := by
        intro he0 hedw
        rcases hfirst e he hem he0 hedw with h2 | ⟨_, h2⟩
        · exact h2
        · rw [hleast m hm] at h2; cases h2
      intro x hx hxm hx0 hxdw
      rcases hnew x hx with h1 | ⟨h1, _, h2⟩ | ⟨d, hd, hxd⟩
      · exact hfirst x (List.mem_of_mem_erase h1) hxm hx0 (hdw' _ hxdw)
      · left
        by_cases hedw : k.st.isDW e.pid
        · rw [simHandler_quiet env k.st e.pid e.time hedw] at h2; cases h2
        · by_cases he0 : e.pid = 0
          · rw [he0, (simHandler_mon env k.st e.time hmon).1] at h2; cases h2
          · rw [h1]; exact hpos he0 hedw
      · have hedw : ¬ k.st.isDW e.pid := by
          have := hdw' _ hxdw
          rw [hxd] at this
          exact this
        have he0 : e.pid ≠ 0 := by rw [hxd] at hx0; exact hx0
        have hme : m.eid < eid2 := Nat.lt_of_lt_of_le (h.fresh m hm) heid2
        have ht := hpos he0 hedw
        rcases hunit d hd hedw with h1 | h1
        · right
          subst h1 hxd
          refine ⟨ht, ?_⟩
          rw [lt_iff]
          simp only
          right
          refine ⟨ht.symm, ?_⟩
          omega
        · left
          subst h1 hxd
          simp only
          grind
    · -- a new process is never a second telescope
      have := hpw.lt t0 ht0
      omega

end Topsim
