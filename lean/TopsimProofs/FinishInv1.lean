/-
  FinishInv1 — the cluster's machine list never changes along a run (whatever
  the oracle does), and the cluster-level facts of a finished simulation.
-/
import TopsimProofs.SysInv
import TopsimProofs.QueryLemmas

namespace Topsim
namespace Sys

open Cluster

/-! ### no cluster operation touches `machines` -/

theorem addIdleResource_machines (c : Cluster) (o : Oid) (m : Mid) :
    (c.addIdleResource o m).1.machines = c.machines := by
  unfold addIdleResource
  by_cases h1 : dictHas c.idle o = true <;> by_cases h2 : m ∈ c.available <;> simp [h1, h2]

theorem addIdleAll_machines (c : Cluster) (o : Oid) (ms : List Mid) :
    (c.addIdleAll o ms).1.machines = c.machines := by
  induction ms generalizing c with
  | nil => rfl
  | cons m rest ih =>
    unfold addIdleAll
    have h1 := addIdleResource_machines c o m
    generalize c.addIdleResource o m = r at h1
    obtain ⟨c1, e1⟩ := r
    cases e1 with
    | some e => exact h1
    | none => exact (ih c1).trans h1

theorem provisionBatch_machines (c : Cluster) (n : Nat) (o : Oid) :
    (c.provisionBatch n o).1.machines = c.machines := by
  unfold provisionBatch
  simp only
  generalize (if n > c.available.length ∧ c.available.length > 0 then c.available.length else n) = s'
  by_cases hs : s' > c.available.length
  · simp only [hs, if_true]
  · simp only [hs, if_false]
    have h1 := addIdleAll_machines c o (c.available.take s')
    generalize c.addIdleAll o (c.available.take s') = r at h1
    obtain ⟨c1, e1⟩ := r
    cases e1 <;> exact h1

theorem releaseBatch_machines (c : Cluster) (o : Oid) : (c.releaseBatch o).machines = c.machines := by
  unfold releaseBatch
  split
  · rfl
  · simp only; split <;> rfl

theorem moveToIngest_machines (c : Cluster) (obs : Oid) (pairs : List (Mid × Tid)) :
    (moveToIngest c obs pairs).1.machines = c.machines := by
  induction pairs generalizing c with
  | nil => rfl
  | cons p rest ih =>
    obtain ⟨m, t⟩ := p
    unfold moveToIngest
    simp only
    split
    · exact ih _
    · rfl

theorem provisionIngest_machines (c : Cluster) (d : Nat) (o : Oid) :
    (c.provisionIngest d o).1.machines = c.machines := by
  unfold provisionIngest
  split
  · rfl
  · simp only
    exact moveToIngest_machines _ _ _

theorem setMachineOccupied_machines (c : Cluster) (m : Mid) (obs : Option Oid) :
    (c.setMachineOccupied m obs).1.machines = c.machines := by
  unfold setMachineOccupied
  split
  · rfl
  · split
    · rfl
    · split
      · rfl
      · split <;> rfl

theorem setMachineAvailable_machines (c : Cluster) (m : Mid) (obs : Option Oid) :
    (c.setMachineAvailable m obs).1.machines = c.machines := by
  unfold setMachineAvailable
  split
  · split
    · rfl
    · simp only; split <;> rfl
  · rfl

theorem allocBegin_machines (c : Cluster) (t : Tid) (m : Mid) (obs : Option Oid) (ing : Bool) :
    (c.allocBegin t m obs ing).1.machines = c.machines := by
  unfold allocBegin
  by_cases ht : t ∈ c.running
  · simp only [ht, if_true]
  · simp only [ht, if_false]
    cases ing with
    | true =>
      simp only [if_true]
      split <;> rfl
    | false =>
      simp only [Bool.false_eq_true, if_false]
      split
      · rfl
      · have hf := setMachineOccupied_machines c m obs
        generalize c.setMachineOccupied m obs = r at hf
        obtain ⟨c1, e1⟩ := r
        cases e1 <;> exact hf

theorem allocEnd_machines (c : Cluster) (t : Tid) (m : Mid) (obs : Option Oid) (ing : Bool) :
    (c.allocEnd t m obs ing).1.machines = c.machines := by
  unfold allocEnd
  by_cases ht : t ∈ c.running
  · simp only [ht, if_true]
    cases ing with
    | true =>
      simp only [if_true]
      split <;> rfl
    | false =>
      simp only [Bool.false_eq_true, if_false]
      generalize hc1 : ({ c with running := c.running.erase t, uRunning := c.uRunning - 1,
                                 finished := dictSet c.finished t true,
                                 uFinished := c.uFinished + 1 } : Cluster) = c1
      have hm1 : c1.machines = c.machines := by subst hc1; rfl
      have hf := setMachineAvailable_machines c1 m obs
      generalize c1.setMachineAvailable m obs = r at hf
      obtain ⟨c2, e2⟩ := r
      cases e2 <;> exact hf.trans hm1
  · simp only [ht, if_false]

theorem applyOp_machines (c : Cluster) (op : ClOp) : (c.applyOp op).1.machines = c.machines := by
  cases op with
  | provBatch n o => exact provisionBatch_machines c n o
  | relBatch o => exact releaseBatch_machines c o
  | provIngest d o => exact provisionIngest_machines c d o
  | ingestBegin i =>
    simp only [applyOp]
    split
    · rfl
    · exact allocBegin_machines _ _ _ _ _
  | alloc t m obs => exact allocBegin_machines _ _ _ _ _
  | finish i =>
    simp only [applyOp]
    split
    · rfl
    · exact allocEnd_machines _ _ _ _ _
  | tick => simp only [applyOp, loopTick]; split <;> rfl
  | cleanupIngest => rfl

theorem foldOps_machines (ops : List ClOp) (c : Cluster) :
    (ops.foldl (fun c op => (c.applyOp op).1) c).machines = c.machines := by
  induction ops generalizing c with
  | nil => rfl
  | cons op rest ih => exact (ih _).trans (applyOp_machines c op)

theorem provisionResources_machines (c : Cluster) (parts minPer : Nat)
    (split : Option (List (Oid × Nat × Nat))) (o : Oid) (c1 : Cluster) (b : Bool)
    (h : Alg.provisionResources c parts minPer split o = .ok (c1, b)) : c1.machines = c.machines := by
  unfold Alg.provisionResources at h
  split at h
  · injection h with h; injection h with h1 _; subst h1; rfl
  · split at h
    · split at h
      · exact absurd h (by simp)
      · rename_i prov _
        split at h
        · injection h with h; injection h with h1 _; subst h1; rfl
        · have hq := provisionBatch_machines c prov o
          generalize c.provisionBatch prov o = r at h hq
          obtain ⟨c2, e2⟩ := r
          cases e2 with
          | some e => exact absurd h (by simp)
          | none =>
            simp only at h
            injection h with h; injection h with h1 _; subst h1; exact hq
    · injection h with h; injection h with h1 _; subst h1; rfl

theorem runAlgorithm_machines (s : Sys) (orc : Oracle) (plan : Plan) (schedule : List (Tid × Mid))
    (pool : List Tid) (out : AlgOut) (h : s.runAlgorithm orc plan schedule pool = .ok out) :
    out.cl.machines = s.cl.machines := by
  unfold runAlgorithm at h
  split at h
  · unfold Alg.batchRun at h
    split at h
    · exact absurd h (by simp)
    · rename_i cl1 prov hpr
      have h1 := provisionResources_machines _ _ _ _ _ _ _ hpr
      injection h with h
      subst h
      simp only
      split
      · exact (releaseBatch_machines _ _).trans h1
      · exact h1
  · unfold Alg.queueRun at h
    injection h with h
    subst h
    simp only
    split
    · exact releaseBatch_machines _ _
    · rfl
  · unfold Alg.dynamicRun at h
    simp only at h
    split at h
    · exact absurd h (by simp)
    · injection h with h; subst h; rfl
  · unfold Alg.greedyRun at h
    split at h
    · exact absurd h (by simp)
    · injection h with h; subst h; rfl
  · injection h with h
    subst h
    exact foldOps_machines orc.pre s.cl

/-! ### no block touches `cl.machines` -/

syntax "mach_split" : tactic
macro_rules
  | `(tactic| mach_split) =>
    `(tactic| first
      | rfl
      | (split <;> mach_split))

theorem checkIngestCapacity_clm (s : Sys) (o : Obs) (s' : Sys) (b : Bool)
    (h : s.checkIngestCapacity o = .ok (s', b)) : s'.cl = s.cl :=
  (checkIngestCapacity_core s o s' b h).cl

theorem telescopeVisit_clm (n : Nat) (acc : Sys × Option Err) (oid : Oid) :
    (telescopeVisit n acc oid).1.cl = acc.1.cl := by
  obtain ⟨s1, err⟩ := acc
  unfold telescopeVisit
  cases err with
  | some e => rfl
  | none =>
    simp only
    split
    · rfl
    · rename_i o _
      split
      · cases hc : s1.checkIngestCapacity o with
        | error e => rfl
        | ok r =>
          obtain ⟨s', b⟩ := r
          have := checkIngestCapacity_clm s1 o s' b hc
          cases b with
          | false => exact this
          | true => simp only; exact this
      · split <;> rfl

theorem telescopeBlock_clm (s : Sys) (now : Time) : (s.telescopeBlock now).1.cl = s.cl := by
  unfold telescopeBlock
  split
  · rfl
  · simp only
    have : ∀ (l : List Oid) (acc : Sys × Option Err),
        (l.foldl (telescopeVisit (natNow now)) acc).1.cl = acc.1.cl := by
      intro l
      induction l with
      | nil => intro acc; rfl
      | cons x r ih => intro acc; exact (ih _).trans (telescopeVisit_clm _ acc x)
    have h2 := this (s.obs.map (·.id))
      ({ s with telEvents := [], telDelayed := if s.schedDelayed = true ∧ (!s.telDelayed) = true then true else s.telDelayed }, none)
    generalize (List.foldl (telescopeVisit (natNow now)) ({ s with telEvents := [], telDelayed := if s.schedDelayed = true ∧ (!s.telDelayed) = true then true else s.telDelayed }, none) (s.obs.map (·.id))) = r at h2 ⊢
    obtain ⟨s1, e1⟩ := r
    cases e1 <;> exact h2

theorem foldl_clm {α} (f : Sys → α → Sys) (hf : ∀ s x, (f s x).cl.machines = s.cl.machines) (l : List α)
    (s : Sys) : (l.foldl f s).cl.machines = s.cl.machines := by
  induction l generalizing s with
  | nil => rfl
  | cons x r ih => exact (ih _).trans (hf s x)

theorem processOne_clm (now : Time) (oid : Oid) (st : PcsSt) (t : Tid) :
    (processOne now oid st t).s.cl.machines = st.s.cl.machines := by
  unfold processOne
  cases hok : st.err with
  | some e => rfl
  | none =>
    simp only
    cases hm : dictGet st.schedule t with
    | none => rfl
    | some m =>
      cases hr : st.s.task? t with
      | none => rfl
      | some r =>
        simp only []
        cases hmm : st.s.machine? m with
        | none => rfl
        | some mm =>
          simp only []
          by_cases hz : ((r.allocObj || r.planned != some m) = true ∧ (mm.cpu = 0 ∨ mm.bw = 0))
          · rw [if_pos hz]
          · simp only [hz, if_false]
            generalize hs1 : (if (r.allocObj || r.planned != some m) = true then
              st.s.updTask t (fun r => updateAllocation r mm) else st.s) = s1
            have h1 : s1.cl.machines = st.s.cl.machines := by subst hs1; split <;> rfl
            by_cases hocc : (st.curr.contains m = true ∨ s1.cl.isOccupied m = true)
            · simp only [hocc, if_true]; exact h1
            · simp only [hocc, if_false]
              by_cases hmiss : (r.preds.any fun p => !dictHas (dictSet st.pairs t m) p) = true
              · simp only [hmiss, if_true]; exact h1
              · simp only [hmiss]
                by_cases hst : r.status ≠ TStatus.unscheduled
                · rw [if_pos hst]; exact h1
                · rw [if_neg hst]; exact h1

theorem processCurrentSchedule_clm (s : Sys) (now : Time) (oid : Oid)
    (schedule pairs : List (Tid × Mid)) :
    (processCurrentSchedule s now oid schedule pairs).s.cl.machines = s.cl.machines := by
  unfold processCurrentSchedule
  simp only
  generalize ((dictKeys schedule).mergeSort _) = l
  have : ∀ (l : List Tid) (st : PcsSt), (l.foldl (processOne now oid) st).s.cl.machines = st.s.cl.machines := by
    intro l
    induction l with
    | nil => intro st; rfl
    | cons x r ih => intro st; exact (ih _).trans (processOne_clm now oid st x)
  exact this l { s := s, schedule := schedule, pairs := pairs, curr := [] }

theorem allocTasksIter_clm (s : Sys) (now : Time) (orc : Oracle) (oid : Oid)
    (schedule pairs : List (Tid × Mid)) (pool : List Tid) :
    (s.allocTasksIter now orc oid schedule pairs pool).1.cl.machines = s.cl.machines := by
  unfold allocTasksIter
  simp only
  have h1 : (s.updateCurrentPlan oid).cl.machines = s.cl.machines := by
    rw [(updateCurrentPlan_core s oid).cl]
  generalize s.updateCurrentPlan oid = s1 at h1
  split
  · exact h1
  · split
    · exact h1
    · rename_i out hout
      have hq := runAlgorithm_machines s1 orc _ schedule pool out hout
      have h3 : (if out.status = WStatus.delayed then { (({ s1 with cl := out.cl }).updPlan oid (fun p => { p with status := out.status })) with schedDelayed := true } else (({ s1 with cl := out.cl }).updPlan oid (fun p => { p with status := out.status }))).cl.machines = s.cl.machines := by
        split <;> exact hq.trans h1
      generalize (if out.status = WStatus.delayed then { (({ s1 with cl := out.cl }).updPlan oid (fun p => { p with status := out.status })) with schedDelayed := true } else (({ s1 with cl := out.cl }).updPlan oid (fun p => { p with status := out.status }))) = s3 at h3
      split
      · split
        · split
          · exact (releaseBatch_machines _ _).trans h3
          · exact (releaseBatch_machines _ _).trans h3
        · exact h3
      · split
        · exact h3
        · have h4 := processCurrentSchedule_clm s3 now oid out.schedule pairs
          split <;> exact h4.trans h3

theorem allocTasksBlock_clm (s : Sys) (now : Time) (orc : Oracle) (pc : Nat) (oid : Oid)
    (schedule pairs : List (Tid × Mid)) (pool : List Tid) (fin : Bool) :
    (s.allocTasksBlock now orc pc oid schedule pairs pool fin).1.cl.machines = s.cl.machines := by
  unfold allocTasksBlock
  split
  · rfl
  · split
    · simp only
      rw [allocTasksIter_clm]
      refine Eq.trans (foldl_clm _ ?_ _ _) rfl
      intro s x; rfl
    · exact allocTasksIter_clm _ _ _ _ _ _ _

theorem block_clm (s : Sys) (p : Proc) (orc : Oracle) : (s.block p orc).1.cl.machines = s.cl.machines := by
  unfold block
  split
  · rfl
  · show (s.telescopeBlock p.wake).1.cl.machines = _; rw [telescopeBlock_clm]
  · show s.cl.loopTick.machines = _; unfold loopTick; split <;> rfl
  · show (s.schedLoopBlock p.wake orc).1.cl.machines = _
    unfold schedLoopBlock
    simp only
    split
    · split
      · rfl
      · split
        · rfl
        · split <;> split <;> rfl
    · rfl
  · show (s.bufferLoopBlock p.wake).1.cl.machines = _
    unfold bufferLoopBlock
    split
    · rfl
    · simp only; split <;> split <;> rfl
  · rename_i o tl _
    show (s.allocIngestBlock p.wake p.pc o tl).1.cl.machines = _
    have hi : ∀ s : Sys, ∀ tl, (s.allocIngestIter p.wake o tl).1.cl.machines = s.cl.machines := by
      intro s tl; unfold allocIngestIter; simp only; mach_split
    unfold allocIngestBlock
    split
    · rw [hi]; rfl
    · exact hi _ _
  · rename_i o d _
    show (s.provIngestBlock p.wake p.pc o d).1.cl.machines = _
    unfold provIngestBlock
    split
    · simp only
      have hm := provisionIngest_machines s.cl d o
      generalize s.cl.provisionIngest d o = r at hm
      obtain ⟨cl1, e1, pairs⟩ := r
      cases e1 with
      | some e => exact hm
      | none =>
        simp only
        refine Eq.trans (foldl_clm _ ?_ _ _) hm
        intro s x; rfl
    · rfl
  · rename_i o tl _
    show (s.ingestStreamBlock p.wake p.pc o tl).1.cl.machines = _
    have hi : ∀ s : Sys, ∀ tl, (s.ingestStreamIter p.wake o tl).1.cl.machines = s.cl.machines := by
      intro s tl; unfold ingestStreamIter; mach_split
    unfold ingestStreamBlock
    split
    · split
      · rfl
      · split
        · rfl
        · rw [hi]; rfl
    · exact hi _ _
  · rename_i t m preds obs ing ret _
    show (s.allocTaskBlock p.wake t m preds obs ing ret).1.cl.machines = _
    unfold allocTaskBlock
    simp only
    have hb := allocBegin_machines s.cl t m obs ing
    have he := allocEnd_machines s.cl t m obs ing
    split
    · generalize s.cl.allocBegin t m obs ing = r at hb
      obtain ⟨cl1, e1⟩ := r
      cases e1 with
      | some e => exact hb
      | none =>
        simp only
        split
        · split
          · have he' := allocEnd_machines cl1 t m obs ing
            simp only [spawn_cl, updTask_cl]
            generalize cl1.allocEnd t m obs ing = r2 at he'
            obtain ⟨cl2, e2⟩ := r2
            cases e2 <;> exact he'.trans hb
          · exact hb
        · exact hb
    · split
      · generalize s.cl.allocEnd t m obs ing = r at he
        obtain ⟨cl1, e1⟩ := r
        cases e1 <;> exact he
      · rfl
  · rename_i t m preds ph tot _
    show (s.doWorkBlock p.wake orc t m preds ph tot).1.cl.machines = _
    rcases doWorkBlock_out s p.wake orc t m preds ph tot with
      ⟨_, _, _, _, heq⟩ | ⟨_, _, _, _, _, heq⟩ | ⟨_, _, _, heq⟩ <;> rw [heq] <;> rfl
  · exact allocTasksBlock_clm _ _ _ _ _ _ _ _ _
  · rename_i cur _
    show (s.hot2coldBlock p.wake cur).1.cl.machines = _
    have hi : ∀ s : Sys, ∀ o left, (s.hot2coldIter p.wake o left).1.cl.machines = s.cl.machines := by
      intro s o left; unfold hot2coldIter; mach_split
    unfold hot2coldBlock
    split
    · exact hi _ _ _
    · split
      · rfl
      · rfl
      · rw [hi]; rfl
  · rename_i cur _
    show (s.cold2hotBlock p.wake cur).1.cl.machines = _
    have hi : ∀ s : Sys, ∀ o left, (s.cold2hotIter p.wake o left).1.cl.machines = s.cl.machines := by
      intro s o left; unfold cold2hotIter; mach_split
    unfold cold2hotBlock
    split
    · exact hi _ _ _
    · split
      · rfl
      · rfl
      · rw [hi]; rfl

theorem resume_clm (s : Sys) (pid : Nat) (orc : Oracle) :
    (s.resume pid orc).1.cl.machines = s.cl.machines := by
  unfold resume
  split
  · rfl
  · split
    · rfl
    · rename_i p _ _
      have := block_clm s p orc
      generalize s.block p orc = r at this
      obtain ⟨s1, k, y⟩ := r
      cases y with
      | timeout d => exact this
      | done => exact this
      | raised e => simp only; rw [crash_cl]; exact this

theorem reach_machines {s0 s : Sys} (hw : WFConfig s0) (h : Reach s0 s) :
    s.cl.machines = s0.machines.map (·.id) := by
  induction h with
  | start =>
    have : s0.start.cl = s0.cl := by simp [start, spawn]
    rw [this, hw.clInit]; rfl
  | step s pid orc _ _ ih => rw [resume_clm]; exact ih

end Sys
end Topsim
