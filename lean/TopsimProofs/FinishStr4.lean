/-
  FinishStr4 — conservation over BOTH tiers (`HC2`): the data of the observations
  not yet removed fits in the used space of the hot and the cold buffer together.
  Tier-move steps that do not raise keep the total used space (the buffer-level
  law of `BufferLemmas`), so the law holds along every run that has not crashed,
  tier moves included: in a finished run every observation has been removed from
  the hot buffer.
-/
import TopsimProofs.FinishStr3
import TopsimProofs.BufferLemmas

namespace Topsim
namespace Sys

open Cluster

/-- used space of both tiers -/
def used2 (b : Buffer) : Int := (b.hot.total - b.hot.cur) + (b.cold.total - b.cold.cur)

/-- size, removed list and total used space agree -/
def Acct (a b : Buffer) : Prop := b.size = a.size ∧ b.hot.finished = a.hot.finished ∧ used2 b = used2 a

theorem Acct.trans {a b c : Buffer} (h1 : Acct a b) (h2 : Acct b c) : Acct a c :=
  ⟨h2.1.trans h1.1, h2.2.1.trans h1.2.1, h2.2.2.trans h1.2.2⟩

theorem hot2coldIter_acct (s : Sys) (now : Time) (o : Oid) (left : Int) :
    (∃ e, (s.hot2coldIter now o left).2.2 = .raised e) ∨ Acct s.buf (s.hot2coldIter now o left).1.buf := by
  unfold hot2coldIter
  split
  · exact Or.inr ⟨rfl, rfl, rfl⟩
  · obtain ⟨h1, h2, h3, h4, h5, h6, h7⟩ := Buffer.hot2coldStep_spec s.buf o left
    have h9 := Buffer.recvAmount_fst s.buf.moveRate left (s.buf.sizeOf o)
    have h10 := Buffer.sendAmount_fst s.buf.moveRate left (s.buf.sizeOf o)
    cases hr : s.buf.hot2coldStep o left with
    | mk b1 res =>
      rw [hr] at h1 h2 h3 h4 h5 h6 h7
      simp only at h1 h2 h3 h4 h5 h6 h7 ⊢
      cases res with
      | error e => exact Or.inl ⟨e, rfl⟩
      | ok l' =>
        have h8 := h7 ⟨l', rfl⟩
        refine Or.inr ⟨h1, h2, ?_⟩
        unfold used2
        show (b1.hot.total - b1.hot.cur) + (b1.cold.total - b1.cold.cur) = _
        rw [h3, h4, h5, h6]; omega

theorem hot2coldBlock_acct (s : Sys) (now : Time) (cur : Option (Oid × Int)) :
    (∃ e, (s.hot2coldBlock now cur).2.2 = .raised e) ∨ Acct s.buf (s.hot2coldBlock now cur).1.buf := by
  unfold hot2coldBlock
  split
  · exact hot2coldIter_acct s now _ _
  · obtain ⟨h1, h2, h3, h4, h5, h6⟩ := Buffer.hot2coldBegin_spec s.buf
    have hu : Acct s.buf s.buf.hot2coldBegin.1 := ⟨h1, h2, by unfold used2; rw [h3, h4, h5, h6]⟩
    generalize s.buf.hot2coldBegin = r at hu ⊢
    obtain ⟨b1, res⟩ := r
    match res with
    | .error e => exact Or.inr hu
    | .ok none => exact Or.inr hu
    | .ok (some (o, left)) =>
      rcases hot2coldIter_acct (({ s with buf := b1 }).addBuf ⟨natNow now, o, .transferStarted⟩) now o left with h | h
      · exact Or.inl h
      · exact Or.inr (Acct.trans hu h)

theorem cold2hotIter_acct (s : Sys) (now : Time) (o : Oid) (left : Int) :
    (∃ e, (s.cold2hotIter now o left).2.2 = .raised e) ∨ Acct s.buf (s.cold2hotIter now o left).1.buf := by
  unfold cold2hotIter
  split
  · exact Or.inr ⟨rfl, rfl, rfl⟩
  · obtain ⟨h1, h2, h3, h4, h5, h6, h7⟩ := Buffer.cold2hotStep_spec s.buf o left
    have h9 := Buffer.recvAmount_fst s.buf.moveRate left (s.buf.sizeOf o)
    have h10 := Buffer.sendAmount_fst s.buf.moveRate left (s.buf.sizeOf o)
    cases hr : s.buf.cold2hotStep o left with
    | mk b1 res =>
      rw [hr] at h1 h2 h3 h4 h5 h6 h7
      simp only at h1 h2 h3 h4 h5 h6 h7 ⊢
      cases res with
      | error e => exact Or.inl ⟨e, rfl⟩
      | ok l' =>
        have h8 := h7 ⟨l', rfl⟩
        refine Or.inr ⟨h1, h2, ?_⟩
        unfold used2
        show (b1.hot.total - b1.hot.cur) + (b1.cold.total - b1.cold.cur) = _
        rw [h3, h4, h5, h6]; omega

theorem cold2hotBlock_acct (s : Sys) (now : Time) (cur : Option (Oid × Int)) :
    (∃ e, (s.cold2hotBlock now cur).2.2 = .raised e) ∨ Acct s.buf (s.cold2hotBlock now cur).1.buf := by
  unfold cold2hotBlock
  split
  · exact cold2hotIter_acct s now _ _
  · obtain ⟨h1, h2, h3, h4, h5, h6⟩ := Buffer.cold2hotBegin_spec s.buf
    have hu : Acct s.buf s.buf.cold2hotBegin.1 := ⟨h1, h2, by unfold used2; rw [h3, h4, h5, h6]⟩
    generalize s.buf.cold2hotBegin = r at hu ⊢
    obtain ⟨b1, res⟩ := r
    match res with
    | .error e => exact Or.inr hu
    | .ok none => exact Or.inr hu
    | .ok (some (o, left)) =>
      rcases cold2hotIter_acct (({ s with buf := b1 }).addBuf ⟨natNow now, o, .transferStarted⟩) now o left with h | h
      · exact Or.inl h
      · exact Or.inr (Acct.trans hu h)


/-! ### the two-tier law -/

def HC2 (s : Sys) : Prop :=
  ∀ L : List Oid, L.Nodup → (∀ x ∈ L, x ∉ s.buf.hot.finished) → sumSz s.buf L ≤ used2 s.buf

theorem HC2.acct {s X : Sys} (h : HC2 s) (e : Acct s.buf X.buf) : HC2 X := by
  obtain ⟨e1, e2, e3⟩ := e
  intro L hnd hL
  have : sumSz X.buf L = sumSz s.buf L := by
    unfold sumSz
    apply congrArg
    apply List.map_congr_left
    intro x _
    unfold Buffer.sizeOf; rw [e1]
  rw [this, e3]
  exact h L hnd (by rw [← e2]; exact hL)

theorem acct_of_bq {a b : Buffer} (e : bq b = bq a) : Acct a b := by
  unfold bq at e
  simp only [Prod.mk.injEq] at e
  obtain ⟨e1, e2, e3, e4, e5⟩ := e
  exact ⟨e3, e4, by unfold used2; rw [e1, e2, e5]⟩

theorem acct_of_eq {a b : Buffer} (e : b = a) : Acct a b := by subst e; exact ⟨rfl, rfl, rfl⟩

theorem HC2.deposit {s X : Sys} (h : HC2 s) {oid : Oid} {ob : Obs} (hd : Dep s X oid ob) (hr : 0 ≤ ob.rate) :
    HC2 X := by
  obtain ⟨d0, d1, d2, d3, d4⟩ := hd
  intro L hnd hL
  have := sum_upd s.buf.sizeOf X.buf.sizeOf oid ob.rate d4 L hnd
  unfold sumSz used2
  rw [this, d1, d2, d0]
  have h0 := h L hnd (by rw [← d3]; exact hL)
  unfold sumSz used2 at h0
  split <;> omega

theorem remove_cold (b : Buffer) (oid : Oid) : (b.remove oid).1.cold = b.cold := by
  unfold Buffer.remove; split <;> rfl

theorem HC2.remove {s X : Sys} (h : HC2 s) (hb : BufI s) {oid : Oid} (hX : X.buf = (s.buf.remove oid).1) :
    HC2 X := by
  have hcold := remove_cold s.buf oid
  rcases remove_cases s.buf oid with e | ⟨hin, r1, r2, r3, r4⟩
  · exact h.acct (acct_of_eq (by rw [hX, e]))
  · have hnf : oid ∉ s.buf.hot.finished := by
      intro hf
      have h2 := hb.cnt oid
      have c1 := count_pos_of_mem hin
      have c2 := count_pos_of_mem hf
      unfold locCount bufList at h2
      simp only [List.count_append] at h2
      omega
    intro L hnd hL
    rw [hX, r3] at hL
    have hoL : oid ∉ L := fun hx => (hL oid hx) (by simp)
    have h0 := h (oid :: L) (List.nodup_cons.mpr ⟨hoL, hnd⟩) (by
      intro x hx
      rcases List.mem_cons.mp hx with rfl | hx
      · exact hnf
      · exact fun hf => hL x hx (List.mem_append_left _ hf))
    have e : sumSz X.buf L = sumSz s.buf L := by
      unfold sumSz
      apply congrArg
      apply List.map_congr_left
      intro x _
      unfold Buffer.sizeOf; rw [hX, r4]
    unfold sumSz at h0 e ⊢
    unfold used2 at h0 ⊢
    simp only [List.map_cons, List.sum_cons] at h0
    rw [e, hX, r1, r2, hcold]
    omega

/-! ### one step, tier moves included -/

/-- the invariant: as long as no block has raised -/
def SH2Inv (s : Sys) : Prop := s.crashed = none → SI s ∧ HC2 s

theorem sh2_step {s : Sys} (hs : SInv s) (hf : FInv s) (hb : BufI s) (h : SH2Inv s) {pid : Nat}
    (hen : s.enabled pid) (orc : Oracle) (hpre : s.alg = .oracle → orc.preOk) : SH2Inv (s.resume pid orc).1 := by
  intro hc
  obtain ⟨p, hp, ha, hmin⟩ := hen
  obtain ⟨hc0, hnr⟩ := resume_nocrash s pid orc p hp ha hc
  have hfi := hf hc0
  obtain ⟨hpm, hpid⟩ := proc?_some hp
  subst hpid
  have hcore := resume_core s p.pid orc p hp ha
  have hpw := hs.pw
  obtain ⟨_, hpwX⟩ := block_pre_str hpw hs.eg hpm ha hmin orc
  obtain ⟨hsi, hhc⟩ := h hc0
  suffices hY : SI ((s.block p orc).1.updProc p.pid (fin (s.block p orc).2.1 (s.block p orc).2.2 p.wake)) ∧
      HC2 (s.block p orc).1 by
    exact ⟨hY.1.congr hcore.procs hcore.obs (resume_buf s p.pid orc p hp ha),
      hY.2.acct (acct_of_eq (resume_buf s p.pid orc p hp ha))⟩
  -- blocks that touch neither observation records nor the buffer
  have quiet : p.k.tag ≠ "schedLoop" → p.k.tag ≠ "ingestStream" → p.k.tag ≠ "allocTasks" →
      p.k.tag ≠ "telescope" → p.k.tag ≠ "allocIngest" → p.k.tag ≠ "hot2cold" → p.k.tag ≠ "cold2hot" →
      ∀ new : List Proc, (s.block p orc).1.procs = s.procs ++ new → (∀ q ∈ new, q.k.tag ≠ "ingestStream") →
      SI ((s.block p orc).1.updProc p.pid (fin (s.block p orc).2.1 (s.block p orc).2.2 p.wake)) ∧
        HC2 (s.block p orc).1 := by
    intro h1 h2 h3 h4 h5 h6 h7 new hprocs hnew
    have hbuf := block_buf s p orc h1 h2 h3 h6 h7
    exact ⟨si_quiet hs hsi hpm orc (block_obs s p orc h4 h5) (by rw [hbuf]) h2 new hprocs hpwX hnew,
      hhc.acct (acct_of_eq hbuf)⟩
  -- a tier-move block that does not raise
  have tier : p.k.tag ≠ "ingestStream" → p.k.tag ≠ "telescope" → p.k.tag ≠ "allocIngest" →
      (s.block p orc).1.procs = s.procs → Acct s.buf (s.block p orc).1.buf →
      SI ((s.block p orc).1.updProc p.pid (fin (s.block p orc).2.1 (s.block p orc).2.2 p.wake)) ∧
        HC2 (s.block p orc).1 := by
    intro h2 h4 h5 hprocs hacct
    exact ⟨si_quiet hs hsi hpm orc (block_obs s p orc h4 h5) hacct.1 h2 [] (by simpa using hprocs) hpwX (by simp),
      hhc.acct hacct⟩
  cases hk : p.k with
  | monitor =>
    have hb' : s.block p orc = ((s.monitorBlock p.wake).1, p.k, (s.monitorBlock p.wake).2) := by
      unfold block; simp only [hk]
    exact quiet (by simp [hk, PK.tag]) (by simp [hk, PK.tag]) (by simp [hk, PK.tag]) (by simp [hk, PK.tag])
      (by simp [hk, PK.tag]) (by simp [hk, PK.tag]) (by simp [hk, PK.tag]) []
      (by rw [hb']; simpa using monitorBlock_procsq s p.wake) (by simp)
  | telescope =>
    have hbuf := block_buf s p orc (by simp [hk, PK.tag]) (by simp [hk, PK.tag]) (by simp [hk, PK.tag])
      (by simp [hk, PK.tag]) (by simp [hk, PK.tag])
    exact ⟨si_telescope hs hfi hb hsi hpm ha hmin hk orc, hhc.acct (acct_of_eq hbuf)⟩
  | clusterLoop =>
    have hb' : s.block p orc = ({ s with cl := s.cl.loopTick }, p.k, .timeout 1) := by
      unfold block; simp only [hk]
    exact quiet (by simp [hk, PK.tag]) (by simp [hk, PK.tag]) (by simp [hk, PK.tag]) (by simp [hk, PK.tag])
      (by simp [hk, PK.tag]) (by simp [hk, PK.tag]) (by simp [hk, PK.tag]) [] (by rw [hb']; simp) (by simp)
  | schedLoop =>
    have hb' : s.block p orc = ((s.schedLoopBlock p.wake orc).1, p.k, (s.schedLoopBlock p.wake orc).2) := by
      unfold block; simp only [hk]
    have hbq : bq (s.block p orc).1.buf = bq s.buf := by rw [hb']; exact schedLoopBlock_bq s p.wake orc
    obtain ⟨new, hprocs, hnew⟩ := (schedLoopBlock_pres s p.wake orc).shape.newp
    exact ⟨si_quiet hs hsi hpm orc (block_obs s p orc (by simp [hk, PK.tag]) (by simp [hk, PK.tag]))
      (congrArg (·.2.2.1) hbq) (by simp [hk, PK.tag]) new (by rw [hb']; exact hprocs) hpwX
      (fun q hq => (hnew q hq).2.2.2.2.2.2.1), hhc.acct (acct_of_bq hbq)⟩
  | bufferLoop =>
    have hb' : s.block p orc = ((s.bufferLoopBlock p.wake).1, p.k, (s.bufferLoopBlock p.wake).2) := by
      unfold block; simp only [hk]
    obtain ⟨new, hprocs, hnewk⟩ := bufferLoopBlock_newprocs s p.wake
    exact quiet (by simp [hk, PK.tag]) (by simp [hk, PK.tag]) (by simp [hk, PK.tag]) (by simp [hk, PK.tag])
      (by simp [hk, PK.tag]) (by simp [hk, PK.tag]) (by simp [hk, PK.tag]) new (by rw [hb']; exact hprocs)
      (fun q hq => by rcases hnewk q hq with e | e <;> rw [e] <;> decide)
  | allocIngest o tl =>
    have hbuf := block_buf s p orc (by simp [hk, PK.tag]) (by simp [hk, PK.tag]) (by simp [hk, PK.tag])
      (by simp [hk, PK.tag]) (by simp [hk, PK.tag])
    exact ⟨si_allocIngest hs hfi hb hsi hpm hk orc, hhc.acct (acct_of_eq hbuf)⟩
  | provIngest o d =>
    have hb' : s.block p orc = s.provIngestBlock p.wake p.pc o d := by
      unfold block; simp only [hk]
    obtain ⟨_, _, _, new, hprocs, hnew⟩ := provIngestBlock_shape2 s p.wake p.pc o d
    exact quiet (by simp [hk, PK.tag]) (by simp [hk, PK.tag]) (by simp [hk, PK.tag]) (by simp [hk, PK.tag])
      (by simp [hk, PK.tag]) (by simp [hk, PK.tag]) (by simp [hk, PK.tag]) new (by rw [hb']; exact hprocs)
      (fun q hq => by obtain ⟨t, m, e, _⟩ := hnew q hq; rw [e]; simp [PK.tag])
  | ingestStream o tl =>
    have hb' : s.block p orc = s.ingestStreamBlock p.wake p.pc o tl := by
      unfold block; simp only [hk]
    refine ⟨si_ingestStream hs hb hsi hpm hk orc hnr, ?_⟩
    rw [hb']
    rcases ingestStreamBlock_bq s p.wake p.pc o tl with ⟨e, _⟩ | ⟨ob, hob, _, hd⟩
    · exact hhc.acct (acct_of_bq e)
    · exact hhc.deposit hd (Int.le_of_lt (hsi.rp ob (obs_mem_of_obs? hob).1))
  | allocTask t m preds obs ing ret =>
    have hb' : s.block p orc = s.allocTaskBlock p.wake t m preds obs ing ret := by
      unfold block; simp only [hk]
    obtain ⟨new, hprocs, hnewk⟩ := allocTaskBlock_procs s hpw p.wake t m preds obs ing ret
    exact quiet (by simp [hk, PK.tag]) (by simp [hk, PK.tag]) (by simp [hk, PK.tag]) (by simp [hk, PK.tag])
      (by simp [hk, PK.tag]) (by simp [hk, PK.tag]) (by simp [hk, PK.tag]) new (by rw [hb']; exact hprocs)
      (fun q hq => by rw [hnewk q hq]; decide)
  | doWork t m preds ph tot =>
    have hb' : s.block p orc = s.doWorkBlock p.wake orc t m preds ph tot := by
      unfold block; simp only [hk]
    exact quiet (by simp [hk, PK.tag]) (by simp [hk, PK.tag]) (by simp [hk, PK.tag]) (by simp [hk, PK.tag])
      (by simp [hk, PK.tag]) (by simp [hk, PK.tag]) (by simp [hk, PK.tag]) []
      (by rw [hb']; simpa using doWorkBlock_procs s p.wake orc t m preds ph tot) (by simp)
  | allocTasks o sc pa po fn =>
    have hb' : s.block p orc = s.allocTasksBlock p.wake orc p.pc o sc pa po fn := by
      unfold block; simp only [hk]
    obtain ⟨new, hprocs, hnew⟩ := (allocTasksBlock_pres s p.wake orc hpre p.pc o sc pa po fn).shape.newp
    have hobs := block_obs s p orc (by simp [hk, PK.tag]) (by simp [hk, PK.tag])
    have hcases := allocTasksBlock_bufCases s p.wake orc p.pc o sc pa po fn
    rw [← hb'] at hcases hprocs
    have hsize : (s.block p orc).1.buf.size = s.buf.size := by
      rcases hcases with e | e
      · rw [e]
      · rw [e]
        rcases remove_cases s.buf o with e' | ⟨_, _, _, _, e'⟩
        · rw [e']
        · exact e'
    refine ⟨si_quiet hs hsi hpm orc hobs hsize (by simp [hk, PK.tag]) new hprocs hpwX
      (fun q hq => (hnew q hq).2.2.2.2.2.2.1), ?_⟩
    rcases hcases with e | e
    · exact hhc.acct (acct_of_eq e)
    · exact hhc.remove hb e
  | hot2cold cur =>
    have hb' : s.block p orc = s.hot2coldBlock p.wake cur := by
      unfold block; simp only [hk]
    refine tier (by simp [hk, PK.tag]) (by simp [hk, PK.tag]) (by simp [hk, PK.tag])
      (by rw [hb']; exact hot2coldBlock_procsq s p.wake cur) ?_
    rw [hb'] at hnr ⊢
    rcases hot2coldBlock_acct s p.wake cur with ⟨e, he⟩ | hacct
    · exact absurd he (hnr e)
    · exact hacct
  | cold2hot cur =>
    have hb' : s.block p orc = s.cold2hotBlock p.wake cur := by
      unfold block; simp only [hk]
    refine tier (by simp [hk, PK.tag]) (by simp [hk, PK.tag]) (by simp [hk, PK.tag])
      (by rw [hb']; exact cold2hotBlock_procsq s p.wake cur) ?_
    rw [hb'] at hnr ⊢
    rcases cold2hotBlock_acct s p.wake cur with ⟨e, he⟩ | hacct
    · exact absurd he (hnr e)
    · exact hacct

theorem start_sh2 (s0 : Sys) (hw : WFConfig s0)
    (hsz0 : s0.buf.size = [] ∧ s0.buf.hot.cur ≤ s0.buf.hot.total ∧ s0.buf.cold.cur ≤ s0.buf.cold.total)
    (hrate : ∀ o ∈ s0.obs, 0 < o.rate) : SI s0.start ∧ HC2 s0.start := by
  obtain ⟨hsi, _⟩ := start_sh s0 hw ⟨hsz0.1, hsz0.2.1⟩ hrate
  refine ⟨hsi, ?_⟩
  have hb : s0.start.buf = s0.buf := by simp [start, spawn]
  have hsz : ∀ o, s0.start.buf.sizeOf o = 0 := by
    intro o; rw [hb]; unfold Buffer.sizeOf; rw [hsz0.1]; rfl
  intro L _ _
  have : sumSz s0.start.buf L = 0 := by
    unfold sumSz
    have hz : ∀ L : List Oid, (L.map s0.start.buf.sizeOf).sum = 0 := by
      intro L
      induction L with
      | nil => rfl
      | cons a t ih => rw [List.map_cons, List.sum_cons, hsz a, ih]; rfl
    exact hz L
  rw [this, hb]
  unfold used2
  have := hsz0.2.1
  have := hsz0.2.2
  omega

theorem reachOk_sh2 (s0 s : Sys) (hw : WFConfig s0) (hbuf : bufList s0.buf = [])
    (hsz0 : s0.buf.size = [] ∧ s0.buf.hot.cur ≤ s0.buf.hot.total ∧ s0.buf.cold.cur ≤ s0.buf.cold.total)
    (hrate : ∀ o ∈ s0.obs, 0 < o.rate) (h : ReachOk s0 s) : SH2Inv s := by
  induction h with
  | start => exact fun _ => start_sh2 s0 hw hsz0 hrate
  | step s pid orc hr hen hpre ih =>
    exact sh2_step (reach_inv s0 s hw hr) (reach_finv s0 s hw hr) (reachOk_bufi s0 s hw hbuf hr) ih hen orc hpre

/-- a finished run that has not crashed has removed every observation from the hot buffer
(tier moves included) -/
theorem finished_all_removed2 (s0 s : Sys) (hw : WFConfig s0) (hbuf : bufList s0.buf = [])
    (hsz0 : s0.buf.size = [] ∧ s0.buf.hot.cur ≤ s0.buf.hot.total ∧ s0.buf.cold.cur ≤ s0.buf.cold.total)
    (hrate : ∀ o ∈ s0.obs, 0 < o.rate)
    (h : ReachOk s0 s) (hf : s.isFinished = true) (hc : s.crashed = none) :
    ∀ ob ∈ s.obs, ob.id ∈ s.buf.hot.finished := by
  obtain ⟨hsi, hhc⟩ := reachOk_sh2 s0 s hw hbuf hsz0 hrate h hc
  obtain ⟨hbe, _, _, ht⟩ := (sim_isFinished_iff s).mp hf
  obtain ⟨hcur, hcold⟩ := (buffer_isEmpty_iff s.buf).mp hbe
  obtain ⟨hfin, _, _⟩ := (telescope_isIdle_iff s).mp ht
  intro ob hob
  obtain ⟨q, hq, tl, hqk, hqc⟩ := hsi.fs ob hob (hfin ob hob)
  obtain ⟨ob1, hob1, hle⟩ := hsi.sz q hq _ tl hqk hqc
  have hpos := hsi.rp ob1 (obs_mem_of_obs? hob1).1
  by_cases hin : ob.id ∈ s.buf.hot.finished
  · exact hin
  · exfalso
    have := hhc [ob.id] (by simp) (by intro x hx; simp only [List.mem_singleton] at hx; rw [hx]; exact hin)
    unfold sumSz used2 at this
    simp only [List.map_cons, List.map_nil, List.sum_cons, List.sum_nil] at this
    omega

end Sys
end Topsim
