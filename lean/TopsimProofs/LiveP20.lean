/-
  LiveP20 — the declarations of Live20.lean that depend on the configuration structures, restated for
  the plan-following configurations (`LivePCfg`, `NcPCfg`, `L7PLib`); the proofs are those of Live20.lean.
-/
import TopsimProofs.Fit2
import TopsimProofs.LiveP17g
import TopsimProofs.LiveP19

namespace Topsim

open KState Sys

section

variable {env : SimEnv} {s0 : Sys}

theorem ncOrder_P (N : NcPCfg env s0) : NcOrder env s0 where
  -- F14: from the accounting invariant `sim_fit` (Fit2), no `OneAdmission` hypothesis
  prov := fun n _ _ _ _ hpp ha _ _ hk hpc =>
    sim_provIngest_fits env s0 N.hw N.hb0.1 _ (simAt_reach env s0 n) (proc?_some hpp).1 ha hk hpc
  alloc := fun n hc _ _ hpk hpp ha _ _ _ _ _ hk hpc => nc_allocTask_avail_P N n hc hpk hpp ha hk hpc

/-- **No block raises** (queue algorithm; H1: no tiering; H2: one admission per telescope block). -/
theorem live_noRaise_P (N : NcPCfg env s0) : NoRaise env s0 := nc_noRaise_P N (ncOrder_P N)

/-- **Termination**: after some number of kernel steps the run is at `is_finished()` and no block
has raised. -/
theorem live_terminates_cfg_P (N : NcPCfg env s0) :
    ∃ n, (ilSimSteps env n (SimState.start s0)).st.isFinished = true ∧
      (ilSimSteps env n (SimState.start s0)).st.crashed = none ∧
      SimRun env s0 (ilSimSteps env n (SimState.start s0)) := by
  obtain ⟨n, h1, h2, h3⟩ := live_terminates_noRaise_P (N.toLive (live_noRaise_P N)) N.hh0
  refine ⟨n, ?_⟩
  rw [← simAt_eq_ilSimSteps]
  exact ⟨h1, h2, h3⟩

end

end Topsim

