/-
  SysInv2 — the system invariant (three groups of clauses over the process
  table, the record tables and the cluster ghosts) and the table lemmas.
-/
import TopsimProofs.SysInv1

namespace Topsim

/-! ### kinds -/

def PK.isAT : PK → Bool | .allocTask .. => true | _ => false
def PK.isDW : PK → Bool | .doWork .. => true | _ => false
def PK.isPI : PK → Bool | .provIngest .. => true | _ => false
def PK.isAI : PK → Bool | .allocIngest .. => true | _ => false
def PK.isTel : PK → Bool | .telescope => true | _ => false

/-- the constructor name of a process kind -/
def PK.tag : PK → String
  | .monitor => "monitor" | .telescope => "telescope" | .clusterLoop => "clusterLoop"
  | .schedLoop => "schedLoop" | .bufferLoop => "bufferLoop" | .allocIngest .. => "allocIngest"
  | .provIngest .. => "provIngest" | .ingestStream .. => "ingestStream" | .allocTask .. => "allocTask"
  | .doWork .. => "doWork" | .allocTasks .. => "allocTasks" | .hot2cold .. => "hot2cold"
  | .cold2hot .. => "cold2hot"

/-- a kind no clause of the invariant talks about -/
def PK.neutral (k : PK) : Prop :=
  k.isAT = false ∧ k.isDW = false ∧ k.isPI = false ∧ k.isAI = false ∧ k.isTel = false

theorem eq_of_map_nodup {α β} {f : α → β} {l : List α} (h : (l.map f).Nodup) {a b : α}
    (ha : a ∈ l) (hb : b ∈ l) (e : f a = f b) : a = b := by
  induction l with
  | nil => simp at ha
  | cons x r ih =>
    simp only [List.map_cons, List.nodup_cons] at h
    simp only [List.mem_cons] at ha hb
    rcases ha with ha | ha <;> rcases hb with hb | hb
    · rw [ha, hb]
    · subst ha; exact absurd (e ▸ List.mem_map_of_mem hb) h.1
    · subst hb; exact absurd (e ▸ List.mem_map_of_mem ha) h.1
    · exact ih h.2 ha hb

namespace Sys

/-! ### the process table -/

structure PW (s : Sys) : Prop where
  nodup : (s.procs.map (·.pid)).Nodup
  lt : ∀ p ∈ s.procs, p.pid < s.nextPid

theorem proc?_some {s : Sys} {pid : Nat} {p : Proc} (h : s.proc? pid = some p) :
    p ∈ s.procs ∧ p.pid = pid := by
  unfold proc? at h
  exact ⟨List.mem_of_find?_eq_some h, by simpa using List.find?_some h⟩

theorem PW.eq_of_pid {s : Sys} (h : PW s) {p q : Proc} (hp : p ∈ s.procs) (hq : q ∈ s.procs)
    (e : p.pid = q.pid) : p = q :=
  eq_of_map_nodup h.nodup hp hq e

theorem find?_of_mem_nodup {α β} [DecidableEq β] {f : α → β} {l : List α} (h : (l.map f).Nodup)
    {a : α} (ha : a ∈ l) : l.find? (fun x => decide (f x = f a)) = some a := by
  induction l with
  | nil => simp at ha
  | cons x r ih =>
    simp only [List.map_cons, List.nodup_cons] at h
    simp only [List.mem_cons] at ha
    by_cases hx : f x = f a
    · rcases ha with ha | ha
      · subst ha; simp
      · exact absurd (hx ▸ List.mem_map_of_mem ha) h.1
    · rcases ha with ha | ha
      · subst ha; exact absurd rfl hx
      · simp [hx, ih h.2 ha]

theorem PW.proc?_of_mem {s : Sys} (h : PW s) {p : Proc} (hp : p ∈ s.procs) :
    s.proc? p.pid = some p := by
  unfold proc?
  exact find?_of_mem_nodup (f := (·.pid)) h.nodup hp

theorem mem_updProc {s : Sys} {pid : Nat} {g : Proc → Proc} {q' : Proc} :
    q' ∈ (s.updProc pid g).procs ↔ ∃ q ∈ s.procs, q' = if q.pid = pid then g q else q := by
  simp only [updProc, List.mem_map]
  constructor
  · rintro ⟨q, hq, rfl⟩; exact ⟨q, hq, rfl⟩
  · rintro ⟨q, hq, rfl⟩; exact ⟨q, hq, rfl⟩

@[simp] theorem updProc_cl (s : Sys) (pid g) : (s.updProc pid g).cl = s.cl := rfl
@[simp] theorem updProc_tasks (s : Sys) (pid g) : (s.updProc pid g).tasks = s.tasks := rfl
@[simp] theorem updProc_obs (s : Sys) (pid g) : (s.updProc pid g).obs = s.obs := rfl
@[simp] theorem updProc_nextPid (s : Sys) (pid g) : (s.updProc pid g).nextPid = s.nextPid := rfl
@[simp] theorem updProc_starts (s : Sys) (pid g) : (s.updProc pid g).starts = s.starts := rfl
@[simp] theorem updProc_active (s : Sys) (pid g) : (s.updProc pid g).active = s.active := rfl
@[simp] theorem updProc_admitted (s : Sys) (pid g) : (s.updProc pid g).admitted = s.admitted := rfl

@[simp] theorem crash_cl (s : Sys) (e) : (s.crash e).cl = s.cl := by unfold crash; split <;> rfl
@[simp] theorem crash_tasks (s : Sys) (e) : (s.crash e).tasks = s.tasks := by unfold crash; split <;> rfl
@[simp] theorem crash_obs (s : Sys) (e) : (s.crash e).obs = s.obs := by unfold crash; split <;> rfl
@[simp] theorem crash_procs (s : Sys) (e) : (s.crash e).procs = s.procs := by unfold crash; split <;> rfl
@[simp] theorem crash_nextPid (s : Sys) (e) : (s.crash e).nextPid = s.nextPid := by unfold crash; split <;> rfl
@[simp] theorem crash_starts (s : Sys) (e) : (s.crash e).starts = s.starts := by unfold crash; split <;> rfl
@[simp] theorem crash_active (s : Sys) (e) : (s.crash e).active = s.active := by unfold crash; split <;> rfl
@[simp] theorem crash_admitted (s : Sys) (e) : (s.crash e).admitted = s.admitted := by unfold crash; split <;> rfl

theorem PW.updProc {s : Sys} (h : PW s) (pid : Nat) (g : Proc → Proc) (hg : ∀ q, (g q).pid = q.pid) :
    PW (s.updProc pid g) := by
  have hm : (s.updProc pid g).procs.map (·.pid) = s.procs.map (·.pid) := by
    simp only [Sys.updProc, List.map_map]
    apply List.map_congr_left
    intro q _
    simp only [Function.comp]
    split
    · exact hg q
    · rfl
  constructor
  · rw [hm]; exact h.nodup
  · intro q' hq'
    obtain ⟨q, hq, rfl⟩ := mem_updProc.mp hq'
    have := h.lt q hq
    split
    · rw [hg]; exact this
    · exact this

theorem PW.spawn {s : Sys} (h : PW s) (k : PK) (now : Time) : PW (s.spawn k now).1 := by
  constructor
  · simp only [spawn_procs, List.map_append, List.map_cons, List.map_nil]
    rw [List.nodup_append]
    refine ⟨h.nodup, by simp, ?_⟩
    intro a ha b hb
    simp at hb; subst hb
    obtain ⟨q, hq, rfl⟩ := List.mem_map.mp ha
    have := h.lt q hq
    omega
  · intro p hp
    simp only [spawn_procs, List.mem_append, List.mem_singleton, spawn_nextPid] at hp ⊢
    rcases hp with hp | hp
    · have := h.lt p hp; omega
    · subst hp; simp

/-! ### record tables -/

/-- the task has a record and has left UNSCHEDULED -/
def Sched (tasks : List TaskRec) (t : Tid) : Prop :=
  ∃ r, tasks.find? (fun r => decide (r.id = t)) = some r ∧ r.status ≠ .unscheduled

/-- the observation has a record and has left WAITING -/
def Begun (obs : List Obs) (o : Oid) : Prop :=
  ∃ ob, obs.find? (fun r => decide (r.id = o)) = some ob ∧ ob.status ≠ .waiting

/-- records of ingest tasks are never UNSCHEDULED -/
def IngRecs (tasks : List TaskRec) : Prop :=
  ∀ r ∈ tasks, r.id.isIngest = true → r.status ≠ .unscheduled

structure TaskMono (ts ts' : List TaskRec) : Prop where
  sched : ∀ t, Sched ts t → Sched ts' t
  ing : IngRecs ts → IngRecs ts'

def ObsMonoS (os os' : List Obs) : Prop := ∀ o, Begun os o → Begun os' o

theorem TaskMono.refl (ts : List TaskRec) : TaskMono ts ts := ⟨fun _ h => h, fun h => h⟩
theorem TaskMono.trans {a b c : List TaskRec} (h1 : TaskMono a b) (h2 : TaskMono b c) : TaskMono a c :=
  ⟨fun t h => h2.sched t (h1.sched t h), fun h => h2.ing (h1.ing h)⟩

theorem find?_map_upd {α κ} [DecidableEq κ] (key : α → κ) (l : List α) (k k' : κ) (f : α → α)
    (hf : ∀ r, key (f r) = key r) :
    (l.map (fun r => if key r = k then f r else r)).find? (fun r => decide (key r = k'))
      = (l.find? (fun r => decide (key r = k'))).map (fun r => if key r = k then f r else r) := by
  induction l with
  | nil => rfl
  | cons x r ih =>
    simp only [List.map_cons, List.find?_cons]
    have : key (if key x = k then f x else x) = key x := by split <;> simp [hf]
    rw [this]
    split
    · simp
    · exact ih

/-- a task-record update that keeps the id and never returns to UNSCHEDULED -/
def GoodT (f : TaskRec → TaskRec) : Prop :=
  ∀ r, (f r).id = r.id ∧ ((f r).status = .unscheduled → r.status = .unscheduled)

theorem task?_updTask (s : Sys) (t t' : Tid) (f : TaskRec → TaskRec) (hf : ∀ r, (f r).id = r.id) :
    (s.updTask t f).task? t' = (s.task? t').map (fun r => if r.id = t then f r else r) :=
  find?_map_upd (fun r : TaskRec => r.id) s.tasks t t' f hf

theorem TaskMono.updTask (s : Sys) (t : Tid) (f : TaskRec → TaskRec) (hf : GoodT f) :
    TaskMono s.tasks (s.updTask t f).tasks := by
  constructor
  · rintro t' ⟨r, hr, hs⟩
    have := task?_updTask s t t' f (fun r => (hf r).1)
    unfold task? at this
    refine ⟨_, by rw [this, hr]; rfl, ?_⟩
    dsimp only
    split
    · exact fun h => hs ((hf r).2 h)
    · exact hs
  · intro h r' hr' hi
    simp only [Sys.updTask, List.mem_map] at hr'
    obtain ⟨r, hr, rfl⟩ := hr'
    by_cases hrt : r.id = t
    · simp only [hrt, if_true] at hi ⊢
      rw [(hf r).1] at hi
      exact fun hh => h r hr hi ((hf r).2 hh)
    · simp only [hrt, if_false] at hi ⊢
      exact h r hr hi

theorem TaskMono.append (ts recs : List TaskRec) (hrecs : IngRecs recs) : TaskMono ts (ts ++ recs) := by
  constructor
  · rintro t ⟨r, hr, hs⟩
    exact ⟨r, by rw [List.find?_append, hr]; rfl, hs⟩
  · intro h r hr
    rcases List.mem_append.mp hr with hr | hr
    · exact h r hr
    · exact hrecs r hr

theorem ObsMonoS.updObs (s : Sys) (o : Oid) (f : Obs → Obs)
    (hf : ∀ r, (f r).id = r.id ∧ ((f r).status = .waiting → r.status = .waiting)) :
    ObsMonoS s.obs (s.updObs o f).obs := by
  rintro o' ⟨r, hr, hs⟩
  have := find?_map_upd (fun r : Obs => r.id) s.obs o o' f (fun r => (hf r).1)
  refine ⟨_, by simp only [Sys.updObs]; rw [this, hr]; rfl, ?_⟩
  dsimp only
  split
  · exact fun h => hs ((hf r).2 h)
  · exact hs

/-! ### cluster changes that do not concern the process table -/

structure ClQuiet (c c' : Cluster) : Prop where
  pending : c'.pending = c.pending
  runOn : c'.runOn = c.runOn
  running : c'.running = c.running
  finished : c'.finished = c.finished
  inv : ∀ U, Cluster.Inv c U → Cluster.Inv c' U

theorem ClQuiet.refl (c : Cluster) : ClQuiet c c := ⟨rfl, rfl, rfl, rfl, fun _ h => h⟩
theorem ClQuiet.trans {a b c : Cluster} (h1 : ClQuiet a b) (h2 : ClQuiet b c) : ClQuiet a c :=
  ⟨h2.pending.trans h1.pending, h2.runOn.trans h1.runOn, h2.running.trans h1.running,
   h2.finished.trans h1.finished, fun U h => h2.inv U (h1.inv U h)⟩

/-! ### the invariant -/

/-- cluster group: the cluster invariant and what ties its ghosts and its
freshness set `U` to the process table and the task records -/
structure CI (s : Sys) (U : List Tid) : Prop where
  inv : Cluster.Inv s.cl U
  runOn : ∀ p ∈ s.procs, p.alive = true → ∀ t m preds obs ing ret,
    p.k = .allocTask t m preds obs ing ret → 1 ≤ p.pc → (⟨t, m, obs, ing⟩ : RunEntry) ∈ s.cl.runOn
  pend : ∀ p ∈ s.procs, p.alive = true → ∀ t m preds obs ret,
    p.k = .allocTask t m preds obs true ret → p.pc = 0 → (⟨t, m, obs, true⟩ : RunEntry) ∈ s.cl.pending
  newT : ∀ p ∈ s.procs, p.alive = true → ∀ t m preds obs ret,
    p.k = .allocTask t m preds obs false ret → p.pc = 0 → t ∉ U ∧ t.isIngest = false
  uniq : ∀ p ∈ s.procs, ∀ q ∈ s.procs, p.alive = true → q.alive = true →
    ∀ t m preds obs ing ret m' preds' obs' ing' ret',
    p.k = .allocTask t m preds obs ing ret → q.k = .allocTask t m' preds' obs' ing' ret' → p.pid = q.pid
  hasRec : ∀ p ∈ s.procs, ∀ t m preds obs ing ret,
    p.k = .allocTask t m preds obs ing ret → Sched s.tasks t
  ingRec : IngRecs s.tasks
  usedRec : ∀ t ∈ U, Sched s.tasks t
  provOnce : ∀ o i, Tid.ingest o i ∈ U → ∃ p ∈ s.procs, ∃ d, p.k = .provIngest o d ∧ 1 ≤ p.pc
  provUniq : ∀ p ∈ s.procs, ∀ q ∈ s.procs, ∀ o d d',
    p.k = .provIngest o d → q.k = .provIngest o d' → p.pid = q.pid
  provObs : ∀ p ∈ s.procs, ∀ o d, p.k = .provIngest o d → Begun s.obs o

/-- task-body group: `do_work` processes, `starts` and `active` -/
structure DG (s : Sys) : Prop where
  dwUniq : ∀ p ∈ s.procs, ∀ q ∈ s.procs, ∀ t m preds ph tot m' preds' ph' tot',
    p.k = .doWork t m preds ph tot → q.k = .doWork t m' preds' ph' tot' → p.pid = q.pid
  dwUsed : ∀ p ∈ s.procs, ∀ t m preds ph tot,
    p.k = .doWork t m preds ph tot → t ∈ s.cl.running ∨ t ∈ dictKeys s.cl.finished
  dwAlloc : ∀ p ∈ s.procs, p.alive = true → ∀ t m preds ph tot, p.k = .doWork t m preds ph tot →
    ∃ a ∈ s.procs, a.alive = true ∧ 1 ≤ a.pc ∧ ∃ preds' obs ing, a.k = .allocTask t m preds' obs ing p.pid
  startsNodup : s.starts.Nodup
  startsDw : ∀ t ∈ s.starts, ∃ p ∈ s.procs, ∃ m preds ph tot, p.k = .doWork t m preds ph tot ∧ 2 ≤ ph
  actNodup : (s.active.map (·.2)).Nodup
  actDw : ∀ mt ∈ s.active, ∃ p ∈ s.procs, p.alive = true ∧ ∃ preds tot, p.k = .doWork mt.2 mt.1 preds 2 tot

/-- telescope group: admissions -/
structure EG (s : Sys) : Prop where
  obsNodup : (s.obs.map (·.id)).Nodup
  admNodup : s.admitted.Nodup
  telUniq : ∀ p ∈ s.procs, ∀ q ∈ s.procs, p.k = .telescope → q.k = .telescope → p.pid = q.pid
  telWake : ∀ p ∈ s.procs, p.k = .telescope → 0 ≤ p.wake
  adm : ∀ o ∈ s.admitted, ∃ ob, s.obs? o = some ob ∧ (ob.status = .waiting →
    ∃ p ∈ s.procs, p.alive = true ∧ p.pc = 0 ∧ (∃ tl, p.k = .allocIngest o tl) ∧
      ∀ q ∈ s.procs, q.k = .telescope → q.alive = true → p.wake < q.wake)

structure SInv (s : Sys) : Prop where
  pw : PW s
  ci : ∃ U, CI s U
  dg : DG s
  eg : EG s

/-! ### frame lemmas: what each group does not depend on -/

theorem CI.frame {s s1 : Sys} {U : List Tid} (h : CI s U) (hcl : ClQuiet s.cl s1.cl)
    (ht : TaskMono s.tasks s1.tasks) (ho : ObsMonoS s.obs s1.obs)
    (hp : ∀ q, q.k.isAT = true ∨ q.k.isPI = true → (q ∈ s1.procs ↔ q ∈ s.procs)) : CI s1 U := by
  have hat : ∀ {q : Proc} {t m preds obs ing ret}, q ∈ s1.procs → q.k = .allocTask t m preds obs ing ret →
      q ∈ s.procs := fun hq hk => (hp _ (Or.inl (by rw [hk]; rfl))).mp hq
  have hpi : ∀ {q : Proc} {o d}, q ∈ s1.procs → q.k = .provIngest o d → q ∈ s.procs :=
    fun hq hk => (hp _ (Or.inr (by rw [hk]; rfl))).mp hq
  constructor
  · exact hcl.inv U h.inv
  · intro p hp' ha t m preds obs ing ret hk hpc
    rw [hcl.runOn]; exact h.runOn p (hat hp' hk) ha t m preds obs ing ret hk hpc
  · intro p hp' ha t m preds obs ret hk hpc
    rw [hcl.pending]; exact h.pend p (hat hp' hk) ha t m preds obs ret hk hpc
  · intro p hp' ha t m preds obs ret hk hpc
    exact h.newT p (hat hp' hk) ha t m preds obs ret hk hpc
  · intro p hp' q hq' ha hb t m preds obs ing ret m' preds' obs' ing' ret' hk hk'
    exact h.uniq p (hat hp' hk) q (hat hq' hk') ha hb t m preds obs ing ret m' preds' obs' ing' ret' hk hk'
  · intro p hp' t m preds obs ing ret hk
    exact ht.sched t (h.hasRec p (hat hp' hk) t m preds obs ing ret hk)
  · exact ht.ing h.ingRec
  · intro t htU; exact ht.sched t (h.usedRec t htU)
  · intro o i hoi
    obtain ⟨p, hp', d, hk, hpc⟩ := h.provOnce o i hoi
    exact ⟨p, (hp _ (Or.inr (by rw [hk]; rfl))).mpr hp', d, hk, hpc⟩
  · intro p hp' q hq' o d d' hk hk'
    exact h.provUniq p (hpi hp' hk) q (hpi hq' hk') o d d' hk hk'
  · intro p hp' o d hk
    exact ho o (h.provObs p (hpi hp' hk) o d hk)

theorem DG.frame {s s1 : Sys} (h : DG s) (hr : s1.cl.running = s.cl.running)
    (hf : s1.cl.finished = s.cl.finished) (hs : s1.starts = s.starts) (ha : s1.active = s.active)
    (hp : ∀ q, q.k.isDW = true → (q ∈ s1.procs ↔ q ∈ s.procs))
    (hp' : ∀ q, q.k.isAT = true → q ∈ s.procs → q ∈ s1.procs) : DG s1 := by
  have hdw : ∀ {q : Proc} {t m preds ph tot}, q ∈ s1.procs → q.k = .doWork t m preds ph tot →
      q ∈ s.procs := fun hq hk => (hp _ (by rw [hk]; rfl)).mp hq
  have hdw' : ∀ {q : Proc} {t m preds ph tot}, q ∈ s.procs → q.k = .doWork t m preds ph tot →
      q ∈ s1.procs := fun hq hk => (hp _ (by rw [hk]; rfl)).mpr hq
  constructor
  · intro p hp1 q hq1 t m preds ph tot m' preds' ph' tot' hk hk'
    exact h.dwUniq p (hdw hp1 hk) q (hdw hq1 hk') t m preds ph tot m' preds' ph' tot' hk hk'
  · intro p hp1 t m preds ph tot hk
    rw [hr, hf]; exact h.dwUsed p (hdw hp1 hk) t m preds ph tot hk
  · intro p hp1 hal t m preds ph tot hk
    obtain ⟨a, ha1, ha2, ha3, preds', obs, ing, hak⟩ := h.dwAlloc p (hdw hp1 hk) hal t m preds ph tot hk
    exact ⟨a, hp' a (by rw [hak]; rfl) ha1, ha2, ha3, preds', obs, ing, hak⟩
  · rw [hs]; exact h.startsNodup
  · intro t ht
    rw [hs] at ht
    obtain ⟨p, hp1, m, preds, ph, tot, hk, hph⟩ := h.startsDw t ht
    exact ⟨p, hdw' hp1 hk, m, preds, ph, tot, hk, hph⟩
  · rw [ha]; exact h.actNodup
  · intro mt hmt
    rw [ha] at hmt
    obtain ⟨p, hp1, hal, preds, tot, hk⟩ := h.actDw mt hmt
    exact ⟨p, hdw' hp1 hk, hal, preds, tot, hk⟩

theorem EG.frame {s s1 : Sys} (h : EG s) (ho : s1.obs = s.obs) (ha : s1.admitted = s.admitted)
    (hp : ∀ q, q.k.isTel = true ∨ q.k.isAI = true → (q ∈ s1.procs ↔ q ∈ s.procs)) : EG s1 := by
  have htel : ∀ {q : Proc}, q ∈ s1.procs → q.k = .telescope → q ∈ s.procs :=
    fun hq hk => (hp _ (Or.inl (by rw [hk]; rfl))).mp hq
  constructor
  · rw [ho]; exact h.obsNodup
  · rw [ha]; exact h.admNodup
  · intro p hp1 q hq1 hk hk'
    exact h.telUniq p (htel hp1 hk) q (htel hq1 hk') hk hk'
  · intro p hp1 hk; exact h.telWake p (htel hp1 hk) hk
  · intro o hoa
    rw [ha] at hoa
    obtain ⟨ob, hob, hw⟩ := h.adm o hoa
    refine ⟨ob, by unfold obs? at hob ⊢; rw [ho]; exact hob, fun hst => ?_⟩
    obtain ⟨p, hp1, hal, hpc, ⟨tl, hk⟩, hlt⟩ := hw hst
    exact ⟨p, (hp _ (Or.inr (by rw [hk]; rfl))).mpr hp1, hal, hpc, ⟨tl, hk⟩,
      fun q hq hqk hqa => hlt q (htel hq hqk) hqk hqa⟩

end Sys
end Topsim
