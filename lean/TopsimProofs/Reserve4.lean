/-
  Reserve4 — the reservation-validity invariant `RV` (BatchProcessing): every task that is
  allocated for an observation runs while that observation holds a reservation, and every pending
  allocation (allocation process that has not begun, entry of a local schedule) is for a machine
  of the reservation of its observation.  Generic step; the blocks of every process kind.
-/
import TopsimProofs.Reserve3
import TopsimProofs.PlanFollow2

namespace Topsim
namespace Sys

open Cluster

structure RV (s : Sys) : Prop where
  /-- a polling entry that is not for ingest was allocated for an observation that holds a reservation -/
  ro : ∀ e ∈ s.cl.runOn, e.ing = false → ∃ o, e.obs = some o ∧ HasRes s.cl o
  /-- a scheduler-side allocation process that has not begun is for a machine of the reservation
  of its observation -/
  pend : ∀ p ∈ s.procs, p.alive = true → ∀ t m preds obs ret, p.k = .allocTask t m preds obs false ret →
    p.pc = 0 → ∃ o, obs = some o ∧ Res s.cl m o
  /-- … and so is every entry of the local schedule of an `allocate_tasks` process -/
  sched : ∀ p ∈ s.procs, p.alive = true → ∀ o sc pa po, p.k = .allocTasks o sc pa po false →
    ∀ x ∈ sc, Res s.cl x.2 o

theorem RV.core {a b : Sys} (h : RV a) (e : Core8 a b) : RV b := by
  constructor
  · rw [e.cl]; exact h.ro
  · rw [e.cl, e.procs]; exact h.pend
  · rw [e.cl, e.procs]; exact h.sched

/-- a kind of new process no clause of `RV` constrains -/
def RvNeutral (k : PK) : Prop :=
  (∀ o sc pa po fn, k = .allocTasks o sc pa po fn → sc = []) ∧
  (∀ t m cross obs ret, k ≠ .allocTask t m cross obs false ret)

theorem Harmless.rvNeutral {k : PK} (h : Harmless k) : RvNeutral k := ⟨h.2.2.1, h.2.2.2⟩

/-- observation `o` is in use by something other than the process `pid`: a polling entry, an
allocation process that has not begun, or a non-empty local schedule -/
def UsedBy (s : Sys) (pid : Nat) (o : Oid) : Prop :=
  (∃ e ∈ s.cl.runOn, e.obs = some o ∧ e.ing = false) ∨
  (∃ q ∈ s.procs, q.alive = true ∧ q.pid ≠ pid ∧ q.pc = 0 ∧
    ∃ t m preds ret, q.k = .allocTask t m preds (some o) false ret) ∨
  (∃ q ∈ s.procs, q.alive = true ∧ q.pid ≠ pid ∧ ∃ sc pa po, q.k = .allocTasks o sc pa po false ∧ sc ≠ [])

/-- the generic step -/
theorem RV.step {s : Sys} (h : RV s) (hs : SInv s) {p : Proc} (hp : p ∈ s.procs) (ha : p.alive = true)
    (hmin : ∀ q ∈ s.procs, q.alive = true → p.wake ≤ q.wake) (orc : Oracle)
    (hkeep : ∀ o, UsedBy s p.pid o → KeepO s.cl (s.block p orc).1.cl o)
    (hro : ∀ e ∈ (s.block p orc).1.cl.runOn, e.ing = false → e ∈ s.cl.runOn ∨
      ∃ o, e.obs = some o ∧ HasRes (s.block p orc).1.cl o)
    (hown : ∀ o sc pa po, (s.block p orc).2.1 = .allocTasks o sc pa po false →
      ∀ x ∈ sc, Res (s.block p orc).1.cl x.2 o)
    (hnew : ∀ q ∈ (s.block p orc).1.procs, q ∉ s.procs → RvNeutral q.k ∨
      ∃ t m cross o ret, q.k = .allocTask t m cross (some o) false ret ∧ Res (s.block p orc).1.cl m o) :
    RV ((s.block p orc).1.updProc p.pid (fin (s.block p orc).2.1 (s.block p orc).2.2 p.wake)) := by
  obtain ⟨hpre, hpwX⟩ := block_pre_str hs.pw hs.eg hp ha hmin orc
  have hpX : p ∈ (s.block p orc).1.procs := hpre.subset hp
  have hmem := fun q => (mem_updProc_iff hpwX hpX (fin (s.block p orc).2.1 (s.block p orc).2.2 p.wake) q).mp
  constructor
  · intro e he hi
    have he' : e ∈ (s.block p orc).1.cl.runOn := he
    rcases hro e he' hi with h1 | h1
    · obtain ⟨o, ho, hr⟩ := h.ro e h1 hi
      exact ⟨o, ho, hr.keep (hkeep o (Or.inl ⟨e, h1, ho, hi⟩))⟩
    · exact h1
  · intro q hq hqa t m preds obs ret hqk hpc
    rcases hmem q hq with rfl | ⟨hq1, hne⟩
    · simp only [fin_pc] at hpc; omega
    · by_cases hin : q ∈ s.procs
      · obtain ⟨o, ho, hr⟩ := h.pend q hin hqa t m preds obs ret hqk hpc
        subst ho
        exact ⟨o, rfl, hr.keep (hkeep o (Or.inr (Or.inl ⟨q, hin, hqa, hne, hpc, t, m, preds, ret, hqk⟩)))⟩
      · rcases hnew q hq1 hin with hh | ⟨t', m', cross', o, ret', e, hr⟩
        · exact absurd hqk (hh.2 t m preds obs ret)
        · rw [e] at hqk
          simp only [PK.allocTask.injEq] at hqk
          obtain ⟨_, e2, _, e4, _⟩ := hqk
          exact ⟨o, e4.symm, by rw [← e2]; exact hr⟩
  · intro q hq hqa o sc pa po hqk x hx
    rcases hmem q hq with rfl | ⟨hq1, hne⟩
    · simp only [fin_k] at hqk
      exact hown o sc pa po hqk x hx
    · by_cases hin : q ∈ s.procs
      · have hne' : sc ≠ [] := by intro e; rw [e] at hx; simp at hx
        exact (h.sched q hin hqa o sc pa po hqk x hx).keep
          (hkeep o (Or.inr (Or.inr ⟨q, hin, hqa, hne, sc, pa, po, hqk, hne'⟩)))
      · rcases hnew q hq1 hin with hh | ⟨t', m', cross', o', ret', e, _⟩
        · rw [hh.1 o sc pa po false hqk] at hx; simp at hx
        · rw [e] at hqk; exact absurd hqk (by simp)

/-! ### blocks that leave the idle map and the polling entries alone -/

theorem block_idle_runOn_harmless (s : Sys) (p : Proc) (orc : Oracle) (h2 : p.k.tag ≠ "allocTask")
    (h4 : p.k.tag ≠ "allocTasks") :
    (s.block p orc).1.cl.idle = s.cl.idle ∧ (s.block p orc).1.cl.runOn = s.cl.runOn := by
  by_cases h5 : p.k.tag = "provIngest"
  · cases hk : p.k with
    | provIngest o d =>
      have hb : s.block p orc = s.provIngestBlock p.wake p.pc o d := by
        unfold block; simp only [hk]
      rw [hb]
      obtain ⟨_, _, _, g1, g2, _⟩ := provIngestBlock_shape s p.wake p.pc o d
      exact ⟨g2, g1⟩
    | _ => rw [hk] at h5; simp [PK.tag] at h5
  · exact ⟨(block_runOn_idle s p orc h5 h2 h4).2, (block_runOn_idle s p orc h5 h2 h4).1⟩

theorem rv_quiet {s : Sys} (h : RV s) (hs : SInv s) {p : Proc} (hp : p ∈ s.procs)
    (ha : p.alive = true) (hmin : ∀ q ∈ s.procs, q.alive = true → p.wake ≤ q.wake) (orc : Oracle)
    (h2 : p.k.tag ≠ "allocTask") (h4 : p.k.tag ≠ "allocTasks")
    (hnew : ∀ q ∈ (s.block p orc).1.procs, q ∉ s.procs → RvNeutral q.k) :
    RV ((s.block p orc).1.updProc p.pid (fin (s.block p orc).2.1 (s.block p orc).2.2 p.wake)) := by
  obtain ⟨hi, hr⟩ := block_idle_runOn_harmless s p orc h2 h4
  have htag := block_tag s hs.pw p orc
  refine h.step hs hp ha hmin orc (fun o _ => KeepO.of_eq hi hr o)
    (fun e he _ => Or.inl (by rw [hr] at he; exact he)) ?_ (fun q hq hn => Or.inl (hnew q hq hn))
  intro o sc pa po e; rw [e] at htag; exact absurd htag.symm h4

/-! ### the allocation process -/

theorem rv_allocTask {s : Sys} (h : RV s) (hs : SInv s) {p : Proc} (hp : p ∈ s.procs)
    (ha : p.alive = true) (hmin : ∀ q ∈ s.procs, q.alive = true → p.wake ≤ q.wake) (orc : Oracle)
    {t m preds obs ing ret} (hk : p.k = .allocTask t m preds obs ing ret) :
    RV ((s.block p orc).1.updProc p.pid (fin (s.block p orc).2.1 (s.block p orc).2.2 p.wake)) := by
  have hpw := hs.pw
  obtain ⟨U, hU⟩ := hs.ci
  have hb : s.block p orc = s.allocTaskBlock p.wake t m preds obs ing ret := by
    unfold block; simp only [hk]
  -- the observation of a polling scheduler-side process holds a reservation
  have hres : t ∈ s.cl.running → ing = false → ∀ o1, obs = some o1 → HasRes s.cl o1 := by
    intro hr hi o1 ho
    have hpc := hU.pc_pos hp ha hk hr
    have he := hU.runOn p hp ha t m preds obs ing ret hk hpc
    obtain ⟨o, ho', hr'⟩ := h.ro _ he hi
    simp only at ho'
    rw [ho] at ho'
    injection ho' with e
    rw [e]; exact hr'
  have hfacts : (∃ ret', (s.block p orc).2.1 = .allocTask t m preds obs ing ret') ∧
      (∀ q ∈ (s.block p orc).1.procs, q ∉ s.procs → q.k = .doWork t m preds 0 0) ∧
      (∀ o, KeepO s.cl (s.block p orc).1.cl o) ∧
      (∀ e ∈ (s.block p orc).1.cl.runOn, e ∈ s.cl.runOn ∨ (e = ⟨t, m, obs, ing⟩ ∧ t ∉ s.cl.running)) := by
    obtain ⟨_, g2, g3, g4⟩ := allocTask_facts s hpw p orc hk
    refine ⟨g2, fun q hq hn => (g3 q hq hn).2, ?_, fun e he => ?_⟩
    · intro o
      rw [hb]
      rcases allocTaskBlock_cases s hpw p.wake t m preds obs ing ret with
        ⟨_, e, he, heq⟩ | ⟨_, _, heq⟩ | ⟨_, _, heq⟩ | ⟨hr, _, _, _, heq⟩ | ⟨hr, _, _, heq⟩ <;> rw [heq]
      · exact allocBegin_keepO s.cl t m obs ing o
      · exact allocBegin_keepO s.cl t m obs ing o
      · exact KeepO.refl s.cl o
      · exact allocEnd_keepO s.cl t m obs ing (hres hr) o
      · exact allocEnd_keepO s.cl t m obs ing (hres hr) o
    · rcases g4 e he with h1 | ⟨h1, h2, _⟩
      · exact Or.inl h1
      · exact Or.inr ⟨h1, h2⟩
  obtain ⟨⟨ret', hk'⟩, hnewp, hkeepall, hrunOn⟩ := hfacts
  refine h.step hs hp ha hmin orc (fun o _ => hkeepall o) ?_ ?_ ?_
  · intro e he hi
    rcases hrunOn e he with h1 | ⟨h1, hnr⟩
    · exact Or.inl h1
    · right
      subst h1
      simp only at hi
      subst hi
      have hpc0 := hU.pc_zero hp ha hk hnr
      obtain ⟨o, ho, hr⟩ := h.pend p hp ha t m preds obs ret hk hpc0
      exact ⟨o, ho, hr.has.keep (hkeepall o)⟩
  · intro o sc pa po e; rw [hk'] at e; exact absurd e (by simp)
  · intro q hq hn
    left
    rw [hnewp q hq hn]
    exact ⟨fun o sc pa po fn e => absurd e (by simp), fun t1 m1 c1 o1 r1 e => by simp at e⟩

/-! ### `allocate_tasks` under BatchProcessing -/

theorem ResStep.runOn {parts minPer : Nat} {split : Option (List (Oid × Nat × Nat))} {oid : Oid} {E : Prop}
    {c c' : Cluster} (h : ResStep parts minPer split oid E c c') : c'.runOn = c.runOn := by
  obtain ⟨c1, h1, h2⟩ := h
  have e1 : c1.runOn = c.runOn := by
    rcases h1 with rfl | ⟨_, _, n, _, _, _, hpb⟩
    · rfl
    · have := provisionBatch_runOn c n oid
      rw [hpb] at this; exact this
  rcases h2 with rfl | ⟨_, rfl | rfl⟩
  · exact e1
  · rw [releaseBatch_runOn]; exact e1
  · rw [releaseBatch_runOn, releaseBatch_runOn]; exact e1

theorem ResStep.sameO {parts minPer : Nat} {split : Option (List (Oid × Nat × Nat))} {oid : Oid} {E : Prop}
    {c c' : Cluster} (h : ResStep parts minPer split oid E c c') (o : Oid) (hne : o ≠ oid) : SameO c c' o := by
  obtain ⟨c1, h1, h2⟩ := h
  have e1 : SameO c c1 o := by
    rcases h1 with rfl | ⟨_, _, n, _, _, _, hpb⟩
    · exact SameO.refl _ o
    · have := provisionBatch_sameO c n oid o hne
      rw [hpb] at this; exact this
  rcases h2 with rfl | ⟨_, rfl | rfl⟩
  · exact e1
  · exact e1.trans (releaseBatch_sameO c1 oid o hne)
  · exact (e1.trans (releaseBatch_sameO c1 oid o hne)).trans (releaseBatch_sameO _ oid o hne)

/-- nothing happens to the cluster while the observation holds a reservation and its plan has a task left -/
theorem ResStep.eq_of_used {parts minPer : Nat} {split : Option (List (Oid × Nat × Nat))} {oid : Oid} {E : Prop}
    {c c' : Cluster} (h : ResStep parts minPer split oid E c c') (hres : HasRes c oid) (hne : ¬ E) : c' = c := by
  obtain ⟨c1, h1, h2⟩ := h
  have e1 : c1 = c := by
    rcases h1 with e | ⟨hnp, _⟩
    · exact e
    · obtain ⟨l, hl⟩ := hres
      unfold Cluster.isProvisioned dictHas at hnp
      rw [hl] at hnp; simp at hnp
  rcases h2 with e | ⟨he, _⟩
  · rw [e, e1]
  · exact absurd he hne

theorem res_of_idleOf {c : Cluster} {m : Mid} {o : Oid} (h : m ∈ c.idleOf (some o)) : Res c m o := by
  have h' : m ∈ (dictGet c.idle o).getD [] := h
  cases hg : dictGet c.idle o with
  | none => rw [hg] at h'; simp at h'
  | some l => rw [hg] at h'; exact ⟨l, hg, Or.inl (by simpa using h')⟩

/-- one block of `allocate_tasks` of observation `oid` under BatchProcessing, in a state that
satisfies the reservation invariant `RI` -/
theorem allocTasks_batch_facts {s : Sys} (hri : RI s) {parts minPer : Nat}
    {split : Option (List (Oid × Nat × Nat))} (halg : s.alg = .batch parts minPer split) (p : Proc)
    (orc : Oracle) {oid : Oid} {sc pa : List (Tid × Mid)} {po : List Tid} {fn : Bool}
    (hk : p.k = .allocTasks oid sc pa po fn) :
    ∃ (E : Prop) (sc' pa' : List (Tid × Mid)) (po' : List Tid) (fn' : Bool),
      (s.block p orc).2.1 = .allocTasks oid sc' pa' po' fn' ∧
      (fn = true ∨ ResStep parts minPer split oid E s.cl (s.block p orc).1.cl) ∧
      (fn = true → (s.block p orc).1.cl = s.cl ∧ (s.block p orc).1.procs = s.procs ∧ fn' = true) ∧
      -- the plan of `oid` has a task left as long as something of `oid` is alive
      (∀ q ∈ s.procs, q.alive = true → ∀ t m preds ret, q.k = .allocTask t m preds (some oid) false ret → ¬ E) ∧
      (∀ x ∈ sc, p ∈ s.procs → p.alive = true → fn = false → ¬ E) ∧
      (∀ x ∈ sc', x ∈ sc ∨ (¬ E ∧ x.2 ∈ (s.block p orc).1.cl.idleOf (some oid))) ∧
      ∀ q ∈ (s.block p orc).1.procs, q ∈ s.procs ∨
        ∃ t m cross, q.k = .allocTask t m cross (some oid) false 0 ∧ q.alive = true ∧ q.pc = 0 ∧
          ((t, m) ∈ sc ∨ (¬ E ∧ m ∈ (s.block p orc).1.cl.idleOf (some oid))) := by
  have hb : s.block p orc = s.allocTasksBlock p.wake orc p.pc oid sc pa po fn := by
    unfold block; simp only [hk]
  rw [hb]
  cases fn with
  | true =>
    rw [allocTasksBlock_fin]
    exact ⟨False, sc, pa, po, true, rfl, Or.inl rfl, fun _ => ⟨rfl, rfl, rfl⟩,
      fun _ _ _ _ _ _ _ _ => id, fun _ _ _ _ _ => id, fun x hx => Or.inl hx, fun q hq => Or.inl hq⟩
  | false =>
    rw [allocTasksBlock_eq]
    obtain ⟨h1, e_procs, _, _, e_cl, e_alg, _⟩ := hri.pruned p.wake p.pc oid
    obtain ⟨sc', pa', po', fn', g1, g2, g3, g4⟩ := allocTasksIter_batch (a := atStart s p.wake p.pc oid)
      (by rw [atStart_alg]; exact halg) p.wake orc oid sc pa po h1.pf
    refine ⟨planTasks ((atStart s p.wake p.pc oid).updateCurrentPlan oid) oid = [], sc', pa', po', fn', g1,
      Or.inr (by rw [← atStart_cl s p.wake p.pc oid]; exact g2), fun h => by simp at h, ?_, ?_, ?_, ?_⟩
    · intro q hq hqa t m preds ret hqk he
      have := (h1.st q (by rw [e_procs]; exact hq) hqa t m preds oid ret hqk).2
      rw [he] at this; simp at this
    · intro x hx hp hpa _ he
      have := ((h1.sl p (by rw [e_procs]; exact hp) hpa oid sc pa po hk).2 x.1 (key_of_pair hx)).1
      rw [he] at this; simp at this
    · exact g3
    · intro q hq
      rcases g4 q hq with h2 | h2
      · rw [atStart_procs] at h2; exact Or.inl h2
      · exact Or.inr h2

end Sys
end Topsim
