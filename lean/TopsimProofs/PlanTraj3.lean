/-
  PlanTraj3 — one step of a run, as far as the record table and the plan table
  are concerned (`resume_shape`), and the graph invariant `GI`: every plan of
  every reachable state carries the relabelled edge list of its observation's
  configured workflow, its task list is a sublist of the planner's list, every
  workflow task record carries the attributes of its node, and every task of a
  plan has a record.
-/
import TopsimProofs.PlanTraj2

namespace Topsim
namespace Sys

/-! ### one step -/

/-- one `resume`, seen from the record table and the plan table: (1) records rewritten in place,
plans pruned in place; (2) the ingest provisioner's first block: ingest records appended; (3) the
scheduler loop plans an observation: the plan's records and the plan appended -/
theorem resume_shape (s : Sys) (hpw : PW s) (pid : Nat) (orc : Oracle) :
    (PlanMap (fun t => tstat s t = .finished) s (s.resume pid orc).1 ∧ MapStep s (s.resume pid orc).1) ∨
    (PlanMap (fun t => tstat s t = .finished) s (s.resume pid orc).1 ∧
      ∃ p o d recs, s.proc? pid = some p ∧ p.alive = true ∧ p.k = .provIngest o d ∧ p.pc = 0 ∧
        (s.resume pid orc).1.tasks = s.tasks ++ recs ∧ (recs.map (·.id)).Nodup ∧
        ∀ r ∈ recs, ∃ i, i < d ∧ r.id = .ingest o i) ∨
    (∃ p, s.proc? pid = some p ∧ p.alive = true ∧ p.k = .schedLoop ∧
      ∃ oid o recs plan, s.buf.nextForProcessing.2 = some oid ∧ s.obs? oid = some o ∧
      (recs, plan) = (if s.staticPlan then staticPlanOf o (natNow p.wake) orc.plan
        else batchPlan o (natNow p.wake)) ∧
      (s.resume pid orc).1.tasks = s.tasks ++ recs ∧
      (s.resume pid orc).1.plans = s.plans.filter (·.obs ≠ oid) ++ [plan]) := by
  cases hp : s.proc? pid with
  | none => rw [resume_none s pid orc hp]; exact Or.inl ⟨PlanMap.refl _ s, MapStep.refl s⟩
  | some p =>
    cases ha : p.alive with
    | false => rw [resume_dead s pid orc p hp ha]; exact Or.inl ⟨PlanMap.refl _ s, MapStep.refl s⟩
    | true =>
      have hpl := resume_plans s pid orc p hp ha
      have htk : (s.resume pid orc).1.tasks = (s.block p orc).1.tasks := (resume_core s pid orc p hp ha).tasks
      rcases block_plansShape s p orc with h | ⟨hk, oid, o, recs, plan, g1, g2, g3, g4, g5⟩
      · have hP := h.of_plans_eq hpl
        rcases block_tasksShape s hpw p orc with ht | ⟨o, d, recs, hk, hpc, ht, hnd, hid⟩ |
            ⟨hk, oid, o, recs, plan, g1, g2, g3, g4, g5⟩
        · exact Or.inl ⟨hP, ht.trans (MapStep.of_eq htk)⟩
        · exact Or.inr (Or.inl ⟨hP, p, o, d, recs, rfl, ha, hk, hpc, by rw [htk]; exact ht, hnd, hid⟩)
        · exact Or.inr (Or.inr ⟨p, rfl, ha, hk, oid, o, recs, plan, g1, g2, g3, by rw [htk]; exact g4,
            by rw [hpl]; exact g5⟩)
      · exact Or.inr (Or.inr ⟨p, rfl, ha, hk, oid, o, recs, plan, g1, g2, g3, by rw [htk]; exact g4,
          by rw [hpl]; exact g5⟩)

/-! ### what the planner makes -/

/-- record `r` carries the attributes of node `n` of workflow `wf` (of observation `oid`, planned
at clock `c`): the node's compute and data demands, its predecessors relabelled, the transfer
volume of each incoming edge -/
structure NodeRec (wf : Workflow) (oid : Oid) (c n : Nat) (r : TaskRec) : Prop where
  flops : r.flops = ((wf.nodes.find? (·.1 = n)).getD (n, 0, 0)).2.1
  data : r.data = ((wf.nodes.find? (·.1 = n)).getD (n, 0, 0)).2.2
  preds : r.preds = (wf.edges.filter (fun e => e.2.1 = n)).map (fun e => Tid.wf oid c e.1)
  io : r.io = (wf.edges.filter (fun e => e.2.1 = n)).map (fun e => (Tid.wf oid c e.1, e.2.2))

theorem NodeRec.tg {wf : Workflow} {oid : Oid} {c n : Nat} {r r' : TaskRec} (h : NodeRec wf oid c n r)
    (k : TG r r') : NodeRec wf oid c n r' :=
  ⟨k.flops.trans h.flops, k.data.trans h.data, k.preds.trans h.preds, k.io.trans h.io⟩

theorem planOf_attrs (o : Obs) (c : Nat) (stat : Bool) (rows : List (Nat × Mid × Nat × Nat))
    (recs : List TaskRec) (plan : Plan)
    (h : (recs, plan) = (if stat = true then staticPlanOf o c rows else batchPlan o c)) :
    plan.obs = o.id ∧
    plan.edges = o.wf.edges.map (fun e => (Tid.wf o.id c e.1, Tid.wf o.id c e.2.1)) ∧
    plan.tasks = recs.map (·.id) ∧
    (stat = false → plan.tasks = o.wf.topo.map (Tid.wf o.id c)) ∧
    (stat = true → plan.tasks = rows.map (fun x => Tid.wf o.id c x.1)) ∧
    ∀ r ∈ recs, ∃ n, r.id = Tid.wf o.id c n ∧ NodeRec o.wf o.id c n r := by
  split at h
  · rename_i hs
    injection h with h1 h2
    subst h1 h2
    refine ⟨rfl, rfl, rfl, (fun e => by rw [hs] at e; cases e), fun _ => ?_, ?_⟩
    · simp only [List.map_map]
      apply List.map_congr_left
      intro x _
      rfl
    · intro r hr
      simp only [List.mem_map] at hr
      obtain ⟨⟨n, mid, est, eft⟩, _, rfl⟩ := hr
      exact ⟨n, rfl, ⟨rfl, rfl, rfl, rfl⟩⟩
  · rename_i hs
    injection h with h1 h2
    subst h1 h2
    refine ⟨rfl, rfl, rfl, fun _ => ?_, fun e => absurd e hs, ?_⟩
    · simp only [List.map_map]
      apply List.map_congr_left
      intro x _
      rfl
    · intro r hr
      simp only [List.mem_map] at hr
      obtain ⟨n, _, rfl⟩ := hr
      exact ⟨n, rfl, ⟨rfl, rfl, rfl, rfl⟩⟩

/-! ### the graph invariant -/

structure GI (s0 s : Sys) : Prop where
  /-- a plan carries the relabelled edges of its observation's configured workflow; its tasks are
  workflow tasks of that observation planned at the same clock; with BatchPlanning the task list is
  a sublist of the topological list, and every node of the workflow has a record -/
  plans : ∀ pl ∈ s.plans, ∃ o ∈ s0.obs, ∃ c, pl.obs = o.id ∧
    pl.edges = o.wf.edges.map (fun e => (Tid.wf o.id c e.1, Tid.wf o.id c e.2.1)) ∧
    (∀ t ∈ pl.tasks, ∃ n, t = Tid.wf o.id c n) ∧
    (s0.staticPlan = false → pl.tasks.Sublist (o.wf.topo.map (Tid.wf o.id c))) ∧
    (s0.staticPlan = false → ∀ n ∈ o.wf.topo, ∃ r ∈ s.tasks, r.id = Tid.wf o.id c n)
  /-- a workflow task record carries the attributes of its node -/
  recs : ∀ r ∈ s.tasks, ∀ oid c n, r.id = Tid.wf oid c n → ∃ o ∈ s0.obs, o.id = oid ∧ NodeRec o.wf oid c n r
  /-- every task of a plan has a record -/
  planRecs : ∀ pl ∈ s.plans, ∀ t ∈ pl.tasks, ∃ r ∈ s.tasks, r.id = t

theorem gi_start (s0 : Sys) (hw : WFConfig s0) : GI s0 s0.start := by
  obtain ⟨_, _, htasks, hplans, _⟩ := hw.fresh
  have ht : s0.start.tasks = [] := by rw [← htasks]; simp [start, spawn]
  have hpl : s0.start.plans = [] := by rw [← hplans]; simp [start, spawn]
  constructor
  · rw [hpl]; intro pl h; simp at h
  · rw [ht]; intro r h; simp at h
  · rw [hpl]; intro pl h; simp at h

theorem gi_step {s0 s : Sys} (hobs : ObsSame s0.obs s.obs) (hstat : s.staticPlan = s0.staticPlan)
    (hpw : PW s) (h : GI s0 s) (pid : Nat) (orc : Oracle) : GI s0 (s.resume pid orc).1 := by
  -- plans and records under an in-place step
  have plansMap : PlanMap (fun t => tstat s t = .finished) s (s.resume pid orc).1 →
      (∀ r ∈ s.tasks, ∃ r' ∈ (s.resume pid orc).1.tasks, r'.id = r.id) →
      ∀ pl' ∈ (s.resume pid orc).1.plans, ∃ o ∈ s0.obs, ∃ c, pl'.obs = o.id ∧
        pl'.edges = o.wf.edges.map (fun e => (Tid.wf o.id c e.1, Tid.wf o.id c e.2.1)) ∧
        (∀ t ∈ pl'.tasks, ∃ n, t = Tid.wf o.id c n) ∧
        (s0.staticPlan = false → pl'.tasks.Sublist (o.wf.topo.map (Tid.wf o.id c))) ∧
        (s0.staticPlan = false → ∀ n ∈ o.wf.topo, ∃ r ∈ (s.resume pid orc).1.tasks, r.id = Tid.wf o.id c n) := by
    intro hP hfw pl' hpl'
    obtain ⟨pl, hpl, hr⟩ := hP.back hpl'
    obtain ⟨o, ho, c, g1, g2, g3, g4, g5⟩ := h.plans pl hpl
    refine ⟨o, ho, c, hr.obs.trans g1, hr.edges.trans g2, fun t ht => g3 t (hr.sub.subset ht),
      fun hs => hr.sub.trans (g4 hs), fun hs n hn => ?_⟩
    obtain ⟨r, hr0, e⟩ := g5 hs n hn
    obtain ⟨r', hr', e'⟩ := hfw r hr0
    exact ⟨r', hr', e'.trans e⟩
  have recsMap : MapStep s (s.resume pid orc).1 →
      ∀ r' ∈ (s.resume pid orc).1.tasks, ∀ oid c n, r'.id = Tid.wf oid c n →
        ∃ o ∈ s0.obs, o.id = oid ∧ NodeRec o.wf oid c n r' := by
    intro hM r' hr' oid c n e
    obtain ⟨r, hr, k⟩ := hM.back hr'
    obtain ⟨o, ho, e1, hn⟩ := h.recs r hr oid c n (k.id.symm.trans e)
    exact ⟨o, ho, e1, hn.tg k⟩
  have planRecsOld : ∀ (X : Sys), PlanMap (fun t => tstat s t = .finished) s X →
      (∀ r ∈ s.tasks, ∃ r' ∈ X.tasks, r'.id = r.id) →
      ∀ pl' ∈ X.plans, ∀ t ∈ pl'.tasks, ∃ r ∈ X.tasks, r.id = t := by
    intro X hP hfw pl' hpl' t ht
    obtain ⟨pl, hpl, hr⟩ := hP.back hpl'
    obtain ⟨r, hr0, e⟩ := h.planRecs pl hpl t (hr.sub.subset ht)
    obtain ⟨r', hr', e'⟩ := hfw r hr0
    exact ⟨r', hr', e'.trans e⟩
  rcases resume_shape s hpw pid orc with ⟨hP, hM⟩ | ⟨hP, p, o, d, recs, _, _, _, _, ht, _, hid⟩ |
      ⟨p, _, _, _, oid, o, recs, plan, _, hob, hrp, ht, hpl⟩
  · have hfw : ∀ r ∈ s.tasks, ∃ r' ∈ (s.resume pid orc).1.tasks, r'.id = r.id := by
      intro r hr
      obtain ⟨r', hr', k⟩ := hM.fwd hr
      exact ⟨r', hr', k.id⟩
    exact ⟨plansMap hP hfw, recsMap hM, planRecsOld _ hP hfw⟩
  · have hfw : ∀ r ∈ s.tasks, ∃ r' ∈ (s.resume pid orc).1.tasks, r'.id = r.id := by
      intro r hr
      exact ⟨r, by rw [ht]; exact List.mem_append_left _ hr, rfl⟩
    refine ⟨plansMap hP hfw, ?_, planRecsOld _ hP hfw⟩
    intro r' hr' oid c n e
    rw [ht] at hr'
    rcases List.mem_append.mp hr' with h1 | h1
    · exact h.recs r' h1 oid c n e
    · obtain ⟨i, _, e'⟩ := hid r' h1
      rw [e'] at e; cases e
  · -- planning
    obtain ⟨hom, hoid⟩ := obs_mem_of_obs? hob
    obtain ⟨o0, ho0, e0, ew⟩ := hobs.back hom
    obtain ⟨a1, a2, a3, a4, _, a6⟩ := planOf_attrs o (natNow p.wake) s.staticPlan orc.plan recs plan hrp
    have hrecAttr : ∀ r ∈ recs, ∃ n, r.id = Tid.wf o0.id (natNow p.wake) n ∧
        NodeRec o0.wf o0.id (natNow p.wake) n r := by
      intro r hr
      obtain ⟨n, e, hn⟩ := a6 r hr
      exact ⟨n, by rw [e0]; exact e, by rw [e0, ew]; exact hn⟩
    refine ⟨?_, ?_, ?_⟩
    · intro pl' hpl'
      rw [hpl] at hpl'
      rcases List.mem_append.mp hpl' with h1 | h1
      · obtain ⟨o', ho', c', g1, g2, g3, g4, g5⟩ := h.plans pl' (List.mem_filter.mp h1).1
        refine ⟨o', ho', c', g1, g2, g3, g4, fun hs n hn => ?_⟩
        obtain ⟨r, hr0, e⟩ := g5 hs n hn
        exact ⟨r, by rw [ht]; exact List.mem_append_left _ hr0, e⟩
      · simp only [List.mem_singleton] at h1
        subst h1
        refine ⟨o0, ho0, natNow p.wake, by rw [a1, e0], by rw [a2, e0, ew], ?_, ?_, ?_⟩
        · intro t ht'
          rw [a3] at ht'
          obtain ⟨r, hr, rfl⟩ := List.mem_map.mp ht'
          obtain ⟨n, e, _⟩ := hrecAttr r hr
          exact ⟨n, e⟩
        · intro hs
          rw [a4 (hstat.trans hs), e0, ew]
          exact List.Sublist.refl _
        · intro hs n hn
          have hmem : Tid.wf o.id (natNow p.wake) n ∈ pl'.tasks := by
            rw [a4 (hstat.trans hs), ← ew]; exact List.mem_map_of_mem hn
          rw [a3] at hmem
          obtain ⟨r, hr, e⟩ := List.mem_map.mp hmem
          exact ⟨r, by rw [ht]; exact List.mem_append_right _ hr, by rw [e0]; exact e⟩
    · intro r' hr' oid' c n e
      rw [ht] at hr'
      rcases List.mem_append.mp hr' with h1 | h1
      · exact h.recs r' h1 oid' c n e
      · obtain ⟨n', e', hn⟩ := hrecAttr r' h1
        rw [e'] at e
        injection e with e1 e2 e3
        subst e1 e2 e3
        exact ⟨o0, ho0, rfl, hn⟩
    · intro pl' hpl' t ht'
      rw [hpl] at hpl'
      rcases List.mem_append.mp hpl' with h1 | h1
      · obtain ⟨r, hr, e⟩ := h.planRecs pl' (List.mem_filter.mp h1).1 t ht'
        exact ⟨r, by rw [ht]; exact List.mem_append_left _ hr, e⟩
      · simp only [List.mem_singleton] at h1
        subst h1
        rw [a3] at ht'
        obtain ⟨r, hr, e⟩ := List.mem_map.mp ht'
        exact ⟨r, by rw [ht]; exact List.mem_append_right _ hr, e⟩

/-- the graph invariant in every reachable state: any block order, any oracle inputs, any
algorithm, crashed or not, whatever the initial buffer -/
theorem reach_gi (s0 s : Sys) (hw : WFConfig s0) (h : Reach s0 s) : GI s0 s := by
  induction h with
  | start => exact gi_start s0 hw
  | step s pid orc hr _ ih =>
    exact gi_step (reach_obsSame hr) (reach_stat hr) (reach_einv s0 s hw hr).pw ih pid orc

end Sys
end Topsim
