/-
  ResOr11 — `ResOrRI` under the block of an `allocate_tasks` process: the outcomes of the iteration
  that create no allocation process (port of FinishRes9).
-/
import TopsimProofs.ResOr10

namespace Topsim
namespace Sys

open Cluster

/-- outcomes that change neither queue, plans nor task records: the process goes on with a new
local schedule, or stops; the reservation may have been released -/
theorem ResOrRI.atsSimple {b X : Sys} (hb : ResOrRI b) (hpwb : PW b) {p : Proc} (hp : p ∈ b.procs) (ha : p.alive = true)
    {oid : Oid} {sc pa : List (Tid × Mid)} {po : List Tid} (hk : p.k = .allocTasks oid sc pa po false)
    (hXp : X.procs = b.procs) (hpwX : PW X) (hXq : X.queue = b.queue) (hXpl : X.plans = b.plans)
    (hXt : ∀ t, tstat X t = tstat b t)
    (hXcl : X.cl = b.cl ∨ X.cl = b.cl.releaseBatch oid) (hkn : (dictKeys b.cl.idle).Nodup)
    (k' : PK) (y : Yield) (hktag : k'.tag = "allocTasks")
    (hsl : (fin k' y p.wake p).alive = true → ∀ o sc2 pa2 po2, k' = .allocTasks o sc2 pa2 po2 false →
      o = oid ∧ (dictKeys sc2).Nodup ∧ ∀ t ∈ dictKeys sc2, tstat b t = .unscheduled → t ∈ planTasks b oid) :
    ResOrRI (X.updProc p.pid (fin k' y p.wake)) := by
  have hm := memSpec_updProc hpwb hp [] (by simpa using hXp) hpwX (fin k' y p.wake)
  have hts : ∀ t, tstat (X.updProc p.pid (fin k' y p.wake)) t = tstat b t := hXt
  have hclf : KeyNE X.cl ∧ X.cl.runOn = b.cl.runOn ∧ ∀ x ∈ dictKeys X.cl.idle, x ∈ dictKeys b.cl.idle := by
    rcases hXcl with e | e
    · rw [e]; exact ⟨hb.keyNE, rfl, fun _ h => h⟩
    · obtain ⟨a1, a2, a3, _⟩ := releaseBatch_key b.cl oid hb.keyNE hkn
      rw [e]; exact ⟨a1, a2, a3⟩
  refine hb.step' hpwb hp hm (by simp) hXq hXpl ?_ ?_ ?_ ?_ ?_ ?_ ?_ ?_
  · intro t hu; rw [hts] at hu; exact hu
  · intro o c n hf; left; rw [hts] at hf; exact hf
  · intro q hq hqa o sc2 pa2 po2 hqk
    rcases hq with rfl | hq
    · simp only [fin_k] at hqk
      obtain ⟨e, _⟩ := hsl hqa o sc2 pa2 po2 hqk
      exact ⟨rfl, ha, sc, pa, po, by rw [e]; exact hk⟩
    · simp at hq
  · intro hqa o sc2 pa2 po2 hqk
    simp only [fin_k] at hqk
    obtain ⟨e, h2, h3⟩ := hsl hqa o sc2 pa2 po2 hqk
    subst e
    refine ⟨h2, fun t ht hu => ?_⟩
    rw [hts] at hu
    rw [show planTasks (X.updProc p.pid (fin k' y p.wake)) o = planTasks X o from rfl,
      planTasks_of_plans hXpl]
    exact h3 t ht hu
  · intro q hq _ t m preds o ret hqk
    rcases hq with rfl | hq
    · simp only [fin_k] at hqk; rw [hqk] at hktag; simp [PK.tag] at hktag
    · simp at hq
  · exact resOr_rc_quiet hb hpwb hp hm hclf.2.1 (by rw [hk]; simp [PK.tag])
  · intro o ho; exact hb.keyQ o (hclf.2.2 o ho)
  · exact hclf.1

/-- the finishing outcome: the reservation is released and the observation leaves the queue -/
theorem ResOrRI.atsFinish {b X : Sys} (hb : ResOrRI b) (hpwb : PW b) {p : Proc} (hp : p ∈ b.procs) (ha : p.alive = true)
    {oid : Oid} {sc pa : List (Tid × Mid)} {po : List Tid} (hk : p.k = .allocTasks oid sc pa po false)
    (hXp : X.procs = b.procs) (hpwX : PW X) (hXq : X.queue = b.queue.erase oid) (hXpl : X.plans = b.plans)
    (hXt : ∀ t, tstat X t = tstat b t) (hXcl : X.cl = b.cl.releaseBatch oid)
    (hkn : (dictKeys b.cl.idle).Nodup) (hempty : planTasks b oid = [])
    (k' : PK) (y : Yield) (hk' : ∃ sc2 pa2 po2, k' = .allocTasks oid sc2 pa2 po2 true) :
    ResOrRI (X.updProc p.pid (fin k' y p.wake)) := by
  obtain ⟨sc2, pa2, po2, rfl⟩ := hk'
  have hm := memSpec_updProc hpwb hp [] (by simpa using hXp) hpwX (fin (.allocTasks oid sc2 pa2 po2 true) y p.wake)
  -- no task of the observation is running: its plan is empty
  have hnorun : ∀ e ∈ b.cl.runOn, ¬ (e.obs = some oid ∧ e.ing = false) := by
    rintro e he ⟨h1, h2⟩
    obtain ⟨q, hq, hqa, _, preds, ret, hqk⟩ := hb.rc e he
    rw [h1, h2] at hqk
    have := (hb.st q hq hqa _ _ _ _ _ hqk).2
    rw [hempty] at this; simp at this
  have hne : ∀ l, dictGet b.cl.idle oid = some l → l ≠ [] := by
    intro l hl
    rcases hb.keyNE oid l hl with h1 | ⟨e, he, h2, h3⟩
    · exact h1
    · exact absurd ⟨h2, h3⟩ (hnorun e he)
  obtain ⟨a1, a2, a3, a4⟩ := releaseBatch_key b.cl oid hb.keyNE hkn
  have hgone := a4 hne
  -- the other `allocate_tasks` processes handle other observations
  have hother : ∀ q ∈ b.procs, q.pid ≠ p.pid → q.alive = true → ∀ o sc1 pa1 po1,
      q.k = .allocTasks o sc1 pa1 po1 false → o ≠ oid := by
    intro q hq hne' hqa o sc1 pa1 po1 hqk e
    subst e
    exact hne' (hb.atsUniq q hq p hp hqa ha _ _ _ _ _ _ _ hqk hk)
  have hold : ∀ q ∈ (X.updProc p.pid (fin (.allocTasks oid sc2 pa2 po2 true) y p.wake)).procs,
      (∃ sc pa po, q.k = .allocTasks oid sc pa po true ∧ q.pid = p.pid) ∨ (q ∈ b.procs ∧ q.pid ≠ p.pid) := by
    intro q hq
    rcases (hm q).mp hq with rfl | hq0 | hqn
    · exact Or.inl ⟨sc2, pa2, po2, by simp, by simp⟩
    · exact Or.inr hq0
    · simp at hqn
  have hts : ∀ t, tstat (X.updProc p.pid (fin (.allocTasks oid sc2 pa2 po2 true) y p.wake)) t = tstat b t := hXt
  have hplT : ∀ o, planTasks (X.updProc p.pid (fin (.allocTasks oid sc2 pa2 po2 true) y p.wake)) o = planTasks b o :=
    fun o => planTasks_of_plans hXpl o
  constructor
  · show X.queue.Nodup; rw [hXq]; exact hb.qNodup.erase oid
  · intro q hq hqa o sc1 pa1 po1 hqk
    rcases hold q hq with ⟨_, _, _, e, _⟩ | ⟨hq0, hne'⟩
    · rw [e] at hqk; simp at hqk
    · obtain ⟨g1, g2⟩ := hb.atsQ q hq0 hqa o sc1 pa1 po1 hqk
      refine ⟨?_, by show (X.plan? o).isSome = true; unfold plan?; rw [hXpl]; exact g2⟩
      show o ∈ X.queue
      rw [hXq]
      exact (List.mem_erase_of_ne (hother q hq0 hne' hqa o sc1 pa1 po1 hqk)).mpr g1
  · intro q1 hq1 q2 hq2 ha1 ha2 o sc1 pa1 po1 sc1' pa1' po1' hk1 hk2
    rcases hold q1 hq1 with ⟨_, _, _, e, _⟩ | ⟨h1, _⟩
    · rw [e] at hk1; simp at hk1
    · rcases hold q2 hq2 with ⟨_, _, _, e, _⟩ | ⟨h2, _⟩
      · rw [e] at hk2; simp at hk2
      · exact hb.atsUniq q1 h1 q2 h2 ha1 ha2 o _ _ _ _ _ _ hk1 hk2
  · intro q hq hqa o sc1 pa1 po1 hqk
    rcases hold q hq with ⟨_, _, _, e, _⟩ | ⟨hq0, _⟩
    · rw [e] at hqk; simp at hqk
    · obtain ⟨g1, g2⟩ := hb.sl q hq0 hqa o sc1 pa1 po1 hqk
      exact ⟨g1, fun t ht hu => by rw [hplT]; exact g2 t ht (by rw [hts] at hu; exact hu)⟩
  · show ∀ pl ∈ X.plans, _; rw [hXpl]; exact hb.pt
  · show ∀ pl ∈ X.plans, _; rw [hXpl]; exact hb.pf
  · show (X.plans.map (·.obs)).Nodup; rw [hXpl]; exact hb.pn
  · intro q hq hqa t m preds o ret hqk
    rcases hold q hq with ⟨_, _, _, e, _⟩ | ⟨hq0, _⟩
    · rw [e] at hqk; simp at hqk
    · obtain ⟨g1, g2⟩ := hb.st q hq0 hqa t m preds o ret hqk
      exact ⟨by rw [hts]; exact g1, by rw [hplT]; exact g2⟩
  · refine resOr_rc_quiet hb hpwb hp hm ?_ (by rw [hk]; simp [PK.tag])
    show X.cl.runOn = _; rw [hXcl]; exact a2
  · intro o ho
    have ho' : o ∈ dictKeys (b.cl.releaseBatch oid).idle := by
      have : (X.updProc p.pid (fin (.allocTasks oid sc2 pa2 po2 true) y p.wake)).cl = b.cl.releaseBatch oid := hXcl
      rw [this] at ho; exact ho
    show o ∈ X.queue
    rw [hXq]
    have hne' : o ≠ oid := fun e => hgone (e ▸ ho')
    exact (List.mem_erase_of_ne hne').mpr (hb.keyQ o (a3 o ho'))
  · show KeyNE X.cl; rw [hXcl]; exact a1

end Sys
end Topsim
