/-
  Lemmas about the four scheduling algorithms (`TopsimModel.Alg`), the
  batch-reservation calls of the cluster, the start-time formula and
  `_process_current_schedule`, cited by TopsimProps/{C03,C09,C10,C17}.lean.
-/
import TopsimModel.Procs

namespace Topsim

/-! ### association lists -/

theorem mem_dictSet {κ α} [DecidableEq κ] {d : List (κ × α)} {k : κ} {v : α} {p : κ × α}
    (h : p ∈ dictSet d k v) : p = (k, v) ∨ p ∈ d := by
  induction d with
  | nil => simp [dictSet] at h; exact Or.inl h
  | cons q r ih =>
    obtain ⟨k', v'⟩ := q
    by_cases hk : k' = k
    · simp [dictSet, hk] at h
      rcases h with h | h
      · exact Or.inl h
      · exact Or.inr (List.mem_cons_of_mem _ h)
    · simp [dictSet, hk] at h
      rcases h with h | h
      · exact Or.inr (by simp [h])
      · rcases ih h with h | h
        · exact Or.inl h
        · exact Or.inr (List.mem_cons_of_mem _ h)

theorem dictGet_dictSet_self {κ α} [DecidableEq κ] (d : List (κ × α)) (k : κ) (v : α) :
    dictGet (dictSet d k v) k = some v := by
  induction d with
  | nil => simp [dictSet, dictGet]
  | cons p r ih =>
    obtain ⟨k0, v0⟩ := p
    by_cases h : k0 = k
    · simp [dictSet, dictGet, h]
    · simp [dictSet, dictGet, h, ih]

theorem dictGet_append_fresh {κ α} [DecidableEq κ] (d : List (κ × α)) (k : κ) (v : α)
    (h : dictGet d k = none) : dictGet (d ++ [(k, v)]) k = some v := by
  induction d with
  | nil => simp [dictGet]
  | cons p r ih =>
    obtain ⟨k0, v0⟩ := p
    by_cases hk : k0 = k
    · simp [dictGet, hk] at h
    · simp [dictGet, hk] at h ⊢; exact ih h

theorem dictGet_dictErase_self {κ α} [DecidableEq κ] (d : List (κ × α)) (k : κ)
    (h : (dictKeys d).Nodup) : dictGet (dictErase d k) k = none := by
  induction d with
  | nil => simp [dictErase, dictGet]
  | cons p r ih =>
    obtain ⟨k0, v0⟩ := p
    simp only [dictKeys, List.map_cons, List.nodup_cons] at h
    by_cases hk : k0 = k
    · subst hk
      simp only [dictErase, if_true]
      have : ∀ (r : List (κ × α)), k0 ∉ r.map (·.1) → dictGet r k0 = none := by
        intro r; induction r with
        | nil => intro _; simp [dictGet]
        | cons q r' ih' =>
          obtain ⟨k1, v1⟩ := q
          intro hq
          simp only [List.map_cons, List.mem_cons, not_or] at hq
          have : ¬ k1 = k0 := fun e => hq.1 e.symm
          simp [dictGet, this, ih' hq.2]
      exact this r h.1
    · simp only [dictErase, hk, if_false, dictGet]
      exact ih h.2

/-! ### generic fold invariant -/

theorem foldl_inv {σ α} (f : σ → α → σ) (I : σ → Prop) (hstep : ∀ s a, I s → I (f s a)) :
    ∀ (l : List α) (s : σ), I s → I (l.foldl f s) := by
  intro l
  induction l with
  | nil => intro s h; exact h
  | cons a r ih => intro s h; exact ih _ (hstep s a h)

/-! ### readiness (C03), reserved machines (C09), planned machines (C17) -/

namespace Alg

/-- the readiness test of Batch / Queue / Dynamic -/
def Ready (cl : Cluster) (plan : Plan) (view : Tid → TaskView) (t : Tid) : Prop :=
  (view t).status = .unscheduled ∧ ∀ q ∈ plan.preds t, cl.isTaskFinished q = true

theorem ready_of_test {cl : Cluster} {plan : Plan} {view : Tid → TaskView} {t : Tid}
    (hs : (view t).status = .unscheduled)
    (hp : (plan.preds t).isEmpty = true ∨ predsFinished cl plan t = true) : Ready cl plan view t := by
  refine ⟨hs, ?_⟩
  intro q hq
  rcases hp with he | hf
  · rw [List.isEmpty_iff] at he; rw [he] at hq; simp at hq
  · exact List.all_eq_true.mp hf q hq

/-- loop invariant of the first-free loop: the candidate machines stay within
`T`, and every pair that is not left over from `sched` was ready and in `T` -/
def FFInv (sched : List (Tid × Mid)) (R : Tid → Prop) (T : Mid → Prop) (st : LoopSt) : Prop :=
  (∀ m ∈ st.temp, T m) ∧ ∀ p ∈ st.alloc, p ∈ sched ∨ (R p.1 ∧ T p.2)

theorem firstFreeStep_inv (cl : Cluster) (plan : Plan) (view : Tid → TaskView) (n : Nat)
    (sched : List (Tid × Mid)) (T : Mid → Prop) (st : LoopSt) (t : Tid)
    (h : FFInv sched (Ready cl plan view) T st) :
    FFInv sched (Ready cl plan view) T (firstFreeStep cl plan view n st t) := by
  unfold firstFreeStep
  split
  · exact h
  split
  · exact h
  split
  · split
    · split
      · exact h
      · rename_i m rest htemp
        split
        · rename_i hpred
          have hstat : (view t).status = .unscheduled := by assumption
          have hmem : ∀ x ∈ m :: rest, T x := fun x hx => h.1 x (htemp ▸ hx)
          constructor
          · intro x hx
            exact hmem x (List.mem_cons_of_mem _ hx)
          · intro p hp
            rcases mem_dictSet hp with hp | hp
            · right
              subst hp
              refine ⟨ready_of_test hstat ?_, hmem m (by simp)⟩
              simpa using hpred
            · exact h.2 p hp
        · exact h
    · exact h
  · exact h

theorem ffInv_init (sched : List (Tid × Mid)) (R : Tid → Prop) (T : Mid → Prop) (temp : List Mid)
    (status : WStatus) (hT : ∀ m ∈ temp, T m) :
    FFInv sched R T { alloc := sched, temp := temp, removed := [], added := [], status := status } :=
  ⟨hT, fun _ hp => Or.inl hp⟩

theorem firstFree_fold_inv (cl : Cluster) (plan : Plan) (view : Tid → TaskView) (n : Nat)
    (sched : List (Tid × Mid)) (T : Mid → Prop) (l : List Tid) (st : LoopSt)
    (h : FFInv sched (Ready cl plan view) T st) :
    FFInv sched (Ready cl plan view) T (l.foldl (firstFreeStep cl plan view n) st) :=
  foldl_inv _ _ (fun s a hs => firstFreeStep_inv cl plan view n sched T s a hs) l st h

end Alg

/-! ### provisioning does not touch the finished-task map -/

theorem addIdleResource_finished (c : Cluster) (o : Oid) (m : Mid) :
    (c.addIdleResource o m).1.finished = c.finished := by
  unfold Cluster.addIdleResource
  by_cases h1 : dictHas c.idle o = true
  · by_cases h2 : m ∈ c.available <;> simp [h1, h2]
  · by_cases h2 : m ∈ c.available <;> simp [h1, h2]

theorem addIdleAll_finished (o : Oid) (ms : List Mid) :
    ∀ c : Cluster, (c.addIdleAll o ms).1.finished = c.finished := by
  induction ms with
  | nil => intro c; rfl
  | cons m rest ih =>
    intro c
    unfold Cluster.addIdleAll
    have h1 := addIdleResource_finished c o m
    split
    · rename_i c1 e heq; rw [heq] at h1; exact h1
    · rename_i c1 heq; rw [heq] at h1; rw [ih c1]; exact h1

theorem provisionBatch_finished (c : Cluster) (n : Nat) (o : Oid) :
    (c.provisionBatch n o).1.finished = c.finished := by
  unfold Cluster.provisionBatch
  simp only
  generalize (if n > c.available.length ∧ c.available.length > 0 then c.available.length else n) = sz
  by_cases hgt : sz > c.available.length
  · simp [hgt]
  · simp only [hgt, if_false]
    have h1 := addIdleAll_finished o (c.available.take sz) c
    split
    · rename_i c1 e heq; rw [heq] at h1; exact h1
    · rename_i c1 heq; rw [heq] at h1; exact h1

theorem provisionResources_finished (cl cl1 : Cluster) (parts minPer : Nat)
    (split : Option (List (Oid × Nat × Nat))) (o : Oid) (b : Bool)
    (h : Alg.provisionResources cl parts minPer split o = .ok (cl1, b)) :
    cl1.finished = cl.finished := by
  unfold Alg.provisionResources at h
  split at h
  · injection h with h; injection h with h1 h2; rw [← h1]
  split at h
  · split at h
    · cases h
    · split at h
      · injection h with h; injection h with h1 h2; rw [← h1]
      · split at h
        · cases h
        · rename_i c1 heq
          injection h with h; injection h with h1 h2
          rw [← h1]
          have := provisionBatch_finished cl ‹Nat› o
          rw [heq] at this; exact this
  · injection h with h; injection h with h1 h2; rw [← h1]

theorem isTaskFinished_congr (c1 c : Cluster) (h : c1.finished = c.finished) (t : Tid) :
    c1.isTaskFinished t = c.isTaskFinished t := by
  unfold Cluster.isTaskFinished; rw [h]

/-! ### QueueProcessing / BatchProcessing -/

theorem queue_ready (cl : Cluster) (plan : Plan) (view : Tid → TaskView)
    (sched : List (Tid × Mid)) (pool : List Tid) (out : AlgOut)
    (h : Alg.queueRun cl plan view sched pool = .ok out) :
    ∀ p ∈ out.schedule, p ∉ sched →
      (view p.1).status = .unscheduled ∧ ∀ q ∈ plan.preds p.1, cl.isTaskFinished q = true := by
  intro p hp hns
  unfold Alg.queueRun at h
  injection h with h
  subst h
  have := Alg.firstFree_fold_inv cl plan view cl.available.length sched (fun _ => True)
    (plan.tasks.filter (fun t => (Alg.seedPool plan pool).contains t)) _
    (Alg.ffInv_init sched (Alg.Ready cl plan view) (fun _ => True) cl.available plan.status
      (fun _ _ => trivial))
  rcases this.2 p hp with h | h
  · exact absurd h hns
  · exact h.1

theorem batch_core (cl : Cluster) (plan : Plan) (view : Tid → TaskView)
    (parts minPer : Nat) (split : Option (List (Oid × Nat × Nat)))
    (sched : List (Tid × Mid)) (pool : List Tid) (out : AlgOut)
    (h : Alg.batchRun cl plan view parts minPer split sched pool = .ok out) :
    ∃ cl1 b, Alg.provisionResources cl parts minPer split plan.obs = .ok (cl1, b) ∧
      ∀ p ∈ out.schedule, p ∉ sched →
        b = true ∧ Alg.Ready cl1 plan view p.1 ∧ p.2 ∈ cl1.idleOf (some plan.obs) := by
  unfold Alg.batchRun at h
  split at h
  · cases h
  · rename_i cl1 b heq
    refine ⟨cl1, b, heq, ?_⟩
    injection h with h
    subst h
    intro p hp hns
    cases b with
    | false => exact absurd hp hns
    | true =>
      have := Alg.firstFree_fold_inv cl1 plan view (cl1.idleOf (some plan.obs)).length sched
        (fun m => m ∈ cl1.idleOf (some plan.obs))
        (plan.tasks.filter (fun t => (Alg.seedPool plan pool).contains t)) _
        (Alg.ffInv_init sched (Alg.Ready cl1 plan view) _ (cl1.idleOf (some plan.obs)) plan.status
          (fun _ hm => hm))
      rcases this.2 p hp with h | h
      · exact absurd h hns
      · exact ⟨rfl, h.1, h.2⟩

theorem batch_ready (cl : Cluster) (plan : Plan) (view : Tid → TaskView)
    (parts minPer : Nat) (split : Option (List (Oid × Nat × Nat)))
    (sched : List (Tid × Mid)) (pool : List Tid) (out : AlgOut)
    (h : Alg.batchRun cl plan view parts minPer split sched pool = .ok out) :
    ∀ p ∈ out.schedule, p ∉ sched →
      (view p.1).status = .unscheduled ∧ ∀ q ∈ plan.preds p.1, cl.isTaskFinished q = true := by
  obtain ⟨cl1, b, hprov, hall⟩ := batch_core cl plan view parts minPer split sched pool out h
  intro p hp hns
  obtain ⟨_, hr, _⟩ := hall p hp hns
  refine ⟨hr.1, fun q hq => ?_⟩
  rw [← isTaskFinished_congr cl1 cl (provisionResources_finished cl cl1 parts minPer split plan.obs b hprov)]
  exact hr.2 q hq

theorem batch_only_reserved (cl : Cluster) (plan : Plan) (view : Tid → TaskView)
    (parts minPer : Nat) (split : Option (List (Oid × Nat × Nat)))
    (sched : List (Tid × Mid)) (pool : List Tid) (out : AlgOut)
    (h : Alg.batchRun cl plan view parts minPer split sched pool = .ok out) :
    ∀ p ∈ out.schedule, p ∉ sched →
      ∃ cl1, Alg.provisionResources cl parts minPer split plan.obs = .ok (cl1, true) ∧
             p.2 ∈ cl1.idleOf (some plan.obs) := by
  obtain ⟨cl1, b, hprov, hall⟩ := batch_core cl plan view parts minPer split sched pool out h
  intro p hp hns
  obtain ⟨hb, _, hm⟩ := hall p hp hns
  subst hb
  exact ⟨cl1, hprov, hm⟩

namespace Alg
/-- loop invariant of the plan-following loop -/
def DynInv (cl : Cluster) (plan : Plan) (view : Tid → TaskView) (sched : List (Tid × Mid)) :
    Except Err LoopSt → Prop
  | .error _ => True
  | .ok st => (∀ m ∈ st.temp, m ∈ cl.available) ∧
      ∀ p ∈ st.alloc, p ∈ sched ∨
        (Ready cl plan view p.1 ∧ (view p.1).machine = .ok p.2 ∧ p.2 ∈ cl.available)

theorem dynInv_assign (cl : Cluster) (plan : Plan) (view : Tid → TaskView) (sched : List (Tid × Mid))
    (st st' : LoopSt) (t : Tid) (m : Mid) (h : DynInv cl plan view sched (.ok st))
    (hr : Ready cl plan view t) (hm : (view t).machine = .ok m) (hmt : m ∈ st.temp)
    (ha : st'.alloc = dictSet st.alloc t m) (ht : st'.temp = st.temp.erase m) :
    DynInv cl plan view sched (.ok st') := by
  constructor
  · intro x hx
    rw [ht] at hx
    exact h.1 x (List.mem_of_mem_erase hx)
  · intro p hp
    rw [ha] at hp
    rcases mem_dictSet hp with hp | hp
    · subst hp; exact Or.inr ⟨hr, hm, h.1 m hmt⟩
    · exact h.2 p hp

theorem dynamicStep_inv (cl : Cluster) (plan : Plan) (view : Tid → TaskView) (n : Nat)
    (sched : List (Tid × Mid)) (acc : Except Err LoopSt) (t : Tid)
    (h : DynInv cl plan view sched acc) :
    DynInv cl plan view sched (dynamicStep cl plan view n acc t) := by
  cases acc with
  | error e => exact trivial
  | ok st =>
    unfold dynamicStep
    dsimp -zeta only
    split
    · exact h
    split
    · exact h
    split
    · rename_i hcond
      extract_lets status1 st1
      have h1 : DynInv cl plan view sched (.ok st1) := h
      split
      · exact trivial
      · rename_i m hm
        split
        · exact h1
        · rename_i hcont
          have hmt : m ∈ st1.temp := by simpa using hcont
          split
          · rename_i hemp
            exact dynInv_assign cl plan view sched st1 _ t m h1
              (ready_of_test hcond.1 (Or.inl hemp)) hm hmt rfl rfl
          · split
            · rename_i hfin
              exact dynInv_assign cl plan view sched st1 _ t m h1
                (ready_of_test hcond.1 (Or.inr hfin)) hm hmt rfl rfl
            · exact h1
    · exact h

theorem dynamic_fold_inv (cl : Cluster) (plan : Plan) (view : Tid → TaskView) (n : Nat)
    (sched : List (Tid × Mid)) (l : List Tid) (acc : Except Err LoopSt)
    (h : DynInv cl plan view sched acc) :
    DynInv cl plan view sched (l.foldl (dynamicStep cl plan view n) acc) :=
  foldl_inv _ _ (fun s a hs => dynamicStep_inv cl plan view n sched s a hs) l acc h

end Alg

theorem dynamic_core (cl : Cluster) (plan : Plan) (view : Tid → TaskView)
    (sched : List (Tid × Mid)) (pool : List Tid) (out : AlgOut)
    (h : Alg.dynamicRun cl plan view sched pool = .ok out) :
    ∀ p ∈ out.schedule, p ∉ sched →
      Alg.Ready cl plan view p.1 ∧ (view p.1).machine = .ok p.2 ∧ p.2 ∈ cl.available := by
  intro p hp hns
  unfold Alg.dynamicRun at h
  extract_lets pool1 temp order at h
  have hinv := Alg.dynamic_fold_inv cl plan view temp.length sched order
    (.ok { alloc := sched, temp := temp, removed := [], added := [], status := plan.status })
    ⟨fun _ hm => hm, fun _ hp => Or.inl hp⟩
  split at h
  · cases h
  · rename_i st heq
    rw [heq] at hinv
    injection h with h
    subst h
    rcases hinv.2 p hp with h | h
    · exact absurd h hns
    · exact h

theorem dynamic_ready (cl : Cluster) (plan : Plan) (view : Tid → TaskView)
    (sched : List (Tid × Mid)) (pool : List Tid) (out : AlgOut)
    (h : Alg.dynamicRun cl plan view sched pool = .ok out) :
    ∀ p ∈ out.schedule, p ∉ sched →
      (view p.1).status = .unscheduled ∧ ∀ q ∈ plan.preds p.1, cl.isTaskFinished q = true :=
  fun p hp hns => (dynamic_core cl plan view sched pool out h p hp hns).1

theorem dynamic_planned_machine (cl : Cluster) (plan : Plan) (view : Tid → TaskView)
    (sched : List (Tid × Mid)) (pool : List Tid) (out : AlgOut)
    (h : Alg.dynamicRun cl plan view sched pool = .ok out) :
    ∀ p ∈ out.schedule, p ∉ sched → (view p.1).machine = .ok p.2 :=
  fun p hp hns => (dynamic_core cl plan view sched pool out h p hp hns).2.1

theorem dynamic_machine_available (cl : Cluster) (plan : Plan) (view : Tid → TaskView)
    (sched : List (Tid × Mid)) (pool : List Tid) (out : AlgOut)
    (h : Alg.dynamicRun cl plan view sched pool = .ok out) :
    ∀ p ∈ out.schedule, p ∉ sched → p.2 ∈ cl.available :=
  fun p hp hns => (dynamic_core cl plan view sched pool out h p hp hns).2.2

/-! ### GreedySchedulingFromPlan -/

namespace Alg

def GReady (cl : Cluster) (view : Tid → TaskView) (t : Tid) : Prop :=
  (view t).status = .unscheduled ∧ ∀ q ∈ (view t).predIds, dictHas cl.finished q = true

def GInv (cl : Cluster) (view : Tid → TaskView) (sched : List (Tid × Mid)) :
    Except Err LoopSt → Prop
  | .error _ => True
  | .ok st => ∀ p ∈ st.alloc, p ∈ sched ∨ GReady cl view p.1

theorem attemptAllocation_alloc (cl : Cluster) (m : Mid) (t : Tid) (st : LoopSt) :
    ∀ p ∈ (attemptAllocation cl m t st).alloc, p.1 = t ∨ p ∈ st.alloc := by
  intro p hp
  unfold attemptAllocation at hp
  split at hp
  · split at hp
    · exact Or.inr hp
    · rcases mem_dictSet hp with hp | hp
      · subst hp; exact Or.inl rfl
      · exact Or.inr hp
  · rcases mem_dictSet hp with hp | hp
    · subst hp; exact Or.inl rfl
    · exact Or.inr hp

theorem greedyStep_inv (cl : Cluster) (plan : Plan) (view : Tid → TaskView)
    (hview : ∀ t, (view t).hasPred = false → (view t).predIds = [])
    (sched : List (Tid × Mid)) (acc : Except Err LoopSt) (t : Tid)
    (h : GInv cl view sched acc) :
    GInv cl view sched (greedyStep cl plan view acc t) := by
  cases acc with
  | error e => exact trivial
  | ok st =>
    unfold greedyStep
    dsimp -zeta only
    split
    · rename_i hstat
      extract_lets status1 st1
      have h1 : GInv cl view sched (.ok st1) := h
      split
      · rename_i hnp
        have hp0 : (view t).predIds = [] := hview t (by simpa using hnp)
        split
        · exact trivial
        · intro p hp
          rcases attemptAllocation_alloc cl _ t _ p hp with hp | hp
          · right; rw [hp]; exact ⟨hstat, by rw [hp0]; simp⟩
          · exact h1 p hp
      · split
        · exact trivial
        · split
          · rename_i hall
            intro p hp
            rcases attemptAllocation_alloc cl _ t _ p hp with hp | hp
            · right; rw [hp]; exact ⟨hstat, fun q hq => List.all_eq_true.mp hall q hq⟩
            · exact h1 p hp
          · exact h1
    · exact h

end Alg

theorem greedy_ready (cl : Cluster) (plan : Plan) (view : Tid → TaskView)
    (hview : ∀ t, (view t).hasPred = false → (view t).predIds = [])
    (sched : List (Tid × Mid)) (pool : List Tid) (out : AlgOut)
    (h : Alg.greedyRun cl plan view sched pool = .ok out) :
    ∀ p ∈ out.schedule, p ∉ sched →
      (view p.1).status = .unscheduled ∧ ∀ q ∈ (view p.1).predIds, dictHas cl.finished q = true := by
  intro p hp hns
  unfold Alg.greedyRun at h
  have hinv := foldl_inv _ (Alg.GInv cl view sched)
    (fun s a hs => Alg.greedyStep_inv cl plan view hview sched s a hs) plan.tasks
    (.ok { alloc := sched, temp := cl.available, removed := [], added := [], status := plan.status })
    (fun _ hp => Or.inl hp)
  split at h
  · cases h
  · rename_i st heq
    rw [heq] at hinv
    injection h with h
    subst h
    rcases hinv p hp with h | h
    · exact absurd h hns
    · exact h

/-! ### cross-machine predecessors and the start-time formula -/

theorem crossPreds_iff (pairs : List (Tid × Mid)) (preds : List Tid) (m : Mid) (p : Tid) :
    p ∈ Sys.crossPreds pairs preds m ↔ p ∈ preds ∧ dictGet pairs p ≠ some m := by
  simp [Sys.crossPreds, List.mem_filter]

theorem waitForTransfer_shift (now : Time) (bw : Nat) (preds : List (Time × Nat)) :
    ∀ mx : Time,
      now + preds.foldl (fun mx (p : Time × Nat) =>
          let arrive := p.1 + (p.2 : Rat) / (bw : Rat) - now
          if arrive > mx then arrive else mx) mx
        = preds.foldl (fun acc p => max acc (p.1 + (p.2 : Rat) / (bw : Rat))) (now + mx) := by
  induction preds with
  | nil => intro mx; rfl
  | cons p r ih =>
    intro mx
    simp only [List.foldl_cons]
    rw [ih]
    congr 1
    grind

theorem startTime_eq_max (alloc : Time) (bw : Nat) (preds : List (Time × Nat)) :
    startTime alloc bw preds =
      preds.foldl (fun acc p => max acc (p.1 + (p.2 : Rat) / (bw : Rat))) alloc := by
  unfold startTime
  split
  · rename_i h
    rw [List.isEmpty_iff] at h
    subst h
    rfl
  · unfold waitForTransfer
    rw [waitForTransfer_shift]
    congr 1
    grind

theorem foldl_max_ge (f : Time × Nat → Rat) (l : List (Time × Nat)) :
    ∀ acc : Rat, acc ≤ l.foldl (fun acc p => max acc (f p)) acc ∧
      ∀ p ∈ l, f p ≤ l.foldl (fun acc p => max acc (f p)) acc := by
  induction l with
  | nil => intro acc; simp
  | cons x r ih =>
    intro acc
    simp only [List.foldl_cons]
    obtain ⟨h1, h2⟩ := ih (max acc (f x))
    refine ⟨by grind, ?_⟩
    intro p hp
    rcases List.mem_cons.mp hp with hp | hp
    · subst hp; grind
    · exact h2 p hp

theorem startTime_ge (alloc : Time) (bw : Nat) (preds : List (Time × Nat)) :
    alloc ≤ startTime alloc bw preds ∧
    ∀ p ∈ preds, p.1 + (p.2 : Rat) / (bw : Rat) ≤ startTime alloc bw preds := by
  rw [startTime_eq_max]
  exact foldl_max_ge (fun p => p.1 + (p.2 : Rat) / (bw : Rat)) preds alloc

/-! ### batch reservations (C09) -/

theorem provision_bounds (cl cl1 : Cluster) (parts minPer : Nat) (o : Oid)
    (hnot : cl.isProvisioned o = false)
    (h : Alg.provisionResources cl parts minPer none o = .ok (cl1, true)) :
    cl.numProv < (parts : Int) ∧
    ∃ size, minPer ≤ size ∧ size ≤ cl.machines.length / parts ∧ size ≤ cl.available.length ∧
            cl.provisionBatch size o = (cl1, none) := by
  unfold Alg.provisionResources at h
  simp only [hnot, Bool.false_eq_true, if_false] at h
  split at h
  · rename_i hlt
    refine ⟨hlt, ?_⟩
    split at h
    · cases h
    · rename_i size hmax
      split at h
      · cases h
      · rename_i hmin
        split at h
        · cases h
        · rename_i c1 heq
          injection h with h; injection h with h1 h2
          subst h1
          have hb : size ≤ cl.machines.length / parts ∧ size ≤ cl.available.length := by
            unfold Alg.maxResourceProvision at hmax
            simp only at hmax
            generalize cl.machines.length / parts = M at hmax ⊢
            split at hmax
            · cases hmax
            · split at hmax
              · injection hmax with hmax; omega
              · split at hmax
                · injection hmax with hmax; omega
                · injection hmax with hmax; omega
          exact ⟨size, by omega, hb.1, hb.2, heq⟩
  · cases h

theorem provision_bounds_split (cl cl1 : Cluster) (parts minPer : Nat)
    (sp : List (Oid × Nat × Nat)) (o : Oid) (lo hi : Nat) (hsp : dictGet sp o = some (lo, hi))
    (hnot : cl.isProvisioned o = false)
    (h : Alg.provisionResources cl parts minPer (some sp) o = .ok (cl1, true)) :
    cl.numProv < (parts : Int) ∧
    ∃ size, minPer ≤ size ∧ size ≤ hi ∧ size ≤ cl.available.length ∧
            (size = 0 ∨ lo ≤ cl.available.length) ∧ cl.provisionBatch size o = (cl1, none) := by
  unfold Alg.provisionResources at h
  simp only [hnot, Bool.false_eq_true, if_false] at h
  split at h
  · rename_i hlt
    refine ⟨hlt, ?_⟩
    split at h
    · cases h
    · rename_i size hmax
      split at h
      · cases h
      · rename_i hmin
        split at h
        · cases h
        · rename_i c1 heq
          injection h with h; injection h with h1 h2
          subst h1
          have hb : size ≤ hi ∧ size ≤ cl.available.length ∧ (size = 0 ∨ lo ≤ cl.available.length) := by
            unfold Alg.maxResourceProvision at hmax
            simp only [hsp] at hmax
            split at hmax
            · cases hmax
            · split at hmax
              · injection hmax with hmax; omega
              · split at hmax
                · injection hmax with hmax; omega
                · injection hmax with hmax; omega
          exact ⟨size, by omega, hb.1, hb.2.1, hb.2.2, heq⟩
  · cases h

theorem addIdleResource_of_has (c : Cluster) (o : Oid) (m : Mid) (l rest : List Mid)
    (hg : dictGet c.idle o = some l) (hav : c.available = m :: rest) :
    c.addIdleResource o m =
      ({ c with idle := dictSet c.idle o (l ++ [m]), available := rest }, none) := by
  have hh : dictHas c.idle o = true := by simp [dictHas, hg]
  unfold Cluster.addIdleResource
  simp [hh, hg, hav]

theorem addIdleAll_of_has (o : Oid) (ms : List Mid) :
    ∀ (c : Cluster) (l rest : List Mid), dictGet c.idle o = some l → c.available = ms ++ rest →
      ∃ c1, c.addIdleAll o ms = (c1, none) ∧ dictGet c1.idle o = some (l ++ ms) ∧
        c1.available = rest ∧ c1.numProv = c.numProv := by
  induction ms with
  | nil =>
    intro c l rest hg hav
    exact ⟨c, rfl, by simpa using hg, by simpa using hav, rfl⟩
  | cons m ms' ih =>
    intro c l rest hg hav
    unfold Cluster.addIdleAll
    rw [addIdleResource_of_has c o m l (ms' ++ rest) hg (by simpa using hav)]
    simp only
    obtain ⟨c1, h1, h2, h3, h4⟩ := ih
      { c with idle := dictSet c.idle o (l ++ [m]), available := ms' ++ rest } (l ++ [m]) rest
      (dictGet_dictSet_self _ _ _) rfl
    exact ⟨c1, h1, by simpa using h2, h3, h4⟩

theorem addIdleResource_fresh (c : Cluster) (o : Oid) (m : Mid) (h : dictHas c.idle o = false) :
    c.addIdleResource o m =
      ({ c with idle := c.idle ++ [(o, [])] } : Cluster).addIdleResource o m := by
  have hn : dictGet c.idle o = none := by simpa [dictHas] using h
  have h0 : dictHas (c.idle ++ [(o, ([] : List Mid))]) o = true := by
    simp [dictHas, dictGet_append_fresh _ _ _ hn]
  unfold Cluster.addIdleResource
  simp [h, h0]

theorem addIdleAll_fresh (o : Oid) (c : Cluster) (m : Mid) (ms rest : List Mid)
    (hk : dictHas c.idle o = false) (hav : c.available = (m :: ms) ++ rest) :
    ∃ c1, c.addIdleAll o (m :: ms) = (c1, none) ∧ dictGet c1.idle o = some (m :: ms) ∧
      c1.available = rest ∧ c1.numProv = c.numProv := by
  have hn : dictGet c.idle o = none := by simpa [dictHas] using hk
  have e : c.addIdleAll o (m :: ms) =
      ({ c with idle := c.idle ++ [(o, [])] } : Cluster).addIdleAll o (m :: ms) := by
    simp only [Cluster.addIdleAll, addIdleResource_fresh c o m hk]
  rw [e]
  obtain ⟨c1, h1, h2, h3, h4⟩ := addIdleAll_of_has o (m :: ms)
    { c with idle := c.idle ++ [(o, [])] } [] rest (dictGet_append_fresh _ _ _ hn) hav
  exact ⟨c1, h1, by simpa using h2, h3, h4⟩

theorem provisionBatch_takes (c c' : Cluster) (size : Nat) (o : Oid)
    (hk : dictHas c.idle o = false) (_hnd : c.available.Nodup)
    (hs : 1 ≤ size) (hsz : size ≤ c.available.length)
    (h : c.provisionBatch size o = (c', none)) :
    c'.idleOf (some o) = c.available.take size ∧ c'.available = c.available.drop size ∧
    c'.numProv = c.numProv + 1 := by
  unfold Cluster.provisionBatch at h
  have h1 : ¬ (size > c.available.length ∧ c.available.length > 0) := by omega
  have h2 : ¬ size > c.available.length := by omega
  simp only at h
  rw [if_neg h1, if_neg h2] at h
  have hne : c.available.take size ≠ [] := by
    intro e
    have := congrArg List.length e
    rw [List.length_take, List.length_nil] at this
    omega
  obtain ⟨m, ms, htk⟩ := List.exists_cons_of_ne_nil hne
  obtain ⟨c1, hall, hg, hav, hnp⟩ := addIdleAll_fresh o c m ms (c.available.drop size) hk
    (by rw [← htk]; exact (List.take_append_drop size c.available).symm)
  rw [htk, hall] at h
  simp only at h
  injection h with h _
  subst h
  refine ⟨?_, hav, by simp [hnp]⟩
  simp [Cluster.idleOf, hg, htk]

theorem releaseBatch_returns (c : Cluster) (o : Oid) (l : List Mid) (h : dictGet c.idle o = some l)
    (hl : l ≠ []) (hk : (dictKeys c.idle).Nodup) :
    (c.releaseBatch o).available = c.available ++ l ∧
    dictHas (c.releaseBatch o).idle o = false ∧ (c.releaseBatch o).numProv = c.numProv - 1 := by
  unfold Cluster.releaseBatch
  simp [h, hl, dictHas, dictGet_dictErase_self _ _ hk]

theorem batch_release_at_end (cl : Cluster) (plan : Plan) (view : Tid → TaskView)
    (parts minPer : Nat) (split : Option (List (Oid × Nat × Nat)))
    (sched : List (Tid × Mid)) (pool : List Tid) (out : AlgOut) (hempty : plan.tasks = [])
    (h : Alg.batchRun cl plan view parts minPer split sched pool = .ok out) :
    ∃ cl1 b, Alg.provisionResources cl parts minPer split plan.obs = .ok (cl1, b) ∧
      out.cl = cl1.releaseBatch plan.obs ∧ out.status = .finished := by
  unfold Alg.batchRun at h
  split at h
  · cases h
  · rename_i cl1 b heq
    injection h with h
    subst h
    exact ⟨cl1, b, heq, by simp [hempty], by simp [Alg.finishStatus, hempty]⟩

/-! ### order independence (C10) -/

/-- two results agree on everything observable (the pool only as a set) -/
def AlgEquiv (a b : Except Err AlgOut) : Prop :=
  match a, b with
  | .ok x, .ok y => x.schedule = y.schedule ∧ x.status = y.status ∧ x.cl = y.cl ∧
                    (∀ t, t ∈ x.pool ↔ t ∈ y.pool)
  | .error e, .error e' => e = e'
  | _, _ => False

namespace Alg

theorem seedPool_mem (plan : Plan) (p1 p2 : List Tid) (h : ∀ t, t ∈ p1 ↔ t ∈ p2) :
    ∀ t, t ∈ seedPool plan p1 ↔ t ∈ seedPool plan p2 := by
  intro t
  unfold seedPool
  cases p1 with
  | nil =>
    cases p2 with
    | nil => simp
    | cons b r => exact absurd ((h b).mpr (by simp)) (by simp)
  | cons a r =>
    cases p2 with
    | nil => exact absurd ((h a).mp (by simp)) (by simp)
    | cons b r' => simpa using h t

theorem filter_contains_congr (l p1 p2 : List Tid) (h : ∀ t, t ∈ p1 ↔ t ∈ p2) :
    l.filter (fun t => p1.contains t) = l.filter (fun t => p2.contains t) := by
  apply List.filter_congr
  intro t _
  by_cases ht : t ∈ p1
  · have ht2 := (h t).mp ht
    simp [ht, ht2]
  · have ht2 : t ∉ p2 := fun h' => ht ((h t).mpr h')
    simp [ht, ht2]

theorem mem_updatePool (pool removed added : List Tid) (t : Tid) :
    t ∈ updatePool pool removed added ↔ (t ∈ pool ∧ t ∉ removed) ∨ t ∈ added := by
  unfold updatePool
  simp only [List.mem_append, List.mem_eraseDups, List.mem_filter, List.contains_eq_mem,
    Bool.not_eq_eq_eq_not, Bool.not_true, decide_eq_false_iff_not]
  by_cases h1 : t ∈ pool <;> by_cases h2 : t ∈ removed <;> by_cases h3 : t ∈ added <;> simp [h1, h2, h3]

theorem updatePool_congr (p1 p2 removed added : List Tid) (h : ∀ t, t ∈ p1 ↔ t ∈ p2) :
    ∀ t, t ∈ updatePool p1 removed added ↔ t ∈ updatePool p2 removed added := by
  intro t
  rw [mem_updatePool, mem_updatePool, h t]

end Alg

theorem queue_order_independent (cl : Cluster) (plan : Plan) (view : Tid → TaskView)
    (sched : List (Tid × Mid)) (pool₁ pool₂ : List Tid) (h : ∀ t, t ∈ pool₁ ↔ t ∈ pool₂) :
    AlgEquiv (Alg.queueRun cl plan view sched pool₁) (Alg.queueRun cl plan view sched pool₂) := by
  have hs := Alg.seedPool_mem plan pool₁ pool₂ h
  have hf := Alg.filter_contains_congr plan.tasks _ _ hs
  unfold Alg.queueRun
  simp only [AlgEquiv]
  rw [hf]
  refine ⟨?_, ?_, ?_, ?_⟩ <;> first | trivial | rfl | exact Alg.updatePool_congr _ _ _ _ hs

theorem batch_order_independent (cl : Cluster) (plan : Plan) (view : Tid → TaskView)
    (parts minPer : Nat) (split : Option (List (Oid × Nat × Nat)))
    (sched : List (Tid × Mid)) (pool₁ pool₂ : List Tid) (h : ∀ t, t ∈ pool₁ ↔ t ∈ pool₂) :
    AlgEquiv (Alg.batchRun cl plan view parts minPer split sched pool₁)
             (Alg.batchRun cl plan view parts minPer split sched pool₂) := by
  have hs := Alg.seedPool_mem plan pool₁ pool₂ h
  have hf := Alg.filter_contains_congr plan.tasks _ _ hs
  unfold Alg.batchRun
  cases hp : Alg.provisionResources cl parts minPer split plan.obs with
  | error e => simp only [AlgEquiv]
  | ok r =>
    obtain ⟨cl1, b⟩ := r
    simp only [AlgEquiv]
    rw [hf]
    refine ⟨?_, ?_, ?_, ?_⟩ <;> first | trivial | rfl | exact Alg.updatePool_congr _ _ _ _ hs

theorem dynamic_order_independent (cl : Cluster) (plan : Plan) (view : Tid → TaskView)
    (sched : List (Tid × Mid)) (pool₁ pool₂ : List Tid) (h : ∀ t, t ∈ pool₁ ↔ t ∈ pool₂) :
    AlgEquiv (Alg.dynamicRun cl plan view sched pool₁) (Alg.dynamicRun cl plan view sched pool₂) := by
  have hs := Alg.seedPool_mem plan pool₁ pool₂ h
  have hf := Alg.filter_contains_congr plan.tasks _ _ hs
  unfold Alg.dynamicRun
  simp only
  rw [hf]
  generalize List.foldl (Alg.dynamicStep cl plan view cl.available.length) _ _ = r
  cases r with
  | error e => simp only [AlgEquiv]
  | ok st =>
    simp only [AlgEquiv]
    refine ⟨?_, ?_, ?_, ?_⟩ <;> first | trivial | rfl | exact Alg.updatePool_congr _ _ _ _ hs

theorem greedy_ignores_pool (cl : Cluster) (plan : Plan) (view : Tid → TaskView)
    (sched : List (Tid × Mid)) (pool₁ pool₂ : List Tid) :
    (Alg.greedyRun cl plan view sched pool₁).map (fun o => (o.schedule, o.status)) =
    (Alg.greedyRun cl plan view sched pool₂).map (fun o => (o.schedule, o.status)) := by
  unfold Alg.greedyRun
  generalize List.foldl (Alg.greedyStep cl plan view) _ _ = r
  cases r <;> rfl

/-! ### `_process_current_schedule` (C17) -/

theorem find_map_upd (tasks : List TaskRec) (t : Tid) (f : TaskRec → TaskRec)
    (hf : ∀ r, (f r).id = r.id) :
    (tasks.map (fun r => if r.id = t then f r else r)).find? (·.id = t)
      = (tasks.find? (·.id = t)).map f := by
  induction tasks with
  | nil => rfl
  | cons a r ih => by_cases h : a.id = t <;> simp [h, hf, ih]

theorem processOne_no_update (_s : Sys) (now : Time) (oid : Oid) (st : Sys.PcsSt) (t : Tid) (m : Mid)
    (r : TaskRec) (hs : dictGet st.schedule t = some m) (hr : st.s.task? t = some r)
    (hplanned : r.planned = some m) (hobj : r.allocObj = false) (herr : st.err = none) :
    ((Sys.processOne now oid st t).s.task? t).map (fun r' => (r'.planned, r'.allocObj, r'.duration))
      = some (some m, false, r.duration) ∨ (Sys.processOne now oid st t).err.isSome := by
  unfold Sys.processOne
  split
  · rename_i e he; rw [herr] at he; cases he
  · split
    · rename_i m' r' hm' hr'
      rw [hs] at hm'; rw [hr] at hr'
      injection hm' with hm'; injection hr' with hr'
      subst hm' hr'
      split
      · right; rfl
      · rename_i mm hmm
        extract_lets needUpd s1 pairs1 missing cross
        have hnu : needUpd = false := by simp [needUpd, hobj, hplanned]
        have hs1 : s1 = st.s := by simp [s1, hnu]
        clear_value s1 pairs1 missing cross
        subst hs1
        simp only [hnu, Bool.false_eq_true, false_and, if_false]
        split
        · left; simp [hr, hplanned, hobj]
        · split
          · right; rfl
          · split
            · right; rfl
            · left
              have key := find_map_upd st.s.tasks t
                (fun r => { r with status := TStatus.scheduled }) (fun _ => rfl)
              have hr' : st.s.tasks.find? (·.id = t) = some r := hr
              rw [hr'] at key
              simp only [Sys.spawn, Sys.updTask, Sys.task?]
              rw [key]
              simp [hplanned, hobj]
    · rename_i hno
      exact absurd hr (hno m r hs)

end Topsim
