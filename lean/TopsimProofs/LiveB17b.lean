/-
  LiveB17b — BatchProcessing: the declarations of Live17b that depend on the configuration hypotheses,
  for `LiveCfgB` / `NcCfgB` (`s0.alg = .batch …`).  Generated from Live17b.lean by renaming (suffix `_B`);
  the algorithm-dependent ones are rewritten (see the comments).
-/
import TopsimProofs.Live17b
import TopsimProofs.LiveB5
import TopsimProofs.LiveB8
import TopsimProofs.LiveB8b
import TopsimProofs.LiveB8c
import TopsimProofs.LiveB8d
import TopsimProofs.LiveB8e
import TopsimProofs.LiveB8f
import TopsimProofs.LiveB8g
import TopsimProofs.LiveB14
import TopsimProofs.LiveB17
import TopsimProofs.LiveB24

namespace Topsim
open KState Sys
section
variable {env : SimEnv} {s0 : Sys}

theorem nc_block_provIngest_ok_B (N : NcCfgB env s0) (Ord : NcOrderB env s0) (n : Nat)
    (hc : (simAt env s0 n).st.crashed = none) {e : HEntry} {p : Proc}
    (hpk : (simAt env s0 n).peek = some e) (hpp : (simAt env s0 n).st.proc? e.pid = some p)
    (ha : p.alive = true) {o : Oid} {d : Nat} (hk : p.k = .provIngest o d) (orc : Oracle) :
    ∀ err, ((simAt env s0 n).st.block p orc).2.2 ≠ .raised err := by
  rw [block_provIngest orc hk]
  apply Sys.nc_provIngest_nr
  intro hpc
  obtain ⟨U, hU⟩ := (nc_sinv_B N n).ci
  exact Cluster.nc_provisionIngest_ok hU.inv d o (Ord.prov n hc hpk hpp ha hk hpc)
end
section
variable {env : SimEnv} {s0 : Sys}

theorem nc_block_allocTask_ok_B (N : NcCfgB env s0) (Ord : NcOrderB env s0) (n : Nat)
    (hc : (simAt env s0 n).st.crashed = none) {e : HEntry} {p : Proc}
    (hpk : (simAt env s0 n).peek = some e) (hpp : (simAt env s0 n).st.proc? e.pid = some p)
    (ha : p.alive = true) {t : Tid} {m : Mid} {preds : List Tid} {obs : Option Oid} {ing : Bool} {ret : Nat}
    (hk : p.k = .allocTask t m preds obs ing ret) (orc : Oracle) :
    ∀ err, ((simAt env s0 n).st.block p orc).2.2 ≠ .raised err := by
  rw [block_allocTask orc hk]
  obtain ⟨U, hU⟩ := (nc_sinv_B N n).ci
  have hp := nc_mem hpp
  by_cases hr : t ∈ (simAt env s0 n).st.cl.running
  · -- polling: the entry of the process is in `runOn`
    have hpc : 1 ≤ p.pc := by
      rcases Nat.eq_zero_or_pos p.pc with h0 | h0
      · exfalso
        cases ing with
        | true =>
          have he := hU.pend p hp ha t m preds obs ret hk h0
          exact (hU.inv.pendFresh _ he).1 hr
        | false =>
          exact (hU.newT p hp ha t m preds obs ret hk h0).1 (hU.inv.usedRun t hr)
      · exact h0
    have he := hU.runOn p hp ha t m preds obs ing ret hk hpc
    exact Sys.nc_allocTask_poll_nr _ _ _ _ _ _ _ _ hr (Cluster.allocEnd_ok hU.inv ⟨t, m, obs, ing⟩ he).1
  · -- the first block
    have hpc : p.pc = 0 := by
      rcases Nat.eq_zero_or_pos p.pc with h0 | h0
      · exact h0
      · exfalso
        have he := hU.runOn p hp ha t m preds obs ing ret hk h0
        apply hr
        rw [← hU.inv.runOnTasks]
        exact List.mem_map_of_mem (f := (·.task)) he
    apply Sys.nc_allocTask_begin_nr _ _ _ _ _ _ _ _ hr
    cases ing with
    | true =>
      have he := hU.pend p hp ha t m preds obs ret hk hpc
      have hmi : m ∈ (simAt env s0 n).st.cl.ingest := by
        have h1 := hU.inv.ingm m
        have h2 : 0 < ((simAt env s0 n).st.cl.pending.map (·.mach)).count m :=
          count_pos_of_mem (List.mem_map_of_mem (f := (·.mach)) he)
        exact List.count_pos_iff.mp (by omega)
      exact Cluster.nc_allocBegin_ing _ _ _ _ hr hmi
    | false =>
      exact Cluster.nc_allocBegin_task_B _ _ _ _ hr (Ord.alloc n hc hpk hpp ha hk hpc)
end
section
variable {env : SimEnv} {s0 : Sys}

/-- a machine of the cluster is a machine of the configuration, with positive speeds -/
theorem nc_machine_B (N : NcCfgB env s0) (n : Nat) (hc : (simAt env s0 n).st.crashed = none) {m : Mid}
    (hm : m ∈ (simAt env s0 n).st.cl.machines) :
    ∃ mm, (simAt env s0 n).st.machine? m = some mm ∧ 0 < mm.cpu ∧ 0 < mm.bw := by
  rw [sim_machines env s0 N.hw _ (simAt_reach env s0 n)] at hm
  obtain ⟨mm0, hmm0, hid⟩ := List.mem_map.mp hm
  have hms : (simAt env s0 n).st.machines = s0.machines := reach_sys_machines (nc_reach_B N n hc)
  have hsome : ((simAt env s0 n).st.machine? m).isSome = true := by
    unfold Sys.machine?
    rw [hms, List.find?_isSome]
    exact ⟨mm0, hmm0, by simp [hid]⟩
  obtain ⟨mm, hmm⟩ := Option.isSome_iff_exists.mp hsome
  have hmem : mm ∈ s0.machines := by
    unfold Sys.machine? at hmm
    rw [hms] at hmm
    exact List.mem_of_find?_eq_some hmm
  exact ⟨mm, hmm, N.feas.2.1 mm hmem⟩

theorem nc_block_doWork_ok_B (N : NcCfgB env s0) (n : Nat) (hc : (simAt env s0 n).st.crashed = none)
    {p : Proc} (hp : p ∈ (simAt env s0 n).st.procs) (ha : p.alive = true) {t : Tid} {m : Mid}
    {preds : List Tid} {ph tot : Nat} (hk : p.k = .doWork t m preds ph tot) (orc : Oracle) :
    ∀ err, ((simAt env s0 n).st.block p orc).2.2 ≠ .raised err := by
  rw [block_doWork orc hk]
  have hs := nc_sinv_B N n
  obtain ⟨U, hU⟩ := hs.ci
  obtain ⟨r, hr⟩ := Sys.dw_hasRec hs hp hk
  obtain ⟨a, ha1, haa, hapc, preds', obs, ing, hak⟩ := hs.dg.dwAlloc p hp ha _ _ _ _ _ hk
  have he := hU.runOn a ha1 haa _ _ _ _ _ _ hak hapc
  obtain ⟨mm, hmm, hcpu, hbw⟩ := nc_machine_B N n hc (Cluster.nc_runOn_machine hU.inv he)
  exact Sys.nc_doWork_nr _ _ _ _ _ _ _ _ hr hmm hcpu hbw
end
end Topsim
