/-
  SpanTraj4 — what the span invariant says about a record that carries a finish
  stamp, about an ingest task, and about a machine that hosts a live body;
  concrete runs (block system and simulator) on `precW0`.
-/
import TopsimProofs.SpanTraj3

namespace Topsim

open KState Sys

theorem finishTime_eq (a : Time) (tot : Nat) : finishTime a tot = a + ((max 1 tot : Nat) : Time) := by
  have h : bodyWait tot + 1 = max 1 tot := occupancy_eq tot
  rw [← h]
  unfold finishTime
  show a + ((bodyWait tot : Nat) : Rat) + 1 = a + ((bodyWait tot + 1 : Nat) : Rat)
  grind

namespace Sys

/-- a record with a finish stamp: the start stamp, the body that ended, its machine, its total -/
theorem spanInv_recorded_span {R} {s : Sys} (h : SpanInv R s) (t : Tid) (r : TaskRec) (f : Time)
    (hr : s.task? t = some r) (hf : r.aft = some f) :
    ∃ a total m mm, r.ast = some a ∧ f = a + ((max 1 total : Nat) : Time) ∧
      (∃ d ∈ s.procs, ∃ cross, d.k = .doWork t m cross 3 total) ∧ s.machine? m = some mm ∧
      ((0 < r.flops ∨ 0 < r.data) →
        0 < mm.cpu ∧ 0 < mm.bw ∧ R t (max (r.flops / mm.cpu) (r.data / mm.bw)) total) ∧
      (r.flops = 0 → r.data = 0 → R t r.duration total) := by
  obtain ⟨d, hd, m, c, tot, hdk⟩ := h.stamped t r f hr hf
  obtain ⟨r', a, g1, g2, g3, mm, g4, g5, g6⟩ := h.done d hd t m c tot hdk
  rw [hr] at g1
  injection g1 with e
  subst e
  rw [hf] at g3
  injection g3 with e
  refine ⟨a, tot, m, mm, g2, by rw [e, finishTime_eq], ⟨d, hd, c, hdk⟩, g4, g5, g6⟩

/-- an ingest task, under oracles that hand an ingest task its nominal duration -/
theorem spanInv_ingest_span {R} {s : Sys} (h : SpanInv R s) (hti : ILTI s)
    (hR : ∀ t d tot, R t d tot → t.isIngest = true → tot = d) (o : Oid) (i : Nat) (r : TaskRec) (f : Time)
    (hr : s.task? (.ingest o i) = some r) (hf : r.aft = some f) :
    ∃ a ob, r.ast = some a ∧ s.obs? o = some ob ∧ 1 ≤ ob.duration ∧ f = a + ((ob.duration : Nat) : Time) := by
  obtain ⟨a, tot, m, mm, g1, g2, _, _, _, g6⟩ := spanInv_recorded_span h _ r f hr hf
  obtain ⟨hrm, hid⟩ := il_task?_mem hr
  obtain ⟨h0, h0', ob, hob, hdur⟩ := hti.taskR r hrm o i hid
  have hpos := hti.durPos ob (il_obs?_mem hob).1
  have ht : tot = r.duration := hR _ _ _ (g6 h0 h0') rfl
  refine ⟨a, ob, g1, hob, hpos, ?_⟩
  rw [g2, ht, hdur]
  have : max 1 ob.duration = ob.duration := by omega
  rw [this]

/-- a machine that hosts a live body: the body is alive, has stamped the start `a`, and is due for
its last block at `a + max 1 total - 1` -/
theorem spanInv_machine_held {R} {s : Sys} (hs : SInv s) (h : SpanInv R s) (mt : Mid × Tid) (hmt : mt ∈ s.active) :
    ∃ d ∈ s.procs, d.alive = true ∧ ∃ cross total r a, d.k = .doWork mt.2 mt.1 cross 2 total ∧
      s.task? mt.2 = some r ∧ r.ast = some a ∧ d.wake + 1 = a + ((max 1 total : Nat) : Time) := by
  obtain ⟨d, hd, hda, c, tot, hdk⟩ := hs.dg.actDw mt hmt
  obtain ⟨r, a, g1, g2, g3, _⟩ := h.run d hd hda mt.2 mt.1 c tot hdk
  refine ⟨d, hd, hda, c, tot, r, a, hdk, g1, g2, ?_⟩
  rw [g3, ← finishTime_eq]
  rfl

/-- a machine that may receive a task hosts no live body (from the system invariant alone) -/
theorem sinv_free_not_active {s : Sys} (hs : SInv s) (m : Mid)
    (hm : m ∈ s.cl.available ∨ m ∈ s.cl.idleAll) : m ∉ s.active.map (·.1) := by
  obtain ⟨U, hU⟩ := hs.ci
  intro hin
  obtain ⟨mt, hmt, rfl⟩ := List.mem_map.mp hin
  obtain ⟨e, he, h1, _⟩ := hs.active_runOn mt hmt
  have hr : mt.1 ∈ s.cl.runOn.map (·.mach) := by rw [← h1]; exact List.mem_map_of_mem he
  have h1 := hU.inv.part mt.1
  have h2 := hU.inv.runOn_count mt.1
  have h3 := List.nodup_iff_count.mp hU.inv.nodupM mt.1
  have h4 := count_pos_of_mem hr
  have h5 : 0 < s.cl.available.count mt.1 + s.cl.idleAll.count mt.1 := by
    rcases hm with hm | hm
    · have := count_pos_of_mem hm; omega
    · have := count_pos_of_mem hm; omega
  omega

/-- a record of the table is the record `task?` finds, when the ids of the table are distinct -/
theorem task?_of_mem_nodup {s : Sys} (hnd : (s.tasks.map (·.id)).Nodup) {r : TaskRec} (hr : r ∈ s.tasks) :
    s.task? r.id = some r := by
  unfold task?
  exact find?_of_mem_nodup (f := (·.id)) hnd hr

/-! ### concrete runs -/

theorem empty_oracle_obeys : ({} : Oracle).Obeys (fun _ d tot => tot = d) := by
  intro t k d
  unfold Oracle.bodyTotal
  simp [dictGet]

/-- a checked schedule with the empty oracle is a run without delay -/
theorem prec_reachD_run {s0 : Sys} (halg : s0.alg ≠ .oracle) (pids : List Nat) (s : Sys)
    (h : ReachD (fun _ d tot => tot = d) s0 s)
    (hen : precEnabledAll pids s = true) : ReachD (fun _ d tot => tot = d) s0 (precRun pids s) := by
  induction pids generalizing s with
  | nil => exact h
  | cons pid r ih =>
    simp only [precEnabledAll, Bool.and_eq_true] at hen
    refine ih _ (ReachD.step s pid {} h (precEnabledB_sound hen.1) ?_ empty_oracle_obeys) hen.2
    intro ho
    exact absurd ((reach_alg h.toOk.toReach).symm.trans ho) halg

theorem precSchedPid_reachD :
    ReachD (fun _ d tot => tot = d) precW0 (precRun precSchedPid precW0.start) :=
  prec_reachD_run (by simp [precW0]) precSchedPid _ ReachD.start precSchedPid_enabled

/-- the block-system run `precSchedPid`: `precA` (2 units of work, no data) ran on machine 0
(cpu 1): start 1, finish 3; the ingest task of the observation (duration 1): start 0, finish 1 -/
theorem precSchedPid_span :
    let s := precRun precSchedPid precW0.start
    (s.task? precA).map (fun r => (r.flops, r.data, r.ast, r.aft)) = some (2, 0, some 1, some 3) ∧
    (s.task? (.ingest 0 0)).map (fun r => (r.flops, r.data, r.duration, r.ast, r.aft)) =
      some (0, 0, 1, some 0, some 1) ∧
    s.machines = [⟨0, 1, 1⟩] := by
  decide +kernel

/-- the simulator on `precW0`, 40 kernel steps, three delay models: none; a script that adds 3 to
every workflow task; a table that maps the nominal duration 2 to 4 -/
theorem precSim40 :
    ((ilSimSteps {} 40 (SimState.start precW0)).st.task? precA).map
      (fun r => (r.flops, r.data, r.ast, r.aft)) = some (2, 0, some 2, some 4) ∧
    ((ilSimSteps {} 40 (SimState.start precW0)).st.task? (.ingest 0 0)).map
      (fun r => (r.ast, r.aft)) = some (some 0, some 1) ∧
    (ilSimSteps {} 30 (SimState.start precW0)).st.active = [(0, precA)] ∧
    (ilSimSteps {} 30 (SimState.start precW0)).st.cl.available = [] := by
  decide +kernel

theorem precSim60 :
    ((ilSimSteps { delayScript := [3] } 60 (SimState.start precW0)).st.task? precA).map
      (fun r => (r.flops, r.data, r.ast, r.aft)) = some (2, 0, some 2, some 7) ∧
    ((ilSimSteps { delayTable := [(2, 4)] } 60 (SimState.start precW0)).st.task? precA).map
      (fun r => (r.flops, r.data, r.ast, r.aft)) = some (2, 0, some 2, some 6) := by
  decide +kernel

end Sys
end Topsim
