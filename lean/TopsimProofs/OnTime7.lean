/-
  OnTime7 — the ingest chain of an observation, part 1: an ended process has run
  a block; an observation that has left WAITING has its provisioning process
  (`OtChain`); the exception flag across one block (`ot_resume_crashed`); the
  body of an ingest task, seen from its allocation process (`ot_body_start`).
-/
import TopsimProofs.OnTime6
import TopsimProofs.SpanTraj5

namespace Topsim

open KState Sys

namespace Sys

/-- a block that leaves the exception flag down did not raise, and the flag was down -/
theorem ot_resume_crashed (s : Sys) (pid : Nat) (orc : Oracle) (p : Proc) (hp : s.proc? pid = some p)
    (ha : p.alive = true) (h : (s.resume pid orc).1.crashed = none) :
    s.crashed = none ∧ ∀ e, (s.block p orc).2.2 ≠ .raised e := by
  have hb := block_crashed s p orc
  unfold resume at h
  simp only [hp, ha, Bool.not_true, Bool.false_eq_true, if_false] at h
  generalize s.block p orc = r at hb h ⊢
  obtain ⟨s1, k, y⟩ := r
  cases y with
  | timeout d => exact ⟨by rw [← hb]; exact h, fun e he => by cases he⟩
  | done => exact ⟨by rw [← hb]; exact h, fun e he => by cases he⟩
  | raised e =>
    exfalso
    simp only at h
    rcases crash_eq (s1.updProc pid (fun q => { q with k := k, pc := q.pc + 1, alive := false })) e with h1 | h1
    · unfold crash at h
      split at h
      · rename_i x hx; rw [hx] at h; cases h
      · simp at h
    · rw [h1] at h; simp at h

theorem provIngestBlock_kind' (s : Sys) (now : Time) (pc : Nat) (oid : Oid) (d : Nat) :
    (s.provIngestBlock now pc oid d).2.1 = .provIngest oid d := by
  unfold provIngestBlock
  split
  · simp only; split <;> rfl
  · rfl

/-- the first block of a supervisor that finds its observation WAITING creates the provisioning
process -/
theorem ot_iter_begun (s : Sys) (now : Time) (oid : Oid) (tl : Int) :
    (∀ ob', (s.allocIngestIter now oid tl).1.obs? oid = some ob' → ob'.status ≠ .waiting →
      ∃ ob, s.obs? oid = some ob ∧ ob.status ≠ .waiting) ∨
    (∃ d, ({ pid := s.nextPid, k := .provIngest oid d, wake := now } : Proc) ∈
      (s.allocIngestIter now oid tl).1.procs) := by
  unfold allocIngestIter
  simp only
  cases hob : s.obs? oid with
  | none => left; intro ob' h; rw [hob] at h; cases h
  | some o =>
    simp only
    by_cases hfin : o.status = .finished
    · simp only [hfin, if_true]
      left
      intro ob' h hnw
      have : s.obs? oid = some ob' := h
      rw [hob] at this; cases this
      exact ⟨o, rfl, hnw⟩
    · simp only [hfin, if_false]
      by_cases hw : o.status = .waiting
      · simp only [hw, if_true]
        right
        exact ⟨o.ingestDemand, by simp [spawn, updObs]⟩
      · simp only [hw, if_false]
        left
        intro ob' h hnw
        have h2 : s.obs? oid = some ob' := by
          split at h
          · exact h
          · exact h
        rw [hob] at h2; cases h2
        exact ⟨o, rfl, hnw⟩

theorem ot_block_begun (s : Sys) (now : Time) (pc : Nat) (oid : Oid) (tl : Int) :
    (∀ ob', (s.allocIngestBlock now pc oid tl).1.obs? oid = some ob' → ob'.status ≠ .waiting →
      ∃ ob, s.obs? oid = some ob ∧ ob.status ≠ .waiting) ∨
    (∃ d, ({ pid := s.nextPid, k := .provIngest oid d, wake := now } : Proc) ∈
      (s.allocIngestBlock now pc oid tl).1.procs) := by
  unfold allocIngestBlock
  split
  · simp only
    rcases ot_iter_begun (s.updObs oid (fun r => { r with ast := some (natNow now) })) now oid
      ((match s.obs? oid with | some o => (o.duration : Int) | none => 0) - 1) with h | h
    · left
      intro ob' hob' hnw
      obtain ⟨ob1, hob1, hnw1⟩ := h ob' hob' hnw
      rw [updObs_obs? s oid (fun r => { r with ast := some (natNow now) }) (fun _ => rfl), if_pos rfl] at hob1
      cases hob : s.obs? oid with
      | none => rw [hob] at hob1; simp at hob1
      | some ob =>
        rw [hob] at hob1
        simp only [Option.map_some, Option.some.injEq] at hob1
        subst hob1
        exact ⟨ob, rfl, hnw1⟩
    · exact Or.inr h
  · exact ot_iter_begun s now oid tl

/-! ### an ended process has run; an observation that has begun has its provisioning process -/

structure OtChain (s : Sys) : Prop where
  deadPc : ∀ q ∈ s.procs, q.alive = false → 1 ≤ q.pc
  begun : ∀ o ob, s.obs? o = some ob → ob.status ≠ .waiting → ∃ q ∈ s.procs, ∃ d, q.k = .provIngest o d

theorem otChain_start (s0 : Sys) (hw : WFConfig s0) : OtChain s0.start := by
  constructor
  · intro r hr hra
    rw [start_procs s0 hw] at hr
    simp only [List.mem_cons, List.not_mem_nil, or_false] at hr
    rcases hr with rfl | rfl | rfl | rfl | rfl <;> simp at hra
  · intro o ob hob hnw
    have hm := (obs_mem_of_obs? hob).1
    rw [start_obs s0] at hm
    exact absurd (hw.obsWaiting ob hm).1 hnw

theorem otChain_step {s : Sys} (hs : SInv s) (hti : ILTI s) (hA : OtAst s) (h : OtChain s) {pid : Nat}
    {p : Proc} (hp : s.proc? pid = some p) (ha : p.alive = true)
    (hmin : ∀ q ∈ s.procs, q.alive = true → p.wake ≤ q.wake)
    (hint : p.k = .telescope → ∃ m : Nat, p.wake = ((m : Nat) : Time)) (orc : Oracle) :
    OtChain (s.resume pid orc).1 := by
  obtain ⟨hpm, hpid⟩ := proc?_some hp
  obtain ⟨new, hm, hnew, hnewp⟩ := ot_step_table hs hp ha hmin orc
  -- a provisioning process stays one
  have hkeepProv : ∀ q ∈ s.procs, ∀ o d, q.k = .provIngest o d →
      ∃ q' ∈ (s.resume pid orc).1.procs, ∃ d', q'.k = .provIngest o d' := by
    intro q hq o d hqk
    by_cases e : q.pid = p.pid
    · have : q = p := hs.pw.eq_of_pid hq hpm e
      subst this
      refine ⟨_, (hm _).mpr (Or.inl rfl), d, ?_⟩
      rw [fin_k, block_provIngest orc hqk]
      exact provIngestBlock_kind' _ _ _ _ _
    · exact ⟨q, (hm q).mpr (Or.inr (Or.inl ⟨hq, e⟩)), d, hqk⟩
  constructor
  · intro q hq hqa
    rcases (hm q).mp hq with rfl | ⟨hq0, _⟩ | hqn
    · simp
    · exact h.deadPc q hq0 hqa
    · rw [(hnewp q hqn).1] at hqa; cases hqa
  · intro o ob' hob' hnw
    -- the record before was not WAITING, or this is the supervisor's first block
    have hold : (∃ ob, s.obs? o = some ob ∧ ob.status ≠ .waiting) →
        ∃ q ∈ (s.resume pid orc).1.procs, ∃ d, q.k = .provIngest o d := by
      rintro ⟨ob, hob, hnw0⟩
      obtain ⟨q, hq, d, hqk⟩ := h.begun o ob hob hnw0
      exact hkeepProv q hq o d hqk
    by_cases hk : p.k = .telescope
    · obtain ⟨m, hwm⟩ := hint hk
      obtain ⟨ob, hob, hor⟩ := ot_tel_rec hs hti hA hp ha hmin hk hwm orc o ob' hob'
      apply hold
      refine ⟨ob, hob, ?_⟩
      rcases hor with ⟨_, s1⟩ | ⟨_, _, _, _, e2⟩
      · rcases s1 with e2 | ⟨hrun, _⟩
        · rw [← e2]; exact hnw
        · rw [hrun]; simp
      · exact absurd e2 hnw
    · obtain ⟨ob, hob, _, _, s1⟩ := step_recs s pid orc p hp ha o ob' hob'
      rcases s1 with e | ⟨e, _⟩ | ⟨tl, hpk, _, _⟩
      · exact hold ⟨ob, hob, by rw [← e]; exact hnw⟩
      · exact absurd e hk
      · -- the supervisor of `o`
        have hobsEq : (s.resume pid orc).1.obs = (s.block p orc).1.obs := (il_resume_fields s pid orc p hp ha).1
        rw [obs?_congr hobsEq, block_allocIngest orc hpk] at hob'
        rcases ot_block_begun s p.wake p.pc o tl with hb | ⟨d, hd⟩
        · exact hold (hb ob' hob' hnw)
        · have hpe := (il_resume_procs_eq s pid orc p hp ha).1
          refine ⟨{ pid := s.nextPid, k := .provIngest o d, wake := p.wake }, ?_, d, rfl⟩
          rw [hpe]
          refine mem_updProc.mpr ⟨{ pid := s.nextPid, k := .provIngest o d, wake := p.wake }, by rw [block_allocIngest orc hpk]; exact hd, ?_⟩
          have := hs.pw.lt p hpm
          rw [if_neg (by simp; omega)]

end Sys

theorem sim_otChain (env : SimEnv) (s0 : Sys) (hw : WFConfig s0) (k : SimState) (h : SimReach env s0 k) :
    OtChain k.st := by
  refine SimReach.sys_induct hw OtChain (otChain_start s0 hw) (fun s hs => ⟨hs.deadPc, hs.begun⟩)
    (fun s hs => ⟨hs.deadPc, hs.begun⟩) ?_ k h
  intro k hr ih pid p hp ha hen
  have hinv := hr.l3inv hw
  obtain ⟨p', hp', _, hmin⟩ := hen
  rw [hp] at hp'; cases hp'
  exact otChain_step hinv.sinv hinv.ti (sim_otAst env s0 hw k hr) ih hp ha hmin
    (fun hk => hinv.heap.telInt p (proc?_some hp).1 hk) _

end Topsim
