/-
  FinishBuf7 — `BufI` under the blocks that move data, and along every run.
-/
import TopsimProofs.FinishBuf6

namespace Topsim
namespace Sys

/-! ### the ingest stream -/

theorem deposit_schedfin (b : Buffer) (o : Oid) (r : Int) :
    (b.deposit o r).1.hot.scheduled = b.hot.scheduled ∧ (b.deposit o r).1.hot.finished = b.hot.finished := by
  unfold Buffer.deposit; split <;> exact ⟨rfl, rfl⟩

theorem ingestStreamIter_buf (s : Sys) (now : Time) (oid : Oid) (tl : Int) :
    (s.ingestStreamIter now oid tl).1.buf.hot.scheduled = s.buf.hot.scheduled ∧
    (s.ingestStreamIter now oid tl).1.buf.hot.finished = s.buf.hot.finished ∧
    ((∀ x, (bufList (s.ingestStreamIter now oid tl).1.buf).count x = (bufList s.buf).count x) ∨
     ((s.ingestStreamIter now oid tl).2.2 = .done ∧
      ∀ x, (bufList (s.ingestStreamIter now oid tl).1.buf).count x
        = (bufList s.buf).count x + if x = oid then 1 else 0)) := by
  unfold ingestStreamIter
  split
  · exact ⟨rfl, rfl, Or.inl fun _ => rfl⟩
  · rename_i o _
    split
    · have h1 := deposit_schedfin s.buf oid o.rate
      have h2 := bufList_deposit s.buf oid o.rate
      generalize s.buf.deposit oid o.rate = r at h1 h2
      obtain ⟨b1, e1⟩ := r
      simp only at h1 h2
      cases e1 with
      | some e => exact ⟨h1.1, h1.2, Or.inl fun _ => by rw [h2]⟩
      | none =>
        simp only
        split
        · exact ⟨h1.1, h1.2, Or.inl fun _ => by rw [h2]⟩
        · refine ⟨h1.1, h1.2, Or.inr ⟨rfl, fun x => ?_⟩⟩
          show (bufList (b1.store oid (natNow now))).count x = _
          rw [bufList_store, h2]
    · exact ⟨rfl, rfl, Or.inl fun _ => rfl⟩

theorem ingestStreamBlock_buf (s : Sys) (now : Time) (pc : Nat) (oid : Oid) (tl : Int) :
    (s.ingestStreamBlock now pc oid tl).1.buf.hot.scheduled = s.buf.hot.scheduled ∧
    (s.ingestStreamBlock now pc oid tl).1.buf.hot.finished = s.buf.hot.finished ∧
    ((∀ x, (bufList (s.ingestStreamBlock now pc oid tl).1.buf).count x = (bufList s.buf).count x) ∨
     ((s.ingestStreamBlock now pc oid tl).2.2 = .done ∧
      ∀ x, (bufList (s.ingestStreamBlock now pc oid tl).1.buf).count x
        = (bufList s.buf).count x + if x = oid then 1 else 0)) := by
  unfold ingestStreamBlock
  split
  · split
    · exact ⟨rfl, rfl, Or.inl fun _ => rfl⟩
    · split
      · exact ⟨rfl, rfl, Or.inl fun _ => rfl⟩
      · exact ingestStreamIter_buf (s.addBuf _) now oid _
  · exact ingestStreamIter_buf s now oid tl

theorem bufi_ingestStream {s : Sys} (hs : SInv s) (h : BufI s) {p : Proc} (hp : p ∈ s.procs)
    (ha : p.alive = true) {oid tl} (hk : p.k = .ingestStream oid tl) :
    BufI ((s.ingestStreamBlock p.wake p.pc oid tl).1.updProc p.pid
      (fin (s.ingestStreamBlock p.wake p.pc oid tl).2.1 (s.ingestStreamBlock p.wake p.pc oid tl).2.2 p.wake)) := by
  have hpw := hs.pw
  have hpres := ingestStreamBlock_pres s p.wake p.pc oid tl
  obtain ⟨new, hprocs, hnew⟩ := hnew_of_shape hpres.shape
  have hpwX := hpres.pw hpw
  obtain ⟨tl', hk'⟩ := ingestStreamBlock_tag s p.wake p.pc oid tl
  obtain ⟨hsch, hfin, hcnt⟩ := ingestStreamBlock_buf s p.wake p.pc oid tl
  have hplans : (s.ingestStreamBlock p.wake p.pc oid tl).1.plans = s.plans := ingestStreamBlock_plans _ _ _ _ _
  have hobs : (s.ingestStreamBlock p.wake p.pc oid tl).1.obs = s.obs := hpres.shape.obs
  have hplan : ∀ pl ∈ (s.ingestStreamBlock p.wake p.pc oid tl).1.plans,
      pl.obs ∈ (s.ingestStreamBlock p.wake p.pc oid tl).1.buf.hot.scheduled ++
        (s.ingestStreamBlock p.wake p.pc oid tl).1.buf.hot.finished := by
    rw [hplans, hsch, hfin]; exact h.planLoc
  have htp : tokK p.k = [] := by rw [hk]; rfl
  rcases hcnt with hc | ⟨hy, hc⟩
  · refine h.step_count hpw new hprocs hpwX hp ha _ _ hnew ?_ ?_ (ObsMonoS.of_eq hobs) hplan
    · intro o tl1 e
      rw [hk'] at e
      injection e with e1 _
      subst e1
      exact ⟨tl, hk⟩
    · intro x
      rw [hc x, hk', htp]
      show _ + (yTok (.ingestStream oid tl') _).count x ≤ _
      rw [yTok_of_tag _ (by simp [PK.tag]) (by simp [PK.tag])]
      exact Nat.le_refl _
  · -- the stream ends and stores the observation
    have hstr : StrBack s ((s.ingestStreamBlock p.wake p.pc oid tl).1.updProc p.pid
        (fin (s.ingestStreamBlock p.wake p.pc oid tl).2.1 (s.ingestStreamBlock p.wake p.pc oid tl).2.2 p.wake)) :=
      strBack_of_procs hpw new hprocs hpwX hp _ (by simp) (fun _ => ha)
        (fun o tl1 e => by
          simp only [fin_k] at e
          rw [hk'] at e
          injection e with e1 _
          subst e1
          exact ⟨tl, hk⟩) (fun q hq => (hnew q hq).1)
    have hfree := h.strFree p hp ha oid tl hk
    have htoks : ∀ o, (toks ((s.ingestStreamBlock p.wake p.pc oid tl).1.updProc p.pid
        (fin (s.ingestStreamBlock p.wake p.pc oid tl).2.1 (s.ingestStreamBlock p.wake p.pc oid tl).2.2 p.wake))).count o
        = (toks s).count o := by
      intro o
      have ht := toks_updProc new hprocs hpwX hp
        (fin (s.ingestStreamBlock p.wake p.pc oid tl).2.1 (s.ingestStreamBlock p.wake p.pc oid tl).2.2 p.wake) o
      have h1 : tok p = [] := tok_of_tag (by rw [hk]; simp [PK.tag]) (by rw [hk]; simp [PK.tag])
      have h2 : tok (fin (s.ingestStreamBlock p.wake p.pc oid tl).2.1 (s.ingestStreamBlock p.wake p.pc oid tl).2.2 p.wake p) = [] := by
        rw [hy]; exact tok_dead rfl
      have h3 : (new.flatMap tok) = [] := by
        rw [List.flatMap_eq_nil_iff]; exact fun q hq => (hnew q hq).2
      rw [h1, h2, h3] at ht
      simpa using ht
    refine h.step (ObsMonoS.of_eq hobs) hstr ?_ hplan
    intro o
    by_cases e : o = oid
    · subst e
      right
      refine ⟨?_, ?_, ?_⟩
      · unfold locCount at hfree ⊢
        show (bufList (s.ingestStreamBlock p.wake p.pc o tl).1.buf).count o + _ ≤ 1
        rw [hc o, htoks o]
        simp only [if_true]
        omega
      · show Begun (s.ingestStreamBlock p.wake p.pc o tl).1.obs o
        rw [hobs]; exact h.strObs p hp o tl hk
      · intro q hq hqa tl1 hqk
        rcases (memSpec_updProc hpw hp new hprocs hpwX _ q).mp hq with rfl | ⟨hq0, hne⟩ | hqn
        · rw [hy] at hqa; simp at hqa
        · exact hne (h.strUniq q hq0 p hp o tl1 tl hqk hk)
        · have := (hnew q hqn).1
          rw [hqk] at this; exact this rfl
    · left
      unfold locCount
      show (bufList (s.ingestStreamBlock p.wake p.pc oid tl).1.buf).count o + _ ≤ _
      rw [hc o, htoks o]
      simp [e]

/-! ### the tier moves -/

theorem hot2coldBlock_schedfin (s : Sys) (now : Time) (cur : Option (Oid × Int)) :
    (s.hot2coldBlock now cur).1.buf.hot.scheduled = s.buf.hot.scheduled ∧
    (s.hot2coldBlock now cur).1.buf.hot.finished = s.buf.hot.finished := by
  have hi : ∀ s : Sys, ∀ o left, (s.hot2coldIter now o left).1.buf.hot.scheduled = s.buf.hot.scheduled ∧
      (s.hot2coldIter now o left).1.buf.hot.finished = s.buf.hot.finished := by
    intro s o left
    unfold hot2coldIter
    split
    · exact ⟨rfl, rfl⟩
    · obtain ⟨_, h2, h3, _⟩ := hot2coldStep_lists s.buf o left
      generalize s.buf.hot2coldStep o left = r at h2 h3
      obtain ⟨b1, res⟩ := r
      cases res <;> exact ⟨h2, h3⟩
  unfold hot2coldBlock
  split
  · exact hi _ _ _
  · have hb : s.buf.hot2coldBegin.1.hot.scheduled = s.buf.hot.scheduled ∧
        s.buf.hot2coldBegin.1.hot.finished = s.buf.hot.finished := by
      unfold Buffer.hot2coldBegin
      split
      · exact ⟨rfl, rfl⟩
      · simp only; split <;> exact ⟨rfl, rfl⟩
    generalize s.buf.hot2coldBegin = r at hb
    obtain ⟨b1, res⟩ := r
    match res with
    | .error e => exact hb
    | .ok none => exact hb
    | .ok (some (o, left)) =>
      have := hi (({ s with buf := b1 }).addBuf ⟨natNow now, o, .transferStarted⟩) o left
      exact ⟨this.1.trans hb.1, this.2.trans hb.2⟩

theorem cold2hotBlock_schedfin (s : Sys) (now : Time) (cur : Option (Oid × Int)) :
    (s.cold2hotBlock now cur).1.buf.hot.scheduled = s.buf.hot.scheduled ∧
    (s.cold2hotBlock now cur).1.buf.hot.finished = s.buf.hot.finished := by
  have hi : ∀ s : Sys, ∀ o left, (s.cold2hotIter now o left).1.buf.hot.scheduled = s.buf.hot.scheduled ∧
      (s.cold2hotIter now o left).1.buf.hot.finished = s.buf.hot.finished := by
    intro s o left
    unfold cold2hotIter
    split
    · exact ⟨rfl, rfl⟩
    · obtain ⟨_, h2, h3, _⟩ := cold2hotStep_lists s.buf o left
      generalize s.buf.cold2hotStep o left = r at h2 h3
      obtain ⟨b1, res⟩ := r
      cases res <;> exact ⟨h2, h3⟩
  unfold cold2hotBlock
  split
  · exact hi _ _ _
  · have hb : s.buf.cold2hotBegin.1.hot.scheduled = s.buf.hot.scheduled ∧
        s.buf.cold2hotBegin.1.hot.finished = s.buf.hot.finished := by
      unfold Buffer.cold2hotBegin
      split
      · exact ⟨rfl, rfl⟩
      · simp only; split <;> exact ⟨rfl, rfl⟩
    generalize s.buf.cold2hotBegin = r at hb
    obtain ⟨b1, res⟩ := r
    match res with
    | .error e => exact hb
    | .ok none => exact hb
    | .ok (some (o, left)) =>
      have := hi (({ s with buf := b1 }).addBuf ⟨natNow now, o, .transferStarted⟩) o left
      exact ⟨this.1.trans hb.1, this.2.trans hb.2⟩

theorem bufi_hot2cold {s : Sys} (hs : SInv s) (h : BufI s) {p : Proc} (hp : p ∈ s.procs)
    (ha : p.alive = true) {cur} (hk : p.k = .hot2cold cur) :
    BufI ((s.hot2coldBlock p.wake cur).1.updProc p.pid
      (fin (s.hot2coldBlock p.wake cur).2.1 (s.hot2coldBlock p.wake cur).2.2 p.wake)) := by
  have hpres := hot2coldBlock_pres s p.wake cur
  obtain ⟨new, hprocs, hnew⟩ := hnew_of_shape hpres.shape
  obtain ⟨hsch, hfin⟩ := hot2coldBlock_schedfin s p.wake cur
  refine h.step_count hs.pw new hprocs (hpres.pw hs.pw) hp ha _ _ hnew ?_ ?_
    (ObsMonoS.of_eq hpres.shape.obs) ?_
  · intro o tl e
    have := hot2coldBlock_tag s p.wake cur
    rw [e] at this; simp [PK.tag] at this
  · intro x; rw [hk]; exact hot2coldBlock_count s p.wake cur x
  · rw [hot2coldBlock_plans, hsch, hfin]; exact h.planLoc

theorem bufi_cold2hot {s : Sys} (hs : SInv s) (h : BufI s) {p : Proc} (hp : p ∈ s.procs)
    (ha : p.alive = true) {cur} (hk : p.k = .cold2hot cur) :
    BufI ((s.cold2hotBlock p.wake cur).1.updProc p.pid
      (fin (s.cold2hotBlock p.wake cur).2.1 (s.cold2hotBlock p.wake cur).2.2 p.wake)) := by
  have hpres := cold2hotBlock_pres s p.wake cur
  obtain ⟨new, hprocs, hnew⟩ := hnew_of_shape hpres.shape
  obtain ⟨hsch, hfin⟩ := cold2hotBlock_schedfin s p.wake cur
  refine h.step_count hs.pw new hprocs (hpres.pw hs.pw) hp ha _ _ hnew ?_ ?_
    (ObsMonoS.of_eq hpres.shape.obs) ?_
  · intro o tl e
    have := cold2hotBlock_tag s p.wake cur
    rw [e] at this; simp [PK.tag] at this
  · intro x; rw [hk]; exact cold2hotBlock_count s p.wake cur x
  · rw [cold2hotBlock_plans, hsch, hfin]; exact h.planLoc

end Sys
end Topsim
