/-
  Cross7 — the machine a task ran on, read off the process table (`crossRanOn`); the
  allocation block in explicit form; a concrete run (two machines, the fork-join
  workflow `0 → 2 ← 1`) in which task 2 has one predecessor on its own machine and one
  on the other machine.
-/
import TopsimProofs.Cross6

namespace Topsim

/-- the machine of a body of task `x` -/
def PK.crossBodyOn (x : Tid) : PK → Option Mid
  | .doWork t m _ _ _ => if t = x then some m else none
  | _ => none

theorem PK.crossBodyOn_some {x : Tid} {k : PK} {mx : Mid} (h : k.crossBodyOn x = some mx) :
    ∃ c ph tot, k = .doWork x mx c ph tot := by
  cases k <;> simp [PK.crossBodyOn] at h
  obtain ⟨rfl, rfl⟩ := h
  exact ⟨_, _, _, rfl⟩

namespace Sys

open Cluster

/-- the machine on which task `x` ran or runs: the machine of its body in the process table
(the table keeps ended processes) -/
def crossRanOn (s : Sys) (x : Tid) : Option Mid := s.procs.findSome? (fun p => p.k.crossBodyOn x)

/-- a task has at most one body (`DG.dwUniq`), so `crossRanOn` is the machine of THE body -/
theorem cross_ranOn_iff {s : Sys} (hs : SInv s) (x : Tid) (mx : Mid) :
    s.crossRanOn x = some mx ↔ ∃ d ∈ s.procs, ∃ c ph tot, d.k = .doWork x mx c ph tot := by
  unfold crossRanOn
  constructor
  · intro h
    obtain ⟨d, hd, hk⟩ := List.exists_of_findSome?_eq_some h
    obtain ⟨c, ph, tot, e⟩ := PK.crossBodyOn_some hk
    exact ⟨d, hd, c, ph, tot, e⟩
  · rintro ⟨d, hd, c, ph, tot, hdk⟩
    cases hf : s.procs.findSome? (fun p => p.k.crossBodyOn x) with
    | none =>
      rw [List.findSome?_eq_none_iff] at hf
      have := hf d hd
      rw [hdk] at this
      simp [PK.crossBodyOn] at this
    | some m' =>
      obtain ⟨d', hd', hk'⟩ := List.exists_of_findSome?_eq_some hf
      obtain ⟨c', ph', tot', e'⟩ := PK.crossBodyOn_some hk'
      have hpid := hs.dg.dwUniq d hd d' hd' _ _ _ _ _ _ _ _ _ hdk e'
      have : d = d' := hs.pw.eq_of_pid hd hd' hpid
      subst this
      rw [hdk] at e'
      simp only [PK.doWork.injEq] at e'
      rw [e'.2.1]

/-- `CrossRan` in terms of `crossRanOn` -/
theorem cross_ran_iff {s : Sys} (hs : SInv s) (x : Tid) (P : Mid → Prop) :
    CrossRan s x P ↔ ∃ mx, s.crossRanOn x = some mx ∧ P mx := by
  constructor
  · rintro ⟨d, hd, m', c, ph, tot, hdk, hp⟩
    exact ⟨m', (cross_ranOn_iff hs x m').mpr ⟨d, hd, c, ph, tot, hdk⟩, hp⟩
  · rintro ⟨mx, h, hp⟩
    obtain ⟨d, hd, c, ph, tot, hdk⟩ := (cross_ranOn_iff hs x mx).mp h
    exact ⟨d, hd, mx, c, ph, tot, hdk, hp⟩

/-- the exact characterisation of the cross-machine list, from `CrossEx` -/
theorem cross_exact_of_ex {s : Sys} (hs : SInv s) {t : Tid} {m : Mid} {cross : List Tid}
    (h : CrossEx s t m cross) :
    ∃ r, s.task? t = some r ∧ (∀ x ∈ r.preds, ∃ mx, s.crossRanOn x = some mx) ∧
      ∀ x, x ∈ cross ↔ x ∈ r.preds ∧ s.crossRanOn x ≠ some m := by
  obtain ⟨r, hr, h1, h2⟩ := h
  refine ⟨r, hr, ?_, ?_⟩
  · intro x hx
    by_cases hc : x ∈ cross
    · obtain ⟨mx, e, _⟩ := (cross_ran_iff hs x _).mp ((h2 x hx).1 hc)
      exact ⟨mx, e⟩
    · obtain ⟨mx, e, _⟩ := (cross_ran_iff hs x _).mp ((h2 x hx).2 hc)
      exact ⟨mx, e⟩
  · intro x
    constructor
    · intro hc
      have hx := h1 x hc
      obtain ⟨mx, e, hne⟩ := (cross_ran_iff hs x _).mp ((h2 x hx).1 hc)
      refine ⟨hx, ?_⟩
      rw [e]
      exact fun e' => hne (by injection e')
    · rintro ⟨hx, hne⟩
      by_cases hc : x ∈ cross
      · exact hc
      · obtain ⟨mx, e, he⟩ := (cross_ran_iff hs x _).mp ((h2 x hx).2 hc)
        rw [e, he] at hne
        exact absurd rfl hne

/-! ### the allocation block, explicitly -/

/-- the allocation process of a workflow task is the scheduler-side one (`ing = false`) -/
theorem cross_alloc_ing {s0 s1 : Sys} {p : Proc} {t : Tid} {m : Mid} {cross : List Tid}
    (hs : SInv s1) (h : CrossAlloc s0 s1 p t m cross) (hw : IsWf t) :
    ∃ obs ret, p.k = .allocTask t m cross obs false ret := by
  obtain ⟨U, hU⟩ := hs.ci
  have hp : s1.proc? p.pid = some p := hs.pw.proc?_of_mem h.mem
  obtain ⟨p', hp', ha, _⟩ := h.en
  rw [hp] at hp'
  injection hp' with hp'
  subst hp'
  obtain ⟨obs, ing, ret, hk⟩ := h.kind
  cases hi : ing with
  | false => subst hi; exact ⟨obs, ret, hk⟩
  | true =>
    subst hi
    have hpc0 := hU.pc_zero h.mem ha hk h.fresh
    have := hU.inv.pendTask _ (hU.pend p h.mem ha t m cross obs ret hk hpc0)
    rw [isWf_not_ingest hw] at this
    exact absurd this (by simp)

/-- the allocation block, when it does not raise: the new process `s1.nextPid` (no process of
`s1` has that pid) is the body of `t` on `m`, has not run, and is due at the time of the block -/
theorem cross_alloc_body {s0 s1 : Sys} {p : Proc} {t : Tid} {m : Mid} {cross : List Tid}
    (hs : SInv s1) (h : CrossAlloc s0 s1 p t m cross) (orc : Oracle)
    (hc : (s1.resume p.pid orc).1.crashed = none) :
    (∀ q ∈ s1.procs, q.pid < s1.nextPid) ∧
    ∃ d0 ∈ (s1.resume p.pid orc).1.procs, d0.pid = s1.nextPid ∧ d0.k = .doWork t m cross 0 0 ∧
      d0.wake = p.wake ∧ d0.alive = true ∧ d0.pc = 0 := by
  refine ⟨hs.pw.lt, ?_⟩
  have hp : s1.proc? p.pid = some p := hs.pw.proc?_of_mem h.mem
  obtain ⟨p', hp', ha, hmin⟩ := h.en
  rw [hp] at hp'
  injection hp' with hp'
  subst hp'
  obtain ⟨_, hnr⟩ := resume_nocrash s1 p.pid orc p hp ha hc
  obtain ⟨obs, ing, ret, hk⟩ := h.kind
  have hb : s1.block p orc = s1.allocTaskBlock p.wake t m cross obs ing ret := by
    unfold block; simp only [hk]
  have hnew : ({ pid := s1.nextPid, k := .doWork t m cross 0 0, wake := p.wake } : Proc) ∈ (s1.block p orc).1.procs := by
    rcases allocTaskBlock_cases s1 hs.pw p.wake t m cross obs ing ret with
      ⟨_, e, _, heq⟩ | ⟨_, _, heq⟩ | ⟨hr, _⟩ | ⟨hr, _⟩ | ⟨hr, _⟩
    · rw [hb, heq] at hnr; exact absurd rfl (hnr e)
    · rw [hb, heq]
      simp only [spawn_procs, updTask_procs, List.mem_append, List.mem_singleton]
      exact Or.inr rfl
    · exact absurd hr h.fresh
    · exact absurd hr h.fresh
    · exact absurd hr h.fresh
  have hmem := cross_new_mem hs h.mem ha hmin orc (fin (s1.block p orc).2.1 (s1.block p orc).2.2 p.wake) hnew
    (by rw [hk]; simp [PK.tag])
  rw [← (resume_core s1 p.pid orc p hp ha).procs] at hmem
  exact ⟨_, hmem, rfl, rfl, rfl, rfl, rfl⟩

/-! ### a concrete run -/

/-- chain with a shortcut `0 → 1 → 2`, `0 → 2`: nodes 0 and 1 carry two units of work, node 2
one; three units of data on the edges out of node 0, five on the edge `1 → 2` -/
def crossObsW : Obs :=
  { id := 0, est := 0, duration := 1, demand := 1, rate := 0, ingestDemand := 1,
    wf := ⟨[(0, 2, 0), (1, 2, 0), (2, 1, 0)], [(0, 1, 3), (0, 2, 3), (1, 2, 5)], [0, 1, 2]⟩ }

/-- two machines of bandwidth 2, the queue algorithm -/
def crossW : Sys :=
  { machines := [⟨0, 1, 2⟩, ⟨1, 1, 2⟩], totalArrays := 1, maxIngest := 1, alg := .queue,
    cl := Cluster.init [0, 1], buf := Buffer.init 100 10 100 10, obs := [crossObsW] }

theorem crossW_wf : WFConfig crossW := by
  refine ⟨by decide, rfl, by decide, ?_, ⟨rfl, rfl, rfl, rfl, rfl, rfl, rfl, rfl, rfl, rfl, rfl, rfl, rfl,
    rfl, rfl, rfl, rfl⟩⟩
  intro o ho
  simp only [crossW, List.mem_cons, List.not_mem_nil, or_false] at ho
  subst ho
  exact ⟨rfl, rfl, by decide, by decide⟩

theorem crossW_buf : crossW.buf.hot.stored = [] ∧ crossW.buf.hot.scheduled = [] ∧
    crossW.buf.hot.finished = [] ∧ crossW.buf.cold.stored = [] := ⟨rfl, rfl, rfl, rfl⟩

def crossA : Tid := .wf 0 1 0
def crossB : Tid := .wf 0 1 1
def crossC : Tid := .wf 0 1 2

/-- creation order inside every instant, empty oracle (no delay).
Instant 0: loops 0–4, ingest chain 5, 6, 7, 8, ingest body 9 (twice).
Instant 1: loops, 5, 6, 8; the scheduler loop 3 plans the workflow; `allocate_tasks` 10 proposes
`crossA` on machine 1 (allocation process 11, body 12: start 1).
Instant 2: loops, 10, 11, body 12 ends (recorded finish 3).  Instant 3: loops, 10, 11 reports
`crossA` finished.
Instant 4: `allocate_tasks` 10 proposes `crossB` on machine 0 (allocation process 13, body 14 with
cross-machine list `[crossA]`: waits until 3 + 3/2 = 9/2, starts, two units of work).
Instant 5: loops, 10, 13; at 11/2 body 14 ends (recorded finish 13/2).  Instants 6, 7: loops, 10,
13 (F13: reports `crossB` finished at 7 ≥ 13/2).
Instant 8: loops; `allocate_tasks` 10 proposes `crossC` on machine 1: table
`crossA ↦ 1, crossB ↦ 0, crossC ↦ 1`, cross-machine list `[crossB]`, allocation process 15. -/
def crossSchedPre : List Nat :=
  [0, 1, 2, 3, 4, 5, 6, 7, 8, 9, 9,
   0, 1, 2, 3, 4, 5, 6, 8, 10, 11, 12,
   0, 1, 2, 3, 4, 10, 11, 12,
   0, 2, 3, 4, 10, 11,
   0, 2, 3, 4, 10, 13, 14, 14,
   0, 2, 3, 4, 10, 13, 14,
   0, 2, 3, 4, 10, 13,
   0, 2, 3, 4, 10, 13,
   0, 2, 3, 4, 10]

/-- … then the allocation block of process 15 at t = 8 (creates body 16), and the two blocks of
body 16: it waits for `13/2 + 5/2 - 8 = 1` and starts at t = 9 -/
def crossSched : List Nat :=
  [0, 1, 2, 3, 4, 5, 6, 7, 8, 9, 9,
   0, 1, 2, 3, 4, 5, 6, 8, 10, 11, 12,
   0, 1, 2, 3, 4, 10, 11, 12,
   0, 2, 3, 4, 10, 11,
   0, 2, 3, 4, 10, 13, 14, 14,
   0, 2, 3, 4, 10, 13, 14,
   0, 2, 3, 4, 10, 13,
   0, 2, 3, 4, 10, 13,
   0, 2, 3, 4, 10, 15, 16, 16]

theorem crossSched_eq : crossSched = crossSchedPre ++ [15, 16, 16] := by decide

theorem crossSched_enabled : precEnabledAll crossSched crossW.start = true := by decide +kernel

theorem crossSchedPre_enabled : precEnabledAll crossSchedPre crossW.start = true := by decide +kernel

theorem crossSched_reach : Reach crossW (precRun crossSched crossW.start) :=
  prec_reach_run crossSched _ Reach.start crossSched_enabled

theorem crossSchedPre_reach : Reach crossW (precRun crossSchedPre crossW.start) :=
  prec_reach_run crossSchedPre _ Reach.start crossSchedPre_enabled

/-- the parameters of an allocation process -/
def crossAllocTask? : PK → Option (Tid × Mid × List Tid × Bool)
  | .allocTask t m preds _ ing _ => some (t, m, preds, ing)
  | _ => none

/-- the table of an `allocate_tasks` process -/
def crossPairs? : PK → Option (List (Tid × Mid))
  | .allocTasks _ _ pa _ _ => some pa
  | _ => none

theorem crossSched_final0a : (precRun crossSched crossW.start).crashed = none := by decide +kernel

theorem crossSched_final0b :
    ((precRun crossSched crossW.start).proc? 16).bind (fun p => precDoWork? p.k) = some (crossC, 1, [crossB], 2, 1) := by
  decide +kernel

theorem crossSched_final0c :
    ((precRun crossSched crossW.start).proc? 12).bind (fun p => precDoWork? p.k) = some (crossA, 1, [], 3, 2) := by
  decide +kernel

theorem crossSched_final0d :
    ((precRun crossSched crossW.start).proc? 14).bind (fun p => precDoWork? p.k) = some (crossB, 0, [crossA], 3, 2) := by
  decide +kernel

theorem crossSched_final :
    (precRun crossSched crossW.start).crashed = none ∧
    ((precRun crossSched crossW.start).proc? 16).bind (fun p => precDoWork? p.k) = some (crossC, 1, [crossB], 2, 1) ∧
    ((precRun crossSched crossW.start).proc? 12).bind (fun p => precDoWork? p.k) = some (crossA, 1, [], 3, 2) ∧
    ((precRun crossSched crossW.start).proc? 14).bind (fun p => precDoWork? p.k) = some (crossB, 0, [crossA], 3, 2) :=
  ⟨crossSched_final0a, crossSched_final0b, crossSched_final0c, crossSched_final0d⟩

theorem crossSched_final1 :
    ((precRun crossSched crossW.start).task? crossC).map (fun r => (r.ast, r.preds, r.io)) =
      some (some 9, [crossA, crossB], [(crossA, 3), (crossB, 5)]) ∧
    ((precRun crossSched crossW.start).task? crossA).map (fun r => (r.status, r.aft)) = some (.finished, some 3) ∧
    ((precRun crossSched crossW.start).task? crossB).map (fun r => (r.status, r.aft)) = some (.finished, some (13 / 2)) := by
  decide +kernel

theorem crossSched_final2 :
    ((precRun crossSched crossW.start).crossRanOn crossA, (precRun crossSched crossW.start).crossRanOn crossB,
      (precRun crossSched crossW.start).crossRanOn crossC) = (some 1, some 0, some 1) ∧
    ((precRun crossSched crossW.start).proc? 10).bind (fun p => crossPairs? p.k) =
      some [(crossA, 1), (crossB, 0), (crossC, 1)] ∧
    ((precRun crossSched crossW.start).machine? 1).map (·.bw) = some 2 := by
  decide +kernel

/-- the state before the allocation block of `crossC`: process 15 is due at t = 8, the cluster does
not run `crossC`, the next pid is 16 -/
theorem crossSchedPre_final :
    (precRun crossSchedPre crossW.start).crashed = none ∧
    ((precRun crossSchedPre crossW.start).proc? 15).bind (fun p => crossAllocTask? p.k) =
      some (crossC, 1, [crossB], false) ∧
    ((precRun crossSchedPre crossW.start).proc? 15).map (fun p => (p.wake, p.alive, p.pc)) = some (8, true, 0) ∧
    decide (crossC ∈ (precRun crossSchedPre crossW.start).cl.running) = false ∧
    (precRun crossSchedPre crossW.start).nextPid = 16 := by
  decide +kernel

end Sys
end Topsim
