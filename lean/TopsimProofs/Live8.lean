/-
  Live8 — liveness development, part 8: one index of the run as one `resume` of a `ReachOk` state
  that does not raise (`l8_step`), and J9: along a run that satisfies `LiveCfg`, no tier-move
  process ever exists and the cold tier is never touched (`live_noTier`).
-/
import TopsimProofs.Live5
import TopsimProofs.Witness1
import TopsimProofs.FinishStr3
import TopsimProofs.LifeCycle17
import TopsimProofs.OnTime4

namespace Topsim

open KState Sys

section
variable {env : SimEnv} {s0 : Sys}

theorem l8_reachOk (C : LiveCfg env s0) (K : LiveKernel env s0) (n : Nat) :
    ReachOk s0 (simAt env s0 n).st :=
  simRun_reachOk C.hw (K.run n).1 (K.run n).2.1

theorem l8_reach (C : LiveCfg env s0) (K : LiveKernel env s0) (n : Nat) :
    Reach s0 (simAt env s0 n).st := (l8_reachOk C K n).toReach

theorem l8_sinv (C : LiveCfg env s0) (K : LiveKernel env s0) (n : Nat) : SInv (simAt env s0 n).st :=
  ((K.reach n).l3inv C.hw).sinv

theorem l8_bufList (C : LiveCfg env s0) : bufList s0.buf = [] := hb0_bufList C.hb0

theorem l8_noOracle (C : LiveCfg env s0) : s0.alg ≠ .oracle := by rw [C.alg]; simp

theorem l8_alg (C : LiveCfg env s0) (K : LiveKernel env s0) (n : Nat) : (simAt env s0 n).st.alg = .queue := by
  rw [reach_alg (l8_reach C K n)]; exact C.alg

theorem l8_rate (C : LiveCfg env s0) : ∀ o ∈ s0.obs, 0 < o.rate :=
  fun o ho => (C.feas.1 o ho).2.2.2.2.2.2.2

/-- **One index of the run.**  The live, enabled process `p` whose heap entry is the least runs one
block, which does not raise; the next state is the state after `resume`. -/
theorem l8_step (C : LiveCfg env s0) (K : LiveKernel env s0) (n : Nat) :
    ∃ e p, (simAt env s0 n).peek = some e ∧ (simAt env s0 n).st.proc? e.pid = some p ∧
      p.alive = true ∧ e.time = p.wake ∧ (simAt env s0 n).st.enabled e.pid ∧
      (∀ err, ((simAt env s0 n).st.block p (env.oracle (simAt env s0 n).st)).2.2 ≠ .raised err) ∧
      (simAt env s0 (n + 1)).st =
        ((simAt env s0 n).st.resume e.pid (env.oracle (simAt env s0 n).st)).1 := by
  obtain ⟨e, p, hpk, hpp, ha, het, hen, _, hst⟩ := live_step C K n
  refine ⟨e, p, hpk, hpp, ha, het, hen, ?_, hst⟩
  have hcr := C.nr (n + 1)
  rw [hst] at hcr
  exact (resume_nocrash _ _ _ p hpp ha hcr).2

end

namespace Sys

/-! ### J9: no tier move -/

theorem l8_bufferLoop_quiet (s : Sys) (now : Time) (hover : s.buf.overThreshold = false)
    (hcs : s.buf.cold.stored = []) : s.bufferLoopBlock now = (s, .timeout 1) := by
  unfold bufferLoopBlock Buffer.loopDecide
  simp [hover, hcs]

theorem l8_newKind_noTier {k k' : PK} (h : NewKind k k') (hk : k ≠ .bufferLoop) :
    k'.tag ≠ "hot2cold" ∧ k'.tag ≠ "cold2hot" := by
  cases k <;> simp only [NewKind] at h
  · obtain ⟨o, rfl⟩ := h; simp [PK.tag]
  · obtain ⟨o, rfl⟩ := h; simp [PK.tag]
  · exact absurd rfl hk
  · rcases h with ⟨d, rfl⟩ | rfl <;> simp [PK.tag]
  · obtain ⟨t, m, rfl⟩ := h; simp [PK.tag]
  · subst h; simp [PK.tag]
  · obtain ⟨t, m, c, rfl⟩ := h; simp [PK.tag]

/-- the cold tier after a block of a process that is not a tier move -/
theorem l8_block_cold (s : Sys) (p : Proc) (orc : Oracle) (h1 : p.k.tag ≠ "hot2cold")
    (h2 : p.k.tag ≠ "cold2hot") : (s.block p orc).1.buf.cold = s.buf.cold := by
  have quiet : p.k.tag ≠ "schedLoop" → p.k.tag ≠ "ingestStream" → p.k.tag ≠ "allocTasks" →
      (s.block p orc).1.buf.cold = s.buf.cold :=
    fun a b c => by rw [block_buf s p orc a b c h1 h2]
  cases hk : p.k with
  | monitor => exact quiet (by simp [hk, PK.tag]) (by simp [hk, PK.tag]) (by simp [hk, PK.tag])
  | telescope => exact quiet (by simp [hk, PK.tag]) (by simp [hk, PK.tag]) (by simp [hk, PK.tag])
  | clusterLoop => exact quiet (by simp [hk, PK.tag]) (by simp [hk, PK.tag]) (by simp [hk, PK.tag])
  | bufferLoop => exact quiet (by simp [hk, PK.tag]) (by simp [hk, PK.tag]) (by simp [hk, PK.tag])
  | allocIngest o tl => exact quiet (by simp [hk, PK.tag]) (by simp [hk, PK.tag]) (by simp [hk, PK.tag])
  | provIngest o d => exact quiet (by simp [hk, PK.tag]) (by simp [hk, PK.tag]) (by simp [hk, PK.tag])
  | allocTask t m preds obs ing ret =>
    exact quiet (by simp [hk, PK.tag]) (by simp [hk, PK.tag]) (by simp [hk, PK.tag])
  | doWork t m preds ph tot => exact quiet (by simp [hk, PK.tag]) (by simp [hk, PK.tag]) (by simp [hk, PK.tag])
  | schedLoop =>
    rw [block_schedLoop orc hk]
    exact congrArg (·.2.2.2.2) (schedLoopBlock_bq s p.wake orc)
  | ingestStream o tl =>
    rw [block_ingestStream orc hk]
    rcases ingestStreamBlock_bq s p.wake p.pc o tl with ⟨e, _⟩ | ⟨ob, _, _, hd⟩
    · exact congrArg (·.2.2.2.2) e
    · exact hd.1
  | allocTasks o sc pa po fn =>
    rw [block_allocTasks orc hk]
    rcases allocTasksBlock_bufCases s p.wake orc p.pc o sc pa po fn with e | e
    · rw [e]
    · rw [e]
      rcases remove_full s.buf o with e2 | ⟨_, _, _, _, _, _, _, _, h9, _⟩
      · rw [e2]
      · exact h9
  | hot2cold cur => exact absurd (by rw [hk]; rfl) h1
  | cold2hot cur => exact absurd (by rw [hk]; rfl) h2

theorem l8_noTier_step {s : Sys} (hs : SInv s) {pid : Nat} (hen : s.enabled pid) (orc : Oracle)
    (hnt : NoTier s) (hover : s.buf.overThreshold = false) (hcs : s.buf.cold.stored = []) :
    NoTier (s.resume pid orc).1 ∧ (s.resume pid orc).1.buf.cold = s.buf.cold := by
  obtain ⟨p, hp, ha, hmin⟩ := hen
  obtain ⟨hpm, hpid⟩ := proc?_some hp
  subst hpid
  have hcore := resume_core s p.pid orc p hp ha
  have htag := block_tag s hs.pw p orc
  obtain ⟨new, hnew, hnewp⟩ := block_newp s p orc
  refine ⟨?_, ?_⟩
  · intro q hq
    rw [hcore.procs] at hq
    obtain ⟨q0, hq0, rfl⟩ := mem_updProc.mp hq
    by_cases e : q0.pid = p.pid
    · rw [if_pos e]
      simp only [fin_k]
      rw [htag]; exact hnt p hpm
    · rw [if_neg e]
      rw [hnew] at hq0
      rcases List.mem_append.mp hq0 with h | h
      · exact hnt q0 h
      · by_cases hb : p.k = .bufferLoop
        · exfalso
          have hbl : (s.block p orc).1 = s := by
            rw [block_bufferLoop orc hb, l8_bufferLoop_quiet s p.wake hover hcs]
          rw [hbl] at hnew
          have : new = [] := by
            have := congrArg List.length hnew
            simp only [List.length_append] at this
            exact List.eq_nil_of_length_eq_zero (by omega)
          rw [this] at h; simp at h
        · exact l8_newKind_noTier (hnewp q0 h).2.2.2 hb
  · rw [resume_buf s p.pid orc p hp ha]
    exact l8_block_cold s p orc (hnt p hpm).1 (hnt p hpm).2

end Sys

section
variable {env : SimEnv} {s0 : Sys}

/-- **J9.**  No tier-move process ever exists and the cold tier is never touched. -/
theorem live_noTier (C : LiveCfg env s0) (K : LiveKernel env s0) (n : Nat) :
    Sys.NoTier (simAt env s0 n).st ∧ (simAt env s0 n).st.buf.cold = s0.buf.cold := by
  induction n with
  | zero =>
    have hst : (simAt env s0 0).st = s0.start := rfl
    rw [hst]
    refine ⟨?_, by rw [start_buf]⟩
    intro q hq
    rw [start_procs s0 C.hw] at hq
    simp only [List.mem_cons, List.not_mem_nil, or_false] at hq
    rcases hq with rfl | rfl | rfl | rfl | rfl <;> simp [PK.tag]
  | succ n ih =>
    obtain ⟨e, p, _, _, _, _, hen, _, hst⟩ := l8_step C K n
    have hover := (live_not_over env s0 C.hw C.hb0 C.hfull (l8_rate C) C.h1 _ (K.run n).1 (C.nr n)).1
    have hcs : (simAt env s0 n).st.buf.cold.stored = [] := by rw [ih.2]; exact C.hb0.2.2.2
    obtain ⟨h1, h2⟩ := Sys.l8_noTier_step (l8_sinv C K n) hen (env.oracle (simAt env s0 n).st) ih.1 hover hcs
    rw [hst]
    exact ⟨h1, h2.trans ih.2⟩

end

end Topsim
