/-
  FinishInv6 — `FI` under the block of the ingest supervisor (`allocate_ingest`).
-/
import TopsimProofs.FinishInv5

namespace Topsim
namespace Sys

open Cluster

theorem obs_mem_of_obs? {s : Sys} {o : Oid} {ob : Obs} (h : s.obs? o = some ob) : ob ∈ s.obs ∧ ob.id = o := by
  unfold obs? at h
  exact ⟨List.mem_of_find?_eq_some h, by simpa using List.find?_some h⟩

theorem obs_eq_of_id {s : Sys} (hnd : (s.obs.map (·.id)).Nodup) {o : Oid} {ob0 ob : Obs}
    (h0 : s.obs? o = some ob0) (hm : ob ∈ s.obs) (hid : ob.id = o) : ob = ob0 := by
  obtain ⟨h1, h2⟩ := obs_mem_of_obs? h0
  exact eq_of_map_nodup hnd hm h1 (hid.trans h2.symm)

theorem obs?_of_mem {s : Sys} (hnd : (s.obs.map (·.id)).Nodup) {ob : Obs} (hm : ob ∈ s.obs) :
    s.obs? ob.id = some ob := by
  unfold obs?
  exact find?_of_mem_nodup (f := fun r : Obs => r.id) hnd hm

/-- a state whose observation records are those of `s` through a per-record update of
observation `oid` -/
structure ObsUpd (s X : Sys) (oid : Oid) (F : Obs → Obs) : Prop where
  obs : X.obs = s.obs.map (fun r => if r.id = oid then F r else r)
  id : ∀ r, (F r).id = r.id

theorem ObsUpd.obs? {s X : Sys} {oid : Oid} {F : Obs → Obs} (h : ObsUpd s X oid F) (o : Oid) :
    X.obs? o = (s.obs? o).map (fun r => if r.id = oid then F r else r) := by
  unfold Sys.obs?
  rw [h.obs]
  exact find?_map_upd (fun r : Obs => r.id) s.obs oid o F h.id

theorem ObsUpd.other {s X : Sys} {oid : Oid} {F : Obs → Obs} (h : ObsUpd s X oid F) {o : Oid}
    (hne : o ≠ oid) {ob : Obs} (hob : s.obs? o = some ob) : X.obs? o = some ob := by
  rw [h.obs? o, hob]
  have := (obs_mem_of_obs? hob).2
  simp [this, hne]

theorem ObsUpd.good {s X : Sys} {oid : Oid} {F : Obs → Obs} (h : ObsUpd s X oid F)
    (hF : ∀ r, (F r).status = .waiting → r.status = .waiting) : ObsMonoS s.obs X.obs := by
  rintro o ⟨r, hr, hs⟩
  have := h.obs? o
  unfold Sys.obs? at this
  refine ⟨_, by rw [this, hr]; rfl, ?_⟩
  dsimp only
  split
  · exact fun hh => hs (hF r hh)
  · exact hs

theorem ObsUpd.mem {s X : Sys} {oid : Oid} {F : Obs → Obs} (h : ObsUpd s X oid F) {ob' : Obs}
    (hm : ob' ∈ X.obs) : ∃ ob ∈ s.obs, ob' = if ob.id = oid then F ob else ob := by
  rw [h.obs] at hm
  obtain ⟨ob, hob, rfl⟩ := List.mem_map.mp hm
  exact ⟨ob, hob, rfl⟩

theorem memSpec_append {s s' : Sys} (hpw' : PW s') {p : Proc} (hp : p ∈ s.procs) (new : List Proc)
    (hprocs : s'.procs = s.procs ++ new) : MemSpec s s' p p new := by
  intro q
  rw [hprocs, List.mem_append]
  constructor
  · rintro (h | h)
    · by_cases e : q.pid = p.pid
      · left
        exact hpw'.eq_of_pid (by rw [hprocs]; exact List.mem_append_left _ h)
          (by rw [hprocs]; exact List.mem_append_left _ hp) e
      · exact Or.inr (Or.inl ⟨h, e⟩)
    · exact Or.inr (Or.inr h)
  · rintro (rfl | ⟨h, _⟩ | h)
    · exact Or.inl hp
    · exact Or.inl h
    · exact Or.inr h

theorem sameClass_ai {o tl tl'} : SameClass (.allocIngest o tl) (.allocIngest o tl') :=
  ⟨fun _ _ _ _ _ e => by simp at e, fun _ _ _ _ _ _ e => by simp at e, fun _ _ e => by simp at e,
   fun _ _ e => by injection e with e1 _; subst e1; exact ⟨_, rfl⟩⟩

/-- the supervisor's first block on a WAITING observation -/
theorem allocIngestBlock_first (s : Sys) (now : Time) (oid : Oid) (tl : Int) (ob0 : Obs)
    (hob : s.obs? oid = some ob0) (hw : ob0.status = .waiting) :
    s.allocIngestBlock now 0 oid tl
      = ((((s.updObs oid (fun r => { r with ast := some (natNow now) })).spawn
            (.provIngest oid ob0.ingestDemand) now).1.spawn (.ingestStream oid 0) now).1.updObs oid
            (fun r => { r with status := .running }),
          .allocIngest oid ((ob0.duration : Int) - 1), .timeout 1) := by
  have hoid : ob0.id = oid := (obs_mem_of_obs? hob).2
  have h1 : (s.updObs oid (fun r => { r with ast := some (natNow now) })).obs? oid
      = some { ob0 with ast := some (natNow now) } := by
    rw [obs?_updObs s oid oid (fun r => { r with ast := some (natNow now) }) (fun _ => rfl), hob]
    simp [hoid]
  unfold allocIngestBlock
  simp only [if_true, hob]
  unfold allocIngestIter
  simp only [h1, hw]
  simp

theorem fi_allocIngest {s : Sys} (hs : SInv s) (h : FI s) {p : Proc} (hp : p ∈ s.procs)
    (ha : p.alive = true) {oid tl} (hk : p.k = .allocIngest oid tl)
    (hnr : ∀ e, (s.allocIngestBlock p.wake p.pc oid tl).2.2 ≠ .raised e) :
    FI ((s.allocIngestBlock p.wake p.pc oid tl).1.updProc p.pid
      (fin (s.allocIngestBlock p.wake p.pc oid tl).2.1 (s.allocIngestBlock p.wake p.pc oid tl).2.2 p.wake)) := by
  have hpw := hs.pw
  have hokp := h.ok p hp
  obtain ⟨U, hU⟩ := hs.ci
  by_cases hpc : p.pc = 0
  · -- first block: the observation is WAITING
    obtain ⟨ob0, hob, hw, n, hwake⟩ := hokp.aiWait _ _ hk hpc
    have hoid : ob0.id = oid := (obs_mem_of_obs? hob).2
    rw [hpc, allocIngestBlock_first s p.wake oid tl ob0 hob hw]
    simp only
    have hnat : natNow p.wake = n := by rw [hwake]; exact natNow_natCast n
    generalize hX : ((((s.updObs oid (fun r => { r with ast := some (natNow p.wake) })).spawn
            (.provIngest oid ob0.ingestDemand) p.wake).1.spawn (.ingestStream oid 0) p.wake).1.updObs oid
            (fun r => { r with status := .running })) = X
    have hXprocs : X.procs = s.procs ++ [{ pid := s.nextPid, k := .provIngest oid ob0.ingestDemand, wake := p.wake },
        { pid := s.nextPid + 1, k := .ingestStream oid 0, wake := p.wake }] := by
      subst hX; simp
    have hXstarts : X.starts = s.starts := by subst hX; rfl
    have hXadm : X.admitted = s.admitted := by subst hX; rfl
    have hXcl : X.cl = s.cl := by subst hX; rfl
    have hpwX : PW X := by
      subst hX
      have h1 : PW (s.updObs oid (fun r => { r with ast := some (natNow p.wake) })) := ⟨hpw.nodup, hpw.lt⟩
      have h2 := (h1.spawn (.provIngest oid ob0.ingestDemand) p.wake).spawn (.ingestStream oid 0) p.wake
      exact ⟨h2.nodup, h2.lt⟩
    have hupd : ObsUpd s X oid (fun r => { r with ast := some (natNow p.wake), status := .running }) := by
      refine ⟨?_, fun _ => rfl⟩
      subst hX
      simp only [Sys.updObs, Sys.spawn, List.map_map]
      apply List.map_congr_left
      intro r _
      simp only [Function.comp]
      by_cases e : r.id = oid <;> simp [e]
    have hXoid : X.obs? oid = some { ob0 with ast := some (natNow p.wake), status := .running } := by
      rw [hupd.obs? oid, hob]; simp [hoid]
    have hm := memSpec_updProc hpw hp _ hXprocs hpwX
      (fin (.allocIngest oid ((ob0.duration : Int) - 1)) (.timeout 1) p.wake)
    -- no provisioner exists yet for this observation
    have hnoPI : ∀ q ∈ s.procs, ∀ d, q.k ≠ .provIngest oid d := by
      intro q hq d hqk
      obtain ⟨ob, hob', hst⟩ := hU.provObs q hq oid d hqk
      have : s.obs? oid = some ob := hob'
      rw [hob] at this; injection this with e
      subst e; exact hst hw
    refine h.step hpw hp hm (by simp) (by simp) (by rw [hk]; simp only [fin_k]; exact sameClass_ai)
      (by rw [updProc_starts, hXstarts]; exact fun _ h => h)
      (by rw [updProc_admitted, hXadm]; exact fun _ h => h) ?_ ?_ ?_ ?_ ?_ ?_ ?_
      (fun x hx => Or.inl (by rw [updProc_cl, hXcl] at hx; exact hx))
    · intro q hq o d hqk _ ob a hob' hast
      have hne : o ≠ oid := fun e => hnoPI q hq d (e ▸ hqk)
      exact ⟨ob, hupd.other hne hob', hast⟩
    · intro q hq hne o tl' hqk _ ob hob' hst
      have hne' : o ≠ oid := by
        intro e; subst e
        exact hne (h.aiUniq q hq p hp _ _ _ hqk hk)
      exact ⟨ob, hupd.other hne' hob', hst⟩
    · exact hupd.good (fun r hh => by simp at hh)
    · intro _
      constructor
      · intro hd; simp [ha] at hd
      · intro t1 m1 preds1 ph1 tot1 e; simp at e
      · intro t1 m1 preds1 obs1 ing1 ret1 e; simp at e
      · intro t1 m1 preds1 obs1 ing1 ret1 e; simp at e
      · intro o1 d1 e; simp at e
      · intro o1 d1 e; simp at e
      · intro o1 tl1 _ hc; simp at hc
      · intro o1 tl1 e
        simp only [fin_k, PK.allocIngest.injEq] at e
        obtain ⟨rfl, _⟩ := e
        rw [updProc_admitted, hXadm]
        exact hokp.aiAdm _ _ hk
      · intro o1 tl1 e _
        simp only [fin_k, PK.allocIngest.injEq] at e
        obtain ⟨rfl, _⟩ := e
        exact ⟨_, hXoid, by simp⟩
    · intro _ q hq
      simp only [List.mem_cons, List.not_mem_nil, or_false] at hq
      rcases hq with rfl | rfl
      · constructor
        · intro hd; simp at hd
        · intro t1 m1 preds1 ph1 tot1 e; simp at e
        · intro t1 m1 preds1 obs1 ing1 ret1 e; simp at e
        · intro t1 m1 preds1 obs1 ing1 ret1 e; simp at e
        · intro o1 d1 _ hc; simp at hc
        · intro o1 d1 e _
          simp only [PK.provIngest.injEq] at e
          obtain ⟨rfl, _⟩ := e
          exact ⟨_, natNow p.wake, hXoid, rfl, by rw [hnat]; exact hwake⟩
        · intro o1 tl1 e; simp at e
        · intro o1 tl1 e; simp at e
        · intro o1 tl1 e; simp at e
      · exact Ok.of_fresh rfl rfl rfl rfl rfl
    · intro q hq o tl' hqk
      simp only [List.mem_cons, List.not_mem_nil, or_false] at hq
      rcases hq with rfl | rfl <;> simp at hqk
    · intro hkeep
      have hnd := hs.eg.obsNodup
      constructor
      · intro ob' hob' hst
        obtain ⟨ob, hobm, rfl⟩ := hupd.mem hob'
        by_cases e : ob.id = oid
        · have : ob = ob0 := obs_eq_of_id hnd hob hobm e
          subst this
          simp only [e, if_true]
          exact ⟨_, (hm _).mpr (Or.inr (Or.inr (List.mem_cons_self))), rfl⟩
        · simp only [e, if_false] at hst ⊢
          obtain ⟨q, hq, hqk⟩ := h.obs.obsProv ob hobm hst
          obtain ⟨q', hq', hqk', _⟩ := hkeep.pi q hq _ _ hqk
          exact ⟨q', hq', hqk'⟩
      · intro ob' hob' hst
        obtain ⟨ob, hobm, rfl⟩ := hupd.mem hob'
        by_cases e : ob.id = oid
        · simp [e] at hst
        · simp only [e, if_false] at hst ⊢
          obtain ⟨q, hq, hqk, hqc⟩ := h.obs.finProv ob hobm hst
          obtain ⟨q', hq', hqk', hqc'⟩ := hkeep.pi q hq _ _ hqk
          exact ⟨q', hq', hqk', by omega⟩
      · intro ob' hob' hast
        obtain ⟨ob, hobm, rfl⟩ := hupd.mem hob'
        rw [updProc_admitted, hXadm]
        by_cases e : ob.id = oid
        · simp only [e, if_true]
          exact hokp.aiAdm _ _ hk
        · simp only [e, if_false] at hast ⊢
          exact h.obs.astAdm ob hobm hast
      · intro ob' hob'
        obtain ⟨ob, hobm, rfl⟩ := hupd.mem hob'
        have := h.obs.durPos ob hobm
        split <;> exact this
  · -- later blocks: the observation has left WAITING
    obtain ⟨ob, hob, hst⟩ := hokp.aiRun _ _ hk (by omega)
    have hob' : s.obs? oid = some ob := hob
    -- shape of the block
    have key : ∃ X tl' y, s.allocIngestBlock p.wake p.pc oid tl = (X, .allocIngest oid tl', y) ∧
        X.procs = s.procs ∧ X.nextPid = s.nextPid ∧ X.starts = s.starts ∧ X.admitted = s.admitted ∧
        X.obs = s.obs ∧ X.cl.finished = s.cl.finished := by
      unfold allocIngestBlock
      simp only [hpc, if_false]
      unfold allocIngestIter
      simp only [hob']
      by_cases hfin : ob.status = .finished
      · simp only [hfin, if_true]; exact ⟨_, _, _, rfl, rfl, rfl, rfl, rfl, rfl, rfl⟩
      · simp only [hfin, if_false, hst]
        split
        · exact ⟨_, _, _, rfl, rfl, rfl, rfl, rfl, rfl, rfl⟩
        · exact ⟨_, _, _, rfl, rfl, rfl, rfl, rfl, rfl, rfl⟩
    obtain ⟨X, tl', y, heq, hXprocs, hXnp, hXstarts, hXadm, hXobs, hXfin⟩ := key
    rw [heq]
    simp only
    have hpwX : PW X := ⟨by rw [hXprocs]; exact hpw.nodup, by rw [hXprocs, hXnp]; exact hpw.lt⟩
    have hm := memSpec_updProc hpw hp [] (by simp [hXprocs]) hpwX (fin (.allocIngest oid tl') y p.wake)
    refine h.step_obs hpw hp hm (by simp) (by simp) (by rw [hk]; simp only [fin_k]; exact sameClass_ai)
      (by rw [updProc_starts, hXstarts]; exact fun _ h => h) (by rw [updProc_admitted, hXadm])
      (by rw [updProc_obs, hXobs]) ?_ (by simp) (by simp)
      (fun x hx => Or.inl (by rw [updProc_cl, hXfin] at hx; exact hx))
    intro _
    constructor
    · intro _; simp
    · intro t1 m1 preds1 ph1 tot1 e; simp at e
    · intro t1 m1 preds1 obs1 ing1 ret1 e; simp at e
    · intro t1 m1 preds1 obs1 ing1 ret1 e; simp at e
    · intro o1 d1 e; simp at e
    · intro o1 d1 e; simp at e
    · intro o1 tl1 _ hc; simp at hc
    · intro o1 tl1 e
      simp only [fin_k, PK.allocIngest.injEq] at e
      obtain ⟨rfl, _⟩ := e
      rw [updProc_admitted, hXadm]
      exact hokp.aiAdm _ _ hk
    · intro o1 tl1 e _
      simp only [fin_k, PK.allocIngest.injEq] at e
      obtain ⟨rfl, _⟩ := e
      rw [updProc_obs, hXobs]
      exact ⟨ob, hob, hst⟩

end Sys
end Topsim
