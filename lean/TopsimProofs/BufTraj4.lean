/-
  BufTraj4 — the cold tier alone: what a tier-move step does to the part of the
  cold tier's used space that is not (yet / any more) stored there (`cs`), in
  terms of the residual the move process carries.
-/
import TopsimProofs.BufTraj2
import TopsimProofs.TierLemmas

namespace Topsim
namespace Sys

/-- used space of the cold tier minus the sizes of the observations stored there: the data of
the moves in flight -/
def cs (b : Buffer) : Int := b.cold.total - b.cold.cur - sumSz b b.cold.stored

theorem sizeOf_congr {b b' : Buffer} (h : b'.size = b.size) (x : Oid) : b'.sizeOf x = b.sizeOf x := by
  unfold Buffer.sizeOf; rw [h]

theorem sumSz_congr {b b' : Buffer} (h : b'.size = b.size) (L : List Oid) : sumSz b' L = sumSz b L := by
  unfold sumSz
  apply congrArg
  apply List.map_congr_left
  intro x _
  exact sizeOf_congr h x

theorem sumSz_congr_mem {b b' : Buffer} (L : List Oid) (h : ∀ x ∈ L, b'.sizeOf x = b.sizeOf x) :
    sumSz b' L = sumSz b L := by
  unfold sumSz
  apply congrArg
  exact List.map_congr_left h

theorem sumSz_append (b : Buffer) (L : List Oid) (o : Oid) : sumSz b (L ++ [o]) = sumSz b L + b.sizeOf o := by
  unfold sumSz; simp

theorem sumSz_dropLast (b : Buffer) {L : List Oid} {o : Oid} (h : L.getLast? = some o) :
    sumSz b L.dropLast + b.sizeOf o = sumSz b L := by
  have := Buffer.dropLast_append_of_getLast? h
  rw [← sumSz_append, this]

/-- the residual after one receive, for a residual within the observation's size -/
theorem recv_snd_facts (r l sz : Int) (h0 : 0 < l) (_hl : l ≤ sz) (hr : r ≤ 0 → l = sz) :
    0 ≤ (Buffer.recvAmount r l sz).2 ∧ (Buffer.recvAmount r l sz).2 ≤ l ∧
    (0 < (Buffer.recvAmount r l sz).2 → 0 < r) := by
  unfold Buffer.recvAmount
  by_cases h : r > 0
  · simp only [h, if_true]
    split
    · exact ⟨by omega, by omega, fun _ => by first | trivial | omega⟩
    · exact ⟨by omega, by omega, fun _ => by first | trivial | omega⟩
  · simp only [h, if_false]
    have := hr (by omega)
    exact ⟨by omega, by omega, fun h' => by omega⟩

/-- one hot→cold step: the cold tier takes `l - l'`; if nothing is left the observation is
stored there -/
theorem h2cStep_cs (b : Buffer) (o : Oid) (l l' : Int) (h0 : 0 < l) (hl : l ≤ b.sizeOf o)
    (hr : b.moveRate ≤ 0 → l = b.sizeOf o) (hok : (b.hot2coldStep o l).2 = .ok l') :
    cs (b.hot2coldStep o l).1 + (b.sizeOf o - l) = cs b + (if 0 < l' then b.sizeOf o - l' else 0) ∧
    (0 < l' → l' ≤ b.sizeOf o ∧ 0 < b.moveRate) := by
  obtain ⟨e1, _⟩ := Buffer.h2c_step_ok b o l l' hok
  obtain ⟨hsz, _, _, htot, _, hcur, _⟩ := Buffer.hot2coldStep_spec b o l
  obtain ⟨_, _, _, hst, _⟩ := hot2coldStep_lists b o l
  have hf := Buffer.recvAmount_fst b.moveRate l (b.sizeOf o)
  obtain ⟨f1, f2, f3⟩ := recv_snd_facts b.moveRate l (b.sizeOf o) h0 hl hr
  rw [e1] at hst hf f1 f2 f3
  have hsum : sumSz (b.hot2coldStep o l).1 (b.hot2coldStep o l).1.cold.stored
      = sumSz b b.cold.stored + (if l' = 0 then b.sizeOf o else 0) := by
    rw [sumSz_congr hsz, hst]
    split
    · rw [sumSz_append]
    · omega
  unfold cs
  rw [hsum, htot, hcur, hf]
  constructor
  · by_cases h : l' = 0
    · rw [if_pos h, if_neg (by omega)]; omega
    · rw [if_neg h, if_pos (by omega)]; omega
  · intro h; exact ⟨by omega, f3 h⟩

/-- one cold→hot step: the cold tier gives `l - l'` back -/
theorem c2hStep_cs (b : Buffer) (o : Oid) (l l' : Int) (h0 : 0 < l) (hl : l ≤ b.sizeOf o)
    (hr : b.moveRate ≤ 0 → l = b.sizeOf o) (hok : (b.cold2hotStep o l).2 = .ok l') :
    cs (b.cold2hotStep o l).1 + l = cs b + (if 0 < l' then l' else 0) ∧
    (0 < l' → l' ≤ b.sizeOf o ∧ 0 < b.moveRate) := by
  obtain ⟨e1, e2⟩ := Buffer.c2h_step_ok b o l l' hok
  obtain ⟨hsz, _, _, htot, hcur, _, _⟩ := Buffer.cold2hotStep_spec b o l
  obtain ⟨hst, _⟩ := cold2hotStep_lists b o l
  have hf := Buffer.sendAmount_fst b.moveRate l (b.sizeOf o)
  obtain ⟨f1, f2, f3⟩ := recv_snd_facts b.moveRate l (b.sizeOf o) h0 hl hr
  rw [e1] at f1 f2 f3
  rw [e2] at hf
  unfold cs
  rw [sumSz_congr hsz, hst, htot, hcur, hf]
  constructor
  · by_cases h : l' = 0
    · rw [if_neg (by omega)]; omega
    · rw [if_pos (by omega)]; omega
  · intro h; exact ⟨by omega, f3 h⟩

theorem h2cBegin_cold (b : Buffer) :
    b.hot2coldBegin.1.cold = b.cold ∧ b.hot2coldBegin.1.size = b.size ∧
    b.hot2coldBegin.1.hot.maxRate = b.hot.maxRate ∧
    ∀ o l, b.hot2coldBegin.2 = .ok (some (o, l)) → l = b.sizeOf o := by
  unfold Buffer.hot2coldBegin
  split
  · simp
  · simp only
    split
    · simp
    · simp only [Except.ok.injEq, Option.some.injEq, Prod.mk.injEq, true_and]
      intro o l h; rw [← h.1, ← h.2]

theorem c2hBegin_cs (b : Buffer) :
    b.cold2hotBegin.1.size = b.size ∧ b.cold2hotBegin.1.hot.maxRate = b.hot.maxRate ∧
    b.cold2hotBegin.1.cold.maxRate = b.cold.maxRate ∧
    (∀ e, b.cold2hotBegin.2 = .error e → b.cold2hotBegin.1 = b) ∧
    (b.cold2hotBegin.2 = .ok none → cs b.cold2hotBegin.1 = cs b) ∧
    (∀ o l, b.cold2hotBegin.2 = .ok (some (o, l)) → l = b.sizeOf o ∧ cs b.cold2hotBegin.1 = cs b + b.sizeOf o) := by
  unfold Buffer.cold2hotBegin
  cases hl : b.cold.stored.getLast? with
  | none => simp
  | some o =>
    simp only
    have hd := sumSz_dropLast b hl
    have ha := Buffer.dropLast_append_of_getLast? hl
    split
    · refine ⟨rfl, rfl, rfl, fun e h => by simp at h, fun _ => ?_, fun o' l h => by simp at h⟩
      unfold cs
      simp only [ha]
      rfl
    · refine ⟨rfl, rfl, rfl, fun e h => by simp at h, fun h => by simp at h, fun o' l h => ?_⟩
      simp only [Except.ok.injEq, Option.some.injEq, Prod.mk.injEq] at h
      obtain ⟨rfl, rfl⟩ := h
      refine ⟨rfl, ?_⟩
      unfold cs
      simp only
      have : sumSz { b with cold := { b.cold with stored := b.cold.stored.dropLast, transfer := some o } }
          b.cold.stored.dropLast = sumSz b b.cold.stored.dropLast := sumSz_congr rfl _
      rw [this]
      omega

end Sys
end Topsim
