/-
  TaskTable3 — the ids of the record table are distinct, along every run in which
  each planner call lists each node once: BatchPlanning over workflows whose
  topological list has no repetition (`topo.Nodup`, the contract of
  networkx.topological_sort), the static planner with rows of distinct nodes
  (`Oracle.rowsOk`: SHADOW's `task_allocations` is a dict keyed by task).
-/
import TopsimProofs.TaskTable2

namespace Topsim

/-- the rows a static plan hands to the planner name each node once -/
def Oracle.rowsOk (orc : Oracle) : Prop := (orc.plan.map (·.1)).Nodup

namespace Sys

theorem nodup_append_of {α} {a b : List α} (ha : a.Nodup) (hb : b.Nodup) (hd : ∀ x ∈ a, x ∉ b) :
    (a ++ b).Nodup := by
  rw [List.nodup_append]
  exact ⟨ha, hb, fun x hx y hy e => hd x hx (e ▸ hy)⟩

/-- one step keeps the ids of the record table distinct -/
theorem recn_step {s0 s : Sys} (hs : SInv s) (hb : BufI s) (hobs : ObsSame s0.obs s.obs)
    (htopo : ∀ o ∈ s0.obs, o.wf.topo.Nodup) (hri : RecI s) (hnd : (s.tasks.map (·.id)).Nodup)
    {pid : Nat} (_hen : s.enabled pid) (orc : Oracle) (hrows : s.staticPlan = true → orc.rowsOk) :
    ((s.resume pid orc).1.tasks.map (·.id)).Nodup := by
  obtain ⟨U, hU⟩ := hs.ci
  rcases resume_shape s hs.pw pid orc with ⟨_, hM⟩ | ⟨_, p, o, d, recs, hp, _, hk, hpc, ht, hrnd, hid⟩ |
      ⟨p, _, _, _, oid, o, recs, plan, hnx, hob, hrp, ht, _⟩
  · rw [hM.ids]; exact hnd
  · -- the ingest provisioner's first block: no ingest record of this observation exists yet
    rw [ht, List.map_append]
    refine nodup_append_of hnd hrnd ?_
    intro x hx hx'
    obtain ⟨r, hr, rfl⟩ := List.mem_map.mp hx
    obtain ⟨r', hr', e'⟩ := List.mem_map.mp hx'
    obtain ⟨i, _, ei⟩ := hid r' hr'
    obtain ⟨q, hq, d', hqk, hqpc, _⟩ := hri.ingProv r hr o i (e'.symm.trans ei)
    obtain ⟨hpm, _⟩ := proc?_some hp
    have := hU.provUniq q hq p hpm o d' d hqk hk
    have : q = p := hs.pw.eq_of_pid hq hpm this
    subst this
    omega
  · -- planning: the observation has no plan yet, hence no workflow record
    obtain ⟨hom, hoid⟩ := obs_mem_of_obs? hob
    obtain ⟨o0, ho0, _, ew⟩ := hobs.back hom
    obtain ⟨_, hst, _, _⟩ := bufList_next s.buf oid hnx
    have hnoplan : ∀ pl ∈ s.plans, pl.obs ≠ oid := by
      intro pl hpl' e
      have h1 := hb.planLoc pl hpl'
      rw [e] at h1
      have h2 := hb.cnt oid
      have c1 := count_pos_of_mem hst
      have c2 := count_pos_of_mem h1
      unfold locCount bufList at h2
      simp only [List.count_append] at h2 c2
      omega
    obtain ⟨_, _, a3, a4, a5, a6⟩ := planOf_attrs o (natNow p.wake) s.staticPlan orc.plan recs plan hrp
    have hrnd : (recs.map (·.id)).Nodup := by
      rw [← a3]
      cases hsp : s.staticPlan with
      | false =>
        rw [a4 hsp]
        refine nodup_map_of_inj_on _ (by rw [← ew]; exact htopo o0 ho0) ?_
        intro a _ b _ e
        injection e
      | true =>
        rw [a5 hsp]
        have : orc.plan.map (fun x => Tid.wf o.id (natNow p.wake) x.1)
            = (orc.plan.map (·.1)).map (Tid.wf o.id (natNow p.wake)) := by
          rw [List.map_map]; rfl
        rw [this]
        refine nodup_map_of_inj_on _ (hrows hsp) ?_
        intro a _ b _ e
        injection e
    rw [ht, List.map_append]
    refine nodup_append_of hnd hrnd ?_
    intro x hx hx'
    obtain ⟨r, hr, rfl⟩ := List.mem_map.mp hx
    obtain ⟨r', hr', e'⟩ := List.mem_map.mp hx'
    obtain ⟨n, en, _⟩ := a6 r' hr'
    obtain ⟨pl, hpl, ho⟩ := hri.wfPlan r hr o.id (natNow p.wake) n (e'.symm.trans en)
    exact hnoplan pl hpl (ho.trans hoid)

/-! ### runs in which each planner call lists each node once -/

/-- `ReachOk` in which, when the static planner is configured, the rows of every step's oracle name
each node once -/
inductive ReachPl (s0 : Sys) : Sys → Prop
  | start : ReachPl s0 s0.start
  | step (s : Sys) (pid : Nat) (orc : Oracle) :
      ReachPl s0 s → s.enabled pid → (s.alg = .oracle → orc.preOk) → (s.staticPlan = true → orc.rowsOk) →
      ReachPl s0 (s.resume pid orc).1

theorem ReachPl.toOk {s0 s : Sys} (h : ReachPl s0 s) : ReachOk s0 s := by
  induction h with
  | start => exact ReachOk.start
  | step s pid orc _ hen hpre _ ih => exact ReachOk.step s pid orc ih hen hpre

/-- with BatchPlanning the side condition is vacuous -/
theorem ReachOk.toPl {s0 s : Sys} (hstat : s0.staticPlan = false) (h : ReachOk s0 s) : ReachPl s0 s := by
  induction h with
  | start => exact ReachPl.start
  | step s pid orc hr hen hpre ih =>
    refine ReachPl.step s pid orc ih hen hpre (fun e => ?_)
    rw [reach_stat hr.toReach, hstat] at e
    cases e

theorem reachPl_ids_nodup (s0 s : Sys) (hw : WFConfig s0) (hbuf : bufList s0.buf = [])
    (htopo : ∀ o ∈ s0.obs, o.wf.topo.Nodup) (h : ReachPl s0 s) : (s.tasks.map (·.id)).Nodup := by
  induction h with
  | start =>
    obtain ⟨_, _, htasks, _⟩ := hw.fresh
    have ht : s0.start.tasks = [] := by rw [← htasks]; simp [start, spawn]
    rw [ht]; simp
  | step s pid orc hr hen _ hrows ih =>
    have hok := hr.toOk
    exact recn_step (reach_inv s0 s hw hok) (reachOk_bufi s0 s hw hbuf hok) (reach_obsSame hok.toReach) htopo
      (reachOk_reci s0 s hw hok) ih hen orc hrows

/-! ### the simulator -/

/-- the static plans of a simulator run name each node once -/
def _root_.Topsim.SimEnv.rowsOk (env : SimEnv) : Prop := ∀ x ∈ env.staticPlans, (x.2.map (·.1)).Nodup

theorem env_oracle_rowsOk {env : SimEnv} (h : env.rowsOk) (s : Sys) : (env.oracle s).rowsOk := by
  unfold Oracle.rowsOk SimEnv.oracle
  simp only
  split
  · rename_i o _
    cases hg : dictGet env.staticPlans o with
    | none => simp
    | some rows => exact h _ (dictGet_some_mem hg)
  · simp

/-- the simulator's uninterrupted runs are `ReachPl` runs of the block system (up to the `halted`
flag), when its static plans name each node once -/
theorem l3_refines_reachPl (env : SimEnv) (henv : env.rowsOk) (s0 : Sys) (hw : WFConfig s0) (k : SimState)
    (h : SimRun env s0 k) :
    ∃ s, ReachPl s0 s ∧ (k.st = s ∨ (k.st = { s with halted := true } ∧ k.st.halted = true)) := by
  induction h with
  | start => exact ⟨_, ReachPl.start, Or.inl rfl⟩
  | step k k1 hr hh hs ih =>
    obtain ⟨s, hrs, hks⟩ := ih
    rcases hks with hks | ⟨_, hks⟩
    · obtain ⟨hsinv, hheap⟩ := hr.toReach.inv hw
      obtain ⟨_, _, e, _, hc⟩ := il_l3_step env k k1 hsinv hheap hs
      rcases hc with ⟨hc, _⟩ | ⟨hen, _, hc⟩
      · exact ⟨s, hrs, Or.inr ⟨by rw [hc, hks], by rw [hc]⟩⟩
      · refine ⟨_, ReachPl.step s e.pid (env.oracle s) hrs (by rw [← hks]; exact hen)
          (fun _ => il_oracle_preOk env s) (fun _ => env_oracle_rowsOk henv s), Or.inl ?_⟩
        rw [hc, hks]
    · rw [hks] at hh; exact absurd hh (by simp)

/-- transfer of a `ReachPl` theorem to the simulator's runs -/
theorem l3_transfer_pl (env : SimEnv) (henv : env.rowsOk) (s0 : Sys) (hw : WFConfig s0) (P : Sys → Prop)
    (hP : ∀ s, ReachPl s0 s → P s) (hhalt : ∀ s, P s → P { s with halted := true }) (k : SimState)
    (h : SimRun env s0 k) : P k.st := by
  obtain ⟨s, hr, hks | ⟨hks, _⟩⟩ := l3_refines_reachPl env henv s0 hw k h
  · rw [hks]; exact hP s hr
  · rw [hks]; exact hhalt s (hP s hr)

end Sys
end Topsim
