/-
  Live14 — the hypotheses of the no-raise development (`NcCfg`): those of `LiveCfg` without
  `NoRaise`, plus `s0.halted = false`.  F14: H2 (`OneAdmission`: no two observations can be admitted
  by the same block of the telescope) is no longer one of them; the definition is kept for the
  theorems that still mention it.
-/
import TopsimProofs.Live5
import TopsimProofs.Live3

namespace Topsim

open KState Sys

/-- H2: two different observations together exceed the telescope's arrays or the ingest-machine
limit, so the telescope's loop cannot take both in one block (the second visit sees the arrays /
the ingest counter taken by the first) -/
def Sys.OneAdmission (s0 : Sys) : Prop :=
  ∀ o1 ∈ s0.obs, ∀ o2 ∈ s0.obs, o1.id ≠ o2.id →
    s0.totalArrays < o1.demand + o2.demand ∨ s0.maxIngest < o1.ingestDemand + o2.ingestDemand

structure NcCfg (env : SimEnv) (s0 : Sys) : Prop where
  hw : Sys.WFConfig s0
  feas : Sys.Feasible s0
  hb0 : s0.buf.hot.stored = [] ∧ s0.buf.hot.scheduled = [] ∧ s0.buf.hot.finished = [] ∧
      s0.buf.cold.stored = []
  hfull : s0.buf.size = [] ∧ s0.buf.hot.cur = s0.buf.hot.total ∧ s0.buf.cold.cur = s0.buf.cold.total
  hct : s0.buf.cold.transfer = none
  h1 : Sys.NoTierCfg s0
  -- F14: the field `h2 : Sys.OneAdmission s0` is gone — the repaired admission test makes it unnecessary
  alg : s0.alg = .queue
  stat : s0.staticPlan = false
  topo : ∀ o ∈ s0.obs, IsTopo o.wf
  hh0 : s0.halted = false

theorem NcCfg.toLive {env : SimEnv} {s0 : Sys} (N : NcCfg env s0) (hnr : NoRaise env s0) : LiveCfg env s0 :=
  ⟨N.hw, N.feas, N.hb0, N.hfull, N.hct, N.h1, N.alg, N.stat, N.topo, hnr⟩

end Topsim
