/-
  OnTime11 — concrete runs of the deterministic simulator on the configuration
  `otW D n`: three machines, ingest limit 2, one observation planned at t = 1 with
  duration `D`, one array, ingest rate 1, `n` ingest machines, no workflow;
  queue algorithm; no delay model.

  * `D = 3`: admitted at 1 = its planned start (the system is idle); two machines
    are held at t = 2 and all through t = 3; they are still held when the telescope
    finishes the observation at t = 4 = ast + D, and given back later in that instant.
    -- F13: before the repair both were given back inside the instant t = 3 = ast + D - 1.
  * `D = 2`: the machines are still held when the telescope finishes the
    observation at t = 3 = ast + D, and given back later in that instant.
-/
import TopsimProofs.OnTime10

namespace Topsim

open KState Sys

namespace Sys

def otObs (D n : Nat) : Obs :=
  { id := 0, est := 1, duration := D, demand := 1, rate := 1, ingestDemand := n, wf := ⟨[], [], []⟩ }

def otW (D n : Nat) : Sys :=
  { machines := [⟨0, 1, 1⟩, ⟨1, 1, 1⟩, ⟨2, 1, 1⟩], totalArrays := 3, maxIngest := 2, alg := .queue,
    cl := Cluster.init [0, 1, 2], buf := Buffer.init 100 10 100 10,
    obs := [otObs D n] }

theorem otW_wf (D n : Nat) (hD : 1 ≤ D) : WFConfig (otW D n) := by
  refine ⟨?_, rfl, ?_, ?_, ⟨rfl, rfl, rfl, rfl, rfl, rfl, rfl, rfl, rfl, rfl, rfl, rfl, rfl,
    rfl, rfl, rfl, rfl⟩⟩
  · show ([0, 1, 2] : List Nat).Nodup
    decide
  · show ([0] : List Nat).Nodup
    decide
  · intro o ho
    simp only [otW, List.mem_cons, List.not_mem_nil, or_false] at ho
    subst ho
    exact ⟨rfl, rfl, Nat.le_refl 1, hD⟩

end Sys

/-- what the witnesses read off a state: the time and the liveness of the process about to be
resumed, the ingest pool, the machines held for observation 0, its record, the exception flag -/
structure OtView where
  time : Option Time
  alive : Option Bool
  pool : List Mid
  held : Nat
  status : Option RunStatus
  ast : Option (Option Nat)
  crashed : Option Err
  duration : Option Nat
  demand : Option Nat
  deriving DecidableEq

def otView (k : SimState) : OtView :=
  { time := k.peek.map (·.time), alive := (k.peek.bind (fun e => k.st.proc? e.pid)).map (·.alive),
    pool := k.st.cl.ingest, held := k.st.ingestHeld 0, status := (k.st.obs? 0).map (·.status),
    ast := (k.st.obs? 0).map (·.ast), crashed := k.st.crashed,
    duration := (k.st.obs? 0).map (·.duration), demand := (k.st.obs? 0).map (·.ingestDemand) }

unseal Rat.add in
/-- duration 3, two ingest machines: the states before kernel steps 6 (the telescope's block at
t = 1, the system idle), 7 (admitted, start 1), 17 (t = 2: two machines held), 33 (t = 3, still
two), 35 (t = 3, after the two allocation processes have polled: still two), 40 (t = 4 = ast + 3:
the telescope's block is next, two machines held, RUNNING), 41 (FINISHED, two held), 43 (one given
back), 44 (both given back) -/
-- F13: before the repair step 35 showed an empty pool (both machines given back at t = 3)
theorem otSim3 :
    otView (ilSimSteps {} 6 (SimState.start (otW 3 2))) = ⟨some 1, some true, [], 0, some .waiting, some none, none, some 3, some 2⟩ ∧
    otView (ilSimSteps {} 7 (SimState.start (otW 3 2))) = ⟨some 1, some true, [], 0, some .waiting, some (some 1), none, some 3, some 2⟩ ∧
    otView (ilSimSteps {} 17 (SimState.start (otW 3 2))) = ⟨some 2, some true, [0, 1], 2, some .running, some (some 1), none, some 3, some 2⟩ ∧
    otView (ilSimSteps {} 33 (SimState.start (otW 3 2))) = ⟨some 3, some true, [0, 1], 2, some .running, some (some 1), none, some 3, some 2⟩ ∧
    otView (ilSimSteps {} 35 (SimState.start (otW 3 2))) = ⟨some 3, some true, [0, 1], 2, some .running, some (some 1), none, some 3, some 2⟩ ∧
    otView (ilSimSteps {} 40 (SimState.start (otW 3 2))) = ⟨some 4, some true, [0, 1], 2, some .running, some (some 1), none, some 3, some 2⟩ ∧
    otView (ilSimSteps {} 41 (SimState.start (otW 3 2))) = ⟨some 4, some true, [0, 1], 2, some .finished, some (some 1), none, some 3, some 2⟩ ∧
    otView (ilSimSteps {} 43 (SimState.start (otW 3 2))) = ⟨some 4, some true, [1], 1, some .finished, some (some 1), none, some 3, some 2⟩ ∧
    otView (ilSimSteps {} 44 (SimState.start (otW 3 2))) = ⟨some 4, some true, [], 0, some .finished, some (some 1), none, some 3, some 2⟩ := by
  decide

unseal Rat.add in
/-- duration 2: at t = 3 = ast + 2, after the telescope's block (observation FINISHED), both machines
are still held (step 32); they are given back later in that instant (step 35) -/
theorem otSim2 :
    otView (ilSimSteps {} 32 (SimState.start (otW 2 2))) = ⟨some 3, some true, [0, 1], 2, some .finished, some (some 1), none, some 2, some 2⟩ ∧
    otView (ilSimSteps {} 35 (SimState.start (otW 2 2))) = ⟨some 3, some true, [], 0, some .finished, some (some 1), none, some 2, some 2⟩ := by
  decide

/-- the process about to be resumed and the record of observation 0, from a view -/
theorem otView_spec {k : SimState} {t : Time} {c : List Mid} {n : Nat} {st : RunStatus} {ast : Option Nat}
    {cr : Option Err} {D dem : Nat}
    (h : otView k = ⟨some t, some true, c, n, some st, some ast, cr, some D, some dem⟩) :
    (∃ e p, k.peek = some e ∧ k.st.proc? e.pid = some p ∧ p.alive = true ∧ e.time = t) ∧
    (∃ ob, k.st.obs? 0 = some ob ∧ ob.status = st ∧ ob.ast = ast ∧ ob.duration = D ∧ ob.ingestDemand = dem) ∧
    k.st.cl.ingest = c ∧ k.st.ingestHeld 0 = n ∧ k.st.crashed = cr := by
  unfold otView at h
  simp only [OtView.mk.injEq] at h
  obtain ⟨h1, h2, h3, h4, h5, h6, h7, h8, h9⟩ := h
  refine ⟨?_, ?_, h3, h4, h7⟩
  · cases hpk : k.peek with
    | none => rw [hpk] at h1; simp at h1
    | some e =>
      rw [hpk] at h1 h2
      simp only [Option.map_some, Option.some.injEq, Option.bind_some] at h1 h2
      cases hp : k.st.proc? e.pid with
      | none => rw [hp] at h2; simp at h2
      | some p =>
        rw [hp] at h2
        simp only [Option.map_some, Option.some.injEq] at h2
        exact ⟨e, p, rfl, hp, h2, h1⟩
  · cases hob : k.st.obs? 0 with
    | none => rw [hob] at h5; simp at h5
    | some ob =>
      rw [hob] at h5 h6 h8 h9
      simp only [Option.map_some, Option.some.injEq] at h5 h6 h8 h9
      exact ⟨ob, rfl, h5, h6, h8, h9⟩

/-- the telescope's loop -/
def otIsTel : PK → Bool
  | .telescope => true
  | _ => false

theorem otIsTel_eq {k : PK} (h : otIsTel k = true) : k = .telescope := by
  cases k <;> simp [otIsTel] at h
  rfl

unseal Rat.add in
/-- duration 3, before kernel step 6: the kernel is about to resume the telescope's loop at t = 1, the
planned start of observation 0, which is WAITING; the system is completely idle -/
theorem otSim3_idle :
    ((ilSimSteps {} 6 (SimState.start (otW 3 2))).peek.bind
        (fun e => (ilSimSteps {} 6 (SimState.start (otW 3 2))).st.proc? e.pid)).map
      (fun p => (p.alive, otIsTel p.k, p.wake)) = some (true, true, 1) ∧
    ((ilSimSteps {} 6 (SimState.start (otW 3 2))).st.obs? 0).map
      (fun ob => (ob.est, ob.demand, ob.ingestDemand, ob.rate * (ob.duration : Int), ob.status)) = some (1, 1, 2, 3, .waiting) ∧
    (ilSimSteps {} 6 (SimState.start (otW 3 2))).st.telUse = 0 ∧
    (ilSimSteps {} 6 (SimState.start (otW 3 2))).st.cl.isIdle = true ∧
    (ilSimSteps {} 6 (SimState.start (otW 3 2))).st.cl.idleAll = [] ∧
    (ilSimSteps {} 6 (SimState.start (otW 3 2))).st.provIngest = 0 ∧
    (ilSimSteps {} 6 (SimState.start (otW 3 2))).st.buf.isEmpty = true ∧
    (ilSimSteps {} 6 (SimState.start (otW 3 2))).st.queue = [] ∧
    (ilSimSteps {} 6 (SimState.start (otW 3 2))).st.totalArrays = 3 ∧
    (ilSimSteps {} 6 (SimState.start (otW 3 2))).st.maxIngest = 2 ∧
    (ilSimSteps {} 6 (SimState.start (otW 3 2))).st.cl.machines.length = 3 ∧
    (ilSimSteps {} 6 (SimState.start (otW 3 2))).st.buf.hot.total = 100 ∧
    (ilSimSteps {} 6 (SimState.start (otW 3 2))).st.buf.coldHasCapacityFor 3 = true := by
  decide

end Topsim
