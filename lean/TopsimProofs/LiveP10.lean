/-
  LiveP10 — the declarations of Live10.lean that depend on the configuration structures, restated for
  the plan-following configurations (`LivePCfg`, `NcPCfg`, `L7PLib`); the proofs are those of Live10.lean.
-/
import TopsimProofs.LiveP9

namespace Topsim

open KState Sys

namespace Sys

end Sys

section

variable {env : SimEnv} {s0 : Sys}

theorem live_nextPid_step_P (C : LivePCfg env s0) (K : LiveKernel env s0) (n : Nat) {e : HEntry} {p : Proc}
    (hpk : (simAt env s0 n).peek = some e) (hpp : (simAt env s0 n).st.proc? e.pid = some p)
    (ha : p.alive = true) :
    (simAt env s0 (n + 1)).st.nextPid =
      ((simAt env s0 n).st.block p (env.oracle (simAt env s0 n).st)).1.nextPid ∧
    (simAt env s0 (n + 1)).st.obs =
      ((simAt env s0 n).st.block p (env.oracle (simAt env s0 n).st)).1.obs := by
  obtain ⟨e', p', hpk', hpp', _, _, _, _, hst⟩ := live_step_P C K n
  rw [hpk] at hpk'
  cases hpk'
  rw [hpp] at hpp'
  cases hpp'
  rw [hst]
  exact ⟨(il_resume_procs_eq _ _ _ p hpp ha).2.1, (il_resume_fields _ _ _ p hpp ha).1⟩

/-- **Which blocks create processes.** -/
theorem live_spawn_cases_P (C : LivePCfg env s0) (K : LiveKernel env s0) (Pt : LiveParts env s0) (n : Nat)
    (hsp : (simAt env s0 n).st.nextPid < (simAt env s0 (n + 1)).st.nextPid) :
    ∃ e p, (simAt env s0 n).peek = some e ∧ (simAt env s0 n).st.proc? e.pid = some p ∧ p.alive = true ∧
      ((∃ o, (∃ ob, (simAt env s0 n).st.obs? o = some ob) ∧ ¬ Sys.PAdm o (simAt env s0 n).st ∧
          Sys.PAdm o (simAt env s0 (n + 1)).st) ∨
       (∃ o, (∃ ob, (simAt env s0 n).st.obs? o = some ob) ∧ ¬ Sys.PRun o (simAt env s0 n).st ∧
          Sys.PRun o (simAt env s0 (n + 1)).st) ∨
       (∃ o, (∃ ob, (simAt env s0 n).st.obs? o = some ob) ∧ ¬ Sys.PQ o (simAt env s0 n).st ∧
          Sys.PQ o (simAt env s0 (n + 1)).st) ∨
       (∃ o, ∃ ob ∈ s0.obs, ob.id = o ∧ ∃ node ∈ ob.wf.topo,
          ¬ Sys.PAT o node (simAt env s0 n).st ∧ Sys.PAT o node (simAt env s0 (n + 1)).st) ∨
       (p.pc = 0 ∧ (p.k.tag = "provIngest" ∨ p.k.tag = "allocTask"))) := by
  obtain ⟨e, p, hpk, hpp, ha, het, hen, hs, hst⟩ := live_step_P C K n
  obtain ⟨hnp, hobs⟩ := live_nextPid_step_P C K n hpk hpp ha
  refine ⟨e, p, hpk, hpp, ha, ?_⟩
  have hinv := (K.reach n).l3inv C.hw
  obtain ⟨hpm, hpid⟩ := proc?_some hpp
  rw [hnp] at hsp
  cases hk : p.k with
  | monitor =>
    exfalso
    rw [(block_mon _ p _ hk).1] at hsp
    exact Nat.lt_irrefl _ hsp
  | telescope =>
    left
    exact Pt.tel_spawn n hpk hpp ha hk (by rw [hnp]; exact hsp)
  | clusterLoop =>
    exfalso
    rw [block_clusterLoop _ hk] at hsp
    exact Nat.lt_irrefl _ hsp
  | schedLoop =>
    right; right; left
    exact Pt.schedLoop_spawn n hpk hpp ha hk (by rw [hnp]; exact hsp)
  | bufferLoop =>
    exfalso
    have := Pt.bufferLoop_no_spawn n hpk hpp ha hk
    rw [hnp] at this
    rw [this] at hsp
    exact Nat.lt_irrefl _ hsp
  | allocIngest o tl =>
    right; left
    rw [block_allocIngest _ hk] at hsp
    obtain ⟨ob, hob, hw, ob', hob', hr⟩ := Sys.allocIngestBlock_spawn _ _ _ _ _ hsp
    refine ⟨o, ⟨ob, hob⟩, ?_, ?_⟩
    · rintro ⟨ob2, hob2, hne⟩
      rw [hob] at hob2
      cases hob2
      exact hne hw
    · refine ⟨ob', ?_, by rw [hr]; simp⟩
      rw [obs?_congr hobs, block_allocIngest _ hk]
      exact hob'
  | provIngest o d =>
    right; right; right; right
    refine ⟨?_, Or.inl rfl⟩
    by_cases hpc : p.pc = 0
    · exact hpc
    · exfalso
      rw [block_provIngest _ hk, Sys.provIngestBlock_nextPid_later _ _ _ _ _ hpc] at hsp
      exact Nat.lt_irrefl _ hsp
  | ingestStream o tl =>
    exfalso
    rw [block_ingestStream _ hk, Sys.ingestStreamBlock_nextPid] at hsp
    exact Nat.lt_irrefl _ hsp
  | allocTask t m preds obs ing ret =>
    right; right; right; right
    refine ⟨?_, Or.inr rfl⟩
    by_cases hpc : p.pc = 0
    · exact hpc
    exfalso
    obtain ⟨U, hU⟩ := hinv.sinv.ci
    have hent := hU.runOn p hpm ha t m preds obs ing ret hk (by omega)
    have hrun : t ∈ (simAt env s0 n).st.cl.running := by
      rw [← hU.inv.runOnTasks]
      exact List.mem_map_of_mem (f := (·.task)) hent
    rw [block_allocTask _ hk, Sys.allocTaskBlock_nextPid_running _ _ _ _ _ _ _ _ hrun] at hsp
    exact Nat.lt_irrefl _ hsp
  | doWork t m preds ph tot =>
    exfalso
    rw [block_doWork _ hk, (doWorkBlock_spec _ _ _ _ _ _ _ _).2.1] at hsp
    exact Nat.lt_irrefl _ hsp
  | allocTasks o sc pa po fn =>
    right; right; right; left
    obtain ⟨ob, hob, hid, node, hnode, h1, h2⟩ := Pt.ats_spawn n hpk hpp ha hk (by rw [hnp]; exact hsp)
    exact ⟨o, ob, hob, hid, node, hnode, h1, h2⟩
  | hot2cold cur =>
    exfalso
    exact ((Pt.noTier n).1 p hpm).1 (by rw [hk]; rfl)
  | cold2hot cur =>
    exfalso
    exact ((Pt.noTier n).1 p hpm).2 (by rw [hk]; rfl)

end

end Topsim

