/-
  FinishBuf9 — `BufI` is preserved by every step and holds along every run of a
  shipped algorithm.
-/
import TopsimProofs.FinishBuf8

namespace Topsim
namespace Sys

theorem bufi_step {s : Sys} (hs : SInv s) (h : BufI s) {pid : Nat} (hen : s.enabled pid) (orc : Oracle)
    (hpre : s.alg = .oracle → orc.preOk) : BufI (s.resume pid orc).1 := by
  obtain ⟨p, hp, ha, hmin⟩ := hen
  obtain ⟨hpm, hpid⟩ := proc?_some hp
  subst hpid
  have hcore := resume_core s p.pid orc p hp ha
  have hpw := hs.pw
  refine BufI.congr (a := (s.block p orc).1.updProc p.pid (fin (s.block p orc).2.1 (s.block p orc).2.2 p.wake)) ?_
    (resume_buf s p.pid orc p hp ha) hcore.procs hcore.obs (resume_plans s p.pid orc p hp ha)
  cases hk : p.k with
  | monitor =>
    have hb : s.block p orc = ((s.monitorBlock p.wake).1, p.k, (s.monitorBlock p.wake).2) := by
      unfold block; simp only [hk]
    have hpres : Pres s (s.block p orc).1 := by rw [hb]; exact monitorBlock_pres _ _
    obtain ⟨new, hprocs, hnew⟩ := hnew_of_shape hpres.shape
    exact bufi_quiet hs h hpm ha orc (by simp [hk, PK.tag]) (by simp [hk, PK.tag]) (by simp [hk, PK.tag])
      (by simp [hk, PK.tag]) (by simp [hk, PK.tag]) new hprocs (hpres.pw hpw) hnew
  | telescope =>
    have hb : s.block p orc = ((s.telescopeBlock p.wake).1, .telescope, (s.telescopeBlock p.wake).2) := by
      unfold block; simp only [hk]
    obtain ⟨hc, _, _⟩ := telescope_key hs.eg hpm ha hmin hk
    obtain ⟨new, hprocs, hnewk⟩ := telescopeBlock_procs s p.wake
    exact bufi_quiet hs h hpm ha orc (by simp [hk, PK.tag]) (by simp [hk, PK.tag]) (by simp [hk, PK.tag])
      (by simp [hk, PK.tag]) (by simp [hk, PK.tag]) new (by rw [hb]; exact hprocs) (by rw [hb]; exact hc.pw hpw)
      (hnew_of_tag hnewk (by decide) (by decide) (by decide))
  | clusterLoop =>
    have hb : s.block p orc = ({ s with cl := s.cl.loopTick }, p.k, .timeout 1) := by
      unfold block; simp only [hk]
    have hpres : Pres s (s.block p orc).1 := by rw [hb]; exact clusterLoop_pres _
    obtain ⟨new, hprocs, hnew⟩ := hnew_of_shape hpres.shape
    exact bufi_quiet hs h hpm ha orc (by simp [hk, PK.tag]) (by simp [hk, PK.tag]) (by simp [hk, PK.tag])
      (by simp [hk, PK.tag]) (by simp [hk, PK.tag]) new hprocs (hpres.pw hpw) hnew
  | schedLoop =>
    have hb : s.block p orc = ((s.schedLoopBlock p.wake orc).1, p.k, (s.schedLoopBlock p.wake orc).2) := by
      unfold block; simp only [hk]
    rw [hb]
    simp only
    have hpres := schedLoopBlock_pres s p.wake orc
    obtain ⟨new, hprocs, hnew⟩ := hnew_of_shape hpres.shape
    obtain ⟨g1, g2⟩ := schedLoopBlock_bufRel h p.wake orc
    refine h.step_count hpw new hprocs (hpres.pw hpw) hpm ha _ _ hnew ?_ ?_ (ObsMonoS.of_eq hpres.shape.obs) g2
    · intro o tl e; rw [hk] at e; simp at e
    · intro x
      rw [g1 x, hk]
      show _ + (yTok .schedLoop _).count x ≤ _ + (tokK .schedLoop).count x
      rw [yTok_of_tag _ (by decide) (by decide), tokK_of_tag (by decide) (by decide)]
      exact Nat.le_refl _
  | bufferLoop =>
    have hb : s.block p orc = ((s.bufferLoopBlock p.wake).1, p.k, (s.bufferLoopBlock p.wake).2) := by
      unfold block; simp only [hk]
    have hpres : Pres s (s.block p orc).1 := by rw [hb]; exact bufferLoopBlock_pres _ _
    obtain ⟨new, hprocs, hnew⟩ := hnew_of_shape hpres.shape
    exact bufi_quiet hs h hpm ha orc (by simp [hk, PK.tag]) (by simp [hk, PK.tag]) (by simp [hk, PK.tag])
      (by simp [hk, PK.tag]) (by simp [hk, PK.tag]) new hprocs (hpres.pw hpw) hnew
  | allocIngest o tl =>
    have hb : s.block p orc = s.allocIngestBlock p.wake p.pc o tl := by
      unfold block; simp only [hk]
    have hpwX : PW (s.block p orc).1 := by rw [hb]; exact (allocIngestBlock_E s p.wake p.pc o tl).1.pw hpw
    have h1 : p.k.tag ≠ "schedLoop" := by simp [hk, PK.tag]
    have h2 : p.k.tag ≠ "ingestStream" := by simp [hk, PK.tag]
    have h3 : p.k.tag ≠ "allocTasks" := by simp [hk, PK.tag]
    have h4 : p.k.tag ≠ "hot2cold" := by simp [hk, PK.tag]
    have h5 : p.k.tag ≠ "cold2hot" := by simp [hk, PK.tag]
    rcases allocIngestBlock_procs s p.wake p.pc o tl with hsame | ⟨ob, d, hob, hw, hprocs, hbeg⟩
    · exact bufi_quiet hs h hpm ha orc h1 h2 h3 h4 h5 [] (by rw [hb]; simpa using hsame) hpwX (by simp)
    · have hnb : ¬ Begun s.obs o := by
        rintro ⟨ob', hob', hst⟩
        have : s.obs? o = some ob' := hob'
        rw [hob] at this; injection this with e
        subst e; exact hst hw
      have htag := block_tag s hpw p orc
      exact h.addStream hpw o d p.wake (block_buf s p orc h1 h2 h3 h4 h5) (block_plans s p orc h1 h3)
        (block_obsMono s p orc) (by rw [hb]; exact hprocs) hnb (by rw [hb]; exact hbeg) hpwX hpm ha _ _ tl hk
        (by rw [htag, hk]; rfl)
  | provIngest o d =>
    have hb : s.block p orc = s.provIngestBlock p.wake p.pc o d := by
      unfold block; simp only [hk]
    obtain ⟨new, hprocs, hnewk⟩ := provIngestBlock_procs s p.wake p.pc o d
    exact bufi_quiet hs h hpm ha orc (by simp [hk, PK.tag]) (by simp [hk, PK.tag]) (by simp [hk, PK.tag])
      (by simp [hk, PK.tag]) (by simp [hk, PK.tag]) new (by rw [hb]; exact hprocs)
      (by rw [hb]; exact (provIngestBlock_presE s p.wake p.pc o d).1.pw hpw)
      (hnew_of_tag hnewk (by decide) (by decide) (by decide))
  | ingestStream o tl =>
    have hb : s.block p orc = s.ingestStreamBlock p.wake p.pc o tl := by
      unfold block; simp only [hk]
    rw [hb]
    exact bufi_ingestStream hs h hpm ha hk
  | allocTask t m preds obs ing ret =>
    have hb : s.block p orc = s.allocTaskBlock p.wake t m preds obs ing ret := by
      unfold block; simp only [hk]
    obtain ⟨new, hprocs, hnewk⟩ := allocTaskBlock_procs s hpw p.wake t m preds obs ing ret
    exact bufi_quiet hs h hpm ha orc (by simp [hk, PK.tag]) (by simp [hk, PK.tag]) (by simp [hk, PK.tag])
      (by simp [hk, PK.tag]) (by simp [hk, PK.tag]) new (by rw [hb]; exact hprocs)
      (by rw [hb]; exact (allocTaskBlock_presE s hpw p.wake t m preds obs ing ret).1.pw hpw)
      (hnew_of_tag hnewk (by decide) (by decide) (by decide))
  | doWork t m preds ph tot =>
    have hb : s.block p orc = s.doWorkBlock p.wake orc t m preds ph tot := by
      unfold block; simp only [hk]
    exact bufi_quiet hs h hpm ha orc (by simp [hk, PK.tag]) (by simp [hk, PK.tag]) (by simp [hk, PK.tag])
      (by simp [hk, PK.tag]) (by simp [hk, PK.tag]) [] (by rw [hb]; simpa using doWorkBlock_procs s p.wake orc t m preds ph tot)
      (by rw [hb]; exact (doWorkBlock_presE s p.wake orc t m preds ph tot).1.pw hpw) (by simp)
  | allocTasks o sc pa po fin =>
    have hb : s.block p orc = s.allocTasksBlock p.wake orc p.pc o sc pa po fin := by
      unfold block; simp only [hk]
    have hpres : Pres s (s.block p orc).1 := by
      rw [hb]; exact allocTasksBlock_pres _ _ _ hpre _ _ _ _ _ _
    have hrel : BufRel s (s.block p orc).1 := by
      rw [hb]
      cases fin with
      | true => rw [allocTasksBlock_fin]; exact BufRel.refl _
      | false =>
        rw [allocTasksBlock_eq]
        exact (BufRel.atStart s p.wake p.pc o).trans (allocTasksIter_bufRel _ _ _ _ _ _ _)
    exact bufi_of_rel hs h hpm ha _ _ _ hrel hpres.shape (hpres.pw hpw) (by simp [hk, PK.tag])
      (by simp [hk, PK.tag]) (by simp [hk, PK.tag]) (block_tag s hpw p orc)
  | hot2cold cur =>
    have hb : s.block p orc = s.hot2coldBlock p.wake cur := by
      unfold block; simp only [hk]
    rw [hb]
    exact bufi_hot2cold hs h hpm ha hk
  | cold2hot cur =>
    have hb : s.block p orc = s.cold2hotBlock p.wake cur := by
      unfold block; simp only [hk]
    rw [hb]
    exact bufi_cold2hot hs h hpm ha hk

theorem start_bufi (s0 : Sys) (hw : WFConfig s0) (hbuf : bufList s0.buf = []) : BufI s0.start := by
  obtain ⟨hprocs, _, _, hplans, _⟩ := hw.fresh
  have hp : s0.start.procs = s0.procs ++
      [{ pid := s0.nextPid, k := .monitor, wake := 0 }, { pid := s0.nextPid + 1, k := .telescope, wake := 0 },
       { pid := s0.nextPid + 2, k := .clusterLoop, wake := 0 }, { pid := s0.nextPid + 3, k := .schedLoop, wake := 0 },
       { pid := s0.nextPid + 4, k := .bufferLoop, wake := 0 }] := by
    simp [start, spawn]
  have hb : s0.start.buf = s0.buf := by simp [start, spawn]
  have hpl : s0.start.plans = s0.plans := by simp [start, spawn]
  rw [hprocs] at hp
  simp only [List.nil_append] at hp
  have hloc : ∀ o, locCount s0.start o = 0 := by
    intro o
    unfold locCount toks
    rw [hb, hbuf, hp]
    simp [tok, tokK]
  constructor
  · intro o; rw [hloc]; omega
  · intro p _ _ o _ _; exact hloc o
  · intro p hp' q _ o tl tl' hk
    rw [hp] at hp'
    simp only [List.mem_cons, List.not_mem_nil, or_false] at hp'
    rcases hp' with rfl | rfl | rfl | rfl | rfl <;> simp at hk
  · intro p hp' o tl hk
    rw [hp] at hp'
    simp only [List.mem_cons, List.not_mem_nil, or_false] at hp'
    rcases hp' with rfl | rfl | rfl | rfl | rfl <;> simp at hk
  · intro o hpos; rw [hloc] at hpos; omega
  · rw [hpl, hplans]; intro pl hpl'; simp at hpl'

theorem reach_bufi (s0 s : Sys) (hw : WFConfig s0) (hbuf : bufList s0.buf = []) (hno : s0.alg ≠ .oracle)
    (h : Reach s0 s) : BufI s := by
  induction h with
  | start => exact start_bufi s0 hw hbuf
  | step s pid orc hr hen ih =>
    have halg := reach_alg hr
    exact bufi_step (reach_inv s0 s hw (hr.toOk hno)) ih hen orc (fun e => absurd e (by rw [halg]; exact hno))

theorem reachOk_bufi (s0 s : Sys) (hw : WFConfig s0) (hbuf : bufList s0.buf = []) (h : ReachOk s0 s) :
    BufI s := by
  induction h with
  | start => exact start_bufi s0 hw hbuf
  | step s pid orc hr hen hpre ih => exact bufi_step (reach_inv s0 s hw hr) ih hen orc hpre

end Sys
end Topsim
