/-
  PlanFollow2 — the plan-following invariant `PF` (every local schedule entry, every allocation
  process of the scheduler, every workflow task body and every polling entry of the cluster names
  the planned machine of its task) and the generic step that preserves it.
-/
import TopsimProofs.PlanFollow1

namespace Topsim
namespace Sys

open Cluster

theorem OnPlan.congr {a b : Sys} (ht : b.tasks = a.tasks) {t : Tid} {m : Mid} (h : OnPlan a t m) :
    OnPlan b t m :=
  h.keep (PlanKeep.of_eq ht)

structure PF (s : Sys) : Prop where
  /-- the local schedule of an `allocate_tasks` process names planned machines -/
  sched : ∀ p ∈ s.procs, ∀ o sc pa po fn, p.k = .allocTasks o sc pa po fn → ∀ x ∈ sc, OnPlan s x.1 x.2
  /-- a scheduler-side allocation process carries a task and its planned machine -/
  alloc : ∀ p ∈ s.procs, ∀ t m cross obs ret, p.k = .allocTask t m cross obs false ret → OnPlan s t m
  /-- the body of a task that is not an ingest task is on the planned machine -/
  body : ∀ p ∈ s.procs, ∀ t m preds ph tot, p.k = .doWork t m preds ph tot → t.isIngest = false → OnPlan s t m
  /-- the polling entries of the cluster that are not for ingest -/
  ro : ∀ e ∈ s.cl.runOn, e.ing = false → OnPlan s e.task e.mach

theorem PF.core {a b : Sys} (h : PF a) (e : Core8 a b) : PF b := by
  have hc : ∀ {t m}, OnPlan a t m → OnPlan b t m := fun h => h.congr e.tasks
  constructor
  · rw [e.procs]; intro p hp o sc pa po fn hk x hx; exact hc (h.sched p hp o sc pa po fn hk x hx)
  · rw [e.procs]; intro p hp t m cross obs ret hk; exact hc (h.alloc p hp t m cross obs ret hk)
  · rw [e.procs]; intro p hp t m preds ph tot hk hi; exact hc (h.body p hp t m preds ph tot hk hi)
  · rw [e.cl]; intro x hx hi; exact hc (h.ro x hx hi)

/-- the generic step -/
theorem PF.step {s : Sys} (h : PF s) (hs : SInv s) {p : Proc} (hp : p ∈ s.procs) (ha : p.alive = true)
    (hmin : ∀ q ∈ s.procs, q.alive = true → p.wake ≤ q.wake) (orc : Oracle)
    (hK : PlanKeep s (s.block p orc).1)
    (hown : (∀ o sc pa po fn, (s.block p orc).2.1 = .allocTasks o sc pa po fn →
        ∀ x ∈ sc, OnPlan (s.block p orc).1 x.1 x.2) ∧
      (∀ t m cross obs ret, (s.block p orc).2.1 = .allocTask t m cross obs false ret →
        OnPlan (s.block p orc).1 t m) ∧
      (∀ t m preds ph tot, (s.block p orc).2.1 = .doWork t m preds ph tot → t.isIngest = false →
        OnPlan (s.block p orc).1 t m))
    (hnew : ∀ q ∈ (s.block p orc).1.procs, q ∉ s.procs → Harmless q.k ∨
      (∃ t m cross obs ret, q.k = .allocTask t m cross obs false ret ∧ OnPlan (s.block p orc).1 t m) ∨
      (∃ t m preds ph tot, q.k = .doWork t m preds ph tot ∧
        (t.isIngest = false → OnPlan (s.block p orc).1 t m)))
    (hro : ∀ e ∈ (s.block p orc).1.cl.runOn, e ∈ s.cl.runOn ∨
      (e.ing = false → OnPlan (s.block p orc).1 e.task e.mach)) :
    PF ((s.block p orc).1.updProc p.pid (fin (s.block p orc).2.1 (s.block p orc).2.2 p.wake)) := by
  obtain ⟨hpre, hpwX⟩ := block_pre_str hs.pw hs.eg hp ha hmin orc
  have hpX : p ∈ (s.block p orc).1.procs := hpre.subset hp
  have hmem := fun q => (mem_updProc_iff hpwX hpX (fin (s.block p orc).2.1 (s.block p orc).2.2 p.wake) q).mp
  have hY : ∀ {t m}, OnPlan (s.block p orc).1 t m →
      OnPlan ((s.block p orc).1.updProc p.pid (fin (s.block p orc).2.1 (s.block p orc).2.2 p.wake)) t m :=
    fun h => h.congr rfl
  constructor
  · intro q hq o sc pa po fn hqk x hx
    apply hY
    rcases hmem q hq with rfl | ⟨hq1, _⟩
    · simp only [fin_k] at hqk
      exact hown.1 o sc pa po fn hqk x hx
    · by_cases hin : q ∈ s.procs
      · exact (h.sched q hin o sc pa po fn hqk x hx).keep hK
      · rcases hnew q hq1 hin with hh | ⟨t, m, cross, obs, ret, e, _⟩ | ⟨t, m, preds, ph, tot, e, _⟩
        · rw [hh.2.2.1 o sc pa po fn hqk] at hx; simp at hx
        · rw [e] at hqk; exact absurd hqk (by simp)
        · rw [e] at hqk; exact absurd hqk (by simp)
  · intro q hq t m cross obs ret hqk
    apply hY
    rcases hmem q hq with rfl | ⟨hq1, _⟩
    · simp only [fin_k] at hqk
      exact hown.2.1 t m cross obs ret hqk
    · by_cases hin : q ∈ s.procs
      · exact (h.alloc q hin t m cross obs ret hqk).keep hK
      · rcases hnew q hq1 hin with hh | ⟨t', m', cross', obs', ret', e, ho⟩ | ⟨t', m', preds, ph, tot, e, _⟩
        · exact absurd hqk (hh.2.2.2 t m cross obs ret)
        · rw [e] at hqk
          simp only [PK.allocTask.injEq] at hqk
          rw [← hqk.1, ← hqk.2.1]; exact ho
        · rw [e] at hqk; exact absurd hqk (by simp)
  · intro q hq t m preds ph tot hqk hi
    apply hY
    rcases hmem q hq with rfl | ⟨hq1, _⟩
    · simp only [fin_k] at hqk
      exact hown.2.2 t m preds ph tot hqk hi
    · by_cases hin : q ∈ s.procs
      · exact (h.body q hin t m preds ph tot hqk hi).keep hK
      · rcases hnew q hq1 hin with hh | ⟨t', m', cross', obs', ret', e, _⟩ | ⟨t', m', preds', ph', tot', e, ho⟩
        · exact absurd (by rw [hqk]; rfl) hh.2.1
        · rw [e] at hqk; exact absurd hqk (by simp)
        · rw [e] at hqk
          simp only [PK.doWork.injEq] at hqk
          rw [← hqk.1, ← hqk.2.1]; exact ho (by rw [hqk.1]; exact hi)
  · intro e he hi
    apply hY
    have he' : e ∈ (s.block p orc).1.cl.runOn := he
    rcases hro e he' with h1 | h1
    · exact (h.ro e h1 hi).keep hK
    · exact h1 hi

/-! ### the harmless kinds -/

theorem block_planKeep_harmless (s : Sys) (p : Proc) (orc : Oracle) (h2 : p.k.tag ≠ "allocTask")
    (h3 : p.k.tag ≠ "doWork") (h4 : p.k.tag ≠ "allocTasks") : PlanKeep s (s.block p orc).1 := by
  by_cases h1 : p.k.tag = "schedLoop"
  · cases hk : p.k with
    | schedLoop =>
      have hb : s.block p orc = ((s.schedLoopBlock p.wake orc).1, p.k, (s.schedLoopBlock p.wake orc).2) := by
        unfold block; simp only [hk]
      rw [hb]
      rcases schedLoopBlock_buf s p.wake orc with ⟨_, _, htasks, _, _⟩ |
        ⟨oid, o, recs, plan, _, _, _, _, _, htasks, _⟩
      · exact PlanKeep.of_eq htasks
      · exact PlanKeep.append s _ recs htasks
    | _ => rw [hk] at h1; simp [PK.tag] at h1
  · by_cases h5 : p.k.tag = "provIngest"
    · cases hk : p.k with
      | provIngest o d =>
        have hb : s.block p orc = s.provIngestBlock p.wake p.pc o d := by
          unfold block; simp only [hk]
        rw [hb]
        obtain ⟨recs, _, htasks, _⟩ := provIngestBlock_shape s p.wake p.pc o d
        exact PlanKeep.append s _ recs htasks
      | _ => rw [hk] at h5; simp [PK.tag] at h5
    · exact PlanKeep.of_eq (block_tasks s p orc h1 h5 h2 h3 h4)

theorem block_runOn_harmless (s : Sys) (p : Proc) (orc : Oracle) (h2 : p.k.tag ≠ "allocTask")
    (h4 : p.k.tag ≠ "allocTasks") : (s.block p orc).1.cl.runOn = s.cl.runOn := by
  by_cases h5 : p.k.tag = "provIngest"
  · cases hk : p.k with
    | provIngest o d =>
      have hb : s.block p orc = s.provIngestBlock p.wake p.pc o d := by
        unfold block; simp only [hk]
      rw [hb]
      exact (provIngestBlock_shape s p.wake p.pc o d).choose_spec.2.2.1
    | _ => rw [hk] at h5; simp [PK.tag] at h5
  · exact (block_runOn_idle s p orc h5 h2 h4).1

/-- monitor, telescope, cluster loop, scheduler loop, buffer loop, ingest chain, tier moves -/
theorem pf_harmless {s : Sys} (h : PF s) (hs : SInv s) {p : Proc} (hp : p ∈ s.procs)
    (ha : p.alive = true) (hmin : ∀ q ∈ s.procs, q.alive = true → p.wake ≤ q.wake) (orc : Oracle)
    (h2 : p.k.tag ≠ "allocTask") (h3 : p.k.tag ≠ "doWork") (h4 : p.k.tag ≠ "allocTasks") :
    PF ((s.block p orc).1.updProc p.pid (fin (s.block p orc).2.1 (s.block p orc).2.2 p.wake)) := by
  have htag := block_tag s hs.pw p orc
  refine h.step hs hp ha hmin orc (block_planKeep_harmless s p orc h2 h3 h4) ⟨?_, ?_, ?_⟩
    (fun q hq hn => Or.inl (block_new_harmless s p orc h2 h3 h4 q hq hn))
    (fun e he => Or.inl (by rw [block_runOn_harmless s p orc h2 h4] at he; exact he))
  · intro o sc pa po fn e; rw [e] at htag; exact absurd htag.symm h4
  · intro t m cross obs ret e; rw [e] at htag; exact absurd htag.symm h2
  · intro t m preds ph tot e; rw [e] at htag; exact absurd htag.symm h3

/-! ### the task body -/

/-- records, process table, cluster and the kind of the process after a block of a task body -/
theorem doWork_facts (s : Sys) (p : Proc) (orc : Oracle) {t m preds ph tot}
    (hk : p.k = .doWork t m preds ph tot) :
    PlanKeep s (s.block p orc).1 ∧ (s.block p orc).1.procs = s.procs ∧
      (s.block p orc).1.cl = s.cl ∧ ∃ ph' tot', (s.block p orc).2.1 = .doWork t m preds ph' tot' := by
  have hb : s.block p orc = s.doWorkBlock p.wake orc t m preds ph tot := by
    unfold block; simp only [hk]
  have hsh := doWorkBlock_shape s p.wake orc t m preds ph tot
  rw [← hb] at hsh
  generalize s.block p orc = r at hsh
  cases hsh with
  | raised ph' e => exact ⟨PlanKeep.refl s, rfl, rfl, ph', tot, rfl⟩
  | wait w _ _ _ => exact ⟨PlanKeep.refl s, rfl, rfl, 1, tot, rfl⟩
  | start r mm dur tot' _ _ _ =>
    exact ⟨(PlanKeep.updTask s t (dwStartF p.wake dur) (fun _ => rfl) (fun _ => ⟨rfl, rfl⟩)).trans
      (PlanKeep.of_eq rfl), rfl, rfl, 2, tot', rfl⟩
  | finish _ =>
    refine ⟨(PlanKeep.updTask s t (dwEndF p.wake tot) (fun r => (dwEndF_spec p.wake tot r).1) ?_).trans
      (PlanKeep.of_eq rfl), rfl, rfl, 3, tot, rfl⟩
    intro r
    unfold dwEndF
    simp only
    split <;> exact ⟨rfl, rfl⟩

theorem pf_doWork {s : Sys} (h : PF s) (hs : SInv s) {p : Proc} (hp : p ∈ s.procs)
    (ha : p.alive = true) (hmin : ∀ q ∈ s.procs, q.alive = true → p.wake ≤ q.wake) (orc : Oracle)
    {t m preds ph tot} (hk : p.k = .doWork t m preds ph tot) :
    PF ((s.block p orc).1.updProc p.pid (fin (s.block p orc).2.1 (s.block p orc).2.2 p.wake)) := by
  obtain ⟨hK, hprocs, hcl, ph', tot', hk'⟩ := doWork_facts s p orc hk
  refine h.step hs hp ha hmin orc hK ⟨?_, ?_, ?_⟩ (fun q hq hn => absurd (by rw [hprocs] at hq; exact hq) hn)
    (fun e he => Or.inl (by rw [hcl] at he; exact he))
  · intro o sc pa po fn e; rw [hk'] at e; exact absurd e (by simp)
  · intro t1 m1 cross obs ret e; rw [hk'] at e; exact absurd e (by simp)
  · intro t1 m1 preds1 ph1 tot1 e hi
    rw [hk'] at e
    simp only [PK.doWork.injEq] at e
    rw [← e.1, ← e.2.1]
    exact (h.body p hp t m preds ph tot hk (by rw [e.1]; exact hi)).keep hK

/-! ### the allocation process -/

theorem allocEnd_runOn_sub (c : Cluster) (t : Tid) (m : Mid) (obs : Option Oid) (ing : Bool) :
    ∀ e ∈ (c.allocEnd t m obs ing).1.runOn, e ∈ c.runOn := by
  unfold allocEnd
  by_cases ht : t ∈ c.running
  · simp only [ht, if_true]
    cases ing with
    | true =>
      simp only [if_true]
      split
      · intro e he; exact List.mem_of_mem_erase he
      · intro e he; exact he
    | false =>
      simp only [Bool.false_eq_true, if_false]
      generalize hc1 : ({ c with running := c.running.erase t, uRunning := c.uRunning - 1,
                                 finished := dictSet c.finished t true,
                                 uFinished := c.uFinished + 1 } : Cluster) = c1
      have h1 : c1.runOn = c.runOn := by subst hc1; rfl
      have hf := (setMachineAvailable_fields c1 m obs).2.1
      generalize c1.setMachineAvailable m obs = r at hf
      obtain ⟨c2, e2⟩ := r
      cases e2 with
      | some e' => intro e he; rw [← h1, ← hf]; exact he
      | none =>
        intro e he
        have : e ∈ c2.runOn := List.mem_of_mem_erase he
        rw [← h1, ← hf]; exact this
  · simp only [ht, if_false]; exact fun e he => he

/-- records, kind, new processes and `runOn` after a block of an allocation process -/
theorem allocTask_facts (s : Sys) (hpw : PW s) (p : Proc) (orc : Oracle) {t m preds obs ing ret}
    (hk : p.k = .allocTask t m preds obs ing ret) :
    PlanKeep s (s.block p orc).1 ∧
      (∃ ret', (s.block p orc).2.1 = .allocTask t m preds obs ing ret') ∧
      (∀ q ∈ (s.block p orc).1.procs, q ∉ s.procs → t ∉ s.cl.running ∧ q.k = .doWork t m preds 0 0) ∧
      (∀ e ∈ (s.block p orc).1.cl.runOn, e ∈ s.cl.runOn ∨
        (e = ⟨t, m, obs, ing⟩ ∧ t ∉ s.cl.running ∧ (s.cl.allocBegin t m obs ing).2 = none)) := by
  have hb : s.block p orc = s.allocTaskBlock p.wake t m preds obs ing ret := by
    unfold block; simp only [hk]
  rw [hb]
  rcases allocTaskBlock_cases s hpw p.wake t m preds obs ing ret with
    ⟨_, e, he, heq⟩ | ⟨hnr, hok, heq⟩ | ⟨_, _, heq⟩ | ⟨_, _, e, _, heq⟩ | ⟨_, _, hok, heq⟩ <;> rw [heq]
  · refine ⟨PlanKeep.of_eq rfl, ⟨_, rfl⟩, fun q hq hn => absurd hq hn, fun x hx => Or.inl ?_⟩
    have : (s.cl.allocBegin t m obs ing).1 = s.cl := allocBegin_err_unchanged s.cl t m obs ing e he
    have hx' : x ∈ (s.cl.allocBegin t m obs ing).1.runOn := hx
    rw [this] at hx'; exact hx'
  · refine ⟨?_, ⟨_, rfl⟩, ?_, ?_⟩
    · exact ((PlanKeep.of_eq (s := s) (X := { s with cl := (s.cl.allocBegin t m obs ing).1 }) rfl).trans
        (PlanKeep.updTask _ t (fun r => { r with status := .scheduled }) (fun _ => rfl)
          (fun _ => ⟨rfl, rfl⟩))).trans (PlanKeep.of_eq rfl)
    · intro q hq hn
      have hq' : q ∈ s.procs ++ [({ pid := s.nextPid, k := .doWork t m preds 0 0, wake := p.wake } : Proc)] := hq
      rcases List.mem_append.mp hq' with h1 | h1
      · exact absurd h1 hn
      · simp only [List.mem_singleton] at h1
        subst h1
        exact ⟨hnr, rfl⟩
    · intro x hx
      have hx' : x ∈ (s.cl.allocBegin t m obs ing).1.runOn := hx
      rw [(allocBegin_fields s.cl t m obs ing hok).1] at hx'
      rcases List.mem_append.mp hx' with h1 | h1
      · exact Or.inl h1
      · exact Or.inr ⟨List.mem_singleton.mp h1, hnr, hok⟩
  · exact ⟨PlanKeep.refl s, ⟨_, rfl⟩, fun q hq hn => absurd hq hn, fun x hx => Or.inl hx⟩
  · refine ⟨PlanKeep.of_eq rfl, ⟨_, rfl⟩, fun q hq hn => absurd hq hn, fun x hx => Or.inl ?_⟩
    exact allocEnd_runOn_sub s.cl t m obs ing x hx
  · refine ⟨?_, ⟨_, rfl⟩, fun q hq hn => absurd hq hn, fun x hx => Or.inl ?_⟩
    · exact (PlanKeep.of_eq (s := s) (X := { s with cl := (s.cl.allocEnd t m obs ing).1 }) rfl).trans
        (PlanKeep.updTask _ t (fun r => { r with status := .finished }) (fun _ => rfl) (fun _ => ⟨rfl, rfl⟩))
    · exact allocEnd_runOn_sub s.cl t m obs ing x hx

theorem pf_allocTask {s : Sys} (h : PF s) (hs : SInv s) {p : Proc} (hp : p ∈ s.procs)
    (ha : p.alive = true) (hmin : ∀ q ∈ s.procs, q.alive = true → p.wake ≤ q.wake) (orc : Oracle)
    {t m preds obs ing ret} (hk : p.k = .allocTask t m preds obs ing ret) :
    PF ((s.block p orc).1.updProc p.pid (fin (s.block p orc).2.1 (s.block p orc).2.2 p.wake)) := by
  obtain ⟨U, hU⟩ := hs.ci
  -- the task is on plan when the process is a scheduler-side one
  have hon : ing = false → OnPlan s t m := by
    intro e; subst e; exact h.alloc p hp t m preds obs ret hk
  -- an ingest-side process that has not begun carries an ingest task
  have hting : t ∉ s.cl.running → ing = true → t.isIngest = true := by
    intro hnr e
    subst e
    have hpc0 := hU.pc_zero hp ha hk hnr
    exact hU.inv.pendTask _ (hU.pend p hp ha t m preds obs ret hk hpc0)
  obtain ⟨hK, ⟨ret', hk'⟩, hnewp, hrunOn⟩ := allocTask_facts s hs.pw p orc hk
  refine h.step hs hp ha hmin orc hK ⟨?_, ?_, ?_⟩ ?_ ?_
  · intro o sc pa po fn e; rw [hk'] at e; exact absurd e (by simp)
  · intro t1 m1 cross obs1 ret1 e
    rw [hk'] at e
    simp only [PK.allocTask.injEq] at e
    rw [← e.1, ← e.2.1]
    exact (hon e.2.2.2.2.1).keep hK
  · intro t1 m1 preds1 ph1 tot1 e; rw [hk'] at e; exact absurd e (by simp)
  · intro q hq hn
    obtain ⟨hnr, hqk⟩ := hnewp q hq hn
    refine Or.inr (Or.inr ⟨t, m, preds, 0, 0, hqk, fun hi => ?_⟩)
    cases hing : ing with
    | false => exact (hon hing).keep hK
    | true =>
      have := hting hnr hing
      rw [hi] at this
      exact absurd this (by simp)
  · intro e he
    rcases hrunOn e he with h1 | ⟨h1, _, _⟩
    · exact Or.inl h1
    · right
      intro hi
      subst h1
      exact (hon hi).keep hK

/-! ### `allocate_tasks` under DynamicSchedulingFromPlan -/

/-- one block of `allocate_tasks` from a local schedule on plan -/
theorem allocTasks_facts (s : Sys) (halg : s.alg = .dynamic) (p : Proc) (orc : Oracle)
    {o sc pa po fn} (hk : p.k = .allocTasks o sc pa po fn) (h0 : ∀ x ∈ sc, OnPlan s x.1 x.2) :
    ∃ sc' pa' po' fn', (s.block p orc).2.1 = .allocTasks o sc' pa' po' fn' ∧
      PlanKeep s (s.block p orc).1 ∧ (∀ x ∈ sc', OnPlan (s.block p orc).1 x.1 x.2) ∧
      (s.block p orc).1.cl.runOn = s.cl.runOn ∧
      ∀ q ∈ (s.block p orc).1.procs, q ∈ s.procs ∨
        ∃ t m cross, q.k = .allocTask t m cross (some o) false 0 ∧ OnPlan (s.block p orc).1 t m ∧
          s.cl.isOccupied m = false ∧ (s.machine? m).isSome = true := by
  have hb : s.block p orc = s.allocTasksBlock p.wake orc p.pc o sc pa po fn := by
    unfold block; simp only [hk]
  rw [hb]
  cases fn with
  | true =>
    rw [allocTasksBlock_fin]
    exact ⟨sc, pa, po, true, rfl, PlanKeep.refl s, h0, rfl, fun q hq => Or.inl hq⟩
  | false =>
    rw [allocTasksBlock_eq]
    have hk0 := planKeep_atStart s p.wake p.pc o
    obtain ⟨sc', pa', po', fn', g1, g2, g3, g4, g5⟩ := allocTasksIter_pf (a := atStart s p.wake p.pc o)
      (by rw [atStart_alg]; exact halg) p.wake orc o sc pa po (fun x hx => (h0 x hx).keep hk0)
    refine ⟨sc', pa', po', fn', g1, hk0.trans g2, g3, by rw [g4, atStart_cl], fun q hq => ?_⟩
    rcases g5 q hq with h1 | ⟨t, m, cross, hqk, hon, hocc, hmm⟩
    · rw [atStart_procs] at h1; exact Or.inl h1
    · exact Or.inr ⟨t, m, cross, hqk, hon, by rw [← atStart_cl s p.wake p.pc o]; exact hocc,
        by rw [← machine?_congr (atStart_machs s p.wake p.pc o)]; exact hmm⟩

theorem pf_allocTasks {s : Sys} (h : PF s) (hs : SInv s) (halg : s.alg = .dynamic) {p : Proc} (hp : p ∈ s.procs)
    (ha : p.alive = true) (hmin : ∀ q ∈ s.procs, q.alive = true → p.wake ≤ q.wake) (orc : Oracle)
    {o sc pa po fn} (hk : p.k = .allocTasks o sc pa po fn) :
    PF ((s.block p orc).1.updProc p.pid (fin (s.block p orc).2.1 (s.block p orc).2.2 p.wake)) := by
  obtain ⟨sc', pa', po', fn', hk', hK, hsc, hrun, hnewp⟩ :=
    allocTasks_facts s halg p orc hk (h.sched p hp o sc pa po fn hk)
  refine h.step hs hp ha hmin orc hK ⟨?_, ?_, ?_⟩ ?_ (fun e he => Or.inl (by rw [hrun] at he; exact he))
  · intro o1 sc1 pa1 po1 fn1 e x hx
    rw [hk'] at e
    simp only [PK.allocTasks.injEq] at e
    rw [← e.2.1] at hx
    exact hsc x hx
  · intro t1 m1 cross obs1 ret1 e; rw [hk'] at e; exact absurd e (by simp)
  · intro t1 m1 preds1 ph1 tot1 e; rw [hk'] at e; exact absurd e (by simp)
  · intro q hq hn
    rcases hnewp q hq with h1 | ⟨t, m, cross, hqk, hon, _, _⟩
    · exact absurd h1 hn
    · exact Or.inr (Or.inl ⟨t, m, cross, some o, 0, hqk, hon⟩)

/-! ### along a run -/

theorem pf_step {s : Sys} (h : PF s) (hs : SInv s) (halg : s.alg = .dynamic) {pid : Nat} (hen : s.enabled pid)
    (orc : Oracle) : PF (s.resume pid orc).1 := by
  obtain ⟨p, hp, ha, hmin⟩ := hen
  obtain ⟨hpm, hpid⟩ := proc?_some hp
  subst hpid
  refine PF.core ?_ (resume_core s p.pid orc p hp ha)
  by_cases h2 : p.k.tag = "allocTask"
  · cases hk : p.k with
    | allocTask t m preds obs ing ret => exact pf_allocTask h hs hpm ha hmin orc hk
    | _ => rw [hk] at h2; simp [PK.tag] at h2
  · by_cases h3 : p.k.tag = "doWork"
    · cases hk : p.k with
      | doWork t m preds ph tot => exact pf_doWork h hs hpm ha hmin orc hk
      | _ => rw [hk] at h3; simp [PK.tag] at h3
    · by_cases h4 : p.k.tag = "allocTasks"
      · cases hk : p.k with
        | allocTasks o sc pa po fn => exact pf_allocTasks h hs halg hpm ha hmin orc hk
        | _ => rw [hk] at h4; simp [PK.tag] at h4
      · exact pf_harmless h hs hpm ha hmin orc h2 h3 h4

theorem start_pf (s0 : Sys) (hw : WFConfig s0) : PF s0.start := by
  obtain ⟨hprocs, _⟩ := hw.fresh
  have hp : s0.start.procs = s0.procs ++
      [{ pid := s0.nextPid, k := .monitor, wake := 0 }, { pid := s0.nextPid + 1, k := .telescope, wake := 0 },
       { pid := s0.nextPid + 2, k := .clusterLoop, wake := 0 }, { pid := s0.nextPid + 3, k := .schedLoop, wake := 0 },
       { pid := s0.nextPid + 4, k := .bufferLoop, wake := 0 }] := by
    simp [start, spawn]
  have hcl : s0.start.cl = s0.cl := by simp [start, spawn]
  rw [hprocs] at hp
  simp only [List.nil_append] at hp
  constructor
  · rw [hp]; intro q hq o sc pa po fn hk
    simp at hq; rcases hq with rfl | rfl | rfl | rfl | rfl <;> simp at hk
  · rw [hp]; intro q hq t m cross obs ret hk
    simp at hq; rcases hq with rfl | rfl | rfl | rfl | rfl <;> simp at hk
  · rw [hp]; intro q hq t m preds ph tot hk
    simp at hq; rcases hq with rfl | rfl | rfl | rfl | rfl <;> simp at hk
  · rw [hcl, hw.clInit]; intro e he; simp [Cluster.init] at he

theorem reach_pf (s0 s : Sys) (hw : WFConfig s0) (halg : s0.alg = .dynamic) (h : Reach s0 s) : PF s := by
  have hno : s0.alg ≠ .oracle := by rw [halg]; simp
  induction h with
  | start => exact start_pf s0 hw
  | step s pid orc hr hen ih =>
    exact pf_step ih (reach_inv s0 s hw (hr.toOk hno)) (by rw [reach_alg hr]; exact halg) hen orc

end Sys
end Topsim
