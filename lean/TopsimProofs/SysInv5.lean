/-
  SysInv5 — the blocks whose steps concern no clause of the invariant:
  monitor, cluster loop, buffer loop, tier moves, ingest stream, scheduler loop.
-/
import TopsimProofs.SysInv4

namespace Topsim
namespace Sys

syntax "pres_core" : tactic
macro_rules
  | `(tactic| pres_core) =>
    `(tactic| first
      | exact Pres.core ⟨rfl, rfl, rfl, rfl, rfl, rfl, rfl, rfl⟩
      | (split <;> pres_core))

theorem monitorBlock_pres (s : Sys) (now : Time) : Pres s (s.monitorBlock now).1 := by
  unfold monitorBlock; pres_core

theorem clusterLoop_pres (s : Sys) : Pres s { s with cl := s.cl.loopTick } :=
  Pres.frame (clQuiet_tick _) (TaskMono.refl _) rfl rfl rfl rfl rfl rfl

theorem ingestStreamIter_pres (s : Sys) (now : Time) (oid : Oid) (tl : Int) :
    Pres s (s.ingestStreamIter now oid tl).1 := by
  unfold ingestStreamIter; pres_core

theorem ingestStreamBlock_pres (s : Sys) (now : Time) (pc : Nat) (oid : Oid) (tl : Int) :
    Pres s (s.ingestStreamBlock now pc oid tl).1 := by
  unfold ingestStreamBlock
  split
  · split
    · pres_core
    · split
      · pres_core
      · exact (Pres.core ⟨rfl, rfl, rfl, rfl, rfl, rfl, rfl, rfl⟩ : Pres s (s.addBuf _)).trans
          (ingestStreamIter_pres _ _ _ _)
  · exact ingestStreamIter_pres _ _ _ _

theorem hot2coldIter_pres (s : Sys) (now : Time) (o : Oid) (left : Int) :
    Pres s (s.hot2coldIter now o left).1 := by
  unfold hot2coldIter; pres_core

theorem hot2coldBlock_pres (s : Sys) (now : Time) (cur : Option (Oid × Int)) :
    Pres s (s.hot2coldBlock now cur).1 := by
  unfold hot2coldBlock
  split
  · exact hot2coldIter_pres _ _ _ _
  · split
    · pres_core
    · pres_core
    · rename_i b1 o left _
      exact (Pres.core ⟨rfl, rfl, rfl, rfl, rfl, rfl, rfl, rfl⟩ :
        Pres s (({ s with buf := b1 }).addBuf ⟨natNow now, o, .transferStarted⟩)).trans
          (hot2coldIter_pres _ _ _ _)

theorem cold2hotIter_pres (s : Sys) (now : Time) (o : Oid) (left : Int) :
    Pres s (s.cold2hotIter now o left).1 := by
  unfold cold2hotIter; pres_core

theorem cold2hotBlock_pres (s : Sys) (now : Time) (cur : Option (Oid × Int)) :
    Pres s (s.cold2hotBlock now cur).1 := by
  unfold cold2hotBlock
  split
  · exact cold2hotIter_pres _ _ _ _
  · split
    · pres_core
    · pres_core
    · rename_i b1 o left _
      exact (Pres.core ⟨rfl, rfl, rfl, rfl, rfl, rfl, rfl, rfl⟩ :
        Pres s (({ s with buf := b1 }).addBuf ⟨natNow now, o, .transferStarted⟩)).trans
          (cold2hotIter_pres _ _ _ _)

theorem bufferLoopBlock_pres (s : Sys) (now : Time) : Pres s (s.bufferLoopBlock now).1 := by
  unfold bufferLoopBlock
  split
  · exact Pres.refl _
  · rename_i d _
    simp only
    have h1 : Pres s (if d.startHot2Cold = true then (s.spawn (.hot2cold none) now).1 else s) := by
      split
      · exact Pres.spawn _ _ _ ⟨rfl, rfl, rfl, rfl, rfl⟩ ⟨by simp [PK.tag], by simp, by simp⟩
      · exact Pres.refl _
    refine h1.trans ?_
    generalize (if d.startHot2Cold = true then (s.spawn (.hot2cold none) now).1 else s) = s1
    split
    · exact Pres.spawn _ _ _ ⟨rfl, rfl, rfl, rfl, rfl⟩ ⟨by simp [PK.tag], by simp, by simp⟩
    · exact Pres.refl _

theorem batchPlan_ing (o : Obs) (c : Nat) : IngRecs (batchPlan o c).1 := by
  intro r hr hi
  simp only [batchPlan, List.mem_map] at hr
  obtain ⟨n, _, rfl⟩ := hr
  simp [Tid.isIngest] at hi

theorem staticPlanOf_ing (o : Obs) (c : Nat) (rows : List (Nat × Mid × Nat × Nat)) :
    IngRecs (staticPlanOf o c rows).1 := by
  intro r hr hi
  simp only [staticPlanOf, List.mem_map] at hr
  obtain ⟨⟨n, mid, est, eft⟩, _, rfl⟩ := hr
  simp [Tid.isIngest] at hi

theorem schedLoopBlock_pres (s : Sys) (now : Time) (orc : Oracle) :
    Pres s (s.schedLoopBlock now orc).1 := by
  unfold schedLoopBlock
  simp only
  split
  · split
    · pres_core
    · rename_i b1 oid _
      split
      · pres_core
      · rename_i o _
        generalize hrp : (if s.staticPlan = true then staticPlanOf o (natNow now) orc.plan
          else batchPlan o (natNow now)) = rp
        have hing : IngRecs rp.1 := by
          subst hrp; split
          · exact staticPlanOf_ing _ _ _
          · exact batchPlan_ing _ _
        obtain ⟨recs, plan⟩ := rp
        simp only at hing ⊢
        have h1 : Pres s { s with schEvents := [], buf := b1, tasks := s.tasks ++ recs, plans := (s.plans.filter (·.obs ≠ oid)) ++ [plan] } :=
          Pres.frame (ClQuiet.refl _) (TaskMono.append _ _ hing) rfl rfl rfl rfl rfl rfl
        split
        · exact h1
        · refine h1.trans ?_
          refine Pres.trans (b := { s with schEvents := [], buf := b1, tasks := s.tasks ++ recs, plans := (s.plans.filter (·.obs ≠ oid)) ++ [plan], queue := s.queue ++ [oid] }) (Pres.core ⟨rfl, rfl, rfl, rfl, rfl, rfl, rfl, rfl⟩) ?_
          refine (Pres.spawn _ (.allocTasks oid [] [] [] false) now ⟨rfl, rfl, rfl, rfl, rfl⟩
            ⟨by simp [PK.tag], by simp, by simp⟩).trans ?_
          exact Pres.core ⟨rfl, rfl, rfl, rfl, rfl, rfl, rfl, rfl⟩
  · pres_core

end Sys
end Topsim
