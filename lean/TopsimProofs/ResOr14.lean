/-
  ResOr14 — a concrete run with ADVERSARIAL proposals (`ResOrAdv` holds, `ResOrOk` does not),
  checked by evaluation: the user algorithm reserves a machine under its observation's name,
  starts the workflow task on it, and then proposes the same task again together with an ingest
  task.  While the machine is busy the proposals are skipped; when it is free again
  `_process_current_schedule` raises RuntimeError (the task is not UNSCHEDULED), `allocate_tasks` dies,
  the observation stays in the queue for ever and so does its reservation: the run never reaches
  `is_finished()`, and the reservation is still under the name of an observation in the queue.
-/
import TopsimProofs.ResOr13

namespace Topsim
namespace Sys

/-- `ResOrAdv` as a test -/
def resOrAdvB (s : Sys) (pid : Nat) (orc : Oracle) : Bool :=
  match s.proc? pid with
  | none => true
  | some p =>
    match p.k with
    | .allocTasks oid _ _ _ false =>
      orc.pre.all (resOrOpB s) &&
      orc.proposals.all (fun pr => !decide (tstat s pr.1 = .unscheduled) || decide (pr.1 ∈ planTasks s oid))
    | _ => true

theorem resOrAdvB_sound {s : Sys} {pid : Nat} {orc : Oracle} (h : resOrAdvB s pid orc = true) :
    ResOrAdv s pid orc := by
  intro p hp oid sc pa po hk
  unfold resOrAdvB at h
  rw [hp] at h
  simp only [hk, Bool.and_eq_true, List.all_eq_true, Bool.or_eq_true, Bool.not_eq_true',
    decide_eq_true_eq, decide_eq_false_iff_not] at h
  refine ⟨fun op hop => ?_, fun pr hpr hu => ?_⟩
  · have := h.1 op hop
    cases op with
    | provBatch n o => exact Or.inl ⟨n, o, rfl, by simpa [resOrOpB] using this⟩
    | relBatch o => exact Or.inr ⟨o, rfl⟩
    | _ => simp [resOrOpB] at this
  · rcases h.2 pr hpr with h' | h'
    · exact absurd hu h'
    · exact h'

def resOrCheckAdv : List (Nat × Oracle) → Sys → Bool
  | [], _ => true
  | (pid, orc) :: r, s => resOrEnabledB s pid && resOrAdvB s pid orc && resOrCheckAdv r (s.resume pid orc).1

theorem resOr_reachAdv_run {s0 : Sys} (sched : List (Nat × Oracle)) (s : Sys) (h : ReachResvAdv s0 s)
    (hc : resOrCheckAdv sched s = true) : ReachResvAdv s0 (resOrRun sched s) := by
  induction sched generalizing s with
  | nil => exact h
  | cons x r ih =>
    obtain ⟨pid, orc⟩ := x
    simp only [resOrCheckAdv, Bool.and_eq_true] at hc
    exact ih _ (ReachResvAdv.step s pid orc h (resOrEnabledB_sound hc.1.1) (fun _ => resOrAdvB_sound hc.1.2)) hc.2

/-- `resOrWN`, run `resOrSchedN1` (the reservation of machine 1 under `obs 0`, the task `.wf 0 1 0` on
it), then, at t = 2, in the second block of `allocate_tasks` 10 the algorithm proposes `.wf 0 1 0`
(RUNNING) once more, on machine 1 (occupied: the proposal is skipped and stays in the local
schedule).  t = 3: the task has finished and machine 1 is back in the reservation;
`_process_current_schedule` now reaches `.wf 0 1 0`, which is not UNSCHEDULED: RuntimeError. -/
def resOrSchedA : List (Nat × Oracle) :=
  resOrQuiet [11, 12, 12, 0, 1, 2, 3, 4] ++
  [(10, { proposals := [(.wf 0 1 0, 1)] })] ++
  resOrQuiet [11, 0, 2, 3, 4, 10]

def resOrSA : Sys := resOrRun resOrSchedA resOrSNmid

theorem resOrSchedA_chk : resOrCheckAdv resOrSchedA resOrSNmid = true := by decide +kernel

theorem resOrSA_reach : ReachResvAdv resOrWN resOrSA :=
  resOr_reachAdv_run resOrSchedA _ resOrSNmid_reach.toAdv resOrSchedA_chk

/-- the proposals of that block do not keep to `ResOrOk` -/
theorem resOrSchedA_not_ok : resOrCheck resOrSchedA resOrSNmid = false := by decide +kernel

theorem resOrSA_final :
    resOrSA.crashed = some .runtime ∧ resOrSA.isFinished = false ∧ resOrSA.queue = [0] ∧
    resOrSA.cl.idle = [(0, [1])] ∧ resOrSA.cl.available = [0] ∧
    resOrSA.tasks.map (fun r => (r.id, r.status)) = [(.ingest 0 0, .finished), (.wf 0 1 0, .finished)] ∧
    (resOrSA.proc? 10).map (fun p => (p.k.tag, p.alive)) = some ("allocTasks", false) := by
  decide +kernel

end Sys
end Topsim
