/-
  FinishStr2 — the ingest streams: a stream that has not run yet is due at its
  observation's start time; an observation is marked FINISHED only after its
  stream has run; a stream that has run has put data into the hot buffer (`SI`).
-/
import TopsimProofs.FinishStr1

namespace Topsim
namespace Sys

open Cluster

/-- the quantities of the buffer the conservation argument is about -/
def bq (b : Buffer) : Int × Int × List (Oid × Int) × List Oid × Cold :=
  (b.hot.total, b.hot.cur, b.size, b.hot.finished, b.cold)

theorem deposit_ok (b : Buffer) (o : Oid) (r : Int) (h : (b.deposit o r).2 = none) :
    (b.deposit o r).1.cold = b.cold ∧
    (b.deposit o r).1.hot.cur = b.hot.cur - r ∧ (b.deposit o r).1.hot.total = b.hot.total ∧
    (b.deposit o r).1.hot.finished = b.hot.finished ∧
    ∀ x, (b.deposit o r).1.sizeOf x = if x = o then b.sizeOf o + r else b.sizeOf x := by
  unfold Buffer.deposit at h ⊢
  split
  · rename_i hgt; simp [hgt] at h
  · refine ⟨rfl, rfl, rfl, rfl, fun x => ?_⟩
    unfold Buffer.sizeOf
    simp only
    rw [dictGet_dictSet]
    by_cases e : x = o
    · subst e; simp
    · have : ¬ o = x := fun e' => e e'.symm
      simp [e, this]

theorem deposit_err (b : Buffer) (o : Oid) (r : Int) (e : Err) (h : (b.deposit o r).2 = some e) :
    (b.deposit o r).1 = b := by
  unfold Buffer.deposit at h ⊢
  split
  · rfl
  · rename_i hgt; simp [hgt] at h

/-- a successful deposit for `oid` at the rate of `ob` -/
def Dep (s X : Sys) (oid : Oid) (ob : Obs) : Prop :=
  X.buf.cold = s.buf.cold ∧
  X.buf.hot.cur = s.buf.hot.cur - ob.rate ∧ X.buf.hot.total = s.buf.hot.total ∧
  X.buf.hot.finished = s.buf.hot.finished ∧
  ∀ x, X.buf.sizeOf x = if x = oid then s.buf.sizeOf oid + ob.rate else s.buf.sizeOf x

theorem ingestStreamIter_bq (s : Sys) (now : Time) (oid : Oid) (tl : Int) :
    (bq (s.ingestStreamIter now oid tl).1.buf = bq s.buf ∧
      ∀ ob, s.obs? oid = some ob → ob.status = .running → ∃ e, (s.ingestStreamIter now oid tl).2.2 = .raised e) ∨
    (∃ ob, s.obs? oid = some ob ∧ ob.status = .running ∧ Dep s (s.ingestStreamIter now oid tl).1 oid ob) := by
  unfold ingestStreamIter
  cases hob : s.obs? oid with
  | none => exact Or.inl ⟨rfl, fun ob h => by simp at h⟩
  | some o =>
    simp only
    by_cases hrun : o.status = .running
    · simp only [hrun, if_true]
      cases hd : s.buf.deposit oid o.rate with
      | mk b1 e1 =>
        cases e1 with
        | some e =>
          simp only
          have := deposit_err s.buf oid o.rate e (by rw [hd])
          rw [hd] at this
          simp only at this
          subst this
          exact Or.inl ⟨rfl, fun ob _ _ => ⟨e, rfl⟩⟩
        | none =>
          simp only
          have := deposit_ok s.buf oid o.rate (by rw [hd])
          rw [hd] at this
          simp only at this
          right
          refine ⟨o, ?_, hrun, ?_⟩
          · first | rfl | trivial
          · split
            · exact this
            · exact this
    · simp only [hrun, if_false]
      refine Or.inl ⟨by first | rfl | trivial, fun ob h1 h2 => ?_⟩
      injection h1 with h1; subst h1; exact absurd h2 hrun

theorem ingestStreamIter_k (s : Sys) (now : Time) (oid : Oid) (tl : Int) :
    ∃ tl', (s.ingestStreamIter now oid tl).2.1 = .ingestStream oid tl' := by
  unfold ingestStreamIter
  split
  · exact ⟨_, rfl⟩
  · split
    · split
      · exact ⟨_, rfl⟩
      · simp only; split <;> exact ⟨_, rfl⟩
    · exact ⟨_, rfl⟩

theorem ingestStreamBlock_bq (s : Sys) (now : Time) (pc : Nat) (oid : Oid) (tl : Int) :
    (bq (s.ingestStreamBlock now pc oid tl).1.buf = bq s.buf ∧
      ∀ ob, s.obs? oid = some ob → ob.status = .running → ∃ e, (s.ingestStreamBlock now pc oid tl).2.2 = .raised e) ∨
    (∃ ob, s.obs? oid = some ob ∧ ob.status = .running ∧ Dep s (s.ingestStreamBlock now pc oid tl).1 oid ob) := by
  unfold ingestStreamBlock
  split
  · cases hob : s.obs? oid with
    | none => exact Or.inl ⟨rfl, fun ob h => by simp at h⟩
    | some o =>
      simp only
      split
      · exact Or.inl ⟨rfl, fun ob _ _ => ⟨_, rfl⟩⟩
      · have := ingestStreamIter_bq (s.addBuf ⟨natNow now, oid, .bufAdded⟩) now oid ((o.duration : Int) - 1)
        have e : (s.addBuf ⟨natNow now, oid, .bufAdded⟩).obs? oid = some o := hob
        rw [e] at this
        exact this
  · exact ingestStreamIter_bq s now oid tl

theorem ingestStreamBlock_k (s : Sys) (now : Time) (pc : Nat) (oid : Oid) (tl : Int) :
    ∃ tl', (s.ingestStreamBlock now pc oid tl).2.1 = .ingestStream oid tl' := by
  unfold ingestStreamBlock
  split
  · split
    · exact ⟨_, rfl⟩
    · split
      · exact ⟨_, rfl⟩
      · exact ingestStreamIter_k _ _ _ _
  · exact ingestStreamIter_k _ _ _ _


/-! ### the stream invariant -/

structure SI (s : Sys) : Prop where
  /-- a stream that has not run yet is due at the start time of its observation -/
  sw : ∀ q ∈ s.procs, ∀ o tl, q.k = .ingestStream o tl → q.pc = 0 →
    q.alive = true ∧ ∃ ob a, s.obs? o = some ob ∧ ob.ast = some a ∧ q.wake = ((a : Nat) : Time)
  os : ∀ ob ∈ s.obs, ob.status ≠ .waiting → ∃ q ∈ s.procs, ∃ tl, q.k = .ingestStream ob.id tl
  /-- the stream of a FINISHED observation has run -/
  fs : ∀ ob ∈ s.obs, ob.status = .finished → ∃ q ∈ s.procs, ∃ tl, q.k = .ingestStream ob.id tl ∧ 1 ≤ q.pc
  /-- a stream that has run has deposited at least one step of data -/
  sz : ∀ q ∈ s.procs, ∀ o tl, q.k = .ingestStream o tl → 1 ≤ q.pc →
    ∃ ob, s.obs? o = some ob ∧ ob.rate ≤ s.buf.sizeOf o
  sn : ∀ o, 0 ≤ s.buf.sizeOf o
  rp : ∀ ob ∈ s.obs, 0 < ob.rate

theorem SI.stepP {s Y : Sys} (h : SI s) (hpw : PW s) {p p' : Proc} (hp : p ∈ s.procs) {new : List Proc}
    (hm : MemSpec s Y p p' new) (hpc : p'.pc = p.pc + 1)
    (hk1 : ∀ o tl, p'.k = .ingestStream o tl → ∃ tl0, p.k = .ingestStream o tl0)
    (hk2 : ∀ o tl, p.k = .ingestStream o tl → ∃ tl', p'.k = .ingestStream o tl')
    (hnew : ∀ q ∈ new, ∀ o tl, q.k = .ingestStream o tl → q.pc = 0 ∧ q.alive = true ∧
      ∃ ob a, Y.obs? o = some ob ∧ ob.ast = some a ∧ q.wake = ((a : Nat) : Time))
    (hast : ∀ q ∈ s.procs, ∀ o tl, q.k = .ingestStream o tl → ∀ ob a, s.obs? o = some ob → ob.ast = some a →
      ∃ ob', Y.obs? o = some ob' ∧ ob'.ast = some a)
    (hos : ∀ ob' ∈ Y.obs, ob'.status ≠ .waiting → (∃ ob ∈ s.obs, ob.id = ob'.id ∧ ob.status ≠ .waiting) ∨
      ∃ q ∈ new, ∃ tl, q.k = .ingestStream ob'.id tl)
    (hfs : ∀ ob' ∈ Y.obs, ob'.status = .finished → (∃ ob ∈ s.obs, ob.id = ob'.id ∧ ob.status = .finished) ∨
      ∃ q ∈ s.procs, ∃ tl, q.k = .ingestStream ob'.id tl ∧ 1 ≤ q.pc)
    (hszp : ∀ o tl, p.k = .ingestStream o tl → p.pc = 0 → ∃ ob, Y.obs? o = some ob ∧ ob.rate ≤ Y.buf.sizeOf o)
    (hrate : ∀ o ob, s.obs? o = some ob → ∃ ob', Y.obs? o = some ob' ∧ ob'.rate = ob.rate)
    (hsize : ∀ o, s.buf.sizeOf o ≤ Y.buf.sizeOf o)
    (hrp : ∀ ob' ∈ Y.obs, ∃ ob ∈ s.obs, ob'.rate = ob.rate) : SI Y := by
  -- the streams of `s` are still there
  have keep : ∀ q ∈ s.procs, ∀ o tl, q.k = .ingestStream o tl →
      ∃ q' ∈ Y.procs, ∃ tl', q'.k = .ingestStream o tl' ∧ q.pc ≤ q'.pc := by
    intro q hq o tl hqk
    rcases hm.old hpw hp hq with rfl | hq'
    · obtain ⟨tl', e⟩ := hk2 o tl hqk
      exact ⟨p', (hm p').mpr (Or.inl rfl), tl', e, by omega⟩
    · exact ⟨q, hq', tl, hqk, Nat.le_refl _⟩
  constructor
  · intro q hq o tl hqk hq0
    rcases (hm q).mp hq with rfl | ⟨hq0', _⟩ | hqn
    · omega
    · obtain ⟨g1, ob, a, g2, g3, g4⟩ := h.sw q hq0' o tl hqk hq0
      obtain ⟨ob', e1, e2⟩ := hast q hq0' o tl hqk ob a g2 g3
      exact ⟨g1, ob', a, e1, e2, g4⟩
    · exact (hnew q hqn o tl hqk).2
  · intro ob' hob' hst
    rcases hos ob' hob' hst with ⟨ob, hob, e, hst0⟩ | ⟨q, hq, tl, hqk⟩
    · obtain ⟨q, hq, tl, hqk⟩ := h.os ob hob hst0
      obtain ⟨q', hq', tl', hqk', _⟩ := keep q hq _ tl hqk
      exact ⟨q', hq', tl', by rw [← e]; exact hqk'⟩
    · exact ⟨q, (hm q).mpr (Or.inr (Or.inr hq)), tl, hqk⟩
  · intro ob' hob' hst
    rcases hfs ob' hob' hst with ⟨ob, hob, e, hst0⟩ | ⟨q, hq, tl, hqk, hqc⟩
    · obtain ⟨q, hq, tl, hqk, hqc⟩ := h.fs ob hob hst0
      obtain ⟨q', hq', tl', hqk', hle⟩ := keep q hq _ tl hqk
      exact ⟨q', hq', tl', by rw [← e]; exact hqk', by omega⟩
    · obtain ⟨q', hq', tl', hqk', hle⟩ := keep q hq _ tl hqk
      exact ⟨q', hq', tl', hqk', by omega⟩
  · intro q hq o tl hqk hq1
    have old : ∀ q0 ∈ s.procs, ∀ tl0, q0.k = .ingestStream o tl0 → 1 ≤ q0.pc →
        ∃ ob, Y.obs? o = some ob ∧ ob.rate ≤ Y.buf.sizeOf o := by
      intro q0 hq0 tl0 hk0 hc0
      obtain ⟨ob, g1, g2⟩ := h.sz q0 hq0 o tl0 hk0 hc0
      obtain ⟨ob', e1, e2⟩ := hrate o ob g1
      exact ⟨ob', e1, by rw [e2]; exact Int.le_trans g2 (hsize o)⟩
    rcases (hm q).mp hq with rfl | ⟨hq0', _⟩ | hqn
    · obtain ⟨tl0, hk0⟩ := hk1 o tl hqk
      by_cases hp0 : p.pc = 0
      · exact hszp o tl0 hk0 hp0
      · exact old p hp tl0 hk0 (by omega)
    · exact old q hq0' tl hqk hq1
    · have := (hnew q hqn o tl hqk).1; omega
  · intro o; exact Int.le_trans (h.sn o) (hsize o)
  · intro ob' hob'
    obtain ⟨ob, hob, e⟩ := hrp ob' hob'
    rw [e]; exact h.rp ob hob

theorem stream_tag {k : PK} {o : Oid} {tl : Int} (h : k = .ingestStream o tl) : k.tag = "ingestStream" := by
  rw [h]; rfl

/-- blocks that leave observation records, buffer sizes and the streams alone -/
theorem si_quiet {s : Sys} (hs : SInv s) (h : SI s) {p : Proc} (hp : p ∈ s.procs) (orc : Oracle)
    (hobs : (s.block p orc).1.obs = s.obs) (hsize : (s.block p orc).1.buf.size = s.buf.size)
    (htag : p.k.tag ≠ "ingestStream") (new : List Proc) (hprocs : (s.block p orc).1.procs = s.procs ++ new)
    (hpwX : PW (s.block p orc).1) (hnew : ∀ q ∈ new, q.k.tag ≠ "ingestStream") :
    SI ((s.block p orc).1.updProc p.pid (fin (s.block p orc).2.1 (s.block p orc).2.2 p.wake)) := by
  have hpw := hs.pw
  have htag' := block_tag s hpw p orc
  have hm := memSpec_updProc hpw hp new hprocs hpwX (fin (s.block p orc).2.1 (s.block p orc).2.2 p.wake)
  have hobs? : ∀ o, ((s.block p orc).1.updProc p.pid (fin (s.block p orc).2.1 (s.block p orc).2.2 p.wake)).obs? o
      = s.obs? o := by
    intro o; unfold obs?; rw [updProc_obs, hobs]
  refine h.stepP hpw hp hm (by simp) ?_ ?_ ?_ ?_ ?_ ?_ ?_ ?_ ?_ ?_
  · intro o tl e
    simp only [fin_k] at e
    rw [e] at htag'; exact absurd htag'.symm htag
  · intro o tl e; exact absurd (stream_tag e) htag
  · intro q hq o tl e; exact absurd (stream_tag e) (hnew q hq)
  · intro q _ o tl _ ob a h1 h2; exact ⟨ob, by rw [hobs?]; exact h1, h2⟩
  · intro ob' hob' hst
    left; exact ⟨ob', by rw [updProc_obs, hobs] at hob'; exact hob', rfl, hst⟩
  · intro ob' hob' hst
    left; exact ⟨ob', by rw [updProc_obs, hobs] at hob'; exact hob', rfl, hst⟩
  · intro o tl e; exact absurd (stream_tag e) htag
  · intro o ob h1; exact ⟨ob, by rw [hobs?]; exact h1, rfl⟩
  · intro o
    show s.buf.sizeOf o ≤ (s.block p orc).1.buf.sizeOf o
    unfold Buffer.sizeOf; rw [hsize]; exact Int.le_refl _
  · intro ob' hob'
    exact ⟨ob', by rw [updProc_obs, hobs] at hob'; exact hob', rfl⟩

/-! ### the telescope -/

theorem si_telescope {s : Sys} (hs : SInv s) (hfi : FI s) (hb : BufI s) (h : SI s) {p : Proc} (hp : p ∈ s.procs)
    (ha : p.alive = true) (hmin : ∀ q ∈ s.procs, q.alive = true → p.wake ≤ q.wake)
    (hk : p.k = .telescope) (orc : Oracle) :
    SI ((s.block p orc).1.updProc p.pid (fin (s.block p orc).2.1 (s.block p orc).2.2 p.wake)) := by
  have hpw := hs.pw
  have heg := hs.eg
  have hnd := heg.obsNodup
  have hbk : s.block p orc = ((s.telescopeBlock p.wake).1, .telescope, (s.telescopeBlock p.wake).2) := by
    unfold block; simp only [hk]
  have hwake0 := heg.telWake p hp hk
  have hn : ((natNow p.wake : Nat) : Time) ≤ p.wake := natNow_le p.wake hwake0
  have hrel := telescopeBlock_orel s p.wake hnd hfi.obs.durPos
  obtain ⟨new, hprocs, hnewk⟩ := telescopeBlock_procs s p.wake
  have hpwX : PW (s.telescopeBlock p.wake).1 := (telescope_key heg hp ha hmin hk).1.pw hpw
  have hbuf : (s.block p orc).1.buf = s.buf :=
    block_buf s p orc (by simp [hk, PK.tag]) (by simp [hk, PK.tag]) (by simp [hk, PK.tag]) (by simp [hk, PK.tag])
      (by simp [hk, PK.tag])
  rw [hbk] at hbuf ⊢
  simp only at hbuf ⊢
  have hm := memSpec_updProc hpw hp new hprocs hpwX (fin .telescope (s.telescopeBlock p.wake).2 p.wake)
  -- a WAITING observation has no start time when the telescope runs
  have hwait : ∀ ob ∈ s.obs, ob.status = .waiting → ∀ x, ob.ast = some x → False := by
    intro ob hob hw x hx
    have hadm := hfi.obs.astAdm ob hob (by rw [hx]; simp)
    obtain ⟨ob2, hob2, hw2⟩ := heg.adm ob.id hadm
    have : ob2 = ob := by
      have := obs?_of_mem hnd hob
      rw [this] at hob2; injection hob2 with e; exact e.symm
    subst this
    obtain ⟨w, hw1, hwa, _, _, hlt⟩ := hw2 hw
    have h1 := hlt p hp hk ha
    have h2 := hmin w hw1 hwa
    grind
  have hobsY : ∀ o, (((s.telescopeBlock p.wake).1).updProc p.pid
      (fin .telescope (s.telescopeBlock p.wake).2 p.wake)).obs? o
      = (s.telescopeBlock p.wake).1.obs.find? (fun r => decide (r.id = o)) := fun o => rfl
  refine h.stepP hpw hp hm (by simp) ?_ ?_ ?_ ?_ ?_ ?_ ?_ ?_ ?_ ?_
  · intro o tl e; simp at e
  · intro o tl e; rw [hk] at e; simp at e
  · intro q hq o tl e
    have := hnewk q hq; rw [e] at this; simp [PK.tag] at this
  · intro q hq o tl hqk ob a h1 h2
    obtain ⟨r, hr, hrs⟩ := hb.strObs q hq o tl hqk
    have : r = ob := by
      have h1' : s.obs.find? (fun r => decide (r.id = o)) = some ob := h1
      rw [h1'] at hr; injection hr with e; exact e.symm
    subst this
    obtain ⟨ob', e1, _, _, e4⟩ := hrel.fwd hnd (o := o) h1
    exact ⟨ob', by rw [hobsY]; exact e1, by rw [(e4 hrs).2]; exact h2⟩
  · intro ob' hob' hst
    have hob'' : ob' ∈ (s.telescopeBlock p.wake).1.obs := hob'
    obtain ⟨ob, hob, i, _, _, _, st, _, f⟩ := hrel.rel ob' hob''
    by_cases hw : ob.status = .waiting
    · exfalso
      rcases st with e | e
      · exact hst (e.trans hw)
      · rcases f e with g | ⟨x, gx, _⟩
        · rw [hw] at g; exact absurd g (by simp)
        · exact hwait ob hob hw x gx
    · left; exact ⟨ob, hob, i.symm, hw⟩
  · intro ob' hob' hst
    have hob'' : ob' ∈ (s.telescopeBlock p.wake).1.obs := hob'
    obtain ⟨ob, hob, i, _, _, _, _, _, f⟩ := hrel.rel ob' hob''
    rcases f hst with g | ⟨x, gx, gle⟩
    · left; exact ⟨ob, hob, i.symm, g⟩
    · right
      have hw : ob.status ≠ .waiting := fun hw => hwait ob hob hw x gx
      obtain ⟨q, hq, tl, hqk⟩ := h.os ob hob hw
      refine ⟨q, hq, tl, by rw [i]; exact hqk, ?_⟩
      by_cases hq0 : q.pc = 0
      · exfalso
        obtain ⟨hqa, ob1, a, g1, g2, g3⟩ := h.sw q hq _ tl hqk hq0
        have : ob1 = ob := by
          have := obs?_of_mem hnd hob
          rw [this] at g1; injection g1 with e; exact e.symm
        subst this
        rw [gx] at g2; injection g2 with g2
        subst g2
        have h1 := hmin q hq hqa
        rw [g3] at h1
        have h2 : ((natNow p.wake : Nat) : Rat) ≤ ((x : Nat) : Rat) := Rat.le_trans hn h1
        have h3 := Rat.natCast_le_natCast.mp h2
        have h4 := hfi.obs.durPos ob1 hob
        omega
      · omega
  · intro o tl e; rw [hk] at e; simp at e
  · intro o ob h1
    obtain ⟨ob', e1, _, e3, _⟩ := hrel.fwd hnd (o := o) h1
    exact ⟨ob', by rw [hobsY]; exact e1, e3⟩
  · intro o
    show s.buf.sizeOf o ≤ (s.telescopeBlock p.wake).1.buf.sizeOf o
    rw [hbuf]; exact Int.le_refl _
  · intro ob' hob'
    have hob'' : ob' ∈ (s.telescopeBlock p.wake).1.obs := hob'
    obtain ⟨ob, hob, _, r, _⟩ := hrel.rel ob' hob''
    exact ⟨ob, hob, r⟩

end Sys
end Topsim
