/-
  Block lemmas, part 4: the admission block of the telescope
  (`telescopeVisit` / `checkIngestCapacity`), `provisionIngest`, and the monitor's row.
-/
import TopsimProofs.BlockLemmas3

namespace Topsim
namespace Sys

/-! ### check_ingest_capacity -/

theorem checkCapacity_true (b : Buffer) (rate dur : Int) (h : b.checkCapacity rate dur = .ok true) :
    1 ≤ dur ∧ rate * dur < b.hot.total ∧ rate * dur ≤ b.hot.cur ∧
      b.coldHasCapacityFor (rate * dur) = true := by
  unfold Buffer.checkCapacity at h
  by_cases a1 : dur < 1
  · simp [a1] at h
  · by_cases a2 : b.hot.total ≤ rate * dur
    · simp [a1, a2] at h
    · by_cases a3 : b.hot.cur - rate * dur < 0
      · simp [a1, a2, a3] at h
      · simp [a1, a2, a3] at h
        exact ⟨by omega, by omega, by omega, h⟩

/-- F14: what the reservation counter `r` promises beyond the ingest pool -/
theorem promised_eq_max (r : Int) (n : Nat) :
    (if r - (n : Int) < 0 then (0 : Int) else r - (n : Int)) = max 0 (r - (n : Int)) := by
  by_cases h : r - (n : Int) < 0
  · rw [if_pos h, Int.max_eq_left (by omega)]
  · rw [if_neg h, Int.max_eq_right (by omega)]

/-- F14: the cluster test, as a proposition -/
theorem clCheckIngestCapacity_iff (c : Cluster) (d mx : Nat) (r : Int) :
    c.checkIngestCapacity d mx r = true ↔
      (d : Int) + max 0 (r - (c.ingest.length : Int)) ≤ (c.available.length : Int) ∧
        c.ingest.length + d ≤ mx := by
  unfold Cluster.checkIngestCapacity
  simp only [promised_eq_max]
  by_cases a1 : d > mx
  · rw [if_pos a1]
    exact ⟨fun h => (by cases h), fun h => (by omega)⟩
  · by_cases a2 : (c.available.length : Int) - max 0 (r - (c.ingest.length : Int)) ≥ (d : Int) ∧
        c.ingest.length + d ≤ mx
    · rw [if_neg a1, if_pos a2]
      exact ⟨fun _ => ⟨by omega, a2.2⟩, fun _ => rfl⟩
    · rw [if_neg a1, if_neg a2]
      exact ⟨fun h => (by cases h), fun h => absurd ⟨(by omega), h.2⟩ a2⟩

-- F14: stated for an arbitrary reservation counter `r` (the old statement was the case `r = 0`);
-- the new conjunct is the promised-machines inequality
theorem clCheckIngestCapacity_true (c : Cluster) (d mx : Nat) (r : Int)
    (h : c.checkIngestCapacity d mx r = true) :
    d ≤ c.available.length ∧ c.ingest.length + d ≤ mx ∧
      (d : Int) + max 0 (r - (c.ingest.length : Int)) ≤ (c.available.length : Int) := by
  obtain ⟨h1, h2⟩ := (clCheckIngestCapacity_iff c d mx r).mp h
  exact ⟨by omega, h2, h1⟩

/-- F14: the repaired test is at least as strict as the old one (`reserved = 0`) -/
theorem clCheckIngestCapacity_old (c : Cluster) (d mx : Nat) (r : Int)
    (h : c.checkIngestCapacity d mx r = true) : c.checkIngestCapacity d mx = true := by
  obtain ⟨h1, h2⟩ := (clCheckIngestCapacity_iff c d mx r).mp h
  exact (clCheckIngestCapacity_iff c d mx 0).mpr ⟨by omega, h2⟩

/-- F14: with nothing promised (`r ≤ |ingest pool|`) the repaired test is the old one -/
theorem clCheckIngestCapacity_quiet (c : Cluster) (d mx : Nat) (r : Int) (hr : r ≤ c.ingest.length) :
    c.checkIngestCapacity d mx r = c.checkIngestCapacity d mx := by
  have e : ∀ a b : Bool, (a = true ↔ b = true) → a = b := by
    intro a b; cases a <;> cases b <;> simp
  apply e
  rw [clCheckIngestCapacity_iff, clCheckIngestCapacity_iff]
  have : max 0 (r - (c.ingest.length : Int)) = 0 := by omega
  have : max 0 ((0 : Int) - (c.ingest.length : Int)) = 0 := by omega
  constructor <;> intro ⟨h1, h2⟩ <;> exact ⟨by omega, h2⟩

theorem checkIngestCapacity_true (s : Sys) (o : Obs) (s1 : Sys)
    (h : s.checkIngestCapacity o = .ok (s1, true)) :
    o.ingestDemand ≤ s.cl.available.length ∧
    s.cl.ingest.length + o.ingestDemand ≤ s.maxIngest ∧
    s.provIngest + o.ingestDemand ≤ s.maxIngest ∧
    o.rate * o.duration ≤ s.buf.hot.cur ∧ o.rate * o.duration < s.buf.hot.total ∧
    s.buf.coldHasCapacityFor (o.rate * o.duration) = true ∧
    s1 = { s with provIngest := s.provIngest + o.ingestDemand } := by
  unfold checkIngestCapacity at h
  split at h
  · simp at h
  · rename_i bc hbc
    split at h
    · rename_i hcl
      split at h
      · rename_i hpi
        simp only [Except.ok.injEq, Prod.mk.injEq] at h
        obtain ⟨h1, h2⟩ := h
        subst h2
        simp only [if_true] at h1
        obtain ⟨c1, c2, _⟩ := clCheckIngestCapacity_true _ _ _ _ hcl
        obtain ⟨b1, b2, b3, b4⟩ := checkCapacity_true _ _ _ hbc
        exact ⟨c1, c2, hpi, b3, b2, b4, h1.symm⟩
      · simp at h
    · simp at h

/-- F14: an admission also certifies that the machines available cover the demand AND what the
reservation counter promises beyond the ingest pool -/
theorem checkIngestCapacity_promised (s : Sys) (o : Obs) (s1 : Sys)
    (h : s.checkIngestCapacity o = .ok (s1, true)) :
    (o.ingestDemand : Int) + max 0 (s.provIngest - (s.cl.ingest.length : Int)) ≤
      (s.cl.available.length : Int) := by
  unfold checkIngestCapacity at h
  split at h
  · simp at h
  · split at h
    · rename_i hcl
      exact (clCheckIngestCapacity_true _ _ _ _ hcl).2.2
    · simp at h

-- F14: hypothesis `hav` is the new inequality (demand + promised ≤ available)
theorem checkIngestCapacity_admit (s : Sys) (o : Obs)
    (hav : (o.ingestDemand : Int) + max 0 (s.provIngest - (s.cl.ingest.length : Int)) ≤
      (s.cl.available.length : Int)) (_hlim : o.ingestDemand ≤ s.maxIngest)
    (hing : s.cl.ingest.length + o.ingestDemand ≤ s.maxIngest)
    (hprov : s.provIngest + o.ingestDemand ≤ s.maxIngest)
    (hdur : 1 ≤ o.duration)
    (hhot : o.rate * o.duration ≤ s.buf.hot.cur) (hcap : o.rate * o.duration < s.buf.hot.total)
    (hcold : s.buf.coldHasCapacityFor (o.rate * o.duration) = true) :
    s.checkIngestCapacity o
      = .ok ({ s with provIngest := s.provIngest + o.ingestDemand }, true) := by
  have h1 : s.buf.checkCapacity o.rate o.duration = .ok true := by
    unfold Buffer.checkCapacity
    have a1 : ¬ ((o.duration : Int) < 1) := by omega
    have a2 : ¬ (s.buf.hot.total ≤ o.rate * o.duration) := by omega
    have a3 : ¬ (s.buf.hot.cur - o.rate * o.duration < 0) := by omega
    simp [a1, a2, a3, hcold]
  have h2 : s.cl.checkIngestCapacity o.ingestDemand s.maxIngest s.provIngest = true :=
    (clCheckIngestCapacity_iff _ _ _ _).mpr ⟨hav, hing⟩
  unfold checkIngestCapacity
  simp [h1, h2, hprov]

/-! ### the admission block -/

theorem isReady_iff (o : Obs) (now : Nat) (cap : Int) :
    o.isReady now cap = true ↔ o.est ≤ now ∧ (o.demand : Int) ≤ cap ∧ o.status = .waiting := by
  unfold Obs.isReady
  simp [and_assoc]

theorem isFinishedAt_iff (o : Obs) (now : Nat) (ts : Bool) :
    o.isFinishedAt now ts = true ↔
      ∃ a, o.ast = some a ∧ a + o.duration ≤ now ∧ ts = true ∧ o.status ≠ .finished := by
  unfold Obs.isFinishedAt
  cases o.ast with
  | none => simp
  | some a => simp [and_assoc]

/-- the state after the admission branch, from the state `s1` returned by
`checkIngestCapacity` -/
def admitState (s1 : Sys) (now : Nat) (oid : Oid) (o : Obs) : Sys :=
  ((({ s1 with telUse := s1.telUse + o.demand, telStatus := true,
               admitted := s1.admitted ++ [oid] }).updObs oid
      (fun r => { r with ast := some now })).spawn (.allocIngest oid 0) now).1.addTel
    ⟨now, oid, .telStarted⟩

@[simp] theorem admitState_admitted (s1 now oid o) : (admitState s1 now oid o).admitted = s1.admitted ++ [oid] := rfl
@[simp] theorem admitState_telUse (s1 now oid o) : (admitState s1 now oid o).telUse = s1.telUse + o.demand := rfl
@[simp] theorem admitState_totalArrays (s1 now oid o) : (admitState s1 now oid o).totalArrays = s1.totalArrays := rfl
@[simp] theorem admitState_provIngest (s1 now oid o) : (admitState s1 now oid o).provIngest = s1.provIngest := rfl
@[simp] theorem admitState_telEvents (s1 now oid o) :
    (admitState s1 now oid o).telEvents = s1.telEvents ++ [⟨now, oid, .telStarted⟩] := rfl
theorem admitState_obs (s1 now oid o) :
    (admitState s1 now oid o).obs = (s1.updObs oid (fun r => { r with ast := some now })).obs := rfl

theorem obs?_of_updObs {a b : Sys} (o : Oid) (f : Obs → Obs) (hid : ∀ r, (f r).id = r.id)
    (h : b.obs = (a.updObs o f).obs) : b.obs? o = (a.obs? o).map f := by
  rw [obs?_congr h, updObs_obs? a o f hid, if_pos rfl]

/-- the three ways a visit can change the state -/
theorem telescopeVisit_cases (now : Nat) (s : Sys) (oid : Oid) (o : Obs)
    (ho : s.obs? oid = some o) :
    (telescopeVisit now (s, none) oid).1 = s ∨
    (o.isReady now ((s.totalArrays : Int) - s.telUse) = true ∧
      ∃ s1, s.checkIngestCapacity o = .ok (s1, false) ∧ telescopeVisit now (s, none) oid = (s1, none)) ∨
    (o.isReady now ((s.totalArrays : Int) - s.telUse) = true ∧
      ∃ s1, s.checkIngestCapacity o = .ok (s1, true) ∧ telescopeVisit now (s, none) oid =
        (admitState s1 now oid o, none)) ∨
    (o.isReady now ((s.totalArrays : Int) - s.telUse) = false ∧ o.isFinishedAt now s.telStatus = true ∧
      telescopeVisit now (s, none) oid =
        (({ (s.updObs oid (fun r => { r with status := .finished })) with
              telUse := s.telUse - o.demand,
              telStatus := if s.telUse - o.demand = 0 then false else s.telStatus }).addTel
            ⟨now, oid, .telFinished⟩, none)) := by
  unfold telescopeVisit
  simp only [ho]
  split
  · rename_i hr
    split
    · left; rfl
    · rename_i s1 hc
      right; left; exact ⟨hr, s1, hc, rfl⟩
    · rename_i s1 hc
      right; right; left; exact ⟨hr, s1, hc, rfl⟩
  · rename_i hr
    split
    · rename_i hf
      right; right; right
      exact ⟨by simpa using hr, hf, rfl⟩
    · left; rfl

theorem admission_guard (now : Nat) (s s' : Sys) (oid : Oid) (o : Obs)
    (ho : s.obs? oid = some o) (h : telescopeVisit now (s, none) oid = (s', none))
    (hadm : s'.admitted ≠ s.admitted) :
    o.est ≤ now ∧ o.status = .waiting ∧
    (o.demand : Int) ≤ (s.totalArrays : Int) - s.telUse ∧
    o.ingestDemand ≤ s.cl.available.length ∧
    -- F14: new conjunct, the machines available also cover what is promised
    (o.ingestDemand : Int) + max 0 (s.provIngest - (s.cl.ingest.length : Int)) ≤
      (s.cl.available.length : Int) ∧
    s.cl.ingest.length + o.ingestDemand ≤ s.maxIngest ∧
    s.provIngest + o.ingestDemand ≤ s.maxIngest ∧
    o.rate * o.duration ≤ s.buf.hot.cur ∧ o.rate * o.duration < s.buf.hot.total ∧
    s.buf.coldHasCapacityFor (o.rate * o.duration) = true ∧
    s'.admitted = s.admitted ++ [oid] ∧ s'.telUse = s.telUse + o.demand ∧
    s'.provIngest = s.provIngest + o.ingestDemand := by
  rcases telescopeVisit_cases now s oid o ho with hc | ⟨_, s1, hc, hv⟩ | ⟨hr, s1, hc, hv⟩ | ⟨_, _, hv⟩
  · rw [h] at hc
    exact absurd (by rw [← hc]) hadm
  · rw [h] at hv
    obtain ⟨rfl, _⟩ := Prod.mk.inj hv
    rcases checkIngestCapacity_ok s o _ _ hc with e | ⟨e, _⟩
    · exact absurd (by rw [e]) hadm
    · simp at e
  · rw [h] at hv
    obtain ⟨rfl, _⟩ := Prod.mk.inj hv
    have cp := checkIngestCapacity_promised s o s1 hc
    obtain ⟨c1, c2, c3, c4, c5, c6, rfl⟩ := checkIngestCapacity_true s o s1 hc
    obtain ⟨r1, r2, r3⟩ := (isReady_iff _ _ _).mp hr
    exact ⟨r1, r3, r2, c1, cp, c2, c3, c4, c5, c6, by simp, by simp, by simp⟩
  · rw [h] at hv
    obtain ⟨rfl, _⟩ := Prod.mk.inj hv
    exact absurd (by simp) hadm

theorem admission_on_time (now : Nat) (s : Sys) (oid : Oid) (o : Obs) (ho : s.obs? oid = some o)
    (hdue : o.est ≤ now) (hw : o.status = .waiting)
    (harr : (o.demand : Int) ≤ (s.totalArrays : Int) - s.telUse)
    -- F14: `hav` is the new inequality (demand + promised ≤ available)
    (hav : (o.ingestDemand : Int) + max 0 (s.provIngest - (s.cl.ingest.length : Int)) ≤
      (s.cl.available.length : Int)) (hlim : o.ingestDemand ≤ s.maxIngest)
    (hing : s.cl.ingest.length + o.ingestDemand ≤ s.maxIngest)
    (hprov : s.provIngest + o.ingestDemand ≤ s.maxIngest)
    (hdur : 1 ≤ o.duration)
    (hhot : o.rate * o.duration ≤ s.buf.hot.cur) (hcap : o.rate * o.duration < s.buf.hot.total)
    (hcold : s.buf.coldHasCapacityFor (o.rate * o.duration) = true) :
    ∃ s', telescopeVisit now (s, none) oid = (s', none) ∧ s'.admitted = s.admitted ++ [oid] ∧
      (s'.obs? oid).map (·.ast) = some (some now) := by
  have hr : o.isReady now ((s.totalArrays : Int) - s.telUse) = true :=
    (isReady_iff _ _ _).mpr ⟨hdue, harr, hw⟩
  have hc := checkIngestCapacity_admit s o hav hlim hing hprov hdur hhot hcap hcold
  refine ⟨admitState { s with provIngest := s.provIngest + o.ingestDemand } now oid o, ?_, ?_, ?_⟩
  · unfold telescopeVisit
    simp only [ho, hr, if_true, hc]
    rfl
  · simp
  · have key : ∀ b : Sys, b.obs = (s.updObs oid (fun r => { r with ast := some now })).obs →
        (b.obs? oid).map (·.ast) = some (some now) := by
      intro b hb
      rw [obs?_of_updObs oid _ (by intro _; rfl) hb, ho]
      rfl
    exact key _ rfl

theorem arrays_step (now : Nat) (s s' : Sys) (oid : Oid) (e : Option Err)
    (h : telescopeVisit now (s, none) oid = (s', e))
    (hb : 0 ≤ s.telUse ∧ s.telUse ≤ s.totalArrays)
    (hfin : ∀ o, s.obs? oid = some o → o.isFinishedAt now s.telStatus = true →
      (o.demand : Int) ≤ s.telUse) :
    0 ≤ s'.telUse ∧ s'.telUse ≤ s'.totalArrays := by
  cases ho : s.obs? oid with
  | none =>
    have : telescopeVisit now (s, none) oid = (s, none) := by
      unfold telescopeVisit; simp [ho]
    rw [this] at h
    obtain ⟨rfl, _⟩ := Prod.mk.inj h
    exact hb
  | some o =>
    rcases telescopeVisit_cases now s oid o ho with hc | ⟨_, s1, hc, hv⟩ | ⟨hr, s1, hc, hv⟩ | ⟨_, hf, hv⟩
    · rw [h] at hc
      simp only at hc
      rw [hc]; exact hb
    · rw [h] at hv
      obtain ⟨rfl, _⟩ := Prod.mk.inj hv
      rcases checkIngestCapacity_ok s o _ _ hc with e | ⟨e, _⟩
      · rw [e]; exact hb
      · simp at e
    · rw [h] at hv
      obtain ⟨rfl, _⟩ := Prod.mk.inj hv
      obtain ⟨_, _, _, _, _, _, rfl⟩ := checkIngestCapacity_true s o s1 hc
      obtain ⟨_, r2, _⟩ := (isReady_iff _ _ _).mp hr
      simp only [admitState_telUse, admitState_totalArrays]
      omega
    · rw [h] at hv
      obtain ⟨rfl, _⟩ := Prod.mk.inj hv
      have := hfin o ho hf
      simp only [addTel_telUse, addTel_totalArrays, updObs_totalArrays]
      omega

theorem finished_after_duration (now : Nat) (s s' : Sys) (oid : Oid) (o : Obs)
    (ho : s.obs? oid = some o) (h : telescopeVisit now (s, none) oid = (s', none))
    (hev : (⟨now, oid, .telFinished⟩ : Event) ∈ s'.telEvents ∧
      (⟨now, oid, .telFinished⟩ : Event) ∉ s.telEvents) :
    ∃ a, o.ast = some a ∧ a + o.duration ≤ now ∧ o.status ≠ .finished ∧
      (s'.obs? oid).map (·.status) = some .finished := by
  rcases telescopeVisit_cases now s oid o ho with hc | ⟨_, s1, hc, hv⟩ | ⟨hr, s1, hc, hv⟩ | ⟨_, hf, hv⟩
  · rw [h] at hc
    simp only at hc
    rw [hc] at hev
    exact absurd hev.1 hev.2
  · rw [h] at hv
    obtain ⟨rfl, _⟩ := Prod.mk.inj hv
    rcases checkIngestCapacity_ok s o _ _ hc with e | ⟨e, _⟩
    · rw [e] at hev; exact absurd hev.1 hev.2
    · simp at e
  · rw [h] at hv
    obtain ⟨rfl, _⟩ := Prod.mk.inj hv
    obtain ⟨_, _, _, _, _, _, rfl⟩ := checkIngestCapacity_true s o s1 hc
    obtain ⟨h1, h2⟩ := hev
    simp at h1
    exact absurd h1 h2
  · rw [h] at hv
    obtain ⟨rfl, _⟩ := Prod.mk.inj hv
    obtain ⟨a, ha, hd, _, hs⟩ := (isFinishedAt_iff _ _ _).mp hf
    refine ⟨a, ha, hd, hs, ?_⟩
    have key : ∀ b : Sys, b.obs = (s.updObs oid (fun r => { r with status := .finished })).obs →
        (b.obs? oid).map (·.status) = some .finished := by
      intro b hb
      rw [obs?_of_updObs oid _ (by intro _; rfl) hb, ho]
      rfl
    exact key _ rfl

/-! ### provision_ingest_resources -/

theorem moveToIngest_exact (c : Cluster) (obs : Oid) (pairs : List (Mid × Tid)) (rest : List Mid)
    (hav : c.available = pairs.map (·.1) ++ rest) :
    (Cluster.moveToIngest c obs pairs).2 = none ∧
    (Cluster.moveToIngest c obs pairs).1.ingest = c.ingest ++ pairs.map (·.1) ∧
    (Cluster.moveToIngest c obs pairs).1.available = rest := by
  induction pairs generalizing c with
  | nil =>
    simp only [List.map_nil, List.nil_append] at hav
    exact ⟨rfl, by simp [Cluster.moveToIngest], hav⟩
  | cons p ps ih =>
    obtain ⟨m, t⟩ := p
    simp only [List.map_cons, List.cons_append] at hav
    have hm : m ∈ c.available := by rw [hav]; simp
    unfold Cluster.moveToIngest
    simp only [hm, if_true]
    have := ih { c with ingest := c.ingest ++ [m], available := c.available.erase m,
                        pending := c.pending ++ [⟨t, m, some obs, true⟩] }
      (by simp [hav])
    obtain ⟨i1, i2, i3⟩ := this
    refine ⟨i1, ?_, i3⟩
    rw [i2]
    simp

theorem provisionIngest_exact (c c' : Cluster) (demand : Nat) (o : Oid) (pairs : List (Mid × Tid))
    (_hnd : c.available.Nodup) (h : c.provisionIngest demand o = (c', none, pairs)) :
    pairs.length = demand ∧ pairs.map (·.1) = c.available.take demand ∧
    c'.ingest = c.ingest ++ c.available.take demand ∧ c'.available = c.available.drop demand ∧
    pairs.map (·.2) = (List.range demand).map (Tid.ingest o) := by
  unfold Cluster.provisionIngest at h
  by_cases hd : demand > c.available.length
  · simp [hd] at h
  · simp only [hd, if_false] at h
    generalize hp : ((c.available.take demand).zipIdx.map
      (fun (x : Mid × Nat) => (x.1, Tid.ingest o x.2))) = pairs' at h
    have hfst : pairs'.map (·.1) = c.available.take demand := by
      subst hp; rw [List.map_map]; exact List.zipIdx_map_fst 0 _
    have hsnd : pairs'.map (·.2)
        = (List.range' 0 (c.available.take demand).length).map (Tid.ingest o) := by
      subst hp; rw [List.map_map, ← List.zipIdx_map_snd 0, List.map_map]; rfl
    have hlen : (c.available.take demand).length = demand := by
      rw [List.length_take]; omega
    have hmv := moveToIngest_exact { c with ingestStatus := true, ingestDemand := demand } o pairs'
      (c.available.drop demand) (by rw [hfst]; exact (List.take_append_drop _ _).symm)
    generalize hr : Cluster.moveToIngest { c with ingestStatus := true, ingestDemand := demand } o pairs'
      = r at h hmv
    obtain ⟨c2, e2⟩ := r
    simp only [Prod.mk.injEq] at h
    obtain ⟨rfl, rfl, rfl⟩ := h
    obtain ⟨_, m2, m3⟩ := hmv
    refine ⟨?_, hfst, ?_, m3, ?_⟩
    · rw [← hlen, ← hfst, List.length_map]
    · rw [m2, hfst]
    · rw [hsnd, hlen, List.range_eq_range']

/-! ### the monitor's row -/

theorem inv_uIngest {c : Cluster} {U : List Tid} (h : Cluster.Inv c U) :
    c.uIngest = (c.running.filter Tid.isIngest).length := by
  rw [h.cntIngest, ← h.runOnTasks, List.filter_map, List.length_map]
  simp only [Cluster.runMachines, List.length_map]
  congr 2
  apply List.filter_congr
  intro x hx
  have := h.ingRun x hx
  simp only [Function.comp]
  rw [← this]
  cases x.ing <;> rfl

theorem inv_uAvail_quiet {c : Cluster} {U : List Tid} (h : Cluster.Inv c U) (hp : c.pending = []) :
    c.uAvail = (c.available.length : Int) + c.idleAll.length := by
  have hav := h.cntAvail
  have h1 := h.perm.length_eq
  have h2 := length_eq_of_count_eq h.occ
  have h3 : (c.runMachines true).length = c.ingest.length := by
    apply length_eq_of_count_eq
    intro m
    have := h.ingm m
    rw [hp] at this
    simpa using this
  have h4 := length_filter_bool_split (·.ing) c.runOn
  have h5 : c.running.length = c.runOn.length := by rw [← h.runOnTasks, List.length_map]
  simp only [Cluster.runMachines, List.length_map] at h2 h3
  simp only [List.length_append] at h1
  omega

theorem row_true (s : Sys) (U : List Tid) (hinv : Cluster.Inv s.cl U) (n : Nat) :
    let r := s.mkRow n
    r.running = s.cl.running.length ∧
    r.available = (s.cl.machines.length : Int) - s.cl.running.length ∧
    r.ingest = (s.cl.running.filter Tid.isIngest).length ∧
    r.finished = (s.cl.finished.filter (·.2)).length ∧
    r.provisioned = s.cl.idle.length ∧
    r.hot = s.buf.hot.cur ∧ r.cold = s.buf.cold.cur ∧
    r.stored = s.buf.hot.stored.length + s.buf.cold.stored.length ∧
    r.waiting = (s.obs.filter (·.status = .waiting)).length ∧
    r.obsFinished = (s.obs.filter (·.status = .finished)).length ∧
    r.queue = s.queue.length :=
  ⟨hinv.cntRunning, hinv.cntAvail, inv_uIngest hinv, hinv.cntFinished, rfl, rfl, rfl,
    Nat.add_comm _ _, rfl, rfl, rfl⟩

theorem row_available_true (s : Sys) (U : List Tid) (hinv : Cluster.Inv s.cl U) (n : Nat)
    (hp : s.cl.pending = []) :
    (s.mkRow n).available = (s.cl.available.length : Int) + s.cl.idleAll.length :=
  inv_uAvail_quiet hinv hp

end Sys
end Topsim
