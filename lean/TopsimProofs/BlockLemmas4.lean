/-
  Block lemmas, part 4: the admission block of the telescope
  (`telescopeVisit` / `checkIngestCapacity`), `provisionIngest`, and the monitor's row.
-/
import TopsimProofs.BlockLemmas3

namespace Topsim
namespace Sys

/-! ### check_ingest_capacity -/

theorem checkCapacity_true (b : Buffer) (rate dur : Int) (h : b.checkCapacity rate dur = .ok true) :
    1 ≤ dur ∧ rate * dur < b.hot.total ∧ rate * dur ≤ b.hot.cur ∧
      b.coldHasCapacityFor (rate * dur) = true := by
  unfold Buffer.checkCapacity at h
  by_cases a1 : dur < 1
  · simp [a1] at h
  · by_cases a2 : b.hot.total ≤ rate * dur
    · simp [a1, a2] at h
    · by_cases a3 : b.hot.cur - rate * dur < 0
      · simp [a1, a2, a3] at h
      · simp [a1, a2, a3] at h
        exact ⟨by omega, by omega, by omega, h⟩

theorem clCheckIngestCapacity_true (c : Cluster) (d mx : Nat) (h : c.checkIngestCapacity d mx = true) :
    d ≤ c.available.length ∧ c.ingest.length + d ≤ mx := by
  unfold Cluster.checkIngestCapacity at h
  by_cases a1 : d > mx
  · simp [a1] at h
  · by_cases a2 : c.available.length ≥ d ∧ c.ingest.length + d ≤ mx
    · exact a2
    · simp [a1, a2] at h

theorem checkIngestCapacity_true (s : Sys) (o : Obs) (s1 : Sys)
    (h : s.checkIngestCapacity o = .ok (s1, true)) :
    o.ingestDemand ≤ s.cl.available.length ∧
    s.cl.ingest.length + o.ingestDemand ≤ s.maxIngest ∧
    s.provIngest + o.ingestDemand ≤ s.maxIngest ∧
    o.rate * o.duration ≤ s.buf.hot.cur ∧ o.rate * o.duration < s.buf.hot.total ∧
    s.buf.coldHasCapacityFor (o.rate * o.duration) = true ∧
    s1 = { s with provIngest := s.provIngest + o.ingestDemand } := by
  unfold checkIngestCapacity at h
  split at h
  · simp at h
  · rename_i bc hbc
    split at h
    · rename_i hcl
      split at h
      · rename_i hpi
        simp only [Except.ok.injEq, Prod.mk.injEq] at h
        obtain ⟨h1, h2⟩ := h
        subst h2
        simp only [if_true] at h1
        obtain ⟨c1, c2⟩ := clCheckIngestCapacity_true _ _ _ hcl
        obtain ⟨b1, b2, b3, b4⟩ := checkCapacity_true _ _ _ hbc
        exact ⟨c1, c2, hpi, b3, b2, b4, h1.symm⟩
      · simp at h
    · simp at h

theorem checkIngestCapacity_admit (s : Sys) (o : Obs)
    (hav : o.ingestDemand ≤ s.cl.available.length) (hlim : o.ingestDemand ≤ s.maxIngest)
    (hing : s.cl.ingest.length + o.ingestDemand ≤ s.maxIngest)
    (hprov : s.provIngest + o.ingestDemand ≤ s.maxIngest)
    (hdur : 1 ≤ o.duration)
    (hhot : o.rate * o.duration ≤ s.buf.hot.cur) (hcap : o.rate * o.duration < s.buf.hot.total)
    (hcold : s.buf.coldHasCapacityFor (o.rate * o.duration) = true) :
    s.checkIngestCapacity o
      = .ok ({ s with provIngest := s.provIngest + o.ingestDemand }, true) := by
  have h1 : s.buf.checkCapacity o.rate o.duration = .ok true := by
    unfold Buffer.checkCapacity
    have a1 : ¬ ((o.duration : Int) < 1) := by omega
    have a2 : ¬ (s.buf.hot.total ≤ o.rate * o.duration) := by omega
    have a3 : ¬ (s.buf.hot.cur - o.rate * o.duration < 0) := by omega
    simp [a1, a2, a3, hcold]
  have h2 : s.cl.checkIngestCapacity o.ingestDemand s.maxIngest = true := by
    unfold Cluster.checkIngestCapacity
    have a1 : ¬ (o.ingestDemand > s.maxIngest) := by omega
    simp [a1, hav, hing]
  unfold checkIngestCapacity
  simp [h1, h2, hprov]

/-! ### the admission block -/

theorem isReady_iff (o : Obs) (now : Nat) (cap : Int) :
    o.isReady now cap = true ↔ o.est ≤ now ∧ (o.demand : Int) ≤ cap ∧ o.status = .waiting := by
  unfold Obs.isReady
  simp [and_assoc]

theorem isFinishedAt_iff (o : Obs) (now : Nat) (ts : Bool) :
    o.isFinishedAt now ts = true ↔
      ∃ a, o.ast = some a ∧ a + o.duration ≤ now ∧ ts = true ∧ o.status ≠ .finished := by
  unfold Obs.isFinishedAt
  cases o.ast with
  | none => simp
  | some a => simp [and_assoc]

/-- the three ways a visit can change the state -/
theorem telescopeVisit_cases (now : Nat) (s : Sys) (oid : Oid) (o : Obs)
    (ho : s.obs? oid = some o) :
    (telescopeVisit now (s, none) oid).1 = s ∨
    (o.isReady now ((s.totalArrays : Int) - s.telUse) = true ∧
      (∃ s1, s.checkIngestCapacity o = .ok (s1, false) ∧ telescopeVisit now (s, none) oid = (s1, none)) ∨
      (∃ s1, s.checkIngestCapacity o = .ok (s1, true) ∧ telescopeVisit now (s, none) oid =
        (((({ s1 with telUse := s1.telUse + o.demand, telStatus := true,
                      admitted := s1.admitted ++ [oid] }).updObs oid
              (fun r => { r with ast := some now })).spawn (.allocIngest oid 0) now).1.addTel
            ⟨now, oid, .telStarted⟩, none))) ∨
    (o.isReady now ((s.totalArrays : Int) - s.telUse) = false ∧ o.isFinishedAt now s.telStatus = true ∧
      telescopeVisit now (s, none) oid =
        (({ (s.updObs oid (fun r => { r with status := .finished })) with
              telUse := s.telUse - o.demand,
              telStatus := if s.telUse - o.demand = 0 then false else s.telStatus }).addTel
            ⟨now, oid, .telFinished⟩, none)) := by
  unfold telescopeVisit
  simp only [ho]
  split
  · rename_i hr
    simp only [hr, true_and, Bool.true_eq_false, false_and, or_false]
    split
    · left; rfl
    · rename_i s1 hc
      right; left; exact ⟨s1, hc, rfl⟩
    · rename_i s1 hc
      right; right; exact ⟨s1, hc, rfl⟩
  · rename_i hr
    split
    · rename_i hf
      right; right
      exact ⟨by simpa using hr, hf, rfl⟩
    · left; rfl

end Sys
end Topsim
